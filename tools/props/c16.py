"""C16 — diagnostics locate inside the source and always render; span ids round-trip.

Proof:  Props/C16.v over Model/Span.v with the packing constants translated
        from the current source (T).
K:      operation sequences on the real SpanManager vs the extracted model.
Search: round-trip oracle on the implementation alone; failing programs through
        the library (span bounds) and the real CLI (renders, exit 1, file:line:col).
"""
import os, sys, re, json, subprocess, tempfile, shutil
import vlib
from vlib import hx, hxl
sys.path.insert(0, os.path.dirname(os.path.dirname(os.path.abspath(__file__))))
import translate_span

ID = 'C16'
COMPONENTS = ['span']
THEOREMS = ['C16_consts_ok', 'C16_span_history_roundtrip', 'C16_span_valid_request_accepted',
            'C16_lookup_is_count', 'C16_surrounding_span_valid', 'C16_crop_slices_in_range', 'C16_nonvacuous']
ALLOWED_AXIOMS = set()


def translate(repo):
    return translate_span.main(repo, os.path.join(vlib.COQ, 'Gen', 'SpanConsts.v'))


TRANSLATORS = [translate]


# ---------------------------------------------------------------- generator

def gen_history(rng, consts, size):
    """a history of context/span registrations, boundary-biased, ~10% invalid requests"""
    bits, mask, lmax = consts
    ctx_lens = []
    ops = []
    nctx = rng.randint(1, max(1, size // 4))
    interesting_lens = [0, 1, 2, 7, 100, 4096, lmax - 1, lmax, lmax + 1, lmax + 2, 2 * lmax,
                        mask - 2, mask - 1, mask, mask + 1, 1 << 39, 1 << 40, (1 << 40) - 1]
    nspans = 0
    want_ids = []
    for _ in range(size):
        r = rng.random()
        if not ctx_lens or (r < 0.25 and len(ctx_lens) < nctx + 3):
            if rng.random() < 0.5:
                ln = rng.choice(interesting_lens)
            else:
                ln = rng.choice([rng.randint(0, 300), rng.randint(0, 1 << 26), rng.randint(0, 1 << 40)])
            ctx_lens.append(ln)
            ops.append('c' + hx(ln))
        elif r < 0.85:
            c = rng.randrange(len(ctx_lens))
            ln = ctx_lens[c]
            base = sum(l + 1 for l in ctx_lens[:c])
            kind = rng.random()
            if kind < 0.1:
                # invalid: beyond the end / reversed / unknown context
                k2 = rng.random()
                if k2 < 0.4:
                    a, b = rng.randint(0, ln), ln + rng.randint(1, 3)
                elif k2 < 0.8:
                    b = rng.randint(0, ln); a = b + rng.randint(1, 5)
                else:
                    c = len(ctx_lens) + rng.randint(0, 2); a = b = 0
            else:
                cand = [0, ln, ln // 2, max(0, ln - 1)]
                # starts that straddle the inline-offset limit
                for so in (mask - 2, mask - 1, mask, mask + 1):
                    if base <= so <= base + ln:
                        cand.append(so - base)
                a = rng.choice(cand + [rng.randint(0, ln)])
                lens = [0, 1, 5, lmax - 1, lmax, lmax + 1, ln - a]
                b = min(ln, a + rng.choice(lens + [rng.randint(0, max(0, ln - a))]))
            ops.append('s%s' % hxl([c, a, b]))
            nspans += 1
        else:
            ops.append('g' + hx(rng.randint(0, max(0, nspans))))
    # finally: every id handed out must still decode (history part of the property)
    for i in range(nspans):
        ops.append('g' + hx(i))
    return ops


def oracle(consts, ops, impl_res):
    """Property oracle on the implementation alone.  Returns None or a description."""
    obs = impl_res.split(';') if impl_res else []
    if len(obs) != len(ops):
        return 'observation count %d != op count %d (%s)' % (len(obs), len(ops), impl_res[:80])
    ctx_lens = []
    handed = []   # triples of successful registrations, in order
    for op, ob in zip(ops, obs):
        k, nums = op[0], [int(x, 16) for x in op[1:].split(',')]
        if k == 'c':
            total = sum(l + 1 for l in ctx_lens) + nums[0] + 1
            if total < (1 << 63):
                if ob != 'c%x' % len(ctx_lens):
                    return 'context registration %s answered %s' % (op, ob)
                ctx_lens.append(nums[0])
            elif ob.startswith('c'):
                ctx_lens.append(nums[0])
        elif k == 's':
            c, a, b = nums
            valid = c < len(ctx_lens) and a <= b <= ctx_lens[c]
            if valid:
                if ob != 's%s' % hxl([c, a, b]):
                    return 'valid span (file#%d, %d, %d) of a %d-byte file came back as %s' % (c, a, b, ctx_lens[c], ob)
                handed.append((c, a, b))
            else:
                if ob.startswith('s'):
                    # an out-of-file span was accepted: remember what the manager says
                    handed.append(tuple(int(x, 16) for x in ob[1:].split(',')))
        elif k == 'g':
            i = nums[0]
            if i < len(handed):
                if ob != 't%s' % hxl(list(handed[i])):
                    return 'id #%d registered as %s later decodes as %s' % (i, handed[i], ob)
            elif ob != 'K':
                return 'lookup of a never-issued id answered %s' % ob
    return None


def nontrivial(consts, ops):
    bits, mask, lmax = consts
    ctx_lens = []
    inline = interned = 0
    for op in ops:
        k, nums = op[0], [int(x, 16) for x in op[1:].split(',')]
        if k == 'c':
            ctx_lens.append(nums[0])
        elif k == 's':
            c, a, b = nums
            if c < len(ctx_lens) and a <= b <= ctx_lens[c]:
                base = sum(l + 1 for l in ctx_lens[:c])
                if (b - a) > lmax or base + a >= mask:
                    interned += 1
                else:
                    inline += 1
    return len(ctx_lens) >= 2 and inline >= 1 and interned >= 1


# ---------------------------------------------------------------- diagnostics stream

FAILING_PROGRAMS = [
    b'"abc', b'{a: 1 +,}', b'x', b'1 +', b'\xff', b'[1, 2', b'{a: 1}.b', b'error "boom"',
    b'local f(x) = if x == 0 then error "boom" else f(x-1); {a: [f(%d)]}',
    b'local a = [1,2,3]; a[10]', b'assert false : "msg"; 1', b'{ assert self.x > 1 : "m", x: 1 }',
    b'local o = {a: self.b, b: self.a}; o.a', b'1 / 0', b'std.parseInt("x")', b'"\\u00e9\\u65e5" + (1 + {})',
    b'/* \xe6\x97\xa5\xe6\x9c\xac */ {"\xc3\xa9": 1 + null}', b'\t\t{a:\r\n\t"x" + 1 - 2,\r\n}',
    b'local f(x) = f(x + 1); f(0)', b'[1, 2, 3][1.5]', b'std.format("%d", "x")', b'{a: 1} + 1 +',
    b'|||\n foo\n', b'1e', b'0x1', b'"\\q"', b"'\\uD800'", b'{a: 1, a: 2}', b'function(x, x) 1', b'local a = 1, a = 2; a',
    b'self', b'super.x', b'$', b'f(a=1, 2)', b'import "nope.jsonnet"', b'importstr "nope"', b'std.extVar("nope")',
    b'[x for x in 5]', b'{[1]: 2}', b'{a: 1} < {a: 2}', b'null < null', b'std.sort([1, "a"])', b'local x = x; x',
    b'std.manifestJsonEx(function(x) x, " ")', b'function(x) x', b'std.assertEqual(1, 2)', b'1 << -1', b'1 << 2000',
    b'std.char(-1)', b'std.makeArray(-1, function(i) i)', b'std.base64Decode("!")', b'std.parseJson("{")', b'std.parseYaml("a: [")',
    # two-label diagnostics whose secondary label comes EARLIER in the file than the primary one
    b'local a = 1,\n      b = 2,\n      a = 3;\na', b'{\n  a: 1,\n  b: 2,\n  a: 3,\n}', b'function(x,\n         y,\n   x) 1',
    b'local f(p, q,\n  p) = 1; f', b'{ local v = 1,\n  k: 2,\n  local v = 3 }', b'{a: 1, "a": 2}', b'local o = {\n  f(x, y, x): 1 }; o',
    # errors whose primary span consists of zero-display-width characters only (combining mark, ZWSP, ZWJ)
    b'\xcd\xa1', b'1 + \xe2\x80\x8b', b'e\xcc\x81', b'{a: 1}\n\xe2\x80\x8d', b'"a\xcd\xa1" + {}', b'/* \xcc\x81 */ \xcc\x81',
]


def line_col(src, off):
    """1-based line and (char) column of byte offset off, the way editors count"""
    before = src[:off]
    line = before.count(b'\n') + 1
    last = before.rfind(b'\n') + 1
    col = len(before[last:].decode('utf-8', 'replace')) + 1
    return line, col


def check_diagnostics(run, impl_exe, cli, tier, rng):
    """failing programs: spans inside the file (library), CLI renders with exit 1 and names file:line:col"""
    progs = []
    for p in FAILING_PROGRAMS:
        if b'%d' in p:
            for d in (0, 1, 3, 8):
                progs.append(p % d)
        else:
            progs.append(p)
    # mutated variants: prefix with BOM-less non-ASCII comment lines / CRLF / tabs to move the error around
    extra = []
    for p in progs[:len(progs) if tier == 'thorough' else 25]:
        pre = rng.choice([b'// \xe6\x97\xa5\xe6\x9c\xac\xf0\x9d\x84\x9e\n', b'\r\n\r\n', b'\t \t', b'/* c */ ', b'# x\r\n\t'])
        extra.append(pre + p)
    progs += extra
    # end-of-file family: every truncation of a few programs rich in lexical constructs, and the same
    # truncations followed by an ill-formed UTF-8 tail — error spans at and near the end of the file
    # are where an off-by-one shows (library only: span bounds; the CLI renders a sample below)
    eof_bases = [b'{ "a\\u00e9\\n": \'b\\\'\', c: @"d""e", f: |||\n  t\n|||, g: 1.5e+3 } // c\n/* d */',
                 b'local x = "\\ud83d\\ude00\xe6\x97\xa5"; x + "\\x"',
                 b'[1, 0.5, 1e5, 1_000, "\\t\\"", |||-\n\tq\n|||]']
    tails = [b'', b'\\', b'\\\xff', b'\xff', b'\xe6\x97', b'\xf0\x9f', b'\\u12', b'\\ud83d', b'\\ud83d\\u']
    eof_progs = []
    for base in eof_bases:
        cuts = range(1, len(base) + 1) if tier == 'thorough' else sorted(set(rng.sample(range(1, len(base) + 1), min(len(base), 40))))
        for cut in cuts:
            for t in (tails if tier == 'thorough' else [b''] + rng.sample(tails[1:], 3)):
                eof_progs.append(base[:cut] + t)
    n_cli = len(progs)
    progs += eof_progs
    cases = []
    for i, p in enumerate(progs):
        cases.append(('d%d' % i, 'eval', ['stack=%x' % rng.choice([500, 20, 5]), hxl(list(p))], p))
    res = vlib.run_sharded(impl_exe, [vlib.impl_line(c) for c in cases], timeout=120)
    tmp = tempfile.mkdtemp(prefix='rsj-verif-c16.')
    try:
        for cid, _, fields, src in cases:
            r = res.get(cid, 'NOOUTPUT')
            run.evaluations += 1
            f = r.split('\t')
            if f[0] in ('PANIC', 'CRASH', 'TIMEOUT', 'NOOUTPUT'):
                run.violation('diag-crash:' + f[0], 'library %s on failing program %r' % (f[0], src),
                              {'kind': 'diag', 'source_hex': hxl(list(src)), 'opts': fields[0]})
                continue
            if f[0] != 'ERR':
                run.count('diag_ok_programs')
                continue
            run.count('diag_' + f[1])
            sfield = [x for x in f if x.startswith('S=')]
            if not sfield:
                run.violation('diag-harness', 'harness answer without span field: %s' % r[:120], {'kind': 'diag', 'source_hex': hxl(list(src)), 'opts': fields[0]}, concrete=False)
                continue
            raw = [s for s in sfield[0][2:].split(';') if s]
            # the first entry is the error's own (primary) span, '-' when the error kind carries none
            # (e.g. stack overflow); the rest are the spans of the stack-trace entries
            primary = raw[0] if raw and raw[0] != '-' else None
            spans = [s for s in raw if s != '-']
            run.count('diag_spans_checked', len(spans))
            bad = None
            for s in spans:
                c, a, b, ln = s.split(':')
                a, b, ln = int(a, 16), int(b, 16), int(ln, 16)
                if not (a <= b <= ln):
                    bad = 'span (%s,%d,%d) outside its %d-byte file' % (c, a, b, ln)
            if bad:
                run.violation('diag-span-range', '%s for program %r' % (bad, src),
                              {'kind': 'diag', 'source_hex': hxl(list(src)), 'opts': fields[0]})
                continue
            run.nontrivial.add(('diag', f[1], f[2], len(spans) > 1))
            idx = int(cid[1:])
            if idx >= n_cli and (idx % 7) != 0:
                continue    # end-of-file family: the library span check above is the point; the CLI renders every 7th
            # CLI rendering, plain and coloured, with cropping
            path = os.path.join(tmp, 'prog.jsonnet')
            open(path, 'wb').write(src)
            nfield = [x for x in f if x.startswith('N=')]
            ntrace = int(nfield[0][2:], 16) if nfield else 0
            crops = sorted(set([None, 0, 1, 2, 3, max(0, ntrace - 1), ntrace, ntrace + 1]), key=lambda x: -1 if x is None else x)
            if tier != 'thorough':
                crops = [None] + [c for c in crops if c is not None][:3]
            for crop in crops:
                for color in (False, True):
                    env = dict(os.environ)
                    env.pop('NO_COLOR', None)
                    env.pop('RUST_BACKTRACE', None)
                    if not color:
                        env['NO_COLOR'] = '1'
                    cmd = [cli, '-s', '%d' % int(fields[0].split('=')[1], 16)]
                    if crop is not None:
                        cmd += ['-t', str(crop)]
                    cmd.append(path)
                    try:
                        p = subprocess.run(cmd, stdout=subprocess.PIPE, stderr=subprocess.PIPE, env=env, timeout=60)
                    except subprocess.TimeoutExpired:
                        run.violation('diag-cli-hang', 'CLI hangs rendering %r' % src,
                                      {'kind': 'cli', 'source_hex': hxl(list(src)), 'argv': cmd[1:-1]})
                        continue
                    run.evaluations += 1
                    err = p.stderr.decode('utf-8', 'replace')
                    plain = re.sub(r'\x1b\[[0-9;]*m', '', err)
                    problem = None
                    if p.returncode != 1:
                        problem = 'exit status %d (expected 1)' % p.returncode
                    elif p.stdout:
                        problem = 'stdout not empty on failure'
                    elif 'error' not in plain:
                        problem = 'no error report on stderr'
                    elif primary and primary.split(':')[0] != 'std':
                        m = re.search(r'--> ([^\n]*):(\d+):(\d+)\n', plain)
                        c0, a0, b0, ln0 = primary.split(':')
                        if not m:
                            problem = 'report does not name file:line:col'
                        elif c0 == '0':
                            el, ec = line_col(src, int(a0, 16))
                            if m.group(1) != path or int(m.group(2)) != el:
                                problem = 'report names %s:%s:%s, primary span starts at line %d col %d' % (m.group(1), m.group(2), m.group(3), el, ec)
                            elif int(m.group(3)) != ec:
                                # the column is a character count; only when the line prefix contains tabs,
                                # wide or zero-width characters may the renderer's column legitimately differ
                                start = int(a0, 16)
                                prefix = src[src.rfind(b'\n', 0, start) + 1:start]
                                if all(0x20 <= b < 0x7f for b in prefix):
                                    problem = 'report names %s:%s:%s, primary span starts at line %d col %d' % (m.group(1), m.group(2), m.group(3), el, ec)
                                else:
                                    run.count('diag_col_differs_from_char_count(non-ascii prefix)')
                    if problem is None and crop is not None and ntrace > crop:
                        if ('%d items hidden' % (ntrace - crop)) not in plain:
                            problem = 'cropped trace (%d of %d) lacks the hidden-items note' % (crop, ntrace)
                    if problem and p.returncode not in (0, 1, 2) and 'end_col > annot.span.start_col' in err:
                        run.violation('renderer-zero-width-span', 'report rendering aborts (exit %d, assertion in the snippet renderer) when the '
                                      'primary span covers only zero-width characters: %r' % (p.returncode, src),
                                      {'kind': 'cli', 'source_hex': hxl(list(src)), 'argv': cmd[1:-1], 'color': color})
                    elif problem:
                        run.violation('diag-cli:' + problem.split(' (')[0][:40], '%s for %r (argv %s, colour=%s)' % (problem, src, cmd[1:-1], color),
                                      {'kind': 'cli', 'source_hex': hxl(list(src)), 'argv': cmd[1:-1], 'color': color})
    finally:
        shutil.rmtree(tmp, ignore_errors=True)


# ---------------------------------------------------------------- main check

def run_span_cases(run, cases, impl_exe, model_exe, consts, label):
    impl, model = vlib.run_both(cases, impl_exe, {'span': model_exe})
    for cid, comp, fields, ops in cases:
        run.evaluations += 1
        ir, mr = impl.get(cid, 'NOOUTPUT'), model.get(cid, 'NOOUTPUT')
        replay = {'kind': 'span', 'consts': fields[0], 'ops': fields[1], 'impl': ir, 'model': mr}
        why = oracle(consts, ops, ir)
        if why:
            run.violation('span-roundtrip', 'span round trip fails on the implementation: ' + why, replay)
        elif ir != mr:
            # the model meets the round-trip theorem; a differing implementation answer on a valid
            # request would have been caught by the oracle, so this is assert/overflow behaviour
            run.violation('span-correspondence', 'correspondence span: implementation %s / model %s' % (ir[:120], mr[:120]),
                          replay, concrete=False)
        if nontrivial(consts, ops):
            run.nontrivial.add(fields[1])
        run.count(label)
        if len(run.samples) < 3:
            run.samples.append({'component': 'span', 'ops': fields[1][:300], 'result': ir[:300]})


def check(run):
    rng = vlib.rng_for(run.seed, ID)
    run.rule = ('span: random histories of context/span registrations (lengths and offsets biased to the inline limits 2^25, 2^38 '
                'and to 2^40, ~10% invalid requests), every id re-queried at the end; non-trivial = history with >=2 files and both '
                'an inline and an interned span.  diag: failing programs through the library (span bounds) and the real CLI '
                '(plain/coloured, every crop size around the trace length); non-trivial = distinct (error class, variant, has-trace).')
    run.assume = ['Rust std binary_search_by_key returns the documented insertion point on strictly increasing keys (also modelled and proved as bsearch)',
                  'u64 arithmetic does not wrap: total registered bytes < 2^64 (model panics beyond, as a debug build would)',
                  'sourceannot (snippet rendering) is an external crate: rendering is exercised, not modelled']
    # T
    try:
        env = translate(vlib.REPO)
        consts = (env['OFFSET_BITS'], env['OFFSET_MASK'], env['LEN_MAX'])
        run.add_obligation('T:span constants translated from span.rs', True)
    except Exception as e:
        run.add_obligation('T:span constants translated from span.rs', False, str(e))
        consts = (38, (1 << 38) - 1, (1 << 25) - 1)
    # proofs
    pres = vlib.prove(ID, THEOREMS, ALLOWED_AXIOMS)
    run.add_proof(pres, THEOREMS)
    # build
    impl_exe = vlib.build_harness()
    model_exe = vlib.build_model('span')
    cli = vlib.build_cli()
    # K + oracle
    n = 400 if run.tier == 'quick' else 6000
    cfield = hxl(list(consts))
    cases = []
    corpus = os.path.join(vlib.VERIF, 'corpus', 'c16_span.txt')
    if os.path.exists(corpus):
        for i, l in enumerate(open(corpus)):
            l = l.strip()
            if l and not l.startswith('#'):
                cases.append(('k%d' % i, 'span', [cfield, l], l.split(';')))
    for i in range(n):
        ops = gen_history(rng, consts, rng.choice([6, 12, 25, 40]))
        cases.append(('s%d' % i, 'span', [cfield, ';'.join(ops)], ops))
    run_span_cases(run, cases, impl_exe, model_exe, consts, 'span_histories')
    check_diagnostics(run, impl_exe, cli, run.tier, rng)


def replay(run, path):
    j = json.load(open(path))
    r = j.get('replay', {})
    if isinstance(r, dict) and r.get('kind') == 'span':
        consts = tuple(int(x, 16) for x in r['consts'].split(','))
        impl_exe = vlib.build_harness()
        model_exe = vlib.build_model('span')
        run_span_cases(run, [('r0', 'span', [r['consts'], r['ops']], r['ops'].split(';'))], impl_exe, model_exe, consts, 'replay')
    elif isinstance(r, dict) and r.get('kind') in ('diag', 'cli'):
        src = bytes(int(x, 16) for x in r['source_hex'].split(',')) if r['source_hex'] else b''
        global FAILING_PROGRAMS
        FAILING_PROGRAMS = [src]
        check_diagnostics(run, vlib.build_harness(), vlib.build_cli(), 'thorough', vlib.rng_for(run.seed, ID))
    else:
        print('replay file names a broken obligation, not an input:', json.dumps(j.get('no_longer_checks', j), indent=1)[:2000])
        pres = vlib.prove(ID, THEOREMS, ALLOWED_AXIOMS)
        run.add_proof(pres, THEOREMS)
    for v in run.violations:
        print('REPRODUCED:', v['what'])
    if not run.violations and not run.failed_obligations:
        print('not reproduced')
    return 1 if (run.violations or run.failed_obligations) else 0
