"""C11 — a program state's answers do not depend on its past requests.

Proof:  Props/C11.v over Model/ThunkMachine.v (thunk cells Pending/InProgress/Done, objects with an
        assertion flag, requests run by a fresh evaluator over the shared store) and Model/Interner.v.
T:      the error path of Evaluator::eval is read from the current source to select the machine
        instance (restoring / not restoring) the correspondence is run against.
K:      request sequences over machines printed to Jsonnet, real Program (harness `session`) vs the
        extracted machine, per request, on the shared state and on fresh states.
Search: implementation-only oracle = the property itself: every request's outcome on the long-lived
        Program vs the same request on a fresh Program, over generated source pools sharing library
        values, with failing requests (errors, assertion failures, stack overflows) and collections
        interleaved.
"""
import os, sys, re, json
import vlib
from vlib import hx, hxl

ID = 'C11'
COMPONENTS = ['thunkmachine']
THEOREMS = ['C11_done_is_stable', 'C11_history_independent_if_restored', 'C11_history_independent_if_restored_eq',
            'C11_memo_transparent', 'C11_restored_nonvacuous',
            'C11_history_independent_unrestored_refuted', 'C11_assert_flag_unrestored_refuted',
            'C11_memo_limit_refuted', 'C11_assert_order_example', 'C11_intern_lookup_sound', 'C11_super_lookup_sound', 'C11_super_lookup_old_refuted', 'C11_nonvacuous']
ALLOWED_AXIOMS = set()
TRANSLATORS = []

KEY_INPROGRESS = 'failed-request-leaves-thunk-in-progress'
KEY_ASSERTS = 'failed-request-leaves-object-asserts-checked'


# ---------------------------------------------------------------- T: which machine mirrors the source

def read_error_path(repo):
    """Reads Evaluator::eval in program/eval/mod.rs.  Returns (restore, description).
    Understood shapes: `this.run()?;` (nothing restored) and the repaired shape where the error of
    `this.run()` is intercepted and `this.abort()` puts back what the evaluator had switched."""
    p = os.path.join(repo, 'rsjsonnet-lang', 'src', 'program', 'eval', 'mod.rs')
    src = open(p).read()
    m = re.search(r'pub\(super\) fn eval\((.*?)\n    \}\n', src, flags=re.S)
    if not m:
        raise RuntimeError('Evaluator::eval not found in eval/mod.rs')
    body = m.group(1)
    calls = re.findall(r'this\.run\(\)[^\n]*', body)
    if len(calls) != 1:
        raise RuntimeError('Evaluator::eval: expected exactly one this.run() call, found %d' % len(calls))
    if re.search(r'this\.run\(\)\?;', body):
        return False, 'Evaluator::eval propagates the error of run() with `?`: nothing is restored'
    if re.search(r'if let Err\((\w+)\) = this\.run\(\) \{\s*this\.abort\(\);\s*return Err\(\1\);\s*\}', body):
        fm = re.search(r'fn abort\(&mut self\) \{(.*?)\n    \}\n', src, flags=re.S)
        if not fm:
            raise RuntimeError('Evaluator::abort not found')
        fb = fm.group(1)
        if 'State::GotThunk' in fb and 'restore_pending' in fb and 'State::ObjectAsserts' in fb and 'asserts_checked.set(false)' in fb:
            return True, 'Evaluator::eval calls abort() on failure: thunks in progress -> pending, unfinished object assertions -> unchecked'
        raise RuntimeError('Evaluator::abort has an unknown shape')
    raise RuntimeError('Evaluator::eval: unknown error-path shape around this.run()')


# ---------------------------------------------------------------- machines and their Jsonnet form

def expr_wire(e):
    k = e[0]
    if k == 'c':
        return 'c.%x' % e[1]
    if k == 'f':
        return 'f.%x' % e[1]
    if k == 'r':
        return 'r.%x' % e[1]
    return 'a.%s.%s' % (expr_wire(e[1]), expr_wire(e[2]))


def expr_jsonnet(e, cells):
    k = e[0]
    if k == 'c':
        return '%d' % e[1]
    if k == 'f':
        return '(error "m%d")' % e[1]
    if k == 'r':
        return '(import "s%x").c%d' % (cells[e[1]]['owner'], e[1])
    return '(%s + %s)' % (expr_jsonnet(e[1], cells), expr_jsonnet(e[2], cells))


def machine_wire(m):
    cs = []
    for c in m['cells']:
        st = ('d%x' % c['body'][1]) if c['body'][0] == 'c' else 'p' + expr_wire(c['body'])
        cs.append('%x:%s' % (c['owner'], st))
    gs = ['%s:0' % '|'.join(','.join('-' if a is None else '%x' % a for a in l) for l in guard_layers(g)) for g in m['guards']]
    rq = []
    for r in m['reqs']:
        if r[0] == 'g':
            rq.append('g')
        else:
            rq.append('%s%x:%x' % (r[0], r[1], r[2]))
    return [';'.join(cs), ';'.join(gs), ';'.join(rq)]


def guard_layers(g):
    """layers (base first) of assertion lists; None = `assert true`, m = `assert false : "g<m>"`.
    (older corpus entries: one layer from cond / true_assert)"""
    if 'layers' in g:
        return g['layers']
    if g.get('cond') is not None:
        return [[g['cond']]]
    return [[None]] if g.get('true_assert') else [[]]


def machine_sources(m):
    """object g -> source g = `L0 + L1 + ...` (one object literal per layer, holding that layer's
    assertions and, as hidden fields, the cells placed in it); root cell -> one source each, after
    the objects.  Returns (sources, root_source_index)"""
    srcs = []
    for gi, g in enumerate(m['guards']):
        ls = guard_layers(g)
        lits = []
        for li, asserts in enumerate(ls):
            parts = []
            for a in asserts:
                parts.append('assert true : "never"' if a is None else 'assert false : "g%d"' % a)
            for ci, c in enumerate(m['cells']):
                if c['owner'] == gi and not c.get('root') and c.get('layer', 0) % len(ls) == li:
                    parts.append('c%d:: %s' % (ci, expr_jsonnet(c['body'], m['cells'])))
            lits.append('{ ' + ', '.join(parts) + ' }')
        srcs.append(' + '.join(lits))
    root_src = {}
    for ci, c in enumerate(m['cells']):
        if c.get('root'):
            root_src[ci] = len(srcs)
            srcs.append(expr_jsonnet(c['body'], m['cells']))
    return srcs, root_src


def gen_guard(rng, may_fail):
    """an inheritance chain of 1..3 layers with assertions in any subset of the layers"""
    nl = rng.choice([1, 1, 2, 2, 3])
    fail_layer = rng.randrange(nl) if (may_fail and rng.random() < 0.4) else None
    ls = []
    for li in range(nl):
        asserts = [None] * rng.choice([0, 0, 1, 2])
        if li == fail_layer:
            asserts.insert(rng.randint(0, len(asserts)), rng.randint(1, 9))
        elif may_fail and rng.random() < 0.08:
            asserts.append(rng.randint(1, 9))
        ls.append(asserts)
    return {'layers': ls}


def machine_requests(m, root_src):
    out = []
    for r in m['reqs']:
        if r[0] == 'g':
            out.append('G')
        elif r[0] == 'e':
            out.append('E%x@%x' % (root_src[r[2]], r[1]))
        else:
            out.append('M%x:0@%x' % (root_src[r[2]], r[1]))
    return out


def canon_impl(o):
    """harness outcome -> the model's outcome alphabet (None when it has no counterpart)"""
    p = o.split(':')
    try:
        if p[0] == 'V':
            txt = vlib.uncps(p[1])
            if txt.startswith('#'):
                import struct
                f = struct.unpack('>d', bytes.fromhex('%016x' % int(txt[1:], 16)))[0]
                if f == int(f) and 0 <= f < 2 ** 53:
                    return 'v%x' % int(f)
            return None
        if p[0] == 'S':
            return 's' + p[1]
        if p[0] == 'ok':
            return 'g'
        if p[0] == 'P':
            return 'P'
        if p[0] == 'E' and p[1] == 'EVAL':
            msg = vlib.uncps(p[3]) if p[3] != '-' else ''
            if p[2] == 'ExplicitError' and re.fullmatch(r'm\d+', msg):
                return 'Eu%x' % int(msg[1:])
            if p[2] == 'AssertFailed' and re.fullmatch(r'g\d+', msg):
                return 'Ea%x' % int(msg[1:])
            if p[2] == 'InfiniteRecursion':
                return 'Ei'
            if p[2] == 'StackOverflow':
                return 'Eo'
    except Exception:
        return None
    return None


def gen_long_chain(rng):
    """a chain of 30..70 cells evaluated from the top first (deep), then entered lower down (shallow):
    cells finished deep in one request are met near the surface in the next ones"""
    n = rng.randint(30, 70)
    ng = rng.choice([1, 2])
    guards = [gen_guard(rng, False) for _ in range(ng)]
    cells = []
    for i in range(n):
        if i == n - 1:
            body = ('f', rng.randint(1, 9)) if rng.random() < 0.3 else ('a', ('c', 1), ('c', rng.randint(0, 9)))
        else:
            body = ('r', i + 1) if rng.random() < 0.5 else ('a', ('r', i + 1), ('c', rng.randint(0, 3)))
        cells.append({'owner': rng.randrange(ng), 'layer': rng.randrange(3), 'body': body})
    entries = [0] + sorted(rng.sample(range(1, n), 4))
    roots = []
    for t in entries:
        cells.append({'owner': 0, 'body': ('r', t), 'root': True})
        roots.append(len(cells) - 1)
    reqs = [(rng.choice('em'), rng.choice([500, 500, n + 2, rng.randint(10, n)]), roots[0])]
    for _ in range(rng.randint(2, 6)):
        reqs.append((rng.choice('eem'), rng.choice([500, 500, rng.randint(1, n + 2)]), rng.choice(roots)))
    return {'cells': cells, 'guards': guards, 'reqs': reqs, 'shape': 'longchain'}


def gen_machine(rng, size):
    """a random machine: guards (some failing), cells with small bodies (chains, sharing, cycles,
    failures), roots, and a request sequence with limits around the depths that matter"""
    if rng.random() < 0.1:
        return gen_long_chain(rng)
    ng = rng.choice([1, 1, 2, 3])
    guards = [gen_guard(rng, g > 0) for g in range(ng)]
    n = rng.randint(2, size)
    cells = []
    shape = rng.choice(['chain', 'dag', 'dag', 'cyclic'])
    for i in range(n):
        def leaf():
            r = rng.random()
            if r < 0.16:
                return ('f', rng.randint(1, 9))
            if r < 0.45 or i == n - 1 and shape != 'cyclic':
                return ('c', rng.randint(0, 50))
            if shape == 'chain':
                return ('r', min(n - 1, i + 1))
            if shape == 'dag':
                return ('r', rng.randint(i + 1, n - 1)) if i + 1 <= n - 1 else ('c', rng.randint(0, 50))
            return ('r', rng.randrange(n))

        def ex(d):
            if d > 0 and rng.random() < 0.45:
                return ('a', ex(d - 1), ex(d - 1))
            return leaf()
        body = ex(2)
        if shape == 'chain' and i < n - 1 and rng.random() < 0.8:
            body = ('r', i + 1) if rng.random() < 0.6 else ('a', ('r', i + 1), ('c', rng.randint(0, 9)))
        cells.append({'owner': rng.randrange(ng), 'layer': rng.randrange(3), 'body': body})
    # roots
    nr = rng.randint(1, min(5, n))
    roots = []
    targets = [rng.randrange(n) for _ in range(nr)]
    if rng.random() < 0.5:
        targets[0] = 0
    for t in targets:
        body = ('r', t) if rng.random() < 0.8 else ('a', ('r', t), ('r', rng.randrange(n)))
        cells.append({'owner': 0, 'body': body, 'root': True})
        roots.append(len(cells) - 1)
    if rng.random() < 0.3:   # the same target through a second root thunk
        cells.append({'owner': 0, 'body': ('r', targets[0]), 'root': True})
        roots.append(len(cells) - 1)
    reqs = []
    for _ in range(rng.randint(2, 8)):
        r = rng.random()
        if r < 0.1:
            reqs.append(('g',))
        else:
            lim = rng.choice([500, 500, 500, rng.randint(0, 3), rng.randint(1, n + 1), rng.randint(1, n + 1)])
            reqs.append((rng.choice('eem'), lim, rng.choice(roots)))
    return {'cells': cells, 'guards': guards, 'reqs': reqs, 'shape': shape}


# ---------------------------------------------------------------- implementation-only sessions

LIBS = [
    # (library source, list of client expressions over `L = import "s0"`)
    ('{ a:: 1, b:: error "boom", c:: self.a + self.b, d:: self.a + 1, e: [self.a, self.d], f(x):: x + self.d }',
     ['L.a', 'L.b', 'L.c', 'L.d', 'L.e', 'L', 'L.f(2)', 'L.f', '[L.d, L.c]', '{x: L.d, y: L.b}', 'std.length(L.e)', 'L + {b:: 2}', '(L + {b:: 2}).c']),
    ('local u = error "boom"; { a: u, b: 1, c:: [u, 2], d:: {x: 1, y: u} }',
     ['L', 'L.b', 'L.a', 'L.c', 'L.c[1]', 'L.d.x', 'L.d', 'std.objectFields(L)', 'std.length(L.c)']),
    ('{ assert self.n > 1 : "small", n:: 1, m: 2, k:: self.m + 1 }',
     ['L.m', 'L.k', 'L', 'L.n', 'L + {n:: 5}', '(L + {n:: 5}).k', 'std.objectHas(L, "m")', 'std.objectFields(L)']),
    ('local f(n) = if n == 0 then 0 else 1 + f(n - 1); { f:: f, d5:: f(5), d20:: f(20), d60:: f(60), all: [self.d5, self.d20] }',
     ['L.d5', 'L.d20', 'L.d60', 'L.all', 'L.f(3)', 'L.f(40)', 'L.f', 'L.d5 + L.d20', 'L']),
    ('{ local o = self, x:: o.y, y:: o.z, z:: o.x, w:: 3, v:: [o.w, o.x], t:: std.length(o.v) }',
     ['L.w', 'L.x', 'L.v', 'L.t', 'L.v[0]', 'L.y']),
    ('{ arr:: std.makeArray(6, function(i) if i == 4 then error "at4" else i * 2), s:: std.foldl(function(a, b) a + b, self.arr, 0), m:: std.map(function(x) x + 1, self.arr), n:: self.m[2] }',
     ['L.arr[1]', 'L.arr[4]', 'L.s', 'L.m', 'L.n', 'L.arr', 'std.length(L.arr)', 'L.m[4]', 'std.sort(L.arr)']),
    ('{ a: { assert false : "inner", v: 1 }, b: { assert true, v: 2 }, c:: self.a.v + self.b.v, d:: self.b.v }',
     ['L.b', 'L.a', 'L.c', 'L.d', 'L.a.v', 'L', 'std.objectFields(L.a)', 'L.b.v']),
    ('local mk(n) = { v: n, next:: if n == 0 then null else mk(n - 1), sum:: self.v + (if n == 0 then 0 else self.next.sum) }; { r:: mk(30), s5:: mk(5).sum, s30:: self.r.sum }',
     ['L.s5', 'L.s30', 'L.r.v', 'L.r.next.v', 'L.r']),
    ('function(x, y=2) { s: x + y, t:: error "tt", u: [x, y] }',
     ['L(1)', 'L(1, 5)', 'L(1).s', 'L(1).t', 'L', 'L(y=3, x=1)', 'L()']),
    ('{ ["k" + "ey"]: 1, other: 2, look(n):: self[n], has(n):: std.objectHas(self, n) }',
     ['L.look("k" + "ey")', 'L.look("zz" + "qq")', 'L.has("zz" + "qq")', 'L.has("oth" + "er")', '{zzqq: 1}', 'L.look("zzqq")', '{ ["zz" + "qq"]: 3 }["zzqq"]', 'std.get(L, "ot" + "her")', '"zz" + "qq" in L']),
]

ARGS = ['1', '"s"', '[1, 2]', 'error "arg"', '{a: 1}', 'null']


def gen_session(rng):
    """sources: 0 = a library, 1.. = clients (each `local L = import "s0"; <expr>`), then argument
    sources; requests in random order and repetition, limits and collections interleaved"""
    lib, clients = rng.choice(LIBS)
    is_func = lib.startswith('function')
    srcs = [lib]
    picks = rng.sample(clients, min(len(clients), rng.randint(2, 5)))
    for c in picks:
        srcs.append('local L = import "s0"; ' + c)
    argbase = len(srcs)
    for a in ARGS:
        srcs.append(a)
    reqs = []
    n = rng.randint(2, 8)
    for _ in range(n):
        r = rng.random()
        k = rng.randrange(0, argbase)
        lim = rng.choice(['', '', '', '@%x' % rng.randint(0, 6), '@%x' % rng.randint(5, 70), '@%x' % rng.randint(1, 30)])
        if r < 0.10:
            reqs.append('G')
        elif r < 0.16:
            reqs.append('L%x' % k)
        elif r < 0.22:
            reqs.append('N%x' % k)
        elif r < 0.55:
            reqs.append('E%x%s' % (k, lim))
        elif r < 0.75:
            reqs.append('M%x:%d%s' % (k, rng.randint(0, 1), lim))
        elif r < 0.83:
            reqs.append('H%x:%d%s' % (k, rng.randint(0, 1), lim))
        elif r < 0.95:
            f = 0 if is_func and rng.random() < 0.8 else k
            pos = [argbase + rng.randrange(len(ARGS)) for _ in range(rng.choice([0, 1, 1, 2]))]
            named = ''
            if rng.random() < 0.3:
                named = 'y=%x' % (argbase + rng.randrange(len(ARGS)))
            reqs.append('C%x:%s:%s%s' % (f, hxl(pos), named, lim))
        else:
            f = 0 if is_func else k
            reqs.append('K%x:%d%s' % (f, rng.randint(0, 1), lim))
    opts = rng.choice(['', '', 'gc=1', 'gc=7'])
    return opts, srcs, reqs


F_DEF = 'local f(k) = if k == 0 then 0 else 1 + f(k - 1); '


def gen_object(rng):
    """an inheritance chain `L0 + L1 + ...` (1..3 layers): fields x, n, y in any layers (later layers
    override), assertions in any subset of the layers (only base, only derived, both, none), each
    assertion: constant true / constant false / on a field another layer may override / on a
    recursion whose depth is a field (succeeds, fails, or overflows, depending on the limit)"""
    nl = rng.choice([1, 2, 2, 3, 3])
    with_asserts = [rng.random() < 0.5 for _ in range(nl)]
    if rng.random() < 0.35:       # assertions only in the base
        with_asserts = [True] + [False] * (nl - 1)
    lits = []
    for li in range(nl):
        parts = []
        if with_asserts[li]:
            for _ in range(rng.choice([1, 1, 2])):
                k = rng.random()
                if k < 0.15:
                    parts.append('assert true')
                elif k < 0.25:
                    parts.append('assert false : "bad%d"' % li)
                elif k < 0.6:
                    parts.append('assert self.x > 0 : "neg%d"' % li)
                elif k < 0.8:
                    parts.append('assert f(self.n) >= 0 : "deep%d"' % li)
                else:
                    parts.append('assert f(self.n) < 0 : "deepfail%d"' % li)
        for name in ('x', 'n', 'y'):
            if li == 0 or rng.random() < 0.4:
                if name == 'x':
                    v = rng.choice(['1', '-1', '5', '-1', 'self.y'])
                elif name == 'n':
                    v = rng.choice(['3', '20', '60', '300', '100000'])
                else:
                    v = rng.choice(['2', '-2', 'self.n + 1', '[self.x, 1]'])
                parts.append('%s: %s' % (name, v))
        lits.append('{ ' + ', '.join(parts) + ' }')
    return ' + '.join(lits)


def gen_object_session(rng):
    """an object with layered assertions kept alive by the program state — as a field of a shared
    library object, inside another object, captured by function closures — read field by field by
    later requests (eval, manifest, eval_call), before and after requests that fail on it"""
    o = gen_object(rng)
    form = rng.random()
    if form < 0.6:
        lib = F_DEF + 'local o = ' + o + '; { o:: o, get:: function(k) o[k], w:: { inner: o }, p:: o.x, q:: [o.y, o.n] }'
        clients = ['L.o.x', 'L.o.y', 'L.o.n', 'L.o', 'L.get("x")', 'L.get("n")', 'L.w.inner.x', 'L.w', 'L.p', 'L.q',
                   'std.objectFields(L.o)', 'std.objectHas(L.o, "x")', '(L.o + {x: 7}).x', 'L.o + {x: 7}', 'L.get']
        srcs = [lib] + ['local L = import "s0"; ' + c for c in rng.sample(clients, rng.randint(3, 6))]
        callable_ = [i for i, t in enumerate(srcs) if t.endswith('L.get')]
    else:
        lib = F_DEF + 'local o = ' + o + '; function(k="x") o[k]'
        srcs = [lib, 'local g = import "s0"; g("y")', 'local g = import "s0"; [g("n"), g()]']
        callable_ = [0]
    argbase = len(srcs)
    srcs += ['"x"', '"y"', '"n"']
    reqs = []
    for _ in range(rng.randint(3, 8)):
        r = rng.random()
        k = rng.randrange(0, argbase)
        lim = rng.choice(['', '', '', '@%x' % rng.randint(2, 12), '@%x' % rng.randint(10, 80), '@%x' % rng.randint(60, 400)])
        if r < 0.07:
            reqs.append('G')
        elif r < 0.14:
            reqs.append('N%x' % k)
        elif r < 0.5:
            reqs.append('E%x%s' % (k, lim))
        elif r < 0.7:
            reqs.append('M%x:%d%s' % (k, rng.randint(0, 1), lim))
        elif r < 0.76:
            reqs.append('H%x:0%s' % (k, lim))
        elif callable_:
            fsrc = rng.choice(callable_)
            reqs.append('C%x:%x:%s' % (fsrc, argbase + rng.randrange(3), lim))
        else:
            reqs.append('E%x%s' % (k, lim))
    return rng.choice(['big=4e20', 'big=4e20', 'big=4e20', 'gc=5;big=4e20']), srcs, reqs


def gen_shared_value(rng, idx):
    """one shared library value with fields a, b, c (b reads a, c reads b and a through `self`, so all
    are late-bound), built by one of the object-construction kinds.  Returns (jsonnet, is_function)"""
    ea = str(rng.choice([1, 2, 3]))
    eb = rng.choice(['self.a + 1', 'self.a * 2', 'self.a + %d' % rng.randint(2, 9)])
    ec = rng.choice(['self.b + self.a', 'self.b * 2', '[self.a, self.b]', 'self.b - 1'])
    hid = rng.choice([':', ':', '::'])
    lit = '{ a: %s, b: %s, c%s %s }' % (ea, eb, hid, ec)
    kind = rng.choice(['lit', 'comp', 'comp', 'plus', 'plussuper', 'remove', 'mergepatch', 'mapwithkey', 'fnresult',
                       'compplus', 'compsuper', 'nested'])
    if kind == 'lit':
        return lit, kind
    if kind == 'comp':
        return ('{ [k]: if k == "a" then %s else if k == "b" then %s else %s for k in ["a", "b", "c"] }' % (ea, eb, ec)), kind
    if kind == 'plus':
        return '{ a: %s, c%s %s } + { b: %s }' % (ea, hid, ec, eb), kind
    if kind == 'plussuper':
        return '{ a: %s, b: %s } + { b: super.b + self.a, c%s %s }' % (ea, eb, hid, ec), kind
    if kind == 'remove':
        return 'std.objectRemoveKey({ a: %s, b: %s, c%s %s, d: self.a }, "d")' % (ea, eb, hid, ec), kind
    if kind == 'mergepatch':
        return 'std.mergePatch({ a: %s, d: 0 }, { d: null }) + { b: %s, c%s %s }' % (ea, eb, hid, ec), kind
    if kind == 'mapwithkey':
        return 'std.mapWithKey(function(k, v) v, { a: %s }) + { b: %s, c%s %s }' % (ea, eb, hid, ec), kind
    if kind == 'fnresult':
        return '(function(v) { a: v, b: %s, c%s %s })(%s)' % (eb, hid, ec, ea), kind
    if kind == 'compplus':
        return ('{ [k]: if k == "a" then %s else %s for k in ["a", "b"] } + { c%s %s }' % (ea, eb, hid, ec)), kind
    if kind == 'compsuper':
        return ('{ a: %s, b: 1 } + { [k]: if k == "b" then super.b + self.a else %s for k in ["b", "c"] }' % (ea, ec)), kind
    return '{ a: %s, b: %s, c%s %s, inner: { [k]: $.b + 1 for k in ["p"] } }' % (ea, eb, hid, ec), kind


DERIVE_TEMPLATES = [
    # (1) force fields of the shared value
    '{V}.a', '{V}.b', '{V}.c', '{V}', 'std.objectFields({V})', '{V}.b + {V}.c',
    # (2) derive a new object from the shared value and read late-bound fields
    '({V} + { a: 10 }).b', '({V} + { a: 10 }).c', '({V} + { a: 10 })', '({ a: 10, z: 0 } + {V}).b', '({V} + { b: 100 }).c',
    '({V} + { a+: 5 }).b', '({V} { a: 7 }).c', '({V} + { b: super.b + 1000 }).c', '({V} + { b: super.b + 1000 }).b',
    'std.objectRemoveKey({V}, "c").b', 'std.objectRemoveKey({V}, "a").b', 'std.objectRemoveKey({V} + { a: 10 }, "c")',
    'std.objectRemoveKey({V}, "b") + { b: 50 }', 'std.mergePatch({V}, { a: 10 }).b', 'std.mergePatch({V}, { b: null })',
    'std.mapWithKey(function(k, v) v, {V} + { a: 10 }).b', '({V} + {W}).c', '({V} + {W} + { a: 20 }).b',
    '[({V} + { a: i }).b for i in [10, 20]]', '{V}.b + ({V} + { a: 10 }).b', '(({V} + { a: 10 }) + { a: 30 }).c',
    'std.get({V} + { a: 10 }, "b")', '({V} + { a: 10 })["b"]', 'local d = {V} + { a: 10 }; [d.b, {V}.b, d.c]',
]


def gen_derive_session(rng):
    """shared library values of every construction kind; requests force some of their fields, LATER
    requests derive new objects from the same shared values (extend on either side, override a field
    another field reads through self/super, remove a key, mergePatch, mapWithKey) and read late-bound fields"""
    nv = rng.randint(2, 3)
    vals = [gen_shared_value(rng, i) for i in range(nv)]
    lib = '{ ' + ', '.join('v%d: %s' % (i, v[0]) for i, v in enumerate(vals)) + \
          ', mk:: function(a) { a: a, b: self.a + 1, c: self.b * 2 }, ext:: function(o, a=10) (o + { a: a }).b }'
    srcs = [lib]
    for t in rng.sample(DERIVE_TEMPLATES, rng.randint(4, 7)):
        v, w = rng.randrange(nv), rng.randrange(nv)
        srcs.append('local L = import "s0"; ' + t.replace('{V}', 'L.v%d' % v).replace('{W}', 'L.v%d' % w))
    srcs.append('local L = import "s0"; L.ext')
    srcs.append('local L = import "s0"; L.mk')
    fext, fmk = len(srcs) - 2, len(srcs) - 1
    nclients = len(srcs)
    vsrc = []
    for i in range(nv):
        vsrc.append(len(srcs))
        srcs.append('local L = import "s0"; L.v%d' % i)
    srcs.append('5')
    five = len(srcs) - 1
    reqs = []
    for _ in range(rng.randint(3, 8)):
        r = rng.random()
        k = rng.randrange(1, nclients - 2)
        lim = rng.choice(['', '', '', '', '@%x' % rng.randint(3, 40)])
        if r < 0.08:
            reqs.append('G')
        elif r < 0.13:
            reqs.append('N%x' % k)
        elif r < 0.6:
            reqs.append('E%x%s' % (k, lim))
        elif r < 0.8:
            reqs.append('M%x:%d%s' % (k, rng.randint(0, 1), lim))
        elif r < 0.92:
            reqs.append('C%x:%x:%s' % (fext, rng.choice(vsrc), rng.choice(['', 'a=%x' % five])))
        else:
            reqs.append('C%x:%x:' % (fmk, five))
    run_kinds = '+'.join(sorted(set(v[1] for v in vals)))
    return rng.choice(['', '', 'gc=3']), srcs, reqs, run_kinds


def gen_name_session(rng):
    """field names computed at run time and used through every interner shortcut of the evaluator, on
    objects that do / do not have the field and do / do not have a super object; the same string is
    interned (as a static name in ANOTHER source) by an earlier request, a later one, or never"""
    p1, p2 = rng.choice(['zq', 'wq', 'yk', 'jx']), 'v%d' % rng.randint(0, 99)
    name = p1 + p2

    def N():   # an expression computing the name without containing it
        return rng.choice(['("%s" + "%s")' % (p1, p2),
                           '(std.char(%d) + "%s")' % (ord(name[0]), name[1:]),
                           '("%%s%%s" %% ["%s", "%s"])' % (p1, p2),
                           'std.join("", ["%s", "%s"])' % (p1, p2), '"%s"' % name,
                           'std.substr("_%s_", 1, %d)' % ('" + "'.join([p1, p2]), len(name)) if False else '("%s" + "%s")' % (name[:1], name[1:])])

    def O():   # objects without / with the field (the field itself has a computed name)
        return rng.choice(['{ k: 1 }', '{ k: 1 } + { j: 2 }', '{ [%s]: 1, k: 2 }' % N(), '{ [%s]:: 1 }' % N(),
                           '({ [%s]: 1 } + { k: 2 })' % N(), '({ k: 2 } + { [%s]: 3 })' % N(), '(import "s0")', '{ }'])

    def S(use):   # an object whose field `a` uses super: no super object / super without / with the field
        return rng.choice(['{ a: %s }.a' % use, '{ a: %s, k: 1 }.a' % use, '({ k: 1 } + { a: %s }).a' % use,
                           '({ [%s]: 5 } + { a: %s }).a' % (N(), use), '({ [%s]:: 5 } + { k: 1 } + { a: %s }).a' % (N(), use),
                           '{ o: { a: %s } }.o.a' % use, '({ k: 1 } + { o: { a: %s } }).o.a' % use,
                           'local f() = { a: %s }; f().a' % use])

    def client():
        k = rng.randrange(14)
        if k == 0:
            return '%s[%s]' % (O(), N())
        if k == 1:
            return '%s in %s' % (N(), O())
        if k == 2:
            return 'std.objectHas(%s, %s)' % (O(), N())
        if k == 3:
            return 'std.objectHasAll(%s, %s)' % (O(), N())
        if k == 4:
            return 'std.objectHasEx(%s, %s, %s)' % (O(), N(), rng.choice(['true', 'false']))
        if k == 5:
            return 'std.get(%s, %s, "dflt")' % (O(), N())
        if k == 6:
            return 'std.objectRemoveKey(%s, %s)' % (O(), N())
        if k == 7:
            return '("%%(" + %s + ")s") %% %s' % (N(), O())
        if k == 8:
            return 'std.extVar(%s)' % N()
        if k == 9:
            return 'std.native(%s)' % N()
        if k in (10, 11):
            return S('super[%s]' % N())
        if k == 12:
            return S('%s in super' % N())
        return 'std.mergePatch(%s, { [%s]: null })' % (O(), N())

    def BAD():   # an ill-typed value for the OTHER arguments of the call
        return rng.choice(['"yes"', 'null', '5', '[true]', '{ }', 'function(x) x'])

    def ill_typed_client():
        k = rng.randrange(12)
        if k == 0:
            return 'std.objectHasEx(%s, %s, %s)' % (O(), N(), BAD())
        if k == 1:
            return 'std.objectHasEx(%s, %s, true)' % (BAD(), N())
        if k == 2:
            return 'std.get(%s, %s, "dflt", %s)' % (O(), N(), BAD())
        if k == 3:
            return 'std.get(%s, %s)' % (BAD(), N())
        if k == 4:
            return 'std.objectRemoveKey(%s, %s)' % (BAD(), N())
        if k == 5:
            return 'std.objectHas(%s, %s)' % (BAD(), N())
        if k == 6:
            return 'std.objectHasAll(%s, %s)' % (BAD(), N())
        if k == 7:
            return '(%s)[%s]' % (BAD(), N())
        if k == 8:
            return '%s in (%s)' % (N(), BAD())
        if k == 9:
            return '("%%(" + %s + ")s") %% (%s)' % (N(), BAD())
        if k == 10:
            return 'std.mergePatch(%s, { [%s]: %s })' % (BAD(), N(), BAD())
        return 'std.objectHasEx(%s, %s, %s) || std.get(%s, %s, false, %s)' % (O(), N(), BAD(), O(), N(), BAD())

    interners = ['{ k: 1, other: 2 }',                       # s0: a library object without the name
                 '{ %s: 1 }' % name, 'local x = { %s: 1 }; 0' % name, 'function(%s) 0' % name,
                 'local %s = 1; %s' % (name, name), '{ o: { %s:: 2 } }.o' % name,
                 # loads that FAIL after the identifier has been lexed (parse error / unknown variable)
                 'local %s = ; 0' % name, '{ %s: }' % name, '%s' % name, '[1, %s' % name,
                 # the name interned by an evaluation only (string literals are not interned by a load)
                 '"%s" in { }' % name, '{ ["%s" + "%s"]: 1 }' % (p1, p2), 'std.objectHas({ }, "%s")' % name]
    srcs = [interners[0]] + rng.sample(interners[1:], 3)
    ni = len(srcs)
    for _ in range(rng.randint(3, 6)):
        srcs.append(ill_typed_client() if rng.random() < 0.4 else client())
    reqs = []
    for _ in range(rng.randint(3, 8)):
        r = rng.random()
        if r < 0.3:
            k = rng.randrange(1, ni)
            reqs.append(rng.choice(['L%x', 'E%x', 'N%x']) % k)
        elif r < 0.36:
            reqs.append('G')
        else:
            k = rng.randrange(ni, len(srcs))
            reqs.append(rng.choice(['E%x', 'E%x', 'M%x:0']) % k)
    return '', srcs, reqs


CALLBACKS1 = [   # callbacks meant for one argument x (element / index / accumulator forms are derived below)
    ('ok', 'function(x) x * 2'),
    ('default', 'function(x, scale=3) x * scale'),
    ('toomany', 'function(x, scale) x * scale'),
    ('toofew', 'function() 7'),
    ('typeerr', 'function(x) x + {}'),
    ('fieldof', 'function(x) x.nope'),
    ('explicit', 'function(x) if x %% 3 == %d then error "cb%d" else x'),
    ('deep', 'function(x) f(x * %d)'),
    ('notfunc', '5'),
    ('assertcb', 'function(x) assert x != %d : "as%d"; x'),
]


def gen_callback(rng):
    kind, text = rng.choice(CALLBACKS1 + CALLBACKS1[:2] * 2)
    if kind == 'explicit':
        k = rng.randrange(3)
        text = text % (k, k)
    elif kind == 'deep':
        text = text % rng.choice([5, 20, 60, 400])
    elif kind == 'assertcb':
        k = rng.randint(1, 4)
        text = text % (k, k)
    return kind, text


def adapt(cb, shape):
    """a one-argument callback used where the builtin passes (i, x) / (k, v) / (acc, x)"""
    if shape == 1:
        return cb
    return 'function(a, b) (%s)(b)' % cb if rng_choice_adapt[0] else cb


rng_choice_adapt = [True]


def gen_builtin_value(rng):
    """a library value produced by a function-taking builtin whose elements stay lazy (or whose
    evaluation runs the callback), with a callback that works or fails in one of many ways.
    Returns (expression over `base`/`obj`, kind of result: 'arr' | 'obj' | 'val')"""
    kind, cb = gen_callback(rng)
    rng_choice_adapt[0] = rng.random() < 0.7    # mostly adapt the arity, sometimes leave it wrong
    b = rng.choice(['map', 'map', 'mapWithIndex', 'mapWithKey', 'filterMap', 'flatMap', 'makeArray', 'makeArray', 'filter',
                    'foldl', 'foldr', 'sort', 'set', 'uniq', 'objectMapValues', 'comp', 'minArray', 'find'])
    if b == 'map':
        return 'std.map(%s, base)' % cb, 'arr', b, kind
    if b == 'mapWithIndex':
        return 'std.mapWithIndex(%s, base)' % adapt(cb, 2), 'arr', b, kind
    if b == 'mapWithKey':
        return 'std.mapWithKey(%s, obj)' % adapt(cb, 2), 'obj', b, kind
    if b == 'filterMap':
        return 'std.filterMap(function(x) x > 1, %s, base)' % cb, 'arr', b, kind
    if b == 'flatMap':
        return 'std.flatMap(function(x) [x, (%s)(x)], base)' % cb, 'arr', b, kind
    if b == 'makeArray':
        return 'std.makeArray(5, %s)' % cb, 'arr', b, kind
    if b == 'filter':
        return 'std.filter(function(x) (%s)(x) > 2, base)' % cb, 'arr', b, kind
    if b == 'foldl':
        return 'std.foldl(function(acc, x) acc + (%s)(x), base, 0)' % cb, 'val', b, kind
    if b == 'foldr':
        return 'std.foldr(function(x, acc) acc + (%s)(x), base, 0)' % cb, 'val', b, kind
    if b == 'sort':
        return 'std.sort(base, %s)' % cb, 'arr', b, kind
    if b == 'set':
        return 'std.set(base, %s)' % cb, 'arr', b, kind
    if b == 'uniq':
        return 'std.uniq(base, %s)' % cb, 'arr', b, kind
    if b == 'objectMapValues':
        return '{ [k]: (%s)(obj[k]) for k in std.objectFields(obj) }' % cb, 'obj', b, kind
    if b == 'comp':
        return '[(%s)(x) for x in base]' % cb, 'arr', b, kind
    if b == 'minArray':
        return 'std.minArray(base, %s)' % cb, 'val', b, kind
    return 'std.find(3, std.map(%s, base))' % cb, 'arr', b, kind


def gen_builtin_session(rng):
    """shared library values = results of function-taking builtins held in the library object's field
    thunks; requests force the SAME element several times (before / after a failure, under different
    limits), whole values, lengths, and elements through a second root thunk"""
    nv = rng.randint(2, 4)
    vals = [gen_builtin_value(rng) for _ in range(nv)]
    lib = ('local f(k) = if k == 0 then 0 else 1 + f(k - 1); local base = [1, 2, 3, 4], obj = { p: 1, q: 2, r: 3 }; { '
           + ', '.join('r%d%s %s' % (i, rng.choice([':', '::']), v[0]) for i, v in enumerate(vals)) + ' }')
    srcs = [lib]
    for i, v in enumerate(vals):
        if v[1] == 'arr':
            idx = rng.sample(range(5), 3)
            cl = ['L.r%d[%d]' % (i, j) for j in idx] + ['L.r%d' % i, 'std.length(L.r%d)' % i,
                  '[L.r%d[%d], L.r%d[%d]]' % (i, idx[0], i, idx[0]), 'L.r%d[%d] + 1' % (i, idx[1]), 'std.reverse(L.r%d)[0]' % i]
        elif v[1] == 'obj':
            cl = ['L.r%d.p' % i, 'L.r%d.q' % i, 'L.r%d' % i, 'std.objectFields(L.r%d)' % i, 'L.r%d.q + L.r%d.r' % (i, i)]
        else:
            cl = ['L.r%d' % i, 'L.r%d + 1' % i, '[L.r%d]' % i]
        for c in rng.sample(cl, min(len(cl), rng.randint(2, 3))):
            srcs.append('local L = import "s0"; ' + c)
    srcs.append('local L = import "s0"; L')
    n = len(srcs)
    reqs = []
    hot = rng.randrange(1, n)          # one request is repeated: the same element again
    for _ in range(rng.randint(3, 8)):
        r = rng.random()
        k = hot if rng.random() < 0.4 else rng.randrange(1, n)
        lim = rng.choice(['', '', '', '@%x' % rng.randint(3, 30), '@%x' % rng.randint(20, 200)])
        if r < 0.06:
            reqs.append('G')
        elif r < 0.14:
            reqs.append('N%x' % k)
        elif r < 0.7:
            reqs.append('E%x%s' % (k, lim))
        else:
            reqs.append('M%x:%d%s' % (k, rng.randint(0, 1), lim))
    return rng.choice(['big=4e20', 'big=4e20', 'gc=3;big=4e20']), srcs, reqs, ['%s/%s' % (v[2], v[3]) for v in vals]


def src_field(srcs):
    return ';'.join(hxl(list(s.encode())) for s in srcs)


def classify_diff(req, shared, fresh, earlier_failed, roomy='-'):
    """key of a shared-vs-fresh difference (None = allowed by the property's boundary).
    When the fresh evaluation overflows the stack, the reference is the fresh evaluation under a
    large limit (`roomy`): a memoised sub-result may make the long-lived state cheaper
    (C11_memo_limit_refuted), but the answer it gives must be the one a fresh state gives with room."""
    sv = shared.split(':')
    fv = fresh.split(':')
    if len(fv) > 2 and fv[2] == 'StackOverflow':
        if roomy == shared:
            return None
        rv = roomy.split(':')
        if len(rv) > 2 and rv[2] == 'StackOverflow':
            if sv[0] == 'E':
                return None   # an error met before the depth at which every fresh evaluation overflows
            return 'answer-where-every-fresh-evaluation-overflows'
        fv = rv
    if len(sv) > 2 and sv[2] == 'InfiniteRecursion' and earlier_failed:
        return KEY_INPROGRESS
    if len(fv) > 2 and fv[2] == 'AssertFailed' and earlier_failed and not (len(sv) > 2 and sv[2] == 'AssertFailed'):
        return KEY_ASSERTS
    if 'P' in (sv[0], fv[0]) or sv[0] == 'A':
        return 'request-panics-on-long-lived-state'
    return 'history-dependent-answer'


def run_sessions(run, impl_exe, sessions, label):
    cases = []
    for i, (opts, srcs, reqs) in enumerate(sessions):
        cases.append(('%s%d' % (label, i), 'session', [opts, src_field(srcs), ';'.join(reqs)]))
    res = {}
    for k in range(0, len(cases), 1600):   # the timeout is per driver process: keep each batch short
        res.update(vlib.run_sharded(impl_exe, [vlib.impl_line(c) for c in cases[k:k + 1600]], timeout=600))
    for (cid, _, fields), (opts, srcs, reqs) in zip(cases, sessions):
        r = res.get(cid, 'NOOUTPUT')
        run.evaluations += 1
        replay = {'kind': 'session', 'opts': opts, 'sources': srcs, 'requests': reqs, 'impl': r}
        f = r.split('\t')
        if len(f) != 3:
            run.violation('session-driver-' + f[0].lower(), 'session driver answered %s on sources %r requests %r' % (r[:80], srcs[:3], reqs), replay)
            continue
        sh, fr, ro = f[0].split(';'), f[1].split(';'), f[2].split(';')
        if len(sh) != len(reqs) or len(fr) != len(reqs) or len(ro) != len(reqs):
            run.violation('session-driver-shape', 'outcome count mismatch', replay)
            continue
        failed = False
        classes = set()
        for q, a, b, c in zip(reqs, sh, fr, ro):
            run.count('req_' + q[0])
            run.count('out_' + (a.split(':')[2] if a.startswith('E:') else a.split(':')[0]))
            if a != b:
                key = classify_diff(q, a, b, failed, c)
                if key is None:
                    run.count('memo_shortens_stack')
                else:
                    run.violation(key, 'request %s answers %s on the long-lived Program but %s on a fresh one%s (sources %r, requests %r, opts %r)'
                                  % (q, show(a), show(b), '' if c == '-' else ' (%s with room)' % show(c), srcs, reqs, opts), replay)
            if a.startswith('E:') or a in ('P', 'A'):
                failed = True
            classes.add(a.split(':')[0] + (':' + a.split(':')[2] if a.startswith('E:') else ''))
        if failed and len(reqs) >= 3 and len(classes) >= 2:
            run.nontrivial.add((srcs[0][:40], tuple(reqs)))
        if len(run.samples) < 4:
            run.samples.append({'component': 'session', 'sources': srcs[:3], 'requests': reqs, 'shared': [show(x) for x in sh]})


def show(o):
    p = o.split(':')
    try:
        if p[0] in ('V', 'S'):
            return p[0] + ':' + vlib.uncps(p[1])
        if p[0] == 'E':
            return ':'.join(p[:3]) + ':' + (vlib.uncps(p[3]) if p[3] != '-' else '-')
    except Exception:
        pass
    return o


# ---------------------------------------------------------------- K on machines

def run_machines(run, impl_exe, model_exe, machines, restore, label):
    icases, mcases = [], []
    for i, m in enumerate(machines):
        srcs, root_src = machine_sources(m)
        reqs = machine_requests(m, root_src)
        cid = '%s%d' % (label, i)
        icases.append((cid, 'session', ['', src_field(srcs), ';'.join(reqs)]))
        mcases.append((cid, 'thunkmachine', ['M', '1' if restore else '0'] + machine_wire(m)))
    impl = vlib.run_sharded(impl_exe, [vlib.impl_line(c) for c in icases], timeout=300)
    model = vlib.run_sharded(model_exe, [vlib.model_line(c) for c in mcases], timeout=300)
    for m, ic, mc in zip(machines, icases, mcases):
        cid = ic[0]
        run.evaluations += 1
        ir, mr = impl.get(cid, 'NOOUTPUT'), model.get(cid, 'NOOUTPUT')
        srcs, root_src = machine_sources(m)
        replay = {'kind': 'machine', 'machine': m, 'restore': restore, 'impl': ir, 'model': mr,
                  'sources': srcs, 'requests': machine_requests(m, root_src)}
        if mr.startswith('MODELEXC') or mr == 'NOOUTPUT':
            run.violation('model-driver', 'model driver failed: %s' % mr[:100], replay, concrete=False)
            continue
        fi, fm = ir.split('\t'), mr.split('\t')
        if len(fi) != 3:
            run.violation('session-driver-' + fi[0].lower(), 'session driver answered %s' % ir[:100], replay)
            continue
        ish = [canon_impl(x) for x in fi[0].split(';')]
        ifr = [canon_impl(x) for x in fi[1].split(';')]
        msh, mfr = fm[0].split(';'), fm[1].split(';')
        run.count('machine_' + m.get('shape', '?'))
        failed = False
        for j, q in enumerate(m['reqs']):
            a, b, c = fi[0].split(';')[j], fi[1].split(';')[j], fi[2].split(';')[j]
            if a != b:
                key = classify_diff('E', a, b, failed, c)
                if key is None:
                    run.count('memo_shortens_stack')
                else:
                    run.violation(key, 'machine request #%d answers %s on the long-lived Program but %s on a fresh one (sources %r, requests %r)'
                                  % (j, show(a), show(b), srcs, replay['requests']), replay)
            if a.startswith('E:') or a in ('P', 'A'):
                failed = True
            run.count('mout_' + (msh[j][:2] if msh[j][0] == 'E' else msh[j][0]))
        if ish != msh or ifr != mfr:
            run.violation('thunkmachine-correspondence',
                          'correspondence thunkmachine (restore=%s): implementation shared %s fresh %s / model shared %s fresh %s (sources %r requests %r)'
                          % (restore, ish, ifr, msh, mfr, srcs, replay['requests']), replay, concrete=False)
        kinds = set(x[:2] if x[0] == 'E' else x[0] for x in msh)
        if len(kinds) >= 2 and any(x[0] == 'E' for x in msh) and len(m['reqs']) >= 3:
            run.nontrivial.add(json.dumps(machine_wire(m)))
        if len(run.samples) < 2:
            run.samples.append({'component': 'thunkmachine', 'sources': srcs, 'requests': replay['requests'], 'model_shared': msh, 'model_fresh': mfr})


def interner_cases(rng, n):
    """interner histories: strings interned, an object whose field names are among them, strings
    interned later, a probe (interned, interned later, or never)"""
    cases = []
    alpha = ['61', '62', 'e9', '65e5', '1f600']
    for i in range(n):
        def s():
            return ','.join(rng.choice(alpha) for _ in range(rng.randint(1, 3)))
        strs = [s() for _ in range(rng.randint(0, 5))]
        uniq = []
        for x in strs:
            if x not in uniq:
                uniq.append(x)
        fields = ['%x:%x' % (rng.randrange(len(uniq)), rng.randint(1, 99)) for _ in range(rng.randint(0, 4))] if uniq else []
        later = [s() for _ in range(rng.randint(0, 3))]
        probe = rng.choice(strs + later + [s()])
        cases.append(('i%d' % i, 'thunkmachine', ['I', '/'.join(strs), '/'.join(fields), '/'.join(later), probe]))
    return cases


# ---------------------------------------------------------------- main check

def corpus_sessions():
    out = []
    p = os.path.join(vlib.VERIF, 'corpus', 'c11_sessions.txt')
    if os.path.exists(p):
        for l in open(p):
            l = l.rstrip('\n')
            if not l or l.startswith('#'):
                continue
            opts, srcs, reqs = l.split('\t')
            out.append((opts, srcs.split(' ;; '), reqs.split(';')))
    return out


def corpus_machines():
    out = []
    p = os.path.join(vlib.VERIF, 'corpus', 'c11_machines.txt')
    if os.path.exists(p):
        for l in open(p):
            l = l.strip()
            if l and not l.startswith('#'):
                out.append(json.loads(l))
    return out


def check(run):
    rng = vlib.rng_for(run.seed, ID)
    run.rule = ('builtin sessions: 2..4 library values = results of map / mapWithIndex / mapWithKey / filterMap / flatMap / makeArray / filter / '
                'foldl / foldr / sort,set,uniq with keyF / comprehensions, with a callback that works, has a default, takes too many / too few '
                'parameters, is not a function, fails by type, by explicit error or assertion on some elements, or recurses to a depth; 3..8 '
                'requests forcing the same element repeatedly under different limits. '
                'name sessions: a field name computed at run time (+, std.char, %, join) used through o[e], e in o, objectHas/All/Ex, std.get, '
                'objectRemoveKey, %(key)s, mergePatch, extVar, native, super[e], e in super, on objects with/without the field and with/without '
                'a super object, also with ill-typed other arguments (non-boolean inc_hidden, non-object receiver), while other sources intern the '
                'name by a load, a load that fails after lexing it, or an evaluation, before, after, or never. '
                'derive sessions: 2..3 shared library values with late-bound fields a/b/c built by literal / comprehension / + / super / '
                'objectRemoveKey / mergePatch / mapWithKey / function result / nested, 3..8 requests that force fields and, later, derive new '
                'objects from the same values (extend either side, override, remove, patch; also through eval_call) and read late-bound fields. '
                'object sessions: an inheritance chain of 1..3 layers with assertions in any subset of the layers (constant, on an overridable '
                'field, on a recursion whose depth is a field), kept alive as a library field / inside another object / in closures, read by '
                '3..8 eval / manifest / eval_call requests with limits 2..400; a fresh overflow is compared under a large limit. '
                'sessions: a library source + client sources importing it + argument sources, 2..8 requests (load / new load / eval / '
                'eval_call / manifest / manifest of a kept value / gc) with per-request stack limits; every request also on a fresh Program. '
                'machines: random thunk machines (chains, dags, cycles; failing cells; failing object assertions) printed to Jsonnet, 2..8 '
                'requests with limits around the depths that matter; real Program vs extracted machine. non-trivial = sequence of >=3 requests '
                'with at least one failure and two outcome classes (distinct by sources+requests).')
    run.assume = ['the thunk machine abstracts the evaluation of a thunk body as a deterministic program over the cells it forces; '
                  'its frame accounting is that of the printed form `(import "s<g>").c<i>`',
                  'Session\'s import cache is property C13; the collector is property C03 (Gc is the identity on the machine store)']
    # T
    try:
        restore, desc = read_error_path(vlib.REPO)
        run.add_obligation('T:error path of Evaluator::eval read from eval/mod.rs', True)
        run.notes.append(desc)
    except Exception as e:
        run.add_obligation('T:error path of Evaluator::eval read from eval/mod.rs', False, str(e))
        restore = True
    run.extra['machine_instance'] = 'restore=%s' % restore
    # proofs
    pres = vlib.prove(ID, THEOREMS, ALLOWED_AXIOMS)
    run.add_proof(pres, THEOREMS)
    # build
    impl_exe = vlib.build_harness()
    model_exe = vlib.build_model('thunkmachine')
    thorough = run.tier == 'thorough'
    # corpus first
    run_sessions(run, impl_exe, corpus_sessions(), 'cs')
    run_machines(run, impl_exe, model_exe, corpus_machines(), restore, 'cm')
    # K
    machines = [gen_machine(rng, rng.choice([3, 5, 8, 12])) for _ in range(6000 if thorough else 400)]
    run_machines(run, impl_exe, model_exe, machines, restore, 'm')
    ic = interner_cases(rng, 3000 if thorough else 300)
    ires = vlib.run_sharded(model_exe, [vlib.model_line(c) for c in ic], timeout=120)
    for c in ic:
        run.evaluations += 1
        r = ires.get(c[0], 'NOOUTPUT').split('\t')
        if len(r) != 3 or not (r[0] == r[1] == r[2]):
            run.violation('interner-model', 'interner model: lookup/after growth/reference disagree: %s on %r' % (r, c[2]), {'kind': 'interner', 'case': c[2]}, concrete=False)
        run.count('interner_' + ('hit' if r and r[0] != '-' else 'miss'))
    # search
    sessions = [gen_session(rng) for _ in range(8000 if thorough else 450)]
    run_sessions(run, impl_exe, sessions, 's')
    osessions = [gen_object_session(rng) for _ in range(8000 if thorough else 550)]
    run_sessions(run, impl_exe, osessions, 'o')
    dsessions = []
    for _ in range(8000 if thorough else 600):
        opts, srcs, reqs, kinds = gen_derive_session(rng)
        for kd in kinds.split('+'):
            run.count('derive_' + kd)
        dsessions.append((opts, srcs, reqs))
    run_sessions(run, impl_exe, dsessions, 'd')
    bsessions = []
    for _ in range(8000 if thorough else 600):
        opts, srcs, reqs, kinds = gen_builtin_session(rng)
        for kd in kinds:
            run.count('builtin_' + kd.split('/')[0])
            run.count('callback_' + kd.split('/')[1])
        bsessions.append((opts, srcs, reqs))
    run_sessions(run, impl_exe, bsessions, 'b')
    nsessions = [gen_name_session(rng) for _ in range(8000 if thorough else 600)]
    run_sessions(run, impl_exe, nsessions, 'n')


def replay(run, path):
    j = json.load(open(path))
    r = j.get('replay', {})
    if isinstance(r, dict) and r.get('kind') == 'session':
        run_sessions(run, vlib.build_harness(), [(r['opts'], r['sources'], r['requests'])], 'r')
    elif isinstance(r, dict) and r.get('kind') == 'machine':
        try:
            restore, _ = read_error_path(vlib.REPO)
        except Exception:
            restore = r.get('restore', True)
        run_machines(run, vlib.build_harness(), vlib.build_model('thunkmachine'), [r['machine']], restore, 'r')
    else:
        print('replay file names a broken obligation, not an input:', json.dumps(j.get('no_longer_checks', j), indent=1)[:2000])
        pres = vlib.prove(ID, THEOREMS, ALLOWED_AXIOMS)
        run.add_proof(pres, THEOREMS)
    for v in run.violations:
        print('REPRODUCED:', v['what'])
    if not run.violations and not run.failed_obligations:
        print('not reproduced')
    return 1 if (run.violations or run.failed_obligations) else 0
