"""C20 — parsing, encoding and hashing builtins compute the standard functions.

Proof:  Props/C20.v over Model/{Radix,Base64,Utf8Codec,JsonParse,Esc}.v (+ Hash.v specs).
T:      the C0 range escaped by escape_string_json is read from manifest.rs on every run
        and handed to the model as a parameter.
K:      every builtin is evaluated through the real library (`std.f(arg)`, harness component
        `eval`) and through the extracted model (component `codecs`) on the same inputs.
Search: Python int()/float, base64, codecs, json (strict), shlex, html, ast, hashlib applied to
        the implementation's answers alone.
std.parseYaml (external crate saphyr-parser) is NOT modelled: totality and agreement with
std.parseJson on JSON documents are checked on the implementation only.
"""
import os, sys, re, json, struct, base64, binascii, hashlib, shlex, html, ast, math
import vlib
from vlib import hx, hxl

ID = 'C20'
COMPONENTS = ['codecs']
THEOREMS = [
    'C20_radix_no_panic',
    'C20_radix_invalid_digit_iff',
    'C20_radix_value_exact',
    'C20_radix_nonvacuous',
    'C20_radix_orig_panic_refuted',
    'C20_radix_orig_long_refuted',
    'C20_radix_long_witness',
    'C20_radix_long_is_rne',
    'C20_f_of_Z_is_rne',
    'C20_radix_long_nonvacuous',
    'C20_base64_decode_encode',
    'C20_base64_string_roundtrip',
    'C20_base64_alphabet_padding',
    'C20_base64_rejects_exactly',
    'C20_base64_nonvacuous',
    'C20_utf8_decode_encode',
    'C20_utf8_encode_valid',
    'C20_decode_utf8_is_lossy',
    'C20_utf8_nonvacuous',
    'C20_json_rejects_dup_keys',
    'C20_json_rejects_control_chars',
    'C20_json_rejects_leading_zero',
    'C20_json_rejects_trailing',
    'C20_json_ws_exact',
    'C20_json_string_roundtrip',
    'C20_json_roundtrip',
    'C20_json_rejects_trailing_any',
    'C20_json_roundtrip_nonvacuous',
    'C20_json_nonvacuous',
    'C20_bash_unescape_escape',
    'C20_xml_escape_no_specials',
    'C20_dollars_doubling',
    'C20_parse_escape_json',
    'C20_escape_json_0x19_refuted',
    'C20_esc_nonvacuous',
    'C20_hash_vectors',
    'C20_hash_pad_length',
    'C20_hash_output_length',
]
# real-number axioms of Coq's standard library, reached through Flocq (shr_truncate, binary_normalize_correct)
# by C20_radix_value_exact, C20_radix_long_is_rne and C20_f_of_Z_is_rne only
ALLOWED_AXIOMS = {'ClassicalDedekindReals.sig_not_dec', 'ClassicalDedekindReals.sig_forall_dec',
                  'FunctionalExtensionality.functional_extensionality_dep', 'Classical_Prop.classic'}
TRANSLATORS = []

MANIFEST_RS = 'rsjsonnet-lang/src/program/eval/manifest.rs'


def read_c0_hi(repo):
    """T: upper end of the '\\u{0}'..='\\u{XX}' arm of escape_string_json"""
    src = open(os.path.join(repo, MANIFEST_RS)).read()
    m = re.search(r'fn escape_string_json\b.*?\n}\n', src, flags=re.S)
    if not m:
        raise RuntimeError('escape_string_json not found in manifest.rs')
    body = m.group(0)
    mm = re.findall(r"'\\u\{0\}'\s*\.\.=\s*'\\u\{([0-9a-fA-F]+)\}'\s*\|\s*'\\u\{7[fF]\}'\s*\.\.=\s*'\\u\{9[fF]\}'", body)
    if len(mm) != 1:
        raise RuntimeError('escape_string_json: the C0/C1 range arm has an unknown shape')
    arms = re.findall(r"^\s*('[^\n]*?')\s*=>", body, flags=re.M)
    want = ["'\\u{8}'", "'\\t'", "'\\n'", "'\\u{c}'", "'\\r'", "'\"'", "'\\\\'"]
    if [a for a in arms[:7]] != want:
        raise RuntimeError('escape_string_json: unexpected list of short-escape arms: %r' % arms)
    return int(mm[0], 16)


# ------------------------------------------------------------------ helpers

def cps(s):
    return ','.join('%x' % ord(c) for c in s)


def uncps(w):
    return ''.join(chr(int(x, 16)) for x in w.split(',')) if w else ''


def dotted_utf8(s):
    return '.'.join('%x' % b for b in s.encode('utf-8'))


def f2bits(x):
    return struct.unpack('<Q', struct.pack('<d', x))[0]


def bits2f(b):
    return struct.unpack('<d', struct.pack('<Q', b))[0]


def rust_unescape(s):
    """inverse of Rust's Debug escaping of str/char contents"""
    out = []
    i = 0
    while i < len(s):
        c = s[i]
        if c == '\\' and i + 1 < len(s):
            d = s[i + 1]
            if d == 'u' and i + 2 < len(s) and s[i + 2] == '{':
                j = s.index('}', i)
                out.append(chr(int(s[i + 3:j], 16)))
                i = j + 1
                continue
            out.append({'n': '\n', 'r': '\r', 't': '\t', '0': '\0', '\\': '\\', '"': '"', "'": "'"}.get(d, d))
            i += 2
        else:
            out.append(c)
            i += 1
    return ''.join(out)


JKINDS = [
    ('expected value', 'ExpectedValue'), ('expected end-of-file', 'ExpectedEof'),
    ('expected object key', 'ExpectedObjectKey'), ('invalid number', 'InvalidNumber'),
    ('number overflow', 'NumberOverflow'), ('unfinished string', 'UnfinishedString'),
    ('invalid character in string', 'InvalidChrInString'), ('invalid string escape', 'InvalidStringEscape'),
]


def classify_error(fn, variant, msg):
    """implementation error -> the model's error vocabulary (kinds, never wording beyond the kind)"""
    if variant == 'NumberOverflow':
        return 'ERR\toverflow'
    if variant != 'Other' or msg is None:
        return 'ERR\t?' + variant
    if 'integer without digits' in msg:
        return 'ERR\tempty'
    m = re.match(r"invalid (?:octal digit|hexadecimal digit|base 10): '(.*)'$", msg, flags=re.S)
    if m:
        return 'ERR\tdigit\t%x' % ord(rust_unescape(m.group(1)))
    if msg.startswith('only codepoints up to 255'):
        return 'ERR\tnotbytechar'
    if msg.startswith('only numbers between 0 and 255'):
        return 'ERR\tnotbytenumber'
    if msg.startswith('length of base64 string is not a multiple of 4'):
        return 'ERR\tlength'
    m = re.match(r"invalid base64 character: '(.*)'$", msg, flags=re.S)
    if m:
        return 'ERR\tchar\t%x' % ord(rust_unescape(m.group(1)))
    m = re.match(r'failed to parse JSON: line (\d+), column (\d+): (.*)$', msg, flags=re.S)
    if m:
        line, col, k = int(m.group(1)) - 1, int(m.group(2)) - 1, m.group(3)
        kind = None
        for text, name in JKINDS:
            if k == text:
                kind = name
        mm = re.match(r'expected `(.)` or `(.)`$', k, flags=re.S)
        if mm:
            kind = 'Expected2:%x:%x' % (ord(mm.group(1)), ord(mm.group(2)))
        mm = re.match(r'expected `(.)`$', k, flags=re.S)
        if mm:
            kind = 'Expected1:%x' % ord(mm.group(1))
        mm = re.match(r'repeated field name "(.*)"$', k, flags=re.S)
        if mm:
            kind = 'RepeatedFieldName:' + '.'.join('%x' % ord(c) for c in rust_unescape(mm.group(1)))
        return 'ERR\t%s\t%x\t%x' % (kind or ('?' + k), line, col)
    if msg.startswith('failed to parse YAML'):
        return 'ERR\tyaml'
    return 'ERR\t?' + msg[:60]


def impl_parse(r):
    """raw eval answer -> ('OK', text) | ('ERR', variant, message) | ('PANIC',) | ('CRASH', …)"""
    f = r.split('\t')
    if f[0] == 'OK':
        return ('OK', uncps(f[1]))
    if f[0] == 'ERR':
        variant = f[2]
        msg = None
        for x in f:
            if x.startswith('D='):
                dbg = uncps(x[2:])
                m = re.search(r'message: "(.*)" }$', dbg, flags=re.S)
                if m:
                    msg = rust_unescape(m.group(1))
        return ('ERR', variant, msg, f[1])
    return (f[0],) + tuple(f[1:])


# -- JSON values in a canonical python form: None/bool/('d',bits)/('s',str)/list/dict

def canon_py(v):
    if v is None or isinstance(v, bool):
        return v
    if isinstance(v, float):
        return ('d', f2bits(v))
    if isinstance(v, int):
        return ('d', f2bits(float(v)))
    if isinstance(v, str):
        return ('s', v)
    if isinstance(v, list):
        return [canon_py(x) for x in v]
    if isinstance(v, dict):
        return {k: canon_py(x) for k, x in v.items()}
    raise ValueError(v)


class DupKey(Exception):
    pass


def _pairs(pairs):
    d = {}
    for k, v in pairs:
        if k in d:
            raise DupKey(k)
        d[k] = v
    return d


def _noconst(x):
    raise ValueError('constant ' + x)


def py_json_strict(text):
    """RFC 8259 + no duplicate keys + finite doubles + representable strings; returns ('OK', canon) or ('REJ', why)"""
    try:
        v = json.loads(text, object_pairs_hook=_pairs, parse_constant=_noconst, parse_int=float)
    except DupKey:
        return ('REJ', 'dup')
    except (ValueError, RecursionError) as e:
        return ('REJ', 'syntax')

    def bad(v):
        if isinstance(v, float):
            return not math.isfinite(v)
        if isinstance(v, str):
            return any(0xD800 <= ord(c) <= 0xDFFF for c in v)
        if isinstance(v, list):
            return any(bad(x) for x in v)
        if isinstance(v, dict):
            return any(bad(k) or bad(x) for k, x in v.items())
        return False
    if bad(v):
        return ('REJ', 'unrepresentable')     # DESIGN §7 (vii): unpaired surrogate escapes; overflowing numbers
    return ('OK', canon_py(v))


def manifest_to_canon(text):
    """the implementation's manifested JSON text -> canonical python value (tolerant reader)"""
    return canon_py(json.loads(text, strict=False, parse_int=float))


def model_json_to_canon(s):
    toks = s.split(' ')
    pos = [0]

    def val():
        t = toks[pos[0]]
        pos[0] += 1
        if t == 'n':
            return None
        if t == 't':
            return True
        if t == 'f':
            return False
        if t[0] == 'd':
            return ('d', int(t[1:], 16))
        if t[0] == 's':
            return ('s', ''.join(chr(int(x, 16)) for x in t[1:].split('.')) if len(t) > 1 else '')
        if t == '[':
            out = []
            while toks[pos[0]] != ']':
                out.append(val())
            pos[0] += 1
            return out
        if t == '{':
            out = {}
            while toks[pos[0]] != '}':
                k = toks[pos[0]]
                pos[0] += 1
                key = ''.join(chr(int(x, 16)) for x in k[1:].split('.')) if len(k) > 1 else ''
                out[key] = val()
            pos[0] += 1
            return out
        raise ValueError('bad model json token ' + t)
    v = val()
    return v


# ------------------------------------------------------------------ cases

class Case:
    __slots__ = ('cid', 'fn', 'arg', 'impl_src', 'impl_opts', 'model_fn', 'model_fields', 'tag')

    def __init__(self, cid, fn, arg, tag=''):
        self.cid, self.fn, self.arg, self.tag = cid, fn, arg, tag
        self.model_fn = None
        self.model_fields = None


STR_RESULT = {'base64s', 'base64n', 'base64Decode', 'decodeUTF8', 'escBash', 'escDollars', 'escXml', 'escJson',
              'escPython', 'md5', 'sha1', 'sha256', 'sha512', 'sha3'}
STD_NAME = {'parseInt': 'parseInt', 'parseOctal': 'parseOctal', 'parseHex': 'parseHex', 'base64s': 'base64',
            'base64n': 'base64', 'base64DecodeBytes': 'base64DecodeBytes', 'base64Decode': 'base64Decode',
            'encodeUTF8': 'encodeUTF8', 'decodeUTF8': 'decodeUTF8', 'escBash': 'escapeStringBash',
            'escDollars': 'escapeStringDollars', 'escXml': 'escapeStringXML', 'escJson': 'escapeStringJson',
            'escPython': 'escapeStringPython', 'parseJson': 'parseJson', 'parseYaml': 'parseYaml',
            'md5': 'md5', 'sha1': 'sha1', 'sha256': 'sha256', 'sha512': 'sha512', 'sha3': 'sha3'}
MODEL_FN = {'parseInt': 'parseInt', 'parseOctal': 'parseOctal', 'parseHex': 'parseHex', 'base64s': 'base64s',
            'base64n': 'base64n', 'base64DecodeBytes': 'base64dec', 'base64Decode': 'base64dec',
            'encodeUTF8': 'encodeUTF8', 'decodeUTF8': 'decodeUTF8', 'escBash': 'escBash', 'escDollars': 'escDollars',
            'escXml': 'escXml', 'escJson': 'escJson', 'escPython': 'escPython', 'parseJson': 'parseJson',
            'md5': 'md5', 'sha1': 'sha1', 'sha256': 'sha256', 'sha512': 'sha512', 'sha3': 'sha3'}
NUM_LITS = ['0', '1', '65', '255', '254.9', '255.5', '1.5', '0.5', '-0.5', '-0', '256', '-1', '1e10', '-1e10', '3e9',
            '2147483903', '4294967296', '1e300', '-0.99', '127', '128', '200.25']


def num_lit_value(l):
    return float(l)


def build(case, c0_hi):
    """fill impl source/options and model fields of a case"""
    fn, arg = case.fn, case.arg
    std = STD_NAME[fn]
    opts = []
    if fn in STR_RESULT:
        opts.append('str=1')
    if fn in ('base64n',):
        src = 'std.%s([%s])' % (std, ', '.join(arg))
    elif fn == 'decodeUTF8':
        src = 'std.%s([%s])' % (std, ', '.join(str(b) for b in arg))
    else:
        src = 'std.%s(std.extVar("a"))' % std
        opts.append('ext=61:s:' + dotted_utf8(arg))
    case.impl_src = hxl(list(src.encode()))
    case.impl_opts = ';'.join(opts)
    if fn in MODEL_FN:
        case.model_fn = MODEL_FN[fn]
        if fn == 'base64n':
            a = hxl([f2bits(num_lit_value(x)) for x in arg])
        elif fn == 'decodeUTF8':
            a = hxl(list(arg))
        else:
            a = cps(arg)
        case.model_fields = [case.model_fn, a]
        if fn in ('escJson', 'escPython'):
            case.model_fields.append(hx(c0_hi))


def canon_impl(case, raw):
    """implementation answer in the model's vocabulary"""
    p = impl_parse(raw)
    fn = case.fn
    if p[0] == 'OK':
        text = p[1]
        if fn in ('parseInt', 'parseOctal', 'parseHex'):
            return 'OK\t%x' % f2bits(float(text))
        if fn in STR_RESULT:
            return 'OK\t' + cps(text)
        if fn in ('base64DecodeBytes', 'encodeUTF8'):
            return 'OK\t' + hxl([int(x) for x in json.loads(text)])
        if fn in ('parseJson', 'parseYaml'):
            return ('OKJSON', manifest_to_canon(text))
        return 'OK\t' + text
    if p[0] == 'ERR':
        return classify_error(fn, p[1], p[2])
    if p[0] == 'PANIC':
        return 'PANIC'
    return '\t'.join(p)


def canon_model(case, raw):
    f = raw.split('\t')
    if f[0] == 'PANIC':
        return 'PANIC'
    if f[0] == 'OK' and case.fn == 'parseJson':
        return ('OKJSON', model_json_to_canon(f[1]))
    return raw


# ------------------------------------------------------------------ generators

NONDIGITS = ['g', 'z', '_', ' ', '-', '+', 'x', '.', '\u00e9', '\u65e5', '\U0001F600', '\uff11', '\u0663', '\x00', "'", '\n',
             'G', '\u0301', '\u00df', '\u2028']


def gen_radix(rng, tier):
    out = []
    hexd = '0123456789abcdefABCDEF'
    octd = '01234567'
    decd = '0123456789'
    lens = [1, 2, 3, 13, 14, 15, 16, 17, 30, 31, 32, 33, 34, 41, 42, 43, 44, 45, 63, 64, 65, 100, 255, 256, 257, 300, 341, 342, 343, 400]
    # 1. random digit strings of many lengths
    for fn, ds in (('parseHex', hexd), ('parseOctal', octd), ('parseInt', decd)):
        ls = lens if tier == 'thorough' else rng.sample(lens, 14) + [32, 33, 42, 43]
        for L in ls:
            for _ in range(3 if tier == 'thorough' else 1):
                s = rng.choice(ds[1:]) + ''.join(rng.choice(ds) for _ in range(L - 1))
                if rng.random() < 0.3:
                    s = '0' * rng.randint(1, 5) + s
                out.append((fn, s, 'digits'))
    # 2. a non-digit at every position
    for fn, ds in (('parseHex', hexd), ('parseOctal', octd), ('parseInt', decd)):
        Ls = [1, 2, 5, 20, 31, 32, 33, 34, 35, 41, 42, 43, 44, 45, 46, 60] + ([100, 400] if tier == 'thorough' else [rng.choice([80, 120, 400])])
        for L in Ls:
            positions = range(L) if (tier == 'thorough' or L <= 60) else rng.sample(range(L), 25)
            for pos in positions:
                nd = rng.choice(NONDIGITS + (['8', '9'] if fn == 'parseOctal' else []) + (['a', 'F'] if fn != 'parseHex' else []))
                base = [rng.choice(ds[1:])] + [rng.choice(ds) for _ in range(L - 1)]
                base[pos] = nd
                s = ''.join(base)
                if rng.random() < 0.15:
                    s = '00' + s
                out.append((fn, s, 'nondigit'))
    # 3. rounding structure: 53-bit prefix, a half-way digit, zeros, optional sticky digit far to the right
    for fn, ds, half, bitsper in (('parseHex', '0123456789abcdef', '8', 4), ('parseOctal', octd, '4', 3)):
        n = 120 if tier == 'thorough' else 36
        for _ in range(n):
            if bitsper == 4:
                prefix = '1' + ''.join(rng.choice(ds) for _ in range(13))     # 1 + 52 bits
            else:
                prefix = rng.choice('4567') + ''.join(rng.choice(ds) for _ in range(17)) if rng.random() < 0.5 else \
                    '1' + ''.join(rng.choice(ds) for _ in range(17)) + rng.choice('04')
            total = rng.choice([15, 16, 20, 31, 32, 33, 34, 35, 40, 42, 43, 44, 45, 50, 64, 100, 200])
            rest = total - len(prefix) - 1
            if rest < 0:
                continue
            tail = ['0'] * rest
            kind = rng.choice(['tie', 'sticky', 'sticky-last', 'below'])
            h = half
            if kind == 'sticky' and rest > 0:
                tail[rng.randrange(rest)] = rng.choice(ds[1:])
            elif kind == 'sticky-last' and rest > 0:
                tail[-1] = '1'
            elif kind == 'below':
                h = ds[ds.index(half) - 1]
                tail = [ds[-1]] * rest
            out.append((fn, prefix + h + ''.join(tail), 'round-' + kind))
    # 4. overflow boundary
    for s in ['f' * 256, 'f' * 13 + '8' + '0' * 242, 'f' * 13 + '7' + 'f' * 242, '1' + '0' * 256, 'f' * 13 + '8' + '0' * 241,
              'f' * 255, '8' + '0' * 255, 'f' * 14 + '0' * 242, 'f' * 13 + '80' + '0' * 240 + '1']:
        out.append(('parseHex', s, 'overflow-edge'))
    for s in ['1' + '7' * 341, '2' + '0' * 341, '1' + '7' * 17 + '4' + '0' * 323, '1' + '7' * 17 + '3' + '7' * 323, '7' * 342, '1' + '0' * 342]:
        out.append(('parseOctal', s, 'overflow-edge'))
    for s in ['1' + '0' * 308, '1' + '7976931348623157' + '0' * 292, '17976931348623158' + '0' * 292, '179769313486231580793728971405303415079934132710037826936173778980444968292764750946649017977587207096330286416692887910946555547851940402630657488671505820681908902000708383676273854845817711531764475730270069855571366959622842914819860834936475292719074168444365510704342711559699508093042880177904174497791',
              '179769313486231580793728971405303415079934132710037826936173778980444968292764750946649017977587207096330286416692887910946555547851940402630657488671505820681908902000708383676273854845817711531764475730270069855571366959622842914819860834936475292719074168444365510704342711559699508093042880177904174497792',
              '9007199254740993', '9007199254740992', '-9007199254740993', '-0', '-', '', '--1', '-+1', '+1', '1e5', '1.0', ' 1', '1 ', '0x10', '1_000', '-00012', '18446744073709551615', '18446744073709551617']:
        out.append(('parseInt', s, 'edge'))
    for s in ['', '0', '00', '000000000000000000000000000000000000000000000000000', '0x10', '0X10', '-1', '+1', 'ff', 'FF', 'fF', '1_0', ' ff', 'ff ', '0' * 50 + 'ff', 'g']:
        out.append(('parseHex', s, 'edge'))
    for s in ['', '0', '00', '777', '8', '0o7', '-7', '0' * 60 + '17', '7' * 42, '7' * 43, '1' + '0' * 42]:
        out.append(('parseOctal', s, 'edge'))
    return out


def rand_bytes(rng, n, kind):
    if kind == 'ascii':
        return bytes(rng.randrange(32, 127) for _ in range(n))
    if kind == 'edges':
        return bytes(rng.choice([0, 1, 0x3f, 0x40, 0x7f, 0x80, 0xbf, 0xc0, 0xfb, 0xfc, 0xfe, 0xff]) for _ in range(n))
    return bytes(rng.randrange(256) for _ in range(n))


B64A = 'ABCDEFGHIJKLMNOPQRSTUVWXYZabcdefghijklmnopqrstuvwxyz0123456789+/'


def gen_base64(rng, tier):
    out = []
    n = 260 if tier == 'thorough' else 60
    for i in range(n):
        L = rng.choice([0, 1, 2, 3, 4, 5, 6, 7, 8, 9, 10, 31, 32, 33, 57, 100, 255, 256, 300]) if i % 2 else rng.randint(0, 40)
        b = rand_bytes(rng, L, rng.choice(['ascii', 'edges', 'any', 'any']))
        out.append(('base64s', ''.join(chr(x) for x in b), 'bytes-as-string'))
        out.append(('base64n', [str(x) for x in b], 'bytes'))
        enc = base64.b64encode(b).decode()
        out.append(('base64DecodeBytes', enc, 'canonical'))
        out.append(('base64Decode', enc, 'canonical'))
        # mutations of the encoding
        if enc:
            for _ in range(3):
                e = list(enc)
                k = rng.random()
                p = rng.randrange(len(e))
                if k < 0.25:
                    e[p] = rng.choice(['=', '-', '_', ' ', '\n', '\u00e9', '\U0001F600', '.', '*', '\x00', '@', '[', '`', '{', ':'])
                elif k < 0.45:
                    e[p] = rng.choice(B64A)
                elif k < 0.6:
                    del e[p]
                elif k < 0.75:
                    e.insert(p, rng.choice(B64A + '='))
                elif k < 0.85:
                    e = e + list(rng.choice(['=', '==', '====', 'QQ==', 'QUJD']))
                else:
                    e = e[:len(e) - rng.randint(1, min(4, len(e)))] + list(rng.choice(['', '=', '==', '===']))
                out.append((rng.choice(['base64DecodeBytes', 'base64Decode']), ''.join(e), 'mutated'))
    # malformed encodings, systematically: one offending character of every code-point class at every position
    # of a quantum (first / middle / last quantum, padded and unpadded tails); the decoder must decide on the
    # code point, never on its low byte
    alias = [0x100 * k + ord(c) for c in 'AZaz09+/=Mm5' for k in (1, 2, 0x20, 0x2f, 0xff)] + \
            [0x10000 + ord(c) for c in 'Aa0+/='] + [0x1f600 + 0x41 - 0x00, 0x1F441, 0x10FF41, 0xE0041]
    classes = {
        'ascii': [ord(c) for c in ' !"#$%&\'()*,-.:;<>?@[\\]^_`{|}~\x00\t\n\x7f'],
        'latin1': [0x80, 0xa0, 0xc1, 0xe9, 0xfa, 0xff, 0xb7, 0xd7],
        'alias': [c for c in alias if not (0xD800 <= c <= 0xDFFF) and c <= 0x10FFFF],
        'pad': [ord('=')],
    }
    tails = ['QUJD', 'QUI=', 'QQ==']
    per = 6 if tier == 'thorough' else 2
    for cname, cl in classes.items():
        for tail in tails:
            for nq in (0, 1, 2):           # quanta before the last one
                base = [rng.choice(B64A) for _ in range(4 * nq)] + list(tail)
                for pos in range(len(base)):
                    picks = cl if cname == 'pad' else rng.sample(cl, min(per, len(cl)))
                    for c in picks:
                        e = list(base)
                        if e[pos] == chr(c):
                            continue
                        e[pos] = chr(c)
                        out.append((rng.choice(['base64DecodeBytes', 'base64Decode']), ''.join(e), 'malformed-' + cname))
    # every aliasing code point once in each of the four positions of a single quantum (both builtins)
    for c in classes['alias']:
        pos = rng.randrange(4)
        e = list('QUJD')
        e[pos] = chr(c)
        out.append(('base64DecodeBytes', ''.join(e), 'malformed-alias'))
        out.append(('base64Decode', ''.join(e), 'malformed-alias'))
    # wrong lengths
    for L in (1, 2, 3, 5, 6, 7, 9, 13):
        out.append((rng.choice(['base64DecodeBytes', 'base64Decode']), ''.join(rng.choice(B64A) for _ in range(L)), 'malformed-length'))
        out.append((rng.choice(['base64DecodeBytes', 'base64Decode']), ''.join(rng.choice(B64A) for _ in range(L - 1)) + '\u0141', 'malformed-length'))
    # strings with code points >= 256 and around
    for s in ['\u0100', 'abc\u0100', '\u00ff\u00fe', 'a\U0001F600', '\u00e9', 'h\u00e9llo', '\u0101' * 3, 'ab\u2028']:
        out.append(('base64s', s, 'non-byte-char'))
    for _ in range(n // 3):
        L = rng.randint(1, 8)
        out.append(('base64n', [rng.choice(NUM_LITS) for _ in range(L)], 'numbers'))
    for s in ['', '=', '==', '===', '====', 'Q===', 'QQ==', 'QR==', 'QQ=Q', '=QQQ', 'QQ==QQ==', 'QUJD', 'QUJ=', 'QUJ', 'QU=\n', 'Q U J D', 'QUJDRA==',
              'QUJDRA=', 'QUJDR===', '/+/+', '-_-_', 'QUJDRA==\n', '\u00e9\u00e9\u00e9\u00e9', 'QQ\u3d3d', '////', '++++', 'AAAA', 'zzzz', '9999', 'QUJDQ===']:
        out.append(('base64DecodeBytes', s, 'edge'))
        out.append(('base64Decode', s, 'edge'))
    return out


def scalar_sample(rng, tier):
    edges = [0, 1, 0x7f, 0x80, 0x7ff, 0x800, 0xfff, 0x1000, 0xcfff, 0xd000, 0xd7ff, 0xe000, 0xfffd, 0xfffe, 0xffff,
             0x10000, 0x10ffff, 0x3ffff, 0x40000, 0xfffff, 0x100000, 0x2028, 0x85, 0xa0, 0xfeff, 0x22, 0x27, 0x5c, 0x24, 0x26, 0x3c, 0x3e]
    if tier == 'thorough':
        for c in range(0x110000):
            if not (0xD800 <= c <= 0xDFFF):
                yield c
    else:
        for c in edges:
            yield c
        for lo, hi, k in ((0, 0x80, 40), (0x80, 0x800, 60), (0x800, 0xD800, 120), (0xE000, 0x10000, 60), (0x10000, 0x110000, 200)):
            for _ in range(k):
                yield rng.randrange(lo, hi)


def gen_utf8(rng, tier):
    out = []
    # all scalar values (stratified in quick), in strings of 64 chars
    cur = []
    for c in scalar_sample(rng, tier):
        cur.append(chr(c))
        if len(cur) == (512 if tier == 'thorough' else 48):
            out.append(('encodeUTF8', ''.join(cur), 'scalars'))
            out.append(('decodeUTF8', ''.join(cur).encode('utf-8'), 'valid'))
            cur = []
    if cur:
        out.append(('encodeUTF8', ''.join(cur), 'scalars'))
        out.append(('decodeUTF8', ''.join(cur).encode('utf-8'), 'valid'))
    out.append(('encodeUTF8', '', 'scalars'))
    out.append(('decodeUTF8', b'', 'valid'))
    # invalid sequences
    bad = [b'\xff', b'\xc0\xaf', b'\xc1\xbf', b'\xc2', b'\xc2\x41', b'\xe0\x80\x80', b'\xe0\x9f\xbf', b'\xe0\xa0', b'\xe0\xa0\x41',
           b'\xed\xa0\x80', b'\xed\x9f\xbf', b'\xed\xbf\xbf', b'\xef\xbf', b'\xf0\x80\x80\x80', b'\xf0\x8f\xbf\xbf', b'\xf0\x90\x80',
           b'\xf0\x9f\x98', b'\xf0\x9f\x41', b'\xf4\x8f\xbf\xbf', b'\xf4\x90\x80\x80', b'\xf5\x80\x80\x80', b'\xf8\x88\x80\x80\x80',
           b'\x80', b'\xbf', b'\x80\x80', b'a\x80b', b'\xe6\x97\xa5\xe6\x97', b'\xf0\x9f\x98\x80\xff\xe6\x97', b'\xfe\xff', b'\xc2\xc2\xa9',
           b'\xe1\x80\xe1\x80\x80', b'\xf1\x80\x80\xf1\x80\x80\x80', b'\xed\xa0\x80\xed\xb0\x80', b'\xf4\x8f\xbf', b'\xe0', b'\xf0', b'\xf4\x8f']
    for b in bad:
        out.append(('decodeUTF8', b, 'invalid'))
        out.append(('decodeUTF8', b'ab' + b + b'cd', 'invalid'))
    n = 600 if tier == 'thorough' else 120
    interesting = [0x00, 0x41, 0x7f, 0x80, 0x8f, 0x90, 0x9f, 0xa0, 0xbf, 0xc0, 0xc1, 0xc2, 0xdf, 0xe0, 0xe1, 0xec, 0xed, 0xee, 0xef,
                   0xf0, 0xf1, 0xf3, 0xf4, 0xf5, 0xf7, 0xf8, 0xff]
    for _ in range(n):
        L = rng.randint(1, 12)
        if rng.random() < 0.7:
            b = bytes(rng.choice(interesting) for _ in range(L))
        else:
            # valid text with a few bytes damaged
            t = bytearray(''.join(chr(rng.choice([0x41, 0xe9, 0x65e5, 0x1f600, 0x7ff, 0x800, 0xffff, 0x10000, 0x10ffff])) for _ in range(L)).encode())
            for _ in range(rng.randint(1, 2)):
                if not t:
                    break
                p = rng.randrange(len(t))
                if rng.random() < 0.5:
                    t[p] = rng.choice(interesting)
                else:
                    del t[p]
            b = bytes(t)
        out.append(('decodeUTF8', b, 'invalid-random'))
    return out


ESC_CHARS = ["'", '"', '$', '<', '>', '&', '\\', '`', '\n', '\t', '\r', '\x00', '\x08', '\x0c', '\x19', '\x1a', '\x1b', '\x1f', ' ', '\x7f',
             '\x80', '\x9f', '\xa0', '\u2028', '\u65e5', '\U0001F600', 'a', 'Z', '0', ';', '#', '!', '*', '/', '\x01', '\x1e', '\x1c', '\x1d']


def gen_esc(rng, tier):
    out = []
    n = 200 if tier == 'thorough' else 40
    strs = ['', "'", "''", "a'b", '$', '$$', 'a$b$', '<a href="x">&amp;</a>', "it's", '\\', '"', '&&', '&lt;', "'\"'\"'", '\x00', '\x7f\x80\x9f\xa0']
    strs += [''.join(chr(c) for c in range(0, 32)), ''.join(chr(c) for c in range(0x7f, 0xa1))]
    for _ in range(n):
        L = rng.randint(0, 16)
        strs.append(''.join(rng.choice(ESC_CHARS) for _ in range(L)))
    for s in strs:
        for fn in ('escBash', 'escDollars', 'escXml', 'escJson', 'escPython'):
            out.append((fn, s, 'esc'))
    return out


def gen_json_value(rng, depth, maxdepth):
    r = rng.random()
    if depth >= maxdepth or r < 0.45:
        k = rng.random()
        if k < 0.1:
            return rng.choice(['null', 'true', 'false'])
        if k < 0.55:
            return gen_json_number(rng)
        return gen_json_string(rng)
    ws = lambda: rng.choice(['', '', ' ', '\n', '\r\n', '  ', '\t', ' \n '])
    n = rng.randint(0, 4)
    if r < 0.72:
        return '[' + ws() + (',' + ws()).join(gen_json_value(rng, depth + 1, maxdepth) + ws() for _ in range(n)) + ']'
    keys = []
    items = []
    for i in range(n):
        k = gen_json_string(rng)
        while k in keys:
            k = '"k%d"' % rng.randint(0, 10 ** 6)
        keys.append(k)
        items.append(k + ws() + ':' + ws() + gen_json_value(rng, depth + 1, maxdepth) + ws())
    return '{' + ws() + (',' + ws()).join(items) + '}'


def gen_json_number(rng):
    k = rng.random()
    sign = rng.choice(['', '', '-'])
    if k < 0.3:
        return sign + str(rng.choice([0, 1, 7, 10, 255, 65536, 2 ** 53, 2 ** 53 + 1, 10 ** 21, rng.randrange(10 ** 6), rng.randrange(10 ** 25)]))
    if k < 0.6:
        return sign + '%d.%s' % (rng.randrange(1000), ''.join(rng.choice('0123456789') for _ in range(rng.randint(1, 20))))
    e = rng.choice(['e', 'E']) + rng.choice(['', '+', '-']) + str(rng.choice([0, 1, 5, 22, 23, 300, 308, 309, 323, 324, 325, 400, 99999999999999999999, rng.randrange(400)]))
    m = rng.choice(['0', '1', '4.9', '2.47', '2.48', '1.7976931348623157', '1.7976931348623159', '0.000001', str(rng.randrange(10 ** 18)),
                    '%d.%d' % (rng.randrange(100), rng.randrange(10 ** 17))])
    return sign + m + e


def gen_json_string(rng):
    parts = []
    for _ in range(rng.choice([0, 1, 1, 2, 3, 6])):
        k = rng.random()
        if k < 0.5:
            parts.append(rng.choice(['a', 'b', 'key', 'x y', '\u00e9', '\u65e5\u672c', '\U0001F600', '/', "'", '\x7f', '\u2028', '\x80', '#', ': ', '- ', '[', '{', ',', '&', '*', '!', '%', '@', '`']))
        elif k < 0.7:
            parts.append(rng.choice(['\\"', '\\\\', '\\/', '\\b', '\\f', '\\n', '\\r', '\\t']))
        elif k < 0.9:
            parts.append('\\u%04x' % rng.choice([0, 0x1f, 0x20, 0x41, 0xe9, 0x7f, 0x2028, 0xd7ff, 0xe000, 0xffff, 0xfffe, rng.randrange(0, 0xd800)]))
        elif k < 0.95:
            parts.append('\\uD83D\\uDE00' if rng.random() < 0.5 else '\\u%04x\\u%04x' % (rng.randrange(0xd800, 0xdc00), rng.randrange(0xdc00, 0xe000)))
        else:
            parts.append('\\u00E9')
    return '"' + ''.join(parts) + '"'


JSON_EDGE = ['', ' ', 'null', ' null ', 'nul', 'nulll', 'true false', 'True', '[]', '[ ]', '{}', '{ }', '[1,]', '[,1]', '[1 2]', '{"a":1,}', '{"a" 1}', '{a:1}',
             "{'a':1}", '{"a":1,"a":2}', '{"a":1,"b":2,"a":3}', '{"a":{"a":1}}', '{"":1,"":2}', '{"\\u0061":1,"a":2}', '{"a":1} x', '1 2', '[1]]', '[[1]',
             '01', '-01', '00', '-', '+1', '.5', '1.', '1.e5', '1e', '1e+', '1E5', '-0', '-0.0', '0e0', '0.0e-0', '1e309', '-1e309', '1e308', '2e308', '5e-324', '2e-324', '1e-400',
             '123456789012345678901234567890', '0.1', '1.0000000000000002', '9007199254740993', 'NaN', 'Infinity', '-Infinity', '0x10', '1_0', '1e5.5',
             '"abc', '"a\\', '"\\x41"', '"\\u12"', '"\\u12G4"', '"\\uD800"', '"\\uDC00"', '"\\uD800\\u0041"', '"\\uD800\\uD800"', '"\\uDC00\\uD800"', '"\\uD83D\\uDE00"',
             '"\\uD83D\\u"', '"\\uD83D\\uDE0"', '"\\uD83Dx"', '"\\uD83D\\n"', '"a\x00b"', '"a\x1fb"', '"a\x7fb"', '"a\nb"', '"a\tb"', '"\\a"', '"\\\'"', '"\\U0041"',
             '\ufeff1', '1\ufeff', '\u00a01', '1\u00a0', '\x0b1', '\x0c1', '1\x0b', '\u20281', '[1,\u00a02]', '[\x0c]', '\r\n\t 1 \t\r\n', '/*c*/1', '1//c', '#\n1',
             '"\\u0000"', '"\u00e9\u65e5\U0001F600"', '{"a":[{"b":[{"c":null}]}]}', '[' * 100 + ']' * 100, '[' * 101 + ']' * 100, '[' * 100 + ']' * 101,
             '{"a":' * 60 + '1' + '}' * 60, '[1,2,3', '{"a":', '{"a"', '{', '[', '"', 't', 'tru', 'truee', 'nullnull', '[null,true,false]', 'nu ll', ' \n\n  x',
             '[\n1,\n\n 2x]', '{"a"\n:\n1\n,\n"b"}', '"\\ud83d\\ude00"', '"\\uDBFF\\uDFFF"', '"\\uD800\\uDBFF"', '1e99999999999999999999', '1e-99999999999999999999',
             '0.' + '0' * 400 + '1e400', '1' + '0' * 400 + 'e-400', '-1e-400', '[-0]', '0.5e1', '1E+2', '1e-2', '1.5E-2', '4.9406564584124654e-324', '2.4703282292062327e-324',
             '2.4703282292062328e-324', '1.7976931348623158e308', '1.797693134862315807e308', '8.98846567431158e307']


def mutate_text(rng, s, alphabet):
    e = list(s)
    for _ in range(rng.choice([1, 1, 1, 2, 3])):
        k = rng.random()
        if not e:
            e = [rng.choice(alphabet)]
            continue
        p = rng.randrange(len(e))
        if k < 0.3:
            del e[p]
        elif k < 0.6:
            e.insert(p, rng.choice(alphabet))
        elif k < 0.85:
            e[p] = rng.choice(alphabet)
        elif k < 0.92:
            q = rng.randrange(len(e))
            e[p], e[q] = e[q], e[p]
        else:
            e = e[:p]
    return ''.join(e)


JSON_ALPHA = list('[]{}:,"\\ \n\t\r-+.eE0123456789truefalsn/u') + ['\x00', '\x1f', '\x0c', '\x0b', '\u00a0', '\u00e9', '\U0001F600', '\ufeff', "'", 'a', 'D', '8', '\u2028', '\x7f', '#', '*', '&', '!', '|', '>', '%', '@', '`', '~', '?', '_']


def gen_json(rng, tier):
    out = [('parseJson', s, 'edge') for s in JSON_EDGE]
    n = 700 if tier == 'thorough' else 110
    for i in range(n):
        md = rng.choice([0, 1, 2, 3, 4, 6])
        pre = rng.choice(['', '', ' ', '\n', '\t', '\r\n  '])
        doc = pre + gen_json_value(rng, 0, md) + rng.choice(['', '', ' ', '\n', ' \t\r\n'])
        out.append(('parseJson', doc, 'valid'))
        for _ in range(2):
            out.append(('parseJson', mutate_text(rng, doc, JSON_ALPHA), 'mutated'))
        if i % 10 == 0:
            # deep nesting <= 100, and a duplicated key deep inside
            d = rng.randint(20, 100)
            inner = gen_json_value(rng, 0, 1)
            deep = ''
            for j in range(d):
                deep += rng.choice(['[', '{"k":', '[1, ', '{"a":0,"k":'])
            close = ''.join({'[': ']', '{"k":': '}', '[1, ': ']', '{"a":0,"k":': '}'}[x] for x in reversed(re.findall(r'\[1, |\{"a":0,"k":|\{"k":|\[', deep)))
            out.append(('parseJson', deep + inner + close, 'deep'))
            out.append(('parseJson', deep + inner + close[:-1], 'deep-mutated'))
            out.append(('parseJson', deep.replace('{"a":0,"k":', '{"k":0,"k":', 1) + inner + close, 'deep-dup' if '{"a":0,"k":' in deep else 'deep'))
    return out


YAML_DOCS = ['a: 1\nb: [1, 2]\n', '- 1\n- two\n- 3.5\n', '--- 1\n--- 2\n', '---\na: &x 1\nb: *x\n', 'a: !!str 1\n', '&a [*a]\n', 'a: &a\n  b: *a\n',
             '? [1]\n: 2\n', '? {a: 1}\n: 2\n', 'a: 1\na: 2\n', '0x1F', '0o17', '0x', '0o', '0x' + '1' * 31 + '\u00e9', '0o' + '7' * 41 + '\u00e9', '0x' + 'f' * 300, '1e999', '.inf', '.nan', '-.inf', '~', 'Null', 'TRUE',
             '1.', '.5', '1.e5', '+1', '-1', '+.5', '1_000', '0b1', '"a\\tb"', "'it''s'", '|\n  lit\n  eral\n', '>\n  fol\n  ded\n', 'a:\n  - b\n  -\n    c: d\n', '{a: 1, b: [2, 3]}',
             '[a, b, {c: d}]', '--- \n...\n---\n...\n', '', '\n', '# comment\n', '---', '...', '--- !tag\n', '%YAML 1.2\n---\n1\n', '%TAG ! tag:x,2000:\n---\n!foo 1\n', '*unknown', '&a 1\n---\n*a\n',
             'a: [\n', 'a: {\n', '"abc', "'abc", '[1, 2', '{a: 1', 'a:\tb', '\ta: 1', 'a: 1\n b: 2\n', '- - - 1\n', '? \n: \n', ': 1', '- : 1', '[[[[[[[[[[1]]]]]]]]]]', '&a &b 1', 'a: *a', '! 1', '!!int "1"',
             '"\\uD83D\\uDE00"', '"\\x41"', '"\\U0001F600"', '"\\q"', 'a: b: c', '- a\nb', '[a, b]]', '{a}}', '@a', '`a', '%a', 'a: |+\n  x\n\n', 'a: >-\n  x\n\n', '\ufeffa: 1', 'a: 1\n...\nb: 2\n', '--- a\n--- b\n--- c\n',
             '&x\n', '[&x a, *x]', '{? a : b}', '{a: &x {b: *x}}', '[&x [*x]]', '&x {a: *x}', 'x: &x [1]\ny: *x\nz: *x\n']
YAML_ALPHA = list(' \n\t:-[]{},&*!|>\'"%@`#?0123456789abcxo.~eE+_') + ['\u00e9', '\U0001F600', '\x00', '\r', '\ufeff', '\x85', '\u2028']


def gen_yaml(rng, tier):
    out = [('parseYaml', s, 'yaml-edge') for s in YAML_DOCS]
    n = 500 if tier == 'thorough' else 70
    for i in range(n):
        out.append(('parseYaml', mutate_text(rng, rng.choice(YAML_DOCS), YAML_ALPHA), 'yaml-mutated'))
        if i % 8 == 0:
            d = rng.randint(50, 120)
            out.append(('parseYaml', rng.choice(['[', '{a: ', '- ', '? ']) * d, 'yaml-deep'))
    return out


def json_for_yaml(rng, tier):
    """JSON documents without tab characters and without surrogate-pair escapes (nesting < 100)"""
    docs = [s for s in JSON_EDGE if '\t' not in s]
    n = 300 if tier == 'thorough' else 60
    for _ in range(n):
        d = gen_json_value(rng, 0, rng.choice([0, 1, 2, 3, 5])).replace('\t', ' ')
        docs.append(d)
    out = []
    for d in docs:
        if re.search(r'\\u[dD][89abAB]', d):
            continue
        out.append(d)
    return out


HASHES = {'md5': hashlib.md5, 'sha1': hashlib.sha1, 'sha256': hashlib.sha256, 'sha512': hashlib.sha512, 'sha3': hashlib.sha3_512}


def gen_hash(rng, tier):
    out = []
    n = 80 if tier == 'thorough' else 14
    strs = ['', 'a', 'abc', 'message digest', 'abcdbcdecdefdefgefghfghighijhijkijkljklmklmnlmnomnopnopq', 'a' * 55, 'a' * 56, 'a' * 57, 'a' * 63, 'a' * 64, 'a' * 65,
            'a' * 71, 'a' * 72, 'a' * 73, 'a' * 111, 'a' * 112, 'a' * 113, 'a' * 119, 'a' * 127, 'a' * 128, 'a' * 129, 'a' * 143, 'a' * 144, 'a' * 145, '\u00e9', '\u65e5\u672c', '\U0001F600', '\x00', '\x00' * 64]
    for _ in range(n):
        L = rng.choice([rng.randint(0, 200), rng.randint(0, 20)])
        strs.append(''.join(chr(rng.choice([rng.randrange(32, 127), 0xe9, 0x65e5, 0x1f600, 0])) for _ in range(L)))
    for s in strs:
        for fn in HASHES:
            out.append((fn, s, 'hash'))
    return out


# ------------------------------------------------------------------ oracles (implementation alone)

def py_radix_expect(fn, s):
    """('OK', bits) | ('ERR',) — the standard function where the conventions coincide"""
    if fn == 'parseInt':
        body = s[1:] if s.startswith('-') else s
        if not body or any(c not in '0123456789' for c in body):
            return ('ERR',)
        v = int(s, 10)
    else:
        digits = '01234567' if fn == 'parseOctal' else '0123456789abcdefABCDEF'
        if not s or any(c not in digits for c in s):
            return ('ERR',)
        v = int(s, 8 if fn == 'parseOctal' else 16)
    try:
        x = float(v)          # CPython int -> float is correctly rounded (nearest even)
    except OverflowError:
        return ('ERR',)
    if s.startswith('-') and v == 0:
        x = -0.0
    return ('OK', f2bits(x))


def ref_b64decode(s):
    """RFC 4648 section 4 decoding: length a multiple of 4, alphabet only, '=' only as the last one or two
    characters (non-zero padding bits are not rejected); None when the string is not an encoding"""
    if len(s) % 4:
        return None
    if not s:
        return b''
    npad = 2 if s.endswith('==') else 1 if s.endswith('=') else 0
    body = s[:len(s) - npad]
    if any(c not in B64A for c in body):
        return None
    acc = 0
    for c in body:
        acc = acc * 64 + B64A.index(c)
    acc <<= 6 * npad
    raw = acc.to_bytes(len(s) // 4 * 3, 'big')
    return raw[:len(raw) - npad]


def oracle(case, ci, run, c0_hi):
    """property oracle on the implementation's canonical answer; returns (key, what) or None"""
    fn, arg = case.fn, case.arg
    tag = ci if isinstance(ci, str) else ci[0]
    if tag.startswith('PANIC') or tag.startswith('CRASH') or tag.startswith('TIMEOUT') or tag.startswith('NOOUTPUT'):
        k = tag.split('\t')[0].lower()
        if fn in ('parseHex', 'parseOctal') and k == 'panic':
            lim = 32 if fn == 'parseHex' else 42
            t = arg.lstrip('0')
            off = 0
            straddle = False
            for c in t:
                l = len(c.encode('utf-8'))
                if off < lim < off + l:
                    straddle = True
                off += l
            if straddle:
                return ('radix-panic-multibyte-slice', 'std.%s(%r) panics: parse_num_radix slices the string at byte %d, inside a multi-byte character' % (fn, arg, lim))
        if fn == 'parseYaml' and k == 'panic':
            t = arg
            if re.search(r'0[xo]', t):
                return ('yaml-radix-panic-multibyte-slice', 'std.parseYaml(%r) panics (plain scalar 0x…/0o… reaches parse_num_radix, byte slice inside a character)' % (arg,))
        return ('%s-%s' % (fn, k), 'std.%s(%r): %s instead of a value or an error' % (STD_NAME[fn], arg if not isinstance(arg, bytes) else list(arg), tag[:80]))
    if fn in ('parseInt', 'parseOctal', 'parseHex'):
        exp = py_radix_expect(fn, arg)
        if exp[0] == 'OK':
            if ci != 'OK\t%x' % exp[1]:
                nd = len(arg.lstrip('0'))
                lim = 32 if fn == 'parseHex' else 42
                if fn != 'parseInt' and ci.startswith('OK') and nd > lim:
                    return ('radix-misrounded-long', 'std.%s(%r) = %s, the correctly rounded double of that integer is %s (digits after the first %d are ignored when rounding)'
                            % (fn, arg, bits2f(int(ci[3:], 16)).hex(), bits2f(exp[1]).hex(), lim))
                return ('radix-wrong-value:' + fn, 'std.%s(%r) answers %s, expected the double %s' % (fn, arg, ci, bits2f(exp[1]).hex()))
        else:
            if ci.startswith('OK'):
                return ('radix-accepts-invalid:' + fn, 'std.%s(%r) answers %s, expected an error' % (fn, arg, ci))
        return None
    if fn == 'base64s':
        if all(ord(c) < 256 for c in arg):
            e = 'OK\t' + cps(base64.b64encode(bytes(ord(c) for c in arg)).decode())
            if ci != e:
                return ('base64-encode-string', 'std.base64(%r) = %s differs from RFC 4648' % (arg, ci[:80]))
        elif ci.startswith('OK'):
            return ('base64-accepts-wide-char', 'std.base64(%r) accepted a code point above 255' % (arg,))
        return None
    if fn == 'base64n':
        vals = [num_lit_value(x) for x in arg]
        if all(v == int(v) and 0 <= v <= 255 for v in vals):
            e = 'OK\t' + cps(base64.b64encode(bytes(int(v) for v in vals)).decode())
            if ci != e:
                return ('base64-encode-bytes', 'std.base64(%r) = %s differs from RFC 4648' % (arg, ci[:80]))
        elif all(-1 < v < 256 for v in vals):
            pass        # non-integers inside the byte range: the code truncates (not a byte array; outside the property)
        elif ci.startswith('OK'):
            return ('base64-accepts-nonbyte', 'std.base64(%r) accepted a number outside 0..255' % (arg,))
        return None
    if fn in ('base64DecodeBytes', 'base64Decode'):
        b = ref_b64decode(arg)
        e = None if b is None else 'OK\t' + hxl(list(b))
        if b is not None:
            # anchor: Python's decoder agrees with the reference wherever it accepts strictly
            try:
                if base64.b64decode(arg.encode('ascii'), validate=True) != b:
                    return ('oracle-self-check', 'reference base64 decoder and Python disagree on %r' % (arg,))
            except (binascii.Error, ValueError):
                return ('oracle-self-check', 'Python rejects %r which the RFC 4648 reference accepts' % (arg,))
        if e is None and ci.startswith('OK'):
            return ('base64-decode-accepts-invalid', 'std.%s(%r) = %s but the string is not valid base64' % (fn, arg, ci[:80]))
        if e is not None and ci != e:
            return ('base64-decode-wrong', 'std.%s(%r) = %s, expected %s' % (fn, arg, ci[:80], e[:80]))
        return None
    if fn == 'encodeUTF8':
        if ci != 'OK\t' + hxl(list(arg.encode('utf-8'))):
            return ('utf8-encode', 'std.encodeUTF8 of %r is not its UTF-8 encoding: %s' % (arg[:20], ci[:80]))
        return None
    if fn == 'decodeUTF8':
        e = 'OK\t' + cps(arg.decode('utf-8', 'replace'))
        if ci != e:
            return ('utf8-decode-lossy', 'std.decodeUTF8(%r) = %s, expected %s (one U+FFFD per maximal invalid subpart)' % (list(arg), ci[:80], e[:80]))
        return None
    if fn.startswith('esc'):
        if not ci.startswith('OK\t') and ci != 'OK':
            return ('esc-not-a-string:' + fn, 'std.%s(%r) = %s' % (STD_NAME[fn], arg, ci[:80]))
        esc = uncps(ci[3:])
        if fn == 'escBash':
            if '\x00' not in arg:
                try:
                    ok = shlex.split(esc) == [arg]
                except ValueError:
                    ok = False
                if not ok:
                    return ('esc-bash-roundtrip', 'a POSIX shell reads std.escapeStringBash(%r) = %r as something else' % (arg, esc))
        elif fn == 'escDollars':
            if esc.replace('$$', '$') != arg or esc.count('$') != 2 * arg.count('$'):
                return ('esc-dollars', 'std.escapeStringDollars(%r) = %r does not double every $' % (arg, esc))
        elif fn == 'escXml':
            body = re.sub(r'&(lt|gt|amp|quot|apos);', '', esc)
            if any(c in body for c in '<>&"\'') or html.unescape(esc) != html.unescape(html.escape(arg, quote=True)) or \
               esc.replace('&lt;', '<').replace('&gt;', '>').replace('&quot;', '"').replace('&apos;', "'").replace('&amp;', '&') != arg:
                return ('esc-xml', 'std.escapeStringXML(%r) = %r leaves a special character or does not decode to the input' % (arg, esc))
        elif fn == 'escJson':
            try:
                ok = json.loads(esc) == arg
            except ValueError:
                ok = False
            if not ok:
                raw = sorted(set(ord(c) for c in esc if ord(c) < 0x20))
                if raw and all(0x1a <= c <= 0x1f for c in raw):
                    return ('escjson-c0-range-1a-1f', 'std.escapeStringJson(%r) = %r is not a JSON string: U+001A..U+001F are emitted raw' % (arg, esc))
                return ('esc-json', 'std.escapeStringJson(%r) = %r is not a JSON string denoting the input' % (arg, esc))
        elif fn == 'escPython':
            try:
                ok = ast.literal_eval(esc) == arg
            except (ValueError, SyntaxError):
                ok = False
            if not ok:
                return ('esc-python', 'std.escapeStringPython(%r) = %r is not a Python literal denoting the input' % (arg, esc))
        return None
    if fn in HASHES:
        e = 'OK\t' + cps(HASHES[fn](arg.encode('utf-8')).hexdigest())
        if ci != e:
            return ('hash-' + fn, 'std.%s(%r) = %s, expected %s' % (fn, arg[:40], uncps(ci[3:])[:32], uncps(e[3:])[:32]))
        return None
    if fn == 'parseJson':
        exp = py_json_strict(arg)
        if exp[0] == 'OK':
            if isinstance(ci, tuple):
                if ci[1] != exp[1]:
                    return ('json-wrong-value', 'std.parseJson(%r) yields a different value than the document denotes' % (arg[:200],))
            else:
                return ('json-rejects-valid', 'std.parseJson(%r) answers %s on a valid RFC 8259 document without duplicate keys' % (arg[:200], ci[:60]))
        else:
            if isinstance(ci, tuple):
                return ('json-accepts-invalid:' + exp[1], 'std.parseJson(%r) accepts a document that is not valid (%s)' % (arg[:200], exp[1]))
        return None
    return None


# ------------------------------------------------------------------ main

def run_cases(run, specs, impl_exe, model_exe, c0_hi, label):
    cases = []
    for i, (fn, arg, tag) in enumerate(specs):
        c = Case('%s%d' % (label, i), fn, arg, tag)
        build(c, c0_hi)
        cases.append(c)
    impl = vlib.run_sharded(impl_exe, ['\t'.join([c.cid, 'eval', c.impl_opts, c.impl_src]) for c in cases], timeout=300)
    model = vlib.run_sharded(model_exe, ['\t'.join([c.cid] + c.model_fields) for c in cases if c.model_fields], timeout=300)
    for c in cases:
        run.evaluations += 1
        run.count('fn:' + c.fn)
        run.count('gen:' + c.fn + '/' + c.tag)
        ir = impl.get(c.cid, 'NOOUTPUT')
        argrep = list(c.arg) if isinstance(c.arg, (bytes, list)) else c.arg
        replay = {'kind': 'codec', 'fn': c.fn, 'arg': (hxl(list(c.arg)) if isinstance(c.arg, bytes) else c.arg), 'bytes': isinstance(c.arg, bytes), 'impl': ir[:400]}
        try:
            ci = canon_impl(c, ir)
        except Exception as e:
            run.violation('canon:' + c.fn, 'cannot read the implementation answer for std.%s(%r): %r / %s' % (STD_NAME[c.fn], argrep, e, ir[:200]), replay, concrete=False)
            continue
        outcome = ci if isinstance(ci, str) else 'OK'
        oc = outcome.split('\t')
        run.count('outcome:%s/%s' % (c.fn, oc[0] + (':' + oc[1].split(':')[0] if oc[0] == 'ERR' and len(oc) > 1 else '')))
        why = oracle(c, ci, run, c0_hi)
        if why:
            run.violation(why[0], why[1], replay, concrete=True)
        if c.model_fields:
            mr = model.get(c.cid, 'NOOUTPUT')
            replay['model'] = mr[:400]
            if mr.startswith('MODELEXC') or mr in ('NOOUTPUT', 'TIMEOUT', 'FUEL') or mr.startswith('CRASH'):
                run.violation('model-machinery:' + c.fn, 'model driver failed on std.%s(%r): %s' % (STD_NAME[c.fn], argrep, mr[:100]), replay, concrete=False)
                continue
            try:
                cm = canon_model(c, mr)
            except Exception as e:
                run.violation('model-machinery:' + c.fn, 'cannot read the model answer: %r' % (e,), replay, concrete=False)
                continue
            if cm != ci and not why:
                # the model carries the theorems of Props/C20.v; where it differs from the code without the
                # oracle objecting, the correspondence is broken but the property is not shown to fail
                run.violation('correspondence:' + c.fn, 'correspondence %s: implementation %s / model %s on %r'
                              % (c.fn, str(ci)[:160], str(cm)[:160], argrep), replay, concrete=False)
        key = (c.fn, c.tag, outcome.split('\t')[0:2][-1][:24] if outcome.startswith('ERR') else 'ok', len(c.arg) if hasattr(c.arg, '__len__') else 0)
        run.nontrivial.add((key, hashlib.sha1(repr(c.arg).encode()).hexdigest()[:10]))
        if len(run.samples) < 6 and i_sample(c):
            run.samples.append({'fn': c.fn, 'arg': repr(argrep)[:200], 'implementation': str(ci)[:200]})


def i_sample(c):
    return c.tag in ('round-tie', 'nondigit', 'mutated', 'invalid', 'deep', 'numbers', 'malformed-alias')


def run_yaml(run, rng, impl_exe, tier):
    """parseYaml: totality on YAML-ish and mutated documents; agreement with parseJson on JSON documents"""
    specs = gen_yaml(rng, tier)
    cases = []
    for i, (fn, arg, tag) in enumerate(specs):
        c = Case('y%d' % i, fn, arg, tag)
        build(c, 0)
        cases.append(c)
    docs = json_for_yaml(rng, tier)
    pairs = []
    for i, d in enumerate(docs):
        a = Case('yj%d' % i, 'parseJson', d, 'agree')
        b = Case('yy%d' % i, 'parseYaml', d, 'agree')
        build(a, 0)
        build(b, 0)
        pairs.append((a, b))
        cases += [a, b]
    impl = vlib.run_sharded(impl_exe, ['\t'.join([c.cid, 'eval', c.impl_opts, c.impl_src]) for c in cases], timeout=300)
    for c in cases:
        run.evaluations += 1
        run.count('fn:' + c.fn)
        ir = impl.get(c.cid, 'NOOUTPUT')
        p = impl_parse(ir)
        run.count('outcome:%s/%s' % (c.fn, p[0]))
        if p[0] not in ('OK', 'ERR'):
            replay = {'kind': 'codec', 'fn': c.fn, 'arg': c.arg, 'bytes': False, 'impl': ir[:300]}
            why = oracle(c, '\t'.join(str(x) for x in p), run, 0)
            run.violation(why[0], why[1], replay, concrete=True)
        elif c.tag != 'agree':
            run.nontrivial.add(('yaml', p[0], hashlib.sha1(c.arg.encode()).hexdigest()[:10]))
    for a, b in pairs:
        pa, pb = impl_parse(impl.get(a.cid, 'NOOUTPUT')), impl_parse(impl.get(b.cid, 'NOOUTPUT'))
        if pa[0] == 'OK':
            same = pb[0] == 'OK' and pb[1] == pa[1]
            if not same:
                run.violation('yaml-json-disagree', 'std.parseYaml(%r) = %s but std.parseJson gives %s' % (a.arg[:200], (pb[1] if pb[0] == 'OK' else str(pb[:3]))[:120], pa[1][:120]),
                              {'kind': 'yamljson', 'arg': a.arg}, concrete=True)
            else:
                run.nontrivial.add(('yaml-agree', hashlib.sha1(a.arg.encode()).hexdigest()[:10]))
            run.count('yaml_json_agreement_checked')


def corpus_specs():
    out = []
    d = os.path.join(vlib.VERIF, 'corpus')
    for name in sorted(os.listdir(d)) if os.path.isdir(d) else []:
        if not (name.startswith('c20_') and name.endswith('.txt')):
            continue
        for l in open(os.path.join(d, name), encoding='utf-8'):
            l = l.rstrip('\n')
            if not l or l.startswith('#'):
                continue
            fn, _, rest = l.partition('\t')
            arg = json.loads(rest)
            if fn == 'decodeUTF8':
                arg = bytes(arg)
            out.append((fn, arg, 'corpus'))
    return out


def check(run):
    rng = vlib.rng_for(run.seed, ID)
    run.rule = ('per builtin: parseInt/Octal/Hex digit strings of 1..400 digits (random; a non-digit incl. 2/3/4-byte characters at every position; '
                '53-bit prefix + half-way digit + zeros + optional far sticky digit; overflow edge); base64 of random/edge byte arrays as arrays and as strings, '
                'numbers outside 0..255, decode of canonical and mutated encodings, and malformed encodings with one offending character of every class (ASCII non-alphabet, Latin-1, code points whose low byte aliases an alphabet character: U+01xx/U+02xx/U+20xx/U+2Fxx/U+FFxx/astral, misplaced =) at every position of the first/middle/last quantum, wrong lengths; all Unicode scalar values (stratified in quick, exhaustive in thorough) through '
                'encodeUTF8/decodeUTF8 and ill-formed byte sequences; escapers on strings over the special characters; generated JSON documents (nesting <= 100, all number '
                'and escape forms, varied whitespace) and 2 mutations of each; YAML documents/mutations (totality) and JSON documents through parseYaml vs parseJson. '
                'non-trivial = distinct (function, generator class, outcome class, input).')
    run.assume = ['Rust str::parse::<f64> is the correctly rounded (nearest-even) conversion (modelled by dec_to_f64 / f_of_Z; compared case by case through K)',
                  'String::from_utf8_lossy follows core::str::lossy::Utf8Chunks (modelled by decode_lossy; compared case by case through K and with Python codecs)',
                  'char::to_digit, char::decode_utf16, char::from_u32, u128 -> f64 `as` (nearest even), f64 `as i32` (truncating, saturating) behave as documented',
                  'std.parseYaml rests on the external crate saphyr-parser: not modelled; totality and agreement with parseJson are checked on the implementation only',
                  'md5/sha1/sha2/sha3 crates are external: compared with Python hashlib on the implementation only; Model/Hash.v are executable specifications checked on the standards\' vectors',
                  'DESIGN §7 boundary decisions: std.base64(string) encodes code points < 256 as bytes; parseJson rejects escapes denoting unpaired surrogates; numbers must be finite doubles']
    try:
        c0_hi = read_c0_hi(vlib.REPO)
        run.add_obligation('T:escape_string_json C0 range read from manifest.rs', True)
        run.extra['escape_json_c0_hi'] = c0_hi
        run.add_obligation('T:escape_string_json escapes exactly U+0000..U+001F (the range C20_parse_escape_json is stated for)',
                           c0_hi == 0x1f, 'the source escapes up to U+%04X' % c0_hi)
    except Exception as e:
        run.add_obligation('T:escape_string_json C0 range read from manifest.rs', False, str(e))
        c0_hi = 0x1f
    pres = vlib.prove(ID, THEOREMS, ALLOWED_AXIOMS)
    run.add_proof(pres, THEOREMS)
    impl_exe = vlib.build_harness()
    model_exe = vlib.build_model('codecs')
    tier = run.tier
    specs = corpus_specs()
    specs += gen_radix(rng, tier)
    specs += gen_base64(rng, tier)
    specs += gen_utf8(rng, tier)
    specs += gen_esc(rng, tier)
    specs += gen_json(rng, tier)
    specs += gen_hash(rng, tier)
    run_cases(run, specs, impl_exe, model_exe, c0_hi, 'c')
    run_yaml(run, rng, impl_exe, tier)


def replay(run, path):
    j = json.load(open(path))
    r = j.get('replay', {})
    if isinstance(r, dict) and r.get('kind') == 'codec':
        arg = r['arg']
        if r.get('bytes'):
            arg = bytes(int(x, 16) for x in arg.split(',')) if arg else b''
        c0_hi = read_c0_hi(vlib.REPO)
        if r['fn'] == 'parseYaml':
            c = Case('r0', 'parseYaml', arg, 'replay')
            build(c, 0)
            impl = vlib.run_lines(vlib.build_harness(), ['\t'.join([c.cid, 'eval', c.impl_opts, c.impl_src])])
            p = impl_parse(impl.get('r0', 'NOOUTPUT'))
            if p[0] not in ('OK', 'ERR'):
                run.violation('parseYaml-' + p[0].lower(), 'std.parseYaml(%r): %s' % (arg, p[0]), r)
        else:
            run_cases(run, [(r['fn'], arg, 'replay')], vlib.build_harness(), vlib.build_model('codecs'), c0_hi, 'r')
    elif isinstance(r, dict) and r.get('kind') == 'yamljson':
        impl_exe = vlib.build_harness()
        a = Case('a', 'parseJson', r['arg'], 'agree')
        b = Case('b', 'parseYaml', r['arg'], 'agree')
        build(a, 0)
        build(b, 0)
        impl = vlib.run_lines(impl_exe, ['\t'.join([c.cid, 'eval', c.impl_opts, c.impl_src]) for c in (a, b)])
        pa, pb = impl_parse(impl.get('a', '')), impl_parse(impl.get('b', ''))
        if pa[0] == 'OK' and not (pb[0] == 'OK' and pb[1] == pa[1]):
            run.violation('yaml-json-disagree', 'std.parseYaml and std.parseJson disagree on %r' % (r['arg'],), r)
    else:
        print('replay file names a broken obligation, not an input:', json.dumps(j.get('no_longer_checks', j), indent=1)[:2000])
        pres = vlib.prove(ID, THEOREMS, ALLOWED_AXIOMS)
        run.add_proof(pres, THEOREMS)
    for v in run.violations:
        print('REPRODUCED:', v['what'])
    if not run.violations and not run.failed_obligations:
        print('not reproduced')
    return 1 if (run.violations or run.failed_obligations) else 0
