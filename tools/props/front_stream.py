"""front_stream.py — byte-level correspondence of the composed front end (serves C01; tightens C14/C15/C09).

    run_front_stream(run, impl_exe, rng, tier)

Sources (bytes only — no implementation tokens or AST are fed to the model) go to
  * the implementation: harness component `front`, entry `load` (Program::load_source with std), and
  * the composed Coq model Model/Front.v `load_model` = Lexer.lex_all false -> Parser.parse src_prec ->
    Analyze.analyze [std], extracted (ocaml/comp_front.ml),
and the two answers are compared: OK vs error class, lex variant + payload + span, parse span + expected
set + actual token, analyze variant + spans + name, and the token / AST dumps (OK and analyze errors).

Violation keys (prefix `front:`):
  front:crash:<what>            the implementation panicked / aborted / hung on a source  (concrete, C01 itself)
  front:verdict:<impl>-vs-<model>   OK / LEX / PARSE / ANALYZE class differs            (concrete: the model provably
                                answers Ok-or-located-Err; a differing class is a wrong diagnosis)
  front:span-outside-input:<class>  an implementation error span with start > end or end > len (concrete)
  front:lex-error / front:parse-error / front:analyze-error / front:tokens / front:ast
                                same class, different details (not concrete: no property pins them)
  front:model:<what>            the model answered PANIC / FUEL / MODELEXC (machinery or a broken theorem)
"""
import os, sys, re, glob, ast
import vlib
from vlib import hxl

sys.path.insert(0, os.path.dirname(os.path.dirname(os.path.abspath(__file__))))

CORPUS_FILE = os.path.join(os.path.dirname(vlib.COQ), 'corpus', 'front_sources.txt')

TOKS = [b'{', b'}', b'[', b']', b'(', b')', b'local ', b'function', b'self', b'super', b'$', b'|||', b'"', b"'", b'\\u', b'@"',
        b'+:', b':::', b'::', b':', b'for ', b' in ', b'if ', b' then ', b' else ', b'error ', b'assert ', b'import ', b'importstr ',
        b'tailstrict', b'0x', b'1e999', b'1_', b'1_0', b'0.5', b'1e5', b'01', b'.', b'//', b'/*', b'*/', b'#', b'=', b'==', b',', b';',
        b' x ', b' y ', b' std ', b'std.length', b'a', b'b', b' ', b'\n', b'+', b'-', b'*', b'<', b'<<', b'&&', b'||', b'!', b'~',
        b'null', b'true', b'in super', b'\xff', b'\xc1\x81', b'\xed\xa0\x80', b'\xf4\x90\x80\x80', b'\xe6\x97', b'\xe6\x97\xa5',
        b'\r\n', b'\t', b'\x00', b'"a"', b"'b'", b'|||\n  t\n|||', b'[x for x in y]', b'{[k]: v for k in a}', b'f(a, b=1)', b'[::]', b'[1:2:3]']

# small well-formed fragments for the token-soup / splice streams (every production of the grammar)
FRAGS = [b'local a = 1; a', b'local f(x, y=2) = x + y; f(1)', b'{a: 1, b:: 2, c::: 3, d+: 4}', b'{local a = 1, f: a, assert true : "m"}',
         b'{[k]: 1 for k in ["a"]}', b'[x for x in [1, 2] if x > 1]', b'function(a, b=a) [a, b]', b'if true then 1 else 2',
         b'if false then 1', b'assert 1 == 1 : "msg"; 2', b'error "e"', b'import "a.jsonnet"', b'importstr "a.txt"', b'importbin "a.bin"',
         b'std.length("x")', b'self.a', b'super.a', b'$.a', b'"a" in super', b'a[1:2:3]', b'a[::2]', b'a[1]', b'a.b.c', b'a(1, x=2) tailstrict',
         b'a {b: 1}', b'-1 + !true * ~2', b'1 << 2 >= 3 && 4 || 5 ^ 6 | 7 & 8', b'(1)', b'[1, 2, 3,]', b'{a: 1,}', b'1.5e-3', b'1_000',
         b'@"a""b"', b"@'a''b'", b'"\\u00e9\\n\\t"', b'|||\n  text\n  more\n|||', b'|||-\n  text\n|||', b'/* c */ 1 // d\n', b'# c\n1',
         b'{a: 1, a: 2}', b'local a = 1, a = 2; a', b'function(x, x) 1', b'f(x=1, 2)', b'import ("a")', b'import |||\n a\n|||', b'{["a"]: 1 for x in y}',
         b'x', b'self', b'$', b'super.f', b'1 +', b'(1', b'[1, 2', b'{a:', b'local = 1', b'"abc', b'01', b'1.', b'1e', b"'\\q'", b'/* x', b'|||x', b'\xff']


def load_corpus():
    out = []
    if os.path.exists(CORPUS_FILE):
        for line in open(CORPUS_FILE, 'rb').read().split(b'\n'):
            if not line or line.startswith(b'#'):
                continue
            out.append(ast.literal_eval(line.decode('ascii')))     # one Python bytes literal per line
    return out


def ui_corpus():
    files = sorted(glob.glob(os.path.join(vlib.REPO, 'ui-tests', '**', '*.jsonnet'), recursive=True))
    out = []
    for f in files:
        try:
            b = open(f, 'rb').read()
        except Exception:
            continue
        if len(b) <= 6000:
            out.append(b)
    return out


def mutate(rng, src):
    src = bytearray(src)
    for _ in range(rng.randint(1, 4)):
        k = rng.random()
        pos = rng.randrange(len(src) + 1)
        if k < 0.3 and src:
            del src[pos:pos + rng.randint(1, 8)]
        elif k < 0.6:
            src[pos:pos] = rng.choice(TOKS)
        elif k < 0.8 and src:
            src[min(pos, len(src) - 1)] = rng.randrange(256)
        else:
            a = rng.randrange(len(src) + 1)
            src[pos:pos] = src[a:a + rng.randint(1, 20)]
    return bytes(src)


def inject_static_fault(rng, text):
    """a scoping fault spliced into a generated program (bytes level: the model gets bytes only)"""
    faults = [b' + zz', b' + self.q', b' + $.q', b' + super.q', b' + (local u = 1, u = 2; u)', b' + (function(p, p) 1)(1)',
              b' + {k: 1, k: 2}.k', b' + std.length(x=1, 2)', b' + (import ("a"))', b' + (import |||\n a\n|||)']
    pos = [i for i in range(len(text)) if text[i:i + 1] == b';']
    f = rng.choice(faults)
    if rng.random() < 0.3:      # a fault inside a faulty construct: which error comes first is part of the answer
        f = rng.choice([b' + std.length(x=1, zz)', b' + (local u = zz, u = 2; u)', b' + {k: self.q + zz, k: 2}.k', b' + (function(p, p = zz) 1)(1)',
                        b' + {[zz]: 1, k: 1, k: 2}', b' + (import (zz))', b' + [v for v in [w] for w in [zz]]', b' + std.length(x=$, self)'])
    if pos and rng.random() < 0.7:
        p = rng.choice(pos)
        return text[:p] + f + text[p:]
    return b'(' + text + b')' + f


def gen_sources(rng, tier):
    n = {'quick': 2600, 'thorough': 60000}[tier]
    ui = ui_corpus()
    try:
        from gen_prog import gen_program
    except Exception:
        gen_program = None
    out = []
    for s in load_corpus():
        out.append(('corpus', s))
    for s in FRAGS:
        out.append(('frag', s))
    for s in (ui if tier == 'thorough' else rng.sample(ui, min(len(ui), 150))):
        out.append(('ui', s))
    for i in range(n):
        r = rng.random()
        if r < 0.12:
            out.append(('bytes', bytes(rng.randrange(256) for _ in range(rng.randint(0, 40)))))
        elif r < 0.20:
            # mostly printable random bytes: gets past the lexer more often
            out.append(('ascii', bytes(rng.choice(b' \n\t"\'()[]{}.,:;=+-*/<>!&|^~%$@#\\_019aeflnrstux') for _ in range(rng.randint(0, 40)))))
        elif r < 0.40:
            out.append(('soup', b''.join(rng.choice(TOKS) for _ in range(rng.randint(1, 24)))))
        elif r < 0.52:
            k = rng.randint(1, 4)
            glue = [b' + ', b', ', b'; ', b' ', b'\n', b' in ', b': ', b'(', b')', b'[', b']', b'{', b'}']
            parts = []
            for j in range(k):
                parts.append(rng.choice(FRAGS))
                parts.append(rng.choice(glue))
            out.append(('splice', b''.join(parts[:-1] if rng.random() < 0.7 else parts)))
        elif r < 0.74 and ui:
            s = rng.choice(ui)
            if len(s) > 3000:
                s = s[:3000]
            out.append(('ui-mut', mutate(rng, s)))
        elif gen_program is not None:
            try:
                text, info = gen_program(rng, size=rng.choice([8, 20, 40, 70]), errors=rng.random() < 0.2)
                b = text.encode('utf-8')
            except Exception:
                b = b'1'
            q = rng.random()
            if q < 0.45:
                out.append(('prog', b))
            elif q < 0.75:
                out.append(('prog-fault', inject_static_fault(rng, b)))
            else:
                out.append(('prog-mut', mutate(rng, b)))
        else:
            out.append(('frag-mut', mutate(rng, rng.choice(FRAGS))))
    return out


# ------------------------------------------------------------------ canonical forms

def parse_rust_char(txt, i):
    if txt[i] == '\\':
        c = txt[i + 1]
        if c == 'u':
            j = txt.index('}', i)
            return int(txt[i + 3:j], 16)
        return {'n': 10, 'r': 13, 't': 9, '0': 0, '\\': 92, "'": 39, '"': 34}[c]
    return ord(txt[i])


def canon_impl(r):
    """the implementation's LEX error carries the Debug text; turn it into the model's P=<payload>"""
    f = r.split('\t')
    if f[0] == 'ERR' and len(f) >= 5 and f[1] == 'LEX':
        dbg = vlib.uncps(f[4][2:])
        var = f[2]
        p = '-'
        try:
            if var in ('InvalidChar', 'InvalidEscapeInString'):
                i = dbg.index("chr: '") + 6
                p = 'chr=%x' % parse_rust_char(dbg, i)
            elif var == 'InvalidUtf8':
                m = re.search(r'seq: \[([0-9, ]*)\]', dbg)
                p = 'seq=' + ','.join('%x' % int(x) for x in m.group(1).split(',') if x.strip())
            elif var == 'InvalidUtf16EscapeSequence':
                m = re.search(r'cu1: (\d+), cu2: (None|Some\((\d+)\))', dbg)
                p = 'cu=%x,%s' % (int(m.group(1)), ('%x' % int(m.group(3))) if m.group(3) else '-')
        except Exception:
            p = '?' + dbg[:60]
        return 'ERR\tLEX\t%s\t%s\tP=%s' % (var, f[3], p)
    return r


def klass(r):
    f = r.split('\t')
    if f[0] == 'OK':
        return 'OK'
    if f[0] == 'ERR' and len(f) > 1:
        return f[1]
    return f[0]


def spans_of(r):
    """all error spans of an answer as (start, end) ints"""
    f = r.split('\t')
    c = klass(r)
    txt = []
    if c == 'LEX':
        txt = [f[3]]
    elif c == 'PARSE':
        txt = [f[2]]
    elif c == 'ANALYZE':
        txt = f[3].split(';')
    out = []
    for t in txt:
        a, _, b = t.partition(':')
        out.append((int(a, 16), int(b, 16)))
    return out


TOKSPAN_RE = re.compile(r'\((\w+)(?: [^() ]+)* ([0-9a-f]+):([0-9a-f]+)\)')


def tokens_ill_formed(ri, n):
    """oracle on the implementation alone (what C14 proves of the model and the parser assumes): the token
    dump has ordered, non-overlapping spans inside the input, no trivia, and exactly one EOF, last, at (len,len)"""
    f = ri.split('\t')
    c = klass(ri)
    txt = None
    if c == 'OK' and len(f) > 1:
        txt = f[1]
    else:
        for x in f:
            if x.startswith('TOK='):
                txt = x[4:]
    if txt is None:
        return None
    toks = [(m.group(1), int(m.group(2), 16), int(m.group(3), 16)) for m in TOKSPAN_RE.finditer(txt)]
    if not toks:
        return 'empty token list'
    prev = 0
    for i, (k, a, b) in enumerate(toks):
        last = i == len(toks) - 1
        if k in ('WS', 'Comment', 'Whitespace'):
            return 'trivia token in the parser input'
        if (k == 'EOF') != last:
            return 'eof-position EOF token not exactly last'
        if not (prev <= a <= b <= n):
            return 'overlap token %d span %x:%x after %x (len %x)' % (i, a, b, prev, n)
        if not last and a == b:
            return 'empty-token token %d has an empty span' % i
        prev = b
    if toks[-1][1:] != (n, n):
        return 'eof-span EOF not at (len,len)'
    return None


def detail_key(ri, rm):
    """which detail differs, given equal classes"""
    fi, fm = ri.split('\t'), rm.split('\t')
    c = klass(ri)
    if c == 'OK':
        if fi[1:2] != fm[1:2]:
            return 'tokens'
        return 'ast'
    if c == 'LEX':
        if fi[2] != fm[2]:
            return 'lex-error:variant'
        if fi[3] != fm[3]:
            return 'lex-error:span'
        return 'lex-error:payload'
    if c == 'PARSE':
        if fi[2] != fm[2]:
            return 'parse-error:span'
        if fi[3] != fm[3]:
            return 'parse-error:expected'
        if fi[4] != fm[4]:
            return 'parse-error:instead'
        return 'tokens'
    if c == 'ANALYZE':
        if fi[2] != fm[2]:
            return 'analyze-error:variant'
        if fi[3] != fm[3]:
            return 'analyze-error:spans'
        if fi[4] != fm[4]:
            return 'analyze-error:name'
        if fi[5:6] != fm[5:6]:
            return 'tokens'
        return 'ast'
    return 'other'


def compare_one(run, kind, src, ri, rm):
    """returns True when the case agreed"""
    replay = {'kind': 'front', 'stream': kind, 'source_hex': hxl(list(src)), 'source': repr(src)[:300],
              'impl': ri[:400], 'model': rm[:400]}
    ci = klass(ri)
    if ci in ('PANIC', 'CRASH', 'TIMEOUT', 'NOOUTPUT'):
        f = ri.split('\t')
        what = f[1] if len(f) > 1 else ''
        m = re.search(r'^(.*?) @ (\S+?):(\d+)$', what)
        if m:      # panic message @ file:line  ->  file basename + message (no paths, no line numbers)
            what = os.path.basename(m.group(2)) + ':' + m.group(1)
        loc = re.sub(r'[^A-Za-z0-9_.:]+', '-', what)[:70]
        run.violation('front:crash:%s:%s' % (ci, loc), 'load_source on %r -> %s (model: %s)' % (src[:80], ri[:160], rm[:80]), replay)
        return False
    cm = klass(rm)
    if cm in ('PANIC', 'FUEL', 'MODELEXC', 'NOOUTPUT', 'CRASH', 'TIMEOUT') or cm not in ('OK', 'LEX', 'PARSE', 'ANALYZE'):
        run.violation('front:model:%s' % cm, 'the composed model answered %s on %r (theorem C01_front_no_panic excludes this: machinery failure or broken model)'
                      % (rm[:120], src[:80]), replay, concrete=False)
        return False
    # oracle on the implementation alone: spans inside the input
    bad = [(a, b) for (a, b) in spans_of(ri) if not (a <= b <= len(src))] if ci in ('LEX', 'PARSE', 'ANALYZE') else []
    if bad:
        run.violation('front:span-outside-input:%s' % ci, 'error span %r outside the %d-byte input %r' % (bad, len(src), src[:80]), replay)
        return False
    why = tokens_ill_formed(ri, len(src))
    if why:
        run.violation('front:tokens-ill-formed:%s' % why.split(' ')[0], 'token stream of the lexer is not well formed (%s) on %r' % (why, src[:80]), replay)
        return False
    if ci != cm:
        run.violation('front:verdict:%s-vs-%s' % (ci, cm),
                      'load_source answers %s, the composed model %s, on %r' % (ri[:100], rm[:100], src[:100]), replay)
        return False
    if canon_impl(ri) != rm:
        k = detail_key(canon_impl(ri), rm)
        run.violation('front:%s' % k, 'same class %s, different %s on %r: impl %s / model %s' % (ci, k, src[:80], canon_impl(ri)[:140], rm[:140]),
                      replay, concrete=False)
        return False
    return True


def signature(ri):
    """distinct non-trivial case key: class + variant / expected-set + coarse token-kind profile"""
    f = ri.split('\t')
    c = klass(ri)
    if c == 'OK':
        kinds = tuple(sorted(set(re.findall(r'\((\w+)', f[2] if len(f) > 2 else ''))))
        return ('OK', kinds)
    if c == 'LEX':
        return ('LEX', f[2])
    if c == 'PARSE':
        return ('PARSE', f[3], f[4].split(':')[0])
    if c == 'ANALYZE':
        return ('ANALYZE', f[2], len(f[3].split(';')))
    return (c,)


def run_front_stream(run, impl_exe, rng, tier, sources=None):
    import translate_parser
    try:
        translate_parser.main(vlib.REPO, os.path.join(vlib.COQ, 'Gen', 'PrecTable.v'))
        run.add_obligation('T:precedence table for the composed front end', True)
    except Exception as e:
        run.add_obligation('T:precedence table for the composed front end', False, str(e))
    model_exe = vlib.build_model('front')
    srcs = sources if sources is not None else gen_sources(rng, tier)
    cases = [('f%d' % i, 'front', ['load', hxl(list(s))]) for i, (k, s) in enumerate(srcs)]
    impl = vlib.run_sharded(impl_exe, [vlib.impl_line(c) for c in cases], timeout=300, env={'VERIF_PANIC_MSG': '1'}, mem=3 << 30)
    model = vlib.run_sharded(model_exe, [vlib.model_line(c) for c in cases], timeout=300)
    agreed = 0
    for (cid, _, _), (kind, src) in zip(cases, srcs):
        ri = impl.get(cid, 'NOOUTPUT')
        rm = model.get(cid, 'NOOUTPUT')
        run.evaluations += 1
        run.count('front_%s' % kind)
        run.count('front_class_%s' % klass(ri))
        if compare_one(run, kind, src, ri, rm):
            agreed += 1
            run.nontrivial.add(('front',) + signature(ri))
            if len(run.samples) < 10 and run.evaluations % 401 == 7:
                run.samples.append({'stream': 'front/' + kind, 'source': repr(src)[:120], 'outcome': '\t'.join(ri.split('\t')[:4])[:120]})
    run.extra['front_cases'] = len(cases)
    run.extra['front_agreed'] = agreed
    return agreed, len(cases)


def replay_front(run, r, impl_exe):
    """re-run one stored front case; returns 1 when the disagreement / crash reproduces"""
    src = bytes(int(x, 16) for x in r['source_hex'].split(',') if x)
    before = len(run.violations)
    run_front_stream(run, impl_exe, None, 'quick', sources=[(r.get('stream', 'replay'), src)])
    bad = len(run.violations) > before
    print('REPRODUCED' if bad else 'not reproduced')
    return 1 if bad else 0
