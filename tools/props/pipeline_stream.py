"""pipeline_stream.py — the whole pipeline from source bytes (serves C01; DESIGN §5 C01 "Tie").

    run_pipeline_stream(run, impl_exe, rng, tier)

Every source (bytes) goes to
  * the implementation: harness component `eval` (load_source -> eval_value -> manifest_json, std.trace collected), and
  * the composed Coq model Model/Pipeline.v `eval_model` = Front (model lexer -> model parser -> model analyzer) followed by
    the C02 reference interpreter RefEval.run on the tree the model parser built — the model never sees implementation
    tokens or syntax trees.
Outcomes are compared with the helpers of tools/props/c02.py (imported, not copied): JSON structurally with numbers as bit
patterns, errors by variant (+ user message of error / assert), std.trace messages as sets; lex / parse / static verdicts by
class and variant.  Model answers UNSUPPORTED (construct outside the modelled fragment) are skipped and counted, FUEL /
model-only stack exhaustion are escalated twice (x8) and then counted `undecided`; never guessed.

Keys (prefix `pipeline:`):
  pipeline:crash:<PANIC|CRASH|TIMEOUT>:<where>     the implementation crashed on a source (concrete: C01 itself)
  pipeline:front:<impl>-vs-<model>                 lex / parse / static verdict differs (class or variant)       (concrete)
  pipeline:static-vs-dynamic                       the model's evaluator hit a static-kind error on an accepted program
  pipeline:semantics:<impl>-vs-<model>             evaluation outcomes differ and no documented C02 deviation explains it
  pipeline:trace-messages-differ
  pipeline:model:<PANIC|MODELEXC|...>              the model panicked (theorem C01_refeval_no_panic excludes it) / machinery
Disagreements explained by the two documented deviations of C02 (model re-run with the switch) are C02's known findings:
counted here (`pipeline_c02_deviation:*`), not reported under C01.
"""
import os, sys, re, glob, resource
import vlib
from vlib import hxl
sys.path.insert(0, os.path.dirname(os.path.dirname(os.path.abspath(__file__))))
from props import c02
from props import front_stream

STACK = c02.STACK
FUEL = c02.FUEL
ESC_TIMEOUT = [20]     # seconds for one escalated / switched model re-run (quick: 20, thorough: 150)
RESOURCE_WORDS = ('memory allocation', 'capacity overflow', 'allocation failed', 'alloc')


def raise_stack_limit():
    try:
        resource.setrlimit(resource.RLIMIT_STACK, (resource.RLIM_INFINITY, resource.RLIM_INFINITY))
    except Exception:
        try:
            soft, hard = resource.getrlimit(resource.RLIMIT_STACK)
            resource.setrlimit(resource.RLIMIT_STACK, (hard, hard))
        except Exception:
            pass


def ui_files(sub):
    root = os.path.join(vlib.REPO, 'ui-tests', sub)
    out = []
    for f in sorted(glob.glob(os.path.join(root, '**', '*.jsonnet'), recursive=True)):
        rel = os.path.relpath(f, root)
        try:
            b = open(f, 'rb').read()
        except Exception:
            continue
        if len(b) <= 8000:
            out.append((sub + '/' + rel, b))
    return out


def gen_sources(rng, tier):
    quick = tier == 'quick'
    out = []
    for p in c02.corpus_programs()[:(120 if quick else 100000)]:
        out.append(('c02corpus', p[1].encode('utf-8')))
    for s in front_stream.load_corpus():
        out.append(('frontcorpus', s))
    pc = os.path.join(vlib.VERIF, 'corpus', 'pipeline_sources.txt')
    if os.path.exists(pc):
        import ast
        for line in open(pc, 'rb').read().split(b'\n'):
            if line and not line.startswith(b'#'):
                out.append(('corpus', ast.literal_eval(line.decode('ascii'))))
    upass, ufail = ui_files('pass'), ui_files('fail')
    for name, b in (rng.sample(upass, min(len(upass), 70)) if quick else upass):
        out.append(('ui-pass', b))
    for name, b in (rng.sample(ufail, min(len(ufail), 70)) if quick else ufail):
        out.append(('ui-fail', b))
    try:
        from gen_prog import gen_program
    except Exception:
        gen_program = None
    ui = [b for _, b in upass + ufail if len(b) <= 1500]
    n = 420 if quick else 12000
    for i in range(n):
        r = rng.random()
        if r < 0.70 and gen_program is not None:
            try:
                text, info = gen_program(rng, size=rng.choice([10, 25, 40, 60]), errors=rng.random() < 0.3)
                b = text.encode('utf-8')
            except Exception:
                b = b'1'
            q = rng.random()
            if q < 0.8:
                out.append(('prog', b))
            elif q < 0.9:
                out.append(('prog-fault', front_stream.inject_static_fault(rng, b)))
            else:
                out.append(('prog-mut', front_stream.mutate(rng, b)))
        elif ui:
            out.append(('ui-mut', front_stream.mutate(rng, rng.choice(ui))))
        else:
            out.append(('frag', rng.choice(front_stream.FRAGS)))
    return out


# ------------------------------------------------------------------ canonical forms

def canon_model(r):
    f = r.split('\t')
    if f[0] == 'FRONT':
        return ('static', f[1], f[2])
    if f[0] in ('TIMEOUT', 'CRASH', 'NOOUTPUT'):
        return ('undecided', f[0].lower())
    return c02.canon_model(r)


def model_opts(fuel=FUEL, limit=STACK, bfs=0, tst=0):
    return 'fuel=%x;limit=%x;bfs=%d;tst=%d' % (fuel, limit, bfs, tst)


def run_model(model_exe, srcs, timeout=120, **kw):
    lines = ['m%d\t%s\t%s' % (i, model_opts(**kw), hxl(list(s))) for i, s in enumerate(srcs)]
    res = vlib.run_sharded(model_exe, lines, timeout=timeout)
    return [res.get('m%d' % i, 'NOOUTPUT') for i in range(len(srcs))]


def model_decided(model_exe, src, first, impl_c, bfs=0, tst=0):
    """escalate fuel / limit (x8, twice) until the model gives a verdict"""
    c = canon_model(first)
    fuel, limit = FUEL, STACK
    impl_limit = impl_c[0] == 'error' and impl_c[1] in c02.LIMIT_CLASS
    for _ in range(2):
        if c[0] == 'fuel':
            fuel *= 8
        elif c[0] == 'error' and c[1] == 'StackOverflow' and not impl_limit:
            limit *= 8
            fuel *= 8
        else:
            return c
        c = canon_model(run_model(model_exe, [src], timeout=ESC_TIMEOUT[0], fuel=fuel, limit=limit, bfs=bfs, tst=tst)[0])
        if c[0] == 'undecided':
            return c
    if c[0] == 'fuel':
        return ('undecided', 'fuel')
    if c[0] == 'error' and c[1] == 'StackOverflow' and not impl_limit:
        return ('undecided', 'limit')
    return c


def crash_key(ev):
    f = ev.split('\t')
    what = f[1] if len(f) > 1 else ''
    m = re.search(r'^(.*?) @ (\S+?):(\d+)$', what)
    if m:
        what = os.path.basename(m.group(2)) + ':' + m.group(1)
    if f[0] == 'CRASH' and len(f) > 2:
        what = f[2]
    return 'pipeline:crash:%s:%s' % (f[0], re.sub(r'[^A-Za-z0-9_.:]+', '-', what)[:70])


def run_pipeline_stream(run, impl_exe, rng, tier, sources=None):
    raise_stack_limit()
    ESC_TIMEOUT[0] = 20 if tier == 'quick' else 150
    model_exe = vlib.build_model('pipeline')
    srcs = sources if sources is not None else gen_sources(rng, tier)
    impl_lines = ['p%d\teval\tstack=%x\t%s' % (i, STACK, hxl(list(s))) for i, (k, s) in enumerate(srcs)]
    impl = vlib.run_sharded(impl_exe, impl_lines, timeout=300, env={'VERIF_PANIC_MSG': '1'}, mem=3 << 30)
    model = run_model(model_exe, [s for _, s in srcs], timeout=150)
    agreed = compared = 0
    disagreements = []
    for i, (kind, src) in enumerate(srcs):
        ev = impl.get('p%d' % i, 'NOOUTPUT')
        run.evaluations += 1
        run.count('pipeline_%s' % kind)
        replay = {'kind': 'pipeline', 'stream': kind, 'source_hex': hxl(list(src)), 'source': repr(src)[:300], 'impl': ev[:300], 'model': model[i][:300]}
        ic = c02.canon_impl(ev)
        if ic[0] == 'machinery':
            if any(w in ev.lower() for w in RESOURCE_WORDS):
                run.count('pipeline_resource_exhaustion(outside model)')
                continue
            run.violation(crash_key(ev), 'eval of %r -> %s (model: %s)' % (src[:100], ev[:160], model[i][:80]), replay)
            continue
        mc0 = canon_model(model[i])
        if mc0[0] == 'machinery':
            run.violation('pipeline:model:%s' % model[i].split('\t')[0], 'the composed model answered %s on %r' % (model[i][:160], src[:100]),
                          replay, concrete=False)
            continue
        # ---- the front end's verdict
        if ic[0] == 'static' or mc0[0] == 'static':
            run.count('pipeline_class_static')
            if ic[0] == 'static' and mc0[0] == 'static' and ic[1:] == mc0[1:3]:
                agreed += 1
                compared += 1
                run.nontrivial.add(('pipeline', 'static', ic[1], ic[2]))
                continue
            if model[i].startswith('STATIC\t'):
                # STATIC answer of the evaluator (not of the front): C02_refeval_no_static_error excludes it
                run.violation('pipeline:static-vs-dynamic', 'the reference evaluator hit a static-kind error (%s) on a program the front accepted: %r'
                              % (mc0[2], src[:100]), replay, concrete=False)
                continue
            if mc0[0] in ('undecided', 'fuel', 'unsupported'):
                run.count('pipeline_skipped_' + mc0[0])
                continue
            run.violation('pipeline:front:%s-vs-%s' % (':'.join(ic[1:3]) if ic[0] == 'static' else c02.short(ic),
                                                       ':'.join(mc0[1:3]) if mc0[0] == 'static' else c02.short(mc0)),
                          'implementation: %s / model: %s / source %r' % (c02.describe(ic)[:120], c02.describe(mc0)[:120], src[:100]), replay)
            continue
        # ---- evaluation
        mc = model_decided(model_exe, src, model[i], ic)
        if mc[0] == 'unsupported':
            run.count('pipeline_skipped_unsupported')
            run.count('pipeline_unsupported:' + mc[1][:30])
            continue
        if mc[0] == 'undecided':
            run.count('pipeline_undecided_' + mc[1])
            continue
        if mc[0] == 'machinery':
            run.violation('pipeline:model:%s' % mc[1].split('\t')[0][:20], 'the composed model answered %s on %r' % (mc[1][:160], src[:100]), replay, concrete=False)
            continue
        compared += 1
        run.count('pipeline_class_' + c02.short(ic)[:30])
        if c02.same_outcome(ic, mc):
            agreed += 1
            run.nontrivial.add(('pipeline', c02.short(ic), kind, len(src) // 48))
            if len(run.samples) < 14 and run.evaluations % 97 == 5:
                run.samples.append({'stream': 'pipeline/' + kind, 'source': repr(src)[:160], 'outcome': c02.describe(ic)[:120]})
            continue
        disagreements.append((kind, src, ic, mc, replay))
    for kind, src, ic, mc, replay in disagreements:
        key = None
        for (bfs, tst), k in c02.KNOWN_DEVIATIONS.items():
            first = run_model(model_exe, [src], timeout=ESC_TIMEOUT[0], bfs=bfs, tst=tst)[0]
            m2 = model_decided(model_exe, src, first, ic, bfs=bfs, tst=tst)
            if m2[0] in ('value', 'error') and c02.same_outcome(ic, m2):
                key = k
                break
        if key is not None:
            run.count('pipeline_c02_deviation:' + key)     # C02's open known findings, not a C01 matter
            continue
        key = 'pipeline:semantics:%s-vs-%s' % (c02.short(ic), c02.short(mc))
        if ic[0] == 'value' and mc[0] == 'value' and ic[1] == mc[1]:
            key = 'pipeline:trace-messages-differ'
        run.violation(key, 'implementation: %s / model from bytes: %s / source %r' % (c02.describe(ic)[:200], c02.describe(mc)[:200], src[:200]),
                      replay, concrete=False)
    run.extra['pipeline_cases'] = len(srcs)
    run.extra['pipeline_compared'] = compared
    run.extra['pipeline_agreed'] = agreed
    return agreed, compared, len(srcs)


def replay_pipeline(run, r, impl_exe):
    src = bytes(int(x, 16) for x in r['source_hex'].split(',') if x)
    before = len(run.violations)
    run_pipeline_stream(run, impl_exe, None, 'quick', sources=[(r.get('stream', 'replay'), src)])
    bad = len(run.violations) > before
    print('REPRODUCED' if bad else 'not reproduced')
    return 1 if bad else 0
