#!/usr/bin/env python3
"""translate_numgates.py — T for C06: which number producers carry the finiteness gate.

Reads, from the current source tree,
  rsjsonnet-lang/src/program/eval/expr.rs    do_binary_op arms on (Number, Number)
  rsjsonnet-lang/src/program/eval/mod.rs     State::UnaryOp arms, parse_num_radix
  rsjsonnet-lang/src/program/eval/stdlib.rs  do_std_* bodies
and writes coq/Gen/NumGates.v:  Definition src_gates : numop -> bool.
A producer is *gated* when, inside its arm/function body, a call of
`check_number_value(` (or, for the text parsers, an `is_finite()` test) textually
precedes the last push/return of the computed number.  Unknown shapes raise.
"""
import os, re, sys


def block_after(src, start):
    """text of the brace block whose '{' is the first one at/after start (exclusive of braces)"""
    i = src.index('{', start)
    depth = 0
    j = i
    in_str = None
    while j < len(src):
        c = src[j]
        if in_str:
            if c == '\\':
                j += 2
                continue
            if c == in_str:
                in_str = None
        elif c == '"':
            in_str = c
        elif c == '\'' and re.match(r"'(\\.|[^\\'])'", src[j:j + 4]):
            j += len(re.match(r"'(\\.|[^\\'])'", src[j:j + 4]).group(0)) - 1
        elif c == '/' and src.startswith('//', j):
            j = src.index('\n', j)
            continue
        elif c == '{':
            depth += 1
        elif c == '}':
            depth -= 1
            if depth == 0:
                return src[i + 1:j]
        j += 1
    raise ValueError('unbalanced braces')


def gated(body, what, gate_pat=r'check_number_value\s*\(', result_pat=r'ValueData::Number\s*\('):
    gs = [m.start() for m in re.finditer(gate_pat, body)]
    rs = [m.start() for m in re.finditer(result_pat, body)]
    if not rs:
        raise ValueError('%s: no number result found in body' % what)
    return bool(gs) and min(gs) < max(rs)


def fn_body(src, name, what):
    m = re.search(r'\bfn\s+%s\s*(<[^>]*>)?\s*\(' % re.escape(name), src)
    if not m:
        raise ValueError('%s: fn %s not found' % (what, name))
    # skip the parameter list and return type up to the body's brace
    depth = 0
    k = src.index('(', m.start())
    while True:
        if src[k] == '(':
            depth += 1
        elif src[k] == ')':
            depth -= 1
            if depth == 0:
                break
        k += 1
    return block_after(src, k)


BINOPS = [('OAdd', 'Add'), ('OSub', 'Sub'), ('OMul', 'Mul'), ('ODiv', 'Div'), ('ORem', 'Rem'),
          ('OShl', 'Shl'), ('OShr', 'Shr'), ('OBitAnd', 'BitwiseAnd'), ('OBitOr', 'BitwiseOr'), ('OBitXor', 'BitwiseXor')]
UNOPS = [('ONeg', 'Minus'), ('OPos', 'Plus'), ('OBitNot', 'BitwiseNot')]
STDFNS = [('BSum', 'do_std_sum_item'), ('BAvg', 'do_std_avg_item'), ('BPow', 'do_std_pow'), ('BExp', 'do_std_exp'),
          ('BLog', 'do_std_log'), ('BLog2', 'do_std_log2'), ('BLog10', 'do_std_log10'), ('BSqrt', 'do_std_sqrt'),
          ('BSin', 'do_std_sin'), ('BCos', 'do_std_cos'), ('BTan', 'do_std_tan'), ('BAsin', 'do_std_asin'),
          ('BAcos', 'do_std_acos'), ('BAtan', 'do_std_atan'), ('BAtan2', 'do_std_atan2'), ('BHypot', 'do_std_hypot'),
          ('BFloor', 'do_std_floor'), ('BCeil', 'do_std_ceil'), ('BModulo', 'do_std_modulo'),
          ('BMantissa', 'do_std_mantissa'), ('BExponent', 'do_std_exponent'), ('BDeg2Rad', 'do_std_deg2rad'),
          ('BRad2Deg', 'do_std_rad2deg'), ('BLength', 'do_std_length'), ('BCodepoint', 'do_std_codepoint')]
# ops written in Jsonnet (std.libsonnet) or returning an argument: no gate of their own
NOGATE = ['BRound', 'BAbs', 'BSign', 'BMax', 'BMin', 'BClamp']


def read_table(repo):
    base = os.path.join(repo, 'rsjsonnet-lang', 'src', 'program', 'eval')
    expr = open(os.path.join(base, 'expr.rs')).read()
    mod = open(os.path.join(base, 'mod.rs')).read()
    std = open(os.path.join(base, 'stdlib.rs')).read()
    t = {}
    for op, name in BINOPS:
        m = re.search(r'\(\s*ast::BinaryOp::%s\s*,\s*ValueData::Number\(lhs\)\s*,\s*ValueData::Number\(rhs\)\s*\)\s*=>' % name, expr)
        if not m:
            raise ValueError('expr.rs: arm for BinaryOp::%s on numbers not found' % name)
        t[op] = gated(block_after(expr, m.end()), 'expr.rs BinaryOp::' + name)
    for op, name in UNOPS:
        m = re.search(r'\(\s*ast::UnaryOp::%s\s*,\s*ValueData::Number\(rhs\)\s*\)\s*=>' % name, mod)
        if not m:
            raise ValueError('mod.rs: arm for UnaryOp::%s on a number not found' % name)
        t[op] = gated(block_after(mod, m.end()), 'mod.rs UnaryOp::' + name)
    for op, fn in STDFNS:
        t[op] = gated(fn_body(std, fn, 'stdlib.rs'), 'stdlib.rs ' + fn)
    # std.mod: the Number arm of do_std_mod
    body = fn_body(std, 'do_std_mod', 'stdlib.rs')
    m = re.search(r'ValueData::Number\(lhs\)\s*=>', body)
    if not m:
        raise ValueError('stdlib.rs do_std_mod: Number arm not found')
    t['BMod'] = gated(block_after(body, m.end()), 'stdlib.rs do_std_mod')
    # text parsers: is_finite() tests
    t['BParseInt'] = gated(fn_body(std, 'do_std_parse_int', 'stdlib.rs'), 'stdlib.rs do_std_parse_int',
                           gate_pat=r'\.is_finite\s*\(\s*\)')
    radix = fn_body(mod, 'parse_num_radix', 'mod.rs')
    ok = gated(radix, 'mod.rs parse_num_radix', gate_pat=r'\.is_finite\s*\(\s*\)', result_pat=r'\bOk\s*\(\s*number\s*\)')
    t['BParseOctal'] = ok
    t['BParseHex'] = ok
    for op in NOGATE:
        t[op] = False
    # literals: Expr::Number arm of do_expr
    m = re.search(r'ir::Expr::Number\(\s*value\s*,\s*span\s*\)\s*=>', expr)
    if not m:
        raise ValueError('expr.rs: Expr::Number arm not found')
    lit = gated(block_after(expr, m.end()), 'expr.rs Expr::Number')
    return t, lit


ALL_OPS = ('OAdd OSub OMul ODiv ORem OShl OShr OBitAnd OBitOr OBitXor ONeg OPos OBitNot BSum BAvg BPow BExp BLog BLog2 '
           'BLog10 BSqrt BSin BCos BTan BAsin BAcos BAtan BAtan2 BHypot BFloor BCeil BRound BMod BModulo BAbs BSign BMax '
           'BMin BClamp BMantissa BExponent BDeg2Rad BRad2Deg BLength BCodepoint BParseInt BParseOctal BParseHex').split()


def main(repo, out):
    t, lit = read_table(repo)
    missing = [o for o in ALL_OPS if o not in t]
    if missing:
        raise ValueError('no gate information for ' + ','.join(missing))
    lines = ['(* generated by tools/translate_numgates.py from the current source tree — do not edit *)',
             'From RJ Require Import Model.NumOps.', '',
             'Definition src_gates (op : numop) : bool :=', '  match op with']
    for o in ALL_OPS:
        lines.append('  | %s => %s' % (o, 'true' if t[o] else 'false'))
    lines += ['  end.', '', 'Definition src_literal_gated : bool := %s.' % ('true' if lit else 'false'), '']
    txt = '\n'.join(lines)
    if not os.path.exists(out) or open(out).read() != txt:
        os.makedirs(os.path.dirname(out), exist_ok=True)
        open(out, 'w').write(txt)
    return t, lit


if __name__ == '__main__':
    repo = sys.argv[1] if len(sys.argv) > 1 else '/repo'
    t, lit = main(repo, os.path.join(os.path.dirname(os.path.dirname(os.path.abspath(__file__))), 'coq', 'Gen', 'NumGates.v'))
    print({k: v for k, v in t.items()}, lit)
