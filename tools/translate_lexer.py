#!/usr/bin/env python3
"""Translator T(lexer tables): reads, from the CURRENT working tree,
  rsjsonnet-lang/src/token.rs      enum STokenKind (order, keyword/symbol split)
  rsjsonnet-lang/src/lexer/mod.rs  next_token     single-byte arms, operator-start bytes
                                   lex_operator   forbidden sequences, sure/unsure byte classes, match arms
                                   lex_ident      keyword match arms
                                   lex_quoted_string  the one-byte escape chain
                                   decode_cont_char   lead-byte ranges and (byte0, byte1) arms
and writes coq/Gen/LexTables.v.  Props/C14.v proves each table equal to the
model's.  Fails loudly (exception) when the source shape is not understood."""
import re, os, sys


class Shape(Exception):
    pass


def fn_body(src, name):
    m = re.search(r'\bfn\s+%s\b[^{;]*\{' % re.escape(name), src)
    if not m:
        raise Shape('fn %s not found' % name)
    i = m.end()
    depth = 1
    n = len(src)
    while i < n and depth > 0:
        ch = src[i]
        if ch == '"':                      # string / byte-string literal
            i += 1
            while src[i] != '"':
                i += 2 if src[i] == '\\' else 1
        elif ch == "'":                    # char / byte literal (not a lifetime)
            mm = re.match(r"'(?:\\u\{[0-9A-Fa-f]+\}|\\.|[^'\\])'", src[i:])
            if mm:
                i += mm.end() - 1
        elif src.startswith('//', i):
            while src[i] != '\n':
                i += 1
        elif ch == '{':
            depth += 1
        elif ch == '}':
            depth -= 1
        i += 1
    if depth != 0:
        raise Shape('unbalanced braces in fn %s' % name)
    return src[m.end():i - 1]


SIMPLE_ESC = {'n': 10, 'r': 13, 't': 9, '\\': 92, "'": 39, '"': 34, '0': 0}


def unescape(body):
    """content of a Rust char/byte/byte-string literal -> list of code points"""
    out = []
    i = 0
    while i < len(body):
        if body[i] == '\\':
            c = body[i + 1]
            if c == 'x':
                out.append(int(body[i + 2:i + 4], 16)); i += 4
            elif c == 'u':
                j = body.index('}', i)
                out.append(int(body[i + 3:j], 16)); i = j + 1
            elif c in SIMPLE_ESC:
                out.append(SIMPLE_ESC[c]); i += 2
            else:
                raise Shape('unknown escape in literal %r' % body)
        else:
            out.append(ord(body[i])); i += 1
    return out


BYTE = r"b'((?:\\.|[^'\\])+?)'"
BSTR = r'b"((?:\\.|[^"\\])*)"'
CHAR = r"'((?:\\u\{[0-9A-Fa-f]+\}|\\.|[^'\\]))'"


def one(lit):
    v = unescape(lit)
    if len(v) != 1:
        raise Shape('expected a single byte/char: %r' % lit)
    return v[0]


def num(tok):
    t = tok.replace('_', '')
    if t.startswith('0b'):
        return int(t[2:], 2)
    if t.startswith('0x'):
        return int(t[2:], 16)
    return int(t)


def read(repo):
    tok_src = open(os.path.join(repo, 'rsjsonnet-lang/src/token.rs')).read()
    lex_src = open(os.path.join(repo, 'rsjsonnet-lang/src/lexer/mod.rs')).read()
    t = {}
    # --- enum STokenKind
    m = re.search(r'pub enum STokenKind\s*\{(.*?)\n\}', tok_src, re.S)
    if not m:
        raise Shape('enum STokenKind not found')
    body = m.group(1)
    if '// Keywords' not in body or '// Symbols' not in body:
        raise Shape('STokenKind: // Keywords and // Symbols section comments expected')
    kpart, spart = body.split('// Symbols')
    kws = re.findall(r'^\s*([A-Za-z_][A-Za-z0-9_]*),', kpart, re.M)
    syms = re.findall(r'^\s*([A-Za-z_][A-Za-z0-9_]*),', spart, re.M)
    if not kws or not syms:
        raise Shape('STokenKind: empty section')
    coq = {}
    for k in kws:
        coq[k] = 'K' + k.rstrip('_')
    for s in syms:
        coq[s] = 'S' + s
    t['enum'] = [coq[k] for k in kws + syms]

    def st(name):
        if name not in coq:
            raise Shape('unknown STokenKind::%s' % name)
        return coq[name]

    # --- next_token
    nt = fn_body(lex_src, 'next_token')
    singles = re.findall(r'Some\(%s\)\s*=>\s*Ok\(self\.commit_token\(TokenKind::Simple\(STokenKind::(\w+)\)\)\)' % BYTE, nt)
    t['singles'] = [(one(b), st(k)) for b, k in singles]
    m = re.search(r'Some\(\s*((?:%s\s*\|?\s*)+),?\s*\)\s*=>\s*Ok\(self\.lex_operator\(\)\)' % BYTE, nt)
    if not m:
        raise Shape('next_token: operator-start arm not found')
    t['op_start'] = [one(b) for b in re.findall(BYTE, m.group(1))]
    # every arm of next_token must be one this translator (or the model) knows about
    arms = re.findall(r'^\s{12}(Some\((?:[^()]|\([^()]*\))*?\)|None)\s*=>', nt, re.M | re.S)
    heads = [re.sub(r'\s+', ' ', a) for a in arms]
    single_heads = set(re.sub(r'\s+', ' ', h) for h in re.findall(r"Some\(%s\)(?=\s*=>\s*Ok\(self\.commit_token)" % BYTE.replace('(', '(?:', 1), nt))
    op_head = re.sub(r'\s+', ' ', m.group(0).split('=>')[0]).strip()
    rest_heads = [h for h in heads if h not in single_heads and h != op_head]
    expected_heads = ['None', "Some(b'/')", "Some(b'|')", "Some(b' ' | b'\\t' | b'\\n' | b'\\r')", "Some(b'#')",
                      "Some(chr @ b'0'..=b'9')", "Some(b'_' | b'a'..=b'z' | b'A'..=b'Z')", "Some(b'@')",
                      "Some(b'\\'')", "Some(b'\"')", 'Some(byte0)']
    if rest_heads != expected_heads:
        raise Shape('next_token: unexpected set of match arms: %r' % (rest_heads,))

    # --- lex_operator
    lo = fn_body(lex_src, 'lex_operator')
    forb = re.findall(r'self\.eat_slice\(%s\)' % BSTR, lo)
    t['op_forbidden'] = [unescape(x) for x in forb]
    mm = re.findall(r'matches!\(\s*next_byte,\s*((?:%s\s*\|?\s*)+)\)' % BYTE, lo)
    if len(mm) != 2:
        raise Shape('lex_operator: expected two matches!(next_byte, ...) classes, found %d' % len(mm))
    t['op_sure'] = [one(b) for b in re.findall(BYTE, mm[0][0])]
    t['op_unsure'] = [one(b) for b in re.findall(BYTE, mm[1][0])]
    if not re.search(r'\{\s*sure_end_pos = self\.end_pos;\s*\}\s*else if !matches!', lo):
        raise Shape('lex_operator: sure/unsure structure changed')
    ops = re.findall(r'%s\s*=>\s*self\.commit_token\(TokenKind::Simple\(STokenKind::(\w+)\)\)' % BSTR, lo)
    t['operators'] = [(unescape(b), st(k)) for b, k in ops]
    if len(re.findall(r'=>\s*self\.commit_token', lo)) != len(ops) + 1:
        raise Shape('lex_operator: an arm of the operator match was not understood')

    # --- lex_ident
    li = fn_body(lex_src, 'lex_ident')
    kw = re.findall(r'%s\s*=>\s*self\.commit_token\(TokenKind::Simple\(STokenKind::(\w+)\)\)' % BSTR, li)
    t['keywords'] = [(unescape(b), st(k)) for b, k in kw]
    if len(re.findall(r'=>\s*self\.commit_token', li)) != len(kw) + 1:
        raise Shape('lex_ident: an arm of the keyword match was not understood')
    if 'b.is_ascii_alphanumeric() || b == b\'_\'' not in li:
        raise Shape('lex_ident: continuation class changed')

    # --- escapes in lex_quoted_string
    lq = fn_body(lex_src, 'lex_quoted_string')
    esc = re.findall(r'self\.eat_byte\(%s\)\s*\{\s*string\.push\(%s\);' % (BYTE, CHAR), lq)
    t['escapes'] = [(one(b), one(c)) for b, c in esc]
    if len(re.findall(r'string\.push\(', lq)) != len(esc) + 4:
        raise Shape('lex_quoted_string: number of string.push sites changed')

    # --- decode_cont_char
    dc = fn_body(lex_src, 'decode_cont_char')
    lead = [(m.start(), num(m.group(1)), num(m.group(2)))
            for m in re.finditer(r'^\s{12}(0[bx][0-9A-Fa-f_]+|\d+)\.\.=(0[bx][0-9A-Fa-f_]+|\d+)\s*=>', dc, re.M)]
    if len(lead) != 4:
        raise Shape('decode_cont_char: expected 4 lead-byte range arms, found %d' % len(lead))
    t['utf8_lead'] = [(a, b) for _, a, b in lead]
    pairs = [(m.start(), num(m.group(1)), num(m.group(2) or m.group(1)), num(m.group(3)), num(m.group(4)))
             for m in re.finditer(r'\((0x[0-9A-Fa-f]+)(?:\.\.=(0x[0-9A-Fa-f]+))?,\s*(0x[0-9A-Fa-f]+)\.\.=(0x[0-9A-Fa-f]+)\)\s*=>\s*\(\),', dc)]
    t['utf8_second3'] = [p[1:] for p in pairs if lead[2][0] < p[0] < lead[3][0]]
    t['utf8_second4'] = [p[1:] for p in pairs if p[0] > lead[3][0]]
    if len(t['utf8_second3']) + len(t['utf8_second4']) != len(pairs) or not pairs:
        raise Shape('decode_cont_char: (byte0, byte1) arms not understood')
    if len(re.findall(r'=>\s*\(\),', dc)) != len(pairs):
        raise Shape('decode_cont_char: an accepting (byte0, byte1) arm was not understood')
    if len(re.findall(r'& 192 != TAG_CONT_U8', dc)) != 4:
        raise Shape('decode_cont_char: continuation tests changed')
    return t


def lst(xs):
    return '[' + '; '.join(str(x) for x in xs) + ']'


def render(t):
    o = ['(* GENERATED by tools/translate_lexer.py from rsjsonnet-lang/src/{token.rs,lexer/mod.rs} — do not edit *)',
         'From RJ Require Import Base.Outcome Model.Token.',
         'Local Open Scope N_scope.', '']
    o.append('Definition src_stoken_enum : list stoken :=\n  [%s].' % '; '.join(t['enum']))
    o.append('Definition src_keywords : list (list N * stoken) :=\n  [%s].' %
             ';\n   '.join('(%s, %s)' % (lst(b), k) for b, k in t['keywords']))
    o.append('Definition src_operators : list (list N * stoken) :=\n  [%s].' %
             ';\n   '.join('(%s, %s)' % (lst(b), k) for b, k in t['operators']))
    o.append('Definition src_singles : list (N * stoken) :=\n  [%s].' %
             '; '.join('(%d, %s)' % (b, k) for b, k in t['singles']))
    o.append('Definition src_op_start : list N := %s.' % lst(t['op_start']))
    o.append('Definition src_op_sure : list N := %s.' % lst(t['op_sure']))
    o.append('Definition src_op_unsure : list N := %s.' % lst(t['op_unsure']))
    o.append('Definition src_op_forbidden : list (list N) := [%s].' % '; '.join(lst(x) for x in t['op_forbidden']))
    o.append('Definition src_escapes : list (N * N) := [%s].' % '; '.join('(%d, %d)' % e for e in t['escapes']))
    o.append('Definition src_utf8_lead : list (N * N) := [%s].' % '; '.join('(%d, %d)' % e for e in t['utf8_lead']))
    o.append('Definition src_utf8_second3 : list (N * N * N * N) := [%s].' % '; '.join('(%d, %d, %d, %d)' % e for e in t['utf8_second3']))
    o.append('Definition src_utf8_second4 : list (N * N * N * N) := [%s].' % '; '.join('(%d, %d, %d, %d)' % e for e in t['utf8_second4']))
    return '\n'.join(o) + '\n'


def main(repo, out):
    t = read(repo)
    text = render(t)
    old = open(out).read() if os.path.exists(out) else None
    if old != text:
        os.makedirs(os.path.dirname(out), exist_ok=True)
        open(out, 'w').write(text)
    return t


if __name__ == '__main__':
    t = main(sys.argv[1], sys.argv[2])
    for k, v in t.items():
        print(k, v)
