#!/usr/bin/env python3
"""check.py — entry point of every registered check.

  ./check --setup                 one-off full build (MANIFEST.setup_cmd)
  ./check Cxx quick|thorough      run the check of one property
  ./check Cxx --replay <file>     re-run the cases stored in a replay file
"""
import sys, os, json, importlib, time, traceback
sys.path.insert(0, os.path.dirname(os.path.abspath(__file__)))
import vlib
from vlib import log

ALL = ['C%02d' % i for i in range(1, 21)]


def load_plugin(pid):
    return importlib.import_module('props.' + pid.lower())


def setup():
    t0 = time.time()
    ok = True
    plugins = []
    for pid in ALL:
        try:
            plugins.append(load_plugin(pid))
        except ModuleNotFoundError:
            continue
    # 1. translators (Gen/*.v must exist before coq_makefile lists them)
    for pl in plugins:
        for tr in getattr(pl, 'TRANSLATORS', []):
            try:
                tr(vlib.REPO)
            except Exception as e:
                log('setup: translator of %s failed: %s' % (pl.ID, e))
                ok = False
    # 2. whole Coq development (full .vo build) — keep going past a broken file
    rc, out = vlib.sh(['true'])
    vlib.coq_project()
    rc, out = vlib.sh(['make', '-k', '-j%d' % vlib.NCPU], cwd=vlib.COQ, timeout=6 * 3600)
    log(out[-3000:])
    if rc != 0:
        log('setup: coq build had failures (checks will report them)')
        ok = False
    # 3. model drivers
    comps = set()
    for pl in plugins:
        comps.update(getattr(pl, 'COMPONENTS', []))
    for c in sorted(comps):
        try:
            vlib.build_model(c)
        except Exception as e:
            log('setup: model %s: %s' % (c, e))
            ok = False
    # 4. implementation side
    try:
        vlib.build_harness()
        vlib.build_cli()
    except Exception as e:
        log('setup: %s' % e)
        ok = False
    log('setup finished in %.0fs (%s)' % (time.time() - t0, 'ok' if ok else 'with failures'))
    return 0 if ok else 1


def main():
    args = sys.argv[1:]
    if not args:
        print(__doc__)
        return 2
    if args[0] == '--setup':
        return setup()
    pid = args[0].upper()
    seed = int(os.environ.get('VERIF_SEED', '20260923'))
    if len(args) >= 3 and args[1] == '--replay':
        pl = load_plugin(pid)
        run = vlib.Run(pid, 'quick', seed)
        return pl.replay(run, args[2])
    tier = args[1] if len(args) > 1 else os.environ.get('VERIF_TIER', 'quick')
    if tier not in ('quick', 'thorough'):
        tier = 'quick'
    pl = load_plugin(pid)
    run = vlib.Run(pid, tier, seed)
    try:
        pl.check(run)
    except Exception as e:
        # machinery failure: never silently pass
        traceback.print_exc()
        run.failed_obligations.append('check machinery failed: %r' % (e,))
    return run.finish()


if __name__ == '__main__':
    sys.exit(main())
