#!/usr/bin/env python3
"""translate_cli.py — T for C12: reads the constants the command-line glue model depends on out of
rsjsonnet/src/main.rs and rsjsonnet/src/cli.rs and writes coq/Gen/CliConsts.v.  Props/C12.v proves
that they are the ones Model/Cli.v uses (C12_source_constants).  Raises on any unknown shape."""
import os, re, sys


def rust_str(lit):
    """decode a Rust string/char literal body with the escapes that occur here"""
    out = []
    i = 0
    while i < len(lit):
        c = lit[i]
        if c == '\\':
            n = lit[i + 1]
            m = {'n': '\n', 't': '\t', '\\': '\\', '"': '"', "'": "'", '0': '\0', 'r': '\r'}
            if n not in m:
                raise ValueError('unknown escape \\%s in %r' % (n, lit))
            out.append(m[n])
            i += 2
        else:
            out.append(c)
            i += 1
    return ''.join(out)


def coq_bytes(s):
    return '[' + '; '.join(str(b) for b in s.encode('utf-8')) + ']'


def one(pattern, text, what, flags=0):
    ms = re.findall(pattern, text, flags)
    if len(ms) != 1:
        raise ValueError('%s: expected exactly one match of %r, found %d' % (what, pattern, len(ms)))
    return ms[0]


def main(repo, out_path):
    main_rs = open(os.path.join(repo, 'rsjsonnet', 'src', 'main.rs')).read()
    cli_rs = open(os.path.join(repo, 'rsjsonnet', 'src', 'cli.rs')).read()
    env = {}
    # exit status mapping of fn main
    if not re.search(r'Ok\(\(\)\)\s*=>\s*ExitCode::SUCCESS', main_rs):
        raise ValueError('main: Ok(()) => ExitCode::SUCCESS not found')
    env['exit_generic'] = int(one(r'Err\(RunError::Generic\)\s*=>\s*ExitCode::from\((\d+)\)', main_rs, 'exit status of RunError::Generic'))
    env['exit_usage'] = int(one(r'Err\(RunError::Usage\)\s*=>\s*ExitCode::from\((\d+)\)', main_rs, 'exit status of RunError::Usage'))
    # the write to stdout: write_all(output.as_bytes()), flushed (and checked) or not
    i = main_rs.find('std::io::stdout()')
    if i < 0 or main_rs.find('std::io::stdout()', i + 1) >= 0:
        raise ValueError('main_inner: expected exactly one use of std::io::stdout()')
    j = main_rs.find('Ok(()) => {}', i)
    k = main_rs.find('eprintln!("failed to write to stdout', i)
    if j < 0 or k < 0 or not (i < j < k):
        raise ValueError('main_inner: shape of the stdout write not recognised')
    block = main_rs[i:j]
    if 'write_all(output.as_bytes())' not in block:
        raise ValueError('main_inner: write_all(output.as_bytes()) on stdout not found')
    if re.search(r'\blet\s+_\s*=', block) or '.ok()' in block:
        raise ValueError('main_inner: the result of the stdout write is discarded')
    if '.flush()' in block:
        if not re.search(r'\.and_then\(\s*\|\(\)\|\s*\w+\.flush\(\)\s*\)', block):
            raise ValueError('main_inner: flush present but not chained into the checked result')
        env['flushes'] = True
    else:
        env['flushes'] = False
    # YAML stream literals
    lits = re.findall(r'yaml\.push_str\("((?:[^"\\]|\\.)*)"\)', main_rs)
    chars = re.findall(r"yaml\.push\('((?:[^'\\]|\\.)*)'\)", main_rs)
    if len(lits) != 3 or len(chars) != 1:
        raise ValueError('value_to_repr: expected three yaml.push_str literals and one yaml.push, found %r %r' % (lits, chars))
    env['yaml_sep'], env['yaml_end'], env['yaml_end_nl'] = (rust_str(x) for x in lits)
    env['yaml_item_end'] = rust_str(chars[0])
    m = re.search(r'if args\.no_trailing_newline \{\s*yaml\.push_str\("((?:[^"\\]|\\.)*)"\);\s*\} else \{\s*yaml\.push_str\("((?:[^"\\]|\\.)*)"\);', main_rs)
    if not m or rust_str(m.group(1)) != env['yaml_end'] or rust_str(m.group(2)) != env['yaml_end_nl']:
        raise ValueError('value_to_repr: the closing of the YAML stream is not "if no_trailing_newline { end } else { end_nl }"')
    nls = re.findall(r"if !args\.no_trailing_newline \{\s*s\.push\('((?:[^'\\]|\\.)*)'\);\s*\}", main_rs)
    if len(nls) != 2 or any(rust_str(x) != '\n' for x in nls):
        raise ValueError('value_to_repr: expected two "if !args.no_trailing_newline { s.push(\'\\n\') }", found %r' % nls)
    # names of the virtual inputs and of the ext / tla code files
    virt = re.findall(r'Input::Virt\("((?:[^"\\]|\\.)*)",\s*data\)', main_rs)
    if len(virt) != 2:
        raise ValueError('main_inner: expected two Input::Virt("...", data), found %r' % virt)
    env['cmdline'], env['stdin'] = (rust_str(x) for x in virt)
    pref = re.findall(r'ext_code_to_thunk\(&mut session,\s*"((?:[^"\\]|\\.)*)",\s*arg\)', main_rs)
    if len(pref) != 2:
        raise ValueError('main_inner: expected two ext_code_to_thunk(&mut session, "...", arg), found %r' % pref)
    env['ext_prefix'], env['tla_prefix'] = (rust_str(x) for x in pref)
    one(r'format!\("<\{prefix\}:\{\}>",\s*arg\.var\)', main_rs, 'virtual path of external code')
    if not re.search(r'args\.input\s*==\s*"-"', main_rs):
        raise ValueError('main_inner: args.input == "-" not found')
    # order in which the variable arguments are processed
    order = re.findall(r'for arg in args\.(\w+)\.iter\(\)', main_rs)
    env['var_order'] = order
    names = ['ext_str', 'ext_str_file', 'ext_code', 'ext_code_file', 'tla_str', 'tla_str_file', 'tla_code', 'tla_code_file']
    idx = []
    for o in order:
        if o not in names:
            raise ValueError('main_inner: loop over unknown argument list %s' % o)
        idx.append(names.index(o))
    # cli.rs: both parsers split at the first '='
    splits = re.findall(r"s\.(\w+)\('='\)", cli_rs)
    if len(splits) != 2:
        raise ValueError("cli.rs: expected two s.<split>('=') calls, found %r" % splits)
    env['split_first'] = all(x == 'split_once' for x in splits)
    if not all(x in ('split_once', 'rsplit_once') for x in splits):
        raise ValueError('cli.rs: unknown split function %r' % splits)
    b = lambda v: 'true' if v else 'false'
    text = '''(* Gen/CliConsts.v — GENERATED by tools/translate_cli.py from rsjsonnet/src/main.rs and cli.rs; do not edit *)
From Coq Require Import List NArith.
Import ListNotations.
Local Open Scope N_scope.
Definition src_exit_generic : N := %d.
Definition src_exit_usage : N := %d.
Definition src_flushes : bool := %s.
Definition src_yaml_sep : list N := %s.
Definition src_yaml_item_end : list N := %s.
Definition src_yaml_end : list N := %s.
Definition src_yaml_end_nl : list N := %s.
Definition src_cmdline : list N := %s.
Definition src_stdin : list N := %s.
Definition src_ext_prefix : list N := %s.
Definition src_tla_prefix : list N := %s.
Definition src_var_order : list N := [%s].
Definition src_split_first : bool := %s.
''' % (env['exit_generic'], env['exit_usage'], b(env['flushes']), coq_bytes(env['yaml_sep']), coq_bytes(env['yaml_item_end']),
       coq_bytes(env['yaml_end']), coq_bytes(env['yaml_end_nl']), coq_bytes(env['cmdline']), coq_bytes(env['stdin']),
       coq_bytes(env['ext_prefix']), coq_bytes(env['tla_prefix']), '; '.join(str(i) for i in idx), b(env['split_first']))
    os.makedirs(os.path.dirname(out_path), exist_ok=True)
    old = open(out_path).read() if os.path.exists(out_path) else None
    if old != text:
        open(out_path, 'w').write(text)
    return env


if __name__ == '__main__':
    print(main(sys.argv[1] if len(sys.argv) > 1 else '/repo', '/verif/coq/Gen/CliConsts.v'))
