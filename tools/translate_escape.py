#!/usr/bin/env python3
"""Translator T(escape table): reads `escape_string_json` (its `match chr` arms),
the two delegating escapers, `is_safe_toml_plain` and the character class / reserved
words of `is_safe_yaml_plain` in rsjsonnet-lang/src/program/eval/manifest.rs of the
CURRENT working tree and writes coq/Gen/EscTable.v.  Fails loudly (exception) when the
source shape is not the one it understands."""
import re, sys, os

SRC = 'rsjsonnet-lang/src/program/eval/manifest.rs'


def fn_body(src, name):
    """text between the braces of `fn name(...) [-> T] {` ... matching `}` (string/char aware)"""
    m = re.search(r'\bfn\s+%s\s*\(' % re.escape(name), src)
    if not m:
        raise ValueError('function %s not found in manifest.rs' % name)
    i = src.index('{', m.end())
    depth = 0
    j = i
    n = len(src)
    while j < n:
        c = src[j]
        if c == '"':
            j += 1
            while src[j] != '"':
                j += 2 if src[j] == '\\' else 1
        elif c == "'":
            # char literal (not a lifetime): '\x..', '\u{..}', 'c'
            mm = re.match(r"'(\\u\{[0-9a-fA-F]+\}|\\.|[^\\'])'", src[j:])
            if mm:
                j += mm.end() - 1
        elif c == '/' and src[j:j + 2] == '//':
            j = src.index('\n', j)
        elif c == '{':
            depth += 1
        elif c == '}':
            depth -= 1
            if depth == 0:
                return src[i + 1:j]
        j += 1
    raise ValueError('unbalanced braces in %s' % name)


def char_lit(tok):
    """Rust char literal -> code point"""
    tok = tok.strip()
    m = re.fullmatch(r"'\\u\{([0-9a-fA-F]{1,6})\}'", tok)
    if m:
        return int(m.group(1), 16)
    simple = {"'\\t'": 9, "'\\n'": 10, "'\\r'": 13, "'\\\\'": 92, "'\\''": 39, "'\\\"'": 34, "'\\0'": 0}
    if tok in simple:
        return simple[tok]
    m = re.fullmatch(r"'\\x([0-7][0-9a-fA-F])'", tok)
    if m:
        return int(m.group(1), 16)
    m = re.fullmatch(r"'([^\\'])'", tok)
    if m:
        return ord(m.group(1))
    raise ValueError('unsupported char literal %r' % tok)


def str_lit(tok):
    """Rust (non-raw) string literal -> list of code points"""
    tok = tok.strip()
    if not (len(tok) >= 2 and tok[0] == '"' and tok[-1] == '"'):
        raise ValueError('unsupported string literal %r' % tok)
    out = []
    i = 1
    end = len(tok) - 1
    while i < end:
        c = tok[i]
        if c == '\\':
            e = tok[i + 1]
            table = {'n': 10, 't': 9, 'r': 13, '\\': 92, '"': 34, "'": 39, '0': 0}
            if e in table:
                out.append(table[e]); i += 2
            elif e == 'u':
                m = re.match(r'\{([0-9a-fA-F]{1,6})\}', tok[i + 2:])
                if not m:
                    raise ValueError('bad \\u escape in %r' % tok)
                out.append(int(m.group(1), 16)); i += 2 + m.end()
            elif e == 'x':
                out.append(int(tok[i + 2:i + 4], 16)); i += 4
            else:
                raise ValueError('unsupported escape \\%s in %r' % (e, tok))
        else:
            out.append(ord(c)); i += 1
    return out


def split_top(s, sep):
    """split on sep outside of quotes/braces/parens"""
    parts, cur, depth, i = [], [], 0, 0
    while i < len(s):
        c = s[i]
        if c == '"':
            j = i + 1
            while s[j] != '"':
                j += 2 if s[j] == '\\' else 1
            cur.append(s[i:j + 1]); i = j + 1; continue
        if c == "'":
            mm = re.match(r"'(\\u\{[0-9a-fA-F]+\}|\\.|[^\\'])'", s[i:])
            if mm:
                cur.append(mm.group(0)); i += mm.end(); continue
        if c in '({[':
            depth += 1
        elif c in ')}]':
            depth -= 1
        if depth == 0 and s.startswith(sep, i):
            parts.append(''.join(cur)); cur = []; i += len(sep); continue
        cur.append(c); i += 1
    parts.append(''.join(cur))
    return parts


def parse_pattern(p):
    """`'a' | 'b'..='c'` -> [(lo, hi), ...];  `_` -> None"""
    p = p.strip()
    if p == '_':
        return None
    rs = []
    for alt in split_top(p, '|'):
        alt = alt.strip()
        if '..=' in alt:
            lo, hi = alt.split('..=')
            rs.append((char_lit(lo), char_lit(hi)))
        elif '..' in alt:
            raise ValueError('half-open range pattern not supported: %r' % alt)
        else:
            c = char_lit(alt)
            rs.append((c, c))
    return rs


def parse_action(a):
    a = a.strip().rstrip(',').strip()
    if a.startswith('{') and a.endswith('}'):
        a = a[1:-1].strip().rstrip(';').strip()
    m = re.fullmatch(r'result\.push_str\((".*")\)', a, flags=re.S)
    if m:
        return ('str', str_lit(m.group(1)))
    if re.fullmatch(r'result\.push\(chr\)', a):
        return ('chr',)
    m = re.fullmatch(r'write!\(\s*result\s*,\s*(".*?")\s*,\s*chr\s+as\s+u32\s*\)\s*\.unwrap\(\)', a, flags=re.S)
    if m:
        fmt = m.group(1)
        if fmt != r'"\\u{:04x}"':
            raise ValueError('unsupported format string %s (expected "\\\\u{:04x}")' % fmt)
        return ('u4',)
    raise ValueError('unsupported match-arm action: %r' % a)


def read_escape_arms(src):
    body = fn_body(src, 'escape_string_json')
    norm = re.sub(r'\s+', ' ', body).strip()
    m = re.fullmatch(r"result\.push\('\"'\); for chr in s\.chars\(\) \{ match chr \{ (.*) \} \} result\.push\('\"'\);", norm)
    if not m:
        raise ValueError('escape_string_json does not have the shape push(quote); for chr { match chr {..} } push(quote)')
    arms_txt = m.group(1)
    arms = []
    default = None
    # arms: PAT => ACTION, …   (ACTION is an expression ending in ',' or a block)
    i = 0
    s = arms_txt
    while i < len(s):
        while i < len(s) and s[i] in ' ,':
            i += 1
        if i >= len(s):
            break
        j = s.index('=>', i)
        pat = s[i:j]
        k = j + 2
        while s[k] == ' ':
            k += 1
        if s[k] == '{':
            depth = 0
            e = k
            while True:
                if s[e] == '"':
                    e += 1
                    while s[e] != '"':
                        e += 2 if s[e] == '\\' else 1
                elif s[e] == '{' and not re.match(r'\{:04x\}', s[e:]):
                    depth += 1
                elif s[e] == '}':
                    depth -= 1
                    if depth == 0:
                        break
                e += 1
            act = s[k:e + 1]
            i = e + 1
        else:
            parts = split_top(s[k:], ',')
            act = parts[0]
            i = k + len(act) + 1
        rs = parse_pattern(pat)
        a = parse_action(act)
        if default is not None:
            raise ValueError('arm after the wildcard arm')
        if rs is None:
            default = a
        else:
            arms.append((rs, a))
    if default is None:
        raise ValueError('no wildcard arm')
    return arms, default


def check_delegates(src):
    for name in ('escape_string_python', 'escape_string_toml'):
        b = re.sub(r'\s+', ' ', fn_body(src, name)).strip()
        if b != 'escape_string_json(s, result);':
            raise ValueError('%s no longer delegates to escape_string_json: %r' % (name, b))
    b = re.sub(r'\s+', ' ', fn_body(src, 'escape_key_toml')).strip()
    want = 'if is_safe_toml_plain(s) { s.into() } else { let mut escaped = String::new(); escape_string_toml(s, &mut escaped); escaped }'
    if b != want:
        raise ValueError('escape_key_toml has an unknown shape: %r' % b)


def read_toml_plain(src):
    b = re.sub(r'\s+', ' ', fn_body(src, 'is_safe_toml_plain')).strip()
    m = re.fullmatch(r"!s\.is_empty\(\) && s\.bytes\(\) \.all\(\|b\| b\.is_ascii_alphanumeric\(\)((?: \|\| b == b'.')*)\)", b)
    if not m:
        raise ValueError('is_safe_toml_plain has an unknown shape: %r' % b)
    return [ord(x) for x in re.findall(r"b == b'(.)'", m.group(1))]


def read_yaml_plain(src):
    b = fn_body(src, 'is_safe_yaml_plain')
    m = re.search(r'let special = \[(.*?)\];', b, flags=re.S)
    if not m:
        raise ValueError('is_safe_yaml_plain: reserved-word list not found')
    special = [str_lit(x) for x in split_top(m.group(1), ',') if x.strip()]
    m = re.search(r"\.any\(\|chr\| !matches!\(chr, (.*?)\)\)", b, flags=re.S)
    if not m:
        raise ValueError('is_safe_yaml_plain: character class not found')
    cls = parse_pattern(re.sub(r'\s+', ' ', m.group(1)))
    # the remaining (number/date look-alike) tests are modelled by hand; pin their text
    rest = re.sub(r'\s+', ' ', b[b.index('// Check for dates'):]).strip()
    return special, cls, rest


YAML_REST_EXPECTED = (
    "// Check for dates, where there are two '-' and the rest are digits "
    "if s.chars().all(|chr| matches!(chr, '0'..='9' | '-')) && s.chars().filter(|&chr| chr == '-').count() == 2 { return false; } "
    "// Check for integers, where there is at most one `-` and the rest are digits or '_' "
    "if s.chars().all(|chr| matches!(chr, '0'..='9' | '_' | '-')) && s.chars().filter(|&chr| chr == '-').count() <= 1 { return false; } "
    "// Check for base-2 integers, which start with `0b` or `-0b` and the rest are digits or '_' "
    "if (s.starts_with(\"0b\") || s.starts_with(\"-0b\")) && s.chars() .all(|chr| matches!(chr, '0'..='9' | 'b' | 'B' | '_' | '-')) && s.chars().filter(|&chr| chr == '-').count() <= 1 { return false; } "
    "// Check for base-16 integers, which start with `0x` or `-0x` and the rest are digits or '_' "
    "if (s.starts_with(\"0x\") || s.starts_with(\"-0x\")) && s.chars() .all(|chr| matches!(chr, '0'..='9' | 'a'..='f' | 'A'..='F' | 'x' | 'X' | '_' | '-')) && s.chars().filter(|&chr| chr == '-').count() <= 1 { return false; } "
    "// Check for floats. "
    "if s.chars() .all(|chr| matches!(chr, '0'..='9' | 'e' | 'E' | '_' | '-' | '.')) && s.chars().filter(|&chr| chr == '.').count() == 1 && s.chars().filter(|&chr| chr == '-').count() <= 2 && s.chars().filter(|&chr| chr == 'e' || chr == 'E').count() <= 1 { return false; } "
    "true")


def coq_str(l):
    return '[' + '; '.join(str(x) for x in l) + ']'


def render(arms, default, toml_extra, yaml_special, yaml_cls):
    def act(a):
        if a[0] == 'str':
            return 'EPushStr %s' % coq_str(a[1])
        return {'u4': 'EUnicode4', 'chr': 'EPushChr'}[a[0]]
    lines = ['(* GENERATED by tools/translate_escape.py from %s — do not edit *)' % SRC,
             'From RJ Require Import Base.Outcome Model.Token Model.JsonEsc.',
             'Local Open Scope N_scope.',
             'Definition esc_arms : list esc_arm :=',
             '  [ ' + ';\n    '.join('(%s, %s)' % ('[' + '; '.join('(%d, %d)' % r for r in rs) + ']', act(a)) for rs, a in arms) + ' ].',
             'Definition esc_default : esc_action := %s.' % act(default),
             'Definition toml_plain_extra : list N := %s.' % coq_str(toml_extra),
             'Definition yaml_special_src : list str :=',
             '  [ ' + ';\n    '.join(coq_str(s) for s in yaml_special) + ' ].',
             'Definition yaml_plain_ranges : list (N * N) := [' + '; '.join('(%d, %d)' % r for r in yaml_cls) + '].',
             '']
    return '\n'.join(lines)


def main(repo, out):
    src = open(os.path.join(repo, SRC)).read()
    arms, default = read_escape_arms(src)
    check_delegates(src)
    toml_extra = read_toml_plain(src)
    special, cls, rest = read_yaml_plain(src)
    if cls is None:
        raise ValueError('is_safe_yaml_plain: wildcard character class')
    if rest != YAML_REST_EXPECTED:
        raise ValueError('is_safe_yaml_plain: the number/date look-alike tests changed (hand model in Model/JsonEsc.v must be re-read): %r' % rest)
    text = render(arms, default, toml_extra, special, cls)
    old = open(out).read() if os.path.exists(out) else None
    if old != text:
        open(out, 'w').write(text)
    return {'arms': arms, 'default': default, 'toml_extra': toml_extra, 'yaml_special': special, 'yaml_cls': cls}


if __name__ == '__main__':
    print(main(sys.argv[1], sys.argv[2]))
