#!/usr/bin/env python3
"""Translator T(gc trace table): reads the type definitions and every
`impl GcTrace for ...` of the CURRENT working tree (program/data.rs,
gc/trace.rs, gc/mod.rs) and writes coq/Gen/GcTraceTable.v: per type/variant the
GC-bearing fields and the fields actually traced (with multiplicity).  Fails
loudly (Unsupported) when a source shape is not one it understands."""
import re, sys, os

DATA = 'rsjsonnet-lang/src/program/data.rs'
TRACE = 'rsjsonnet-lang/src/gc/trace.rs'
GCMOD = 'rsjsonnet-lang/src/gc/mod.rs'
CONTAINERS = ['Option', 'RefCell', 'OnceCell', 'Box', 'slice', 'Vec']

class Unsupported(ValueError):
    pass

def bad(who, what, text=''):
    raise Unsupported('%s: %s: %r' % (who, what, text[:200]))

# ---------------------------------------------------------------- lexical helpers
TOKEN = re.compile(r'''//[^\n]*|/\*.*?\*/|(?<!\w)r(#*)".*?"\1|"(?:\\.|[^"\\])*"|'(?:\\.[^']*|[^\\'])\'''', re.S)

def strip_comments(src):
    # remove // and /* */ comments (nested ones are refused); blank the contents of string/char literals
    out = TOKEN.sub(lambda m: {'/': ' ', "'": "'_'"}.get(m.group()[0], '""'), src)
    if '/*' in out or '*/' in out: bad('reader', 'nested or unterminated block comment', out[out.find('*') - 20:])
    return out

def find_top(s, i, ch, angle=False):
    # index of the first `ch` at bracket depth 0 in s[i:], or -1 (`->`/`=>` are not brackets)
    depth = 0
    for j in range(i, len(s)):
        c = s[j]
        if c == ch and depth == 0 and (c != '>' or s[j - 1] not in '-='): return j
        depth += (c in '{([' or (angle and c == '<')) - (c in '})]' or (angle and c == '>' and s[j - 1] not in '-='))
    return -1

def match_close(s, i, angle=False):
    # s[i] is an opening bracket; index of its closing partner
    j = find_top(s, i + 1, {'{': '}', '(': ')', '[': ']', '<': '>'}[s[i]], angle)
    if j < 0: bad('reader', 'unbalanced bracket', s[i:])
    return j

def split_top(s):
    """split at top-level commas (depth over () [] {} <>, `->`/`=>` are not brackets)."""
    parts, start, depth = [], 0, 0
    for j, c in enumerate(s + ','):
        if c == ',' and depth == 0:
            parts.append(s[start:j].strip())
            start = j + 1
        depth += (c in '{([<') - (c in '})]' or (c == '>' and s[j - 1:j] not in ('-', '=')))
    return [p for p in parts if p]

def strip_attrs(s):
    while True:
        m = re.search(r'#\s*!?\s*\[', s)
        if not m: return s
        s = s[:m.start()] + ' ' + s[match_close(s, m.end() - 1) + 1:]

def norm(t):
    """collapse whitespace; no blanks around punctuation."""
    return re.sub(r'\s*([^\w\s])\s*', r'\1', ' '.join(t.split()))

def depth_at(src, pos):
    return src.count('{', 0, pos) - src.count('}', 0, pos)

# ---------------------------------------------------------------- type definitions
def parse_fields(who, body, named):
    fields = []
    for k, part in enumerate(split_top(strip_attrs(body))):
        part = re.sub(r'^pub\b\s*(\([^)]*\))?\s*', '', part)
        m = re.fullmatch(r'(\w+)\s*:\s*(.+)', part, re.S) if named else None
        if named and not m: bad(who, 'unknown field shape', part)
        fields.append((m.group(1) if named else str(k), ' '.join((m.group(2) if named else part).split())))
    return fields

def parse_defs(src):
    """name -> ('struct', fields) | ('enum', [(variant, fields)]) | ('alias', type); top-level items only."""
    defs = {}
    for m in re.finditer(r'\b(struct|enum|type)\s+(\w+)\s*', src):
        if depth_at(src, m.start()) != 0: continue
        kind, name, i = m.group(1), m.group(2), m.end()
        if name in defs: bad(name, 'defined twice')
        if src[i:i + 1] == '<':
            i = match_close(src, i, angle=True) + 1
        while src[i:i + 1].isspace(): i += 1
        c = src[i:i + 1]
        if kind == 'type':
            j = find_top(src, i, ';')
            if c != '=' or j < 0: bad(name, 'unknown alias shape', src[m.start():i + 40])
            defs[name] = ('alias', ' '.join(src[i + 1:j].split()))
            continue
        if c not in ('{', '(', ';'): bad(name, 'unknown item shape', src[m.start():i + 40])
        body = '' if c == ';' else src[i + 1:match_close(src, i)]
        if kind == 'struct':
            defs[name] = ('struct', parse_fields(name, body, c == '{'))
            continue
        variants = []
        for part in split_top(strip_attrs(body)):
            vm = re.fullmatch(r'(\w+)\s*(.*)', part, re.S)
            if not vm: bad(name, 'unknown variant shape', part)
            v, rest = vm.group(1), vm.group(2).strip()
            if rest == '' or rest.startswith('='):
                variants.append((v, []))
            elif rest[0] in '({' and match_close(rest, 0) == len(rest) - 1:
                variants.append((v, parse_fields(name + '::' + v, rest[1:-1], rest[0] == '{')))
            else:
                bad(name, 'unknown variant shape', part)
        defs[name] = ('enum', variants)
    return defs

def def_types(d):
    if d[0] == 'alias': return [d[1]]
    return [t for _, t in d[1]] if d[0] == 'struct' else [t for _, fs in d[1] for _, t in fs]

def is_gc(ty, gc):
    return bool(re.search(r'\bGc\s*<', ty)) or any(re.search(r'\b%s\b' % n, ty) for n in gc)

def gc_fixpoint(defs):
    gc = []
    while True:
        new = [n for n, d in defs.items() if n not in gc and any(is_gc(t, gc) for t in def_types(d))]
        if not new: return gc
        gc += new

def outer_ctor(ty, defs):
    ty = ty.strip()
    if ty[:1] in '&[(': return {'&': 'ref', '[': 'slice', '(': 'tuple'}[ty[0]]
    m = re.match(r'(?:\w+\s*::\s*)*(\w+)', ty)
    if not m: bad('type', 'unknown type shape', ty)
    n = m.group(1)
    return outer_ctor(defs[n][1], defs) if n in defs and defs[n][0] == 'alias' else n

# ---------------------------------------------------------------- impl blocks
def trace_impls(src, who):
    """[(type text, normalised body of fn trace)] for each top-level `impl .. GcTrace for T { fn trace .. }`."""
    res = []
    for m in re.finditer(r'\bimpl\b([^{;]*?)\bGcTrace\s+for\s+([^{]+?)\s*\{', src):
        if depth_at(src, m.start()) != 0: continue
        ty = who + ' ' + m.group(2).strip()
        block = src[m.end():match_close(src, m.end() - 1)]
        fm = re.search(r'\bfn\s+trace\s*(<[^>]*>)?\s*\(\s*&\s*self\s*,\s*ctx\s*:', block)
        bo = block.find('{', fm.end()) if fm else -1
        if len(re.findall(r'\bfn\b', block)) != 1 or bo < 0: bad(ty, 'impl is not a single fn trace(&self, ctx: ..) {..}', block)
        bc = match_close(block, bo)
        if block[bc + 1:].strip(): bad(ty, 'text after fn trace', block[bc + 1:])
        res.append((m.group(2).strip(), norm(block[bo + 1:bc])))
    return res

def stmts(body):
    """[('stmt', text, None) | ('block', head, inner)] of a normalised statement list."""
    res, i = [], 0
    while i < len(body):
        if body[i] in ' ;':
            i += 1
            continue
        semi, br = find_top(body, i, ';'), find_top(body, i, '{')
        if br >= 0 and (semi < 0 or br < semi):
            c = match_close(body, br)
            res.append(('block', body[i:br].strip(), body[br + 1:c].strip()))
            i = c + 1
        else:
            end = len(body) if semi < 0 else semi
            res.append(('stmt', body[i:end].strip(), None))
            i = end + 1
    return res

def simple_traces(who, body, binds):
    """body = sequence of `<b>.trace(ctx);` with b in binds -> list of binds[b]."""
    out = []
    for kind, head, _ in stmts(body):
        m = re.fullmatch(r'(\w+)\.trace\(ctx\)', head)
        if kind != 'stmt' or not m or m.group(1) not in binds: bad(who, 'unknown trace statement', head)
        out.append(binds[m.group(1)])
    return out

class Ctx:
    def __init__(self, defs, gc, impl_names):
        self.defs, self.gc, self.ctors = defs, gc, []
        self.direct_ok = set(CONTAINERS) | {'Gc'} | set(impl_names)
    def gc_fields(self, fields):
        for _, t in fields:
            c = outer_ctor(t, self.defs)
            if is_gc(t, self.gc) and c not in self.defs and c not in self.ctors: self.ctors.append(c)
        return [f for f, t in fields if is_gc(t, self.gc)]
    def check_direct(self, who, f, ty):
        c = outer_ctor(ty, self.defs)
        if is_gc(ty, self.gc) and c not in self.direct_ok:
            bad(who, 'field %s traced with .trace(ctx) but %s has no GcTrace impl' % (f, c), ty)

def struct_row(cx, name, fields, body):
    ft, traced = dict(fields), []
    for kind, head, inner in stmts(body):
        ms = re.fullmatch(r'self\.(\w+)(\.borrow\(\))?\.trace\(ctx\)', head) if kind == 'stmt' else None
        mf = re.fullmatch(r'for (\w+) in self\.(\w+)\.(values|iter)\(\)', head) if kind == 'block' else None
        f = ms.group(1) if ms else mf.group(2) if mf else None
        if f is None: bad(name, 'unknown statement in fn trace', head)
        if f not in ft: bad(name, 'trace of unknown field', head)
        c = outer_ctor(ft[f], cx.defs)
        if ms:
            if ms.group(2) and c != 'RefCell': bad(name, '.borrow() on non-RefCell field', head)
            cx.check_direct(name, f, ft[f])
            traced.append(f)
        else:
            if (mf.group(3) == 'values') != c.endswith('Map'): bad(name, 'loop kind does not fit field type ' + ft[f], head)
            traced += [f] * len(simple_traces(name, inner, {mf.group(1): f}))
    return [(name, '', cx.gc_fields(fields), traced)]

def parse_pat(name, pat, vmap):
    """`Self::V`, `Self::V(a, _)`, `Self::V { a, .. }` -> (V, {binding: field})."""
    m = re.fullmatch(r'(?:Self|%s)::(\w+)(?:\((.*)\)|\{(.*)\})?' % name, pat)
    if not m or m.group(1) not in vmap: bad(name, 'unknown pattern', pat)
    v, tup, rec, binds = m.group(1), m.group(2), m.group(3), {}
    names = [f for f, _ in vmap[v]]
    parts = [re.sub(r'^ref ', '', p) for p in split_top(tup if tup is not None else rec or '')]
    if tup is not None and (names != [str(k) for k in range(len(names))] or len(parts) != len(names)) \
            or tup is None and rec is None and names:
        bad(name, 'pattern does not fit variant', pat)
    for k, p in enumerate(parts):
        if p == ('_' if tup is not None else '..'): continue
        f = str(k) if tup is not None else p
        if not re.fullmatch(r'[a-z_]\w*', p) or f not in names or p in binds: bad(name, 'unknown binding', pat)
        binds[p] = f
    return v, binds

def enum_rows(cx, name, variants, body):
    vmap, traced, arms = dict(variants), {}, []
    mi = re.match(r'if let (.+?)=\*?self\{', body)
    if re.match(r'match ?\*?self\{', body):
        o = body.index('{')
        if match_close(body, o) != len(body) - 1: bad(name, 'text after match', body)
        inner, i = body[o + 1:-1], 0
        while i < len(inner):
            ar = inner.find('=>', i)
            if ar < 0: bad(name, 'unknown match arm', inner[i:])
            j = ar + 2
            blk = inner[j:j + 1] == '{'
            c = match_close(inner, j) if blk else find_top(inner + ',', j, ',')
            arms.append((inner[i:ar], inner[j + blk:c]))
            i = c + 1 + (blk and inner[c + 1:c + 2] == ',')
    elif mi:
        o = mi.end() - 1
        if match_close(body, o) != len(body) - 1: bad(name, 'text after if let', body)
        arms = [(mi.group(1), body[o + 1:-1]), ('_', '')]
    elif body == '':
        arms = [('_', '')]
    else:
        bad(name, 'unknown body of fn trace', body)
    for k, (pat, abody) in enumerate(arms):
        if pat == '_':
            if abody.strip() or k != len(arms) - 1: bad(name, 'wildcard arm must be last and empty', abody)
            for v in vmap: traced.setdefault(v, [])
            continue
        # or-pattern `Self::A(x) | Self::B(x) => body`: the body applies to every alternative
        alts, d, st = [], 0, 0
        for ci, ch in enumerate(pat):
            if ch in '([{': d += 1
            elif ch in ')]}': d -= 1
            elif ch == '|' and d == 0:
                alts.append(pat[st:ci]); st = ci + 1
        alts.append(pat[st:])
        if any(not a.strip() for a in alts): bad(name, 'unknown pattern', pat)
        for alt in alts:
            v, binds = parse_pat(name, alt.strip(), vmap)
            if v in traced: bad(name, 'variant matched twice', pat)
            traced[v] = simple_traces(name + '::' + v, abody, binds)
            for f in traced[v]: cx.check_direct(name + '::' + v, f, dict(vmap[v])[f])
    if len(traced) != len(vmap): bad(name, 'variants without arm', ','.join(v for v in vmap if v not in traced))
    return [(name, v, cx.gc_fields(fs), traced[v]) for v, fs in variants]

def generic_rows(src, who):
    """rows for the container impls of gc/trace.rs and for `impl GcTrace for Gc<T>` of gc/mod.rs."""
    rows = []
    for ty, body in trace_impls(src, who):
        m = re.fullmatch(r'(?:\w+::)*(\w+)<T>|\[T\]', norm(ty))
        if not m: bad(who, 'unknown generic impl type', ty)
        cname, traced = m.group(1) or 'slice', []
        for kind, head, inner in stmts(body):
            if cname == 'Gc' and kind == 'stmt' and head == 'ctx.visit_obj(self)':
                traced.append('self')
            elif cname != 'Gc' and kind == 'stmt' and head in ('T::trace(&self.borrow(),ctx)', 'T::trace(self,ctx)'):
                traced.append('item')
            elif cname != 'Gc' and kind == 'block' and head in ('if let Some(item)=self', 'if let Some(item)=self.get()', 'for item in self.iter()'):
                for k2, h2, _ in stmts(inner):
                    if k2 != 'stmt' or h2 != 'T::trace(item,ctx)': bad(cname, 'unknown statement in container impl', h2)
                    traced.append('item')
            else:
                bad(cname, 'unknown statement in fn trace', head)
        rows.append((cname, '', ['self' if cname == 'Gc' else 'item'], traced))
    want = ['Gc'] if who == GCMOD else CONTAINERS
    if sorted(r[0] for r in rows) != sorted(want): bad(who, 'impls GcTrace are not exactly for %s' % want, ','.join(r[0] for r in rows))
    return rows

# ---------------------------------------------------------------- driver
def build(repo):
    read = lambda p: strip_comments(open(os.path.join(repo, p), encoding='utf-8').read())
    src = read(DATA)
    defs = parse_defs(src)
    gc = gc_fixpoint(defs)
    impls, names = trace_impls(src, DATA), []
    for ty, _ in impls:
        m = re.fullmatch(r'(\w+)\s*(<.*>)?', ty)
        if not m or defs.get(m.group(1), ('alias',))[0] == 'alias': bad(DATA, 'impl GcTrace for a type not defined here', ty)
        if m.group(1) in names: bad(DATA, 'two impls GcTrace', ty)
        names.append(m.group(1))
    # a strong view stored inside a traced (heap) type would be a permanent root: refuse
    for n in names:
        for t in def_types(defs[n]):
            if re.search(r'\bGcView\s*<', t): bad(n, 'heap type holds a GcView (strong reference inside the heap)', t)
    cx, rows = Ctx(defs, gc, names), []
    for name, (_, body) in zip(names, impls):
        kind, items = defs[name]
        rows += (struct_row if kind == 'struct' else enum_rows)(cx, name, items, body)
    rows += generic_rows(read(TRACE), TRACE) + generic_rows(read(GCMOD), GCMOD)
    summary = {'rows': len(rows), 'types': names + CONTAINERS + ['Gc'],
               'gc_types': [n for n in defs if n in gc],
               'untraced_gc_types': [n for n in defs if n in gc and n not in names and defs[n][0] != 'alias'],
               'constructors': cx.ctors}
    return rows, summary

def coq_list(l):
    for s in l:
        if not re.fullmatch(r'[A-Za-z0-9_]+', s): bad('render', 'not a plain identifier', s)
    return '[' + '; '.join('"%s"' % s for s in l) + ']'

def render(rows):
    for t, v, _, _ in rows: coq_list([t] + ([v] if v else []))
    body = ';\n    '.join('{| tr_type := "%s"; tr_variant := "%s"; tr_gc_fields := %s; tr_traced := %s |}'
                          % (t, v, coq_list(g), coq_list(tr)) for t, v, g, tr in rows)
    return ('(* GENERATED by tools/translate_gctrace.py from rsjsonnet-lang/src/program/data.rs, gc/trace.rs, gc/mod.rs — do not edit *)\n'
            'From Coq Require Import String List.\n'
            'Import ListNotations.\n'
            'From RJ Require Import Model.Gc.\n'
            'Local Open Scope string_scope.\n'
            'Definition trace_table : list trace_row :=\n'
            '  [ ' + body + '\n  ].\n')

def main(repo, out):
    rows, summary = build(repo)
    text = render(rows)
    old = open(out, encoding='utf-8').read() if os.path.exists(out) else None
    if old != text:
        os.makedirs(os.path.dirname(os.path.abspath(out)), exist_ok=True)
        open(out, 'w', encoding='utf-8').write(text)
    return summary

if __name__ == '__main__':
    print(main(sys.argv[1], sys.argv[2]))
