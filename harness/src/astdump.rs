//! astdump: tokens and public AST -> the S-expression wire format read by
//! ocaml/ast_wire.ml (see CONVENTIONS.md "AST wire format").
//! Spans are printed as `<start>:<end>` (hex byte offsets inside the file);
//! strings as comma separated hex code points, `-` for the empty string.
#![allow(dead_code)]
use rsjsonnet_lang::ast::*;
use rsjsonnet_lang::span::{SpanId, SpanManager};
use rsjsonnet_lang::token::{Number, STokenKind, Token, TokenKind};

pub fn s(x: &str) -> String {
    if x.is_empty() {
        "-".to_string()
    } else {
        x.chars().map(|c| format!("{:x}", c as u32)).collect::<Vec<_>>().join(",")
    }
}

pub struct Dump<'a> {
    pub mgr: &'a SpanManager,
}

impl Dump<'_> {
    pub fn sp(&self, id: SpanId) -> String {
        let (_, a, b) = self.mgr.get_span(id);
        format!("{a:x}:{b:x}")
    }

    fn num(&self, n: &Number<'_>) -> String {
        let e = if n.exp < 0 { format!("-{:x}", (n.exp as i128).unsigned_abs()) } else { format!("{:x}", n.exp) };
        format!("{} {}", s(n.digits), e)
    }

    pub fn token(&self, t: &Token<'_, '_>) -> String {
        let sp = self.sp(t.span);
        match t.kind {
            TokenKind::EndOfFile => format!("(EOF {sp})"),
            TokenKind::Whitespace => format!("(WS {sp})"),
            TokenKind::Comment => format!("(Comment {sp})"),
            TokenKind::Simple(k) => format!("(S {:?} {sp})", k),
            TokenKind::OtherOp(op) => format!("(Op {} {sp})", s(op)),
            TokenKind::Ident(i) => format!("(Id {} {sp})", s(i.value())),
            TokenKind::Number(n) => format!("(Num {} {sp})", self.num(&n)),
            TokenKind::String(x) => format!("(Str {} {sp})", s(x)),
            TokenKind::TextBlock(x) => format!("(TB {} {sp})", s(x)),
        }
    }

    pub fn tokens(&self, ts: &[Token<'_, '_>]) -> String {
        ts.iter().map(|t| self.token(t)).collect::<Vec<_>>().join(" ")
    }

    fn ident(&self, i: &Ident<'_>) -> String {
        format!("(Id {} {})", self.sp(i.span), s(i.value.value()))
    }

    fn opt(&self, e: &Option<&Expr<'_, '_>>) -> String {
        match e {
            Some(e) => self.expr(e),
            None => "_".into(),
        }
    }

    fn opt_owned(&self, e: &Option<Expr<'_, '_>>) -> String {
        match e {
            Some(e) => self.expr(e),
            None => "_".into(),
        }
    }

    fn params(&self, ps: &[Param<'_, '_>]) -> String {
        let v: Vec<String> = ps
            .iter()
            .map(|p| format!("(Param {} {})", self.ident(&p.name), self.opt_owned(&p.default_value)))
            .collect();
        format!("(Params {})", v.join(" "))
    }

    fn bind(&self, b: &Bind<'_, '_>) -> String {
        let ps = match b.params {
            Some((ps, sp)) => format!("(P {} {})", self.sp(sp), self.params(ps)),
            None => "_".into(),
        };
        format!("(Bind {} {} {})", self.ident(&b.name), ps, self.expr(&b.value))
    }

    fn assert(&self, a: &Assert<'_, '_>) -> String {
        format!("(A {} {} {})", self.sp(a.span), self.expr(&a.cond), self.opt_owned(&a.msg))
    }

    fn vis(&self, v: Visibility) -> &'static str {
        match v {
            Visibility::Default => "Default",
            Visibility::Hidden => "Hidden",
            Visibility::ForceVisible => "ForceVisible",
        }
    }

    fn field_name(&self, n: &FieldName<'_, '_>) -> String {
        match n {
            FieldName::Ident(i) => format!("(FnIdent {})", self.ident(i)),
            FieldName::String(x, sp) => format!("(FnString {} {})", s(x.value()), self.sp(*sp)),
            FieldName::Expr(e, sp) => format!("(FnExpr {} {})", self.expr(e), self.sp(*sp)),
        }
    }

    fn comp_specs(&self, cs: &[CompSpecPart<'_, '_>]) -> String {
        let v: Vec<String> = cs
            .iter()
            .map(|c| match c {
                CompSpecPart::For(f) => format!("(For {} {})", self.ident(&f.var), self.expr(&f.inner)),
                CompSpecPart::If(i) => format!("(IfSpec {})", self.expr(&i.cond)),
            })
            .collect();
        format!("(Specs {})", v.join(" "))
    }

    fn obj_inside(&self, o: &ObjInside<'_, '_>) -> String {
        match o {
            ObjInside::Members(ms) => {
                let v: Vec<String> = ms
                    .iter()
                    .map(|m| match m {
                        Member::Local(l) => format!("(MLocal {})", self.bind(&l.bind)),
                        Member::Assert(a) => format!("(MAssert {})", self.assert(a)),
                        Member::Field(Field::Value(n, plus, vis, e)) => format!(
                            "(MField (FValue {} {} {} {}))",
                            self.field_name(n),
                            *plus as u8,
                            self.vis(*vis),
                            self.expr(e)
                        ),
                        Member::Field(Field::Func(n, ps, sp, vis, e)) => format!(
                            "(MField (FFunc {} {} {} {} {}))",
                            self.field_name(n),
                            self.params(ps),
                            self.sp(*sp),
                            self.vis(*vis),
                            self.expr(e)
                        ),
                    })
                    .collect();
                format!("(Members {})", v.join(" "))
            }
            ObjInside::Comp { locals1, name, plus, body, locals2, comp_spec } => {
                let l1: Vec<String> = locals1.iter().map(|l| self.bind(&l.bind)).collect();
                let l2: Vec<String> = locals2.iter().map(|l| self.bind(&l.bind)).collect();
                format!(
                    "(Comp (Locals {}) {} {} {} (Locals {}) {})",
                    l1.join(" "),
                    self.expr(name),
                    *plus as u8,
                    self.expr(body),
                    l2.join(" "),
                    self.comp_specs(comp_spec)
                )
            }
        }
    }

    pub fn expr(&self, e: &Expr<'_, '_>) -> String {
        let sp = self.sp(e.span);
        match &e.kind {
            ExprKind::Null => format!("(Null {sp})"),
            ExprKind::Bool(b) => format!("(Bool {sp} {})", *b as u8),
            ExprKind::SelfObj => format!("(Self {sp})"),
            ExprKind::Dollar => format!("(Dollar {sp})"),
            ExprKind::String(x) => format!("(String {sp} {})", s(x)),
            ExprKind::TextBlock(x) => format!("(TextBlock {sp} {})", s(x)),
            ExprKind::Number(n) => format!("(Number {sp} {})", self.num(n)),
            ExprKind::Paren(x) => format!("(Paren {sp} {})", self.expr(x)),
            ExprKind::Object(o) => format!("(Object {sp} {})", self.obj_inside(o)),
            ExprKind::Array(items) => {
                let v: Vec<String> = items.iter().map(|x| self.expr(x)).collect();
                format!("(Array {sp} {})", v.join(" "))
            }
            ExprKind::ArrayComp(x, cs) => format!("(ArrayComp {sp} {} {})", self.expr(x), self.comp_specs(cs)),
            ExprKind::Field(x, i) => format!("(Field {sp} {} {})", self.expr(x), self.ident(i)),
            ExprKind::Index(x, i) => format!("(Index {sp} {} {})", self.expr(x), self.expr(i)),
            ExprKind::Slice(x, a, b, c) => {
                format!("(Slice {sp} {} {} {} {})", self.expr(x), self.opt(a), self.opt(b), self.opt(c))
            }
            ExprKind::SuperField(ssp, i) => format!("(SuperField {sp} {} {})", self.sp(*ssp), self.ident(i)),
            ExprKind::SuperIndex(ssp, i) => format!("(SuperIndex {sp} {} {})", self.sp(*ssp), self.expr(i)),
            ExprKind::Call(f, args, ts) => {
                let v: Vec<String> = args
                    .iter()
                    .map(|a| match a {
                        Arg::Positional(x) => format!("(Pos {})", self.expr(x)),
                        Arg::Named(n, x) => format!("(Named {} {})", self.ident(n), self.expr(x)),
                    })
                    .collect();
                format!("(Call {sp} {} {} (Args {}))", self.expr(f), *ts as u8, v.join(" "))
            }
            ExprKind::Ident(i) => format!("(Ident {sp} {})", self.ident(i)),
            ExprKind::Local(bs, body) => {
                let v: Vec<String> = bs.iter().map(|b| self.bind(b)).collect();
                format!("(Local {sp} (Binds {}) {})", v.join(" "), self.expr(body))
            }
            ExprKind::If(c, t, f) => format!("(If {sp} {} {} {})", self.expr(c), self.expr(t), self.opt(f)),
            ExprKind::Binary(l, op, r) => format!("(Binary {sp} {} {:?} {})", self.expr(l), op, self.expr(r)),
            ExprKind::Unary(op, x) => format!("(Unary {sp} {:?} {})", op, self.expr(x)),
            ExprKind::ObjExt(x, o, osp) => {
                format!("(ObjExt {sp} {} {} {})", self.expr(x), self.obj_inside(o), self.sp(*osp))
            }
            ExprKind::Func(ps, body) => format!("(Func {sp} {} {})", self.params(ps), self.expr(body)),
            ExprKind::Assert(a, body) => format!("(Assert {sp} {} {})", self.assert(a), self.expr(body)),
            ExprKind::Import(x) => format!("(Import {sp} {})", self.expr(x)),
            ExprKind::ImportStr(x) => format!("(ImportStr {sp} {})", self.expr(x)),
            ExprKind::ImportBin(x) => format!("(ImportBin {sp} {})", self.expr(x)),
            ExprKind::Error(x) => format!("(Error {sp} {})", self.expr(x)),
            ExprKind::InSuper(x, ssp) => format!("(InSuper {sp} {} {})", self.expr(x), self.sp(*ssp)),
        }
    }
}

pub fn stoken_name(k: STokenKind) -> String {
    format!("{k:?}")
}
