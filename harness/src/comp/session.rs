//! session: drives ONE long-lived `Program` through a request sequence and the
//! same requests each on a fresh `Program` (property C11: a state's answers do
//! not depend on its past requests).
//!
//! args[0] = options `k=v` separated by ';'
//!             gc=<hex>     (hook) collect on every n-th maybe_gc call; 0 = default heuristic
//!             stack=<hex>  max stack of requests that carry no `@` suffix (default 500 = 1f4)
//! args[1] = pool of sources separated by ';', each a comma separated list of hex bytes.
//!           Source k is importable from the others as `import "s<k hex>"`; imports and `L`
//!           go through one cache per state (as `Session::load_real_file` does), so the value
//!           of a library source is shared by every request that reaches it.
//! args[2] = requests separated by ';' (all numbers hex):
//!             L<k>                     cached load of source k
//!             N<k>                     new (uncached) load of source k; later E/C/M<k> use this thunk
//!             E<k>[@s]                 eval_value of source k's thunk; value rendered through the Value API
//!             C<k>:<j,j..>:<n=j,..>[@s] eval_call of k with positional / named argument thunks (sources j)
//!             M<k>:<ml>[@s]            eval_value then manifest_json(multiline = ml)
//!             H<k>:<ml>[@s]            manifest_json of the Value kept from the last successful E/M<k>
//!                                      (evaluates first when none is kept — which is what a fresh state does)
//!             K<k>:<ml>[@s]            manifest_json of the Value kept from the last C<k> if it succeeded
//!                                      (otherwise, and on a fresh state, the last C<k> of the sequence is re-run first)
//!             G                        Program::gc()
//!           `@s` = set_max_stack(s) for this request.
//!
//!             big=<hex>    the large limit of the third run (default 100000)
//! output:  <shared outcomes ';' separated> TAB <fresh outcomes ';' separated>
//!          TAB <for every request whose fresh outcome is StackOverflow: its outcome on a fresh state
//!               under the large limit; '-' otherwise>
//!   outcome = ok | V:<rendered value, code points> | S:<manifested text, code points>
//!           | E:<LOAD|EVAL>:<variant>:<user message code points or -> | nocall | P (panic) | A (after a panic)
use crate::wire::*;
use rsjsonnet_lang::arena::Arena;
use rsjsonnet_lang::interner::InternedStr;
use rsjsonnet_lang::program::{
    EvalError, EvalErrorKind, EvalStackTraceItem, ImportError, LoadError, NativeError, Program,
    Thunk, Value, ValueKind,
};
use rsjsonnet_lang::span::SpanId;
use std::collections::HashMap;
use std::panic::{AssertUnwindSafe, catch_unwind};

struct Cb<'p, 'a> {
    sources: &'a [Vec<u8>],
    cache: HashMap<usize, Thunk<'p>>,
}

fn src_path(k: usize) -> String {
    format!("s{k:x}")
}

fn path_src(path: &str) -> Option<usize> {
    usize::from_str_radix(path.strip_prefix('s')?, 16).ok()
}

impl<'p, 'a> Cb<'p, 'a> {
    fn load_new(&mut self, program: &mut Program<'p>, k: usize) -> Result<Thunk<'p>, Option<LoadError>> {
        let data = self.sources.get(k).ok_or(None)?;
        let (ctx, _) = program.span_manager_mut().insert_source_context(data.len());
        program.load_source(ctx, data, true, &src_path(k)).map_err(Some)
    }

    fn load_cached(&mut self, program: &mut Program<'p>, k: usize) -> Result<Thunk<'p>, Option<LoadError>> {
        if let Some(t) = self.cache.get(&k) {
            return Ok(t.clone());
        }
        let t = self.load_new(program, k)?;
        self.cache.insert(k, t.clone());
        Ok(t)
    }
}

impl<'p, 'a> rsjsonnet_lang::program::Callbacks<'p> for Cb<'p, 'a> {
    fn import(&mut self, program: &mut Program<'p>, _from: SpanId, path: &str) -> Result<Thunk<'p>, ImportError> {
        let k = path_src(path).ok_or(ImportError)?;
        self.load_cached(program, k).map_err(|_| ImportError)
    }
    fn import_str(&mut self, _program: &mut Program<'p>, _from: SpanId, path: &str) -> Result<String, ImportError> {
        let k = path_src(path).ok_or(ImportError)?;
        let data = self.sources.get(k).ok_or(ImportError)?;
        Ok(String::from_utf8_lossy(data).into_owned())
    }
    fn import_bin(&mut self, _program: &mut Program<'p>, _from: SpanId, path: &str) -> Result<Vec<u8>, ImportError> {
        let k = path_src(path).ok_or(ImportError)?;
        self.sources.get(k).cloned().ok_or(ImportError)
    }
    fn trace(&mut self, _program: &mut Program<'p>, _message: &str, _stack: &[EvalStackTraceItem]) {}
    fn native_call(&mut self, _program: &mut Program<'p>, _name: InternedStr<'p>, _args: &[Value<'p>]) -> Result<Value<'p>, NativeError> {
        Err(NativeError)
    }
}

fn variant_name(dbg: &str) -> String {
    dbg.chars().take_while(|c| c.is_alphanumeric() || *c == '_').collect()
}

fn eval_err(e: &EvalError) -> String {
    let dbg = format!("{:?}", e.kind);
    let msg = match &e.kind {
        EvalErrorKind::ExplicitError { message, .. } => string_out(message),
        EvalErrorKind::AssertFailed { message: Some(m), .. } => string_out(m),
        _ => "-".into(),
    };
    let msg = if msg.is_empty() { "-".to_string() } else { msg };
    format!("E:EVAL:{}:{}", variant_name(&dbg), msg)
}

fn load_err(e: &Option<LoadError>) -> String {
    match e {
        None => "E:LOAD:NoSuchSource:-".into(),
        Some(LoadError::Lex(e)) => format!("E:LOAD:Lex{}:-", variant_name(&format!("{e:?}"))),
        Some(LoadError::Parse(e)) => format!("E:LOAD:Parse{}:-", variant_name(&format!("{e:?}"))),
        Some(LoadError::Analyze(e)) => format!("E:LOAD:Analyze{}:-", variant_name(&format!("{e:?}"))),
    }
}

/// A fully evaluated value through the public Value API only (no evaluation happens here).
fn render(v: &Value<'_>, out: &mut String) {
    match v.kind() {
        ValueKind::Null => out.push_str("null"),
        ValueKind::Bool(b) => out.push_str(if b { "true" } else { "false" }),
        ValueKind::Number(n) => out.push_str(&format!("#{:x}", n.to_bits())),
        ValueKind::String(s) => out.push_str(&format!("{s:?}")),
        ValueKind::Array(items) => {
            out.push('[');
            for (i, it) in items.iter().enumerate() {
                if i > 0 {
                    out.push(',');
                }
                render(it, out);
            }
            out.push(']');
        }
        ValueKind::Object(fields) => {
            out.push('{');
            for (i, (n, it)) in fields.iter().enumerate() {
                if i > 0 {
                    out.push(',');
                }
                out.push_str(&format!("{:?}:", n.value()));
                render(it, out);
            }
            out.push('}');
        }
        ValueKind::Function => out.push_str("<function>"),
    }
}

#[derive(Clone)]
enum Req {
    Load(usize),
    LoadNew(usize),
    Eval(usize),
    Call(usize, Vec<usize>, Vec<(String, usize)>),
    Manifest(usize, bool),
    Held(usize, bool),
    HeldCall(usize, bool),
    Gc,
    Bad,
}

fn parse_req(s: &str, default_stack: usize) -> (Req, usize) {
    let (body, stack) = match s.split_once('@') {
        Some((b, st)) => (b, hex_usize(st)),
        None => (s, default_stack),
    };
    if body.is_empty() {
        return (Req::Bad, stack);
    }
    let (k, rest) = body.split_at(1);
    let parts: Vec<&str> = rest.split(':').collect();
    let num = |i: usize| parts.get(i).filter(|x| !x.is_empty()).map(|x| hex_usize(x));
    let r = match k {
        "G" => Req::Gc,
        "L" => num(0).map(Req::Load).unwrap_or(Req::Bad),
        "N" => num(0).map(Req::LoadNew).unwrap_or(Req::Bad),
        "E" => num(0).map(Req::Eval).unwrap_or(Req::Bad),
        "M" => num(0).map(|k| Req::Manifest(k, num(1) == Some(1))).unwrap_or(Req::Bad),
        "H" => num(0).map(|k| Req::Held(k, num(1) == Some(1))).unwrap_or(Req::Bad),
        "K" => num(0).map(|k| Req::HeldCall(k, num(1) == Some(1))).unwrap_or(Req::Bad),
        "C" => match num(0) {
            Some(k) => {
                let pos: Vec<usize> = parts
                    .get(1)
                    .map(|p| p.split(',').filter(|x| !x.is_empty()).map(hex_usize).collect())
                    .unwrap_or_default();
                let named: Vec<(String, usize)> = parts
                    .get(2)
                    .map(|p| {
                        p.split(',')
                            .filter(|x| !x.is_empty())
                            .filter_map(|x| x.split_once('=').map(|(n, j)| (n.to_string(), hex_usize(j))))
                            .collect()
                    })
                    .unwrap_or_default();
                Req::Call(k, pos, named)
            }
            None => Req::Bad,
        },
        _ => Req::Bad,
    };
    (r, stack)
}

struct State<'p, 'a> {
    program: Program<'p>,
    cb: Cb<'p, 'a>,
    roots: HashMap<usize, Thunk<'p>>,
    held: HashMap<usize, Value<'p>>,
    held_call: HashMap<usize, Value<'p>>,
}

impl<'p, 'a> State<'p, 'a> {
    fn new(arena: &'p Arena, sources: &'a [Vec<u8>], gc: usize) -> Self {
        #[allow(unused_mut)]
        let mut program = Program::new(arena);
        #[cfg(rsjsonnet_verif)]
        {
            if gc != 0 {
                program.verif_set_gc_period(gc);
            }
        }
        let _ = gc;
        State {
            program,
            cb: Cb { sources, cache: HashMap::new() },
            roots: HashMap::new(),
            held: HashMap::new(),
            held_call: HashMap::new(),
        }
    }

    fn root(&mut self, k: usize) -> Result<Thunk<'p>, String> {
        if let Some(t) = self.roots.get(&k) {
            return Ok(t.clone());
        }
        self.cb.load_cached(&mut self.program, k).map_err(|e| load_err(&e))
    }

    fn eval(&mut self, k: usize) -> Result<Value<'p>, String> {
        let t = self.root(k)?;
        match self.program.eval_value(&t, &mut self.cb) {
            Ok(v) => {
                self.held.insert(k, v.clone());
                Ok(v)
            }
            Err(e) => Err(eval_err(&e)),
        }
    }

    fn call(&mut self, k: usize, pos: &[usize], named: &[(String, usize)]) -> Result<Value<'p>, String> {
        // nothing is kept from a failed call: K<k> then re-runs it, as a fresh state does
        self.held_call.remove(&k);
        let f = self.root(k)?;
        let mut p = Vec::new();
        for &j in pos {
            p.push(self.root(j)?);
        }
        let mut n = Vec::new();
        for (name, j) in named {
            let t = self.root(*j)?;
            n.push((self.program.intern_str(name), t));
        }
        match self.program.eval_call(&f, &p, &n, &mut self.cb) {
            Ok(v) => {
                self.held_call.insert(k, v.clone());
                Ok(v)
            }
            Err(e) => Err(eval_err(&e)),
        }
    }

    fn manifest(&mut self, v: &Value<'p>, ml: bool) -> String {
        match self.program.manifest_json(v, ml) {
            Ok(s) => format!("S:{}", string_out(&s)),
            Err(e) => eval_err(&e),
        }
    }

    fn show(v: &Value<'p>) -> String {
        let mut s = String::new();
        render(v, &mut s);
        format!("V:{}", string_out(&s))
    }

    /// `last_call` = the most recent C<k> request before this one (what a fresh state replays for K<k>)
    fn step(&mut self, req: &Req, stack: usize, last_call: Option<&Req>) -> String {
        self.program.set_max_stack(stack);
        match req {
            Req::Bad => "bad".into(),
            Req::Gc => {
                self.program.gc();
                "ok".into()
            }
            Req::Load(k) => match self.cb.load_cached(&mut self.program, *k) {
                Ok(_) => "ok".into(),
                Err(e) => load_err(&e),
            },
            Req::LoadNew(k) => match self.cb.load_new(&mut self.program, *k) {
                Ok(t) => {
                    self.roots.insert(*k, t);
                    "ok".into()
                }
                Err(e) => load_err(&e),
            },
            Req::Eval(k) => match self.eval(*k) {
                Ok(v) => Self::show(&v),
                Err(e) => e,
            },
            Req::Call(k, pos, named) => match self.call(*k, pos, named) {
                Ok(v) => Self::show(&v),
                Err(e) => e,
            },
            Req::Manifest(k, ml) => match self.eval(*k) {
                Ok(v) => self.manifest(&v, *ml),
                Err(e) => e,
            },
            Req::Held(k, ml) => {
                let v = match self.held.get(k) {
                    Some(v) => Ok(v.clone()),
                    None => self.eval(*k),
                };
                match v {
                    Ok(v) => self.manifest(&v, *ml),
                    Err(e) => e,
                }
            }
            Req::HeldCall(k, ml) => {
                let v = match self.held_call.get(k) {
                    Some(v) => Ok(v.clone()),
                    None => match last_call {
                        Some(Req::Call(k2, pos, named)) if k2 == k => self.call(*k, pos, named),
                        _ => return "nocall".into(),
                    },
                };
                match v {
                    Ok(v) => self.manifest(&v, *ml),
                    Err(e) => e,
                }
            }
        }
    }
}

fn guarded<F: FnOnce() -> String>(f: F) -> String {
    match catch_unwind(AssertUnwindSafe(f)) {
        Ok(s) => s,
        Err(_) => "P".into(),
    }
}

pub fn handle(args: &[String]) -> String {
    let mut gc = 0usize;
    let mut default_stack = 500usize;
    let mut big_stack = 100_000usize;
    for kv in args[0].split(';').filter(|x| !x.is_empty()) {
        let (k, v) = kv.split_once('=').unwrap_or((kv, ""));
        match k {
            "gc" => gc = hex_usize(v),
            "stack" => default_stack = hex_usize(v),
            "big" => big_stack = hex_usize(v),
            _ => {}
        }
    }
    let sources: Vec<Vec<u8>> = if args[1].is_empty() {
        Vec::new()
    } else {
        args[1].split(';').map(bytes).collect()
    };
    let reqs: Vec<(Req, usize)> = args[2]
        .split(';')
        .filter(|x| !x.is_empty())
        .map(|s| parse_req(s, default_stack))
        .collect();
    // for K<k>: the most recent C<k> before each position
    let last_call = |i: usize, k: usize| -> Option<&Req> {
        reqs[..i].iter().rev().map(|(r, _)| r).find(|r| matches!(r, Req::Call(k2, _, _) if *k2 == k))
    };
    let lc_for = |i: usize| -> Option<&Req> {
        match &reqs[i].0 {
            Req::HeldCall(k, _) => last_call(i, *k),
            _ => None,
        }
    };

    // shared state
    let mut shared: Vec<String> = Vec::new();
    {
        let arena = Arena::new();
        let mut st = State::new(&arena, &sources, gc);
        let mut dead = false;
        for (i, (r, stack)) in reqs.iter().enumerate() {
            if dead {
                shared.push("A".into());
                continue;
            }
            let lc = lc_for(i);
            let o = guarded(|| st.step(r, *stack, lc));
            if o == "P" {
                dead = true;
            }
            shared.push(o);
        }
    }
    // each request on a fresh state
    let mut fresh: Vec<String> = Vec::new();
    for (i, (r, stack)) in reqs.iter().enumerate() {
        let arena = Arena::new();
        let lc = lc_for(i);
        let o = guarded(|| {
            let mut st = State::new(&arena, &sources, gc);
            st.step(r, *stack, lc)
        });
        fresh.push(o);
    }
    // a request that overflows the stack on a fresh state is run once more on a fresh state with a
    // large limit: the reference for answers that memoisation made cheaper on the long-lived state
    let mut roomy: Vec<String> = Vec::new();
    for (i, (r, _)) in reqs.iter().enumerate() {
        if !fresh[i].starts_with("E:EVAL:StackOverflow") {
            roomy.push("-".into());
            continue;
        }
        let arena = Arena::new();
        let lc = lc_for(i);
        let o = guarded(|| {
            let mut st = State::new(&arena, &sources, gc);
            st.step(r, big_stack, lc)
        });
        roomy.push(o);
    }
    format!("{}\t{}\t{}", shared.join(";"), fresh.join(";"), roomy.join(";"))
}
