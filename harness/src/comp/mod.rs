//! Component registry: one module per modelled component.
pub mod eval;
pub mod front;
pub mod gcheap;
pub mod session;
pub mod span;

pub fn dispatch(comp: &str, args: &[String]) -> Option<String> {
    match comp {
        "eval" => Some(eval::handle(args)),
        "front" => Some(front::handle(args)),
        "gcheap" => Some(gcheap::handle(args)),
        "session" => Some(session::handle(args)),
        "span" => Some(span::handle(args)),
        _ => None,
    }
}
