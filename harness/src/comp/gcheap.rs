//! gcheap: drives the real collector.
//!
//! mode "ops":  args[1] = ops separated by ';' over the cfg-guarded scripted heap
//!              (`rsjsonnet_lang::verif::Heap`, rsjsonnet-lang/src/gc/verif_heap.rs):
//!                a | v | e<a>,<b> | x<a>,<k> | h<a> | w<a> | V<a> | H<a> | g
//!              output: observations separated by ';':
//!                n<id> | + | - |
//!                g<ids in objs order>/<live ids ascending>/<num_objects>/<ids reached by walking from held handles>
//!              (a `Gc::view()` on a destroyed object panics; main.rs answers PANIC)
//! mode "prog": args[1] = eval options (see eval.rs), args[2] = rounds (hex), args[3..] = sources (hex bytes).
//!              One long-lived `Program`; baseline = object count after an initial `gc()`;
//!              every round evaluates and manifests every source, drops all results and
//!              collects.  output: B=<baseline> <TAB> C=<count after each round> <TAB> R=<gc runs>
//!              <TAB> O=<outcome class per evaluation of round 1>
use crate::comp::eval::{parse_opts, Cb};
use crate::wire::*;
use rsjsonnet_lang::arena::Arena;
use rsjsonnet_lang::program::Program;
use std::collections::HashMap;

fn join(v: &[usize]) -> String {
    v.iter().map(|x| format!("{x:x}")).collect::<Vec<_>>().join(",")
}

#[cfg(rsjsonnet_verif)]
fn run_ops(ops: &str) -> String {
    use rsjsonnet_lang::verif::Heap;
    let mut heap = Heap::new();
    let mut out: Vec<String> = Vec::new();
    let pm = |b: bool| if b { "+".to_string() } else { "-".to_string() };
    for op in ops.split(';').filter(|s| !s.is_empty()) {
        let (k, rest) = op.split_at(1);
        let nums: Vec<usize> = list_hex_u64(rest).into_iter().map(|x| x as usize).collect();
        match (k, nums.as_slice()) {
            ("a", []) => out.push(format!("n{:x}", heap.alloc())),
            ("v", []) => out.push(format!("n{:x}", heap.alloc_view())),
            ("e", [a, b]) => out.push(pm(heap.add_edge(*a, *b))),
            ("x", [a, k]) => out.push(pm(heap.del_edge(*a, *k))),
            ("h", [a]) => out.push(pm(heap.drop_handle(*a))),
            ("w", [a]) => out.push(pm(heap.drop_view(*a))),
            ("V", [a]) => out.push(pm(heap.take_view(*a))),
            ("H", [a]) => out.push(pm(heap.take_handle(*a))),
            ("g", []) => {
                heap.gc();
                let order = heap.objs_order();
                let live = heap.live_ids();
                let n = heap.num_objects();
                let walk = heap.walk();
                out.push(format!("g{}/{}/{:x}/{}", join(&order), join(&live), n, join(&walk)));
            }
            _ => out.push("?".into()),
        }
    }
    out.join(";")
}

#[cfg(not(rsjsonnet_verif))]
fn run_ops(_ops: &str) -> String {
    "NOHOOK".into()
}

#[cfg(rsjsonnet_verif)]
fn run_prog(args: &[String]) -> String {
    let opts = parse_opts(&args[1]);
    let rounds = hex_usize(&args[2]);
    let sources: Vec<Vec<u8>> = args[3..].iter().map(|s| bytes(s)).collect();
    let arena = Arena::new();
    let mut program = Program::new(&arena);
    if let Some(s) = opts.stack {
        program.set_max_stack(s);
    }
    if opts.gc != 0 {
        program.verif_set_gc_period(opts.gc);
    }
    program.gc();
    let baseline = program.verif_num_objects();
    let mut counts: Vec<usize> = Vec::new();
    let mut outcomes: Vec<String> = Vec::new();
    for round in 0..rounds {
        for src in sources.iter() {
            let mut cb = Cb { traces: Vec::new(), imp: &opts.imp, loaded: HashMap::new(), srclens: Vec::new() };
            let (ctx, _) = program.span_manager_mut().insert_source_context(src.len());
            let class = match program.load_source(ctx, src, true, "<main>") {
                Err(_) => "L",
                Ok(thunk) => match program.eval_value(&thunk, &mut cb) {
                    Err(_) => "E",
                    Ok(value) => match program.manifest_json(&value, opts.ml) {
                        Ok(_) => "K",
                        Err(_) => "M",
                    },
                },
            };
            if round == 0 {
                outcomes.push(class.to_string());
            }
        }
        // every result (thunk, value, error) has been dropped here
        program.gc();
        counts.push(program.verif_num_objects());
    }
    format!("B={:x}\tC={}\tR={:x}\tO={}", baseline, join(&counts), program.verif_gc_runs(), outcomes.join(""))
}

#[cfg(not(rsjsonnet_verif))]
fn run_prog(_args: &[String]) -> String {
    "NOHOOK".into()
}

pub fn handle(args: &[String]) -> String {
    match args[0].as_str() {
        "ops" => run_ops(&args[1]),
        "prog" => run_prog(args),
        _ => "BADMODE".into(),
    }
}
