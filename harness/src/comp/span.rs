//! span: drives the real `SpanManager` with an operation sequence.
//! args[0] = ops separated by ';' :  c<len> | s<ctx>,<start>,<end> | u<i>,<j> is not
//! available through the public API (make_surrounding_span is pub(crate)), | g<i>
//! output: observations separated by ';' : c<id> | s<ctx>,<start>,<end> | t<ctx>,<start>,<end> | P | K
use crate::wire::*;
use rsjsonnet_lang::span::{SpanContextId, SpanId, SpanManager};

pub fn handle(args: &[String]) -> String {
    let mut mgr = SpanManager::new();
    let mut ctxs: Vec<SpanContextId> = Vec::new();
    let mut ids: Vec<SpanId> = Vec::new();
    let mut out: Vec<String> = Vec::new();
    // args[0] is the constants triple used by the model only
    for op in args[1].split(';').filter(|s| !s.is_empty()) {
        let (k, rest) = op.split_at(1);
        let nums: Vec<u64> = list_hex_u64(rest);
        match k {
            "c" => {
                let len = nums[0] as usize;
                let r = std::panic::catch_unwind(std::panic::AssertUnwindSafe(|| {
                    mgr.insert_source_context(len)
                }));
                match r {
                    Ok((c, _)) => {
                        ctxs.push(c);
                        out.push(format!("c{:x}", ctxs.len() - 1));
                    }
                    Err(_) => out.push("P".into()),
                }
            }
            "s" => {
                let ci = nums[0] as usize;
                if ci >= ctxs.len() {
                    // the public API cannot even name a context that was never created
                    out.push("P".into());
                    continue;
                }
                let c = ctxs[ci];
                let (a, b) = (nums[1] as usize, nums[2] as usize);
                let r = std::panic::catch_unwind(std::panic::AssertUnwindSafe(|| {
                    let id = mgr.intern_span(c, a, b);
                    (id, mgr.get_span(id))
                }));
                match r {
                    Ok((id, (rc, ra, rb))) => {
                        ids.push(id);
                        let rci = ctxs.iter().position(|x| *x == rc).map(|p| p as u64).unwrap_or(u64::MAX);
                        out.push(format!("s{:x},{:x},{:x}", rci, ra, rb));
                    }
                    Err(_) => out.push("P".into()),
                }
            }
            "g" => {
                let i = nums[0] as usize;
                if i >= ids.len() {
                    out.push("K".into());
                    continue;
                }
                let id = ids[i];
                let r = std::panic::catch_unwind(std::panic::AssertUnwindSafe(|| mgr.get_span(id)));
                match r {
                    Ok((rc, ra, rb)) => {
                        let rci = ctxs.iter().position(|x| *x == rc).map(|p| p as u64).unwrap_or(u64::MAX);
                        out.push(format!("t{:x},{:x},{:x}", rci, ra, rb));
                    }
                    Err(_) => out.push("P".into()),
                }
            }
            _ => out.push("?".into()),
        }
    }
    out.join(";")
}
