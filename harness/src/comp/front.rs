//! front: the front half of the pipeline on one source text, through the public API.
//! args[0] = what: `lex0` (lex_to_eof(false)), `lex1` (lex_to_eof(true)), `parse`, `load`
//! args[1] = source bytes (hex, comma separated)
//! output:
//!   lex*  : OK <TAB> <tokens>          | ERR <TAB> LEX <TAB> <variant> <TAB> <start:end> <TAB> D=<debug cps>
//!   parse : OK <TAB> <tokens> <TAB> <ast> | (lex error as above) |
//!           ERR <TAB> PARSE <TAB> <start:end> <TAB> <expected set, sorted, ','> <TAB> <instead> <TAB> TOK=<tokens>
//!   load  : OK <TAB> <tokens> <TAB> <ast>  | ERR ... | ERR <TAB> ANALYZE <TAB> <variant> <TAB> <spans ';'> <TAB> <name cps or -> <TAB> TOK=<tokens> <TAB> AST=<ast>
use crate::astdump::{s, Dump};
use crate::comp::eval::{analyze_error_spans, lex_error_span, variant_name};
use crate::wire::*;
use rsjsonnet_lang::arena::Arena;
use rsjsonnet_lang::interner::StrInterner;
use rsjsonnet_lang::lexer::Lexer;
use rsjsonnet_lang::parser::{ActualToken, ExpectedToken, ParseError, Parser};
use rsjsonnet_lang::program::{AnalyzeError, LoadError, Program};
use rsjsonnet_lang::span::SpanManager;

fn expected_name(e: &ExpectedToken) -> String {
    match e {
        ExpectedToken::EndOfFile => "EndOfFile".into(),
        ExpectedToken::Simple(k) => format!("S{k:?}"),
        ExpectedToken::Ident => "Ident".into(),
        ExpectedToken::Number => "Number".into(),
        ExpectedToken::String => "String".into(),
        ExpectedToken::TextBlock => "TextBlock".into(),
        ExpectedToken::Expr => "Expr".into(),
        ExpectedToken::BinaryOp => "BinaryOp".into(),
    }
}

fn actual_name(a: &ActualToken) -> String {
    match a {
        ActualToken::EndOfFile => "EndOfFile".into(),
        ActualToken::Simple(k) => format!("S{k:?}"),
        ActualToken::OtherOp(op) => format!("Op:{}", s(op)),
        ActualToken::Ident(i) => format!("Id:{}", s(i)),
        ActualToken::Number => "Number".into(),
        ActualToken::String => "String".into(),
        ActualToken::TextBlock => "TextBlock".into(),
    }
}

pub fn handle(args: &[String]) -> String {
    let what = args[0].as_str();
    let src = bytes(&args[1]);
    let arena = Arena::new();
    let ast_arena = Arena::new();
    let interner = StrInterner::new();
    let mut mgr = SpanManager::new();
    let (ctx, _) = mgr.insert_source_context(src.len());

    let keep_ws = what == "lex1";
    let lexer = Lexer::new(&arena, &ast_arena, &interner, &mut mgr, ctx, &src);
    let tokens = match lexer.lex_to_eof(keep_ws) {
        Ok(t) => t,
        Err(e) => {
            let d = Dump { mgr: &mgr };
            let dbg = format!("{e:?}");
            return format!("ERR\tLEX\t{}\t{}\tD={}", variant_name(&dbg), d.sp(lex_error_span(&e)), string_out(&dbg));
        }
    };
    let toks_text = Dump { mgr: &mgr }.tokens(&tokens);
    if what == "lex0" || what == "lex1" {
        return format!("OK\t{toks_text}");
    }
    let parser = Parser::new(&arena, &ast_arena, &interner, &mut mgr, tokens);
    let root = match parser.parse_root_expr() {
        Ok(r) => r,
        Err(ParseError::Expected { span, expected, instead }) => {
            let d = Dump { mgr: &mgr };
            let mut ex: Vec<String> = expected.iter().map(expected_name).collect();
            ex.sort();
            return format!("ERR\tPARSE\t{}\t{}\t{}\tTOK={}", d.sp(span), ex.join(","), actual_name(&instead), toks_text);
        }
    };
    let ast_text = Dump { mgr: &mgr }.expr(&root);
    if what == "parse" {
        return format!("OK\t{toks_text}\t{ast_text}");
    }
    // load: the analyzer is only reachable through Program::load_source (std in scope)
    let parena = Arena::new();
    let mut program = Program::new(&parena);
    let (pctx, _) = program.span_manager_mut().insert_source_context(src.len());
    match program.load_source(pctx, &src, true, "<main>") {
        Ok(_) => format!("OK\t{toks_text}\t{ast_text}"),
        Err(LoadError::Analyze(e)) => {
            let dbg = format!("{e:?}");
            let spans: Vec<String> = analyze_error_spans(&e)
                .into_iter()
                .map(|sp| {
                    let (_, a, b) = program.span_manager().get_span(sp);
                    format!("{a:x}:{b:x}")
                })
                .collect();
            let name = match &e {
                AnalyzeError::UnknownVariable { name, .. }
                | AnalyzeError::RepeatedLocalName { name, .. }
                | AnalyzeError::RepeatedFieldName { name, .. }
                | AnalyzeError::RepeatedParamName { name, .. } => s(name),
                _ => "-".into(),
            };
            format!("ERR\tANALYZE\t{}\t{}\t{}\tTOK={}\tAST={}", variant_name(&dbg), spans.join(";"), name, toks_text, ast_text)
        }
        Err(e) => format!("ERR\tINCONSISTENT\t{}", string_out(&format!("{e:?}"))),
    }
}
