//! eval: whole-pipeline run of one program through the public library API
//! (load_source -> eval_value -> manifest_json), the general work-horse of
//! most property checks (builtins are reached by evaluating `std.f(args)`).
//!
//! args[0] = options `k=v` separated by ';'
//!             stack=<hex>      max stack (default 500)
//!             ml=0|1           multiline manifestation (default 0)
//!             gc=<hex>         (hook) collect on every n-th maybe_gc call; 0 = default heuristic
//!             str=1            expect a string result and return it raw (like -S)
//!             ext=<name>:<s|c>:<bytes hex dotted>[|...]   ext vars (string / code)
//!             imp=<path>:<bytes hex dotted>[|...]         virtual files served to import/importstr/importbin
//! args[1] = source bytes (hex, comma separated)
//!
//! output:  OK  <TAB> <manifested text as code points> <TAB> T=<trace messages, each as code points, '/' separated>
//!          ERR <TAB> <LEX|PARSE|ANALYZE|EVAL> <TAB> <variant> <TAB> <user message code points or '-'>
//!              <TAB> S=<ctx:start:end:srclen list ';' (primary first)> <TAB> T=<...> <TAB> D=<debug text as code points>
use crate::wire::*;
use rsjsonnet_lang::arena::Arena;
use rsjsonnet_lang::interner::InternedStr;
use rsjsonnet_lang::lexer::LexError;
use rsjsonnet_lang::parser::ParseError;
use rsjsonnet_lang::program::{
    AnalyzeError, EvalError, EvalErrorKind, EvalStackTraceItem, ImportError, LoadError,
    NativeError, Program, Thunk, Value,
};
use rsjsonnet_lang::span::{SpanContextId, SpanId};
use std::collections::HashMap;

pub struct Opts {
    pub stack: Option<usize>,
    pub ml: bool,
    pub gc: usize,
    pub as_str: bool,
    pub ext: Vec<(String, bool, Vec<u8>)>,
    pub imp: HashMap<String, Vec<u8>>,
}

fn dotted_bytes(s: &str) -> Vec<u8> {
    if s.is_empty() {
        Vec::new()
    } else {
        s.split('.').map(|b| u8::from_str_radix(b, 16).expect("bad byte")).collect()
    }
}

pub fn parse_opts(s: &str) -> Opts {
    let mut o = Opts { stack: None, ml: false, gc: 0, as_str: false, ext: Vec::new(), imp: HashMap::new() };
    for kv in s.split(';').filter(|x| !x.is_empty()) {
        let (k, v) = kv.split_once('=').unwrap_or((kv, ""));
        match k {
            "stack" => o.stack = Some(hex_usize(v)),
            "ml" => o.ml = v == "1",
            "gc" => o.gc = hex_usize(v),
            "str" => o.as_str = v == "1",
            "ext" => {
                for e in v.split('|').filter(|x| !x.is_empty()) {
                    let parts: Vec<&str> = e.splitn(3, ':').collect();
                    o.ext.push((
                        String::from_utf8_lossy(&dotted_bytes(parts[0])).into_owned(),
                        parts[1] == "c",
                        dotted_bytes(parts.get(2).copied().unwrap_or("")),
                    ));
                }
            }
            "imp" => {
                for e in v.split('|').filter(|x| !x.is_empty()) {
                    let parts: Vec<&str> = e.splitn(2, ':').collect();
                    o.imp.insert(
                        String::from_utf8_lossy(&dotted_bytes(parts[0])).into_owned(),
                        dotted_bytes(parts.get(1).copied().unwrap_or("")),
                    );
                }
            }
            _ => {}
        }
    }
    o
}

pub struct Cb<'a> {
    pub traces: Vec<String>,
    pub imp: &'a HashMap<String, Vec<u8>>,
    pub loaded: HashMap<String, (SpanContextId, usize)>,
    pub srclens: Vec<(SpanContextId, usize)>,
}

impl<'p, 'a> rsjsonnet_lang::program::Callbacks<'p> for Cb<'a> {
    fn import(&mut self, program: &mut Program<'p>, _from: SpanId, path: &str) -> Result<Thunk<'p>, ImportError> {
        let data = self.imp.get(path).ok_or(ImportError)?.clone();
        let (ctx, _) = program.span_manager_mut().insert_source_context(data.len());
        self.srclens.push((ctx, data.len()));
        program.load_source(ctx, &data, true, path).map_err(|_| ImportError)
    }
    fn import_str(&mut self, _program: &mut Program<'p>, _from: SpanId, path: &str) -> Result<String, ImportError> {
        let data = self.imp.get(path).ok_or(ImportError)?;
        Ok(String::from_utf8_lossy(data).into_owned())
    }
    fn import_bin(&mut self, _program: &mut Program<'p>, _from: SpanId, path: &str) -> Result<Vec<u8>, ImportError> {
        self.imp.get(path).cloned().ok_or(ImportError)
    }
    fn trace(&mut self, _program: &mut Program<'p>, message: &str, _stack: &[EvalStackTraceItem]) {
        self.traces.push(message.to_string());
    }
    fn native_call(&mut self, _program: &mut Program<'p>, _name: InternedStr<'p>, _args: &[Value<'p>]) -> Result<Value<'p>, NativeError> {
        Err(NativeError)
    }
}

pub fn variant_name(dbg: &str) -> String {
    dbg.chars().take_while(|c| c.is_alphanumeric() || *c == '_').collect()
}

pub fn lex_error_span(e: &LexError) -> SpanId {
    match *e {
        LexError::InvalidChar { span, .. }
        | LexError::InvalidUtf8 { span, .. }
        | LexError::UnfinishedMultilineComment { span }
        | LexError::LeadingZeroInNumber { span }
        | LexError::MissingFracDigits { span }
        | LexError::MissingExpDigits { span }
        | LexError::MissingDigitAfterUnderscore { span }
        | LexError::ExpOverflow { span }
        | LexError::InvalidEscapeInString { span, .. }
        | LexError::IncompleteUnicodeEscape { span }
        | LexError::InvalidUtf16EscapeSequence { span, .. }
        | LexError::UnfinishedString { span }
        | LexError::MissingLineBreakAfterTextBlockStart { span }
        | LexError::MissingWhitespaceTextBlockStart { span }
        | LexError::InvalidTextBlockTermination { span } => span,
    }
}

pub fn parse_error_span(e: &ParseError) -> SpanId {
    match *e {
        ParseError::Expected { span, .. } => span,
    }
}

pub fn analyze_error_spans(e: &AnalyzeError) -> Vec<SpanId> {
    match *e {
        AnalyzeError::UnknownVariable { span, .. } => vec![span],
        AnalyzeError::SelfOutsideObject { self_span } => vec![self_span],
        AnalyzeError::SuperOutsideObject { super_span } => vec![super_span],
        AnalyzeError::DollarOutsideObject { dollar_span } => vec![dollar_span],
        AnalyzeError::RepeatedLocalName { original_span, repeated_span, .. }
        | AnalyzeError::RepeatedFieldName { original_span, repeated_span, .. }
        | AnalyzeError::RepeatedParamName { original_span, repeated_span, .. } => vec![repeated_span, original_span],
        AnalyzeError::PositionalArgAfterNamed { arg_span } => vec![arg_span],
        AnalyzeError::TextBlockAsImportPath { span } => vec![span],
        AnalyzeError::ComputedImportPath { span } => vec![span],
    }
}

pub fn eval_kind_span(k: &EvalErrorKind) -> Option<SpanId> {
    use EvalErrorKind::*;
    match *k {
        InvalidIndexedType { span, .. }
        | InvalidSlicedType { span, .. }
        | SliceIndexOrStepIsNotNumber { span, .. }
        | StringIndexIsNotNumber { span, .. }
        | ArrayIndexIsNotNumber { span, .. }
        | NumericIndexIsNotValid { span, .. }
        | NumericIndexOutOfRange { span, .. }
        | ObjectIndexIsNotString { span, .. }
        | RepeatedFieldName { span, .. }
        | FieldNameIsNotString { span, .. }
        | UnknownObjectField { span, .. }
        | FieldOfNonObject { span }
        | SuperWithoutSuperObject { span }
        | ForSpecValueIsNotArray { span, .. }
        | CondIsNotBool { span, .. }
        | InvalidUnaryOpType { span, .. }
        | AssertFailed { span, .. }
        | ExplicitError { span, .. }
        | ImportFailed { span, .. } => Some(span),
        CalleeIsNotFunction { span, .. }
        | TooManyCallArgs { span, .. }
        | UnknownCallParam { span, .. }
        | RepeatedCallParam { span, .. }
        | CallParamNotBound { span, .. }
        | InvalidBinaryOpTypes { span, .. }
        | NumberNotBitwiseSafe { span }
        | NumberOverflow { span }
        | NumberNan { span }
        | DivByZero { span }
        | ShiftByNegative { span }
        | Other { span, .. } => span,
        _ => None,
    }
}

pub fn trace_item_span(i: &EvalStackTraceItem) -> Option<SpanId> {
    match *i {
        EvalStackTraceItem::Expr { span } => Some(span),
        EvalStackTraceItem::Call { span, .. } => span,
        EvalStackTraceItem::Variable { span, .. } => Some(span),
        EvalStackTraceItem::ArrayItem { span, .. } => span,
        EvalStackTraceItem::ObjectField { span, .. } => span,
        EvalStackTraceItem::Import { span } => Some(span),
        _ => None,
    }
}

fn user_message(k: &EvalErrorKind) -> String {
    match k {
        EvalErrorKind::ExplicitError { message, .. } => string_out(message),
        EvalErrorKind::AssertFailed { message: Some(m), .. } => string_out(m),
        EvalErrorKind::AssertFailed { message: None, .. } => "-".into(),
        _ => "-".into(),
    }
}

fn traces_out(t: &[String]) -> String {
    format!("T={}", t.iter().map(|m| string_out(m)).collect::<Vec<_>>().join("/"))
}

pub struct SpanFmt<'a> {
    pub srclens: &'a [(SpanContextId, usize)],
}

impl SpanFmt<'_> {
    pub fn one(&self, program: &Program<'_>, s: SpanId) -> String {
        let (ctx, a, b) = program.span_manager().get_span(s);
        // context index: position among the contexts this run created (stdlib = "std")
        let (ci, len) = match self.srclens.iter().position(|(c, _)| *c == ctx) {
            Some(p) => (format!("{p:x}"), format!("{:x}", self.srclens[p].1)),
            None => ("std".to_string(), format!("{:x}", program.get_stdlib_source().1.len())),
        };
        format!("{ci}:{a:x}:{b:x}:{len}")
    }
}

pub fn eval_error_out(program: &Program<'_>, cb: &Cb<'_>, e: &EvalError) -> String {
    let fmt = SpanFmt { srclens: &cb.srclens };
    let dbg = format!("{:?}", e.kind);
    let mut spans: Vec<String> = Vec::new();
    if let Some(s) = eval_kind_span(&e.kind) {
        spans.push(fmt.one(program, s));
    } else {
        spans.push("-".into());
    }
    for it in e.stack_trace.iter() {
        if let Some(s) = trace_item_span(it) {
            spans.push(fmt.one(program, s));
        }
    }
    format!(
        "ERR\tEVAL\t{}\t{}\tS={}\t{}\tD={}\tN={:x}",
        variant_name(&dbg),
        user_message(&e.kind),
        spans.join(";"),
        traces_out(&cb.traces),
        string_out(&dbg),
        e.stack_trace.len()
    )
}

pub fn load_error_out(program: &Program<'_>, cb: &Cb<'_>, e: &LoadError) -> String {
    let fmt = SpanFmt { srclens: &cb.srclens };
    let (class, dbg, spans) = match e {
        LoadError::Lex(e) => ("LEX", format!("{e:?}"), vec![lex_error_span(e)]),
        LoadError::Parse(e) => ("PARSE", format!("{e:?}"), vec![parse_error_span(e)]),
        LoadError::Analyze(e) => ("ANALYZE", format!("{e:?}"), analyze_error_spans(e)),
    };
    let sp: Vec<String> = spans.into_iter().map(|s| fmt.one(program, s)).collect();
    format!(
        "ERR\t{class}\t{}\t-\tS={}\t{}\tD={}",
        variant_name(&dbg),
        sp.join(";"),
        traces_out(&cb.traces),
        string_out(&dbg)
    )
}

pub fn handle(args: &[String]) -> String {
    let opts = parse_opts(&args[0]);
    let src = bytes(&args[1]);
    let arena = Arena::new();
    let mut program = Program::new(&arena);
    if let Some(s) = opts.stack {
        program.set_max_stack(s);
    }
    #[cfg(rsjsonnet_verif)]
    {
        if opts.gc != 0 {
            program.verif_set_gc_period(opts.gc);
        }
    }
    let mut cb = Cb { traces: Vec::new(), imp: &opts.imp, loaded: HashMap::new(), srclens: Vec::new() };

    // ext vars
    for (name, is_code, data) in opts.ext.iter() {
        let thunk = if *is_code {
            let (ctx, _) = program.span_manager_mut().insert_source_context(data.len());
            cb.srclens.push((ctx, data.len()));
            match program.load_source(ctx, data, true, "<ext>") {
                Ok(t) => t,
                Err(e) => return load_error_out(&program, &cb, &e),
            }
        } else {
            let v = Value::string(&String::from_utf8_lossy(data));
            program.value_to_thunk(&v)
        };
        let n = program.intern_str(name);
        program.add_ext_var(n, &thunk);
    }

    let (ctx, _) = program.span_manager_mut().insert_source_context(src.len());
    cb.srclens.push((ctx, src.len()));
    let thunk = match program.load_source(ctx, &src, true, "<main>") {
        Ok(t) => t,
        Err(e) => return load_error_out(&program, &cb, &e),
    };
    let value = match program.eval_value(&thunk, &mut cb) {
        Ok(v) => v,
        Err(e) => return eval_error_out(&program, &cb, &e),
    };
    if opts.as_str {
        if let Some(s) = value.to_string() {
            return format!("OK\t{}\t{}", string_out(&s), traces_out(&cb.traces));
        }
        return format!("NOTSTR\t{}", traces_out(&cb.traces));
    }
    match program.manifest_json(&value, opts.ml) {
        Ok(s) => format!("OK\t{}\t{}", string_out(&s), traces_out(&cb.traces)),
        Err(e) => eval_error_out(&program, &cb, &e),
    }
}
