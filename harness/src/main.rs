//! impl_driver — runs the REAL rsjsonnet code on the cases the model runs.
//!
//! Line protocol (stdin):  <case-id> TAB <component> TAB <field> TAB <field> ...
//! Output (stdout):        <case-id> TAB <result fields...>
//! A panic inside a handler is caught and reported as `PANIC`.

mod wire;
mod astdump;
mod comp;

use std::io::{BufRead, Write};

thread_local! {
    static LAST_PANIC: std::cell::RefCell<String> = const { std::cell::RefCell::new(String::new()) };
}

fn main() {
    // keep panics quiet: they are an observable outcome here, not a crash.
    // With VERIF_PANIC_MSG=1 the answer is `PANIC <TAB> <message @ location>` instead of bare `PANIC`.
    let with_msg = std::env::var("VERIF_PANIC_MSG").map(|v| v == "1").unwrap_or(false);
    std::panic::set_hook(Box::new(|info| {
        let msg = if let Some(s) = info.payload().downcast_ref::<&str>() {
            s.to_string()
        } else if let Some(s) = info.payload().downcast_ref::<String>() {
            s.clone()
        } else {
            "?".to_string()
        };
        let loc = info.location().map(|l| format!("{}:{}", l.file(), l.line())).unwrap_or_default();
        LAST_PANIC.with(|c| *c.borrow_mut() = format!("{msg} @ {loc}").replace(['\t', '\n'], " "));
    }));
    let stdin = std::io::stdin();
    let stdout = std::io::stdout();
    let mut out = std::io::BufWriter::new(stdout.lock());
    for line in stdin.lock().lines() {
        let line = match line {
            Ok(l) => l,
            Err(_) => break,
        };
        if line.is_empty() {
            continue;
        }
        let fields: Vec<&str> = line.split('\t').collect();
        if fields.len() < 2 {
            continue;
        }
        let id = fields[0];
        let comp_name = fields[1];
        let args: Vec<String> = fields[2..].iter().map(|s| s.to_string()).collect();
        let comp_name_owned = comp_name.to_string();
        let res = std::panic::catch_unwind(move || comp::dispatch(&comp_name_owned, &args));
        let text = match res {
            Ok(Some(s)) => s,
            Ok(None) => format!("NOCOMP\t{comp_name}"),
            Err(_) => {
                if with_msg {
                    format!("PANIC\t{}", LAST_PANIC.with(|c| c.borrow().clone()))
                } else {
                    "PANIC".to_string()
                }
            }
        };
        let _ = writeln!(out, "{id}\t{text}");
    }
    let _ = out.flush();
}
