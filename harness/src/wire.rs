//! Shared wire helpers.  Integers travel as lower-case hex without prefix;
//! lists are comma separated ("" = empty list); strings are lists of code
//! points; byte strings are lists of bytes.
#![allow(dead_code)]

pub fn hex_u64(s: &str) -> u64 {
    u64::from_str_radix(s, 16).expect("bad hex u64")
}
pub fn hex_u128(s: &str) -> u128 {
    u128::from_str_radix(s, 16).expect("bad hex u128")
}
pub fn hex_usize(s: &str) -> usize {
    usize::from_str_radix(s, 16).expect("bad hex usize")
}
pub fn to_hex(n: u64) -> String {
    format!("{n:x}")
}
pub fn to_hex_usize(n: usize) -> String {
    format!("{n:x}")
}
/// signed integers: optional leading '-'
pub fn hex_i64(s: &str) -> i64 {
    if let Some(r) = s.strip_prefix('-') {
        -(i64::from_str_radix(r, 16).expect("bad hex i64"))
    } else {
        i64::from_str_radix(s, 16).expect("bad hex i64")
    }
}
pub fn list_hex_u64(s: &str) -> Vec<u64> {
    if s.is_empty() {
        Vec::new()
    } else {
        s.split(',').map(hex_u64).collect()
    }
}
pub fn bytes(s: &str) -> Vec<u8> {
    list_hex_u64(s).into_iter().map(|b| b as u8).collect()
}
pub fn bytes_out(b: &[u8]) -> String {
    b.iter().map(|x| format!("{x:x}")).collect::<Vec<_>>().join(",")
}
/// string from a list of code points (must be scalar values)
pub fn string(s: &str) -> String {
    list_hex_u64(s)
        .into_iter()
        .map(|c| char::from_u32(c as u32).expect("not a scalar value"))
        .collect()
}
pub fn string_out(s: &str) -> String {
    s.chars().map(|c| format!("{:x}", c as u32)).collect::<Vec<_>>().join(",")
}
/// a double as its 64-bit pattern
pub fn f64_in(s: &str) -> f64 {
    f64::from_bits(hex_u64(s))
}
pub fn f64_out(x: f64) -> String {
    format!("{:x}", x.to_bits())
}
