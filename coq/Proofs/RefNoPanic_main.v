(* Proofs/RefNoPanic_main.v — C01: the reference interpreter never answers Panic, part 3:
   builtins (arity), calls, equality / ordering (partial_cmp), manifestation, the expression
   evaluator, the knot, and the theorem on programs.  After RefScope_main.v (C02). *)
From RJ Require Import Base.Outcome Base.F64 Model.Token Model.Ast Model.RefCore Model.RefValue Model.RefEval.
From RJ Require Import Proofs.RefScope_defs Proofs.RefNoPanic_defs Proofs.RefNoPanic_proofs.
From Coq Require Import Lia.
Local Open Scope N_scope.

Lemma Forall_concat_const {A} (P : A -> Prop) (l : list A) {B} (ns : list B) :
  Forall P l -> Forall P (concat (map (fun _ => l) ns)).
Proof. intros H. apply Forall_concat. apply Forall_map_intro. intros; exact H. Qed.

Lemma safe_all_m d : forall items, Forall nv_thunk items -> safe nv_value (all_m items d).
Proof.
  induction items as [|it r IH]; intros Hi; simpl; [apply safe_ret; constructor|]. inversion Hi; subst.
  eapply safe_bind; [apply safe_forceT; assumption|]. intros v Hv. destruct v; try apply safe_kind.
  destruct b; [apply IH; assumption | apply safe_ret; constructor].
Qed.
Lemma safe_any_m d : forall items, Forall nv_thunk items -> safe nv_value (any_m items d).
Proof.
  induction items as [|it r IH]; intros Hi; simpl; [apply safe_ret; constructor|]. inversion Hi; subst.
  eapply safe_bind; [apply safe_forceT; assumption|]. intros v Hv. destruct v; try apply safe_kind.
  destruct b; [apply safe_ret; constructor | apply IH; assumption].
Qed.
Lemma safe_sum_m d : forall items acc, Forall nv_thunk items -> safe nv_value (sum_m items acc d).
Proof.
  induction items as [|it r IH]; intros acc Hi; simpl; [apply safe_check_num|]. inversion Hi; subst.
  eapply safe_bind; [apply safe_forceT; assumption|]. intros v Hv. destruct v; try apply safe_kind. apply IH; assumption.
Qed.
Lemma safe_flatten_m d : forall items acc, Forall nv_thunk items -> Forall nv_thunk acc -> safe nv_value (flatten_m items acc d).
Proof.
  induction items as [|it r IH]; intros acc Hi Ha; simpl; [apply safe_ret; constructor; exact Ha|]. inversion Hi; subst.
  eapply safe_bind; [apply safe_forceT; assumption|]. intros v Hv. destruct v; try apply safe_kind. inversion Hv; subst.
  apply IH; [assumption | apply Forall_app_intro; assumption].
Qed.
Lemma safe_contains_m x d : nv_value x -> forall items, Forall nv_thunk items -> safe nv_value (contains_m x items d).
Proof.
  intros Hx. induction items as [|it r IH]; intros Hi; simpl; [apply safe_ret; constructor|]. inversion Hi; subst.
  eapply safe_bind; [apply safe_forceT; assumption|]. intros vi Hvi.
  eapply safe_bind; [apply safe_equals; assumption|]. intros e _. destruct e; [apply safe_ret; constructor | apply IH; assumption].
Qed.
Lemma safe_count_m x d : nv_value x -> forall items n, Forall nv_thunk items -> safe nv_value (count_m x items n d).
Proof.
  intros Hx. induction items as [|it r IH]; intros n Hi; simpl; [apply safe_ret; constructor; apply nn_f_of_N|]. inversion Hi; subst.
  eapply safe_bind; [apply safe_forceT; assumption|]. intros vi Hvi.
  eapply safe_bind; [apply safe_equals; assumption|]. intros e _. apply IH; assumption.
Qed.
Lemma char_thunks_nv s : Forall nv_thunk (char_thunks s).
Proof. unfold char_thunks. apply Forall_map_intro. intros. repeat constructor. Qed.
Lemma combine_in_r {A B} : forall (l1 : list A) (l2 : list B) p, In p (combine l1 l2) -> In (snd p) l2.
Proof.
  induction l1 as [|a r IH]; intros l2 p H; simpl in H; [destruct H|]. destruct l2 as [|b r2]; [destruct H|].
  destruct H as [<- | H]; [left; reflexivity | right; apply IH; exact H].
Qed.
#[export] Hint Resolve safe_all_m safe_any_m safe_sum_m safe_flatten_m safe_contains_m safe_count_m char_thunks_nv : safe.
#[export] Hint Resolve char_thunks_nv : nv.

Ltac down := repeat match goal with
  | |- safe _ (match ?x with _ => _ end) => first [is_var x; destruct x | destruct x eqn:?]
  | |- safe _ (if ?b then _ else _) => destruct b eqn:?
  end.
Ltac fin :=
  try solve [safe_tac];
  try solve [nv_inv; apply safe_foldr_m; auto; apply Forall_rev; assumption];
  try solve [nv_inv; apply safe_ret; constructor; first [ apply char_thunks_nv | apply Forall_rev; assumption ]];
  try solve [nv_inv; apply safe_ret; constructor; apply Forall_map_intro; intros p Hp; apply combine_in_r in Hp;
             constructor; [assumption|]; constructor; [repeat constructor; apply nn_f_of_N|]; constructor; [|constructor];
             first [ match goal with H : Forall _ ?l |- _ => rewrite Forall_forall in H; apply H; exact Hp end
                   | match goal with Hq : In _ (char_thunks ?s) |- _ => pose proof (char_thunks_nv s) as Hc; rewrite Forall_forall in Hc; apply Hc; exact Hq end ]];
  try solve [nv_inv; apply safe_ret; constructor;
             first [ apply Forall_concat_const; assumption
                   | apply Forall_map_intro; intros; repeat constructor; auto with nv;
                     match goal with H : Forall _ ?l, H1 : In _ ?l |- _ => rewrite Forall_forall in H; apply H; exact H1 end
                   | constructor ] ].

(* the RefEval:call_builtin:arity sites are unreachable when the argument list has the length of
   the builtin's parameter list — which is how do_apply calls it *)
Lemma safe_call_builtin bi args d :
  Forall nv_thunk args -> length args = length (builtin_params bi) -> safe nv_value (call_builtin bi args d).
Proof.
  intros Ha Hlen. unfold call_builtin.
  destruct args as [|a0 [|a1 [|a2 [|a3 [|a4 r]]]]]; nv_inv.
  all: destruct bi; try (exfalso; vm_compute in Hlen; discriminate Hlen); cbv beta iota.
  all: repeat (eapply safe_bind; [apply safe_forceT; assumption|]; intros ? ?).
  all: try solve [safe_tac].
  all: down; fin.
Qed.

(* ---- parameter binding keeps thunks NaN-free and binds every parameter ---- *)
Lemma bind_positional_nv : forall ps pos b rest,
  bind_positional ps pos = Some (b, rest) -> Forall nv_thunk pos ->
  nv_vars b /\ (forall p, In p rest -> In p ps).
Proof.
  intros ps pos. revert ps. induction pos as [|t pr IH]; intros ps b rest H Hp.
  - destruct ps; simpl in H; injection H as <- <-; split; auto; constructor.
  - destruct ps as [|[x d] psr]; simpl in H; [discriminate|].
    destruct (bind_positional psr pr) as [[b' rest']|] eqn:E; [|discriminate].
    injection H as <- <-. inversion Hp; subst. destruct (IH _ _ _ E H2) as [Hb Hr]. split.
    + constructor; assumption.
    + intros p Hin. right. auto.
Qed.

Lemma fill_rest_nv : forall rest named b ds,
  fill_rest rest named = Ok (b, ds) -> nv_vars named ->
  nv_vars b /\ (forall x de, In (x, de) ds -> In (x, Some de) rest).
Proof.
  induction rest as [|[x0 d] r IH]; intros named b ds H Hn; simpl in H.
  - injection H as <- <-. split; [constructor | intros ? ? []].
  - destruct (fill_rest r named) as [[b' ds'] | e | s |] eqn:E; try discriminate.
    destruct (IH _ _ _ E Hn) as [Hb Hd].
    destruct (assoc x0 named) as [t|] eqn:En.
    + injection H as <- <-. split.
      * constructor; [|exact Hb]. simpl. apply in_assoc_in in En. unfold nv_vars in Hn. rewrite Forall_forall in Hn. apply (Hn _ En).
      * intros x de Hin. right. auto.
    + destruct d as [de0|]; [|discriminate]. injection H as <- <-. split; [exact Hb|].
      intros x de [Hin | Hin]; [injection Hin as <- <-; left; reflexivity | right; auto].
Qed.

(* bind_args is a pure function: its failures are diagnosed errors *)
Lemma fill_rest_no_panic : forall rest named s, fill_rest rest named <> Panic s.
Proof.
  induction rest as [|[x0 d] r IH]; intros named s H; simpl in H; [discriminate|].
  destruct (fill_rest r named) as [[b' ds'] | e' | s' |] eqn:E; try discriminate.
  - destruct (assoc x0 named); [discriminate|]. destruct d; discriminate.
  - injection H as ->. eapply IH; eassumption.
Qed.

Lemma safe_bind_args ps pos named :
  safe (fun r => bind_args ps pos named = Ok r) (lift (bind_args ps pos named)).
Proof.
  intros c r _. unfold okres, lift. simpl. destruct (bind_args ps pos named) as [a | e | s |] eqn:E; auto.
  unfold bind_args in E. destruct (bind_positional ps pos) as [[bpos rest]|]; [|discriminate].
  destruct (check_named rest bpos named []) as [e'|] eqn:Ec; [discriminate|].
  destruct (fill_rest rest named) as [[b ds] | e' | s' |] eqn:Ef; try discriminate.
  injection E as ->. eapply fill_rest_no_panic; eassumption.
Qed.

Lemma bind_args_nv : forall ps pos named b ds,
  bind_args ps pos named = Ok (b, ds) -> Forall nv_thunk pos -> nv_vars named ->
  nv_vars b /\ (forall x de, In (x, de) ds -> In (x, Some de) ps).
Proof.
  intros ps pos named b ds H Hp Hn. unfold bind_args in H.
  destruct (bind_positional ps pos) as [[bpos rest]|] eqn:Ep; [|discriminate].
  destruct (check_named rest bpos named []); [discriminate|].
  destruct (fill_rest rest named) as [[b' ds'] | e | s |] eqn:Ef; try discriminate.
  injection H as <- <-. destruct (bind_positional_nv _ _ _ _ Ep Hp) as [Hb1 Hr]. destruct (fill_rest_nv _ _ _ _ Ef Hn) as [Hb2 Hd].
  split.
  - apply Forall_app_intro; assumption.
  - intros x de Hin. apply Hr. apply Hd. exact Hin.
Qed.

Lemma arg_thunks_nv ps fr : nv_env fr -> Forall nv_thunk (arg_thunks ps fr).
Proof.
  intros Hf. unfold arg_thunks. induction ps as [|p r IH]; simpl; [constructor|].
  apply Forall_app_intro; [|exact IH]. destruct (lookup_var (fst p) fr) eqn:E; [|constructor].
  constructor; [eapply lookup_var_nv; eassumption | constructor].
Qed.

Lemma arg_thunks_length ps fr :
  (forall x, In x (map fst ps) -> lookup_var x fr <> None) -> length (arg_thunks ps fr) = length ps.
Proof.
  unfold arg_thunks. induction ps as [|p r IH]; intros H; simpl; [reflexivity|].
  rewrite app_length, IH by (intros x Hx; apply H; right; exact Hx).
  destruct (lookup_var (fst p) fr) eqn:E; [reflexivity|]. exfalso. apply (H (fst p)); [left; reflexivity|exact E].
Qed.

(* a builtin has no default arguments: binding leaves nothing to fill in *)
Lemma builtin_params_no_default bi : forall x de, ~ In (x, Some de) (builtin_params bi).
Proof.
  intros x de H. unfold builtin_params in H. destruct (find _ builtin_table) as [r|]; [|exact H].
  apply in_map_iff in H. destruct H as (p & Hp & _). discriminate Hp.
Qed.

Lemma safe_force_args ts d : Forall nv_thunk ts -> safe any (force_args ts d).
Proof.
  intros H. unfold force_args. apply safe_iterM. intros t Ht. rewrite Forall_forall in H. specialize (H t Ht).
  eapply safe_bind; [apply safe_enter|]. intros d' _. eapply safe_bind; [apply safe_forceT; exact H|]. intros. apply safe_ret_any.
Qed.
#[export] Hint Resolve safe_force_args : safe.

Lemma safe_do_apply fv pos named force d :
  nv_value fv -> Forall nv_thunk pos -> nv_vars named -> safe nv_value (do_apply fv pos named force d).
Proof.
  intros Hf Hp Hn. unfold do_apply. destruct fv; try solve [safe_tac].
  - inversion Hf as [| | | | | | ? ? ? He |]; subst.
    eapply safe_bind; [apply safe_bind_args|]. intros [b ds] Hb.
    destruct (bind_args_nv _ _ _ _ _ Hb Hp Hn) as (Hwb & _).
    assert (Hfr : nv_env (FVars b ds :: env)) by (constructor; assumption).
    eapply safe_bind with (Q := any).
    { destruct force; [apply safe_force_args; apply arg_thunks_nv; exact Hfr | apply safe_ret_any]. }
    intros _ _. eapply safe_bind; [apply safe_enter|]. intros d' _. apply safe_eval. exact Hfr.
  - eapply safe_bind; [apply safe_bind_args|]. intros [bb ds] Hb.
    destruct (bind_args_nv _ _ _ _ _ Hb Hp Hn) as (Hwb & Hds).
    assert (Hnil : ds = []).
    { destruct ds as [|[x de] r]; [reflexivity|]. exfalso. eapply builtin_params_no_default. apply Hds. left. reflexivity. }
    subst ds.
    eapply safe_bind; [apply safe_enter|]. intros d' _. apply safe_call_builtin.
    + apply arg_thunks_nv. constructor; [exact Hwb | constructor].
    + apply arg_thunks_length. apply (proj1 (RefSem_params.defaults_see_all_params _ _ _ _ _ [] Hb)).
Qed.
#[export] Hint Resolve safe_do_apply : safe.

(* ---- equality, ordering, manifestation ---- *)
Lemma safe_eq_items d : forall a b, Forall nv_thunk a -> Forall nv_thunk b -> safe any (eq_items a b d).
Proof.
  induction a as [|x ra IH]; intros b Ha Hb; simpl; [apply safe_ret_any|].
  destruct b as [|y rb]; [apply safe_ret_any|]. inversion Ha; inversion Hb; subst.
  eapply safe_bind; [apply safe_enter|]. intros d' _.
  eapply safe_bind; [apply safe_forceT; assumption|]. intros vx Hvx.
  eapply safe_bind; [apply safe_forceT; assumption|]. intros vy Hvy.
  eapply safe_bind; [apply safe_equals; assumption|]. intros e _.
  destruct e; [apply IH; assumption | apply safe_ret_any].
Qed.

Lemma safe_eq_fields la lb d : nv_layers la -> nv_layers lb -> forall names, safe any (eq_fields la lb names d).
Proof.
  intros Ha Hb. induction names as [|n r IH]; simpl; [apply safe_ret_any|].
  eapply safe_bind; [apply safe_enter|]. intros d' _.
  eapply safe_bind; [apply safe_field_at; assumption|]. intros vx Hvx.
  eapply safe_bind; [apply safe_field_at; assumption|]. intros vy Hvy.
  eapply safe_bind; [apply safe_equals; assumption|]. intros e _.
  destruct e; [apply IH | apply safe_ret_any].
Qed.

Lemma safe_cmp_items d : forall a b, Forall nv_thunk a -> Forall nv_thunk b -> safe any (cmp_items a b d).
Proof.
  induction a as [|x ra IH]; intros b Ha Hb; simpl.
  - destruct b; apply safe_ret_any.
  - destruct b as [|y rb]; [apply safe_ret_any|]. inversion Ha; inversion Hb; subst.
    eapply safe_bind; [apply safe_enter|]. intros d' _.
    eapply safe_bind; [apply safe_forceT; assumption|]. intros vx Hvx.
    eapply safe_bind; [apply safe_forceT; assumption|]. intros vy Hvy.
    eapply safe_bind; [apply safe_compare; assumption|]. intros c _.
    destruct c; [apply IH; assumption | apply safe_ret_any | apply safe_ret_any].
Qed.
#[export] Hint Resolve safe_eq_items safe_eq_fields safe_cmp_items : safe.

Lemma safe_do_equals a b d : nv_value a -> nv_value b -> safe any (do_equals a b d).
Proof.
  intros Ha Hb. unfold do_equals. destruct a, b; try solve [safe_any]; inversion Ha; inversion Hb; subst.
  - destruct (lenN items =? lenN items0); [apply safe_eq_items; assumption | apply safe_ret_any].
  - destruct (list_str_eqb (visible_names layers) (visible_names layers0)); [|apply safe_ret_any].
    destruct (visible_names layers); [apply safe_ret_any|].
    eapply safe_bind; [apply safe_run_asserts; assumption|]. intros _ _.
    eapply safe_bind; [apply safe_run_asserts; assumption|]. intros _ _.
    apply safe_eq_fields; assumption.
Qed.

(* the partial_cmp().unwrap() site is unreachable: no number value is a NaN *)
Lemma safe_do_compare a b d : nv_value a -> nv_value b -> safe any (do_compare a b d).
Proof.
  intros Ha Hb. unfold do_compare. destruct a, b; try solve [safe_any]; inversion Ha; inversion Hb; subst.
  - destruct (f_compare f f0) eqn:E; [apply safe_ret_any|]. exfalso. eapply (nn_compare f f0); eassumption.
  - apply safe_cmp_items; assumption.
Qed.

Lemma safe_do_manifest s v d : nv_value v -> safe any (do_manifest s v d).
Proof.
  intros Hv. unfold do_manifest. destruct v; try solve [safe_any]; inversion Hv; subst.
  - eapply safe_bind with (Q := Forall any); [|intros; apply safe_ret_any].
    apply safe_mapM. intros t Ht. rewrite Forall_forall in H0. specialize (H0 t Ht).
    eapply safe_bind; [apply safe_enter|]. intros d' _.
    eapply safe_bind; [apply safe_forceT; assumption|]. intros x Hx. apply safe_manifest. assumption.
  - eapply safe_bind; [apply safe_run_asserts; assumption|]. intros _ _.
    eapply safe_bind with (Q := Forall any); [|intros; apply safe_ret_any].
    apply safe_mapM. intros n Hn.
    eapply safe_bind; [apply safe_enter|]. intros d' _.
    eapply safe_bind; [apply safe_field_at; assumption|]. intros x Hx.
    eapply safe_bind; [apply safe_manifest; assumption|]. intros j _. apply safe_ret_any.
Qed.

Lemma safe_cond_bool v : safe any (cond_bool v).
Proof. unfold cond_bool. destruct v; safe_any. Qed.
#[export] Hint Resolve safe_do_equals safe_do_compare safe_do_manifest safe_cond_bool : safe.

(* ---- expressions ---- *)
Lemma nv_layer_object locals asserts fs en std :
  nv_env en -> Forall field_ok fs -> nv_layer (MkLayer locals asserts fs en std).
Proof. intros He Hf. constructor; assumption. Qed.

Lemma safe_do_eval en x d : nv_env en -> safe nv_value (do_eval en x d).
Proof.
  intros He. unfold do_eval. destruct x; try solve [safe_tac].
  - (* CSelf *)
    destruct (lookup_obj en) as [[[ls i] c]|] eqn:E; [|apply safe_fail]. apply safe_ret. constructor.
    eapply lookup_obj_nv; eassumption.
  - (* CVar *)
    destruct (lookup_var x en) as [t|] eqn:E; [|apply safe_fail].
    pose proof (lookup_var_nv _ _ _ He E). safe_tac.
  - (* CObject *)
    eapply safe_bind; [apply safe_build_fields; [exact He|constructor]|]. intros fs Hfs.
    apply safe_ret. constructor. constructor; [|constructor]. apply nv_layer_object; assumption.
  - (* CObjComp *)
    eapply safe_bind; [apply safe_comp_envs; exact He|]. intros envs Henvs.
    eapply safe_bind; [apply safe_build_comp_fields; [exact Henvs|constructor]|]. intros fs Hfs.
    apply safe_ret. constructor. constructor; [|constructor]. apply nv_layer_object; assumption.
  - (* CArray *)
    apply safe_ret. constructor. apply Forall_map_intro. intros e Hin. constructor. exact He.
  - (* CArrComp *)
    eapply safe_bind; [apply safe_comp_envs; exact He|]. intros envs Henvs.
    apply safe_ret. constructor. apply Forall_map_intro. intros e Hin.
    rewrite Forall_forall in Henvs. constructor. exact (Henvs e Hin).
  - (* CInSuper *)
    eapply safe_bind; [apply safe_eval; exact He|]. intros v Hv. destruct v; try solve [safe_tac].
    apply safe_with_super; auto. intros. apply safe_ret. constructor.
  - (* CCall *)
    eapply safe_bind; [apply safe_eval; assumption|]. intros fv Hfv. destruct (is_fun fv); [|safe_tac].
    eapply safe_bind; [apply safe_ask_ts_tail|]. intros ot _. apply safe_apply; [exact Hfv | |].
    + apply Forall_map_intro. intros e Hin. constructor. exact He.
    + unfold nv_vars. apply Forall_map_intro. intros p Hin. simpl. constructor. exact He.
  - (* CAssert *)
    eapply safe_bind; [apply safe_run_assert; assumption|]. intros _ _. apply safe_eval; assumption.
Qed.
#[export] Hint Resolve safe_do_eval : safe.

Lemma safe_do_force t d : nv_thunk t -> safe nv_value (do_force t d).
Proof. intros H. unfold do_force. destruct t; inversion H; subst; safe_tac. Qed.

Lemma safe_step_fn t d : nv_task t -> safe (kind_ok t) (step t d).
Proof.
  intros H. unfold step. destruct t; simpl in H; nv_inv.
  - eapply safe_bind; [apply safe_do_eval; assumption|]. intros r Hr. apply safe_ret. exact Hr.
  - eapply safe_bind; [apply safe_do_force; assumption|]. intros r Hr. apply safe_ret. exact Hr.
  - eapply safe_bind; [apply safe_do_apply; assumption|]. intros r Hr. apply safe_ret. exact Hr.
  - eapply safe_bind; [apply safe_do_field; assumption|]. intros r Hr. apply safe_ret. exact Hr.
  - eapply safe_bind; [apply safe_do_equals; assumption|]. intros r Hr. apply safe_ret. exact I.
  - eapply safe_bind; [apply safe_do_compare; assumption|]. intros r Hr. apply safe_ret. exact I.
  - eapply safe_bind; [apply safe_do_manifest; assumption|]. intros r Hr. apply safe_ret. exact I.
Qed.

Lemma run_task_ok : forall fuel c, rec_ok (run_task fuel c).
Proof.
  induction fuel as [|n IH]; intros c t d Ht.
  - exact I.
  - simpl. apply safe_step_fn; [exact Ht | apply IH].
Qed.

Lemma std_layer_nv : nv_layer std_layer.
Proof.
  unfold std_layer. constructor; [constructor|]. apply Forall_app_intro.
  - apply Forall_map_intro. intros r _ fe H. discriminate H.
  - apply Forall_map_intro. intros r _ fe H. discriminate H.
Qed.

Lemma init_env_nv : nv_env init_env.
Proof.
  unfold init_env. constructor; [|constructor]. constructor; [|constructor]. simpl.
  constructor. constructor. constructor; [apply std_layer_nv | constructor].
Qed.

Lemma safe_run_top x : safe any (run_top x).
Proof.
  unfold run_top.
  eapply safe_bind; [apply safe_eval; apply init_env_nv|]. intros v Hv.
  eapply safe_bind; [apply safe_manifest; exact Hv|]. intros j _.
  destruct (has_func j); [apply safe_kind | apply safe_ret_any].
Qed.

(* the reference interpreter never panics: on every core program, for every fuel, stack limit and
   setting of the two deviation switches — none of the sites RefEval:answer:value/bool/cmp/json,
   RefEval:do_field:layer, RefEval:call_builtin:arity, eval/mod.rs:CompareValue:partial_cmp().unwrap()
   is reachable *)
Theorem run_core_no_panic : forall x fuel c site, snd (run_core fuel c x) <> Panic site.
Proof.
  intros x fuel c site Hs. unfold run_core in Hs.
  pose proof (safe_run_top x c (run_task fuel c) (run_task_ok fuel c)) as H. unfold okres in H.
  rewrite Hs in H. exact H.
Qed.

Theorem run_no_panic : forall e fuel c site, snd (run fuel c e) <> Panic site.
Proof. intros e fuel c site. apply run_core_no_panic. Qed.
