(* Proofs/RefShift_proofs.v — C02/C10: depth-shift invariance of the reference interpreter: evaluating at
   depth d+1 under stack limit L+1 is evaluating at depth d under limit L (same trace, same result).
   One lemma per definition of RefEval.v, syntax directed ([sh_tac]). *)
From RJ Require Import Base.Outcome Base.F64 Model.Token Model.Ast Model.RefCore Model.RefValue Model.RefEval.
From RJ Require Import Proofs.RefSem_proofs Proofs.RefDead_proofs Proofs.RefDead_thm.
From Coq Require Import Lia.
Local Open Scope N_scope.

Definition cfgs (c c' : cfg) : Prop := c_limit c' = c_limit c + 1 /\ c_bfs c' = c_bfs c /\ c_ts_tail c' = c_ts_tail c.
Definition recs (r r' : recfn) : Prop := forall t d, r' t (d + 1) = r t d.
Definition sh {A} (R : A -> A -> Prop) (m m' : M A) : Prop :=
  forall c c' r r', cfgs c c' -> recs r r' -> rrel R (m c r) (m' c' r').
Definition succ_rel (a b : N) : Prop := b = a + 1.

Lemma sh_ret {A} (R : A -> A -> Prop) a a' : R a a' -> sh R (ret a) (ret a').
Proof. intros H c c' r r' _ _. split; [reflexivity | exact H]. Qed.
Lemma sh_ret_eq {A} (a : A) : sh eq (ret a) (ret a).
Proof. apply sh_ret. reflexivity. Qed.
Lemma sh_lift {A} (o : outcome A err) : sh eq (lift o) (lift o).
Proof. intros c c' r r' _ _. split; [reflexivity|]. unfold lift. simpl. destruct o; simpl; auto. Qed.
Lemma sh_fail {A} e : sh eq (@fail A e) (fail e). Proof. apply sh_lift. Qed.
Lemma sh_kind {A} s : sh eq (@kind A s) (kind s). Proof. apply sh_lift. Qed.
Lemma sh_unsupported {A} s : sh eq (@unsupported A s) (unsupported s). Proof. apply sh_lift. Qed.
Lemma sh_argtype {A} : sh eq (@argtype A) argtype. Proof. apply sh_lift. Qed.
Lemma sh_emit s : sh eq (emit s) (emit s).
Proof. intros c c' r r' _ _. split; reflexivity. Qed.
Lemma sh_ask_bfs : sh eq ask_bfs ask_bfs.
Proof. intros c c' r r' (_ & H & _) _. unfold ask_bfs. rewrite H. split; reflexivity. Qed.
Lemma sh_ask_ts_tail : sh eq ask_ts_tail ask_ts_tail.
Proof. intros c c' r r' (_ & _ & H) _. unfold ask_ts_tail. rewrite H. split; reflexivity. Qed.
Lemma sh_call t d : sh eq (call t d) (call t (d + 1)).
Proof.
  intros c c' r r' _ Hr. unfold call. rewrite Hr. split; [reflexivity|]. destruct (snd (r t d)); simpl; auto.
Qed.
Lemma sh_enter d : sh succ_rel (enter d) (enter (d + 1)).
Proof.
  intros c c' r r' (H & _) _. unfold enter. rewrite H.
  destruct (c_limit c <? d + 1) eqn:E.
  - assert (E2 : c_limit c + 1 <? d + 1 + 1 = true) by (apply N.ltb_lt; apply N.ltb_lt in E; lia). rewrite E2. split; reflexivity.
  - assert (E2 : c_limit c + 1 <? d + 1 + 1 = false) by (apply N.ltb_ge; apply N.ltb_ge in E; lia). rewrite E2. split; reflexivity.
Qed.

Lemma sh_bind {A B} (Q : A -> A -> Prop) (R : B -> B -> Prop) (m m' : M A) (k k' : A -> M B) :
  sh Q m m' -> (forall a a', Q a a' -> sh R (k a) (k' a')) -> sh R (bind m k) (bind m' k').
Proof.
  intros Hm Hk c c' r r' Hc Hr. specialize (Hm c c' r r' Hc Hr). unfold rrel, bind in *.
  destruct (m c r) as [t o]. destruct (m' c' r') as [t' o']. simpl in Hm. destruct Hm as [-> Ho].
  destruct o as [a | e | s |]; destruct o' as [a' | e' | s' |]; simpl in Ho; try contradiction.
  - specialize (Hk a a' Ho c c' r r' Hc Hr). unfold rrel in Hk. destruct (k a c r) as [t2 o2]. destruct (k' a' c' r') as [t2' o2'].
    simpl in *. destruct Hk as [-> Ho2]. split; [reflexivity | exact Ho2].
  - subst. split; reflexivity.
  - subst. split; reflexivity.
  - split; reflexivity.
Qed.

Lemma sh_mapM {A B} (f f' : A -> M B) l : (forall a, sh eq (f a) (f' a)) -> sh eq (mapM f l) (mapM f' l).
Proof.
  intros Hf. induction l as [|x r IH]; simpl; [apply sh_ret_eq|].
  eapply sh_bind; [apply Hf|]. intros y y' ->. eapply sh_bind; [apply IH|]. intros ys ys' ->. apply sh_ret_eq.
Qed.
Lemma sh_iterM {A} (f f' : A -> M unit) l : (forall a, sh eq (f a) (f' a)) -> sh eq (iterM f l) (iterM f' l).
Proof.
  intros Hf. induction l as [|x r IH]; simpl; [apply sh_ret_eq|].
  eapply sh_bind; [apply Hf|]. intros y y' ->. apply IH.
Qed.

Create HintDb sh discriminated.
#[export] Hint Resolve sh_ret_eq sh_lift sh_fail sh_kind sh_unsupported sh_argtype sh_emit sh_ask_bfs sh_ask_ts_tail sh_call sh_enter : sh.

Ltac sh_step :=
  match goal with
  | |- sh _ (bind _ _) (bind _ _) => eapply sh_bind
  | |- forall _ _, _ -> sh _ _ _ => intros ? ? ?; unfold succ_rel in *; subst
  | |- sh _ (mapM _ _) (mapM _ _) => apply sh_mapM; intros ?
  | |- sh _ (iterM _ _) (iterM _ _) => apply sh_iterM; intros ?
  | |- sh _ (match ?x with _ => _ end) (match ?x with _ => _ end) => destruct x
  | |- sh _ (if ?b then _ else _) (if ?b then _ else _) => destruct b
  | |- sh _ _ _ => solve [eauto with sh]
  end.
Ltac sh_tac := repeat sh_step.

Lemma sh_as_val a : sh eq (as_val a) (as_val a). Proof. unfold as_val. sh_tac. Qed.
Lemma sh_as_bool a : sh eq (as_bool a) (as_bool a). Proof. unfold as_bool. sh_tac. Qed.
Lemma sh_as_cmp a : sh eq (as_cmp a) (as_cmp a). Proof. unfold as_cmp. sh_tac. Qed.
Lemma sh_as_json a : sh eq (as_json a) (as_json a). Proof. unfold as_json. sh_tac. Qed.
#[export] Hint Resolve sh_as_val sh_as_bool sh_as_cmp sh_as_json : sh.

Lemma sh_eval e x d : sh eq (eval e x d) (eval e x (d + 1)). Proof. unfold eval. sh_tac. Qed.
Lemma sh_forceT t d : sh eq (forceT t d) (forceT t (d + 1)). Proof. unfold forceT. sh_tac. Qed.
Lemma sh_apply f p n b d : sh eq (apply f p n b d) (apply f p n b (d + 1)). Proof. unfold apply. sh_tac. Qed.
Lemma sh_applyf f p d : sh eq (applyf f p d) (applyf f p (d + 1)). Proof. unfold applyf. apply sh_apply. Qed.
Lemma sh_field_at ls f n d : sh eq (field_at ls f n d) (field_at ls f n (d + 1)). Proof. unfold field_at. sh_tac. Qed.
Lemma sh_equals a b d : sh eq (equals a b d) (equals a b (d + 1)). Proof. unfold equals. sh_tac. Qed.
Lemma sh_compare a b d : sh eq (compare a b d) (compare a b (d + 1)). Proof. unfold compare. sh_tac. Qed.
Lemma sh_manifest s v d : sh eq (manifest s v d) (manifest s v (d + 1)). Proof. unfold manifest. sh_tac. Qed.
#[export] Hint Resolve sh_eval sh_forceT sh_apply sh_applyf sh_field_at sh_equals sh_compare sh_manifest : sh.

Lemma sh_render_m j : sh eq (render_m j) (render_m j). Proof. unfold render_m. sh_tac. Qed.
#[export] Hint Resolve sh_render_m : sh.
Lemma sh_to_string v d : sh eq (to_string v d) (to_string v (d + 1)). Proof. unfold to_string. sh_tac. Qed.
#[export] Hint Resolve sh_to_string : sh.
Lemma sh_un_op op v : sh eq (un_op op v) (un_op op v). Proof. unfold un_op. sh_tac. Qed.
Lemma sh_int2 a b k : (forall x y, sh eq (k x y) (k x y)) -> sh eq (int2 a b k) (int2 a b k).
Proof. intros H. unfold int2. sh_tac; try apply H. Qed.
Lemma sh_num_bin op a b : sh eq (num_bin op a b) (num_bin op a b).
Proof. unfold num_bin. destruct op; sh_tac; apply sh_int2; intros; sh_tac. Qed.
#[export] Hint Resolve sh_un_op sh_num_bin : sh.
Lemma sh_add_vals l r d : sh eq (add_vals l r d) (add_vals l r (d + 1)). Proof. unfold add_vals. sh_tac. Qed.
#[export] Hint Resolve sh_add_vals : sh.
Lemma sh_bin_op op l r d : sh eq (bin_op op l r d) (bin_op op l r (d + 1)). Proof. unfold bin_op. sh_tac. Qed.
#[export] Hint Resolve sh_bin_op : sh.

Lemma sh_run_assert en a d : sh eq (run_assert en a d) (run_assert en a (d + 1)). Proof. unfold run_assert. sh_tac. Qed.
#[export] Hint Resolve sh_run_assert : sh.
Lemma sh_run_layer_asserts ls rest i d : sh eq (run_layer_asserts ls rest i d) (run_layer_asserts ls rest i (d + 1)).
Proof. revert i. induction rest as [|l r IH]; intros i; simpl; sh_tac; try apply IH. Qed.
#[export] Hint Resolve sh_run_layer_asserts : sh.
Lemma sh_run_asserts ls c d : sh eq (run_asserts ls c d) (run_asserts ls c (d + 1)). Proof. unfold run_asserts. sh_tac. Qed.
#[export] Hint Resolve sh_run_asserts : sh.
Lemma sh_missing_field {A} ls n : sh eq (@missing_field A ls n) (@missing_field A ls n). Proof. unfold missing_field. sh_tac. Qed.
#[export] Hint Resolve sh_missing_field : sh.
Lemma sh_get_field ls c n d : sh eq (get_field ls c n d) (get_field ls c n (d + 1)). Proof. unfold get_field. sh_tac. Qed.
#[export] Hint Resolve sh_get_field : sh.
Lemma sh_do_field ls f n d : sh eq (do_field ls f n d) (do_field ls f n (d + 1)). Proof. unfold do_field. sh_tac. Qed.
Lemma sh_with_super en k k' : (forall ls i, sh eq (k ls i) (k' ls i)) -> sh eq (with_super en k) (with_super en k').
Proof. intros H. unfold with_super. sh_tac; try apply H. Qed.
Lemma sh_super_field en n d : sh eq (super_field en n d) (super_field en n (d + 1)).
Proof. unfold super_field. apply sh_with_super. intros. sh_tac. Qed.
#[export] Hint Resolve sh_do_field sh_super_field : sh.

Lemma sh_field_name_of v : sh eq (field_name_of v) (field_name_of v). Proof. unfold field_name_of. sh_tac. Qed.
Lemma sh_add_field acc on f : sh eq (add_field acc on f) (add_field acc on f). Proof. unfold add_field. sh_tac. Qed.
#[export] Hint Resolve sh_field_name_of sh_add_field : sh.
Lemma sh_build_fields en fs acc d : sh eq (build_fields en fs acc d) (build_fields en fs acc (d + 1)).
Proof. revert acc. induction fs as [|f r IH]; intros acc; simpl; sh_tac; try apply IH. Qed.
#[export] Hint Resolve sh_build_fields : sh.

Lemma sh_expand_for x vs vals : sh eq (expand_for x vs vals) (expand_for x vs vals).
Proof. revert vals. induction vs as [|v r IH]; intros vals; simpl; sh_tac; try apply IH. Qed.
Lemma sh_filter_if vs vals : sh eq (filter_if vs vals) (filter_if vs vals).
Proof. revert vals. induction vs as [|v r IH]; intros vals; simpl; sh_tac; try apply IH. Qed.
#[export] Hint Resolve sh_expand_for sh_filter_if : sh.
Lemma sh_comp_bfs en specs vs d : sh eq (comp_bfs en specs vs d) (comp_bfs en specs vs (d + 1)).
Proof. revert vs. induction specs as [|s r IH]; intros vs; simpl; sh_tac; try apply IH. Qed.
Lemma sh_comp_dfs en specs v d : sh eq (comp_dfs en specs v d) (comp_dfs en specs v (d + 1)).
Proof. revert v. induction specs as [|s r IH]; intros v; simpl; sh_tac; try apply IH. Qed.
#[export] Hint Resolve sh_comp_bfs sh_comp_dfs : sh.
Lemma sh_comp_envs en specs d : sh eq (comp_envs en specs d) (comp_envs en specs (d + 1)). Proof. unfold comp_envs. sh_tac. Qed.
#[export] Hint Resolve sh_comp_envs : sh.
Lemma sh_build_comp_fields envs n p b acc d : sh eq (build_comp_fields envs n p b acc d) (build_comp_fields envs n p b acc (d + 1)).
Proof. revert acc. induction envs as [|e r IH]; intros acc; simpl; sh_tac; try apply IH. Qed.
#[export] Hint Resolve sh_build_comp_fields : sh.

Lemma sh_index_value v i d : sh eq (index_value v i d) (index_value v i (d + 1)). Proof. unfold index_value. sh_tac. Qed.
Lemma sh_opt_num v s : sh eq (opt_num v s) (opt_num v s). Proof. unfold opt_num. sh_tac. Qed.
Lemma sh_slice_pos l f : sh eq (slice_pos l f) (slice_pos l f). Proof. unfold slice_pos. sh_tac. Qed.
#[export] Hint Resolve sh_index_value sh_opt_num sh_slice_pos : sh.
Lemma sh_slice_range l a b c : sh eq (slice_range l a b c) (slice_range l a b c). Proof. unfold slice_range. sh_tac. Qed.
#[export] Hint Resolve sh_slice_range : sh.
Lemma sh_do_slice v a b c f : sh eq (do_slice v a b c f) (do_slice v a b c f). Proof. unfold do_slice. sh_tac. Qed.
Lemma sh_eval_opt en o d : sh eq (eval_opt en o d) (eval_opt en o (d + 1)). Proof. unfold eval_opt. sh_tac. Qed.
#[export] Hint Resolve sh_do_slice sh_eval_opt : sh.

Lemma sh_filter_m fv items d : sh eq (filter_m fv items d) (filter_m fv items (d + 1)).
Proof. induction items as [|it r IH]; simpl; sh_tac; try apply IH. Qed.
Lemma sh_foldl_m fv items acc d : sh eq (foldl_m fv items acc d) (foldl_m fv items acc (d + 1)).
Proof. revert acc. induction items as [|it r IH]; intros acc; simpl; sh_tac; try apply IH. Qed.
Lemma sh_foldr_m fv items acc d : sh eq (foldr_m fv items acc d) (foldr_m fv items acc (d + 1)).
Proof. revert acc. induction items as [|it r IH]; intros acc; simpl; sh_tac; try apply IH. Qed.
Lemma sh_join_str_m sep items first acc d : sh eq (join_str_m sep items first acc d) (join_str_m sep items first acc (d + 1)).
Proof. revert first acc. induction items as [|it r IH]; intros first acc; simpl; sh_tac; try apply IH. Qed.
Lemma sh_join_arr_m sep items first acc d : sh eq (join_arr_m sep items first acc d) (join_arr_m sep items first acc (d + 1)).
Proof. revert first acc. induction items as [|it r IH]; intros first acc; simpl; sh_tac; try apply IH. Qed.
#[export] Hint Resolve sh_filter_m sh_foldl_m sh_foldr_m sh_join_str_m sh_join_arr_m : sh.
Lemma sh_object_has o f h : sh eq (object_has o f h) (object_has o f h). Proof. unfold object_has. sh_tac. Qed.
Lemma sh_object_fields o h : sh eq (object_fields o h) (object_fields o h). Proof. unfold object_fields. sh_tac. Qed.
Lemma sh_prim_equals a b : sh eq (prim_equals a b) (prim_equals a b). Proof. unfold prim_equals. sh_tac. Qed.
Lemma sh_mod_num a b : sh eq (mod_num a b) (mod_num a b). Proof. unfold mod_num. sh_tac. Qed.
#[export] Hint Resolve sh_object_has sh_object_fields sh_prim_equals sh_mod_num : sh.

Lemma sh_all_m items d : sh eq (all_m items d) (all_m items (d + 1)).
Proof. induction items as [|it r IH]; simpl; sh_tac; try apply IH. Qed.
Lemma sh_any_m items d : sh eq (any_m items d) (any_m items (d + 1)).
Proof. induction items as [|it r IH]; simpl; sh_tac; try apply IH. Qed.
Lemma sh_sum_m items acc d : sh eq (sum_m items acc d) (sum_m items acc (d + 1)).
Proof. revert acc. induction items as [|it r IH]; intros acc; simpl; sh_tac; try apply IH. Qed.
Lemma sh_flatten_m items acc d : sh eq (flatten_m items acc d) (flatten_m items acc (d + 1)).
Proof. revert acc. induction items as [|it r IH]; intros acc; simpl; sh_tac; try apply IH. Qed.
Lemma sh_contains_m x items d : sh eq (contains_m x items d) (contains_m x items (d + 1)).
Proof. induction items as [|it r IH]; simpl; sh_tac; try apply IH. Qed.
Lemma sh_count_m x items n d : sh eq (count_m x items n d) (count_m x items n (d + 1)).
Proof. revert n. induction items as [|it r IH]; intros n; simpl; sh_tac; try apply IH. Qed.
#[export] Hint Resolve sh_all_m sh_any_m sh_sum_m sh_flatten_m sh_contains_m sh_count_m : sh.

Lemma sh_call_builtin bi args d : sh eq (call_builtin bi args d) (call_builtin bi args (d + 1)).
Proof.
  unfold call_builtin.
  destruct args as [|a0 [|a1 [|a2 [|a3 [|a4 r]]]]]; try solve [sh_tac]; destruct bi; sh_tac.
Qed.
#[export] Hint Resolve sh_call_builtin : sh.

Lemma sh_force_args ts d : sh eq (force_args ts d) (force_args ts (d + 1)). Proof. unfold force_args. sh_tac. Qed.
#[export] Hint Resolve sh_force_args : sh.
Lemma sh_do_apply fv pos named force d : sh eq (do_apply fv pos named force d) (do_apply fv pos named force (d + 1)).
Proof. unfold do_apply. sh_tac. Qed.

Lemma sh_eq_items a b d : sh eq (eq_items a b d) (eq_items a b (d + 1)).
Proof. revert b. induction a as [|x r IH]; intros b; simpl; sh_tac; try apply IH. Qed.
Lemma sh_eq_fields la lb names d : sh eq (eq_fields la lb names d) (eq_fields la lb names (d + 1)).
Proof. induction names as [|n r IH]; simpl; sh_tac; try apply IH. Qed.
Lemma sh_cmp_items a b d : sh eq (cmp_items a b d) (cmp_items a b (d + 1)).
Proof. revert b. induction a as [|x r IH]; intros b; simpl; sh_tac; try apply IH. Qed.
#[export] Hint Resolve sh_eq_items sh_eq_fields sh_cmp_items : sh.
Lemma sh_do_equals a b d : sh eq (do_equals a b d) (do_equals a b (d + 1)). Proof. unfold do_equals. sh_tac. Qed.
Lemma sh_do_compare a b d : sh eq (do_compare a b d) (do_compare a b (d + 1)). Proof. unfold do_compare. sh_tac. Qed.
Lemma sh_do_manifest s v d : sh eq (do_manifest s v d) (do_manifest s v (d + 1)). Proof. unfold do_manifest. sh_tac. Qed.
Lemma sh_cond_bool v : sh eq (cond_bool v) (cond_bool v). Proof. unfold cond_bool. sh_tac. Qed.
#[export] Hint Resolve sh_do_apply sh_do_equals sh_do_compare sh_do_manifest sh_cond_bool : sh.

Lemma sh_do_eval en x d : sh eq (do_eval en x d) (do_eval en x (d + 1)).
Proof.
  unfold do_eval. destruct x; try solve [sh_tac].
  eapply sh_bind; [solve [eauto with sh]|]. intros v v' ->. destruct v'; sh_tac.
  apply sh_with_super. intros. sh_tac.
Qed.
Lemma sh_do_force t d : sh eq (do_force t d) (do_force t (d + 1)). Proof. unfold do_force. sh_tac. Qed.
#[export] Hint Resolve sh_do_eval sh_do_force : sh.

Lemma sh_step_fn t d : sh eq (step t d) (step t (d + 1)).
Proof. unfold step. destruct t; sh_tac. Qed.


Lemma sh_run_task c c' : cfgs c c' -> forall f, recs (run_task f c) (run_task f c').
Proof.
  intros Hc. induction f as [|n IH]; intros t d; [reflexivity|]. simpl.
  symmetry. apply rrel_eq. apply (sh_step_fn t d c c' _ _ Hc IH).
Qed.
