(* Proofs/RefDead_proofs.v — C02/C04: dead-binding irrelevance, part 2: a relational (two-run)
   reading of the monad [M] and one simulation lemma per helper definition of RefEval.v. *)
From RJ Require Import Base.Outcome Base.F64 Model.Token Model.Ast Model.RefCore Model.RefValue Model.RefEval.
From RJ Require Import Proofs.RefSem_params Proofs.RefScope_defs Proofs.RefDead_defs.
From Coq Require Import Lia.
Local Open Scope N_scope.

Section DeadSim.
Variable x : str.
Variables e1 e2 : list frame.
Hypothesis Hd : dead_pair x e1 e2.
Notation vr := (vrel x e1 e2).
Notation tr := (trel x e1 e2).
Notation er := (erel x e1 e2).
Notation lr := (lrel x e1 e2).
Notation lsr := (lsrel x e1 e2).
Notation tsr := (tsrel x e1 e2).
Notation bvr := (bvrel x e1 e2).
Notation fr := (frel x e1 e2).

Definition orel {A} (R : A -> A -> Prop) (o o' : outcome A err) : Prop :=
  match o, o' with
  | Ok a, Ok a' => R a a'
  | Err e, Err e' => e = e'
  | Panic s, Panic s' => s = s'
  | OutOfFuel, OutOfFuel => True
  | _, _ => False
  end.
Definition rrel {A} (R : A -> A -> Prop) (r r' : res A) : Prop := fst r = fst r' /\ orel R (snd r) (snd r').

Definition task_rel (t t' : task) : Prop :=
  match t, t' with
  | TEval en e, TEval en' e' => e = e' /\ exists vs io, er en en' vs io /\ closed vs io e
  | TForce th, TForce th' => tr th th'
  | TApply f pos named force, TApply f' pos' named' force' => vr f f' /\ tsr pos pos' /\ bvr named named' /\ force = force'
  | TField ls from n, TField ls' from' n' => lsr ls ls' /\ from = from' /\ n = n'
  | TEquals a b, TEquals a' b' => vr a a' /\ vr b b'
  | TCompare a b, TCompare a' b' => vr a a' /\ vr b b'
  | TManifest s v, TManifest s' v' => s = s' /\ vr v v'
  | _, _ => False
  end.

Definition ans_rel (a a' : answer) : Prop :=
  match a, a' with
  | AVal v, AVal v' => vr v v'
  | ABool b, ABool b' => b = b'
  | ACmp c, ACmp c' => c = c'
  | AJson j, AJson j' => j = j'
  | _, _ => False
  end.

Definition rec_rel (r r' : recfn) : Prop := forall t t' d, task_rel t t' -> rrel ans_rel (r t d) (r' t' d).
Definition rel2 {A} (R : A -> A -> Prop) (m m' : M A) : Prop := forall c r r', rec_rel r r' -> rrel R (m c r) (m' c r').

Lemma rel2_ret {A} (R : A -> A -> Prop) a a' : R a a' -> rel2 R (ret a) (ret a').
Proof. intros H c r r' _. split; [reflexivity | exact H]. Qed.
Lemma rel2_err {A} (R : A -> A -> Prop) e : rel2 R (fail e) (fail e).
Proof. intros c r r' _. split; reflexivity. Qed.
Lemma rel2_kind {A} (R : A -> A -> Prop) s : rel2 R (kind s) (kind s).
Proof. apply rel2_err. Qed.
Lemma rel2_unsupported {A} (R : A -> A -> Prop) s : rel2 R (unsupported s) (unsupported s).
Proof. apply rel2_err. Qed.
Lemma rel2_argtype {A} (R : A -> A -> Prop) : rel2 R argtype argtype.
Proof. apply rel2_err. Qed.
Lemma rel2_panic {A} (R : A -> A -> Prop) s : rel2 R (lift (Panic s)) (lift (Panic s)).
Proof. intros c r r' _. split; reflexivity. Qed.
Lemma rel2_check_num f : rel2 vr (lift (check_num f)) (lift (check_num f)).
Proof. intros c r r' _. split; [reflexivity|]. unfold lift, check_num. destruct f; simpl; try reflexivity; constructor. Qed.
Lemma rel2_emit s : rel2 eq (emit s) (emit s).
Proof. intros c r r' _. split; reflexivity. Qed.
Lemma rel2_ask_bfs : rel2 eq ask_bfs ask_bfs.
Proof. intros c r r' _. split; reflexivity. Qed.
Lemma rel2_ask_ts_tail : rel2 eq ask_ts_tail ask_ts_tail.
Proof. intros c r r' _. split; reflexivity. Qed.
Lemma rel2_enter d : rel2 eq (enter d) (enter d).
Proof. intros c r r' _. unfold enter. destruct (c_limit c <? d + 1); split; reflexivity. Qed.
Lemma rel2_call t t' d : task_rel t t' -> rel2 ans_rel (call t d) (call t' d).
Proof. intros H c r r' Hr. apply Hr. exact H. Qed.

Lemma rel2_bind {A B} (Q : A -> A -> Prop) (R : B -> B -> Prop) (m m' : M A) (k k' : A -> M B) :
  rel2 Q m m' -> (forall a a', Q a a' -> rel2 R (k a) (k' a')) -> rel2 R (bind m k) (bind m' k').
Proof.
  intros Hm Hk c r r' Hr. specialize (Hm c r r' Hr). unfold rrel, bind in *.
  destruct (m c r) as [t o]. destruct (m' c r') as [t' o']. simpl in Hm. destruct Hm as [-> Ho].
  destruct o as [a | e | s |]; destruct o' as [a' | e' | s' |]; simpl in Ho; try contradiction.
  - specialize (Hk a a' Ho c r r' Hr). unfold rrel in Hk. destruct (k a c r) as [t2 o2]. destruct (k' a' c r') as [t2' o2'].
    simpl in *. destruct Hk as [-> Ho2]. split; [reflexivity | exact Ho2].
  - subst. split; reflexivity.
  - subst. split; reflexivity.
  - split; reflexivity.
Qed.

Lemma rel2_weaken {A} (Q R : A -> A -> Prop) (m m' : M A) : rel2 Q m m' -> (forall a a', Q a a' -> R a a') -> rel2 R m m'.
Proof.
  intros Hm H c r r' Hr. specialize (Hm c r r' Hr). unfold rrel in *. destruct Hm as [Ht Ho]. split; [exact Ht|].
  destruct (snd (m c r)); destruct (snd (m' c r')); simpl in *; auto.
Qed.

Lemma rel2_mapM {A B} (P : B -> B -> Prop) (f f' : A -> M B) l l' :
  Forall2 (fun a a' => rel2 P (f a) (f' a')) l l' -> rel2 (Forall2 P) (mapM f l) (mapM f' l').
Proof.
  induction 1 as [|a a' r r' Ha _ IH]; simpl.
  - apply rel2_ret. constructor.
  - eapply rel2_bind; [exact Ha|]. intros y y' Hy. eapply rel2_bind; [exact IH|]. intros ys ys' Hys. apply rel2_ret. constructor; assumption.
Qed.

Lemma rel2_iterM {A} (f f' : A -> M unit) l l' :
  Forall2 (fun a a' => rel2 eq (f a) (f' a')) l l' -> rel2 eq (iterM f l) (iterM f' l').
Proof.
  induction 1 as [|a a' r r' Ha _ IH]; simpl.
  - apply rel2_ret. reflexivity.
  - eapply rel2_bind; [exact Ha|]. intros; exact IH.
Qed.

Lemma Forall2_refl {A} (R : A -> A -> Prop) l : (forall a, In a l -> R a a) -> Forall2 R l l.
Proof. induction l; intros H; constructor; [apply H; left; reflexivity | apply IHl; intros; apply H; right; assumption]. Qed.

Lemma Forall2_app_intro {A} (R : A -> A -> Prop) l1 l1' l2 l2' : Forall2 R l1 l1' -> Forall2 R l2 l2' -> Forall2 R (l1 ++ l2) (l1' ++ l2').
Proof. intros. apply Forall2_app; assumption. Qed.

Lemma Forall2_map_intro {A B} (R : A -> A -> Prop) (Q : B -> B -> Prop) (f f' : A -> B) l l' :
  Forall2 R l l' -> (forall a a', R a a' -> Q (f a) (f' a')) -> Forall2 Q (map f l) (map f' l').
Proof. intros H HQ. induction H; simpl; constructor; auto. Qed.

Lemma Forall2_imp {A} (R Q : A -> A -> Prop) l l' : (forall a a', R a a' -> Q a a') -> Forall2 R l l' -> Forall2 Q l l'.
Proof. intros H. induction 1; constructor; auto. Qed.

Lemma Forall2_len {A B} (R : A -> B -> Prop) l l' : Forall2 R l l' -> lenN l = lenN l'.
Proof. intros H. unfold lenN. f_equal. induction H; simpl; congruence. Qed.

Create HintDb rel2 discriminated.
Create HintDb rel discriminated.
Hint Constructors vrel trel : rel.
Hint Resolve rel2_err rel2_kind rel2_unsupported rel2_argtype rel2_panic rel2_check_num rel2_emit rel2_ask_bfs
  rel2_ask_ts_tail rel2_enter Forall2_app_intro : rel2.
Hint Resolve Forall2_app_intro : rel.
Hint Extern 1 (@eq _ _ _) => reflexivity : rel.

Ltac rel_inv :=
  repeat match goal with
  | H : vr (VArr _) _ |- _ => inversion H; clear H; subst
  | H : vr (VObj _ _) _ |- _ => inversion H; clear H; subst
  | H : vr (VFun _ _ _) _ |- _ => inversion H; clear H; subst
  | H : vr VNull _ |- _ => inversion H; clear H; subst
  | H : vr (VBool _) _ |- _ => inversion H; clear H; subst
  | H : vr (VNum _) _ |- _ => inversion H; clear H; subst
  | H : vr (VStr _) _ |- _ => inversion H; clear H; subst
  | H : vr (VBuiltin _) _ |- _ => inversion H; clear H; subst
  | H : tr (Th _ _) _ |- _ => inversion H; clear H; subst
  | H : tr (Tv _) _ |- _ => inversion H; clear H; subst
  | H : tr (TCall _ _) _ |- _ => inversion H; clear H; subst
  | H : Forall2 _ (_ :: _) _ |- _ => inversion H; clear H; subst
  | H : Forall2 _ [] _ |- _ => inversion H; clear H; subst
  | H : _ /\ _ |- _ => destruct H
  end.

(* destruct the scrutinee of the left match; the related scrutinee on the right follows by inversion *)
Ltac r2_step :=
  match goal with
  | |- rel2 _ (ret _) (ret _) => apply rel2_ret; try solve [eauto with rel]
  | |- rel2 _ (bind _ _) (bind _ _) => eapply rel2_bind; [ solve [eauto with rel2 rel] | intros ? ? ?; subst ]
  | H : vr ?v ?v' |- rel2 _ (match ?v with _ => _ end) (match ?v' with _ => _ end) => destruct v; rel_inv
  | |- rel2 _ (match ?v with _ => _ end) (match ?v with _ => _ end) => first [ is_var v; destruct v | destruct v eqn:? ]
  | |- rel2 _ (if ?b then _ else _) (if ?b then _ else _) => destruct b eqn:?
  | |- rel2 _ _ _ => solve [eauto with rel2 rel]
  | |- rel2 _ _ _ => eapply rel2_weaken; [ solve [eauto with rel2 rel] | solve [intros; subst; eauto with rel] ]
  end.
Ltac r2_tac := repeat r2_step.

(* ---- typed views of the knot ---- *)
Lemma rel2_as_val a a' : ans_rel a a' -> rel2 vr (as_val a) (as_val a').
Proof. intros H. destruct a, a'; simpl in H; try contradiction; unfold as_val; r2_tac. Qed.
Lemma rel2_as_bool a a' : ans_rel a a' -> rel2 eq (as_bool a) (as_bool a').
Proof. intros H. destruct a, a'; simpl in H; try contradiction; subst; unfold as_bool; r2_tac. Qed.
Lemma rel2_as_cmp a a' : ans_rel a a' -> rel2 eq (as_cmp a) (as_cmp a').
Proof. intros H. destruct a, a'; simpl in H; try contradiction; subst; unfold as_cmp; r2_tac. Qed.
Lemma rel2_as_json a a' : ans_rel a a' -> rel2 eq (as_json a) (as_json a').
Proof. intros H. destruct a, a'; simpl in H; try contradiction; subst; unfold as_json; r2_tac. Qed.

Lemma rel2_eval en en' e d vs io : er en en' vs io -> closed vs io e -> rel2 vr (eval en e d) (eval en' e d).
Proof.
  intros He Hc. unfold eval. eapply rel2_bind; [apply rel2_call; simpl; eauto|]. intros. apply rel2_as_val. assumption.
Qed.
Lemma rel2_forceT t t' d : tr t t' -> rel2 vr (forceT t d) (forceT t' d).
Proof. intros H. unfold forceT. eapply rel2_bind; [apply rel2_call; exact H|]. intros. apply rel2_as_val. assumption. Qed.
Lemma rel2_apply f f' pos pos' named named' force d :
  vr f f' -> tsr pos pos' -> bvr named named' -> rel2 vr (apply f pos named force d) (apply f' pos' named' force d).
Proof. intros. unfold apply. eapply rel2_bind; [apply rel2_call; simpl; auto|]. intros. apply rel2_as_val. assumption. Qed.
Lemma rel2_applyf f f' pos pos' d : vr f f' -> tsr pos pos' -> rel2 vr (applyf f pos d) (applyf f' pos' d).
Proof. intros. unfold applyf. apply rel2_apply; auto. constructor. Qed.
Lemma rel2_field_at ls ls' from n d : lsr ls ls' -> rel2 vr (field_at ls from n d) (field_at ls' from n d).
Proof. intros. unfold field_at. eapply rel2_bind; [apply rel2_call; simpl; auto|]. intros. apply rel2_as_val. assumption. Qed.
Lemma rel2_equals a a' b b' d : vr a a' -> vr b b' -> rel2 eq (equals a b d) (equals a' b' d).
Proof. intros. unfold equals. eapply rel2_bind; [apply rel2_call; simpl; auto|]. intros. apply rel2_as_bool. assumption. Qed.
Lemma rel2_compare a a' b b' d : vr a a' -> vr b b' -> rel2 eq (compare a b d) (compare a' b' d).
Proof. intros. unfold compare. eapply rel2_bind; [apply rel2_call; simpl; auto|]. intros. apply rel2_as_cmp. assumption. Qed.
Lemma rel2_manifest s v v' d : vr v v' -> rel2 eq (manifest s v d) (manifest s v' d).
Proof. intros. unfold manifest. eapply rel2_bind; [apply rel2_call; simpl; auto|]. intros. apply rel2_as_json. assumption. Qed.
Hint Resolve rel2_eval rel2_forceT rel2_apply rel2_applyf rel2_field_at rel2_equals rel2_compare rel2_manifest : rel2.

Lemma rel2_render_m j : rel2 eq (render_m j) (render_m j).
Proof. unfold render_m. r2_tac. Qed.
Hint Resolve rel2_render_m : rel2.
Lemma rel2_to_string v v' d : vr v v' -> rel2 eq (to_string v d) (to_string v' d).
Proof. intros H. unfold to_string. destruct v; rel_inv; r2_tac. Qed.
Hint Resolve rel2_to_string : rel2.

Lemma rel2_un_op op v : rel2 vr (un_op op v) (un_op op v).
Proof. unfold un_op. destruct op, v; r2_tac. Qed.
Lemma rel2_int2 R a b k : (forall y z, rel2 R (k y z) (k y z)) -> rel2 R (int2 a b k) (int2 a b k).
Proof. intros H. unfold int2. r2_tac; apply H. Qed.
Lemma rel2_num_bin op a b : rel2 vr (num_bin op a b) (num_bin op a b).
Proof. unfold num_bin. destruct op; r2_tac; apply rel2_int2; intros; r2_tac. Qed.
Hint Resolve rel2_un_op rel2_num_bin : rel2.

Lemma rel2_add_vals l l' r r' d : vr l l' -> vr r r' -> rel2 vr (add_vals l r d) (add_vals l' r' d).
Proof. intros Hl Hr. unfold add_vals. destruct l; rel_inv; destruct r; rel_inv; r2_tac. Qed.
Hint Resolve rel2_add_vals : rel2.
Lemma rel2_bin_op op l l' r r' d : vr l l' -> vr r r' -> rel2 vr (bin_op op l r d) (bin_op op l' r' d).
Proof.
  intros Hl Hr. unfold bin_op. destruct l; rel_inv; destruct r; rel_inv; try solve [r2_tac]; destruct op; r2_tac.
  all: match goal with H : Forall2 lr ?a ?b |- _ => rewrite (lsrel_has_field x e1 e2 a b 0 s H) end; constructor.
Qed.
Hint Resolve rel2_bin_op : rel2.

(* ---- asserts and fields ---- *)
Lemma rel2_run_assert en en' a d vs io :
  er en en' vs io -> closed vs io (fst a) -> closed_opt vs io (snd a) -> rel2 eq (run_assert en a d) (run_assert en' a d).
Proof.
  intros He Hc Hm. unfold run_assert. eapply rel2_bind; [eapply rel2_eval; eassumption|]. intros v v' Hv.
  destruct v; rel_inv; try solve [r2_tac]. destruct b; [r2_tac|]. inversion Hm; subst; [r2_tac|].
  eapply rel2_bind; [eapply rel2_eval; eassumption|]. intros mv mv' Hmv.
  eapply rel2_bind; [apply rel2_to_string; exact Hmv|]. intros s s' ->. apply rel2_err.
Qed.

Lemma rel2_run_layer_asserts ls ls' : lsr ls ls' -> forall rest rest' i d, lsr rest rest' ->
  rel2 eq (run_layer_asserts ls rest i d) (run_layer_asserts ls' rest' i d).
Proof.
  intros Hls rest rest' i d Hrest. revert i. induction Hrest as [|l l' r r' Hl _ IH]; intros i; simpl.
  - apply rel2_ret. reflexivity.
  - eapply rel2_bind; [|intros; apply IH].
    inversion Hl as [locals asserts fields fields' en en' std vs io He Hass Hf]; subst. simpl.
    apply rel2_iterM. apply Forall2_refl. intros a Ha. rewrite Forall_forall in Hass. destruct (Hass a Ha) as [Hc Hm].
    set (l := MkLayer locals asserts fields en std). set (l' := MkLayer locals asserts fields' en' std).
    destruct (layer_env_rel x e1 e2 ls ls' i l l' en en' vs io (fst a) Hls eq_refl He Hc) as (Hen & Hcl).
    eapply rel2_run_assert; [exact Hen | exact Hcl |].
    destruct (snd a) as [m|] eqn:Em; [|constructor]. constructor. apply (Hm m eq_refl).
Qed.

Lemma rel2_run_asserts ls ls' c d : lsr ls ls' -> rel2 eq (run_asserts ls c d) (run_asserts ls' c d).
Proof. intros H. unfold run_asserts. destruct c; [apply rel2_ret; reflexivity | apply rel2_run_layer_asserts; assumption]. Qed.
Hint Resolve rel2_run_asserts : rel2.

Lemma rel2_missing_field {A} (R : A -> A -> Prop) ls ls' n : lsr ls ls' -> rel2 R (missing_field ls n) (missing_field ls' n).
Proof. intros H. unfold missing_field. rewrite <- (lsrel_has_std x e1 e2 ls ls' H). r2_tac. Qed.
Hint Resolve rel2_missing_field : rel2.

Lemma rel2_get_field ls ls' c n d : lsr ls ls' -> rel2 vr (get_field ls c n d) (get_field ls' c n d).
Proof. intros H. unfold get_field. rewrite <- (lsrel_has_field x e1 e2 ls ls' 0 n H). r2_tac. Qed.
Hint Resolve rel2_get_field : rel2.

Lemma rel2_do_field ls ls' from n d : lsr ls ls' -> rel2 vr (do_field ls from n d) (do_field ls' from n d).
Proof.
  intros Hls. unfold do_field.
  destruct (find_field ls from n) as [[i f]|] eqn:Ef.
  - destruct (nthN ls i) as [l|] eqn:En.
    + destruct (lsrel_find_layer x e1 e2 _ _ _ _ _ _ _ Hls Ef En) as (f' & l' & vs & io & Ef' & En' & Hl & He & Hfr).
      rewrite Ef', En'. destruct (lrel_locals x e1 e2 _ _ Hl) as (Hloc & _ & _).
      destruct (frel_vis x e1 e2 _ _ _ _ _ Hfr) as (_ & Hp & Hb). rewrite <- Hp, <- Hb.
      rewrite <- (lsrel_has_field x e1 e2 ls ls' (i + 1) n Hls).
      assert (Henv : exists vs2, er (field_env ls i l f) (field_env ls' i l' f') vs2 true /\ closed vs2 true (f_body f)).
      { unfold field_env. inversion Hfr; subst; simpl.
        - eexists. eapply layer_env_rel; eauto.
        - eexists. eapply layer_env_rel; eauto. }
      destruct Henv as (vs2 & Hen & Hcl).
      destruct (f_plus f && has_field ls (i + 1) n); r2_tac.
    + pose proof (lsrel_find x e1 e2 ls ls' from n Hls) as Hff. rewrite Ef in Hff.
      destruct (find_field ls' from n) as [[i' f']|]; [|contradiction]. destruct Hff as (<- & _).
      rewrite (lsrel_nthN_none x e1 e2 _ _ _ Hls En). apply rel2_panic.
  - pose proof (lsrel_find x e1 e2 ls ls' from n Hls) as Hff. rewrite Ef in Hff.
    destruct (find_field ls' from n) as [[i' f']|]; [contradiction|]. apply rel2_missing_field. exact Hls.
Qed.
Hint Resolve rel2_do_field : rel2.

Lemma rel2_with_super {R} en en' vs k k' :
  er en en' vs true -> (forall ls ls' i, lsr ls ls' -> rel2 R (k ls i) (k' ls' i)) -> rel2 R (with_super en k) (with_super en' k').
Proof.
  intros He Hk. unfold with_super. destruct (erel_lookup_obj x e1 e2 Hd _ _ _ _ He eq_refl) as (ls & ls' & i & c & E & E' & Hls).
  rewrite E, E'. apply Hk. exact Hls.
Qed.

Lemma rel2_super_field en en' vs n d : er en en' vs true -> rel2 vr (super_field en n d) (super_field en' n d).
Proof.
  intros He. unfold super_field. eapply rel2_with_super; [exact He|]. intros ls ls' i Hls.
  rewrite <- (lsrel_len x e1 e2 _ _ Hls), <- (lsrel_has_field x e1 e2 ls ls' (i + 1) n Hls). r2_tac.
Qed.
Hint Resolve rel2_super_field : rel2.

(* ---- object construction ---- *)
Lemma rel2_field_name_of v v' : vr v v' -> rel2 eq (field_name_of v) (field_name_of v').
Proof. intros H. unfold field_name_of. destruct v; rel_inv; r2_tac. Qed.
Hint Resolve rel2_field_name_of : rel2.

Lemma frel_assoc_none locals vs acc acc' s : Forall2 (fr locals vs) acc acc' -> assoc s acc = None <-> assoc s acc' = None.
Proof.
  intros H. pose proof (frel_assoc x e1 e2 locals vs acc acc' s H) as Ha.
  destruct (assoc s acc); destruct (assoc s acc'); try contradiction; split; congruence.
Qed.

Lemma rel2_add_field locals vs acc acc' on f f' :
  Forall2 (fr locals vs) acc acc' -> (forall s, fr locals vs (s, f) (s, f')) ->
  rel2 (Forall2 (fr locals vs)) (add_field acc on f) (add_field acc' on f').
Proof.
  intros Ha Hf. unfold add_field. destruct on as [s|]; [|apply rel2_ret; exact Ha].
  pose proof (frel_assoc x e1 e2 locals vs acc acc' s Ha) as Has.
  destruct (assoc s acc); destruct (assoc s acc'); try contradiction; [apply rel2_kind|].
  apply rel2_ret. apply Forall2_app_intro; [exact Ha | constructor; [apply Hf | constructor]].
Qed.

Lemma rel2_build_fields locals en en' vs io d :
  er en en' vs io -> Forall (fun p => closed (map fst locals ++ vs) true (snd p)) locals ->
  forall fs acc acc', Forall (closed_field vs io (map fst locals ++ vs)) fs ->
  Forall2 (fr locals vs) acc acc' ->
  rel2 (Forall2 (fr locals vs)) (build_fields en fs acc d) (build_fields en' fs acc' d).
Proof.
  intros He Hl. induction fs as [|f r IH]; intros acc acc' Hfs Hacc; simpl.
  - apply rel2_ret. exact Hacc.
  - inversion Hfs as [|? ? Hf Hr]; subst. destruct f as [nm plus vis body].
    assert (Hbody : forall s, fr locals vs (s, MkField vis plus body None) (s, MkField vis plus body None)).
    { intros s. constructor. split; [exact Hl | inversion Hf; subst; assumption]. }
    destruct nm as [s | e].
    + eapply rel2_bind with (Q := eq); [apply rel2_ret; reflexivity|]. intros on on' ->.
      eapply rel2_bind; [apply rel2_add_field; eauto|]. intros; apply IH; assumption.
    + inversion Hf; subst.
      eapply rel2_bind with (Q := eq); [eapply rel2_bind; [eapply rel2_eval; eassumption | intros; apply rel2_field_name_of; assumption]|].
      intros on on' ->. eapply rel2_bind; [apply rel2_add_field; eauto|]. intros; apply IH; assumption.
Qed.

(* ---- comprehensions ---- *)
Definition vars_rel (names : list str) (v v' : vars) : Prop := bvr v v' /\ map fst v = names.

Lemma rel2_expand_for y names : forall vs vs' vals vals',
  Forall2 (vars_rel names) vs vs' -> Forall2 vr vals vals' ->
  rel2 (Forall2 (vars_rel (y :: names))) (expand_for y vs vals) (expand_for y vs' vals').
Proof.
  intros vs vs' vals vals' Hvs. revert vals vals'. induction Hvs as [|v v' vr0 vr0' Hv _ IH]; intros vals vals' Hvals; simpl.
  - inversion Hvals; subst; apply rel2_ret; constructor.
  - inversion Hvals as [|a a' valr valr' Ha Hvalr]; subst; [apply rel2_ret; constructor|].
    destruct a; rel_inv; try apply rel2_kind.
    eapply rel2_bind; [apply IH; eassumption|]. intros rest rest' Hrest. apply rel2_ret.
    apply Forall2_app_intro; [|exact Hrest]. destruct Hv as [Hb Hn].
    eapply Forall2_map_intro; [eassumption|]. intros it it' Hit.
    split; [constructor; [split; [reflexivity | assumption] | exact Hb] | simpl; f_equal; exact Hn].
Qed.

Lemma first_non_array_rel vals vals' : Forall2 vr vals vals' -> first_non_array vals = first_non_array vals'.
Proof. induction 1 as [|a a' r r' Ha _ IH]; simpl; [reflexivity|]. destruct a; rel_inv; auto. Qed.
Lemma first_non_bool_rel vals vals' : Forall2 vr vals vals' -> first_non_bool vals = first_non_bool vals'.
Proof. induction 1 as [|a a' r r' Ha _ IH]; simpl; [reflexivity|]. destruct a; rel_inv; auto. Qed.

Lemma rel2_filter_if names : forall vs vs' vals vals',
  Forall2 (vars_rel names) vs vs' -> Forall2 vr vals vals' ->
  rel2 (Forall2 (vars_rel names)) (filter_if vs vals) (filter_if vs' vals').
Proof.
  intros vs vs' vals vals' Hvs. revert vals vals'. induction Hvs as [|v v' vr0 vr0' Hv _ IH]; intros vals vals' Hvals; simpl.
  - inversion Hvals; subst; apply rel2_ret; constructor.
  - inversion Hvals as [|a a' valr valr' Ha Hvalr]; subst; [apply rel2_ret; constructor|].
    destruct a; rel_inv; try apply rel2_kind.
    eapply rel2_bind; [apply IH; eassumption|]. intros rest rest' Hrest. apply rel2_ret.
    destruct b; [constructor; assumption | assumption].
Qed.

Lemma erel_vars v v' en en' vs io : bvr v v' -> er en en' vs io -> er (FVars v [] :: en) (FVars v' [] :: en') (map fst v ++ vs) io.
Proof. intros Hv He. change (map fst v ++ vs) with (map fst v ++ map fst (@nil (str * cexpr)) ++ vs). constructor; [exact Hv | constructor | exact He]. Qed.

Lemma rel2_comp_bfs en en' vs0 io d : er en en' vs0 io -> forall specs names vs vs' out,
  closed_specs (names ++ vs0) io specs out -> Forall2 (vars_rel names) vs vs' ->
  rel2 (Forall2 (fun v v' => bvr v v' /\ map fst v ++ vs0 = out)) (comp_bfs en specs vs d) (comp_bfs en' specs vs' d).
Proof.
  intros He. induction specs as [|s r IH]; intros names vs vs' out Hs Hvs; simpl.
  - inversion Hs; subst. apply rel2_ret. eapply Forall2_imp; [|exact Hvs]. intros v v' [Hb Hn]. split; [exact Hb | rewrite Hn; reflexivity].
  - destruct s as [y e | c]; inversion Hs; subst.
    + eapply rel2_bind with (Q := Forall2 vr).
      { apply rel2_mapM. eapply Forall2_imp; [|exact Hvs]. intros v v' [Hb Hn].
        eapply rel2_eval; [apply erel_vars; eassumption|]. rewrite Hn. assumption. }
      intros vals vals' Hvals. rewrite <- (first_non_array_rel _ _ Hvals). destruct (first_non_array vals); [apply rel2_kind|].
      eapply rel2_bind; [apply rel2_expand_for; eassumption|]. intros ws ws' Hws. apply (IH (y :: names)); assumption.
    + eapply rel2_bind with (Q := Forall2 vr).
      { apply rel2_mapM. eapply Forall2_imp; [|exact Hvs]. intros v v' [Hb Hn].
        eapply rel2_eval; [apply erel_vars; eassumption|]. rewrite Hn. assumption. }
      intros vals vals' Hvals. rewrite <- (first_non_bool_rel _ _ Hvals). destruct (first_non_bool vals); [apply rel2_kind|].
      eapply rel2_bind; [apply rel2_filter_if; eassumption|]. intros ws ws' Hws. apply (IH names); assumption.
Qed.

Lemma Forall2_concat {A} (R : A -> A -> Prop) ll ll' : Forall2 (Forall2 R) ll ll' -> Forall2 R (concat ll) (concat ll').
Proof. induction 1; simpl; [constructor | apply Forall2_app_intro; assumption]. Qed.

Lemma rel2_comp_dfs en en' vs0 io d : er en en' vs0 io -> forall specs v v' out,
  closed_specs (map fst v ++ vs0) io specs out -> bvr v v' ->
  rel2 (Forall2 (fun w w' => bvr w w' /\ map fst w ++ vs0 = out)) (comp_dfs en specs v d) (comp_dfs en' specs v' d).
Proof.
  intros He. induction specs as [|s r IH]; intros v v' out Hs Hv; simpl.
  - inversion Hs; subst. apply rel2_ret. constructor; [split; [exact Hv | reflexivity] | constructor].
  - destruct s as [y e | c]; inversion Hs; subst.
    + eapply rel2_bind; [eapply rel2_eval; [apply erel_vars; eassumption | assumption]|].
      intros a a' Ha. destruct a; rel_inv; try apply rel2_kind.
      eapply rel2_bind with (Q := Forall2 (Forall2 (fun w w' => bvr w w' /\ map fst w ++ vs0 = out))).
      { apply rel2_mapM. eapply Forall2_imp; [|eassumption]. intros it it' Hit.
        apply IH; [assumption|]. constructor; [split; [reflexivity | assumption] | exact Hv]. }
      intros ll ll' Hll. apply rel2_ret. apply Forall2_concat. exact Hll.
    + eapply rel2_bind; [eapply rel2_eval; [apply erel_vars; eassumption | assumption]|].
      intros b b' Hb. destruct b; rel_inv; try apply rel2_kind. destruct b; [apply IH; assumption | apply rel2_ret; constructor].
Qed.

Definition env_rel2 (out : list str) (io : bool) (en en' : env) : Prop := er en en' out io.

Lemma rel2_comp_envs en en' vs io specs d out :
  er en en' vs io -> closed_specs vs io specs out -> rel2 (Forall2 (env_rel2 out io)) (comp_envs en specs d) (comp_envs en' specs d).
Proof.
  intros He Hs. unfold comp_envs. eapply rel2_bind; [apply rel2_ask_bfs|]. intros bfs bfs' ->.
  eapply rel2_bind with (Q := Forall2 (fun w w' => bvr w w' /\ map fst w ++ vs = out)).
  - destruct bfs'.
    + apply (rel2_comp_bfs en en' vs io d He specs [] [[]] [[]] out); [exact Hs|]. constructor; [split; [constructor | reflexivity] | constructor].
    + apply (rel2_comp_dfs en en' vs io d He specs [] [] out); [exact Hs | constructor].
  - intros ws ws' Hws. apply rel2_ret. induction Hws as [|w w' r r' [Hb Hn] _ IH]; simpl; constructor; [|exact IH].
    unfold env_rel2. rewrite <- Hn. apply erel_vars; assumption.
Qed.

Lemma rel2_build_comp_fields locals vs0 out io name plus body d :
  closed out io name ->
  Forall (fun p => closed (map fst locals ++ out) true (snd p)) locals ->
  closed (map fst locals ++ out) true body ->
  forall envs envs' acc acc', Forall2 (env_rel2 out io) envs envs' -> Forall2 (fr locals vs0) acc acc' ->
  rel2 (Forall2 (fr locals vs0)) (build_comp_fields envs name plus body acc d) (build_comp_fields envs' name plus body acc' d).
Proof.
  intros Hn Hl Hb envs envs' acc acc' Henvs. revert acc acc'. induction Henvs as [|e e' r r' He _ IH]; intros acc acc' Hacc; simpl.
  - apply rel2_ret. exact Hacc.
  - eapply rel2_bind; [eapply rel2_eval; [exact He | exact Hn]|]. intros v v' Hv.
    eapply rel2_bind; [apply rel2_field_name_of; exact Hv|]. intros on on' ->.
    eapply rel2_bind; [apply rel2_add_field; [exact Hacc|]|].
    { intros s. econstructor; [exact He | split; assumption]. }
    intros; apply IH; assumption.
Qed.

End DeadSim.
