(* Proofs/Analyze_proofs.v — lemmas about Model/Analyze.v *)
From RJ Require Import Base.Outcome Model.Token Model.Ast Model.Ir Model.Analyze.
