(* Proofs/Analyze_proofs.v — lemmas about Model/Analyze.v *)
From Coq Require Import Lia.
From RJ Require Import Base.Outcome Model.Token Model.Ast Model.Ir Model.Analyze.
Local Open Scope outcome_scope.

(* ====================================================================
   1. Induction over the syntax (nested in lists / options / auxiliary types)
   ==================================================================== *)
Section All.
  Variable P : expr -> Prop.
  Definition opt_all (o : option expr) : Prop := match o with Some x => P x | None => True end.
  Definition param_all (p : param) : Prop := match p with MkParam _ d => opt_all d end.
  Definition optparams_all (ps : option (list param * span)) : Prop :=
    match ps with Some q => Forall param_all (fst q) | None => True end.
  Definition bind_all (b : bind) : Prop :=
    match b with MkBind _ ps v => optparams_all ps /\ P v end.
  Definition assert_all (a : assert_) : Prop := match a with MkAssert _ c m => P c /\ opt_all m end.
  Definition spec_all (c : comp_spec) : Prop := match c with CFor _ e => P e | CIf e => P e end.
  Definition fname_all (n : field_name) : Prop := match n with FnExpr e _ => P e | _ => True end.
  Definition field_all (f : field) : Prop :=
    match f with
    | FValue n _ _ v => fname_all n /\ P v
    | FFunc n ps _ _ v => fname_all n /\ Forall param_all ps /\ P v
    end.
  Definition member_all (m : member) : Prop :=
    match m with MLocal b => bind_all b | MAssert a => assert_all a | MField f => field_all f end.
  Definition arg_all (a : arg) : Prop := match a with APositional e => P e | ANamed _ e => P e end.
  Definition obj_all (o : obj_inside) : Prop :=
    match o with
    | OMembers ms => Forall member_all ms
    | OComp l1 n _ b l2 cs =>
        Forall bind_all l1 /\ P n /\ P b /\ Forall bind_all l2 /\ Forall spec_all cs
    end.
  Definition children_all (e : expr) : Prop :=
    match e with
    | ENull _ | EBool _ _ | ESelf _ | EDollar _ | EString _ _ | ETextBlock _ _ | ENumber _ _
    | ESuperField _ _ _ | EIdent _ _ => True
    | EParen _ x | EField _ x _ | EUnary _ _ x | EImport _ x | EImportStr _ x
    | EImportBin _ x | EError _ x | EInSuper _ x _ | ESuperIndex _ _ x => P x
    | EObject _ o => obj_all o
    | EArray _ items => Forall P items
    | EArrayComp _ x cs => P x /\ Forall spec_all cs
    | EIndex _ a b | EBinary _ a _ b => P a /\ P b
    | ESlice _ x a b c => P x /\ opt_all a /\ opt_all b /\ opt_all c
    | ECall _ f args _ => P f /\ Forall arg_all args
    | ELocal _ bs x => Forall bind_all bs /\ P x
    | EIf _ c t f => P c /\ P t /\ opt_all f
    | EObjExt _ x o _ => P x /\ obj_all o
    | EFunc _ ps x => Forall param_all ps /\ P x
    | EAssert _ a x => assert_all a /\ P x
    end.

  Section Rec.
    Variable rec : forall e, P e.
    Definition list_rec' {A} (Q : A -> Prop) (f : forall a, Q a) : forall l, Forall Q l :=
      fix go l := match l with [] => Forall_nil Q | x :: t => Forall_cons x (f x) (go t) end.
    Definition opt_rec (o : option expr) : opt_all o :=
      match o with Some x => rec x | None => I end.
    Definition param_rec (p : param) : param_all p := match p with MkParam _ d => opt_rec d end.
    Definition optparams_rec (ps : option (list param * span)) : optparams_all ps :=
      match ps with Some q => list_rec' param_all param_rec (fst q) | None => I end.
    Definition bind_rec (b : bind) : bind_all b :=
      match b with MkBind _ ps v => conj (optparams_rec ps) (rec v) end.
    Definition assert_rec (a : assert_) : assert_all a :=
      match a with MkAssert _ c m => conj (rec c) (opt_rec m) end.
    Definition spec_rec (c : comp_spec) : spec_all c :=
      match c with CFor _ e => rec e | CIf e => rec e end.
    Definition fname_rec (n : field_name) : fname_all n :=
      match n with FnExpr e _ => rec e | FnIdent _ => I | FnString _ _ => I end.
    Definition field_rec (f : field) : field_all f :=
      match f with
      | FValue n _ _ v => conj (fname_rec n) (rec v)
      | FFunc n ps _ _ v => conj (fname_rec n) (conj (list_rec' param_all param_rec ps) (rec v))
      end.
    Definition member_rec (m : member) : member_all m :=
      match m with MLocal b => bind_rec b | MAssert a => assert_rec a | MField f => field_rec f end.
    Definition arg_rec (a : arg) : arg_all a :=
      match a with APositional e => rec e | ANamed _ e => rec e end.
    Definition obj_rec (o : obj_inside) : obj_all o :=
      match o with
      | OMembers ms => list_rec' member_all member_rec ms
      | OComp l1 n _ b l2 cs =>
          conj (list_rec' bind_all bind_rec l1)
               (conj (rec n) (conj (rec b) (conj (list_rec' bind_all bind_rec l2)
                                                 (list_rec' spec_all spec_rec cs))))
      end.
  End Rec.

  Hypothesis step : forall e, children_all e -> P e.

  Fixpoint expr_ind' (e : expr) {struct e} : P e :=
    step e
      (match e as e0 return children_all e0 with
       | ENull _ | EBool _ _ | ESelf _ | EDollar _ | EString _ _ | ETextBlock _ _ | ENumber _ _
       | ESuperField _ _ _ | EIdent _ _ => I
       | EParen _ x | EField _ x _ | EUnary _ _ x | EImport _ x | EImportStr _ x
       | EImportBin _ x | EError _ x | EInSuper _ x _ | ESuperIndex _ _ x => expr_ind' x
       | EObject _ o => obj_rec expr_ind' o
       | EArray _ items => list_rec' P expr_ind' items
       | EArrayComp _ x cs => conj (expr_ind' x) (list_rec' spec_all (spec_rec expr_ind') cs)
       | EIndex _ a b | EBinary _ a _ b => conj (expr_ind' a) (expr_ind' b)
       | ESlice _ x a b c =>
           conj (expr_ind' x) (conj (opt_rec expr_ind' a) (conj (opt_rec expr_ind' b) (opt_rec expr_ind' c)))
       | ECall _ f args _ => conj (expr_ind' f) (list_rec' arg_all (arg_rec expr_ind') args)
       | ELocal _ bs x => conj (list_rec' bind_all (bind_rec expr_ind') bs) (expr_ind' x)
       | EIf _ c t f => conj (expr_ind' c) (conj (expr_ind' t) (opt_rec expr_ind' f))
       | EObjExt _ x o _ => conj (expr_ind' x) (obj_rec expr_ind' o)
       | EFunc _ ps x => conj (list_rec' param_all (param_rec expr_ind') ps) (expr_ind' x)
       | EAssert _ a x => conj (assert_rec expr_ind' a) (expr_ind' x)
       end).
End All.

(* ---- the [_all] family is monotone and closed under modus ponens ---- *)
Lemma Forall_mp {A} (P Q : A -> Prop) l :
  Forall (fun x => P x -> Q x) l -> Forall P l -> Forall Q l.
Proof. induction 1; intros H1; inversion H1; subst; constructor; auto. Qed.

Lemma Forall_mp3 {A} (R P Q : A -> Prop) l :
  (forall x, R x -> P x -> Q x) -> Forall R l -> Forall P l -> Forall Q l.
Proof. intros H HR; induction HR; intros HP; inversion HP; subst; constructor; auto. Qed.

Section AllMp.
  Variables A B : expr -> Prop.
  Let AB := fun e => A e -> B e.
  Lemma opt_all_mp o : opt_all AB o -> opt_all A o -> opt_all B o.
  Proof. destruct o; simpl; auto. Qed.
  Lemma param_all_mp p : param_all AB p -> param_all A p -> param_all B p.
  Proof. destruct p; simpl; apply opt_all_mp. Qed.
  Lemma params_all_mp l : Forall (param_all AB) l -> Forall (param_all A) l -> Forall (param_all B) l.
  Proof. apply Forall_mp3. apply param_all_mp. Qed.
  Lemma bind_all_mp b : bind_all AB b -> bind_all A b -> bind_all B b.
  Proof.
    destruct b as [n ps v]; simpl; intros [H1 H2] [H3 H4]; split; auto.
    destruct ps as [q|]; simpl in *; auto. revert H3; apply params_all_mp; auto.
  Qed.
  Lemma binds_all_mp l : Forall (bind_all AB) l -> Forall (bind_all A) l -> Forall (bind_all B) l.
  Proof. apply Forall_mp3. apply bind_all_mp. Qed.
  Lemma assert_all_mp a : assert_all AB a -> assert_all A a -> assert_all B a.
  Proof. destruct a; simpl; intros [H1 H2] [H3 H4]; split; auto. revert H4; apply opt_all_mp; auto. Qed.
  Lemma spec_all_mp c : spec_all AB c -> spec_all A c -> spec_all B c.
  Proof. destruct c; simpl; auto. Qed.
  Lemma specs_all_mp l : Forall (spec_all AB) l -> Forall (spec_all A) l -> Forall (spec_all B) l.
  Proof. apply Forall_mp3. apply spec_all_mp. Qed.
  Lemma fname_all_mp n : fname_all AB n -> fname_all A n -> fname_all B n.
  Proof. destruct n; simpl; auto. Qed.
  Lemma field_all_mp f : field_all AB f -> field_all A f -> field_all B f.
  Proof.
    destruct f; simpl.
    - intros [H1 H2] [H3 H4]; split; auto. revert H3; apply fname_all_mp; auto.
    - intros [H1 [H2 H2']] [H3 [H4 H4']]; repeat split; auto.
      + revert H3; apply fname_all_mp; auto.
      + revert H4; apply params_all_mp; auto.
  Qed.
  Lemma member_all_mp m : member_all AB m -> member_all A m -> member_all B m.
  Proof. destruct m; simpl; [apply bind_all_mp | apply assert_all_mp | apply field_all_mp]. Qed.
  Lemma arg_all_mp a : arg_all AB a -> arg_all A a -> arg_all B a.
  Proof. destruct a; simpl; auto. Qed.
  Lemma obj_all_mp o : obj_all AB o -> obj_all A o -> obj_all B o.
  Proof.
    destruct o; simpl.
    - apply Forall_mp3. apply member_all_mp.
    - intros (H1 & H2 & H3 & H4 & H5) (G1 & G2 & G3 & G4 & G5); repeat split; auto.
      + revert G1; apply binds_all_mp; auto.
      + revert G4; apply binds_all_mp; auto.
      + revert G5; apply specs_all_mp; auto.
  Qed.
  Lemma children_all_mp e : children_all AB e -> children_all A e -> children_all B e.
  Proof.
    destruct e; simpl; auto;
      repeat match goal with
             | |- _ /\ _ -> _ => intros [? ?]
             | |- _ -> _ => intro
             | H : _ /\ _ |- _ => destruct H
             end;
      repeat split;
      try (match goal with
           | H : AB ?x, G : A ?x |- B ?x => exact (H G)
           | H : opt_all AB ?o, G : opt_all A ?o |- opt_all B ?o => exact (opt_all_mp _ H G)
           | H : obj_all AB ?o, G : obj_all A ?o |- obj_all B ?o => exact (obj_all_mp _ H G)
           | H : assert_all AB ?o, G : assert_all A ?o |- _ => exact (assert_all_mp _ H G)
           | H : Forall (param_all AB) ?l, G : Forall (param_all A) ?l |- _ => exact (params_all_mp _ H G)
           | H : Forall (bind_all AB) ?l, G : Forall (bind_all A) ?l |- _ => exact (binds_all_mp _ H G)
           | H : Forall (spec_all AB) ?l, G : Forall (spec_all A) ?l |- _ => exact (specs_all_mp _ H G)
           end).
    - revert H0; apply Forall_mp; auto.
    - revert H2; revert H0; apply Forall_mp3. apply arg_all_mp.
  Qed.
End AllMp.

(* ---- every number literal of the children is fine when the node's are ---- *)
Definition NumsOK (e : expr) : Prop := nums_ok e = true.

Lemma forallb_flat {A B} (f : B -> bool) (g : A -> list B) l :
  forallb f (flat g l) = true -> Forall (fun x => forallb f (g x) = true) l.
Proof.
  induction l as [|x t IH]; simpl; intros H; constructor.
  - rewrite forallb_app in H. apply andb_true_iff in H. tauto.
  - apply IH. rewrite forallb_app in H. apply andb_true_iff in H. tauto.
Qed.

Ltac split_forallb :=
  repeat match goal with
         | H : forallb _ (_ ++ _) = true |- _ => rewrite forallb_app in H; apply andb_true_iff in H; destruct H
         | H : forallb _ (_ :: _) = true |- _ => simpl in H; apply andb_true_iff in H; destruct H
         end.

Lemma nums_opt o : forallb node_num_ok (opt_list nodes o) = true -> opt_all NumsOK o.
Proof. destruct o; simpl; auto. Qed.
Lemma nums_param p : forallb node_num_ok (param_nodes nodes p) = true -> param_all NumsOK p.
Proof. destruct p; simpl; apply nums_opt. Qed.
Lemma nums_params l : forallb node_num_ok (flat (param_nodes nodes) l) = true -> Forall (param_all NumsOK) l.
Proof. intros H. apply forallb_flat in H. revert H. apply Forall_impl. intros p. apply nums_param. Qed.
Lemma nums_bind b : forallb node_num_ok (bind_nodes nodes b) = true -> bind_all NumsOK b.
Proof.
  destruct b as [n ps v]; simpl; intros H. split_forallb. split; auto.
  destruct ps as [[l sp]|]; simpl in *; auto. apply nums_params; auto.
Qed.
Lemma nums_binds l : forallb node_num_ok (flat (bind_nodes nodes) l) = true -> Forall (bind_all NumsOK) l.
Proof. intros H. apply forallb_flat in H. revert H. apply Forall_impl. intros p. apply nums_bind. Qed.
Lemma nums_assert a : forallb node_num_ok (assert_nodes nodes a) = true -> assert_all NumsOK a.
Proof. destruct a; simpl; intros H; split_forallb; split; auto. apply nums_opt; auto. Qed.
Lemma nums_spec c : forallb node_num_ok (spec_nodes nodes c) = true -> spec_all NumsOK c.
Proof. destruct c; simpl; auto. Qed.
Lemma nums_specs l : forallb node_num_ok (flat (spec_nodes nodes) l) = true -> Forall (spec_all NumsOK) l.
Proof. intros H. apply forallb_flat in H. revert H. apply Forall_impl. intros p. apply nums_spec. Qed.
Lemma nums_fname n : forallb node_num_ok (fname_nodes nodes n) = true -> fname_all NumsOK n.
Proof. destruct n; simpl; auto. Qed.
Lemma nums_field f : forallb node_num_ok (field_nodes nodes f) = true -> field_all NumsOK f.
Proof.
  destruct f; simpl; intros H; split_forallb; repeat split; auto using nums_fname, nums_params.
Qed.
Lemma nums_member m : forallb node_num_ok (member_nodes nodes m) = true -> member_all NumsOK m.
Proof. destruct m; simpl; [apply nums_bind | apply nums_assert | apply nums_field]. Qed.
Lemma nums_arg a : forallb node_num_ok (arg_nodes nodes a) = true -> arg_all NumsOK a.
Proof. destruct a; simpl; auto. Qed.
Lemma nums_obj o : forallb node_num_ok (obj_nodes nodes o) = true -> obj_all NumsOK o.
Proof.
  destruct o; simpl; intros H.
  - apply forallb_flat in H. revert H. apply Forall_impl. intros p. apply nums_member.
  - split_forallb. repeat split; auto using nums_binds, nums_specs.
Qed.

Lemma nums_children e : NumsOK e -> node_num_ok e = true /\ children_all NumsOK e.
Proof.
  unfold NumsOK at 1, nums_ok. destruct e; simpl; intros H;
    try (apply andb_true_iff in H; destruct H as [H0 H]); split; auto; split_forallb;
    repeat split; auto using nums_opt, nums_obj, nums_specs, nums_binds, nums_params, nums_assert.
  - match goal with H : forallb _ (flat nodes _) = true |- _ => apply forallb_flat in H; exact H end.
  - match goal with H : forallb _ (flat (arg_nodes nodes) _) = true |- _ =>
      apply forallb_flat in H; revert H; apply Forall_impl; intros p; apply nums_arg end.
Qed.

(* induction restricted to trees whose number literals convert *)
Theorem expr_ind_nums (Q : expr -> Prop) :
  (forall e, node_num_ok e = true -> children_all Q e -> Q e) ->
  forall e, NumsOK e -> Q e.
Proof.
  intros step e. induction e using expr_ind'. intros Hn.
  destruct (nums_children e Hn) as [H0 Hc].
  apply step; auto. exact (children_all_mp _ _ e H Hc).
Qed.

(* ====================================================================
   2. Basic facts: outcomes, environments, the names loop
   ==================================================================== *)
Definition IsOk {A} (x : res A) : Prop := exists a, x = Ok a.

Lemma IsOk_Ok {A} (a : A) : IsOk (Ok a : res A).
Proof. eexists; reflexivity. Qed.
Lemma IsOk_eq {A} (x : res A) a : x = Ok a -> IsOk x.
Proof. intros ->; apply IsOk_Ok. Qed.
Lemma IsOk_Err {A} e : ~ IsOk (Err e : res A).
Proof. intros [a H]; discriminate. Qed.
Lemma IsOk_Panic {A} s : ~ IsOk (Panic s : res A).
Proof. intros [a H]; discriminate. Qed.
Lemma IsOk_bind_inv {A B} (x : res A) (f : A -> res B) :
  IsOk (obind x f) -> exists a, x = Ok a /\ IsOk (f a).
Proof. destruct x; simpl; intros [b H]; try discriminate. exists a; split; auto. exists b; auto. Qed.
Lemma IsOk_bind_intro {A B} (x : res A) (f : A -> res B) :
  IsOk x -> (forall a, x = Ok a -> IsOk (f a)) -> IsOk (obind x f).
Proof. intros [a ->] H. simpl. apply H; reflexivity. Qed.
Lemma IsOk_is_ok {A} (x : res A) : IsOk x <-> is_ok x = true.
Proof. destruct x; simpl; split; intros H; try discriminate; try (destruct H; discriminate); auto using IsOk_Ok. Qed.

Ltac okinv H :=
  let a := fresh "r" in let E := fresh "E" in
  apply IsOk_bind_inv in H; destruct H as (a & E & H).

Definition same_set (L vs : list str) : Prop := forall x, In x L <-> In x vs.

Lemma same_set_refl L : same_set L L.
Proof. intros x; tauto. Qed.
Lemma same_set_cons n L vs : same_set L vs -> same_set (n :: L) (n :: vs).
Proof. intros H x; simpl; rewrite (H x); tauto. Qed.
Lemma same_set_rev_app names L vs : same_set L vs -> same_set (rev names ++ L) (names ++ vs).
Proof. intros H x. rewrite !in_app_iff, <- in_rev, (H x). tauto. Qed.

Lemma env_contains_In io L n : env_contains (mk_env io L) n = true <-> In n L.
Proof.
  unfold env_contains; simpl. rewrite existsb_exists. split.
  - intros (y & Hy & He). apply str_eqb_eq in He. subst; auto.
  - intros H. exists n; split; auto. apply str_eqb_eq; reflexivity.
Qed.

Definition keys {A} (l : list (str * A)) : list str := map fst l.

Lemma assoc_None {A} n (l : list (str * A)) : assoc n l = None <-> ~ In n (keys l).
Proof.
  induction l as [|[k v] t IH]; simpl; [tauto|].
  destruct (str_eqb n k) eqn:E.
  - apply str_eqb_eq in E; subst. split; [discriminate | intros H; exfalso; apply H; auto].
  - rewrite IH. split; intros H; [intros [H1|H1]; auto; subst; rewrite (proj2 (str_eqb_eq n n) eq_refl) in E; discriminate | tauto].
Qed.

Lemma assoc_Some_In {A} n (l : list (str * A)) v : assoc n l = Some v -> In (n, v) l.
Proof.
  induction l as [|[k w] t IH]; simpl; [discriminate|].
  destruct (str_eqb n k) eqn:E.
  - apply str_eqb_eq in E; subst. intros H; injection H as ->; auto.
  - auto.
Qed.

(* the names loop: succeeds exactly when the names are pairwise distinct (and new) *)
Lemma declare_names_ok mk ids : forall seen e,
  IsOk (declare_names mk ids seen e) <->
  NoDup (map id_value ids) /\ (forall n, In n (map id_value ids) -> ~ In n (keys seen)).
Proof.
  induction ids as [|i rest IH]; intros seen e; simpl.
  - split; [intros _; split; [constructor | tauto] | intros _; apply IsOk_Ok].
  - destruct (assoc (id_value i) seen) as [orig|] eqn:E.
    + split; [intros H; exfalso; exact (IsOk_Err _ H)|].
      intros [_ H]. exfalso. apply (H (id_value i)); auto.
      apply assoc_Some_In in E. unfold keys. apply in_map_iff. exists (id_value i, orig); auto.
    + rewrite IH. simpl. apply assoc_None in E. split.
      * intros [H1 H2]. split.
        -- constructor; auto. intros Hin. apply (H2 _ Hin). auto.
        -- intros n [Hn|Hn]; [subst; auto|]. intros Hk. apply (H2 _ Hn). auto.
      * intros [H1 H2]. inversion H1; subst. split; auto.
        intros n Hn [Hk|Hk]; [subst; auto | apply (H2 n); auto].
Qed.

Lemma declare_names_env mk ids : forall seen e e',
  declare_names mk ids seen e = Ok e' ->
  e' = mk_env (is_obj e) (rev (map id_value ids) ++ vars e).
Proof.
  induction ids as [|i rest IH]; intros seen e e'; simpl.
  - intros H; injection H as <-. destruct e; reflexivity.
  - destruct (assoc (id_value i) seen); [discriminate|].
    intros H. apply IH in H. subst e'. simpl. rewrite <- app_assoc. reflexivity.
Qed.

Lemma bind_declare {B} mk ids io L (k : env -> res B) :
  IsOk (do inner <- declare_names mk ids [] (mk_env io L); k inner) <->
  NoDup (map id_value ids) /\ IsOk (k (mk_env io (rev (map id_value ids) ++ L))).
Proof.
  split.
  - intros H. okinv H. pose proof (declare_names_env _ _ _ _ _ E) as ->. simpl in H.
    split; auto. apply (declare_names_ok mk ids [] (mk_env io L)). eexists; eauto.
  - intros [H1 H2]. apply IsOk_bind_intro.
    + apply declare_names_ok. split; auto.
    + intros a Ha. pose proof (declare_names_env _ _ _ _ _ Ha) as ->. exact H2.
Qed.

Lemma mapM_ok {A B} (f : A -> res B) l : IsOk (mapM f l) <-> Forall (fun x => IsOk (f x)) l.
Proof.
  induction l as [|x t IH]; simpl.
  - split; [constructor | intros _; apply IsOk_Ok].
  - split.
    + intros H. okinv H. okinv H. constructor; [eapply IsOk_eq; eauto | apply IH; eapply IsOk_eq; eauto].
    + intros H. inversion H; subst. apply IsOk_bind_intro; auto. intros a _.
      apply IsOk_bind_intro; [apply IH; auto | intros; apply IsOk_Ok].
Qed.

(* ====================================================================
   3. analyze succeeds exactly on statically correct programs
   ==================================================================== *)
Definition Q (e : expr) : Prop :=
  forall L vs io ts, same_set L vs ->
    (IsOk (analyze_expr e (mk_env io L) ts) <-> StaticOK vs io e).

Lemma optM_exact o L vs io ts : opt_all Q o -> same_set L vs ->
  (IsOk (optM (fun x => analyze_expr x (mk_env io L) ts) o) <->
   (forall x, o = Some x -> StaticOK vs io x)).
Proof.
  destruct o as [y|]; simpl; intros Hq Hs.
  - split.
    + intros H x Hx. injection Hx as <-. okinv H. eapply Hq; eauto. eapply IsOk_eq; eauto.
    + intros H. apply IsOk_bind_intro; [eapply Hq; eauto | intros; apply IsOk_Ok].
  - split; intros; [discriminate | apply IsOk_Ok].
Qed.

Lemma param_exact p L vs io : param_all Q p -> same_set L vs ->
  (IsOk (analyze_param_with analyze_expr (mk_env io L) p) <-> ParamOK vs io p).
Proof.
  destruct p as [n d]; simpl; intros Hq Hs. split.
  - intros H. okinv H. assert (Ho : IsOk (optM (fun x => analyze_expr x (mk_env io L) false) d)) by (eapply IsOk_eq; eauto).
    destruct d; [constructor | constructor]. eapply (optM_exact (Some e)); eauto.
  - intros H. apply IsOk_bind_intro; [| intros; apply IsOk_Ok].
    eapply optM_exact; eauto. intros x ->. inversion H; subst; auto.
Qed.

Lemma map_param_ident ps : map id_value (map param_ident ps) = map param_name ps.
Proof. rewrite map_map. reflexivity. Qed.
Lemma map_bind_ident bs : map id_value (map bind_ident bs) = map bind_name bs.
Proof. rewrite map_map. reflexivity. Qed.

Lemma function_exact ps body L vs io : Forall (param_all Q) ps -> Q body -> same_set L vs ->
  (IsOk (analyze_function_with analyze_expr ps body (mk_env io L)) <-> FunctionOK vs io ps body).
Proof.
  intros Hps Hb Hs. unfold analyze_function_with. rewrite bind_declare, map_param_ident.
  assert (Hs' : same_set (rev (map param_name ps) ++ L) (map param_name ps ++ vs))
    by (apply same_set_rev_app; auto).
  split.
  - intros [Hnd H]. okinv H. okinv H. constructor; auto.
    + apply IsOk_eq, mapM_ok in E. revert E. revert Hps. apply Forall_mp3.
      intros p Hp Hok. eapply param_exact; eauto.
    + eapply Hb; eauto. eapply IsOk_eq; eauto.
  - intros H; inversion H; subst. split; auto. apply IsOk_bind_intro.
    + apply mapM_ok. revert H1. revert Hps. apply Forall_mp3.
      intros p Hp Hok. eapply param_exact; eauto.
    + intros a _. apply IsOk_bind_intro; [eapply Hb; eauto | intros; apply IsOk_Ok].
Qed.

Lemma bind_exact b L vs io : bind_all Q b -> same_set L vs ->
  (IsOk (analyze_bind_with analyze_expr (mk_env io L) b) <-> BindOK vs io b).
Proof.
  destruct b as [n ps v]; simpl; intros [Hps Hv] Hs. destruct ps as [[l sp]|]; simpl in *.
  - split.
    + intros H. okinv H. constructor. eapply function_exact; eauto. eapply IsOk_eq; eauto.
    + intros H. inversion H; subst. apply IsOk_bind_intro; [eapply function_exact; eauto | intros; apply IsOk_Ok].
  - split.
    + intros H. okinv H. constructor. eapply Hv; eauto. eapply IsOk_eq; eauto.
    + intros H. inversion H; subst. apply IsOk_bind_intro; [eapply Hv; eauto | intros; apply IsOk_Ok].
Qed.

Lemma binds_exact bs L vs io : Forall (bind_all Q) bs -> same_set L vs ->
  (IsOk (mapM (analyze_bind_with analyze_expr (mk_env io L)) bs) <-> Forall (BindOK vs io) bs).
Proof.
  intros Hq Hs. rewrite mapM_ok. split; intros H; revert H; revert Hq; apply Forall_mp3;
    intros b Hb H; eapply bind_exact; eauto.
Qed.

Lemma assert_exact a L vs io : assert_all Q a -> same_set L vs ->
  (IsOk (analyze_assert_with analyze_expr a (mk_env io L)) <-> AssertOK vs io a).
Proof.
  destruct a as [sp c m]; simpl; intros [Hc Hm] Hs. split.
  - intros H. okinv H. okinv H. constructor.
    + eapply Hc; eauto. eapply IsOk_eq; eauto.
    + eapply optM_exact; eauto. eapply IsOk_eq; eauto.
  - intros H. inversion H; subst. apply IsOk_bind_intro; [eapply Hc; eauto | intros a _].
    apply IsOk_bind_intro; [eapply optM_exact; eauto | intros; apply IsOk_Ok].
Qed.

(* the scope the clauses of a comprehension leave behind *)
Fixpoint specs_out (vs : list str) (cs : list comp_spec) : list str :=
  match cs with
  | [] => vs
  | CFor v _ :: rest => specs_out (id_value v :: vs) rest
  | CIf _ :: rest => specs_out vs rest
  end.

Lemma SpecsOK_out vs io cs vs' : SpecsOK vs io cs vs' -> vs' = specs_out vs cs.
Proof.
  revert vs. induction cs as [|c rest IH]; intros vs H; inversion H; subst; simpl; auto.
Qed.

Lemma specs_out_same cs : forall L vs, same_set L vs -> same_set (specs_out L cs) (specs_out vs cs).
Proof.
  induction cs as [|[v e|e] rest IH]; intros L vs Hs; simpl; auto. apply IH, same_set_cons; auto.
Qed.

Lemma comp_spec_env cs : forall io L r,
  analyze_comp_spec_with analyze_expr cs (mk_env io L) = Ok r -> snd r = mk_env io (specs_out L cs).
Proof.
  induction cs as [|[v e|e] rest IH]; intros io L r; simpl.
  - intros H; injection H as <-; reflexivity.
  - destruct (analyze_expr e (mk_env io L) false); simpl; try discriminate.
    unfold env_insert; simpl.
    destruct (analyze_comp_spec_with analyze_expr rest (mk_env io (id_value v :: L))) eqn:E; simpl; try discriminate.
    intros H; injection H as <-; simpl. eapply IH; eauto.
  - destruct (analyze_expr e (mk_env io L) false); simpl; try discriminate.
    destruct (analyze_comp_spec_with analyze_expr rest (mk_env io L)) eqn:E; simpl; try discriminate.
    intros H; injection H as <-; simpl. eapply IH; eauto.
Qed.

Lemma specs_exact cs io : Forall (spec_all Q) cs -> forall L vs, same_set L vs ->
  (IsOk (analyze_comp_spec_with analyze_expr cs (mk_env io L)) <-> SpecsOK vs io cs (specs_out vs cs)).
Proof.
  induction 1 as [|c rest Hc Hrest IH]; intros L vs Hs; simpl.
  - split; [constructor | intros; apply IsOk_Ok].
  - destruct c as [v e|e]; simpl in Hc.
    + split.
      * intros H0. okinv H0. okinv H0. constructor.
        -- eapply Hc; eauto. eapply IsOk_eq; eauto.
        -- eapply (IH (id_value v :: L)); [apply same_set_cons; eauto | eapply IsOk_eq; eauto].
      * intros H0. inversion H0; subst. apply IsOk_bind_intro; [eapply Hc; eauto | intros a _].
        apply IsOk_bind_intro; [| intros; apply IsOk_Ok].
        eapply (IH (id_value v :: L)); [apply same_set_cons; eauto | auto].
    + split.
      * intros H0. okinv H0. okinv H0. constructor.
        -- eapply Hc; eauto. eapply IsOk_eq; eauto.
        -- eapply IH; eauto. eapply IsOk_eq; eauto.
      * intros H0. inversion H0; subst. apply IsOk_bind_intro; [eapply Hc; eauto | intros a _].
        apply IsOk_bind_intro; [| intros; apply IsOk_Ok]. eapply IH; eauto.
Qed.

(* ---- call arguments ---- *)
Lemma positional_first_pos e rest : positional_first (APositional e :: rest) <-> positional_first rest.
Proof.
  split.
  - intros (ps & ns & Heq & Hp & Hn). destruct ps as [|p ps]; simpl in Heq.
    + subst ns. inversion Hn; subst. simpl in *. tauto.
    + injection Heq as Hp1 Hr; subst. inversion Hp; subst. exists ps, ns; auto.
  - intros (ps & ns & -> & Hp & Hn). exists (APositional e :: ps), ns. repeat split; auto.
    constructor; simpl; auto.
Qed.

Lemma positional_first_named n e rest : positional_first (ANamed n e :: rest) <-> Forall is_named rest.
Proof.
  split.
  - intros (ps & ns & Heq & Hp & Hn). destruct ps as [|p ps]; simpl in Heq.
    + subst ns. inversion Hn; subst; auto.
    + injection Heq as Hp1 Hr; subst. inversion Hp; subst. simpl in *. tauto.
  - intros H. exists [], (ANamed n e :: rest). repeat split; auto. constructor; simpl; auto.
Qed.

Lemma args_exact args L vs io : Forall (arg_all Q) args -> same_set L vs -> forall pos named,
  (IsOk (analyze_args_with analyze_expr (mk_env io L) args pos named) <->
   Forall (ArgOK vs io) args /\
   match named with [] => positional_first args | _ :: _ => Forall is_named args end).
Proof.
  intros Hq Hs. induction Hq as [|a rest Ha Hrest IH]; intros pos named; simpl.
  - split; [intros _; split; [constructor|] | intros; apply IsOk_Ok].
    destruct named; [exists [], []; repeat split; constructor | constructor].
  - destruct a as [e|n e]; simpl in Ha.
    + destruct named as [|nm named].
      * split.
        -- intros H. okinv H. apply IH in H. destruct H as [H1 H2]. simpl in H2. split.
           ++ constructor; auto. constructor. eapply Ha; eauto. eapply IsOk_eq; eauto.
           ++ apply positional_first_pos. exact H2.
        -- intros [H1 H2]. inversion H1; subst. inversion H3; subst.
           apply IsOk_bind_intro; [eapply Ha; eauto | intros a _].
           apply IH. split; auto. exact (proj1 (positional_first_pos _ _) H2).
      * split; [intros H; exfalso; exact (IsOk_Err _ H)|].
        intros [_ H]. inversion H; subst. simpl in *. tauto.
    + split.
      * intros H. okinv H. apply IH in H. destruct H as [H1 H2].
        assert (Hn : Forall is_named rest) by (destruct named; simpl in H2; auto).
        split.
        -- constructor; auto. constructor. eapply Ha; eauto. eapply IsOk_eq; eauto.
        -- destruct named; [exact (proj2 (positional_first_named _ _ _) Hn) | constructor; simpl; auto].
      * intros [H1 H2]. inversion H1; subst. inversion H3; subst.
        apply IsOk_bind_intro; [eapply Ha; eauto | intros a _].
        apply IH. split; auto.
        assert (Hn : Forall is_named rest).
        { destruct named; [exact (proj1 (positional_first_named _ _ _) H2) | inversion H2; auto]. }
        destruct named; simpl; auto.
Qed.

(* ---- object members ---- *)
Definition fix_inv (fields : list ir_field) (fix_fields : list (str * nat)) : Prop :=
  forall n i, In (n, i) fix_fields -> (i < length fields)%nat.

Lemma fix_field_name_spec fields fixf name sp :
  fix_inv fields fixf ->
  match fix_field_name fields fixf name sp with
  | Ok (nm, sp', fixf') => ~ In name (keys fixf) /\ fixf' = (name, length fields) :: fixf
  | Err _ => In name (keys fixf)
  | _ => False
  end.
Proof.
  intros Hinv. unfold fix_field_name. destruct (assoc name fixf) as [idx|] eqn:E.
  - pose proof (assoc_Some_In _ _ _ E) as Hin. destruct (nth_error fields idx) eqn:En.
    + unfold keys. apply in_map_iff. exists (name, idx); auto.
    + apply nth_error_None in En. apply Hinv in Hin. lia.
  - split; auto. apply assoc_None; auto.
Qed.

Lemma fix_inv_grow fields fixf name f :
  fix_inv fields fixf -> fix_inv (fields ++ [f]) ((name, length fields) :: fixf).
Proof.
  intros H n i [Heq|Hin]; rewrite app_length; simpl.
  - injection Heq as <- <-. lia.
  - apply H in Hin. lia.
Qed.

Lemma fix_inv_keep fields fixf f : fix_inv fields fixf -> fix_inv (fields ++ [f]) fixf.
Proof. intros H n i Hin. rewrite app_length. apply H in Hin. lia. Qed.

Definition fname_static (n : field_name) : option str :=
  match n with FnIdent i => Some (id_value i) | FnString s _ => Some s | FnExpr _ _ => None end.

Lemma static_field_names_cons m rest :
  static_field_names (m :: rest) =
  match m with
  | MField f => match fname_static (field_fname f) with
                | Some s => s :: static_field_names rest
                | None => static_field_names rest
                end
  | _ => static_field_names rest
  end.
Proof. destruct m as [b|a|[[i|s sp|e sp] ? ? ?|[i|s sp|e sp] ? ? ? ?]]; reflexivity. Qed.

Lemma field_value_exact f L vs : field_all Q f -> same_set L vs ->
  (IsOk (analyze_field_value_with analyze_expr (mk_env true L) f) <->
   match f with
   | FValue _ _ _ v => StaticOK vs true v
   | FFunc _ ps _ _ v => FunctionOK vs true ps v
   end).
Proof.
  destruct f; simpl; intros Hq Hs.
  - destruct Hq as [_ Hv]. apply Hv; auto.
  - destruct Hq as (_ & Hps & Hv). apply function_exact; auto.
Qed.

Lemma field_name_ok n L vs io fields fixf : fname_all Q n -> same_set L vs -> fix_inv fields fixf ->
  (IsOk (analyze_field_name_with analyze_expr (mk_env io L) fields fixf n) <->
   FieldNameOK vs io n /\ (forall s, fname_static n = Some s -> ~ In s (keys fixf))).
Proof.
  intros Hq Hs Hinv. destruct n as [i|s sp|e sp]; simpl.
  - pose proof (fix_field_name_spec fields fixf (id_value i) (id_span i) Hinv) as H.
    destruct (fix_field_name fields fixf (id_value i) (id_span i)) as [[[nm sp'] fx]| | |].
    + split; [intros _; split; [constructor | intros s Hs'; injection Hs' as <-; tauto] | intros; apply IsOk_Ok].
    + split; [intros H0; exfalso; exact (IsOk_Err _ H0) | intros [_ H0]; exfalso; eapply H0; eauto].
    + contradiction.
    + contradiction.
  - pose proof (fix_field_name_spec fields fixf s sp Hinv) as H.
    destruct (fix_field_name fields fixf s sp) as [[[nm sp'] fx]| | |].
    + split; [intros _; split; [constructor | intros s' Hs'; injection Hs' as <-; tauto] | intros; apply IsOk_Ok].
    + split; [intros H0; exfalso; exact (IsOk_Err _ H0) | intros [_ H0]; exfalso; eapply H0; eauto].
    + contradiction.
    + contradiction.
  - simpl in Hq. split.
    + intros H. okinv H. split; [constructor | intros; discriminate].
      eapply Hq; eauto. eapply IsOk_eq; eauto.
    + intros [H _]. inversion H; subst. apply IsOk_bind_intro; [eapply Hq; eauto | intros; apply IsOk_Ok].
Qed.

Lemma field_name_res n en fields fixf r : fix_inv fields fixf ->
  analyze_field_name_with analyze_expr en fields fixf n = Ok r ->
  snd r = match fname_static n with Some s => (s, length fields) :: fixf | None => fixf end.
Proof.
  intros Hinv. destruct n as [i|s sp|e sp]; simpl.
  - pose proof (fix_field_name_spec fields fixf (id_value i) (id_span i) Hinv) as H.
    intros E; rewrite E in H. destruct r as [[nm sp'] fx]. simpl. tauto.
  - pose proof (fix_field_name_spec fields fixf s sp Hinv) as H.
    intros E; rewrite E in H. destruct r as [[nm sp'] fx]. simpl. tauto.
  - destruct (analyze_expr e en false); simpl; try discriminate. intros E; injection E as <-; reflexivity.
Qed.

Lemma member_field_ok vs io inner f :
  MemberOK vs io inner (MField f) <->
  FieldNameOK vs io (field_fname f) /\
  match f with
  | FValue _ _ _ v => StaticOK inner true v
  | FFunc _ ps _ _ v => FunctionOK inner true ps v
  end.
Proof.
  destruct f; simpl; split.
  - intros H; inversion H; subst; auto.
  - intros [H1 H2]; constructor; auto.
  - intros H; inversion H; subst; auto.
  - intros [H1 H2]; constructor; auto.
Qed.

Lemma members_exact ms L vs io Li inner : Forall (member_all Q) ms -> same_set L vs -> same_set Li inner ->
  forall locals asserts fields fixf, fix_inv fields fixf ->
  (IsOk (analyze_members_with analyze_expr (mk_env io L) (mk_env true Li) ms locals asserts fields fixf) <->
   Forall (MemberOK vs io inner) ms /\ NoDup (static_field_names ms) /\
   (forall s, In s (static_field_names ms) -> ~ In s (keys fixf))).
Proof.
  intros Hq Hs Hsi. induction Hq as [|m rest Hm Hrest IH]; intros locals asserts fields fixf Hinv.
  - simpl. split; [intros _; repeat split; [constructor | constructor | tauto] | intros; apply IsOk_Ok].
  - rewrite static_field_names_cons. destruct m as [b|a|f]; simpl in Hm; simpl analyze_members_with.
    + split.
      * intros H. okinv H. apply IH in H; auto. destruct H as (H1 & H2 & H3). repeat split; auto.
        constructor; auto. constructor. eapply bind_exact; eauto. eapply IsOk_eq; eauto.
      * intros (H1 & H2 & H3). inversion H1; subst. inversion H4; subst.
        apply IsOk_bind_intro; [eapply bind_exact; eauto | intros r _]. apply IH; auto.
    + split.
      * intros H. okinv H. apply IH in H; auto. destruct H as (H1 & H2 & H3). repeat split; auto.
        constructor; auto. constructor. eapply assert_exact; eauto. eapply IsOk_eq; eauto.
      * intros (H1 & H2 & H3). inversion H1; subst. inversion H4; subst.
        apply IsOk_bind_intro; [eapply assert_exact; eauto | intros r _]. apply IH; auto.
    + assert (Hfn : fname_all Q (field_fname f)) by (destruct f; simpl in *; tauto).
      split.
      * intros H. okinv H. okinv H.
        pose proof (field_name_res _ _ _ _ _ Hinv E0) as Hres.
        assert (Hnm : IsOk (analyze_field_name_with analyze_expr (mk_env io L) fields fixf (field_fname f)))
          by (eapply IsOk_eq; eauto).
        apply (field_name_ok _ L vs io fields fixf Hfn Hs Hinv) in Hnm. destruct Hnm as [Hn1 Hn2].
        assert (Hv : IsOk (analyze_field_value_with analyze_expr (mk_env true Li) f)) by (eapply IsOk_eq; eauto).
        apply (field_value_exact f Li inner Hm Hsi) in Hv.
        assert (Hmem : MemberOK vs io inner (MField f)) by (apply member_field_ok; auto).
        rewrite Hres in H. destruct (fname_static (field_fname f)) as [s|].
        -- apply IH in H; [| apply fix_inv_grow; auto]. destruct H as (H1 & H2 & H3).
           repeat split; auto.
           ++ constructor; auto. intros Hin. apply (H3 _ Hin). simpl; auto.
           ++ intros x [<-|Hx]; [apply Hn2; auto|]. intros Hk. apply (H3 _ Hx). simpl; auto.
        -- apply IH in H; [| apply fix_inv_keep; auto]. destruct H as (H1 & H2 & H3).
           repeat split; auto.
      * intros (H1 & H2 & H3). inversion H1; subst. apply member_field_ok in H4. destruct H4 as [Hn Hv].
        apply IsOk_bind_intro; [eapply field_value_exact; eauto | intros value _].
        destruct (fname_static (field_fname f)) as [s|] eqn:Est.
        -- assert (Hnm : IsOk (analyze_field_name_with analyze_expr (mk_env io L) fields fixf (field_fname f))).
           { apply (proj2 (field_name_ok _ L vs io fields fixf Hfn Hs Hinv)). split; auto. intros s' Hst. rewrite Est in Hst. injection Hst as <-.
             apply H3. simpl; auto. }
           apply IsOk_bind_intro; auto. intros nm Enm.
           rewrite (field_name_res _ _ _ _ _ Hinv Enm), Est.
           inversion H2; subst. apply IH; [apply fix_inv_grow; auto|]. repeat split; auto.
           intros x Hx [Hk|Hk]; [simpl in Hk; subst; auto | apply (H3 x); simpl; auto].
        -- assert (Hnm : IsOk (analyze_field_name_with analyze_expr (mk_env io L) fields fixf (field_fname f))).
           { apply (proj2 (field_name_ok _ L vs io fields fixf Hfn Hs Hinv)). split; auto. intros s' Hst. rewrite Est in Hst. discriminate. }
           apply IsOk_bind_intro; auto. intros nm Enm.
           rewrite (field_name_res _ _ _ _ _ Hinv Enm), Est.
           apply IH; [apply fix_inv_keep; auto|]. repeat split; auto.
Qed.

Lemma fix_inv_nil : fix_inv [] [].
Proof. intros n i []. Qed.

Lemma objinside_exact o L vs io : obj_all Q o -> same_set L vs ->
  (IsOk (analyze_objinside_with analyze_expr o (mk_env io L)) <-> ObjOK vs io o).
Proof.
  destruct o as [ms | l1 name plus body l2 cs]; simpl; intros Hq Hs.
  - unfold env_set_obj; simpl. rewrite bind_declare, map_bind_ident.
    assert (Hs' : same_set (rev (map bind_name (member_locals ms)) ++ L) (map bind_name (member_locals ms) ++ vs))
      by (apply same_set_rev_app; auto).
    split.
    + intros [Hnd H]. okinv H.
      assert (Hm : IsOk (analyze_members_with analyze_expr (mk_env io L)
                          (mk_env true (rev (map bind_name (member_locals ms)) ++ L)) ms [] [] [] []))
        by (eapply IsOk_eq; eauto).
      eapply members_exact in Hm; eauto using fix_inv_nil. destruct Hm as (H1 & H2 & H3).
      constructor; auto.
    + intros H. inversion H; subst. split; auto.
      apply IsOk_bind_intro.
      * eapply members_exact; eauto using fix_inv_nil; repeat split; auto.
      * intros [[ls as_] fs] _. apply IsOk_Ok.
  - destruct Hq as (Hl1 & Hn & Hb & Hl2 & Hcs).
    assert (Hl : Forall (bind_all Q) (l1 ++ l2)) by (apply Forall_app; auto).
    split.
    + intros H. okinv H. destruct r as [parts e']. pose proof (comp_spec_env _ _ _ _ E) as He. simpl in He. subst e'.
      assert (Hsp : SpecsOK vs io cs (specs_out vs cs)) by (eapply specs_exact; eauto; eapply IsOk_eq; eauto).
      unfold env_set_obj in H; simpl in H. rewrite bind_declare, map_bind_ident in H. destruct H as [Hnd H].
      pose proof (specs_out_same cs _ _ Hs) as Hso.
      assert (Hs' : same_set (rev (map bind_name (l1 ++ l2)) ++ specs_out L cs) (map bind_name (l1 ++ l2) ++ specs_out vs cs))
        by (apply same_set_rev_app; auto).
      okinv H. okinv H. okinv H. okinv H.
      econstructor; eauto.
      * apply Forall_app. split.
        -- eapply binds_exact; eauto. eapply IsOk_eq; eauto.
        -- eapply binds_exact; eauto. eapply IsOk_eq; eauto.
      * eapply Hn; eauto. eapply IsOk_eq; eauto.
      * eapply Hb; eauto. eapply IsOk_eq; eauto.
    + intros H. inversion H; subst.
      match goal with Hx : SpecsOK _ _ _ ?v |- _ => pose proof (SpecsOK_out _ _ _ _ Hx); subst v end.
      pose proof (specs_out_same cs _ _ Hs) as Hso.
      assert (Hs' : same_set (rev (map bind_name (l1 ++ l2)) ++ specs_out L cs) (map bind_name (l1 ++ l2) ++ specs_out vs cs))
        by (apply same_set_rev_app; auto).
      apply IsOk_bind_intro; [eapply specs_exact; eauto|]. intros [parts e'] E.
      pose proof (comp_spec_env _ _ _ _ E) as He. simpl in He. subst e'.
      unfold env_set_obj; simpl. rewrite bind_declare, map_bind_ident. split; auto.
      match goal with Hx : Forall (BindOK _ _) (l1 ++ l2) |- _ => apply Forall_app in Hx; destruct Hx as [Hb1 Hb2] end.
      apply IsOk_bind_intro; [eapply binds_exact; eauto | intros ls1 _].
      apply IsOk_bind_intro; [eapply binds_exact; eauto | intros ls2 _].
      apply IsOk_bind_intro; [eapply Hn; eauto | intros fn _].
      apply IsOk_bind_intro; [eapply Hb; eauto | intros fv _]. apply IsOk_Ok.
Qed.

Ltac ok_of E := eapply IsOk_eq; exact E.

Lemma import_exact mk sp path vs io (C : span -> expr -> expr) :
  (forall psp s, StaticOK vs io (C sp (EString psp s))) ->
  (forall p, StaticOK vs io (C sp p) -> exists psp s, p = EString psp s) ->
  (IsOk (analyze_import mk sp path) <-> StaticOK vs io (C sp path)).
Proof.
  intros H1 H2. split.
  - destruct path; simpl; intros H; try (exfalso; exact (IsOk_Err _ H)). apply H1.
  - intros H. apply H2 in H. destruct H as (psp & s & ->). simpl. apply IsOk_Ok.
Qed.

Theorem analyze_Q : forall e, NumsOK e -> Q e.
Proof.
  apply expr_ind_nums. intros e Hnum Hc L vs io ts Hs.
  destruct e; simpl in Hc; simpl in Hnum; simpl analyze_expr.
  - (* ENull *) split; [constructor | intros; apply IsOk_Ok].
  - (* EBool *) split; [constructor | intros; apply IsOk_Ok].
  - (* ESelf *) destruct io; simpl; split; intros H;
      [constructor | apply IsOk_Ok | exfalso; exact (IsOk_Err _ H) | inversion H].
  - (* EDollar *) destruct io; simpl; split; intros H;
      [constructor | apply IsOk_Ok | exfalso; exact (IsOk_Err _ H) | inversion H].
  - (* EString *) split; [constructor | intros; apply IsOk_Ok].
  - (* ETextBlock *) split; [constructor | intros; apply IsOk_Ok].
  - (* ENumber *) rewrite Hnum. split; [constructor | intros; apply IsOk_Ok].
  - (* EParen *) split; intros H; [constructor; eapply Hc; eauto | inversion H; subst; eapply Hc; eauto].
  - (* EObject *) rewrite objinside_exact by eauto. split; intros H; [constructor; auto | inversion H; auto].
  - (* EArray *) split.
    + intros H. okinv H. apply IsOk_eq, mapM_ok in E. constructor. revert E. revert Hc. apply Forall_mp3.
      intros x Hx Hok. eapply Hx; eauto.
    + intros H. inversion H; subst. apply IsOk_bind_intro; [| intros; apply IsOk_Ok].
      apply mapM_ok. revert H3. revert Hc. apply Forall_mp3. intros x Hx Hok. eapply Hx; eauto.
  - (* EArrayComp *) destruct Hc as [Hb Hcs]. split.
    + intros H. okinv H. pose proof (comp_spec_env _ _ _ _ E) as He. rewrite He in H. okinv H.
      econstructor.
      * eapply specs_exact; eauto. ok_of E.
      * eapply Hb; [eapply specs_out_same; eauto | ok_of E0].
    + intros H. inversion H; subst.
      match goal with Hx : SpecsOK _ _ _ ?v |- _ => pose proof (SpecsOK_out _ _ _ _ Hx); subst v end.
      apply IsOk_bind_intro; [eapply specs_exact; eauto | intros r E].
      pose proof (comp_spec_env _ _ _ _ E) as He. rewrite He.
      apply IsOk_bind_intro; [| intros; apply IsOk_Ok].
      eapply Hb; [eapply specs_out_same; eauto | auto].
  - (* EField *) split.
    + intros H. okinv H. constructor. eapply Hc; eauto. ok_of E.
    + intros H. inversion H; subst. apply IsOk_bind_intro; [eapply Hc; eauto | intros; apply IsOk_Ok].
  - (* EIndex *) destruct Hc as [Ha Hb]. split.
    + intros H. okinv H. okinv H. constructor; [eapply Ha; eauto; ok_of E | eapply Hb; eauto; ok_of E0].
    + intros H. inversion H; subst. apply IsOk_bind_intro; [eapply Ha; eauto | intros ? _].
      apply IsOk_bind_intro; [eapply Hb; eauto | intros; apply IsOk_Ok].
  - (* ESlice *) destruct Hc as (Hx & Ha & Hb & Hcc). split.
    + intros H. okinv H. okinv H. okinv H. okinv H. constructor.
      * eapply Hx; eauto. ok_of E.
      * eapply optM_exact; eauto. ok_of E0.
      * eapply optM_exact; eauto. ok_of E1.
      * eapply optM_exact; eauto. ok_of E2.
    + intros H. inversion H; subst.
      apply IsOk_bind_intro; [eapply Hx; eauto | intros ? _].
      apply IsOk_bind_intro; [eapply optM_exact; eauto | intros ? _].
      apply IsOk_bind_intro; [eapply optM_exact; eauto | intros ? _].
      apply IsOk_bind_intro; [eapply optM_exact; eauto | intros; apply IsOk_Ok].
  - (* ESuperField *) destruct io; simpl; split; intros H;
      [constructor | apply IsOk_Ok | exfalso; exact (IsOk_Err _ H) | inversion H].
  - (* ESuperIndex *) destruct io; simpl; split; intros H.
    + okinv H. constructor. eapply Hc; eauto. ok_of E.
    + inversion H; subst. apply IsOk_bind_intro; [eapply Hc; eauto | intros; apply IsOk_Ok].
    + exfalso; exact (IsOk_Err _ H).
    + inversion H.
  - (* ECall *) destruct Hc as [Hf Hargs]. split.
    + intros H. okinv H. okinv H.
      assert (Ha : IsOk (analyze_args_with analyze_expr (mk_env io L) args [] [])) by ok_of E0.
      eapply args_exact in Ha; eauto. destruct Ha as [Ha1 Ha2].
      constructor; auto. eapply Hf; eauto. ok_of E.
    + intros H. inversion H; subst. apply IsOk_bind_intro; [eapply Hf; eauto | intros ? _].
      apply IsOk_bind_intro; [| intros; apply IsOk_Ok]. eapply args_exact; eauto.
  - (* EIdent *) destruct (env_contains (mk_env io L) (id_value name)) eqn:E.
    + apply env_contains_In in E. split; [intros _; constructor; apply Hs; auto | intros; apply IsOk_Ok].
    + split; [intros H; exfalso; exact (IsOk_Err _ H)|]. intros H. inversion H; subst.
      apply Hs in H3. apply env_contains_In with (io := io) in H3. congruence.
  - (* ELocal *) destruct Hc as [Hbs Hb]. rewrite bind_declare, map_bind_ident.
    assert (Hs' : same_set (rev (map bind_name binds) ++ L) (map bind_name binds ++ vs))
      by (apply same_set_rev_app; auto).
    split.
    + intros [Hnd H]. okinv H. okinv H. constructor; auto.
      * eapply binds_exact; eauto. ok_of E.
      * eapply Hb; eauto. ok_of E0.
    + intros H. inversion H; subst. split; auto.
      apply IsOk_bind_intro; [eapply binds_exact; eauto | intros ? _].
      apply IsOk_bind_intro; [eapply Hb; eauto | intros; apply IsOk_Ok].
  - (* EIf *) destruct Hc as (Hcc & Ht & Hf). split.
    + intros H. okinv H. okinv H. okinv H. constructor.
      * eapply Hcc; eauto. ok_of E.
      * eapply Ht; eauto. ok_of E0.
      * eapply optM_exact; eauto. ok_of E1.
    + intros H. inversion H; subst.
      apply IsOk_bind_intro; [eapply Hcc; eauto | intros ? _].
      apply IsOk_bind_intro; [eapply Ht; eauto | intros ? _].
      apply IsOk_bind_intro; [eapply optM_exact; eauto | intros; apply IsOk_Ok].
  - (* EBinary *) destruct Hc as [Ha Hb]. split.
    + intros H. okinv H. okinv H. constructor; [eapply Ha; eauto; ok_of E | eapply Hb; eauto; ok_of E0].
    + intros H. inversion H; subst. apply IsOk_bind_intro; [eapply Ha; eauto | intros ? _].
      apply IsOk_bind_intro; [eapply Hb; eauto | intros; apply IsOk_Ok].
  - (* EUnary *) split.
    + intros H. okinv H. constructor. eapply Hc; eauto. ok_of E.
    + intros H. inversion H; subst. apply IsOk_bind_intro; [eapply Hc; eauto | intros; apply IsOk_Ok].
  - (* EObjExt *) destruct Hc as [Ha Ho]. split.
    + intros H. okinv H. okinv H. constructor; [eapply Ha; eauto; ok_of E |].
      eapply objinside_exact; eauto. ok_of E0.
    + intros H. inversion H; subst. apply IsOk_bind_intro; [eapply Ha; eauto | intros ? _].
      apply IsOk_bind_intro; [eapply objinside_exact; eauto | intros; apply IsOk_Ok].
  - (* EFunc *) destruct Hc as [Hps Hb]. rewrite function_exact by eauto.
    split; intros H; [constructor; auto | inversion H; auto].
  - (* EAssert *) destruct Hc as [Ha Hb]. split.
    + intros H. okinv H. okinv H. constructor; [eapply assert_exact; eauto; ok_of E | eapply Hb; eauto; ok_of E0].
    + intros H. inversion H; subst. apply IsOk_bind_intro; [eapply assert_exact; eauto | intros ? _].
      apply IsOk_bind_intro; [eapply Hb; eauto | intros; apply IsOk_Ok].
  - (* EImport *) apply (import_exact IImport sp e vs io EImport); [intros; constructor|].
    intros p H; inversion H; subst; eauto.
  - (* EImportStr *) apply (import_exact IImportStr sp e vs io EImportStr); [intros; constructor|].
    intros p H; inversion H; subst; eauto.
  - (* EImportBin *) apply (import_exact IImportBin sp e vs io EImportBin); [intros; constructor|].
    intros p H; inversion H; subst; eauto.
  - (* EError *) split.
    + intros H. okinv H. constructor. eapply Hc; eauto. ok_of E.
    + intros H. inversion H; subst. apply IsOk_bind_intro; [eapply Hc; eauto | intros; apply IsOk_Ok].
  - (* EInSuper *) destruct io; simpl; split; intros H.
    + okinv H. constructor. eapply Hc; eauto. ok_of E.
    + inversion H; subst. apply IsOk_bind_intro; [eapply Hc; eauto | intros; apply IsOk_Ok].
    + exfalso; exact (IsOk_Err _ H).
    + inversion H.
Qed.

(* headline: the analyzer accepts exactly the statically correct programs *)
Theorem analyze_exact : forall e vs io,
  nums_ok e = true ->
  ((exists ir, analyze_expr e (mk_env io vs) false = Ok ir) <-> StaticOK vs io e).
Proof. intros e vs io Hn. apply (analyze_Q e Hn vs vs io false (same_set_refl vs)). Qed.

(* ====================================================================
   4. No panic: on trees whose number literals convert, the analyzer answers
      Ok or Err (the index into the collected fields is always in range)
   ==================================================================== *)
Definition Clean {A} (x : res A) : Prop :=
  match x with Ok _ | Err _ => True | Panic _ | OutOfFuel => False end.

Lemma Clean_bind {A B} (x : res A) (f : A -> res B) :
  Clean x -> (forall a, x = Ok a -> Clean (f a)) -> Clean (obind x f).
Proof. destruct x; simpl; auto. Qed.

Lemma mapM_clean {A B} (f : A -> res B) l : Forall (fun x => Clean (f x)) l -> Clean (mapM f l).
Proof.
  induction 1 as [|x t Hx Ht IH]; simpl; auto.
  apply Clean_bind; auto. intros a _. apply Clean_bind; auto. intros; exact I.
Qed.

Lemma declare_names_clean mk ids : forall seen e, Clean (declare_names mk ids seen e).
Proof.
  induction ids as [|i rest IH]; intros seen e; simpl; auto.
  destruct (assoc (id_value i) seen); simpl; auto.
Qed.

Definition C (e : expr) : Prop := forall en ts, Clean (analyze_expr e en ts).

Lemma optM_clean o en ts : opt_all C o -> Clean (optM (fun x => analyze_expr x en ts) o).
Proof. destruct o; simpl; auto. intros H. apply Clean_bind; auto. intros; exact I. Qed.

Lemma param_clean p en : param_all C p -> Clean (analyze_param_with analyze_expr en p).
Proof. destruct p; simpl. intros H. apply Clean_bind; [apply optM_clean; auto | intros; exact I]. Qed.

Lemma function_clean ps body en : Forall (param_all C) ps -> C body ->
  Clean (analyze_function_with analyze_expr ps body en).
Proof.
  intros Hps Hb. unfold analyze_function_with. apply Clean_bind; [apply declare_names_clean | intros inner _].
  apply Clean_bind.
  - apply mapM_clean. revert Hps. apply Forall_impl. intros p. apply param_clean.
  - intros a _. apply Clean_bind; [apply Hb | intros; exact I].
Qed.

Lemma bind_clean b en : bind_all C b -> Clean (analyze_bind_with analyze_expr en b).
Proof.
  destruct b as [n ps v]; simpl. intros [Hps Hv]. apply Clean_bind; [| intros; exact I].
  destruct ps as [[l sp]|]; simpl in *; [apply function_clean; auto | apply Hv].
Qed.

Lemma binds_clean bs en : Forall (bind_all C) bs -> Clean (mapM (analyze_bind_with analyze_expr en) bs).
Proof. intros H. apply mapM_clean. revert H. apply Forall_impl. intros b. apply bind_clean. Qed.

Lemma assert_clean a en : assert_all C a -> Clean (analyze_assert_with analyze_expr a en).
Proof.
  destruct a; simpl. intros [Hc Hm]. apply Clean_bind; [apply Hc | intros ? _].
  apply Clean_bind; [apply optM_clean; auto | intros; exact I].
Qed.

Lemma specs_clean cs : Forall (spec_all C) cs -> forall en, Clean (analyze_comp_spec_with analyze_expr cs en).
Proof.
  induction 1 as [|c rest Hc Hrest IH]; intros en; simpl; auto.
  destruct c; simpl in Hc; (apply Clean_bind; [apply Hc | intros ? _]);
    (apply Clean_bind; [apply IH | intros; exact I]).
Qed.

Lemma args_clean args en : Forall (arg_all C) args -> forall pos named,
  Clean (analyze_args_with analyze_expr en args pos named).
Proof.
  induction 1 as [|a rest Ha Hrest IH]; intros pos named; simpl; auto.
  destruct a; simpl in Ha.
  - destruct named; simpl; auto. apply Clean_bind; [apply Ha | intros; apply IH].
  - apply Clean_bind; [apply Ha | intros; apply IH].
Qed.

Lemma field_name_clean n en fields fixf : fname_all C n -> fix_inv fields fixf ->
  Clean (analyze_field_name_with analyze_expr en fields fixf n).
Proof.
  intros Hq Hinv. destruct n as [i|s sp|e sp]; simpl.
  - pose proof (fix_field_name_spec fields fixf (id_value i) (id_span i) Hinv) as H.
    destruct (fix_field_name fields fixf (id_value i) (id_span i)); simpl; auto.
  - pose proof (fix_field_name_spec fields fixf s sp Hinv) as H.
    destruct (fix_field_name fields fixf s sp); simpl; auto.
  - apply Clean_bind; [apply Hq | intros; exact I].
Qed.

Lemma members_clean ms outer inner : Forall (member_all C) ms ->
  forall locals asserts fields fixf, fix_inv fields fixf ->
  Clean (analyze_members_with analyze_expr outer inner ms locals asserts fields fixf).
Proof.
  induction 1 as [|m rest Hm Hrest IH]; intros locals asserts fields fixf Hinv; simpl; auto.
  destruct m as [b|a|f]; simpl in Hm.
  - apply Clean_bind; [apply bind_clean; auto | intros; apply IH; auto].
  - apply Clean_bind; [apply assert_clean; auto | intros; apply IH; auto].
  - assert (Hfn : fname_all C (field_fname f)) by (destruct f; simpl in *; tauto).
    apply Clean_bind.
    + destruct f; simpl in *; [apply Hm | apply function_clean; tauto].
    + intros value _. apply Clean_bind; [apply field_name_clean; auto | intros nm Enm].
      rewrite (field_name_res _ _ _ _ _ Hinv Enm).
      destruct (fname_static (field_fname f)); apply IH; [apply fix_inv_grow | apply fix_inv_keep]; auto.
Qed.

Lemma objinside_clean o en : obj_all C o -> Clean (analyze_objinside_with analyze_expr o en).
Proof.
  destruct o as [ms | l1 name plus body l2 cs]; simpl; intros Hq.
  - apply Clean_bind; [apply declare_names_clean | intros inner _].
    apply Clean_bind; [apply members_clean; auto using fix_inv_nil | intros [[? ?] ?] _; exact I].
  - destruct Hq as (Hl1 & Hn & Hb & Hl2 & Hcs).
    apply Clean_bind; [apply specs_clean; auto | intros [parts e'] _].
    apply Clean_bind; [apply declare_names_clean | intros inner _].
    apply Clean_bind; [apply binds_clean; auto | intros ? _].
    apply Clean_bind; [apply binds_clean; auto | intros ? _].
    apply Clean_bind; [apply Hn | intros ? _].
    apply Clean_bind; [apply Hb | intros; exact I].
Qed.

Ltac clean_step :=
  match goal with
  | |- Clean (Ok _) => exact I
  | |- Clean (Err _) => exact I
  | |- Clean (if ?b then _ else _) => destruct b
  | |- Clean (obind _ _) => apply Clean_bind; [| intros ? _]
  | H : C ?e |- Clean (analyze_expr ?e _ _) => apply H
  | |- Clean (optM _ _) => apply optM_clean; assumption
  | |- Clean (analyze_objinside_with _ _ _) => apply objinside_clean; assumption
  | |- Clean (analyze_comp_spec_with _ _ _) => apply specs_clean; assumption
  | |- Clean (analyze_args_with _ _ _ _ _) => apply args_clean; assumption
  | |- Clean (declare_names _ _ _ _) => apply declare_names_clean
  | |- Clean (mapM (analyze_bind_with _ _) _) => apply binds_clean; assumption
  | |- Clean (analyze_function_with _ _ _ _) => apply function_clean; assumption
  | |- Clean (analyze_assert_with _ _ _) => apply assert_clean; assumption
  end.

Theorem analyze_C : forall e, NumsOK e -> C e.
Proof.
  apply expr_ind_nums. intros e Hnum Hc en ts.
  destruct e; simpl in Hc; simpl in Hnum; simpl analyze_expr;
    repeat match goal with H : _ /\ _ |- _ => destruct H end;
    try solve [repeat clean_step].
  - rewrite Hnum; exact I.
  - apply Clean_bind; [| intros; exact I]. apply mapM_clean. revert Hc. apply Forall_impl. intros x Hx; apply Hx.
  - destruct e; simpl; exact I.
  - destruct e; simpl; exact I.
  - destruct e; simpl; exact I.
Qed.

Theorem analyze_no_panic : forall e en ts,
  nums_ok e = true ->
  (exists ir, analyze_expr e en ts = Ok ir) \/ (exists x, analyze_expr e en ts = Err x).
Proof.
  intros e en ts Hn. pose proof (analyze_C e Hn en ts) as H.
  destruct (analyze_expr e en ts); simpl in H; try contradiction; eauto.
Qed.

(* ====================================================================
   5. Scope-shape corollaries
   ==================================================================== *)
Lemma Q_of_nums_bind b : bind_all NumsOK b -> bind_all Q b.
Proof. apply bind_all_mp. apply bind_rec. exact analyze_Q. Qed.

Lemma SpecsOK_app vs io pre rest out :
  SpecsOK vs io (pre ++ rest) out -> SpecsOK (specs_out vs pre) io rest out.
Proof.
  revert vs. induction pre as [|c pre IH]; intros vs H; simpl in *; auto.
  inversion H; subst; simpl; auto.
Qed.

Lemma specs_out_vars cs : forall vs,
  specs_out vs cs = rev (flat (fun c => match c with CFor v _ => [id_value v] | CIf _ => [] end) cs) ++ vs.
Proof.
  induction cs as [|[v e|e] rest IH]; intros vs; simpl; auto.
  rewrite IH. rewrite <- app_assoc. reflexivity.
Qed.

Lemma nums_member_in ms m : Forall (member_all NumsOK) ms -> In m ms -> member_all NumsOK m.
Proof. intros H Hin. rewrite Forall_forall in H. auto. Qed.

(* a computed field name is analysed in the scope of the object expression itself:
   neither the object's locals nor its self are visible in it *)
Theorem field_name_sees_outer_scope : forall sp ms vs io ts f e nsp,
  nums_ok (EObject sp (OMembers ms)) = true ->
  is_ok (analyze_expr (EObject sp (OMembers ms)) (mk_env io vs) ts) = true ->
  In (MField f) ms -> field_fname f = FnExpr e nsp ->
  is_ok (analyze_expr e (mk_env io vs) false) = true.
Proof.
  intros sp ms vs io ts f e nsp Hn Hok Hin Hf. apply IsOk_is_ok in Hok. apply IsOk_is_ok.
  apply (analyze_Q _ Hn vs vs io ts (same_set_refl vs)) in Hok.
  destruct (nums_children _ Hn) as [_ Hc]. simpl in Hc.
  pose proof (nums_member_in _ _ Hc Hin) as Hm. simpl in Hm.
  inversion Hok; subst.
  match goal with Hx : ObjOK _ _ _ |- _ => inversion Hx; subst end.
  match goal with Hx : Forall (MemberOK _ _ _) _ |- _ => rewrite Forall_forall in Hx; specialize (Hx _ Hin); rename Hx into H6 end.
  apply member_field_ok in H6. destruct H6 as [Hfn _].
  rewrite Hf in Hfn. inversion Hfn; subst.
  assert (He : NumsOK e) by (destruct f; simpl in Hf, Hm; subst; simpl in Hm; tauto).
  apply (analyze_Q e He vs vs io false (same_set_refl vs)). auto.
Qed.

(* the source of a [for] clause sees the variables of the clauses to its left
   only; the body sees all of them *)
Theorem comp_vars_left_to_right : forall sp body pre v src post vs io ts,
  nums_ok (EArrayComp sp body (pre ++ CFor v src :: post)) = true ->
  is_ok (analyze_expr (EArrayComp sp body (pre ++ CFor v src :: post)) (mk_env io vs) ts) = true ->
  is_ok (analyze_expr src (mk_env io (specs_out vs pre)) false) = true /\
  is_ok (analyze_expr body (mk_env io (specs_out vs (pre ++ CFor v src :: post))) false) = true.
Proof.
  intros sp body pre v src post vs io ts Hn Hok. apply IsOk_is_ok in Hok. rewrite <- !IsOk_is_ok.
  apply (analyze_Q _ Hn vs vs io ts (same_set_refl vs)) in Hok.
  destruct (nums_children _ Hn) as [_ [Hb Hcs]].
  inversion Hok; subst.
  match goal with Hx : SpecsOK _ _ _ ?o |- _ => pose proof (SpecsOK_out _ _ _ _ Hx); subst o; rename Hx into Hsp end.
  split.
  - apply SpecsOK_app in Hsp. inversion Hsp; subst.
    apply Forall_app in Hcs. destruct Hcs as [_ Hcs]. inversion Hcs; subst. simpl in H1.
    apply (analyze_Q src H1 _ _ io false (same_set_refl _)). auto.
  - apply (analyze_Q body Hb _ _ io false (same_set_refl _)). auto.
Qed.

(* the locals of an object see each other (earlier and later ones) and self *)
Theorem object_locals_mutual : forall sp ms vs io ts b,
  nums_ok (EObject sp (OMembers ms)) = true ->
  is_ok (analyze_expr (EObject sp (OMembers ms)) (mk_env io vs) ts) = true ->
  In (MLocal b) ms ->
  is_ok (analyze_bind_with analyze_expr (mk_env true (map bind_name (member_locals ms) ++ vs)) b) = true.
Proof.
  intros sp ms vs io ts b Hn Hok Hin. apply IsOk_is_ok in Hok. apply IsOk_is_ok.
  apply (analyze_Q _ Hn vs vs io ts (same_set_refl vs)) in Hok.
  destruct (nums_children _ Hn) as [_ Hc]. simpl in Hc.
  pose proof (nums_member_in _ _ Hc Hin) as Hm. simpl in Hm.
  inversion Hok; subst.
  match goal with Hx : ObjOK _ _ _ |- _ => inversion Hx; subst end.
  match goal with Hx : Forall (MemberOK _ _ _) _ |- _ => rewrite Forall_forall in Hx; specialize (Hx _ Hin); rename Hx into H6 end.
  inversion H6; subst.
  eapply bind_exact; eauto using same_set_refl. apply Q_of_nums_bind; auto.
Qed.

(* ====================================================================
   6. The IR the analyzer produces is closed
   ==================================================================== *)
Tactic Notation "binv" hyp(H) "as" ident(a) ident(E) :=
  apply obind_ok_inv in H; destruct H as (a & E & H).
Ltac okeq H := injection H as H; subst.

Definition K (e : expr) : Prop :=
  forall L L2 io ts i, analyze_expr e (mk_env io L) ts = Ok i -> same_set L L2 -> Closed L2 io i.

Lemma mapM_res {A B} (f : A -> res B) l : forall ys,
  mapM f l = Ok ys -> Forall2 (fun x y => f x = Ok y) l ys.
Proof.
  induction l as [|x t IH]; simpl; intros ys H.
  - okeq H. constructor.
  - binv H as y Ey. binv H as ys' Eys. okeq H. constructor; auto.
Qed.

Lemma optM_closed o L L2 io ts o' : opt_all K o ->
  optM (fun x => analyze_expr x (mk_env io L) ts) o = Ok o' -> same_set L L2 ->
  forall v, o' = Some v -> Closed L2 io v.
Proof.
  destruct o as [x|]; simpl; intros Hk H Hs v Hv.
  - binv H as y Ey. okeq H. injection Hv as <-. eapply Hk; eauto.
  - okeq H. discriminate.
Qed.

Lemma param_closed p L L2 io r : param_all K p ->
  analyze_param_with analyze_expr (mk_env io L) p = Ok r -> same_set L L2 ->
  fst r = param_name p /\ (forall d, snd r = Some d -> Closed L2 io d).
Proof.
  destruct p as [n d]; simpl; intros Hk H Hs. binv H as d' Ed. okeq H. simpl. split; auto.
  eapply optM_closed; eauto.
Qed.

Lemma Forall2_fst {A B C} (f : A -> res (C * B)) (g : A -> C) l rs :
  Forall2 (fun x y => f x = Ok y) l rs -> (forall x y, In x l -> f x = Ok y -> fst y = g x) ->
  map fst rs = map g l.
Proof.
  induction 1; simpl; intros Hg; auto. f_equal; [apply Hg; auto | apply IHForall2; intros; apply Hg; auto].
Qed.

Lemma params_closed ps Lin Lout io rs : Forall (param_all K) ps ->
  Forall2 (fun x y => analyze_param_with analyze_expr (mk_env io Lin) x = Ok y) ps rs ->
  same_set Lin Lout -> Forall (fun p => forall d, snd p = Some d -> Closed Lout io d) rs.
Proof.
  intros Hps H Hs. induction H; constructor; inversion Hps; subst; auto.
  eapply param_closed in H; eauto. tauto.
Qed.

Lemma function_closed ps body L L2 io i : Forall (param_all K) ps -> K body ->
  analyze_function_with analyze_expr ps body (mk_env io L) = Ok i -> same_set L L2 -> Closed L2 io i.
Proof.
  intros Hps Hb H Hs. unfold analyze_function_with in H. binv H as inner E.
  pose proof (declare_names_env _ _ _ _ _ E) as ->. simpl in *. rewrite map_param_ident in *.
  binv H as r0 E0. binv H as bd Eb. okeq H. apply mapM_res in E0.
  assert (Hn : map fst r0 = map param_name ps).
  { eapply Forall2_fst; eauto. intros p y Hin Hy. rewrite Forall_forall in Hps.
    eapply param_closed in Hy; eauto using same_set_refl. tauto. }
  assert (Hs' : same_set (rev (map param_name ps) ++ L) (map fst r0 ++ L2))
    by (rewrite Hn; apply same_set_rev_app; auto).
  constructor.
  - eapply params_closed; eauto.
  - eapply Hb; eauto.
Qed.

Lemma bind_closed b L L2 io r : bind_all K b ->
  analyze_bind_with analyze_expr (mk_env io L) b = Ok r -> same_set L L2 ->
  fst r = bind_name b /\ Closed L2 io (snd r).
Proof.
  destruct b as [n ps v]; simpl; intros [Hps Hv] H Hs. binv H as v' Ev. okeq H. simpl. split; auto.
  destruct ps as [[l sp]|]; simpl in *; [eapply function_closed; eauto | eapply Hv; eauto].
Qed.

Lemma binds_closed bs L L2 io rs : Forall (bind_all K) bs ->
  mapM (analyze_bind_with analyze_expr (mk_env io L)) bs = Ok rs -> same_set L L2 ->
  map fst rs = map bind_name bs /\ Forall (fun r => Closed L2 io (snd r)) rs.
Proof.
  intros Hk H Hs. apply mapM_res in H. split.
  - eapply Forall2_fst; eauto. intros b y Hin Hy. rewrite Forall_forall in Hk.
    eapply bind_closed in Hy; eauto. tauto.
  - induction H; constructor; inversion Hk; subst; auto.
    eapply bind_closed in H; eauto. tauto.
Qed.

Lemma assert_closed a L L2 io r : assert_all K a ->
  analyze_assert_with analyze_expr a (mk_env io L) = Ok r -> same_set L L2 -> ClosedAssert L2 io r.
Proof.
  destruct a as [sp c m]; simpl; intros [Hc Hm] H Hs. binv H as c' Ec. binv H as m' Em. okeq H. constructor.
  - eapply Hc; eauto.
  - eapply optM_closed; eauto.
Qed.

Lemma specs_closed cs io : Forall (spec_all K) cs -> forall L L2 r,
  analyze_comp_spec_with analyze_expr cs (mk_env io L) = Ok r -> same_set L L2 ->
  exists L2', ClosedSpecs L2 io (fst r) L2' /\ same_set (specs_out L cs) L2'.
Proof.
  induction 1 as [|c rest Hc Hrest IH]; intros L L2 r H Hs; simpl in H.
  - okeq H. exists L2. split; [constructor | auto].
  - destruct c as [v e|e]; simpl in Hc; binv H as i0 Ei; binv H as r0 E0; okeq H; simpl.
    + unfold env_insert in E0; simpl in E0.
      destruct (IH _ (id_value v :: L2) _ E0 (same_set_cons _ _ _ Hs)) as (L2' & H1 & H2).
      exists L2'. split; auto. constructor; auto. eapply Hc; eauto.
    + destruct (IH _ L2 _ E0 Hs) as (L2' & H1 & H2).
      exists L2'. split; auto. constructor; auto. eapply Hc; eauto.
Qed.

Lemma args_closed args L L2 io : Forall (arg_all K) args -> same_set L L2 -> forall pos named r,
  analyze_args_with analyze_expr (mk_env io L) args pos named = Ok r ->
  Forall (Closed L2 io) pos -> Forall (fun a => Closed L2 io (snd a)) named ->
  Forall (Closed L2 io) (fst r) /\ Forall (fun a => Closed L2 io (snd a)) (snd r).
Proof.
  intros Hk Hs. induction Hk as [|a rest Ha Hrest IH]; intros pos named r H Hp Hn; simpl in H.
  - okeq H. auto.
  - destruct a as [e|n e]; simpl in Ha.
    + destruct named; [|discriminate]. binv H as x Ex. eapply IH; eauto.
      apply Forall_app. split; auto. constructor; auto. eapply Ha; eauto.
    + binv H as x Ex. eapply IH; eauto. apply Forall_app. split; auto. constructor; auto. simpl. eapply Ha; eauto.
Qed.

Lemma field_name_closed n L L2 io fields fixf r : fname_all K n ->
  analyze_field_name_with analyze_expr (mk_env io L) fields fixf n = Ok r -> same_set L L2 ->
  match fst (fst r) with IFix _ => True | IDyn e => Closed L2 io e end.
Proof.
  destruct n as [i|s sp|e sp]; simpl; intros Hk H Hs.
  - unfold fix_field_name in H. destruct (assoc (id_value i) fixf); [destruct (nth_error fields n); discriminate|].
    okeq H. simpl. auto.
  - unfold fix_field_name in H. destruct (assoc s fixf); [destruct (nth_error fields n); discriminate|].
    okeq H. simpl. auto.
  - binv H as x Ex. okeq H. simpl. eapply Hk; eauto.
Qed.

Lemma members_closed ms L L2 io Li Li2 : Forall (member_all K) ms -> same_set L L2 -> same_set Li Li2 ->
  forall locals asserts fields fixf r,
  analyze_members_with analyze_expr (mk_env io L) (mk_env true Li) ms locals asserts fields fixf = Ok r ->
  Forall (fun l => Closed Li2 true (snd l)) locals -> Forall (ClosedAssert Li2 true) asserts ->
  Forall (ClosedField L2 io Li2) fields ->
  (map fst (fst (fst r)) = map fst locals ++ map bind_name (member_locals ms)) /\
  Forall (fun l => Closed Li2 true (snd l)) (fst (fst r)) /\ Forall (ClosedAssert Li2 true) (snd (fst r)) /\
  Forall (ClosedField L2 io Li2) (snd r).
Proof.
  intros Hk Hs Hsi. induction Hk as [|m rest Hm Hrest IH]; intros locals asserts fields fixf r H Hl Ha Hf; simpl in H.
  - okeq H. simpl. rewrite app_nil_r. auto.
  - destruct m as [b|a|f]; simpl in Hm.
    + binv H as l E. eapply bind_closed in E; eauto. destruct E as [E1 E2].
      eapply IH in H; eauto.
      * destruct H as (H1 & H2). split; auto. rewrite H1, map_app. simpl. rewrite E1, <- app_assoc. reflexivity.
      * apply Forall_app. split; auto.
    + binv H as a' E. eapply assert_closed in E; eauto. eapply IH in H; eauto. apply Forall_app. split; auto.
    + binv H as r0 Ev. binv H as r1 E0.
      assert (Hfn : fname_all K (field_fname f)) by (destruct f; simpl in *; tauto).
      pose proof (field_name_closed _ _ _ _ _ _ _ Hfn E0 Hs) as Hn.
      assert (Hv : Closed Li2 true r0).
      { destruct f; simpl in *; [eapply (proj2 Hm); eauto |].
        destruct Hm as (Hf1 & Hf2 & Hf3). exact (function_closed _ _ _ _ _ _ Hf2 Hf3 Ev Hsi). }
      eapply IH in H; eauto. apply Forall_app. split; auto. constructor; auto.
      destruct (fst (fst r1)); constructor; auto.
Qed.

Lemma objinside_closed o L L2 io i : obj_all K o ->
  analyze_objinside_with analyze_expr o (mk_env io L) = Ok i -> same_set L L2 -> Closed L2 io i.
Proof.
  destruct o as [ms | l1 name plus body l2 cs]; simpl; intros Hk H Hs.
  - binv H as inner E. pose proof (declare_names_env _ _ _ _ _ E) as ->. simpl in *. rewrite map_bind_ident in *.
    binv H as r0 E0. destruct r0 as [[ls as_] fs]. okeq H.
    (* the inner scope on the IR side is named after the locals the loop produced *)
    assert (Hnames : map fst ls = map bind_name (member_locals ms)).
    { eapply (members_closed ms L L io _ _ Hk (same_set_refl L) (same_set_refl _)) in E0; eauto.
      simpl in E0. tauto. }
    eapply (members_closed ms L L2 io _ (map fst ls ++ L2) Hk Hs) in E0; eauto.
    + simpl in E0. destruct E0 as (_ & H1 & H2 & H3). constructor; auto.
    + rewrite Hnames. apply same_set_rev_app; auto.
  - destruct Hk as (Hl1 & Hn & Hb & Hl2 & Hcs).
    binv H as r E. destruct r as [parts e']. pose proof (comp_spec_env _ _ _ _ E) as He. simpl in He. subst e'.
    destruct (specs_closed _ _ Hcs _ _ _ E Hs) as (L2' & Hsp & Hso). simpl in Hsp.
    binv H as inner E0. pose proof (declare_names_env _ _ _ _ _ E0) as ->. simpl in *. rewrite map_bind_ident in *.
    binv H as r0 E1. binv H as r1 E2. binv H as fn Efn. binv H as fv Efv. okeq H.
    assert (Hs0 : same_set (rev (map bind_name (l1 ++ l2)) ++ specs_out L cs) (map bind_name (l1 ++ l2) ++ L2'))
      by (apply same_set_rev_app; auto).
    assert (Hn1 : map fst (r0 ++ r1) = map bind_name (l1 ++ l2)).
    { eapply binds_closed in E1; eauto. eapply binds_closed in E2; eauto.
      rewrite !map_app. destruct E1 as [-> _]. destruct E2 as [-> _]. reflexivity. }
    assert (Hs' : same_set (rev (map bind_name (l1 ++ l2)) ++ specs_out L cs) (map fst (r0 ++ r1) ++ L2'))
      by (rewrite Hn1; auto).
    apply CL_ObjectComp with (L' := L2').
    + exact Hsp.
    + apply Forall_app. split.
      * eapply binds_closed in E1; eauto. tauto.
      * eapply binds_closed in E2; eauto. tauto.
    + eapply Hn; eauto.
    + eapply Hb; eauto.
Qed.

Lemma import_closed mk sp path L io i :
  (forall s, Closed L io (mk s sp)) -> analyze_import mk sp path = Ok i -> Closed L io i.
Proof. intros Hm. destruct path; simpl; intros H; try discriminate. okeq H. apply Hm. Qed.

Lemma optM_closed' o L L2 io ts o' :
  optM (fun x => analyze_expr x (mk_env io L) ts) o = Ok o' -> opt_all K o -> same_set L L2 ->
  forall v, o' = Some v -> Closed L2 io v.
Proof. intros; eapply optM_closed; eauto. Qed.

Ltac kauto :=
  try match goal with
      | Hx : K ?e, Hy : analyze_expr ?e _ _ = Ok ?r |- Closed _ _ ?r => eapply Hx; eauto
      | |- forall v, _ = Some v -> Closed _ _ v => eapply optM_closed'; eauto
      | Hy : analyze_objinside_with _ _ _ = Ok ?r |- Closed _ _ ?r => eapply objinside_closed; eauto
      | Hy : analyze_assert_with _ _ _ = Ok ?r |- ClosedAssert _ _ ?r => eapply assert_closed; eauto
      end.

Theorem analyze_K : forall e, K e.
Proof.
  induction e using expr_ind'. rename H into Hc. intros L L2 io ts i H Hs.
  destruct e; simpl in Hc; simpl in H;
    repeat match goal with Hx : _ /\ _ |- _ => destruct Hx end.
  - okeq H; constructor.
  - okeq H; constructor.
  - destruct io; simpl in H; [okeq H; constructor | discriminate].
  - destruct io; simpl in H; [okeq H; constructor | discriminate].
  - okeq H; constructor.
  - okeq H; constructor.
  - destruct (number_parses n); [okeq H; constructor | discriminate].
  - eapply Hc; eauto.
  - eapply objinside_closed; eauto.
  - binv H as its E. okeq H. constructor. apply mapM_res in E.
    induction E; constructor; inversion Hc; subst; auto.
    match goal with Hx : K ?x, Hy : analyze_expr ?x _ _ = Ok _ |- _ => eapply Hx; eauto end.
  - binv H as cs E. binv H as b Eb. okeq H.
    destruct cs as [parts e']. pose proof (comp_spec_env _ _ _ _ E) as He. simpl in He. subst e'.
    match goal with Hx : Forall _ specs |- _ =>
      destruct (specs_closed _ _ Hx _ _ _ E Hs) as (L2' & Hsp & Hso) end. simpl in *.
    apply CL_ArrayComp with (L' := L2'); auto. kauto.
  - binv H as o E. okeq H. constructor. kauto.
  - binv H as o E. binv H as x Ex. okeq H. constructor; kauto.
  - binv H as r E. binv H as a' Ea. binv H as b' Eb. binv H as c' Ec. okeq H. constructor; kauto.
  - destruct io; simpl in H; [okeq H; constructor | discriminate].
  - destruct io; simpl in H; [| discriminate]. binv H as x Ex. okeq H. constructor. kauto.
  - binv H as c E. binv H as r Er. okeq H.
    eapply args_closed in Er; eauto. destruct Er as [Hp Hn]. constructor; auto. kauto.
  - destruct (env_contains (mk_env io L) (id_value name)) eqn:E; [| discriminate]. okeq H.
    constructor. apply Hs. apply env_contains_In in E. auto.
  - binv H as inner E. pose proof (declare_names_env _ _ _ _ _ E) as ->. simpl in *. rewrite map_bind_ident in *.
    binv H as bs Eb. binv H as x Ex. okeq H.
    assert (Hn : map fst bs = map bind_name binds) by (eapply binds_closed in Eb; eauto using same_set_refl; tauto).
    assert (Hs' : same_set (rev (map bind_name binds) ++ L) (map fst bs ++ L2))
      by (rewrite Hn; apply same_set_rev_app; auto).
    constructor.
    + eapply binds_closed in Eb; eauto. tauto.
    + kauto.
  - binv H as c E. binv H as t' Et. binv H as f' Ef. okeq H. constructor; kauto.
  - binv H as l' El. binv H as r' Er. okeq H. constructor; kauto.
  - binv H as r' Er. okeq H. constructor. kauto.
  - binv H as l' El. binv H as r' Er. okeq H. constructor; kauto.
  - eapply function_closed; eauto.
  - binv H as a' Ea. binv H as x Ex. okeq H. constructor; kauto.
  - eapply import_closed; eauto. intros; constructor.
  - eapply import_closed; eauto. intros; constructor.
  - eapply import_closed; eauto. intros; constructor.
  - binv H as m Em. okeq H. constructor. kauto.
  - destruct io; simpl in H; [| discriminate]. binv H as x Ex. okeq H. constructor. kauto.
Qed.

(* headline: whatever the analyzer accepts is closed in its static scope *)
Theorem analyze_closed : forall e vs io ts i,
  analyze_expr e (mk_env io vs) ts = Ok i -> Closed vs io i.
Proof. intros e vs io ts i H. exact (analyze_K e vs vs io ts i H (same_set_refl vs)). Qed.

