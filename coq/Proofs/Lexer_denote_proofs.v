(* Proofs/Lexer_denote_proofs.v — the rational a number token denotes (QArith). *)
From RJ Require Import Base.Outcome Model.Token Model.Utf8 Model.Lexer Proofs.Utf8_proofs Proofs.Lexer_proofs Proofs.Lexer_values_proofs.
From Coq Require Import Lia QArith Qpower Qfield.

(* ---- the rational a number token denotes ---- *)
Definition Zdigits (ds : list N) : Z := Z.of_N (dec_value ds).
Definition ten : Q := 10 # 1.

(* Number{digits, exp} is read downstream as digits * 10^exp *)
Definition num_denote (digits : list N) (e : Z) : Q := inject_Z (Zdigits digits) * ten ^ e.

(* the literal's text  int . frac e (+/-) X  denotes (int + frac / 10^|frac|) * 10^(+/-X) *)
Definition text_denote (di df : list N) (sign : bool) (X : N) : Q :=
  (inject_Z (Zdigits di) + inject_Z (Zdigits df) / ten ^ Z.of_nat (length df))
  * ten ^ (if sign then - Z.of_N X else Z.of_N X).

Lemma ten_neq_0 : ~ ten == 0.
Proof. unfold ten. intros H. discriminate H. Qed.

Theorem num_finish_denotes di df sign X t digits e t' :
  num_finish di df sign X t = Ok (digits, e, t') ->
  num_denote digits e == text_denote di df sign X.
Proof.
  unfold num_finish. destruct (i64_max <? Z.of_N X)%Z; [discriminate|].
  destruct (in_i64 _); [|discriminate]. intros H. inversion H; subst. clear H.
  unfold num_denote, text_denote, Zdigits. rewrite dec_value_app.
  set (s := if sign then (- Z.of_N X)%Z else Z.of_N X). set (k := Z.of_nat (length df)).
  rewrite N2Z.inj_add, N2Z.inj_mul, N2Z.inj_pow, nat_N_Z. fold k. change (Z.of_N 10) with 10%Z.
  rewrite inject_Z_plus, inject_Z_mult.
  rewrite (Zpower_Qpower 10 k) by (unfold k; lia). change (inject_Z 10) with ten.
  unfold Z.sub. rewrite (Qpower_plus ten s (- k) ten_neq_0), Qpower_opp.
  field. apply Qpower_not_0, ten_neq_0.
Qed.

(* every number token denotes what its text denotes: the integer segment is the
   first digit followed by the digits of the first group, [df] / [X] are the
   fraction digits and the explicit exponent read from the text *)
Theorem number_spec_denotes strict chr0 r digits e t :
  number_spec strict chr0 r = Ok (digits, e, t) ->
  exists df sign X, digits = (chr0 :: fst (fst (scan_group false r))) ++ df /\
                    num_denote digits e == text_denote (chr0 :: fst (fst (scan_group false r))) df sign X.
Proof.
  unfold number_spec, after_us, spec_tail, spec_exp.
  destruct (scan_group false r) as [[di us1] r1]. cbn [fst].
  intros H.
  assert (FIN : forall df sign X t0, num_finish (chr0 :: di) df sign X t0 = Ok (digits, e, t) ->
            exists df sign X, digits = (chr0 :: di) ++ df /\ num_denote digits e == text_denote (chr0 :: di) df sign X).
  { intros df sign X t0 F. exists df, sign, X. split; [|apply (num_finish_denotes _ _ _ _ _ _ _ _ F)].
    unfold num_finish in F. destruct (i64_max <? Z.of_N X)%Z; [discriminate|]. destruct (in_i64 _); [|discriminate].
    inversion F; reflexivity. }
  repeat match type of H with
  | (if ?c then _ else _) = _ => destruct c
  | (let '(_, _) := ?x in _) = _ => destruct x
  | match ?x with _ => _ end = _ => destruct x
  | Err _ = _ => discriminate H
  end; try discriminate H; eapply FIN; exact H.
Qed.
