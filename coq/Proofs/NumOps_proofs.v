(* Proofs/NumOps_proofs.v — lemmas about Model/NumOps.v.
   Part A is axiom-free (order on non-NaN doubles, the refutation for the snapshot's gate table);
   Part B (finiteness of every producer under a sufficient gate table) goes through Flocq. *)
From Coq Require Import ZArith NArith Bool List Lia Reals Psatz Floats.SpecFloat.
From Flocq Require Import Core.Core Core.Digits Calc.Round IEEE754.BinarySingleNaN.
From RJ Require Import Base.Outcome Base.F64 Model.Dec Model.NumOps Proofs.Dec_proofs.
Local Open Scope Z_scope.

(* ---------------------------------------------------------------- comparison is total on non-NaN *)

Lemma compare_total_on_finite : forall x y,
  f_is_finite x = true -> f_is_finite y = true -> f_compare x y <> None.
Proof.
  intros x y Hx Hy. destruct x, y; simpl in *; try discriminate;
    unfold f_compare, SFcompare; try discriminate.
Qed.

Lemma cmp_num_no_panic : forall x y,
  f_is_finite x = true -> f_is_finite y = true -> exists c, cmp_num x y = Ok c.
Proof.
  intros x y Hx Hy. unfold cmp_num.
  destruct (f_compare x y) eqn:E.
  - eauto.
  - exfalso. exact (compare_total_on_finite x y Hx Hy E).
Qed.

(* ---------------------------------------------------------------- finite, well-formed doubles *)

Definition fin_ok (x : f64) : bool := f_is_finite x && valid_binary 53 1024 x.

Definition arg_ok (a : arg) : Prop :=
  match a with
  | ANum x => fin_ok x = true
  | AArr l => forallb fin_ok l = true
  | _ => True
  end.

(* producers whose raw result can leave the finite doubles on finite arguments *)
Definition needs_gate (op : numop) : bool :=
  match op with
  | OAdd | OSub | OMul | ODiv | ORem | BSum | BAvg | BPow | BExp | BLog | BLog2 | BLog10 | BSqrt
  | BSin | BCos | BTan | BAsin | BAcos | BAtan | BAtan2 | BHypot | BMod | BModulo | BDeg2Rad | BRad2Deg
  | BParseInt | BParseOctal | BParseHex => true
  | _ => false
  end.

Definition gates_sufficient (g : gates) : Prop := forall op, needs_gate op = true -> g op = true.

Lemma check_number_finite x v : check_number x = Ok v -> f_is_finite v = true.
Proof. destruct x; simpl; intros H; inversion H; reflexivity. Qed.

Lemma gate_id g op x v : gate g op x = Ok v -> v = x.
Proof. unfold gate. destruct (g op); [|now inversion 1]. destruct x; simpl; now inversion 1. Qed.

Lemma gate_finite g op x v : g op = true -> gate g op x = Ok v -> f_is_finite v = true.
Proof. unfold gate. intros ->. apply check_number_finite. Qed.

Lemma gate_keeps g op x v : f_is_finite x = true -> gate g op x = Ok v -> f_is_finite v = true.
Proof. intros Hx H. now rewrite (gate_id _ _ _ _ H). Qed.

(* ---------------------------------------------------------------- integers convert to finite doubles *)

Lemma f_of_Z_s_finite z s : Z.abs z <= 2 ^ 64 -> f_is_finite (f_of_Z_s z s) = true.
Proof.
  intros H. unfold f_of_Z_s.
  assert (Hf : is_finite_SF (SpecFloat.binary_normalize 53 1024 z 0 s) = true).
  { apply binary_normalize_finite. rewrite F2R_exp0, <- abs_IZR.
    apply Rle_trans with (IZR (2 ^ 64)). now apply IZR_le.
    rewrite <- (bpow2_IZR 64) by lia. apply bpow_le. lia. }
  unfold prec, emax. destruct (SpecFloat.binary_normalize 53 1024 z 0 s); simpl in *; congruence.
Qed.

Lemma f_of_Z_s_valid z s : valid_binary 53 1024 (f_of_Z_s z s) = true.
Proof. apply binary_normalize_valid. Qed.

Lemma wrap_i64_bound z : Z.abs (wrap_i64 z) <= 2 ^ 64.
Proof.
  unfold wrap_i64. pose proof (Z.mod_pos_bound z (2 ^ 64) ltac:(lia)).
  destruct (z mod 2 ^ 64 <? 2 ^ 63); lia.
Qed.

Lemma f_of_i64_finite z : f_is_finite (f_of_i64 z) = true.
Proof. unfold f_of_i64, f_of_Z, f_of_Z_exp. apply (f_of_Z_s_finite _ false). apply wrap_i64_bound. Qed.

Lemma f_of_N_finite n : (n < 2 ^ 64)%N -> f_is_finite (f_of_N n) = true.
Proof.
  intros H. unfold f_of_N, f_of_Z, f_of_Z_exp. apply (f_of_Z_s_finite _ false).
  assert (Z.of_N n < 2 ^ 64). { change (2 ^ 64) with (Z.of_N (2 ^ 64)). lia. } lia.
Qed.

(* ---------------------------------------------------------------- mantissa bound of a well-formed double *)

Lemma valid_bounds s m e :
  valid_binary 53 1024 (S754_finite s m e) = true -> Z.pos m < 2 ^ 53 /\ -1074 <= e <= 971.
Proof.
  simpl. unfold bounded, canonical_mantissa. intros H. apply andb_prop in H. destruct H as [H1 H2].
  apply Zeq_bool_eq in H1. apply Z.leb_le in H2.
  unfold SpecFloat.fexp, SpecFloat.emin in H1.
  assert (Hd : Z.pos (digits2_pos m) <= 53) by lia.
  rewrite Zpos_digits2_pos in Hd.
  pose proof (Zdigits_correct radix2 (Z.pos m)) as [_ Hc]. rewrite Z.abs_eq in Hc by lia.
  split; [|lia].
  apply Z.lt_le_trans with (1 := Hc).
  change (radix2 ^ Zdigits radix2 (Z.pos m) <= radix2 ^ 53).
  apply Z.pow_le_mono_r. reflexivity. exact Hd.
Qed.

Lemma f_floor_finite x : fin_ok x = true -> f_is_finite (f_floor x) = true.
Proof.
  unfold fin_ok. intros H. apply andb_prop in H. destruct H as [Hf Hv].
  destruct x as [s|s| |s m e]; try exact Hf. simpl.
  destruct (Z.leb_spec 0 e) as [Hle|Hle]; [reflexivity|].
  destruct (valid_bounds _ _ _ Hv) as [Hm He].
  assert (Hp : 0 < 2 ^ (- e)) by (apply Z.pow_pos_nonneg; lia).
  pose proof (Z.div_le_upper_bound (Z.pos m) (2 ^ (- e)) (Z.pos m) Hp ltac:(nia)) as Hq.
  pose proof (Z.div_pos (Z.pos m) (2 ^ (- e)) ltac:(lia) Hp) as Hq0.
  destruct s; apply f_of_Z_s_finite; destruct (Z.pos m mod 2 ^ (- e) =? 0); lia.
Qed.

Lemma f_ceil_finite x : fin_ok x = true -> f_is_finite (f_ceil x) = true.
Proof.
  unfold fin_ok. intros H. apply andb_prop in H. destruct H as [Hf Hv].
  destruct x as [s|s| |s m e]; try exact Hf. simpl.
  destruct (Z.leb_spec 0 e) as [Hle|Hle]; [reflexivity|].
  destruct (valid_bounds _ _ _ Hv) as [Hm He].
  assert (Hp : 0 < 2 ^ (- e)) by (apply Z.pow_pos_nonneg; lia).
  pose proof (Z.div_le_upper_bound (Z.pos m) (2 ^ (- e)) (Z.pos m) Hp ltac:(nia)) as Hq.
  pose proof (Z.div_pos (Z.pos m) (2 ^ (- e)) ltac:(lia) Hp) as Hq0.
  destruct s; apply f_of_Z_s_finite; destruct (Z.pos m mod 2 ^ (- e) =? 0); lia.
Qed.

Lemma f_mantissa_finite x : f_is_finite x = true -> f_is_finite (f_mantissa x) = true.
Proof. destruct x; simpl; auto. Qed.

(* f_add of two well-formed doubles is well-formed (needed by std.round = floor (x + 0.5)) *)
Lemma f_add_valid x y :
  valid_binary 53 1024 x = true -> valid_binary 53 1024 y = true -> valid_binary 53 1024 (f_add x y) = true.
Proof.
  intros Hx Hy. unfold f_add, SFadd.
  destruct x as [sx|sx| |sx mx ex], y as [sy|sy| |sy my ey]; try reflexivity; try assumption;
    try (destruct (Bool.eqb _ _); reflexivity).
  apply binary_normalize_valid.
Qed.

(* ---------------------------------------------------------------- the invariant *)

Lemma fin_ok_finite x : fin_ok x = true -> f_is_finite x = true.
Proof. unfold fin_ok. intros H. now apply andb_prop in H. Qed.
Lemma fin_ok_valid x : fin_ok x = true -> valid_binary 53 1024 x = true.
Proof. unfold fin_ok. intros H. now apply andb_prop in H. Qed.

Lemma f_neg_finite x : f_is_finite x = true -> f_is_finite (f_neg x) = true.
Proof. destruct x; simpl; auto. Qed.

Lemma check_finite_overflow_finite x v : check_finite_overflow x = Ok v -> f_is_finite v = true.
Proof. unfold check_finite_overflow. destruct (f_is_finite x) eqn:E; intros H; inversion H; subst; auto. Qed.

Lemma parse_int_finite s v : parse_int true s = Ok v -> f_is_finite v = true.
Proof.
  unfold parse_int.
  match goal with |- context [let '(n, b) := ?X in _] => destruct X as [neg body] end.
  destruct body; [discriminate|]. destruct (all_digits _); [|discriminate].
  apply check_finite_overflow_finite.
Qed.

Lemma parse_num_radix_finite radix s v : parse_num_radix true radix s = Ok v -> f_is_finite v = true.
Proof.
  unfold parse_num_radix. destruct s as [|c r]; [discriminate|].
  intros H. apply obind_ok_inv in H. destruct H as [n [_ H]].
  apply obind_ok_inv in H. destruct H as [x [_ H]].
  now apply check_finite_overflow_finite in H.
Qed.

Ltac inv_ok H :=
  repeat match type of H with
  | obind _ _ = Ok _ =>
      let x := fresh "x" in let E := fresh "E" in
      apply obind_ok_inv in H; destruct H as [x [E H]]
  | (if ?c then _ else _) = Ok _ => destruct c eqn:?; try discriminate H
  end.

Ltac shape H :=
  repeat (cbv beta iota in H;
          match type of H with
          | context [match ?l with [] => _ | _ :: _ => _ end] => is_var l; destruct l; try discriminate H
          | context [match ?a with ANum _ => _ | AArr _ => _ | AStr _ => _ | ACount _ => _ end] => is_var a; destruct a; try discriminate H
          end);
  cbv beta iota in H.

Ltac args_ok :=
  repeat match goal with
  | H : Forall arg_ok (_ :: _) |- _ => inversion H; clear H; subst
  | H : Forall arg_ok [] |- _ => clear H
  | H : arg_ok (ANum _) |- _ => simpl in H
  end.

Ltac done_ok H := inversion H; subst; clear H.

Theorem numop_finite : forall (L : libm_sig) (g : gates) op args v,
  gates_sufficient g -> Forall arg_ok args ->
  eval_numop L g op args = Ok v -> f_is_finite v = true.
Proof.
  intros L g op args v Hg Hargs H.
  assert (Gate : forall op' x, needs_gate op' = true -> gate g op' x = Ok v -> f_is_finite v = true).
  { intros op' x Hn. apply gate_finite. now apply Hg. }
  destruct op; unfold eval_numop, un_libm, bin_libm, bitwise2 in H; shape H; args_ok;
    try (eapply Gate; [|exact H]; reflexivity).
  all: try (inv_ok H; try (eapply Gate; [|exact H]; reflexivity)).
  all: try (done_ok H; apply f_of_i64_finite).
  all: repeat match goal with Hf : fin_ok ?y = true |- _ =>
         pose proof (fin_ok_finite _ Hf); pose proof (fin_ok_valid _ Hf); clear Hf end.
  (* results that are an argument, a constant, or a negation *)
  all: try (done_ok H; repeat match goal with |- context [if ?c then _ else _] => destruct c end;
            first [assumption | apply f_neg_finite; assumption | reflexivity | apply f_neg_finite; reflexivity]).
  (* floor / ceil / mantissa / exponent / length / codepoint: finite whether or not a gate is present *)
  - eapply gate_keeps; [|exact H]. apply f_floor_finite. unfold fin_ok. now rewrite H0, H1.
  - eapply gate_keeps; [|exact H]. apply f_ceil_finite. unfold fin_ok. now rewrite H0, H1.
  - (* round = floor (x + 0.5): the sum passed the + gate, so it is a finite well-formed double *)
    eapply gate_keeps; [|exact H]. apply f_floor_finite.
    pose proof (gate_id _ _ _ _ E) as Es. unfold fin_ok. apply andb_true_intro. split.
    + eapply gate_finite; [|exact E]. now apply Hg.
    + subst x0. apply f_add_valid. assumption. reflexivity.
  - eapply gate_keeps; [|exact H]. now apply f_mantissa_finite.
  - eapply gate_keeps; [|exact H]. apply f_of_i64_finite.
  - eapply gate_keeps; [|exact H]. apply f_of_N_finite. now apply N.ltb_lt.
  - eapply gate_keeps; [|exact H]. apply f_of_N_finite. apply N.ltb_lt in Heqb. lia.
  - rewrite (Hg BParseInt eq_refl) in H. eapply parse_int_finite; eauto.
  - rewrite (Hg BParseOctal eq_refl) in H. eapply parse_num_radix_finite; eauto.
  - rewrite (Hg BParseHex eq_refl) in H. eapply parse_num_radix_finite; eauto.
Qed.

(* ---------------------------------------------------------------- the snapshot's table lets sum overflow *)

Definition big : f64 := S754_finite false 5010420900022432 971.   (* 1e308 *)

Lemma sum_finite_refuted_snapshot :
  exists (L : libm_sig) args v,
    Forall arg_ok args /\ eval_numop L gates_snapshot BSum args = Ok v /\ f_is_finite v = false.
Proof.
  exists (const_libm f_zero), [AArr [big; big]], (S754_infinity false).
  split; [ repeat constructor | split; vm_compute; reflexivity ].
Qed.
