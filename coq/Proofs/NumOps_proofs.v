(* Proofs/NumOps_proofs.v — lemmas about Model/NumOps.v *)
From Coq Require Import ZArith NArith Bool List Lia Floats.SpecFloat.
From RJ Require Import Base.Outcome Base.F64 Model.Dec Model.NumOps.
Local Open Scope Z_scope.

(* ---------------------------------------------------------------- comparison is total on non-NaN *)

Lemma compare_total_on_finite : forall x y,
  f_is_finite x = true -> f_is_finite y = true -> f_compare x y <> None.
Proof.
  intros x y Hx Hy. destruct x, y; simpl in *; try discriminate;
    unfold f_compare, SFcompare; try discriminate.
Qed.

Lemma cmp_num_no_panic : forall x y,
  f_is_finite x = true -> f_is_finite y = true -> exists c, cmp_num x y = Ok c.
Proof.
  intros x y Hx Hy. unfold cmp_num.
  destruct (f_compare x y) eqn:E.
  - eauto.
  - exfalso. exact (compare_total_on_finite x y Hx Hy E).
Qed.

(* ---------------------------------------------------------------- the snapshot's table lets sum overflow *)

Definition big : f64 := S754_finite false 5010420900022432 971.   (* 1e308 *)

Lemma sum_finite_refuted_snapshot :
  exists (L : libm_sig) args v,
    Forall (fun a => match a with AArr l => forallb f_is_finite l = true | _ => True end) args /\
    eval_numop L gates_snapshot BSum args = Ok v /\ f_is_finite v = false.
Proof.
  exists (const_libm f_zero), [AArr [big; big]], (S754_infinity false).
  split; [ repeat constructor | split; vm_compute; reflexivity ].
Qed.
