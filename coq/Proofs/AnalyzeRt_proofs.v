(* Proofs/AnalyzeRt_proofs.v — run-time half of C09: induction over the IR, and
   the walker of the evaluator's environment discipline never fails a lookup on a
   closed IR (continues Proofs/Analyze_proofs.v). *)
From Coq Require Import Lia.
From RJ Require Import Base.Outcome Model.Token Model.Ast Model.Ir Model.Analyze Proofs.Analyze_proofs.
Local Open Scope outcome_scope.

(* ====================================================================
   7. Run-time side: in any environment covering the static scope, walking a
      closed IR performs only successful lookups
   ==================================================================== *)
Section IrAll.
  Variable P : ir -> Prop.
  Definition iopt_all (o : option ir) : Prop := match o with Some x => P x | None => True end.
  Definition iassert_all (a : ir_assert) : Prop :=
    match a with MkIrAssert _ c _ m => P c /\ iopt_all m end.
  Definition ifname_all (n : ir_fname) : Prop := match n with IFix _ => True | IDyn e => P e end.
  Definition ifield_all (f : ir_field) : Prop :=
    match f with MkIrField n _ _ _ v => ifname_all n /\ P v end.
  Definition ispec_all (c : ir_spec) : Prop := match c with ISFor _ e _ => P e | ISIf e _ => P e end.
  Definition ichildren_all (i : ir) : Prop :=
    match i with
    | INull | IBool _ | INumber _ _ | IString _ | IIdentityFunc | IImport _ _ | IImportStr _ _
    | IImportBin _ _ | IOtherError _ | ISuperField _ _ _ | IVar _ _ | ISelfObj | ITopObj => True
    | IObject _ locals asserts fields =>
        Forall (fun l => P (snd l)) locals /\ Forall iassert_all asserts /\ Forall ifield_all fields
    | IObjectComp _ locals fn _ _ fv specs =>
        Forall (fun l => P (snd l)) locals /\ P fn /\ P fv /\ Forall ispec_all specs
    | IArray items => Forall P items
    | IArrayComp v specs => P v /\ Forall ispec_all specs
    | IField o _ _ | ISuperIndex _ o _ | IUnary _ o _ | IInSuper o _ | IError o _ => P o
    | IIndex a b _ | IBinary _ a b _ => P a /\ P b
    | ISlice a x y z _ => P a /\ iopt_all x /\ iopt_all y /\ iopt_all z
    | ICall c pos named _ _ => P c /\ Forall P pos /\ Forall (fun a => P (snd a)) named
    | ILocal bs inner => Forall (fun b => P (snd b)) bs /\ P inner
    | IIf c _ t e => P c /\ P t /\ iopt_all e
    | IFunc ps body => Forall (fun p => iopt_all (snd p)) ps /\ P body
    | IAssert a inner => iassert_all a /\ P inner
    end.

  Section Rec.
    Variable rec : forall i, P i.
    Definition iopt_rec (o : option ir) : iopt_all o := match o with Some x => rec x | None => I end.
    Definition iassert_rec (a : ir_assert) : iassert_all a :=
      match a with MkIrAssert _ c _ m => conj (rec c) (iopt_rec m) end.
    Definition ifname_rec (n : ir_fname) : ifname_all n :=
      match n with IFix _ => I | IDyn e => rec e end.
    Definition ifield_rec (f : ir_field) : ifield_all f :=
      match f with MkIrField n _ _ _ v => conj (ifname_rec n) (rec v) end.
    Definition ispec_rec (c : ir_spec) : ispec_all c :=
      match c with ISFor _ e _ => rec e | ISIf e _ => rec e end.
  End Rec.

  Hypothesis step : forall i, ichildren_all i -> P i.

  Fixpoint ir_ind' (i : ir) {struct i} : P i :=
    step i
      (match i as i0 return ichildren_all i0 with
       | INull | IBool _ | INumber _ _ | IString _ | IIdentityFunc | IImport _ _ | IImportStr _ _
       | IImportBin _ _ | IOtherError _ | ISuperField _ _ _ | IVar _ _ | ISelfObj | ITopObj => I
       | IObject _ locals asserts fields =>
           conj (list_rec' (fun l => P (snd l)) (fun l => ir_ind' (snd l)) locals)
                (conj (list_rec' iassert_all (iassert_rec ir_ind') asserts)
                      (list_rec' ifield_all (ifield_rec ir_ind') fields))
       | IObjectComp _ locals fn _ _ fv specs =>
           conj (list_rec' (fun l => P (snd l)) (fun l => ir_ind' (snd l)) locals)
                (conj (ir_ind' fn) (conj (ir_ind' fv) (list_rec' ispec_all (ispec_rec ir_ind') specs)))
       | IArray items => list_rec' P ir_ind' items
       | IArrayComp v specs => conj (ir_ind' v) (list_rec' ispec_all (ispec_rec ir_ind') specs)
       | IField o _ _ | ISuperIndex _ o _ | IUnary _ o _ | IInSuper o _ | IError o _ => ir_ind' o
       | IIndex a b _ | IBinary _ a b _ => conj (ir_ind' a) (ir_ind' b)
       | ISlice a x y z _ =>
           conj (ir_ind' a) (conj (iopt_rec ir_ind' x) (conj (iopt_rec ir_ind' y) (iopt_rec ir_ind' z)))
       | ICall c pos named _ _ =>
           conj (ir_ind' c) (conj (list_rec' P ir_ind' pos)
                                  (list_rec' (fun a => P (snd a)) (fun a => ir_ind' (snd a)) named))
       | ILocal bs inner =>
           conj (list_rec' (fun b => P (snd b)) (fun b => ir_ind' (snd b)) bs) (ir_ind' inner)
       | IIf c _ t e => conj (ir_ind' c) (conj (ir_ind' t) (iopt_rec ir_ind' e))
       | IFunc ps body =>
           conj (list_rec' (fun p => iopt_all (snd p)) (fun p => iopt_rec ir_ind' (snd p)) ps) (ir_ind' body)
       | IAssert a inner => conj (iassert_rec ir_ind' a) (ir_ind' inner)
       end).
End IrAll.

Definition covers (r : rt_env) (L : list str) (io : bool) : Prop :=
  (forall x, In x L -> rt_get_var x r = Ok tt) /\ (io = true -> rt_get_object r = Ok tt).

Lemma existsb_str_In n l : existsb (str_eqb n) l = true <-> In n l.
Proof.
  rewrite existsb_exists. split.
  - intros (y & Hy & He). apply str_eqb_eq in He. subst; auto.
  - intros H. exists n; split; auto. apply str_eqb_eq; reflexivity.
Qed.

Lemma covers_frame r L io ns : covers r L io -> covers (rt_frame ns r) (ns ++ L) io.
Proof.
  intros [Hv Ho]. destruct r as [p vs o]. unfold rt_frame, rt_new, rt_set_vars. split.
  - intros x Hx. simpl. destruct (existsb (str_eqb x) (ns ++ [])) eqn:E; auto.
    apply in_app_iff in Hx. destruct Hx as [Hx|Hx].
    + assert (In x (ns ++ [])) by (rewrite app_nil_r; auto). apply existsb_str_In in H. congruence.
    + apply Hv; auto.
  - intros Hio. specialize (Ho Hio). simpl in *. destruct o; auto.
Qed.

Lemma covers_frame_obj r L io ns : covers r L io -> covers (rt_set_object (rt_frame ns r)) (ns ++ L) true.
Proof.
  intros H. apply (covers_frame _ _ _ ns) in H. destruct H as [Hv _].
  destruct (rt_frame ns r) as [p vs o] eqn:E. split; [| reflexivity].
  intros x Hx. specialize (Hv x Hx). simpl in *. exact Hv.
Qed.

Lemma wlist_ok {A} (f : A -> outcome unit unit) l : Forall (fun x => f x = Ok tt) l -> wlist f l = Ok tt.
Proof. induction 1 as [|x t Hx Ht IH]; simpl; auto. rewrite Hx. simpl. auto. Qed.

Definition W (i : ir) : Prop := forall L io r, Closed L io i -> covers r L io -> walk r i = Ok tt.

Ltac wuse :=
  match goal with
  | Hw : W ?i, Hc : Closed ?L ?io ?i, Hr : covers ?r ?L ?io |- context [walk ?r ?i] =>
      rewrite (Hw L io r Hc Hr); simpl
  end.

Lemma wopt_ok o L io r : iopt_all W o -> (forall v, o = Some v -> Closed L io v) -> covers r L io ->
  wopt (walk r) o = Ok tt.
Proof. destruct o; simpl; intros Hw Hc Hr; auto. eapply Hw; eauto. Qed.

Lemma walk_assert_ok a L io r : iassert_all W a -> ClosedAssert L io a -> covers r L io ->
  walk_assert walk r a = Ok tt.
Proof.
  destruct a as [sp c csp m]; simpl; intros [Hc Hm] H Hr. inversion H; subst.
  wuse. eapply wopt_ok; eauto.
Qed.

Lemma walk_specs_ok specs k : Forall (ispec_all W) specs -> forall L io L' r,
  ClosedSpecs L io specs L' -> covers r L io ->
  (forall r', covers r' L' io -> k r' = Ok tt) ->
  walk_specs walk k specs r = Ok tt.
Proof.
  induction 1 as [|c rest Hc Hrest IH]; intros L io L' r Hcl Hr Hk; inversion Hcl; subst; simpl.
  - apply Hk; auto.
  - simpl in Hc. wuse. eapply IH; eauto.
    apply (covers_frame _ _ _ [v]) in Hr. exact Hr.
  - simpl in Hc. wuse. eapply IH; eauto.
Qed.

Lemma Forall_snd_walk {A} (l : list (A * ir)) L io r :
  Forall (fun x => W (snd x)) l -> Forall (fun x => Closed L io (snd x)) l -> covers r L io ->
  wlist (fun x => walk r (snd x)) l = Ok tt.
Proof.
  intros Hw Hc Hr. apply wlist_ok. revert Hc. revert Hw. apply Forall_mp3. intros x Hx Hcx. eapply Hx; eauto.
Qed.

Lemma Forall_walk (l : list ir) L io r :
  Forall W l -> Forall (Closed L io) l -> covers r L io -> wlist (walk r) l = Ok tt.
Proof.
  intros Hw Hc Hr. apply wlist_ok. revert Hc. revert Hw. apply Forall_mp3. intros x Hx Hcx. eapply Hx; eauto.
Qed.

Ltac wopt_use :=
  match goal with
  | Hw : iopt_all _ ?o, Hc : (forall v, ?o = Some v -> Closed ?L ?io v), Hr : covers ?r ?L ?io
    |- context [wopt (walk ?r) ?o] => rewrite (wopt_ok o L io r Hw Hc Hr); simpl
  end.

Theorem walk_W : forall i, W i.
Proof.
  induction i using ir_ind'. rename H into Hc. intros L io r Hcl Hr.
  destruct i; simpl in Hc; inversion Hcl; subst; simpl;
    repeat match goal with Hx : _ /\ _ |- _ => destruct Hx end;
    try reflexivity;
    try (destruct Hr as [Hv Ho]; solve [apply Ho; reflexivity | apply Hv; auto]);
    repeat wuse; repeat wopt_use; try reflexivity.
  - (* IObject *)
    set (inner := rt_set_object (rt_frame (map fst locals) r)).
    assert (Hi : covers inner (map fst locals ++ L) true) by (eapply covers_frame_obj; eauto).
    rewrite (Forall_snd_walk locals (map fst locals ++ L) true inner) by auto. simpl.
    rewrite wlist_ok.
    + simpl. apply wlist_ok.
      match goal with Hw : Forall (ifield_all _) fields, Hf : Forall (ClosedField _ _ _) fields |- _ =>
        revert Hf; revert Hw end.
      apply Forall_mp3.
      intros f Hf Hcf. destruct f as [n nsp plus vis v]. simpl in Hf. destruct Hf as [Hn Hv].
      inversion Hcf; subst; simpl.
      * eapply Hv; eauto.
      * simpl in Hn. wuse. eapply Hv; eauto.
    + match goal with Hw : Forall (iassert_all _) asserts, Hf : Forall (ClosedAssert _ _) asserts |- _ =>
        revert Hf; revert Hw end.
      apply Forall_mp3. intros a Ha Hca. eapply walk_assert_ok; eauto.
  - (* IObjectComp *)
    eapply walk_specs_ok; eauto. intros r' Hr'.
    set (inner := rt_set_object (rt_frame (map fst locals) r')).
    assert (Hi : covers inner (map fst locals ++ L') true) by (eapply covers_frame_obj; eauto).
    rewrite (Forall_snd_walk locals (map fst locals ++ L') true inner) by auto. simpl.
    wuse. match goal with Hw : W ?i |- walk _ ?i = _ => eapply Hw; eauto end.
  - (* IArray *) eapply Forall_walk; eauto.
  - (* IArrayComp *) eapply walk_specs_ok; eauto; intros r' Hr';
    match goal with Hw : W ?i |- walk _ ?i = _ => eapply Hw; eauto end.
  - (* ISuperIndex *) destruct Hr as [Hv Ho]. rewrite (Ho eq_refl). reflexivity.
  - (* ICall *) rewrite (Forall_walk positional_args L io r) by auto. simpl. eapply Forall_snd_walk; eauto.
  - (* ILocal *)
    assert (Hi : covers (rt_frame (map fst bindings) r) (map fst bindings ++ L) io) by (apply covers_frame; auto).
    rewrite (Forall_snd_walk bindings (map fst bindings ++ L) io _) by auto. simpl.
    match goal with Hw : W ?i |- walk _ ?i = _ => eapply Hw; eauto end.
  - (* IInSuper *) destruct Hr as [Hv Ho]. rewrite (Ho eq_refl). reflexivity.
  - (* IFunc *)
    assert (Hi : covers (rt_frame (map fst params) r) (map fst params ++ L) io) by (apply covers_frame; auto).
    rewrite wlist_ok.
    + simpl. match goal with Hw : W ?i |- walk _ ?i = _ => eapply Hw; eauto end.
    + match goal with Hw : Forall (fun p => iopt_all _ (snd p)) params, Hf : Forall (fun p => forall d, _ -> _) params |- _ =>
        revert Hf; revert Hw end.
      apply Forall_mp3. intros p Hp Hcp. eapply wopt_ok; eauto.
  - (* IAssert *) rewrite (walk_assert_ok a L io r) by auto. reflexivity.
Qed.

(* headline (run-time half, over the environment discipline): closedness makes
   every lookup succeed in any run-time environment covering the static scope *)
Theorem walk_no_unbound : forall i L io r,
  Closed L io i -> covers r L io -> walk r i = Ok tt.
Proof. intros i L io r. apply walk_W. Qed.

Corollary analyze_walk_no_unbound : forall e vs io ts i r,
  analyze_expr e (mk_env io vs) ts = Ok i -> covers r vs io -> walk r i = Ok tt.
Proof. intros. eapply walk_no_unbound; eauto. eapply analyze_closed; eauto. Qed.
