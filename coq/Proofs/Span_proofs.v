(* Proofs/Span_proofs.v — lemmas about Model/Span.v *)
From RJ Require Import Base.Outcome Model.Span.
From Coq Require Import Lia Sorting.Sorted.
Local Open Scope N_scope.

Arguments N.add : simpl never.
Arguments N.sub : simpl never.
Arguments N.mul : simpl never.
Arguments N.pow : simpl never.
Arguments N.shiftl : simpl never.
Arguments N.shiftr : simpl never.
Arguments N.lor : simpl never.
Arguments N.land : simpl never.
Arguments N.ldiff : simpl never.
Arguments N.leb : simpl never.
Arguments N.ltb : simpl never.
Arguments N.eqb : simpl never.
Arguments N.div : simpl never.

(* ------------------------------------------------------------------ *)
(* N-indexed access is nth_error                                        *)

Lemma nthN_spec {A} (l : list A) i : nthN l i = nth_error l (N.to_nat i).
Proof.
  unfold nthN. destruct (N.leb_spec (N.of_nat (length l)) i); [|reflexivity].
  symmetry. apply nth_error_None. lia.
Qed.

Lemma gco_eq m ctx : get_context_offsets m ctx = gco_raw m ctx.
Proof.
  unfold get_context_offsets. destruct (N.leb_spec (N.of_nat (length (contexts m))) ctx); [|reflexivity].
  unfold gco_raw. assert (H0 : nth_error (contexts m) (N.to_nat ctx) = None) by (apply nth_error_None; lia).
  rewrite H0. reflexivity.
Qed.

(* ------------------------------------------------------------------ *)
(* constants                                                           *)

Definition consts_ok (C : span_consts) : Prop :=
  0 < offset_bits C /\ offset_bits C < 63 /\
  offset_mask C = 2 ^ offset_bits C - 1 /\
  len_max C = 2 ^ (63 - offset_bits C) - 1.

(* ------------------------------------------------------------------ *)
(* bit lemmas                                                          *)

Lemma testbit_small x n m : x < 2 ^ n -> n <= m -> N.testbit x m = false.
Proof.
  intros Hx Hnm. rewrite <- (N.mod_small x (2 ^ n)) by exact Hx.
  apply N.mod_pow2_bits_high. exact Hnm.
Qed.

Lemma pack_land k a b : a < 2 ^ k ->
  N.land (N.lor a (N.shiftl b k)) (2 ^ k - 1) = a.
Proof.
  intros Ha. replace (2 ^ k - 1) with (N.ones k) by (rewrite N.ones_equiv; lia).
  rewrite N.land_lor_distr_l, !N.land_ones.
  rewrite N.shiftl_mul_pow2, N.mod_mul by (apply N.pow_nonzero; lia).
  rewrite N.mod_small by exact Ha. apply N.lor_0_r.
Qed.

Lemma pack_shiftr k a b : a < 2 ^ k ->
  N.shiftr (N.lor a (N.shiftl b k)) k = b.
Proof.
  intros Ha. rewrite N.shiftr_lor.
  rewrite (N.shiftr_div_pow2 a), N.div_small by exact Ha.
  rewrite N.shiftr_shiftl_l by lia. rewrite N.sub_diag, N.shiftl_0_r. apply N.lor_0_l.
Qed.

Lemma pack_bit63 k a b : a < 2 ^ k -> b < 2 ^ (63 - k) -> k < 63 ->
  N.land (N.lor a (N.shiftl b k)) bit63 = 0.
Proof.
  intros Ha Hb Hk. apply N.bits_inj. intros i.
  rewrite N.land_spec, N.bits_0. unfold bit63. rewrite N.pow2_bits_eqb.
  destruct (N.eqb_spec 63 i) as [<-|Hne]; [|apply andb_false_r].
  rewrite andb_true_r, N.lor_spec.
  rewrite (testbit_small a k 63) by (assumption || lia).
  rewrite N.shiftl_spec_high' by lia.
  rewrite (testbit_small b (63 - k)) by (assumption || lia). reflexivity.
Qed.

Lemma tag_bit63 i : N.land (N.lor i bit63) bit63 <> 0.
Proof.
  intros H. apply (f_equal (fun x => N.testbit x 63)) in H.
  rewrite N.land_spec, N.lor_spec, N.bits_0 in H. unfold bit63 in H.
  rewrite N.pow2_bits_true in H. rewrite orb_true_r in H. discriminate.
Qed.

Lemma tag_ldiff i : i < 2 ^ 63 -> N.ldiff (N.lor i bit63) bit63 = i.
Proof.
  intros Hi. apply N.bits_inj. intros n.
  rewrite N.ldiff_spec, N.lor_spec. unfold bit63. rewrite N.pow2_bits_eqb.
  destruct (N.eqb_spec 63 n) as [<-|Hne].
  - rewrite (testbit_small i 63 63) by (assumption || lia). reflexivity.
  - rewrite orb_false_r, andb_true_r. reflexivity.
Qed.

(* ------------------------------------------------------------------ *)
(* sorted context vectors                                              *)

Definition sorted (l : list N) : Prop := StronglySorted N.lt l.

Lemma sorted_app_inv l1 a l2 :
  sorted (l1 ++ a :: l2) -> Forall (fun x => x < a) l1 /\ Forall (fun x => a < x) l2 /\ sorted l1.
Proof.
  unfold sorted. induction l1 as [|x l1 IH]; simpl; intros H.
  - inversion H; subst. repeat split; [constructor|assumption|constructor].
  - inversion H as [|? ? Hs Hall]; subst. destruct (IH Hs) as (H1 & H2 & H3).
    repeat split.
    + constructor; [|exact H1]. rewrite Forall_forall in Hall. apply Hall.
      apply in_or_app. right. left. reflexivity.
    + exact H2.
    + constructor; [exact H3|]. rewrite Forall_forall in *. intros y Hy. apply Hall.
      apply in_or_app. left. exact Hy.
Qed.

Lemma count_le_bound off l : count_le off l <= N.of_nat (length l).
Proof.
  unfold count_le. induction l as [|x l IH]; simpl; [lia|].
  destruct (x <=? off); simpl; lia.
Qed.

Lemma count_le_app off l1 l2 : count_le off (l1 ++ l2) = count_le off l1 + count_le off l2.
Proof. unfold count_le. rewrite filter_app, app_length. lia. Qed.

Lemma count_le_all off l : Forall (fun x => x <= off) l -> count_le off l = N.of_nat (length l).
Proof.
  unfold count_le. induction 1 as [|x l Hx _ IH]; simpl; [reflexivity|].
  destruct (N.leb_spec x off); [|lia]. simpl. lia.
Qed.

Lemma count_le_none off l : Forall (fun x => off < x) l -> count_le off l = 0.
Proof.
  unfold count_le. induction 1 as [|x l Hx _ IH]; simpl; [reflexivity|].
  destruct (N.leb_spec x off); [lia|]. exact IH.
Qed.

Lemma Forall_lt_le_trans (l : list N) a b : Forall (fun x => x < a) l -> a <= b -> Forall (fun x => x <= b) l.
Proof. intros H Hab. eapply Forall_impl; [|exact H]. simpl. intros; lia. Qed.

Lemma Forall_gt_trans (l : list N) a b : Forall (fun x => a < x) l -> b <= a -> Forall (fun x => b < x) l.
Proof. intros H Hab. eapply Forall_impl; [|exact H]. simpl. intros; lia. Qed.

(* the specification of lookup: the context containing offset *)
Lemma count_le_context l ctx lo hi off :
  sorted l ->
  get_context_offsets {| contexts := l; idx_to_span := [] |} ctx = Ok (lo, hi) ->
  lo <= off -> off < hi ->
  count_le off l = ctx.
Proof.
  intros Hs Hg Hlo Hhi. rewrite gco_eq in Hg. unfold gco_raw in Hg. cbn [contexts] in Hg.
  destruct (nth_error l (N.to_nat ctx)) as [h|] eqn:Hn; [|discriminate].
  destruct (N.to_nat ctx) as [|j] eqn:Hc.
  - injection Hg as <- <-.
    destruct l as [|x l]; [discriminate|]. simpl in Hn. injection Hn as ->.
    change (h :: l) with ([] ++ h :: l) in Hs. apply sorted_app_inv in Hs as (_ & H2 & _).
    change (h :: l) with ([h] ++ l). rewrite count_le_app.
    rewrite (count_le_none off [h]) by (constructor; [lia|constructor]).
    rewrite (count_le_none off l) by (eapply Forall_gt_trans; [exact H2|lia]). lia.
  - destruct (nth_error l j) as [lo'|] eqn:Hj; [|discriminate]. injection Hg as <- <-.
    apply nth_error_split in Hj as (l0 & l2 & -> & Hlen).
    rewrite <- Hlen in Hn.
    replace (S (length l0)) with (length l0 + 1)%nat in Hn by lia.
    rewrite nth_error_app2 in Hn by lia.
    replace (length l0 + 1 - length l0)%nat with 1%nat in Hn by lia.
    destruct l2 as [|h' l2]; [discriminate|]. simpl in Hn. injection Hn as ->.
    pose proof Hs as Hs0. apply sorted_app_inv in Hs0 as (H1 & _ & _).
    replace (l0 ++ lo' :: h :: l2) with ((l0 ++ [lo']) ++ h :: l2) in Hs
      by (rewrite <- app_assoc; reflexivity).
    apply sorted_app_inv in Hs as (_ & H2 & _).
    rewrite count_le_app. rewrite (count_le_all off l0) by (eapply Forall_lt_le_trans; [exact H1|lia]).
    change (lo' :: h :: l2) with ([lo'] ++ [h] ++ l2). rewrite !count_le_app.
    rewrite (count_le_all off [lo']) by (constructor; [lia|constructor]).
    rewrite (count_le_none off [h]) by (constructor; [lia|constructor]).
    rewrite (count_le_none off l2) by (eapply Forall_gt_trans; [exact H2|lia]).
    simpl length. lia.
Qed.

(* ------------------------------------------------------------------ *)
(* binary search = count on sorted vectors                             *)

Lemma sorted_nth_le l i e off :
  sorted l -> nth_error l i = Some e ->
  ((e <=? off) = true <-> (N.of_nat i < count_le off l)).
Proof.
  intros Hs Hn. apply nth_error_split in Hn as (l1 & l2 & -> & Hlen). subst i.
  apply sorted_app_inv in Hs as (H1 & H2 & _).
  rewrite count_le_app. change (e :: l2) with ([e] ++ l2). rewrite count_le_app.
  destruct (N.leb_spec e off) as [Hle|Hgt].
  - rewrite (count_le_all off l1) by (eapply Forall_lt_le_trans; [exact H1|lia]).
    rewrite (count_le_all off [e]) by (constructor; [lia|constructor]). simpl length.
    split; [intros _; lia|reflexivity].
  - rewrite (count_le_none off [e]) by (constructor; [lia|constructor]).
    rewrite (count_le_none off l2) by (eapply Forall_gt_trans; [exact H2|lia]).
    pose proof (count_le_bound off l1).
    split; [discriminate|lia].
Qed.


Lemma div2_bounds lo hi : (lo < hi)%nat -> (lo <= Nat.div2 (lo + hi) < hi)%nat.
Proof.
  intros H. pose proof (Nat.div2_odd (lo + hi)) as E.
  destruct (Nat.odd (lo + hi)); simpl Nat.b2n in E; lia.
Qed.

Lemma bsearch_correct l off : sorted l ->
  forall fuel lo hi,
    (lo <= N.to_nat (count_le off l) <= hi)%nat -> (hi <= length l)%nat ->
    (hi - lo < fuel)%nat ->
    bsearch fuel l off lo hi = N.to_nat (count_le off l).
Proof.
  intros Hs. induction fuel as [|f IH]; intros lo hi Hc Hh Hf; [lia|].
  cbn [bsearch]. destruct (Nat.leb_spec hi lo) as [Hle|Hlt]; [lia|].
  pose proof (div2_bounds lo hi Hlt) as Hm.
  set (mid := Nat.div2 (lo + hi)) in *.
  destruct (nth_error l mid) as [e|] eqn:Hn.
  2:{ apply nth_error_None in Hn. lia. }
  pose proof (sorted_nth_le l mid e off Hs Hn) as Hiff.
  destruct (e <=? off) eqn:He.
  - apply IH; [|exact Hh|lia]. destruct Hiff as [H _]. specialize (H eq_refl). lia.
  - apply IH; [|lia|lia].
    assert (~ N.of_nat mid < count_le off l) by (intros X; apply Hiff in X; discriminate).
    lia.
Qed.

Lemma lookup_is_count m off : sorted (contexts m) ->
  get_context_from_offset m off = count_le off (contexts m).
Proof.
  intros Hs. unfold get_context_from_offset.
  rewrite (bsearch_correct _ off Hs); [lia| |lia|lia].
  pose proof (count_le_bound off (contexts m)). lia.
Qed.

(* ------------------------------------------------------------------ *)
(* well-formed managers                                                *)

Definition wf (m : mgr) : Prop :=
  sorted (contexts m) /\ Forall (fun x => 0 < x /\ x <= u64_max) (contexts m).

Lemma wf_empty : wf empty_mgr.
Proof. split; constructor. Qed.

Lemma sorted_last_max l : sorted l -> Forall (fun x => x <= last l 0) l.
Proof.
  unfold sorted. induction 1 as [|x l Hs IH Hall]; [constructor|].
  destruct l as [|y l'].
  - constructor; [simpl; lia|constructor].
  - change (last (x :: y :: l') 0) with (last (y :: l') 0).
    constructor; [|exact IH].
    inversion IH as [|? ? Hy _]; subst. inversion Hall; subst. lia.
Qed.

Lemma sorted_snoc l e : sorted l -> last l 0 < e -> sorted (l ++ [e]).
Proof.
  unfold sorted. intros Hs He. pose proof (sorted_last_max l Hs) as Hmax.
  induction Hs as [|x l Hs IH Hall]; simpl.
  - constructor; constructor.
  - inversion Hmax as [|? ? Hx Hrest]; subst.
    assert (Hlast : l <> [] -> last (x :: l) 0 = last l 0) by (destruct l; [congruence|reflexivity]).
    constructor.
    + destruct l as [|y l']; [simpl; constructor; constructor|].
      apply IH; rewrite <- Hlast by discriminate; assumption.
    + apply Forall_app. split; [exact Hall|]. constructor; [lia|constructor].
Qed.

Lemma insert_context_wf m len m' id :
  wf m -> insert_context m len = Ok (m', id) ->
  wf m' /\ id = N.of_nat (length (contexts m)) /\
  contexts m' = contexts m ++ [last (contexts m) 0 + len + 1] /\
  idx_to_span m' = idx_to_span m.
Proof.
  intros [Hs Hb] H. unfold insert_context in H.
  destruct (N.ltb_spec u64_max (last (contexts m) 0 + len + 1)); [discriminate|].
  injection H as <- <-. cbn [contexts idx_to_span]. repeat split.
  - apply sorted_snoc; [exact Hs|lia].
  - apply Forall_app. split; [exact Hb|]. constructor; [lia|constructor].
Qed.

(* ------------------------------------------------------------------ *)
(* get_context_offsets facts                                           *)

Lemma gco_indep m m' ctx : contexts m = contexts m' ->
  get_context_offsets m ctx = get_context_offsets m' ctx.
Proof. unfold get_context_offsets, gco_raw. intros ->. reflexivity. Qed.

Lemma gco_ok_lt m ctx lo hi : get_context_offsets m ctx = Ok (lo, hi) ->
  (N.to_nat ctx < length (contexts m))%nat.
Proof.
  rewrite gco_eq. unfold gco_raw. destruct (nth_error (contexts m) (N.to_nat ctx)) eqn:Hn; [|discriminate].
  intros _. apply nth_error_Some. congruence.
Qed.

Lemma gco_snoc m e ctx lo hi :
  get_context_offsets m ctx = Ok (lo, hi) ->
  get_context_offsets {| contexts := contexts m ++ [e]; idx_to_span := idx_to_span m |} ctx = Ok (lo, hi).
Proof.
  intros H. pose proof (gco_ok_lt _ _ _ _ H) as Hlt. revert H.
  rewrite !gco_eq. unfold gco_raw. cbn [contexts].
  rewrite nth_error_app1 by exact Hlt.
  destruct (nth_error (contexts m) (N.to_nat ctx)); [|discriminate].
  destruct (N.to_nat ctx) as [|j]; [auto|].
  rewrite nth_error_app1 by lia. auto.
Qed.

Lemma gco_lo_lt_hi m ctx lo hi : wf m ->
  get_context_offsets m ctx = Ok (lo, hi) -> lo < hi /\ hi <= u64_max.
Proof.
  intros [Hs Hb] H. rewrite gco_eq in H. unfold gco_raw in H.
  destruct (nth_error (contexts m) (N.to_nat ctx)) as [h|] eqn:Hn; [|discriminate].
  assert (Hh : 0 < h /\ h <= u64_max).
  { rewrite Forall_forall in Hb. apply Hb. eapply nth_error_In; eauto. }
  destruct (N.to_nat ctx) as [|j].
  - injection H as <- <-. lia.
  - destruct (nth_error (contexts m) j) as [l|] eqn:Hj; [|discriminate]. injection H as <- <-.
    apply nth_error_split in Hj as (l0 & l2 & E & Hlen). rewrite E in Hn, Hs.
    rewrite <- Hlen in Hn. replace (S (length l0)) with (length l0 + 1)%nat in Hn by lia.
    rewrite nth_error_app2 in Hn by lia.
    replace (length l0 + 1 - length l0)%nat with 1%nat in Hn by lia.
    destruct l2 as [|x l2]; [discriminate|]. simpl in Hn. injection Hn as ->.
    apply sorted_app_inv in Hs as (_ & H2 & _). inversion H2; subst. lia.
Qed.

(* ------------------------------------------------------------------ *)
(* one-step round trip                                                 *)

Lemma find_index_some {A} (eqb : A -> A -> bool) x l i k :
  (forall a b, eqb a b = true -> a = b) ->
  find_index eqb x l i = Some k -> (i <= k)%nat /\ nth_error l (k - i) = Some x.
Proof.
  intros Heq. revert i. induction l as [|y r IH]; simpl; intros i H; [discriminate|].
  destruct (eqb x y) eqn:E.
  - injection H as <-. apply Heq in E. subst. rewrite Nat.sub_diag. split; [lia|reflexivity].
  - apply IH in H as [H1 H2]. split; [lia|].
    replace (k - i)%nat with (S (k - S i)) by lia. exact H2.
Qed.

Lemma triple_eqb_eq a b : triple_eqb a b = true -> a = b.
Proof.
  destruct a as [[a1 a2] a3], b as [[b1 b2] b3]. unfold triple_eqb.
  rewrite !andb_true_iff, !N.eqb_eq. intros [[-> ->] ->]. reflexivity.
Qed.

Definition in_range (m : mgr) (t : span_triple) : Prop :=
  let '(ctx, a, b) := t in
  exists lo hi, get_context_offsets m ctx = Ok (lo, hi) /\ a <= b /\ lo + b < hi.

Definition small (m : mgr) : Prop := N.of_nat (length (idx_to_span m)) < 2 ^ 63.

Lemma pow_split k : k < 63 -> 2 ^ 63 = 2 ^ k * 2 ^ (63 - k).
Proof. intros. rewrite <- N.pow_add_r. f_equal. lia. Qed.

(* a valid request never panics, leaves contexts alone, only appends to the
   interner, and the id it returns decodes to the request *)
Lemma intern_span_roundtrip C m ctx a b :
  consts_ok C -> wf m -> in_range m (ctx, a, b) ->
  exists m' id, intern_span C m ctx a b = Ok (m', id) /\
    contexts m' = contexts m /\
    (exists ext, idx_to_span m' = idx_to_span m ++ ext) /\
    (small m' -> get_span C m' id = Ok (ctx, a, b)).
Proof.
  intros (Hk0 & Hk & Hmask & Hlen) Hwf (lo & hi & Hg & Hab & Hhi).
  destruct (gco_lo_lt_hi _ _ _ _ Hwf Hg) as [Hlh Hmax].
  unfold intern_span. rewrite Hg. cbn [obind].
  destruct (N.leb_spec a b) as [_|]; [|lia]. cbn [negb].
  destruct (N.ltb_spec u64_max (lo + a)); [lia|].
  destruct (N.ltb_spec u64_max (lo + b)); [lia|]. cbn [orb].
  destruct (N.ltb_spec (lo + a) hi); [|lia]. cbn [negb].
  destruct (N.ltb_spec (lo + b) hi); [|lia]. cbn [negb].
  destruct ((len_max C <? b - a) || (offset_mask C <=? lo + a)) eqn:Hpath.
  - (* interned path *)
    destruct (find_index triple_eqb (ctx, a, b) (idx_to_span m) 0) as [i|] eqn:Hf.
    + exists m, (N.lor (N.of_nat i) bit63). repeat split.
      * exists []. rewrite app_nil_r. reflexivity.
      * intros Hsmall. unfold get_span.
        destruct (N.eqb_spec (N.land (N.lor (N.of_nat i) bit63) bit63) 0) as [E|_];
          [exfalso; exact (tag_bit63 _ E)|].
        apply find_index_some in Hf as [_ Hf]; [|exact triple_eqb_eq].
        rewrite Nat.sub_0_r in Hf.
        assert (N.of_nat i < 2 ^ 63).
        { assert (i < length (idx_to_span m))%nat by (apply nth_error_Some; congruence).
          unfold small in Hsmall. lia. }
        rewrite tag_ldiff by assumption. rewrite nthN_spec, Nat2N.id, Hf. reflexivity.
    + eexists _, _. split; [reflexivity|]. cbn [contexts idx_to_span]. repeat split.
      * eexists. reflexivity.
      * intros Hsmall. unfold small in Hsmall. cbn [idx_to_span] in Hsmall.
        rewrite app_length in Hsmall. simpl length in Hsmall.
        unfold get_span.
        destruct (N.eqb_spec (N.land (N.lor (N.of_nat (length (idx_to_span m))) bit63) bit63) 0) as [E|_];
          [exfalso; exact (tag_bit63 _ E)|].
        rewrite tag_ldiff by lia. rewrite nthN_spec, Nat2N.id. cbn [idx_to_span].
        rewrite nth_error_app2 by lia. rewrite Nat.sub_diag. reflexivity.
  - (* inline path *)
    apply orb_false_iff in Hpath as [Hp1 Hp2].
    apply N.ltb_ge in Hp1. apply N.leb_gt in Hp2.
    set (k := offset_bits C) in *.
    assert (Hpow : 0 < 2 ^ k) by (apply N.neq_0_lt_0, N.pow_nonzero; lia).
    assert (Hpow' : 0 < 2 ^ (63 - k)) by (apply N.neq_0_lt_0, N.pow_nonzero; lia).
    assert (Ha : lo + a + 1 < 2 ^ k) by lia.
    assert (Hb : b - a < 2 ^ (63 - k)) by lia.
    destruct (N.eqb_spec (N.lor (lo + a + 1) (N.shiftl (b - a) k)) 0) as [E|_].
    { apply N.lor_eq_0_iff in E as [E _]. lia. }
    exists m, (N.lor (lo + a + 1) (N.shiftl (b - a) k)). repeat split.
    + exists []. rewrite app_nil_r. reflexivity.
    + intros _. unfold get_span. fold k.
      rewrite pack_bit63 by assumption. cbn [N.eqb].
      destruct (N.eqb_spec 0 0) as [_|]; [|congruence].
      rewrite Hmask. fold k. rewrite pack_land by assumption.
      destruct (N.eqb_spec (lo + a + 1) 0) as [|_]; [lia|].
      replace (lo + a + 1 - 1) with (lo + a) by lia.
      rewrite pack_shiftr by assumption.
      destruct Hwf as [Hs _]. rewrite lookup_is_count by exact Hs.
      assert (Hc : count_le (lo + a) (contexts m) = ctx).
      { apply count_le_context with (lo := lo) (hi := hi); [exact Hs| |lia|lia].
        rewrite <- Hg. apply gco_indep. reflexivity. }
      rewrite Hc, Hg. cbn [obind].
      destruct (N.ltb_spec (lo + a) lo); [lia|].
      replace (lo + a - lo) with a by lia. replace (a + (b - a)) with b by lia. reflexivity.
Qed.

(* ------------------------------------------------------------------ *)
(* stability: later registrations never disturb ids handed out earlier *)

Definition decodes C (m : mgr) (id : N) (t : span_triple) : Prop :=
  get_span C m id = Ok t.

Lemma decode_stable_interner C m ext id t :
  decodes C m id t ->
  decodes C {| contexts := contexts m; idx_to_span := idx_to_span m ++ ext |} id t.
Proof.
  unfold decodes, get_span. destruct (N.land id bit63 =? 0).
  - unfold get_context_from_offset. cbn [contexts].
    destruct (N.land id (offset_mask C) =? 0); [auto|].
    erewrite (gco_indep {| contexts := contexts m; idx_to_span := idx_to_span m ++ ext |} m)
      by reflexivity. auto.
  - cbn [idx_to_span]. rewrite !nthN_spec.
    destruct (nth_error (idx_to_span m) (N.to_nat (N.ldiff id bit63))) eqn:Hn;
      [|discriminate].
    intros H. rewrite nth_error_app1 by (apply nth_error_Some; congruence). rewrite Hn. exact H.
Qed.

Lemma decode_stable_context C m e id t :
  wf m -> last (contexts m) 0 < e ->
  decodes C m id t ->
  decodes C {| contexts := contexts m ++ [e]; idx_to_span := idx_to_span m |} id t.
Proof.
  intros [Hs Hb] He. unfold decodes, get_span. destruct (N.land id bit63 =? 0); [|auto].
  destruct (N.land id (offset_mask C) =? 0); [auto|].
  set (off := N.land id (offset_mask C) - 1).
  assert (Hs' : sorted (contexts m ++ [e])) by (apply sorted_snoc; assumption).
  rewrite (lookup_is_count m) by exact Hs.
  rewrite (lookup_is_count {| contexts := contexts m ++ [e]; idx_to_span := idx_to_span m |})
    by exact Hs'.
  cbn [contexts]. intros H.
  destruct (get_context_offsets m (count_le off (contexts m))) as [[lo hi]| | |] eqn:Hg;
    cbn [obind] in H; try discriminate.
  pose proof (gco_ok_lt _ _ _ _ Hg) as Hlt.
  (* not every end is <= off, hence the last (greatest) one is > off, hence e > off *)
  assert (Hoff : off < e).
  { destruct (N.ltb_spec off e) as [|Hge]; [assumption|exfalso].
    assert (Forall (fun x => x <= off) (contexts m)).
    { eapply Forall_impl; [|apply sorted_last_max; exact Hs]. simpl. intros; lia. }
    rewrite count_le_all in Hlt by assumption. lia. }
  rewrite count_le_app. rewrite (count_le_none off [e]) by (constructor; [exact Hoff|constructor]).
  rewrite N.add_0_r.
  erewrite gco_snoc by exact Hg. cbn [obind]. exact H.
Qed.

(* ------------------------------------------------------------------ *)
(* histories                                                           *)

Inductive req :=
| RCtx (len : N)
| RSpan (ctx a b : N).

(* replays a history on the model; logs (id, requested triple) for every
   registration the manager accepted *)
Fixpoint play (C : span_consts) (m : mgr) (log : list (N * span_triple)) (rs : list req)
  : mgr * list (N * span_triple) :=
  match rs with
  | [] => (m, log)
  | RCtx len :: r =>
      match insert_context m len with
      | Ok (m', _) => play C m' log r
      | _ => play C m log r
      end
  | RSpan c a b :: r =>
      match intern_span C m c a b with
      | Ok (m', id) => play C m' ((id, (c, a, b)) :: log) r
      | _ => play C m log r
      end
  end.

Lemma intern_span_in_range C m c a b m' id :
  intern_span C m c a b = Ok (m', id) -> in_range m (c, a, b).
Proof.
  unfold intern_span, in_range.
  destruct (get_context_offsets m c) as [[lo hi]| | |]; cbn [obind]; try discriminate.
  destruct (N.leb_spec a b); cbn [negb]; [|discriminate].
  destruct ((u64_max <? lo + a) || (u64_max <? lo + b)); [discriminate|].
  destruct (N.ltb_spec (lo + a) hi); cbn [negb]; [|discriminate].
  destruct (N.ltb_spec (lo + b) hi); cbn [negb]; [|discriminate].
  intros _. exists lo, hi. auto.
Qed.

Definition small_le (m m' : mgr) : Prop :=
  (length (idx_to_span m) <= length (idx_to_span m'))%nat.

Lemma small_mono m m' : small_le m m' -> small m' -> small m.
Proof. unfold small, small_le. lia. Qed.

Lemma play_invariant C : consts_ok C -> forall rs m log,
  wf m ->
  let '(mf, logf) := play C m log rs in
  wf mf /\ small_le m mf /\
  (small mf ->
   Forall (fun p => decodes C m (fst p) (snd p)) log ->
   Forall (fun p => decodes C mf (fst p) (snd p)) logf).
Proof.
  intros HC. induction rs as [|r rs IH]; intros m log Hwf.
  - cbn [play]. split; [exact Hwf|]. split; [unfold small_le; lia|auto].
  - destruct r as [len|c a b]; cbn [play].
    + destruct (insert_context m len) as [[m' id]| | |] eqn:Hi; try (apply IH; exact Hwf).
      destruct (insert_context_wf _ _ _ _ Hwf Hi) as (Hwf' & _ & Hc & Hx).
      specialize (IH m' log Hwf'). destruct (play C m' log rs) as [mf logf].
      destruct IH as (H1 & H2 & H3). split; [exact H1|].
      split; [unfold small_le in *; rewrite <- Hx; exact H2|].
      intros Hsm Hlog. apply H3; [exact Hsm|].
      eapply Forall_impl; [|exact Hlog]. intros [i t] Hd. cbn [fst snd] in *.
      destruct m' as [c' x']. cbn [contexts idx_to_span] in Hc, Hx. subst c' x'.
      apply decode_stable_context; [exact Hwf|lia|exact Hd].
    + destruct (intern_span C m c a b) as [[m' id]| | |] eqn:Hi; try (apply IH; exact Hwf).
      pose proof (intern_span_in_range _ _ _ _ _ _ _ Hi) as Hr.
      destruct (intern_span_roundtrip C m c a b HC Hwf Hr) as (m'' & id' & Hi' & Hc & [ext Hx] & Hrt).
      rewrite Hi in Hi'. injection Hi' as <- <-.
      assert (Hwf' : wf m') by (unfold wf; rewrite Hc; exact Hwf).
      specialize (IH m' ((id, (c, a, b)) :: log) Hwf').
      destruct (play C m' ((id, (c, a, b)) :: log) rs) as [mf logf].
      destruct IH as (H1 & H2 & H3). split; [exact H1|].
      assert (Hle : small_le m m') by (unfold small_le; rewrite Hx, app_length; lia).
      split; [unfold small_le in *; lia|].
      intros Hsm Hlog. apply H3; [exact Hsm|]. constructor.
      * cbn [fst snd]. apply Hrt. eapply small_mono; eassumption.
      * eapply Forall_impl; [|exact Hlog]. intros [i t] Hd. cbn [fst snd] in *.
        destruct m' as [c' x']. cbn [contexts idx_to_span] in Hc, Hx. subst c' x'.
        apply decode_stable_interner. exact Hd.
Qed.

Theorem span_history_roundtrip C rs :
  consts_ok C ->
  let '(mf, logf) := play C empty_mgr [] rs in
  small mf ->
  Forall (fun p => get_span C mf (fst p) = Ok (snd p)) logf.
Proof.
  intros HC. pose proof (play_invariant C HC rs empty_mgr [] wf_empty) as H.
  destruct (play C empty_mgr [] rs) as [mf logf]. destruct H as (_ & _ & H).
  intros Hsm. apply H; [exact Hsm|constructor].
Qed.

(* reachable managers are well-formed, so a valid request never panics *)
Lemma play_wf C rs : consts_ok C -> wf (fst (play C empty_mgr [] rs)).
Proof.
  intros HC. pose proof (play_invariant C HC rs empty_mgr [] wf_empty) as H.
  destruct (play C empty_mgr [] rs) as [mf logf]. destruct H as (H & _). exact H.
Qed.

Theorem span_valid_request_accepted C rs ctx a b :
  consts_ok C ->
  let m := fst (play C empty_mgr [] rs) in
  in_range m (ctx, a, b) ->
  exists m' id, intern_span C m ctx a b = Ok (m', id) /\
                (small m' -> get_span C m' id = Ok (ctx, a, b)).
Proof.
  intros HC m Hr.
  destruct (intern_span_roundtrip C m ctx a b HC (play_wf C rs HC) Hr) as (m' & id & H1 & _ & _ & H2).
  exists m', id. auto.
Qed.

(* ------------------------------------------------------------------ *)
(* make_surrounding_span (used by the parser to span a node from its first
   to its last token): if both ids decode to in-range spans of one file and
   the first starts no later than the second ends, no assert fires and the
   result decodes to (file, first start, last end)                         *)

Theorem surrounding_span_valid C m ia ib c sa ea sb eb :
  consts_ok C -> wf m ->
  get_span C m ia = Ok (c, sa, ea) -> get_span C m ib = Ok (c, sb, eb) ->
  in_range m (c, sb, eb) -> sa <= eb ->
  exists m' id, make_surrounding_span C m ia ib = Ok (m', id) /\
                (small m' -> get_span C m' id = Ok (c, sa, eb)).
Proof.
  intros HC Hwf Ha Hb (lo & hi & Hg & Hsb & Hhi) Hse.
  unfold make_surrounding_span. rewrite Ha. cbn [obind]. rewrite Hb. cbn [obind].
  rewrite N.eqb_refl. cbn [negb].
  destruct (N.leb_spec sa eb) as [_|]; [|lia]. cbn [negb].
  assert (Hr : in_range m (c, sa, eb)) by (exists lo, hi; auto).
  destruct (intern_span_roundtrip C m c sa eb HC Hwf Hr) as (m' & id & H1 & _ & _ & H2).
  exists m', id. auto.
Qed.

(* ------------------------------------------------------------------ *)
(* stack-trace cropping                                                *)

Theorem crop_slices_in_range stack_len max_trace f h s :
  crop stack_len max_trace = Some (f, h, s) ->
  f <= stack_len /\ s <= stack_len /\       (* both slice bounds are inside the stack *)
  f + s = max_trace /\                      (* exactly max_trace items are shown      *)
  h = stack_len - max_trace /\ f + h + s = stack_len /\ 0 < h /\
  s <= f /\ f <= s + 1.                     (* the innermost half gets the odd item   *)
Proof.
  unfold crop. destruct (N.leb_spec stack_len max_trace); [discriminate|].
  intros Hc. injection Hc as <- <- <-.
  assert (H2 : 2 <> 0) by discriminate.
  pose proof (N.div_mod max_trace 2 H2) as E.
  pose proof (N.mod_lt max_trace 2 H2) as Hr.
  set (q := max_trace / 2) in *. set (r := max_trace mod 2) in *. clearbody q r. lia.
Qed.

Theorem crop_none_iff stack_len max_trace :
  crop stack_len max_trace = None <-> stack_len <= max_trace.
Proof.
  unfold crop. destruct (N.leb_spec stack_len max_trace); split; intros; try lia; try discriminate; auto.
Qed.
