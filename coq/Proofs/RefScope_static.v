(* Proofs/RefScope_static.v — C02/C09: the specification's static rules (StaticOK, Model/Analyze.v)
   imply closedness of the desugared core program. *)
From RJ Require Import Base.Outcome Base.F64 Model.Token Model.Ast Model.RefCore Model.RefValue Model.RefEval.
From RJ Require Import Model.Analyze.
From RJ Require Import Proofs.RefScope_defs Proofs.RefScope_main.
From Coq Require Import Lia.
Local Open Scope N_scope.

(* core scope cvs represents source scope vs: it contains vs, and `$` wherever an object is in scope *)
Definition scope_rel (vs cvs : list str) (io : bool) : Prop := incl vs cvs /\ (io = true -> In dollar cvs).

Lemma scope_rel_app names vs cvs cvs' io :
  scope_rel vs cvs io -> incl cvs cvs' -> incl names cvs' -> scope_rel (names ++ vs) cvs' io.
Proof.
  intros [Hi Hd] Hc Hn. split.
  - intros x Hx. apply in_app_or in Hx. destruct Hx; [auto | apply Hc, Hi; assumption].
  - intros E. apply Hc, Hd, E.
Qed.

Lemma scope_rel_cons x vs cvs io : scope_rel vs cvs io -> scope_rel (x :: vs) (x :: cvs) io.
Proof.
  intros [Hi Hd]. split.
  - intros y [-> | Hy]; [left; reflexivity | right; auto].
  - intros E. right. auto.
Qed.

Lemma locals_names ms : map fst (flat_map ds_local_of ms) = map bind_name (member_locals ms).
Proof.
  induction ms as [|m r IH]; simpl; [reflexivity|]. destruct m as [b | a | f]; simpl; try exact IH.
  rewrite IH. destruct b as [n [[ps psp]|] v]; reflexivity.
Qed.

Lemma binds_names io bs : map fst (map (ds_bind io) bs) = map bind_name bs.
Proof. induction bs as [|b r IH]; simpl; [reflexivity|]. rewrite IH. destruct b as [n [[ps psp]|] v]; reflexivity. Qed.

Lemma params_names io ps : map fst (map (ds_param io) ps) = map param_name ps.
Proof. induction ps as [|p r IH]; simpl; [reflexivity|]. rewrite IH. destruct p; reflexivity. Qed.

Definition assert_closed (cvs : list str) (io : bool) (a : cexpr * option cexpr) : Prop :=
  closed cvs io (fst a) /\ closed_opt cvs io (snd a).

Fixpoint so_expr vs io e (H : StaticOK vs io e) {struct H} :
  forall tl cvs, scope_rel vs cvs io -> closed cvs io (ds_expr io tl e)
with so_param vs io p (H : ParamOK vs io p) {struct H} :
  forall cvs, scope_rel vs cvs io -> closed_opt cvs io (snd (ds_param io p))
with so_function vs io ps body (H : FunctionOK vs io ps body) {struct H} :
  forall cvs, scope_rel vs cvs io -> closed cvs io (CFunc (map (ds_param io) ps) (ds_expr io true body))
with so_bind vs io b (H : BindOK vs io b) {struct H} :
  forall cvs, scope_rel vs cvs io -> closed cvs io (snd (ds_bind io b))
with so_assert vs io a (H : AssertOK vs io a) {struct H} :
  forall cvs, scope_rel vs cvs io ->
  match a with MkAssert _ c m => assert_closed cvs io (ds_expr io false c, option_map (ds_expr io false) m) end
with so_specs vs io cs out (H : SpecsOK vs io cs out) {struct H} :
  forall cvs, scope_rel vs cvs io -> exists cout, closed_specs cvs io (map (ds_spec io) cs) cout /\ scope_rel out cout io
with so_arg vs io a (H : ArgOK vs io a) {struct H} :
  forall cvs, scope_rel vs cvs io ->
  Forall (closed cvs io) (ds_pos_of io a) /\ Forall (fun p => closed cvs io (snd p)) (ds_named_of io a)
with so_obj vs io o (H : ObjOK vs io o) {struct H} :
  forall cvs, scope_rel vs cvs io -> closed cvs io (ds_obj io o)
with so_member vs io inner m (H : MemberOK vs io inner m) {struct H} :
  forall cvs cinner, scope_rel vs cvs io -> scope_rel inner cinner true ->
  Forall (fun p => closed cinner true (snd p)) (ds_local_of m) /\
  Forall (assert_closed cinner true) (ds_assert_of m) /\
  Forall (closed_field cvs io cinner) (ds_field_of io m)
with so_fname vs io n (H : FieldNameOK vs io n) {struct H} :
  forall cvs cinner plus vis body, scope_rel vs cvs io -> closed cinner true body ->
  closed_field cvs io cinner (CFld (ds_fname io n) plus vis body).
Proof.
  - (* so_expr *)
    destruct H; intros tl cvs Hs; cbn [ds_expr]; try solve [constructor].
    + (* Dollar *) constructor. apply Hs. reflexivity.
    + (* Paren *) exact (so_expr _ _ _ H false cvs Hs).
    + (* Object *) exact (so_obj _ _ _ H cvs Hs).
    + (* Array *) constructor. induction H; simpl; constructor; [exact (so_expr _ _ _ H false cvs Hs) | assumption].
    + (* ArrayComp *)
      destruct (so_specs _ _ _ _ H cvs Hs) as (cout & Hcs & Hout). econstructor; [exact Hcs | exact (so_expr _ _ _ H0 false cout Hout)].
    + (* Field *) constructor. exact (so_expr _ _ _ H false cvs Hs).
    + (* Index *) constructor; [exact (so_expr _ _ _ H false cvs Hs) | exact (so_expr _ _ _ H0 false cvs Hs)].
    + (* Slice *)
      constructor; [exact (so_expr _ _ _ H false cvs Hs) | | |].
      * destruct a; simpl; constructor. exact (so_expr _ _ _ (H0 _ eq_refl) false cvs Hs).
      * destruct b; simpl; constructor. exact (so_expr _ _ _ (H1 _ eq_refl) false cvs Hs).
      * destruct c; simpl; constructor. exact (so_expr _ _ _ (H2 _ eq_refl) false cvs Hs).
    + (* SuperIndex *) constructor. exact (so_expr _ _ _ H false cvs Hs).
    + (* Call *)
      constructor; [exact (so_expr _ _ _ H false cvs Hs) | |].
      * clear H0. induction H1; simpl; [constructor|]. apply Forall_app. split; [exact (proj1 (so_arg _ _ _ H0 cvs Hs)) | assumption].
      * clear H0. induction H1; simpl; [constructor|]. apply Forall_app. split; [exact (proj2 (so_arg _ _ _ H0 cvs Hs)) | assumption].
    + (* Ident *) constructor. apply Hs. assumption.
    + (* Local *)
      assert (Hs' : scope_rel (map bind_name binds ++ vs) (map fst (map (ds_bind io) binds) ++ cvs) io).
      { rewrite binds_names. eapply scope_rel_app; [exact Hs | apply incl_appr, incl_refl | apply incl_appl, incl_refl]. }
      constructor; [|exact (so_expr _ _ _ H1 tl _ Hs')].
      clear H H1. revert H0 Hs'. generalize (map bind_name binds ++ vs) (map fst (map (ds_bind io) binds) ++ cvs).
      intros sc csc H0 Hs'. induction H0; simpl; constructor; [exact (so_bind _ _ _ H _ Hs') | assumption].
    + (* If *)
      destruct f as [f|]; cbn [ds_expr].
      * constructor; [exact (so_expr _ _ _ H false cvs Hs) | exact (so_expr _ _ _ H0 tl cvs Hs) | exact (so_expr _ _ _ (H1 _ eq_refl) tl cvs Hs)].
      * constructor; [exact (so_expr _ _ _ H false cvs Hs) | exact (so_expr _ _ _ H0 tl cvs Hs) | constructor].
    + (* Binary *)
      destruct op; cbn [ds_expr]; repeat constructor; try exact (so_expr _ _ _ H false cvs Hs); try exact (so_expr _ _ _ H0 false cvs Hs).
    + (* Unary *) constructor. exact (so_expr _ _ _ H false cvs Hs).
    + (* ObjExt *) constructor; [exact (so_expr _ _ _ H false cvs Hs) | exact (so_obj _ _ _ H0 cvs Hs)].
    + (* Func *) exact (so_function _ _ _ _ H cvs Hs).
    + (* Assert *)
      destruct a as [asp c m]. destruct (so_assert _ _ _ H cvs Hs) as [Hc Hm]. simpl in Hc, Hm.
      constructor; [exact Hc | exact Hm | exact (so_expr _ _ _ H0 tl cvs Hs)].
    + (* Error *) constructor. exact (so_expr _ _ _ H false cvs Hs).
    + (* InSuper *) constructor. exact (so_expr _ _ _ H false cvs Hs).
  - (* so_param *)
    destruct H; intros cvs Hs; simpl; constructor. exact (so_expr _ _ _ H false cvs Hs).
  - (* so_function *)
    destruct H; intros cvs Hs. constructor. intros vs' Hi Hp.
    assert (Hs' : scope_rel (map param_name ps ++ vs) vs' io).
    { eapply scope_rel_app; [exact Hs | exact Hi | rewrite <- (params_names io); exact Hp]. }
    split; [|exact (so_expr _ _ _ H1 true vs' Hs')].
    clear H H1 Hp. revert H0 Hs'. generalize (map param_name ps ++ vs). intros sc H0 Hs'.
    induction H0; simpl; constructor; [exact (so_param _ _ _ H vs' Hs') | assumption].
  - (* so_bind *)
    destruct H; intros cvs Hs; simpl; [exact (so_expr _ _ _ H false cvs Hs) | exact (so_function _ _ _ _ H cvs Hs)].
  - (* so_assert *)
    destruct H; intros cvs Hs. split; simpl; [exact (so_expr _ _ _ H false cvs Hs)|].
    destruct m; simpl; constructor. exact (so_expr _ _ _ (H0 _ eq_refl) false cvs Hs).
  - (* so_specs *)
    destruct H; intros cvs Hs; simpl.
    + exists cvs. split; [constructor | exact Hs].
    + destruct (so_specs _ _ _ _ H0 (id_value v :: cvs) (scope_rel_cons _ _ _ _ Hs)) as (cout & Hc & Ho).
      exists cout. split; [constructor; [exact (so_expr _ _ _ H false cvs Hs) | exact Hc] | exact Ho].
    + destruct (so_specs _ _ _ _ H0 cvs Hs) as (cout & Hc & Ho).
      exists cout. split; [constructor; [exact (so_expr _ _ _ H false cvs Hs) | exact Hc] | exact Ho].
  - (* so_arg *)
    destruct H; intros cvs Hs; simpl; split; repeat constructor; exact (so_expr _ _ _ H false cvs Hs).
  - (* so_obj *)
    destruct H; intros cvs Hs; cbn [ds_obj].
    + (* members *)
      set (locals := add_dollar io (flat_map ds_local_of ms)).
      assert (Hs' : scope_rel (map bind_name (member_locals ms) ++ vs) (map fst locals ++ cvs) true).
      { unfold locals, add_dollar. destruct io; simpl.
        - rewrite locals_names. split.
          + intros x Hx. apply in_app_or in Hx. apply in_or_app. destruct Hx; [left; assumption | right; apply Hs; assumption].
          + intros _. apply in_or_app. right. apply Hs. reflexivity.
        - rewrite locals_names. split.
          + intros x Hx. right. apply in_app_or in Hx. apply in_or_app. destruct Hx; [left; assumption | right; apply Hs; assumption].
          + intros _. left. reflexivity. }
      assert (Hall : Forall (fun p => closed (map fst locals ++ cvs) true (snd p)) (flat_map ds_local_of ms) /\
                     Forall (assert_closed (map fst locals ++ cvs) true) (flat_map ds_assert_of ms) /\
                     Forall (closed_field cvs io (map fst locals ++ cvs)) (flat_map (ds_field_of io) ms)).
      { clear H H0. revert H1 Hs'. generalize (map bind_name (member_locals ms) ++ vs) (map fst locals ++ cvs). clear locals.
        intros sc csc H1 Hs'. induction H1; simpl; [repeat split; constructor|].
        destruct (so_member _ _ _ _ H _ _ Hs Hs') as (A1 & A2 & A3). destruct IHForall as (B1 & B2 & B3).
        repeat split; apply Forall_app; split; assumption. }
      destruct Hall as (A1 & A2 & A3). constructor; [| exact A2 | exact A3].
      unfold locals at 2, add_dollar. destruct io; [exact A1|]. constructor; [|exact A1]. simpl. constructor.
    + (* comprehension *)
      destruct (so_specs _ _ _ _ H cvs Hs) as (cout & Hc & Ho).
      set (locals := add_dollar io (map (ds_bind true) l1 ++ map (ds_bind true) l2)).
      assert (Hs' : scope_rel (map bind_name (l1 ++ l2) ++ vs') (map fst locals ++ cout) true).
      { unfold locals, add_dollar. rewrite <- map_app. destruct io; simpl; rewrite binds_names.
        - split.
          + intros x Hx. apply in_app_or in Hx. apply in_or_app. destruct Hx; [left; assumption | right; apply Ho; assumption].
          + intros _. apply in_or_app. right. apply Ho. reflexivity.
        - split.
          + intros x Hx. right. apply in_app_or in Hx. apply in_or_app. destruct Hx; [left; assumption | right; apply Ho; assumption].
          + intros _. left. reflexivity. }
      econstructor; [exact Hc | exact (so_expr _ _ _ H2 false cout Ho) | | exact (so_expr _ _ _ H3 false _ Hs')].
      assert (A1 : Forall (fun p => closed (map fst locals ++ cout) true (snd p)) (map (ds_bind true) (l1 ++ l2))).
      { clear H0 H3. revert H1 Hs'. generalize (map bind_name (l1 ++ l2) ++ vs') (map fst locals ++ cout).
        intros sc csc H1 Hs'. induction H1; simpl; constructor; [exact (so_bind _ _ _ H0 _ Hs') | assumption]. }
      rewrite map_app in A1. unfold locals at 2, add_dollar. destruct io; [exact A1|]. constructor; [|exact A1]. simpl. constructor.
  - (* so_member *)
    destruct H; intros cvs cinner Hs Hi; simpl.
    + repeat split; repeat constructor. exact (so_bind _ _ _ H cinner Hi).
    + destruct a as [asp c m]. split; [constructor | split; [constructor; [exact (so_assert _ _ _ H cinner Hi) | constructor] | constructor]].
    + repeat split; repeat constructor. exact (so_fname _ _ _ H cvs cinner plus vis _ Hs (so_expr _ _ _ H0 false cinner Hi)).
    + repeat split; repeat constructor. exact (so_fname _ _ _ H cvs cinner false vis _ Hs (so_function _ _ _ _ H0 cinner Hi)).
  - (* so_fname *)
    destruct H; intros cvs cinner plus vis body Hs Hb; simpl; constructor; try assumption.
    exact (so_expr _ _ _ H false cvs Hs).
Qed.

Theorem static_ok_closed : forall e, StaticOK [s_std] false e -> closed [s_std] false (desugar e).
Proof.
  intros e H. unfold desugar. apply (so_expr _ _ _ H false [s_std]). split; [apply incl_refl | discriminate].
Qed.

(* C09, second sentence, over the reference interpreter itself: a program that passes the static
   check never fails at run time because a variable, self, super or $ turns out to be unbound *)
Theorem refeval_no_static_error : forall e, StaticOK [s_std] false e ->
  forall fuel c, ~ RefScope_main.static_error (run fuel c e).
Proof.
  intros e H fuel c. unfold run. apply RefScope_main.core_no_static_error. apply static_ok_closed. exact H.
Qed.
