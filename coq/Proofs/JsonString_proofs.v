(* Proofs/JsonString_proofs.v — the JSON string lexer of Model/JsonParse.v inverts the
   two string printers: the minimal [print_string] of the model and std.escapeStringJson
   (Model/Esc.v [escape_json], with the C0 range of the current source). *)
From RJ Require Import Base.Outcome Base.F64 Model.JsonParse Model.Esc Proofs.Base64_arith_proofs.
From Coq Require Import Lia.
Local Open Scope N_scope.

Arguments N.add : simpl never.
Arguments N.mul : simpl never.
Arguments N.sub : simpl never.
Arguments N.div : simpl never.
Arguments N.modulo : simpl never.

(* one encoded character is read back as that character *)
Definition char_ok (enc : N -> str) (c : N) : Prop :=
  forall fuel line col start acc rest,
  exists col',
    lex_string_body (S fuel) {| lx_line := line; lx_col := col; lx_rem := enc c ++ rest |} start acc =
    lex_string_body fuel {| lx_line := line; lx_col := col'; lx_rem := rest |} start (c :: acc).

Lemma body_generic (enc : N -> str) : forall s fuel line col start acc rest,
  Forall (char_ok enc) s -> (length s < fuel)%nat ->
  exists col',
    lex_string_body fuel {| lx_line := line; lx_col := col; lx_rem := flat_map enc s ++ 34 :: rest |} start acc =
    Ok (rev acc ++ s, {| lx_line := line; lx_col := col'; lx_rem := rest |}).
Proof.
  induction s as [|c r IH]; intros fuel line col start acc rest Hs Hf.
  - destruct fuel as [|f]; [cbn in Hf; lia|]. cbn [flat_map app lex_string_body lx_rem N.eqb Pos.eqb].
    exists (col + 1). unfold advance. cbn [lx_line lx_col]. now rewrite app_nil_r.
  - inversion Hs as [|? ? Hc Hr]; subst. destruct fuel as [|f]; [cbn in Hf; lia|].
    cbn [flat_map]. rewrite <- app_assoc.
    destruct (Hc f line col start acc (flat_map enc r ++ 34 :: rest)) as [col1 E1]. rewrite E1.
    destruct (IH f line col1 start (c :: acc) rest Hr ltac:(cbn [length] in Hf; lia)) as [col2 E2].
    exists col2. rewrite E2. cbn [rev]. now rewrite <- app_assoc.
Qed.

(* ---- \u00XX escapes ------------------------------------------------------------------ *)

Definition uesc_ok (c : N) : bool :=
  match lex_u_escape [jhex_digit (c / 4096); jhex_digit ((c / 256) mod 16); jhex_digit ((c / 16) mod 16); jhex_digit (c mod 16)] with
  | Some (ch, n, r) => (ch =? c) && (n =? 4) && match r with [] => true | _ => false end
  | None => false
  end.

Lemma uesc_all : forall c, c < 160 -> uesc_ok c = true.
Proof. apply (forallb_nrange uesc_ok 160). vm_compute. reflexivity. Qed.

Lemma eat_codeunit_rest a b c d rest :
  eat_codeunit (a :: b :: c :: d :: rest) =
  match eat_codeunit [a; b; c; d] with Some (v, _) => Some (v, rest) | None => None end.
Proof.
  cbn [eat_codeunit]. destruct (hex_from_digit a), (hex_from_digit b), (hex_from_digit c), (hex_from_digit d); reflexivity.
Qed.

Lemma lex_u_escape_small c rest : c < 160 ->
  lex_u_escape (jhex_digit (c / 4096) :: jhex_digit ((c / 256) mod 16) :: jhex_digit ((c / 16) mod 16) :: jhex_digit (c mod 16) :: rest)
  = Some (c, 4, rest).
Proof.
  intros Hc. pose proof (uesc_all c Hc) as H. unfold uesc_ok in H.
  unfold lex_u_escape in *. rewrite eat_codeunit_rest.
  destruct (eat_codeunit [jhex_digit (c / 4096); jhex_digit ((c / 256) mod 16); jhex_digit ((c / 16) mod 16); jhex_digit (c mod 16)])
    as [[cu1 r1]|]; [|discriminate].
  destruct (is_surrogate cu1) eqn:Es.
  - (* a surrogate code unit would have needed a continuation: impossible below 160 *)
    destruct (strip_prefix [92; 117] r1) as [r2|] eqn:E2.
    + destruct (eat_codeunit r2) as [[cu2 r3]|]; [|discriminate].
      destruct ((cu1 <=? 56319) && (56320 <=? cu2) && (cu2 <=? 57343)); [|discriminate].
      apply andb_prop in H. destruct H as [H _]. apply andb_prop in H. destruct H as [_ H]. discriminate.
    + discriminate.
  - apply andb_prop in H. destruct H as [H _]. apply andb_prop in H. destruct H as [H _].
    apply N.eqb_eq in H. subst cu1. reflexivity.
Qed.

(* the hex digits of the two printers coincide (lower case) *)
Lemma hex_digit_same d : Esc.hex_digit d = jhex_digit d.
Proof. reflexivity. Qed.

Lemma div_small c k : c < 160 -> 160 <= k -> c / k = 0.
Proof. intros. apply N.div_small. lia. Qed.

(* ---- the minimal printer of the model -------------------------------------------------- *)

Lemma print_char_ok c : char_ok print_char c.
Proof.
  intros fuel line col start acc rest. unfold print_char.
  destruct (c =? 34) eqn:E34.
  { apply N.eqb_eq in E34. subst c. exists (col + 2).
    cbn [app lex_string_body lx_rem N.eqb Pos.eqb simple_escape]. reflexivity. }
  destruct (c =? 92) eqn:E92.
  { apply N.eqb_eq in E92. subst c. exists (col + 2).
    cbn [app lex_string_body lx_rem N.eqb Pos.eqb simple_escape]. reflexivity. }
  destruct (c <? 32) eqn:E32.
  { apply N.ltb_lt in E32. exists (col + (2 + 4)).
    cbn [app lex_string_body lx_rem N.eqb Pos.eqb].
    pose proof (lex_u_escape_small c rest ltac:(lia)) as L.
    rewrite (div_small c 4096), (div_small c 256) in L by lia.
    change (0 mod 16) with 0 in L. change (jhex_digit 0) with 48 in L.
    replace ((c / 16) mod 16) with (c / 16) in L
      by (symmetry; apply N.mod_small; apply N.div_lt_upper_bound; lia).
    rewrite L. reflexivity. }
  apply N.ltb_ge in E32. exists (col + 1).
  cbn [app lex_string_body lx_rem]. rewrite E34, E92.
  replace (c <=? 31) with false by (symmetry; apply N.leb_gt; lia). reflexivity.
Qed.

Theorem lex_string_print_string : forall s rest line col,
  exists col',
    lex_string {| lx_line := line; lx_col := col; lx_rem := print_string s ++ rest |} =
    Ok (Some (s, {| lx_line := line; lx_col := col'; lx_rem := rest |})).
Proof.
  intros s rest line col. unfold lex_string, print_string, eat_char.
  cbn [app lx_rem N.eqb Pos.eqb]. unfold advance. cbn [lx_line lx_col lx_rem].
  rewrite <- app_assoc. cbn [app].
  destruct (body_generic print_char s (S (length (flat_map print_char s ++ 34 :: rest))) line (col + 1) (col + 1) [] rest) as [col' E].
  - apply Forall_forall. intros c _. apply print_char_ok.
  - rewrite app_length. assert (length s <= length (flat_map print_char s))%nat.
    { clear. induction s as [|c r IH]; [cbn; lia|]. cbn [flat_map]. rewrite app_length. cbn [length].
      assert (1 <= length (print_char c))%nat; [|lia]. unfold print_char.
      destruct (c =? 34); [cbn; lia|]. destruct (c =? 92); [cbn; lia|]. destruct (c <? 32); cbn; lia. }
    lia.
  - exists col'. rewrite E. reflexivity.
Qed.

(* ---- std.escapeStringJson, with the C0 range of the repaired source (0x1F) --------------- *)

Lemma json_char_ok c : char_ok (json_char 31) c.
Proof.
  intros fuel line col start acc rest. unfold json_char.
  destruct (c =? 8) eqn:E8.
  { apply N.eqb_eq in E8. subst c. exists (col + 2). cbn [app lex_string_body lx_rem N.eqb Pos.eqb simple_escape]. reflexivity. }
  destruct (c =? 9) eqn:E9.
  { apply N.eqb_eq in E9. subst c. exists (col + 2). cbn [app lex_string_body lx_rem N.eqb Pos.eqb simple_escape]. reflexivity. }
  destruct (c =? 10) eqn:E10.
  { apply N.eqb_eq in E10. subst c. exists (col + 2). cbn [app lex_string_body lx_rem N.eqb Pos.eqb simple_escape]. reflexivity. }
  destruct (c =? 12) eqn:E12.
  { apply N.eqb_eq in E12. subst c. exists (col + 2). cbn [app lex_string_body lx_rem N.eqb Pos.eqb simple_escape]. reflexivity. }
  destruct (c =? 13) eqn:E13.
  { apply N.eqb_eq in E13. subst c. exists (col + 2). cbn [app lex_string_body lx_rem N.eqb Pos.eqb simple_escape]. reflexivity. }
  destruct (c =? 34) eqn:E34.
  { apply N.eqb_eq in E34. subst c. exists (col + 2). cbn [app lex_string_body lx_rem N.eqb Pos.eqb simple_escape]. reflexivity. }
  destruct (c =? 92) eqn:E92.
  { apply N.eqb_eq in E92. subst c. exists (col + 2). cbn [app lex_string_body lx_rem N.eqb Pos.eqb simple_escape]. reflexivity. }
  destruct ((c <=? 31) || ((127 <=? c) && (c <=? 159))) eqn:Eu.
  { assert (Hc : c < 160).
    { apply orb_prop in Eu. destruct Eu as [Eu|Eu]; [apply N.leb_le in Eu; lia|].
      apply andb_prop in Eu. destruct Eu as [_ Eu]. apply N.leb_le in Eu. lia. }
    exists (col + (2 + 4)). unfold u_escape. change Esc.hex_digit with jhex_digit.
    cbn [app lex_string_body lx_rem N.eqb Pos.eqb].
    rewrite (lex_u_escape_small c rest Hc). reflexivity. }
  apply orb_false_elim in Eu. destruct Eu as [Eu _]. apply N.leb_gt in Eu. exists (col + 1).
  cbn [app lex_string_body lx_rem]. rewrite E34, E92.
  replace (c <=? 31) with false by (symmetry; apply N.leb_gt; lia). reflexivity.
Qed.

Lemma json_body_flat_map hi s : json_body hi s = flat_map (json_char hi) s.
Proof. induction s as [|c r IH]; [reflexivity|]. cbn [json_body flat_map]. now rewrite IH. Qed.

Lemma json_char_length c : (1 <= length (json_char 31 c))%nat.
Proof.
  unfold json_char, u_escape.
  repeat match goal with |- context [if ?b then _ else _] => destruct b end; cbn [length]; lia.
Qed.

(* the JSON lexer reads std.escapeStringJson(s) back as s *)
Theorem lex_string_escape_json : forall s rest line col,
  exists col',
    lex_string {| lx_line := line; lx_col := col; lx_rem := escape_json 31 s ++ rest |} =
    Ok (Some (s, {| lx_line := line; lx_col := col'; lx_rem := rest |})).
Proof.
  intros s rest line col. unfold lex_string, escape_json, eat_char.
  cbn [app lx_rem N.eqb Pos.eqb]. unfold advance. cbn [lx_line lx_col lx_rem].
  rewrite json_body_flat_map. rewrite <- app_assoc. cbn [app].
  destruct (body_generic (json_char 31) s (S (length (flat_map (json_char 31) s ++ 34 :: rest))) line (col + 1) (col + 1) [] rest) as [col' E].
  - apply Forall_forall. intros c _. apply json_char_ok.
  - rewrite app_length. assert (length s <= length (flat_map (json_char 31) s))%nat.
    { clear. induction s as [|c r IH]; [cbn; lia|]. cbn [flat_map]. rewrite app_length. cbn [length].
      pose proof (json_char_length c). lia. }
    lia.
  - exists col'. rewrite E. reflexivity.
Qed.

Lemma start_value_quote lx r s lx1 : lx_rem lx = 34 :: r -> lex_string lx = Ok (Some (s, lx1)) ->
  start_value lx = Ok (SVValue (JStr s) (skip_spaces lx1)).
Proof.
  intros Hr Hl. unfold start_value, eat_str, lex_number. rewrite Hr.
  cbn [strip_prefix N.eqb Pos.eqb].
  cbn [lex_num nstep N.eqb Pos.eqb is_digit19 N.leb N.compare Pos.compare Pos.compare_cont andb na_len nacc0 obind].
  rewrite Hl. reflexivity.
Qed.

Lemma parse_json_string doc r s col' : doc = 34 :: r ->
  lex_string {| lx_line := 0; lx_col := 0; lx_rem := doc |} = Ok (Some (s, {| lx_line := 0; lx_col := col'; lx_rem := [] |})) ->
  parse_json doc = Ok (JStr s).
Proof.
  intros Hd Hl. unfold parse_json, skip_spaces. cbn [lx_line lx_col lx_rem].
  assert (Esk : skip_ws 0 0 doc = {| lx_line := 0; lx_col := 0; lx_rem := doc |}) by (rewrite Hd; reflexivity).
  rewrite Esk. cbn [parse_loop].
  rewrite (start_value_quote {| lx_line := 0; lx_col := 0; lx_rem := doc |} r s _ Hd Hl). cbn [obind].
  unfold skip_spaces. cbn [lx_line lx_col lx_rem skip_ws unwind]. reflexivity.
Qed.

(* std.parseJson(std.escapeStringJson(s)) = s *)
Theorem parse_escape_json : forall s, parse_json (escape_json 31 s) = Ok (JStr s).
Proof.
  intros s. destruct (lex_string_escape_json s [] 0 0) as [col' E]. rewrite app_nil_r in E.
  eapply parse_json_string; [reflexivity|exact E].
Qed.

Theorem parse_print_string : forall s, parse_json (print_string s) = Ok (JStr s).
Proof.
  intros s. destruct (lex_string_print_string s [] 0 0) as [col' E]. rewrite app_nil_r in E.
  eapply parse_json_string; [reflexivity|exact E].
Qed.

(* the snapshot's range (0x19) left U+001A..U+001F raw, which the lexer rejects *)
Example escape_json_0x19_refuted :
  parse_json (escape_json 25 [26]) = Err {| je_line := 0; je_col := 1; je_kind := EInvalidChrInString |}.
Proof. vm_compute. reflexivity. Qed.
