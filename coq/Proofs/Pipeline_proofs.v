(* Proofs/Pipeline_proofs.v — the whole pipeline from source bytes (Model/Pipeline.v):
   its lex / parse / static verdict is Front.load_model's; it never panics. *)
From RJ Require Import Base.Outcome Base.F64 Model.Token Model.Ast Model.Ir Model.Utf8 Model.Lexer Model.Parser
  Model.Analyze Model.Front Model.RefCore Model.RefValue Model.RefEval Model.Pipeline.
From RJ Require Import Proofs.Utf8_proofs Proofs.Front_proofs Proofs.RefNoPanic_main.

(* eval_model reports a front-end error exactly when load_model does, and the same one; when
   load_model accepts, eval_model is the reference interpreter on the tree the model parser built *)
Theorem pipeline_front_verdict bytes c :
  (forall x, load_model bytes = Err x <-> snd (eval_model bytes c) = Err (PFront x)) /\
  (forall i, load_model bytes = Ok i ->
     exists toks e, front_parse bytes = Ok (toks, e) /\
       eval_model bytes c = (fst (RefEval.run (p_fuel c) (p_cfg c) e),
                             inj_err PEval (snd (RefEval.run (p_fuel c) (p_cfg c) e)))).
Proof.
  unfold load_model, eval_model.
  destruct (front_parse bytes) as [[toks e]|x0|site|]; cbn [obind snd].
  - destruct (front_analyze e) as [i0|x0|site|].
    + destruct (RefEval.run (p_fuel c) (p_cfg c) e) as [t r] eqn:Er. cbn [fst snd]. split.
      * intros x. split; [discriminate|]. destruct r; cbn [inj_err]; discriminate.
      * intros i _. exists toks, e. split; [reflexivity|]. rewrite Er. reflexivity.
    + cbn [snd]. split; [|discriminate]. intros x. split; intros H; injection H as <-; reflexivity.
    + cbn [snd]. split; [|discriminate]. intros x. split; discriminate.
    + cbn [snd]. split; [|discriminate]. intros x. split; discriminate.
  - split; [|discriminate]. intros x. split; intros H; injection H as <-; reflexivity.
  - split; [|discriminate]. intros x. split; discriminate.
  - split; [|discriminate]. intros x. split; discriminate.
Qed.

(* from source bytes to the manifested value: no panic site of the lexer, parser, analyzer or
   reference interpreter is reachable, whatever the fuel, the stack limit and the switches *)
Theorem pipeline_no_panic bytes c site : bytes_ok bytes -> snd (eval_model bytes c) <> Panic site.
Proof.
  intros B. unfold eval_model.
  destruct (front_parse_total bytes B) as [(toks & e & Hp & Hn & _)|(x & Hp & _)]; rewrite Hp; [|discriminate].
  pose proof (front_no_panic bytes B) as Hf. unfold load_model in Hf. rewrite Hp in Hf. cbn [obind snd] in Hf.
  destruct (front_analyze e) as [i|x|s|]; cbn [snd]; try discriminate.
  - pose proof (run_no_panic e (p_fuel c) (p_cfg c) site) as Hr.
    destruct (RefEval.run (p_fuel c) (p_cfg c) e) as [t r]. cbn [snd] in *. destruct r; cbn [inj_err]; congruence.
  - destruct Hf as [[r Hr]|[y Hy]]; discriminate.
Qed.

(* the front end never runs out of fuel; the interpreter's fuel is the caller's *)
Theorem pipeline_fuel bytes c : bytes_ok bytes -> snd (eval_model bytes c) = OutOfFuel ->
  exists toks e, front_parse bytes = Ok (toks, e) /\ snd (RefEval.run (p_fuel c) (p_cfg c) e) = OutOfFuel.
Proof.
  intros B. unfold eval_model.
  destruct (front_parse_total bytes B) as [(toks & e & Hp & Hn & _)|(x & Hp & _)]; rewrite Hp; [|discriminate].
  pose proof (front_no_panic bytes B) as Hf. unfold load_model in Hf. rewrite Hp in Hf. cbn [obind snd] in Hf.
  destruct (front_analyze e) as [i|x|s|]; cbn [snd]; try discriminate.
  - intros H. exists toks, e. split; [reflexivity|].
    destruct (RefEval.run (p_fuel c) (p_cfg c) e) as [t r]. cbn [snd] in *. destruct r; cbn [inj_err] in H; congruence.
  - destruct Hf as [[r Hr]|[y Hy]]; discriminate.
Qed.

Definition cfg0 : config := {| p_fuel := 200; p_cfg := {| c_limit := 200; c_bfs := false; c_ts_tail := false |} |}.

Example pipeline_examples :
  (exists j, snd (eval_model (bytes_of_string "local x = 2; [x + 1, std.length('ab'), x < 3]") cfg0) = Ok j /\
             match j with JArr [JNum _; JNum _; JBool true] => True | _ => False end) /\
  snd (eval_model (bytes_of_string "error 'boom'") cfg0) = Err (PEval (EExplicit [98; 111; 111; 109]%N)) /\
  (exists x, snd (eval_model (bytes_of_string "local x = 1; y") cfg0) = Err (PFront (FAnalyze x))) /\
  (exists x, snd (eval_model (bytes_of_string "1 +") cfg0) = Err (PFront (FParse x))) /\
  snd (eval_model (bytes_of_string "local f(x) = f(x); f(1)")
         {| p_fuel := 400; p_cfg := {| c_limit := 10; c_bfs := false; c_ts_tail := false |} |}) = Err (PEval EStackOverflow) /\
  snd (eval_model (bytes_of_string "local f(x) = f(x); f(1)") cfg0) = OutOfFuel.
Proof.
  split; [eexists; split; [vm_compute; reflexivity|exact I]|].
  split; [vm_compute; reflexivity|]. split; [eexists; vm_compute; reflexivity|].
  split; [eexists; vm_compute; reflexivity|]. split; vm_compute; reflexivity.
Qed.
