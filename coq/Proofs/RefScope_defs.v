(* Proofs/RefScope_defs.v — C02/C09: run-time scope soundness of the reference interpreter, part 1.

   [closed vs io x]: the core expression x mentions only variables of vs, and self / super occur
   only where an object is in scope (io) — the scoping discipline of the evaluator's frames.
   [wf_value / wf_thunk / wf_env / wf_layer]: every expression stored in a run-time structure is
   closed with respect to the environment stored next to it. *)
From RJ Require Import Base.Outcome Base.F64 Model.Token Model.Ast Model.RefCore Model.RefValue Model.RefEval.
From RJ Require Import Proofs.RefSem_params.
From Coq Require Import Lia.
Local Open Scope N_scope.

Fixpoint dom (en : env) : list str :=
  match en with
  | [] => []
  | FVars b r :: rest => map fst b ++ map fst r ++ dom rest
  | FObj _ _ _ :: rest => dom rest
  end.

Definition hasobj (en : env) : bool := match lookup_obj en with Some _ => true | None => false end.

Inductive closed : list str -> bool -> cexpr -> Prop :=
| CL_Null vs io : closed vs io CNull
| CL_Bool vs io b : closed vs io (CBool b)
| CL_Num vs io f : closed vs io (CNum f)
| CL_Str vs io s : closed vs io (CStr s)
| CL_Self vs : closed vs true CSelf
| CL_Var vs io x : In x vs -> closed vs io (CVar x)
| CL_Object vs io locals asserts fields :
    Forall (fun p => closed (map fst locals ++ vs) true (snd p)) locals ->
    Forall (fun a => closed (map fst locals ++ vs) true (fst a) /\ closed_opt (map fst locals ++ vs) true (snd a)) asserts ->
    Forall (closed_field vs io (map fst locals ++ vs)) fields ->
    closed vs io (CObject locals asserts fields)
| CL_ObjComp vs io locals name plus body specs vs' :
    closed_specs vs io specs vs' ->
    closed vs' io name ->
    Forall (fun p => closed (map fst locals ++ vs') true (snd p)) locals ->
    closed (map fst locals ++ vs') true body ->
    closed vs io (CObjComp locals name plus body specs)
| CL_Array vs io items : Forall (closed vs io) items -> closed vs io (CArray items)
| CL_ArrComp vs io body specs vs' :
    closed_specs vs io specs vs' -> closed vs' io body -> closed vs io (CArrComp body specs)
| CL_Field vs io e n : closed vs io e -> closed vs io (CField e n)
| CL_Index vs io e i : closed vs io e -> closed vs io i -> closed vs io (CIndex e i)
| CL_Slice vs io e a b c :
    closed vs io e -> closed_opt vs io a -> closed_opt vs io b -> closed_opt vs io c ->
    closed vs io (CSlice e a b c)
| CL_SuperField vs n : closed vs true (CSuperField n)
| CL_SuperIndex vs i : closed vs true i -> closed vs true (CSuperIndex i)
| CL_InSuper vs e : closed vs true e -> closed vs true (CInSuper e)
| CL_Call vs io f pos named ts tl :
    closed vs io f -> Forall (closed vs io) pos -> Forall (fun p => closed vs io (snd p)) named ->
    closed vs io (CCall f pos named ts tl)
| CL_Local vs io binds body :
    Forall (fun p => closed (map fst binds ++ vs) io (snd p)) binds ->
    closed (map fst binds ++ vs) io body ->
    closed vs io (CLocal binds body)
| CL_Ite vs io c t e : closed vs io c -> closed vs io t -> closed vs io e -> closed vs io (CIte c t e)
| CL_Bin vs io op l r : closed vs io l -> closed vs io r -> closed vs io (CBin op l r)
| CL_Un vs io op e : closed vs io e -> closed vs io (CUn op e)
(* a function body is closed in every scope that extends the definition scope and binds all the
   parameters (the argument frame holds them in binding order, not in declaration order) *)
| CL_Func vs io params body :
    (forall vs', incl vs vs' -> incl (map fst params) vs' ->
       Forall (fun p => closed_opt vs' io (snd p)) params /\ closed vs' io body) ->
    closed vs io (CFunc params body)
| CL_Error vs io e : closed vs io e -> closed vs io (CError e)
| CL_Assert vs io c m body : closed vs io c -> closed_opt vs io m -> closed vs io body -> closed vs io (CAssert c m body)
| CL_Builtin vs io b : closed vs io (CBuiltin b)
| CL_Unsupported vs io w : closed vs io (CUnsupported w)
with closed_opt : list str -> bool -> option cexpr -> Prop :=
| CO_None vs io : closed_opt vs io None
| CO_Some vs io e : closed vs io e -> closed_opt vs io (Some e)
with closed_field : list str -> bool -> list str -> cfield -> Prop :=
| CF_Fix vs io inner s plus vis body : closed inner true body -> closed_field vs io inner (CFld (CFix s) plus vis body)
| CF_Dyn vs io inner e plus vis body :
    closed vs io e -> closed inner true body -> closed_field vs io inner (CFld (CDyn e) plus vis body)
with closed_specs : list str -> bool -> list cspec -> list str -> Prop :=
| CS_Nil vs io : closed_specs vs io [] vs
| CS_For vs io x e rest out : closed vs io e -> closed_specs (x :: vs) io rest out -> closed_specs vs io (CSFor x e :: rest) out
| CS_If vs io e rest out : closed vs io e -> closed_specs vs io rest out -> closed_specs vs io (CSIf e :: rest) out.

Inductive wf_value : value -> Prop :=
| WV_null : wf_value VNull
| WV_bool b : wf_value (VBool b)
| WV_num f : wf_value (VNum f)
| WV_str s : wf_value (VStr s)
| WV_arr items : Forall wf_thunk items -> wf_value (VArr items)
| WV_obj ls c : Forall wf_layer ls -> wf_value (VObj ls c)
| WV_fun ps body fenv : wf_env fenv -> closed (dom fenv) (hasobj fenv) (CFunc ps body) -> wf_value (VFun ps body fenv)
| WV_builtin b : wf_value (VBuiltin b)
with wf_thunk : thunk -> Prop :=
| WT_th e en : wf_env en -> closed (dom en) (hasobj en) e -> wf_thunk (Th e en)
| WT_tv v : wf_value v -> wf_thunk (Tv v)
| WT_call f args : wf_value f -> Forall wf_thunk args -> wf_thunk (TCall f args)
with wf_env : list frame -> Prop :=
| WE_nil : wf_env []
| WE_vars b r rest :
    Forall (fun p => wf_thunk (snd p)) b ->
    Forall (fun p => closed (dom (FVars b r :: rest)) (hasobj rest) (snd p)) r ->
    wf_env rest -> wf_env (FVars b r :: rest)
| WE_obj ls i c rest : Forall wf_layer ls -> wf_env rest -> wf_env (FObj ls i c :: rest)
with wf_layer : layer -> Prop :=
| WL_intro locals asserts fields en std :
    Forall (fun a => wf_scope locals en (fst a) /\ (forall m, snd a = Some m -> wf_scope locals en m)) asserts ->
    Forall (fun nf => wf_scope locals (match f_fenv (snd nf) with Some fe => fe | None => en end) (f_body (snd nf))) fields ->
    wf_layer (MkLayer locals asserts fields en std)
(* [wf_scope locals base x]: x — an assert or a field body of a layer with these object locals —
   and the locals themselves are closed over  locals + base + self *)
with wf_scope : list (str * cexpr) -> list frame -> cexpr -> Prop :=
| WS_intro locals base x :
    wf_env base ->
    Forall (fun p => closed (map fst locals ++ dom base) true (snd p)) locals ->
    closed (map fst locals ++ dom base) true x ->
    wf_scope locals base x.

Definition wf_layers (ls : list layer) : Prop := Forall wf_layer ls.
Definition wf_vars (v : list (str * thunk)) : Prop := Forall (fun p => wf_thunk (snd p)) v.

(* ---- basic facts ---- *)
Lemma hasobj_vars b r rest : hasobj (FVars b r :: rest) = hasobj rest.
Proof. reflexivity. Qed.

Lemma hasobj_obj ls i c rest : hasobj (FObj ls i c :: rest) = true.
Proof. reflexivity. Qed.

Lemma in_assoc_in {A} x (l : list (str * A)) a : assoc x l = Some a -> In (x, a) l.
Proof.
  induction l as [|[y b] r IH]; simpl; [discriminate|].
  destruct (str_eqb x y) eqn:E; intros H.
  - apply str_eqb_eq in E. injection H as ->. subst. left. reflexivity.
  - right. auto.
Qed.

Lemma lookup_var_in : forall x en, In x (dom en) -> lookup_var x en <> None.
Proof.
  intros x en. induction en as [|fr rest IH]; simpl; [tauto|].
  destruct fr as [b r | ls i c]; [|exact IH].
  intros H. apply in_app_or in H. destruct H as [H | H].
  - pose proof (in_assoc_some x b H). destruct (assoc x b); [discriminate | congruence].
  - destruct (assoc x b); [discriminate|]. apply in_app_or in H. destruct H as [H | H].
    + pose proof (in_assoc_some x r H). destruct (assoc x r); [discriminate | congruence].
    + destruct (assoc x r); [discriminate | auto].
Qed.

Lemma lookup_var_wf : forall x en t, wf_env en -> lookup_var x en = Some t -> wf_thunk t.
Proof.
  intros x en. induction en as [|fr rest IH]; intros t Hwf H; simpl in H; [discriminate|].
  destruct fr as [b r | ls i c].
  - inversion Hwf as [| b' r' rest' Hb Hr Hrest |]; subst.
    destruct (assoc x b) as [t0|] eqn:Eb.
    + injection H as <-. apply in_assoc_in in Eb. rewrite Forall_forall in Hb. apply (Hb _ Eb).
    + destruct (assoc x r) as [ex|] eqn:Er.
      * injection H as <-. apply in_assoc_in in Er. rewrite Forall_forall in Hr.
        constructor; [exact Hwf | apply (Hr _ Er)].
      * apply IH; assumption.
  - inversion Hwf; subst. apply IH; assumption.
Qed.

Lemma lookup_obj_wf : forall en ls i c, wf_env en -> lookup_obj en = Some (ls, i, c) -> wf_layers ls.
Proof.
  induction en as [|fr rest IH]; intros ls i c Hwf H; simpl in H; [discriminate|].
  destruct fr as [b r | ls' i' c'].
  - inversion Hwf; subst. eapply IH; eassumption.
  - injection H as <- <- <-. inversion Hwf; subst. assumption.
Qed.

Lemma hasobj_lookup : forall en, hasobj en = true -> exists ls i c, lookup_obj en = Some (ls, i, c).
Proof.
  intros en H. unfold hasobj in H. destruct (lookup_obj en) as [[[ls i] c]|]; [eauto | discriminate].
Qed.

Lemma nthN_in {A} : forall (l : list A) i x, nthN l i = Some x -> In x l.
Proof.
  induction l as [|y r IH]; intros i x H; simpl in H; [discriminate|].
  destruct (i =? 0); [injection H as ->; left; reflexivity | right; eapply IH; eassumption].
Qed.

Lemma dropN_incl {A} : forall (l : list A) i x, In x (dropN l i) -> In x l.
Proof.
  induction l as [|y r IH]; intros i x H; simpl in H; [tauto|].
  destruct (i =? 0); [exact H | right; eapply IH; eassumption].
Qed.

Lemma find_field_in_sound : forall rest k name i f,
  find_field_in rest k name = Some (i, f) -> exists l, In l rest /\ assoc name (l_fields l) = Some f /\ nthN rest (i - k) = Some l /\ k <= i.
Proof.
  induction rest as [|l r IH]; intros k name i f H; simpl in H; [discriminate|].
  destruct (assoc name (l_fields l)) as [f0|] eqn:E.
  - injection H as <- <-. exists l. simpl. replace (k - k) with 0 by lia. simpl. repeat split; auto. lia.
  - destruct (IH _ _ _ _ H) as (l' & Hin & Ha & Hn & Hle). exists l'. simpl. repeat split; auto; try lia.
    destruct (i - k =? 0) eqn:E0; [apply N.eqb_eq in E0; lia|]. replace (i - k - 1) with (i - (k + 1)) by lia. exact Hn.
Qed.

Lemma nthN_dropN {A} : forall (l : list A) from j, nthN (dropN l from) j = nthN l (from + j).
Proof.
  induction l as [|y r IH]; intros from j; simpl; [reflexivity|].
  destruct (from =? 0) eqn:E.
  - apply N.eqb_eq in E. subst. reflexivity.
  - rewrite IH. apply N.eqb_neq in E. destruct (from + j =? 0) eqn:E2; [apply N.eqb_eq in E2; lia|].
    f_equal. lia.
Qed.

(* the field found by [find_field] is a field of the layer [nthN] returns for its index *)
Lemma find_field_sound : forall ls from name i f l,
  find_field ls from name = Some (i, f) -> nthN ls i = Some l ->
  In l ls /\ In (name, f) (l_fields l).
Proof.
  intros ls from name i f l H Hn. unfold find_field in H.
  destruct (find_field_in_sound _ _ _ _ _ H) as (l' & Hin & Ha & Hn' & Hle).
  rewrite nthN_dropN in Hn'. replace (from + (i - from)) with i in Hn' by lia.
  rewrite Hn in Hn'. injection Hn' as <-. split; [eapply nthN_in; eassumption | apply in_assoc_in; exact Ha].
Qed.

Lemma layer_env_wf : forall ls i l base x,
  wf_layers ls -> wf_scope (l_locals l) base x ->
  wf_env (layer_env ls i l base) /\ closed (dom (layer_env ls i l base)) (hasobj (layer_env ls i l base)) x.
Proof.
  intros ls i l base x Hls Hs. inversion Hs as [locals base' x' Hb Hl Hx]; subst. unfold layer_env. split.
  - constructor; [constructor | | constructor; assumption]. simpl. exact Hl.
  - simpl. exact Hx.
Qed.
