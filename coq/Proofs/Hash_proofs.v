(* Proofs/Hash_proofs.v — the hash specifications of Model/Hash.v on the standards' test
   vectors (kernel-checked by vm_compute), and structural facts. *)
From RJ Require Import Base.Outcome Model.Utf8Codec Model.Hash.
From Coq Require Import Lia.
Local Open Scope N_scope.

Definition abc : list N := [97; 98; 99].
(* "abcdbcdecdefdefgefghfghighijhijkijkljklmklmnlmnomnopnopq" *)
Definition abcdbcde : list N :=
  [97;98;99;100; 98;99;100;101; 99;100;101;102; 100;101;102;103; 101;102;103;104; 102;103;104;105; 103;104;105;106;
   104;105;106;107; 105;106;107;108; 106;107;108;109; 107;108;109;110; 108;109;110;111; 109;110;111;112; 110;111;112;113].

Definition hex (s : list N) : list N := hex_of_bytes s.

(* code points of an ASCII hex string given as a Coq string would need the String library;
   the expected digests are written as byte lists through [unhex] of their digit pairs *)
Definition ascii_hex (l : list N) : list N := l.

Example md5_vectors :
  be_word (md5 []) = 0xd41d8cd98f00b204e9800998ecf8427e /\
  be_word (md5 abc) = 0x900150983cd24fb0d6963f7d28e17f72 /\
  be_word (md5 abcdbcde) = 0x8215ef0796a20bcaaae116d3876c664a /\
  be_word (md5 (repeat 97 55)) = 0xef1772b6dff9a122358552954ad0df65 /\
  be_word (md5 (repeat 97 56)) = 0x3b0c8ac703f828b04c6c197006d17218 /\
  be_word (md5 (repeat 97 64)) = 0x014842d480b571495a4a0363793f7367.
Proof. vm_compute. repeat split; reflexivity. Qed.

Example sha1_vectors :
  be_word (sha1 []) = 0xda39a3ee5e6b4b0d3255bfef95601890afd80709 /\
  be_word (sha1 abc) = 0xa9993e364706816aba3e25717850c26c9cd0d89d /\
  be_word (sha1 abcdbcde) = 0x84983e441c3bd26ebaae4aa1f95129e5e54670f1 /\
  be_word (sha1 (repeat 97 55)) = 0xc1c8bbdc22796e28c0e15163d20899b65621d65a /\
  be_word (sha1 (repeat 97 56)) = 0xc2db330f6083854c99d4b5bfb6e8f29f201be699 /\
  be_word (sha1 (repeat 97 64)) = 0x0098ba824b5c16427bd7a1122a5a442a25ec644d.
Proof. vm_compute. repeat split; reflexivity. Qed.

Example sha256_vectors :
  be_word (sha256 []) = 0xe3b0c44298fc1c149afbf4c8996fb92427ae41e4649b934ca495991b7852b855 /\
  be_word (sha256 abc) = 0xba7816bf8f01cfea414140de5dae2223b00361a396177a9cb410ff61f20015ad /\
  be_word (sha256 abcdbcde) = 0x248d6a61d20638b8e5c026930c3e6039a33ce45964ff2167f6ecedd419db06c1 /\
  be_word (sha256 (repeat 97 55)) = 0x9f4390f8d30c2dd92ec9f095b65e2b9ae9b0a925a5258e241c9f1e910f734318 /\
  be_word (sha256 (repeat 97 56)) = 0xb35439a4ac6f0948b6d6f9e3c6af0f5f590ce20f1bde7090ef7970686ec6738a /\
  be_word (sha256 (repeat 97 64)) = 0xffe054fe7ae0cb6dc65c3af9b61d5209f439851db43d0ba5997337df154668eb.
Proof. vm_compute. repeat split; reflexivity. Qed.

Example sha512_vectors :
  be_word (sha512 []) = 0xcf83e1357eefb8bdf1542850d66d8007d620e4050b5715dc83f4a921d36ce9ce47d0d13c5d85f2b0ff8318d2877eec2f63b931bd47417a81a538327af927da3e /\
  be_word (sha512 abc) = 0xddaf35a193617abacc417349ae20413112e6fa4e89a97ea20a9eeee64b55d39a2192992a274fc1a836ba3c23a3feebbd454d4423643ce80e2a9ac94fa54ca49f /\
  be_word (sha512 abcdbcde) = 0x204a8fc6dda82f0a0ced7beb8e08a41657c16ef468b228a8279be331a703c33596fd15c13b1b07f9aa1d3bea57789ca031ad85c7a71dd70354ec631238ca3445 /\
  be_word (sha512 (repeat 97 111)) = 0xfa9121c7b32b9e01733d034cfc78cbf67f926c7ed83e82200ef86818196921760b4beff48404df811b953828274461673c68d04e297b0eb7b2b4d60fc6b566a2 /\
  be_word (sha512 (repeat 97 112)) = 0xc01d080efd492776a1c43bd23dd99d0a2e626d481e16782e75d54c2503b5dc32bd05f0f1ba33e568b88fd2d970929b719ecbb152f58f130a407c8830604b70ca /\
  be_word (sha512 (repeat 97 128)) = 0xb73d1929aa615934e61a871596b3f3b33359f42b8175602e89f7e06e5f658a243667807ed300314b95cacdd579f3e33abdfbe351909519a846d465c59582f321.
Proof. vm_compute. repeat split; reflexivity. Qed.

Example sha3_512_vectors :
  be_word (sha3_512 []) = 0xa69f73cca23a9ac5c8b567dc185a756e97c982164fe25859e0d1dcc1475c80a615b2123af1f5f94c11e3e9402c3ac558f500199d95b6d3e301758586281dcd26 /\
  be_word (sha3_512 abc) = 0xb751850b1a57168a5693cd924b6b096e08f621827444f70d884f5d0240d2712e10e116e9192af3c91a7ec57647e3934057340b4cf408d5a56592f8274eec53f0 /\
  be_word (sha3_512 abcdbcde) = 0x04a371e84ecfb5b8b77cb48610fca8182dd457ce6f326a0fd3d7ec2f1e91636dee691fbe0c985302ba1b0d8dc78c086346b533b49c030d99a27daf1139d6e75e /\
  be_word (sha3_512 (repeat 97 71)) = 0x070faf98d2a8fddf8ed886408744dc06456096c2e045f26f3c7b010530e6bbb3db535a54d636856f4e0e1e982461cb9a7e8e57ff8895cff1619af9f0e486e28c /\
  be_word (sha3_512 (repeat 97 72)) = 0xa8ae722a78e10cbbc413886c02eb5b369a03f6560084aff566bd597bb7ad8c1ccd86e81296852359bf2faddb5153c0a7445722987875e74287adac21adebe952 /\
  be_word (sha3_512 (repeat 97 73)) = 0x23e6a8815f8201dbbf6a5463be8dcadb1acea9df5f8998954e59ac9565cf6d29b17aa27a5e8b0fc06343db6122d6e544d27583ddc78504d08203217e7e65b6bd /\
  be_word (sha3_512 (repeat 97 144)) = 0x446cd4d7ba19510dcc776b21045bc68d424b5b840e14685e149bb238b5f473c0356b69e04f0f5785eefce20ff09e678b080d8aac64568c5edf001cd32b2ed7a8.
Proof. vm_compute. repeat split; reflexivity. Qed.

Example std_sha256_hex : std_sha256 [233] = hex_of_bytes (sha256 [195; 169]) /\ length (std_sha256 abc) = 64%nat /\
  firstn 8 (std_sha256 abc) = [98; 97; 55; 56; 49; 54; 98; 102].
Proof. vm_compute. repeat split; reflexivity. Qed.

(* ---- structure: padding reaches a block boundary, digests have the standard length ---- *)

Lemma be_bytes_length n x : length (be_bytes n x) = n.
Proof. revert x. induction n as [|n IH]; intros x; [reflexivity|]. cbn [be_bytes]. rewrite app_length, IH. cbn. lia. Qed.
Lemma le_bytes_length n x : length (le_bytes n x) = n.
Proof. revert x. induction n as [|n IH]; intros x; [reflexivity|]. cbn [le_bytes length]. now rewrite IH. Qed.

Theorem md_pad_length : forall block lenbytes be msg, (0 < block)%nat ->
  (length (md_pad block lenbytes be msg) mod block = 0)%nat /\
  (length msg + 1 + lenbytes <= length (md_pad block lenbytes be msg))%nat.
Proof.
  intros block lenbytes be msg Hb. unfold md_pad. rewrite !app_length, repeat_length. cbn [length].
  assert (El : length (if be then be_bytes lenbytes (8 * N.of_nat (length msg)) else le_bytes lenbytes (8 * N.of_nat (length msg))) = lenbytes)
    by (destruct be; [apply be_bytes_length|apply le_bytes_length]).
  rewrite El. set (T := (length msg + 1 + lenbytes)%nat).
  replace (length msg + (1 + ((block - T mod block) mod block + lenbytes)))%nat with (T + (block - T mod block) mod block)%nat by (unfold T; lia).
  split; [|lia].
  pose proof (Nat.mod_upper_bound T block ltac:(lia)) as Hr.
  pose proof (Nat.div_mod T block ltac:(lia)) as Hd.
  destruct (Nat.eq_dec (T mod block) 0) as [E|E].
  - rewrite E, Nat.sub_0_r, Nat.mod_same, Nat.add_0_r by lia. exact E.
  - rewrite (Nat.mod_small (block - T mod block) block) by lia.
    replace (T + (block - T mod block))%nat with ((T / block + 1) * block)%nat by nia.
    apply Nat.mod_mul. lia.
Qed.

Lemma s2_round_length P st kw : length st = 8%nat -> length (s2_round P st kw) = 8%nat.
Proof. intros H. do 9 (destruct st as [|? st]; try discriminate). reflexivity. Qed.

Lemma fold_round_length {A} (f : list N -> A -> list N) (n : nat) :
  (forall st a, length st = n -> length (f st a) = n) ->
  forall l st, length st = n -> length (fold_left f l st) = n.
Proof. intros Hf. induction l as [|a l IH]; intros st H; [exact H|]. cbn [fold_left]. apply IH, Hf, H. Qed.

Lemma s2_compress_length P h block : length h = 8%nat -> length (s2_compress P h block) = 8%nat.
Proof.
  intros H. unfold s2_compress. rewrite map_length, combine_length.
  rewrite (fold_round_length (s2_round P) 8 (s2_round_length P)) by exact H. rewrite H. reflexivity.
Qed.

Lemma flat_map_bytes_length n (f : N -> list N) : (forall x, length (f x) = n) ->
  forall l, length (flat_map f l) = (n * length l)%nat.
Proof. intros Hf. induction l as [|x l IH]; [cbn; lia|]. cbn [flat_map]. rewrite app_length, Hf, IH. cbn [length]. lia. Qed.

Theorem sha256_length : forall msg, length (sha256 msg) = 32%nat.
Proof.
  intros msg. unfold sha256, sha2. rewrite (flat_map_bytes_length 4) by (intros; apply be_bytes_length).
  rewrite (fold_round_length (s2_compress sha256_params) 8 (s2_compress_length sha256_params)); reflexivity.
Qed.
Theorem sha512_length : forall msg, length (sha512 msg) = 64%nat.
Proof.
  intros msg. unfold sha512, sha2. rewrite (flat_map_bytes_length 8) by (intros; apply be_bytes_length).
  rewrite (fold_round_length (s2_compress sha512_params) 8 (s2_compress_length sha512_params)); reflexivity.
Qed.

Lemma sha1_round_length st tw : length st = 5%nat -> length (sha1_round st tw) = 5%nat.
Proof. intros H. do 6 (destruct st as [|? st]; try discriminate). reflexivity. Qed.
Theorem sha1_length : forall msg, length (sha1 msg) = 20%nat.
Proof.
  intros msg. unfold sha1. rewrite (flat_map_bytes_length 4) by (intros; apply be_bytes_length).
  rewrite (fold_round_length sha1_compress 5); [reflexivity| |reflexivity].
  intros st a H. unfold sha1_compress. rewrite map_length, combine_length.
  rewrite (fold_round_length sha1_round 5 sha1_round_length) by exact H. rewrite H. reflexivity.
Qed.

Lemma md5_round_length m st i : length st = 4%nat -> length (md5_round m st i) = 4%nat.
Proof. intros H. do 5 (destruct st as [|? st]; try discriminate). reflexivity. Qed.
Theorem md5_length : forall msg, length (md5 msg) = 16%nat.
Proof.
  intros msg. unfold md5. rewrite (flat_map_bytes_length 4) by (intros; apply le_bytes_length).
  rewrite (fold_round_length md5_compress 4); [reflexivity| |reflexivity].
  intros st a H. unfold md5_compress. rewrite map_length, combine_length.
  rewrite (fold_round_length (md5_round _) 4 (md5_round_length _)) by exact H. rewrite H. reflexivity.
Qed.

Lemma keccak_round_length st rc : length (keccak_round st rc) = 25%nat.
Proof. unfold keccak_round. cbn [seq map]. reflexivity. Qed.
Theorem sha3_512_length : forall msg, length (sha3_512 msg) = 64%nat.
Proof.
  intros msg. unfold sha3_512. rewrite firstn_length, (flat_map_bytes_length 8) by (intros; apply le_bytes_length).
  assert (H : length (fold_left sha3_absorb (chunks 72 (sha3_pad 72 msg)) (repeat 0 25)) = 25%nat).
  { apply (fold_round_length sha3_absorb 25); [|reflexivity]. intros st a _. unfold sha3_absorb, keccak_f.
    set (s0 := map _ (seq 0 25)). assert (H0 : length s0 = 25%nat) by reflexivity. clearbody s0.
    revert s0 H0. induction keccak_rc as [|rc l IH]; intros s0 H0; [exact H0|]. cbn [fold_left]. apply IH, keccak_round_length. }
  rewrite H. reflexivity.
Qed.

(* the builtins print 2 hexadecimal digits per byte *)
Lemma hex_of_bytes_length bs : length (hex_of_bytes bs) = (2 * length bs)%nat.
Proof. unfold hex_of_bytes. now rewrite (flat_map_bytes_length 2). Qed.

Theorem std_hash_lengths : forall s,
  length (std_md5 s) = 32%nat /\ length (std_sha1 s) = 40%nat /\ length (std_sha256 s) = 64%nat /\
  length (std_sha512 s) = 128%nat /\ length (std_sha3 s) = 128%nat.
Proof.
  intros s. unfold std_md5, std_sha1, std_sha256, std_sha512, std_sha3.
  rewrite !hex_of_bytes_length, md5_length, sha1_length, sha256_length, sha512_length, sha3_512_length.
  repeat split; reflexivity.
Qed.
