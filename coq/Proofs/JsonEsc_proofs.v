(* Proofs/JsonEsc_proofs.v — lemmas about the string escaper (Model/JsonEsc.v) against the
   string grammars and the string decoder of Model/JsonDec.v. *)
From RJ Require Import Base.Outcome Model.Token Model.JsonEsc Model.JsonDec.
From Coq Require Import Lia.
Local Open Scope N_scope.

(* ---------------------------------------------------------------- finite enumeration *)
Fixpoint N_range_from (start : N) (n : nat) : list N :=
  match n with
  | O => []
  | S k => start :: N_range_from (start + 1) k
  end.

Lemma in_range_from : forall n start c,
  start <= c -> c < start + N.of_nat n -> In c (N_range_from start n).
Proof.
  induction n as [|n IH]; intros start c Hlo Hhi.
  - simpl in Hhi. lia.
  - cbn [N_range_from]. destruct (N.eq_dec c start) as [->|Hne].
    + left; reflexivity.
    + right. apply IH; lia.
Qed.

Lemma forall_below (P : N -> bool) (k : nat) :
  forallb P (N_range_from 0 k) = true -> forall c, c < N.of_nat k -> P c = true.
Proof.
  intros H c Hc. rewrite forallb_forall in H. apply H. apply in_range_from; lia.
Qed.

(* ---------------------------------------------------------------- table = hand model *)
Definition arms_below (bound : N) (arms : list esc_arm) : bool :=
  forallb (fun a => forallb (fun r => snd r <? bound) (fst a)) arms.

Lemma in_ranges_above : forall rs b c,
  forallb (fun r => snd r <? b) rs = true -> b <= c -> in_ranges c rs = false.
Proof.
  induction rs as [|[lo hi] rs IH]; intros b c Hb Hc; [reflexivity|].
  cbn [forallb snd] in Hb. apply andb_true_iff in Hb as [H1 H2]. apply N.ltb_lt in H1.
  unfold in_ranges. cbn [existsb fst snd].
  replace (c <=? hi) with false by (symmetry; apply N.leb_gt; lia).
  rewrite andb_false_r. cbn [orb]. apply (IH b c H2 Hc).
Qed.

Lemma table_escape_above : forall arms d b c,
  arms_below b arms = true -> b <= c -> table_escape arms d c = run_action d c.
Proof.
  induction arms as [|[rs a] arms IH]; intros d b c Hb Hc; [reflexivity|].
  unfold arms_below in Hb. cbn [forallb fst] in Hb. apply andb_true_iff in Hb as [H1 H2].
  cbn [table_escape]. rewrite (in_ranges_above rs b c H1 Hc). apply (IH d b c H2 Hc).
Qed.

Lemma escape_char_above : forall c, 256 <= c -> escape_char c = [c].
Proof.
  intros c Hc. unfold escape_char.
  repeat match goal with
  | |- context [?a =? ?b] => replace (a =? b) with false by (symmetry; apply N.eqb_neq; lia)
  end.
  repeat match goal with
  | |- context [c <=? ?b] => replace (c <=? b) with false by (symmetry; apply N.leb_gt; lia)
  end.
  rewrite !andb_false_r. reflexivity.
Qed.

Theorem esc_table_matches_model_gen : forall arms dflt,
  arms_below 256 arms = true ->
  dflt = EPushChr ->
  forallb (fun c => str_eqb (table_escape arms dflt c) (escape_char c)) (N_range_from 0 256) = true ->
  forall c, table_escape arms dflt c = escape_char c.
Proof.
  intros arms dflt Hb Hd Hall c.
  destruct (N.lt_ge_cases c 256) as [Hlt|Hge].
  - apply str_eqb_eq. apply (forall_below _ 256 Hall c). exact Hlt.
  - rewrite (table_escape_above arms dflt 256 c Hb Hge), Hd. cbn [run_action].
    symmetry. apply escape_char_above. exact Hge.
Qed.

(* ---------------------------------------------------------------- the shape of one escaped code point *)
Inductive esc_shape (c : N) : str -> Prop :=
| es_plain : 32 <= c -> c <> 34 -> c <> 92 -> ~ (127 <= c /\ c <= 159) -> esc_shape c [c]
| es_simple e : toml_esc e = true -> simple_escape e = Some c -> esc_shape c [92; e]
| es_u a b : c < 256 -> hex_val a = Some (c / 16) -> hex_val b = Some (c mod 16) ->
    esc_shape c [92; 117; 48; 48; a; b].

Definition shape_okb (c : N) (u : str) : bool :=
  match u with
  | [x] => (x =? c) && (32 <=? c) && negb (c =? 34) && negb (c =? 92) && negb ((127 <=? c) && (c <=? 159))
  | [bs; e] =>
      (bs =? 92) && toml_esc e && (match simple_escape e with Some d => d =? c | None => false end)
  | [bs; u'; z1; z2; a; b] =>
      (bs =? 92) && (u' =? 117) && (z1 =? 48) && (z2 =? 48)
      && (match hex_val a, hex_val b with
          | Some x, Some y => (x =? c / 16) && (y =? c mod 16)
          | _, _ => false
          end)
  | _ => false
  end.

Lemma shape_okb_sound : forall c u, c < 256 -> shape_okb c u = true -> esc_shape c u.
Proof.
  intros c u Hc H.
  destruct u as [|x [|e [|z1 [|z2 [|a [|b [|? ?]]]]]]]; cbn [shape_okb] in H; try discriminate.
  - repeat (apply andb_true_iff in H as [H ?]).
    apply N.eqb_eq in H; subst x.
    apply es_plain.
    + apply N.leb_le; assumption.
    + apply N.eqb_neq. apply negb_true_iff. assumption.
    + apply N.eqb_neq. apply negb_true_iff. assumption.
    + intros [A B]. apply N.leb_le in A. apply N.leb_le in B.
      match goal with Hn : negb (_ && _) = true |- _ => rewrite A, B in Hn; discriminate end.
  - repeat (apply andb_true_iff in H as [H ?]).
    apply N.eqb_eq in H; subst x.
    destruct (simple_escape e) as [d|] eqn:Hs; try discriminate.
    match goal with Hd : (d =? c) = true |- _ => apply N.eqb_eq in Hd; subst d end.
    apply es_simple; assumption.
  - repeat (apply andb_true_iff in H as [H ?]).
    apply N.eqb_eq in H; subst x.
    repeat match goal with Hd : (_ =? _) = true |- _ => apply N.eqb_eq in Hd; subst end.
    destruct (hex_val a) as [xa|] eqn:Ha; try discriminate.
    destruct (hex_val b) as [xb|] eqn:Hb; try discriminate.
    match goal with Hd : (_ && _) = true |- _ => apply andb_true_iff in Hd as [H1 H2] end.
    apply N.eqb_eq in H1, H2. subst xa xb.
    apply es_u; assumption.
Qed.

Lemma escape_char_shape_small :
  forallb (fun c => shape_okb c (escape_char c)) (N_range_from 0 256) = true.
Proof. vm_compute. reflexivity. Qed.

Lemma escape_char_shape : forall c, esc_shape c (escape_char c).
Proof.
  intros c. destruct (N.lt_ge_cases c 256) as [Hlt|Hge].
  - apply shape_okb_sound; [exact Hlt|].
    apply (forall_below _ 256 escape_char_shape_small c Hlt).
  - rewrite (escape_char_above c Hge). apply es_plain; lia.
Qed.

(* ---------------------------------------------------------------- escape_valid and its corollaries *)
Lemma hex_val_is_hex : forall a x, hex_val a = Some x -> is_hex a = true.
Proof. intros a x H. unfold is_hex. rewrite H. reflexivity. Qed.

Section Grammar.
Variables plain_ok esc_ok : N -> bool.
Hypothesis plain_covers : forall c, 32 <= c -> c <> 34 -> c <> 92 -> ~ (127 <= c /\ c <= 159) -> plain_ok c = true.
Hypothesis esc_covers : forall e, toml_esc e = true -> esc_ok e = true.

Lemma escape_body_chars : forall s, str_chars plain_ok esc_ok (escape_body s).
Proof.
  induction s as [|c s IH]; [constructor|].
  unfold escape_body. cbn [flat_map]. fold (escape_body s).
  destruct (escape_char_shape c) as [H1 H2 H3 H4 | e He Hs | a b Hc Ha Hb]; cbn [app].
  - apply sc_plain; auto.
  - apply sc_esc; auto.
  - apply sc_u; auto; try reflexivity; eapply hex_val_is_hex; eassumption.
Qed.

Lemma escape_string_quoted : forall s, quoted (str_chars plain_ok esc_ok) (escape_string_json s).
Proof. intros s. exists (escape_body s). split; [reflexivity|apply escape_body_chars]. Qed.
End Grammar.

Lemma json_esc_covers : forall e, toml_esc e = true -> json_esc e = true.
Proof.
  intros e H. unfold toml_esc in H. unfold json_esc, simple_escape.
  repeat (apply orb_true_iff in H as [H|H]); apply N.eqb_eq in H; subst e; reflexivity.
Qed.

Theorem escape_valid : forall s, json_chars (escape_body s).
Proof.
  apply escape_body_chars.
  - intros c H _ _ _. unfold json_plain. apply N.leb_le. exact H.
  - exact json_esc_covers.
Qed.

Theorem escape_string_json_valid : forall s, quoted json_chars (escape_string_json s).
Proof. intros s. exists (escape_body s). split; [reflexivity|apply escape_valid]. Qed.

Lemma toml_plain_covers : forall c, 32 <= c -> c <> 34 -> c <> 92 -> ~ (127 <= c /\ c <= 159) -> toml_plain c = true.
Proof.
  intros c H _ _ Hn. unfold toml_plain.
  destruct (N.le_gt_cases c 126) as [A|A].
  - replace (32 <=? c) with true by (symmetry; apply N.leb_le; lia).
    replace (c <=? 126) with true by (symmetry; apply N.leb_le; lia).
    cbn. rewrite orb_true_r. reflexivity.
  - replace (128 <=? c) with true by (symmetry; apply N.leb_le; lia).
    apply orb_true_r.
Qed.

Theorem toml_basic_string_ok : forall s, quoted toml_basic_chars (escape_string_toml s).
Proof. intros s. apply escape_string_quoted; [exact toml_plain_covers|auto]. Qed.

Lemma python_plain_covers : forall c, 32 <= c -> c <> 34 -> c <> 92 -> ~ (127 <= c /\ c <= 159) -> python_plain c = true.
Proof.
  intros c H _ _ _. unfold python_plain.
  replace (c =? 0) with false by (symmetry; apply N.eqb_neq; lia).
  replace (c =? 10) with false by (symmetry; apply N.eqb_neq; lia).
  replace (c =? 13) with false by (symmetry; apply N.eqb_neq; lia).
  reflexivity.
Qed.

Theorem python_string_ok : forall s, quoted python_chars (escape_string_python s).
Proof. intros s. apply escape_string_quoted; [exact python_plain_covers|auto]. Qed.

Theorem yaml_double_quoted_ok : forall s, quoted yaml_dq_chars (escape_string_json s).
Proof.
  intros s. apply escape_string_quoted; [|auto].
  intros c H _ _ _. unfold yaml_dq_plain. replace (32 <=? c) with true by (symmetry; apply N.leb_le; exact H).
  apply orb_true_r.
Qed.

(* ---------------------------------------------------------------- decoding gives the code points back *)
Lemma simple_escape_117 : simple_escape 117 = None.
Proof. reflexivity. Qed.

Lemma lex_unit_escape_char : forall c rest, lex_unit (escape_char c ++ rest) = UChar c rest.
Proof.
  intros c rest.
  destruct (escape_char_shape c) as [H1 H2 H3 H4 | e He Hs | a b Hc Ha Hb]; cbn [app].
  - unfold lex_unit.
    replace (c =? 34) with false by (symmetry; apply N.eqb_neq; assumption).
    replace (c =? 92) with false by (symmetry; apply N.eqb_neq; assumption).
    replace (c <? 32) with false by (symmetry; apply N.ltb_ge; assumption).
    reflexivity.
  - unfold lex_unit. cbn [N.eqb Pos.eqb]. rewrite Hs. reflexivity.
  - unfold lex_unit. cbn [N.eqb Pos.eqb]. rewrite simple_escape_117.
    unfold hex4. change (hex_val 48) with (Some 0). rewrite Ha, Hb.
    assert (E : ((0 * 16 + 0) * 16 + c / 16) * 16 + c mod 16 = c).
    { pose proof (N.div_mod c 16). lia. }
    rewrite E.
    unfold is_high_surrogate, is_low_surrogate.
    replace (55296 <=? c) with false by (symmetry; apply N.leb_gt; lia).
    replace (56320 <=? c) with false by (symmetry; apply N.leb_gt; lia).
    reflexivity.
Qed.

Lemma lex_string_body_escape : forall s rest fuel, (length s < fuel)%nat ->
  lex_string_body fuel (escape_body s ++ 34 :: rest) = Some (s, rest).
Proof.
  induction s as [|c s IH]; intros rest fuel Hf.
  - destruct fuel as [|f]; [inversion Hf|]. reflexivity.
  - destruct fuel as [|f]; [inversion Hf|].
    unfold escape_body. cbn [flat_map]. fold (escape_body s).
    cbn [lex_string_body]. rewrite <- app_assoc. rewrite lex_unit_escape_char.
    rewrite IH; [reflexivity|]. cbn [length] in Hf. apply PeanoNat.Nat.succ_lt_mono. exact Hf.
Qed.

Lemma escape_char_nonempty : forall c, (1 <= length (escape_char c))%nat.
Proof. intros c. destruct (escape_char_shape c); cbn [length]; auto with arith. Qed.

Lemma escape_body_length : forall s, (length s <= length (escape_body s))%nat.
Proof.
  induction s as [|c s IH]; [apply le_n|].
  unfold escape_body. cbn [flat_map length]. fold (escape_body s). rewrite app_length.
  pose proof (escape_char_nonempty c). apply (PeanoNat.Nat.add_le_mono 1 _ _ _ H IH).
Qed.

Theorem unescape_escape : forall s rest, lex_string (escape_string_json s ++ rest) = Some (s, rest).
Proof.
  intros s rest. unfold escape_string_json. cbn [app lex_string].
  rewrite <- app_assoc. cbn [app]. apply lex_string_body_escape.
  rewrite app_length. pose proof (escape_body_length s).
  apply PeanoNat.Nat.lt_succ_r. apply (PeanoNat.Nat.le_trans _ _ _ H). apply PeanoNat.Nat.le_add_r.
Qed.

(* ---------------------------------------------------------------- TOML keys *)
Lemma toml_plain_char_bare : forall c, toml_plain_char [95; 45] c = true -> toml_bare_char c = true.
Proof.
  intros c H. unfold toml_plain_char, is_ascii_alnum in H. cbn [existsb] in H. unfold toml_bare_char.
  destruct ((48 <=? c) && (c <=? 57)); [reflexivity|].
  destruct ((65 <=? c) && (c <=? 90)); [reflexivity|].
  destruct ((97 <=? c) && (c <=? 122)); [reflexivity|].
  destruct (c =? 45); [reflexivity|].
  destruct (c =? 95); [reflexivity|].
  discriminate H.
Qed.

Theorem safe_toml_plain_sound : forall s, is_safe_toml_plain s = true -> toml_bare_key s.
Proof.
  intros s H. unfold is_safe_toml_plain, is_safe_toml_plain_gen in H.
  apply andb_true_iff in H as [H1 H2]. split.
  - destruct s; [discriminate|intros E; discriminate].
  - apply Forall_forall. intros c Hc. rewrite forallb_forall in H2. apply toml_plain_char_bare. apply H2. exact Hc.
Qed.

Theorem escape_key_toml_ok : forall s,
  toml_bare_key (escape_key_toml s) \/ quoted toml_basic_chars (escape_key_toml s).
Proof.
  intros s. unfold escape_key_toml. destruct (is_safe_toml_plain s) eqn:E.
  - left. apply safe_toml_plain_sound. exact E.
  - right. apply toml_basic_string_ok.
Qed.

(* ---------------------------------------------------------------- YAML plain-key character class (T) *)
Lemma yaml_plain_ranges_match_gen : forall rs,
  forallb (fun r => snd r <? 256) rs = true ->
  forallb (fun c => Bool.eqb (in_ranges c rs) (yaml_plain_char c)) (N_range_from 0 256) = true ->
  forall c, in_ranges c rs = yaml_plain_char c.
Proof.
  intros rs Hb Hall c. destruct (N.lt_ge_cases c 256) as [Hlt|Hge].
  - apply Bool.eqb_prop. apply (forall_below _ 256 Hall c Hlt).
  - rewrite (in_ranges_above rs 256 c Hb Hge). symmetry.
    unfold yaml_plain_char, is_ascii_alnum.
    repeat match goal with
    | |- context [c <=? ?b] => replace (c <=? b) with false by (symmetry; apply N.leb_gt; lia)
    | |- context [c =? ?b] => replace (c =? b) with false by (symmetry; apply N.eqb_neq; lia)
    end.
    rewrite !andb_false_r. reflexivity.
Qed.

(* ---------------------------------------------------------------- YAML plain keys *)
Theorem safe_yaml_plain_chars : forall s, is_safe_yaml_plain s = true ->
  s <> [] /\ Forall (fun c => yaml_plain_char c = true) s
  /\ existsb (eq_ignore_ascii_case s) yaml_special = false.
Proof.
  intros s H. unfold is_safe_yaml_plain, is_safe_yaml_plain_gen in H.
  destruct s as [|c s]; [discriminate|].
  destruct (str_eqb (c :: s) [45] || str_eqb (c :: s) [45; 45; 45]); [discriminate|].
  destruct (forallb yaml_plain_char (c :: s)) eqn:Hc; [|discriminate]. cbn [negb] in H.
  destruct (existsb (eq_ignore_ascii_case (c :: s)) yaml_special) eqn:Hs; [discriminate|].
  split; [discriminate|]. split; [|reflexivity].
  apply Forall_forall. intros x Hx. rewrite forallb_forall in Hc. apply Hc. exact Hx.
Qed.

(* accepted as a plain key, yet a number under the YAML 1.2 core schema *)
Theorem safe_yaml_plain_core_string_refuted :
  exists s, is_safe_yaml_plain s = true /\ yaml12_core_nonstring s = true.
Proof. exists [49; 101; 53]. split; vm_compute; reflexivity. Qed.

(* ---------------------------------------------------------------- the decoder is strict:
   whatever lex_string accepts is a quoted sequence of RFC 8259 chars *)
Lemma str_chars_app : forall p e a b, str_chars p e a -> str_chars p e b -> str_chars p e (a ++ b).
Proof. intros p e a b Ha Hb. induction Ha; cbn [app]; [exact Hb| | |]; constructor; assumption. Qed.

Lemma hex4_sound : forall s u r, hex4 s = Some (u, r) ->
  exists a b c d, s = a :: b :: c :: d :: r /\ is_hex a = true /\ is_hex b = true /\ is_hex c = true /\ is_hex d = true.
Proof.
  intros s u r H. destruct s as [|a [|b [|c [|d s]]]]; try discriminate. cbn [hex4] in H.
  destruct (hex_val a) eqn:Ea; try discriminate. destruct (hex_val b) eqn:Eb; try discriminate.
  destruct (hex_val c) eqn:Ec; try discriminate. destruct (hex_val d) eqn:Ed; try discriminate.
  injection H as _ <-. exists a, b, c, d. unfold is_hex. rewrite Ea, Eb, Ec, Ed. repeat split.
Qed.

Lemma match_bs_u : forall (r2 : str) (A : str -> unit_res) c r,
  match r2 with 92 :: 117 :: r3 => A r3 | _ => UErr end = UChar c r ->
  exists r3, r2 = 92 :: 117 :: r3 /\ A r3 = UChar c r.
Proof.
  intros r2 A c r H. destruct r2 as [|y1 [|y2 r3]]; try discriminate H.
  - destruct y1 as [|p1]; [discriminate H|]. repeat (destruct p1 as [p1|p1|]; try discriminate H).
  - destruct y1 as [|p1]; [discriminate H|]. repeat (destruct p1 as [p1|p1|]; try discriminate H).
    destruct y2 as [|p2]; [discriminate H|]. repeat (destruct p2 as [p2|p2|]; try discriminate H).
    exists r3. split; [reflexivity|exact H].
Qed.

Lemma lex_unit_sound : forall s c r, lex_unit s = UChar c r -> exists u, s = u ++ r /\ json_chars u.
Proof.
  intros s c r H. destruct s as [|x s]; [discriminate|]. cbn [lex_unit] in H.
  destruct (N.eqb_spec x 34) as [->|Hq]; [discriminate|].
  destruct (N.eqb_spec x 92) as [->|Hb].
  - destruct s as [|e s]; [discriminate|].
    destruct (simple_escape e) as [d|] eqn:Es.
    + injection H as _ <-. exists [92; e]. split; [reflexivity|].
      apply sc_esc; [unfold json_esc; rewrite Es; reflexivity|constructor].
    + destruct (N.eqb_spec e 117) as [->|]; [|discriminate].
      destruct (hex4 s) as [[u r2]|] eqn:E4; [|discriminate].
      destruct (hex4_sound _ _ _ E4) as [a [b [c' [d [-> [Ha [Hb' [Hc Hd]]]]]]]].
      destruct (is_high_surrogate u).
      * apply match_bs_u in H. destruct H as [r3 [-> H]].
        destruct (hex4 r3) as [[l r4]|] eqn:E5; [|discriminate].
        destruct (hex4_sound _ _ _ E5) as [a2 [b2 [c2 [d2 [-> [Ha2 [Hb2 [Hc2 Hd2]]]]]]]].
        destruct (is_low_surrogate l); [|discriminate].
        assert (Hr : r4 = r) by (exact (f_equal (fun x => match x with UChar _ t => t | _ => r4 end) H)).
        subst r. clear H.
        exists [92; 117; a; b; c'; d; 92; 117; a2; b2; c2; d2]. split; [reflexivity|].
        apply sc_u; auto. apply sc_u; auto. constructor.
      * destruct (is_low_surrogate u); [discriminate|]. injection H as _ <-.
        exists [92; 117; a; b; c'; d]. split; [reflexivity|]. apply sc_u; auto. constructor.
  - destruct (x <? 32) eqn:Hlt; [discriminate|]. injection H as _ <-.
    exists [x]. split; [reflexivity|]. apply sc_plain; [|exact Hq|exact Hb|constructor].
    unfold json_plain. apply N.leb_le. apply N.ltb_ge. exact Hlt.
Qed.

Lemma lex_unit_end : forall s r, lex_unit s = UEnd r -> s = 34 :: r.
Proof.
  intros s r H. destruct s as [|x s]; [discriminate|]. cbn [lex_unit] in H.
  destruct (N.eqb_spec x 34) as [->|Hq]; [injection H as <-; reflexivity|].
  destruct (x =? 92).
  - destruct s as [|e s]; [discriminate|]. destruct (simple_escape e); [discriminate|].
    destruct (e =? 117); [|discriminate]. destruct (hex4 s) as [[u r2]|]; [|discriminate].
    destruct (is_high_surrogate u).
    + destruct r2 as [|y1 [|y2 r3]]; try discriminate H.
      * destruct y1 as [|p1]; [discriminate H|]. repeat (destruct p1 as [p1|p1|]; try discriminate H).
      * destruct y1 as [|p1]; [discriminate H|]. repeat (destruct p1 as [p1|p1|]; try discriminate H).
        destruct y2 as [|p2]; [discriminate H|]. repeat (destruct p2 as [p2|p2|]; try discriminate H).
        destruct (hex4 r3) as [[l r4]|]; [|discriminate]. destruct (is_low_surrogate l); discriminate.
    + destruct (is_low_surrogate u); discriminate.
  - destruct (x <? 32); discriminate.
Qed.

Lemma lex_string_body_sound : forall fuel s cs r, lex_string_body fuel s = Some (cs, r) ->
  exists body, s = body ++ 34 :: r /\ json_chars body.
Proof.
  induction fuel as [|f IH]; intros s cs r H; [discriminate|].
  cbn [lex_string_body] in H. destruct (lex_unit s) as [r0|c r0|] eqn:Eu; [| |discriminate].
  - injection H as _ <-. rewrite (lex_unit_end _ _ Eu). exists []. split; [reflexivity|constructor].
  - destruct (lex_string_body f r0) as [[cs' r']|] eqn:Er; [|discriminate]. injection H as _ <-.
    destruct (lex_unit_sound _ _ _ Eu) as [u [-> Hu]].
    destruct (IH _ _ _ Er) as [body [-> Hb]].
    exists (u ++ body). split; [rewrite app_assoc; reflexivity|apply str_chars_app; assumption].
Qed.

Theorem lex_string_sound : forall s cs r, lex_string s = Some (cs, r) ->
  exists body, s = 34 :: body ++ 34 :: r /\ json_chars body.
Proof.
  intros s cs r H. destruct s as [|x s]; [discriminate|]. cbn [lex_string] in H.
  destruct x as [|p]; [discriminate H|]. repeat (destruct p as [p|p|]; try discriminate H).
  destruct (lex_string_body_sound _ _ _ _ H) as [body [-> Hb]]. exists body. split; [reflexivity|exact Hb].
Qed.
