(* Proofs/JsonEsc_proofs.v — lemmas about the string escaper (Model/JsonEsc.v) against the
   string grammars and the string decoder of Model/JsonDec.v. *)
From RJ Require Import Base.Outcome Model.Token Model.JsonEsc Model.JsonDec.
From Coq Require Import Lia.
Local Open Scope N_scope.

(* ---------------------------------------------------------------- finite enumeration *)
Fixpoint N_range_from (start : N) (n : nat) : list N :=
  match n with
  | O => []
  | S k => start :: N_range_from (start + 1) k
  end.

Lemma in_range_from : forall n start c,
  start <= c -> c < start + N.of_nat n -> In c (N_range_from start n).
Proof.
  induction n as [|n IH]; intros start c Hlo Hhi.
  - simpl in Hhi. lia.
  - cbn [N_range_from]. destruct (N.eq_dec c start) as [->|Hne].
    + left; reflexivity.
    + right. apply IH; lia.
Qed.

Lemma forall_below (P : N -> bool) (k : nat) :
  forallb P (N_range_from 0 k) = true -> forall c, c < N.of_nat k -> P c = true.
Proof.
  intros H c Hc. rewrite forallb_forall in H. apply H. apply in_range_from; lia.
Qed.

(* ---------------------------------------------------------------- table = hand model *)
Definition arms_below (bound : N) (arms : list esc_arm) : bool :=
  forallb (fun a => forallb (fun r => snd r <? bound) (fst a)) arms.

Lemma in_ranges_above : forall rs b c,
  forallb (fun r => snd r <? b) rs = true -> b <= c -> in_ranges c rs = false.
Proof.
  induction rs as [|[lo hi] rs IH]; intros b c Hb Hc; [reflexivity|].
  cbn [forallb snd] in Hb. apply andb_true_iff in Hb as [H1 H2]. apply N.ltb_lt in H1.
  unfold in_ranges. cbn [existsb fst snd].
  replace (c <=? hi) with false by (symmetry; apply N.leb_gt; lia).
  rewrite andb_false_r. cbn [orb]. apply (IH b c H2 Hc).
Qed.

Lemma table_escape_above : forall arms d b c,
  arms_below b arms = true -> b <= c -> table_escape arms d c = run_action d c.
Proof.
  induction arms as [|[rs a] arms IH]; intros d b c Hb Hc; [reflexivity|].
  unfold arms_below in Hb. cbn [forallb fst] in Hb. apply andb_true_iff in Hb as [H1 H2].
  cbn [table_escape]. rewrite (in_ranges_above rs b c H1 Hc). apply (IH d b c H2 Hc).
Qed.

Lemma escape_char_above : forall c, 256 <= c -> escape_char c = [c].
Proof.
  intros c Hc. unfold escape_char.
  repeat match goal with
  | |- context [?a =? ?b] => replace (a =? b) with false by (symmetry; apply N.eqb_neq; lia)
  end.
  repeat match goal with
  | |- context [c <=? ?b] => replace (c <=? b) with false by (symmetry; apply N.leb_gt; lia)
  end.
  rewrite !andb_false_r. reflexivity.
Qed.

Theorem esc_table_matches_model_gen : forall arms dflt,
  arms_below 256 arms = true ->
  dflt = EPushChr ->
  forallb (fun c => str_eqb (table_escape arms dflt c) (escape_char c)) (N_range_from 0 256) = true ->
  forall c, table_escape arms dflt c = escape_char c.
Proof.
  intros arms dflt Hb Hd Hall c.
  destruct (N.lt_ge_cases c 256) as [Hlt|Hge].
  - apply str_eqb_eq. apply (forall_below _ 256 Hall c). exact Hlt.
  - rewrite (table_escape_above arms dflt 256 c Hb Hge), Hd. cbn [run_action].
    symmetry. apply escape_char_above. exact Hge.
Qed.
