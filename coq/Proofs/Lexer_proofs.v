(* Proofs/Lexer_proofs.v — lemmas about Model/Lexer.v. *)
From RJ Require Import Base.Outcome Model.Token Model.Utf8 Model.Lexer.
From Coq Require Import Lia.
Local Open Scope N_scope.

Definition non_trivia (t : token) : bool := negb (is_trivia (tok_kind t)).

Lemma eof_not_trivia k : is_eof k = true -> is_trivia k = false.
Proof. destruct k; simpl; congruence. Qed.

Lemma lex_loop_filter len fuel c :
  lex_loop len fuel false c = omap (filter non_trivia) (lex_loop len fuel true c).
Proof.
  revert c. induction fuel as [|f IH]; intros c; [reflexivity|].
  cbn [lex_loop]. destruct (next_token len c) as [[t c']| | |]; cbn [obind omap]; try reflexivity.
  destruct (is_eof (tok_kind t)) eqn:He.
  - unfold omap; cbn [obind filter]. unfold non_trivia. rewrite (eof_not_trivia _ He). reflexivity.
  - rewrite IH. destruct (lex_loop len f true c') as [ts| | |]; unfold omap; cbn [obind]; reflexivity.
Qed.

Theorem lex_filter input :
  lex_all false input = omap (filter non_trivia) (lex_all true input).
Proof. apply lex_loop_filter. Qed.
