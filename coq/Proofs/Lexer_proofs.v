(* Proofs/Lexer_proofs.v — lemmas about Model/Lexer.v. *)
From RJ Require Import Base.Outcome Model.Token Model.Utf8 Model.Lexer Proofs.Utf8_proofs.
From Coq Require Import Lia.
Local Open Scope N_scope.

(* ------------------------------------------------------------------ *)
(* lex_filter                                                          *)

Definition non_trivia (t : token) : bool := negb (is_trivia (tok_kind t)).

Lemma eof_not_trivia k : is_eof k = true -> is_trivia k = false.
Proof. destruct k; simpl; congruence. Qed.

Lemma lex_loop_filter len fuel c :
  lex_loop len fuel false c = omap (filter non_trivia) (lex_loop len fuel true c).
Proof.
  revert c. induction fuel as [|f IH]; intros c; [reflexivity|].
  cbn [lex_loop]. destruct (next_token len c) as [[t c']| | |]; cbn [obind omap]; try reflexivity.
  destruct (is_eof (tok_kind t)) eqn:He.
  - unfold omap; cbn [obind filter]. unfold non_trivia. rewrite (eof_not_trivia _ He). reflexivity.
  - rewrite IH. destruct (lex_loop len f true c') as [ts| | |]; unfold omap; cbn [obind]; reflexivity.
Qed.

Theorem lex_filter input :
  lex_all false input = omap (filter non_trivia) (lex_all true input).
Proof. apply lex_loop_filter. Qed.

(* ------------------------------------------------------------------ *)
(* cursors                                                             *)

(* c' is c moved forward over the bytes l *)
Definition ext_by (l : list N) (c c' : cur) : Prop :=
  rest c = l ++ rest c' /\ pos c' = pos c + N.of_nat (length l).
Definition ext (c c' : cur) : Prop := exists l, ext_by l c c'.
Definition sext (c c' : cur) : Prop := exists l, l <> [] /\ ext_by l c c'.

Definition wfc (len : N) (c : cur) : Prop := pos c + N.of_nat (length (rest c)) = len.

Lemma ext_refl c : ext c c.
Proof. exists []. split; [reflexivity|cbn; lia]. Qed.

Lemma ext_by_trans l1 l2 a b c : ext_by l1 a b -> ext_by l2 b c -> ext_by (l1 ++ l2) a c.
Proof.
  intros [H1 P1] [H2 P2]. split.
  - rewrite H1, H2, app_assoc. reflexivity.
  - rewrite P2, P1, app_length. lia.
Qed.

Lemma ext_trans a b c : ext a b -> ext b c -> ext a c.
Proof. intros [l1 H1] [l2 H2]. exists (l1 ++ l2). eapply ext_by_trans; eassumption. Qed.

Lemma sext_ext a b : sext a b -> ext a b.
Proof. intros [l [_ H]]. exists l. exact H. Qed.

Lemma sext_ext_trans a b c : sext a b -> ext b c -> sext a c.
Proof.
  intros [l1 [N1 H1]] [l2 H2]. exists (l1 ++ l2). split.
  - destruct l1; [congruence|discriminate].
  - eapply ext_by_trans; eassumption.
Qed.

Lemma ext_sext_trans a b c : ext a b -> sext b c -> sext a c.
Proof.
  intros [l1 H1] [l2 [N2 H2]]. exists (l1 ++ l2). split.
  - destruct l1; [exact N2|discriminate].
  - eapply ext_by_trans; eassumption.
Qed.

Lemma ext_wfc len a b : ext a b -> wfc len a -> wfc len b.
Proof. intros [l [H P]] W. unfold wfc in *. rewrite H, app_length in W. lia. Qed.

Lemma ext_pos a b : ext a b -> pos a <= pos b.
Proof. intros [l [_ P]]. lia. Qed.

Lemma sext_pos a b : sext a b -> pos a < pos b.
Proof. intros [l [Hn [_ P]]]. destruct l; [congruence|]. cbn [length] in P. lia. Qed.

Lemma ext_len a b : ext a b -> (length (rest b) <= length (rest a))%nat.
Proof. intros [l [H _]]. rewrite H, app_length. lia. Qed.

Lemma sext_len a b : sext a b -> (length (rest b) < length (rest a))%nat.
Proof. intros [l [Hn [H _]]]. rewrite H, app_length. destruct l; [congruence|cbn; lia]. Qed.

Lemma ext_bytes a b : ext a b -> bytes_ok (rest a) -> bytes_ok (rest b).
Proof. intros [l [H _]] B. rewrite H in B. apply Forall_app in B. tauto. Qed.

Lemma wfc_pos_le len c : wfc len c -> pos c <= len.
Proof. unfold wfc. lia. Qed.

(* ---- the eat_* helpers ---- *)
Lemma eat_any_byte_ext c b c' : eat_any_byte c = Some (b, c') -> ext_by [b] c c'.
Proof.
  unfold eat_any_byte. destruct (rest c) as [|x r] eqn:E; intros H; inversion H; subst.
  split; cbn; [exact E|lia].
Qed.

Lemma eat_any_byte_none c : eat_any_byte c = None -> rest c = [].
Proof. unfold eat_any_byte. destruct (rest c); [reflexivity|discriminate]. Qed.

Lemma eat_byte_if_ext p c c' : eat_byte_if p c = Some c' -> exists b, p b = true /\ ext_by [b] c c'.
Proof.
  unfold eat_byte_if. destruct (rest c) as [|x r] eqn:E; [discriminate|].
  destruct (p x) eqn:Hp; intros H; inversion H; subst. exists x. split; [exact Hp|].
  split; cbn; [exact E|lia].
Qed.

Lemma eat_byte_ext b c c' : eat_byte b c = Some c' -> ext_by [b] c c'.
Proof.
  intros H. apply eat_byte_if_ext in H as [x [Hx E]]. apply N.eqb_eq in Hx. subst. exact E.
Qed.

Lemma eat_map_byte_ext {R} (f : N -> option R) c x c' :
  eat_map_byte f c = Some (x, c') -> exists b, f b = Some x /\ ext_by [b] c c'.
Proof.
  unfold eat_map_byte. destruct (rest c) as [|y r] eqn:E; [discriminate|].
  destruct (f y) eqn:Hf; intros H; inversion H; subst. exists y. split; [exact Hf|].
  split; cbn; [exact E|lia].
Qed.

Lemma strip_prefix_app s : forall r r', strip_prefix s r = Some r' -> r = s ++ r'.
Proof.
  induction s as [|x s IH]; intros r r' H; cbn in *; [inversion H; reflexivity|].
  destruct r as [|y r]; [discriminate|]. destruct (N.eqb_spec x y); [|discriminate].
  subst. f_equal. apply IH, H.
Qed.

Lemma eat_slice_ext s c c' : eat_slice s c = Some c' -> ext_by s c c'.
Proof.
  unfold eat_slice. destruct (strip_prefix s (rest c)) as [r'|] eqn:E; intros H; inversion H; subst.
  split; cbn; [apply strip_prefix_app, E|reflexivity].
Qed.

Lemma eat_while_from_ext p : forall r ps,
  exists l, Forall (fun b => p b = true) l /\
            ext_by l {| pos := ps; rest := r |} (eat_while_from p ps r).
Proof.
  induction r as [|b r IH]; intros ps; cbn [eat_while_from].
  - exists []. split; [constructor|]. split; cbn; [reflexivity|lia].
  - destruct (p b) eqn:Hp.
    + destruct (IH (ps + 1)) as [l [Hl [H1 H2]]]. exists (b :: l). split; [constructor; assumption|].
      split; cbn [rest pos app length] in *; [f_equal; exact H1|lia].
    + exists []. split; [constructor|]. split; cbn; [reflexivity|lia].
Qed.

Lemma eat_while_ext p c : exists l, Forall (fun b => p b = true) l /\ ext_by l c (eat_while p c).
Proof. destruct c as [ps r]. apply eat_while_from_ext. Qed.

Lemma ext_by_ext l a b : ext_by l a b -> ext a b.
Proof. intros H. exists l. exact H. Qed.

Lemma ext_by_sext l a b : l <> [] -> ext_by l a b -> sext a b.
Proof. intros N H. exists l. split; assumption. Qed.

Lemma bytes_between_ext l a b : ext_by l a b -> bytes_between a b = l.
Proof.
  intros [H _]. unfold bytes_between. rewrite H, app_length.
  replace (length l + length (rest b) - length (rest b))%nat with (length l) by lia.
  apply firstn_app_exact || (rewrite firstn_app, firstn_all, Nat.sub_diag; cbn; apply app_nil_r).
Qed.

(* ------------------------------------------------------------------ *)
(* outcomes of the sub-lexers                                          *)
Section Specs.
Variable len : N.

Definition located (e : lex_error) : Prop :=
  fst (err_span e) <= snd (err_span e) /\ snd (err_span e) <= len.

(* Ok with a post-condition, or a located error; never a panic, never out of fuel *)
Definition good {A} (P : A -> Prop) (r : res A) : Prop :=
  match r with
  | Ok a => P a
  | Err e => located e
  | Panic _ => False
  | OutOfFuel => False
  end.

Lemma good_bind {A B} (Q : A -> Prop) (P : B -> Prop) (x : res A) (f : A -> res B) :
  good Q x -> (forall a, Q a -> good P (f a)) -> good P (obind x f).
Proof. destruct x; cbn; auto. Qed.

Lemma good_mono {A} (P Q : A -> Prop) (r : res A) :
  good P r -> (forall a, P a -> Q a) -> good Q r.
Proof. destruct r; cbn; auto. Qed.

Lemma make_span_ok s e : s <= e -> e <= len -> make_span len s e = Ok (s, e).
Proof.
  intros H1 H2. unfold make_span.
  replace (s <=? e) with true by (symmetry; apply N.leb_le; lia).
  replace (len <? s) with false by (symmetry; apply N.ltb_ge; lia).
  replace (len <? e) with false by (symmetry; apply N.ltb_ge; lia). reflexivity.
Qed.

Lemma good_fail {A} (P : A -> Prop) k s e : s <= e -> e <= len -> good P (fail len k s e).
Proof. intros H1 H2. unfold fail. rewrite make_span_ok by assumption. cbn. split; assumption. Qed.

Lemma usub_ok a b : b <= a -> usub a b = Ok (a - b).
Proof. intros H. unfold usub. replace (a <? b) with false by (symmetry; apply N.ltb_ge; lia). reflexivity. Qed.

Lemma commit_ok start c k : start <= pos c -> pos c <= len ->
  commit len start c k = Ok ({| tok_span := (start, pos c); tok_kind := k |}, c).
Proof. intros H1 H2. unfold commit. rewrite make_span_ok by assumption. reflexivity. Qed.

(* what a token scanner promises: the cursor moved forward from [c0] and the
   token spans from [start] to the new position *)
Definition tok_post (start : N) (c0 : cur) (p : token * cur) : Prop :=
  ext c0 (snd p) /\ tok_span (fst p) = (start, pos (snd p)) /\ is_eof (tok_kind (fst p)) = false.

Lemma good_commit start c0 c k : is_eof k = false -> ext c0 c -> start <= pos c0 -> wfc len c0 ->
  good (tok_post start c0) (commit len start c k).
Proof.
  intros K E S W. pose proof (ext_pos _ _ E). pose proof (wfc_pos_le _ _ (ext_wfc _ _ _ E W)).
  rewrite commit_ok by lia. cbn. split; [exact E|split; [reflexivity|exact K]].
Qed.

(* ---- comments ---- *)
Lemma line_comment_ext : forall r ps, ext {| pos := ps; rest := r |} (line_comment_from ps r).
Proof.
  induction r as [|b r IH]; intros ps; cbn [line_comment_from]; [apply ext_refl|].
  destruct (b =? 10).
  - exists [b]. split; cbn; [reflexivity|lia].
  - eapply ext_trans; [|apply IH]. exists [b]. split; cbn; [reflexivity|lia].
Qed.

Lemma good_single_line_comment start c0 c : ext c0 c -> start <= pos c0 -> wfc len c0 ->
  good (tok_post start c0) (lex_single_line_comment len start c).
Proof.
  intros E S W. unfold lex_single_line_comment. apply good_commit; try assumption; [reflexivity|].
  eapply ext_trans; [exact E|]. destruct c as [ps r]. apply line_comment_ext.
Qed.

Lemma block_comment_ext : forall r ps c', block_comment_from ps r = Some c' ->
  ext {| pos := ps; rest := r |} c'.
Proof.
  induction r as [|b r IH]; intros ps c' H; cbn [block_comment_from] in H; [discriminate|].
  destruct r as [|b' r'']; [discriminate|].
  destruct ((b =? 42) && (b' =? 47)).
  - inversion H; subst. exists [b; b']. split; cbn; [reflexivity|lia].
  - eapply ext_trans; [|apply (IH _ _ H)]. exists [b]. split; cbn; [reflexivity|lia].
Qed.

Lemma good_multi_line_comment start c0 c : ext c0 c -> start <= pos c0 -> wfc len c0 ->
  good (tok_post start c0) (lex_multi_line_comment len start c).
Proof.
  intros E S W. unfold lex_multi_line_comment.
  destruct (block_comment_from (pos c) (rest c)) as [c'|] eqn:B.
  - apply good_commit; try assumption; [reflexivity|]. eapply ext_trans; [exact E|].
    destruct c as [ps r]. apply block_comment_ext, B.
  - apply good_fail; [|lia]. pose proof (wfc_pos_le _ _ W). lia.
Qed.

(* ---- ASCII classes ---- *)
Lemma mem_byte_in b l : mem_byte b l = true -> In b l.
Proof.
  unfold mem_byte. rewrite existsb_exists. intros [x [Hx E]]. apply N.eqb_eq in E. subst. exact Hx.
Qed.

Lemma all_lt_128 l : forallb (fun x => x <? 128) l = true -> forall b, In b l -> b < 128.
Proof. rewrite forallb_forall. intros H b Hb. apply N.ltb_lt, H, Hb. Qed.

Lemma ascii_str_ok site bs : Forall (fun b => b < 128) bs -> ascii_str site bs = Ok bs.
Proof.
  intros H. unfold ascii_str.
  replace (forallb (fun b => b <? 128) bs) with true; [reflexivity|].
  symmetry. apply forallb_forall. intros x Hx. apply N.ltb_lt. rewrite Forall_forall in H. auto.
Qed.

(* ---- operators ---- *)
Definition ascii_bytes (l : list N) : Prop := Forall (fun b => b < 128) l.
Lemma ascii_cons b l : b < 128 -> ascii_bytes l -> ascii_bytes (b :: l).
Proof. intros H1 H2. constructor; assumption. Qed.
Lemma ascii_one b : b < 128 -> ascii_bytes [b].
Proof. intros H. constructor; [exact H|constructor]. Qed.

Definition is_op_byte (b : N) : bool := mem_byte b op_sure_bytes || mem_byte b op_unsure_bytes.

Lemma op_byte_ascii b : is_op_byte b = true -> b < 128.
Proof.
  unfold is_op_byte. rewrite orb_true_iff. intros [H|H]; apply mem_byte_in in H;
    revert b H; apply all_lt_128; reflexivity.
Qed.

Lemma op_loop_spec : forall r ps acc sp sr sacc,
  ext {| pos := sp; rest := sr |} {| pos := ps; rest := r |} ->
  Forall (fun b => b < 128) acc -> Forall (fun b => b < 128) sacc ->
  let '(c', racc) := op_loop r ps acc sp sr sacc in
  ext {| pos := sp; rest := sr |} c' /\ Forall (fun b => b < 128) racc.
Proof.
  induction r as [|b r IH]; intros ps acc sp sr sacc E A SA; cbn [op_loop].
  - destruct (op_forbidden_here []); split; try apply ext_refl; assumption.
  - destruct (op_forbidden_here (b :: r)); [split; [apply ext_refl|assumption]|].
    assert (Eb : ext {| pos := ps; rest := b :: r |} {| pos := ps + 1; rest := r |}).
    { exists [b]. split; cbn; [reflexivity|lia]. }
    destruct (mem_byte b op_sure_bytes) eqn:S1.
    + assert (Hb : b < 128) by (apply op_byte_ascii; unfold is_op_byte; rewrite S1; reflexivity).
      specialize (IH (ps + 1) (b :: acc) (ps + 1) r (b :: acc) (ext_refl _)
                     (ascii_cons b acc Hb A) (ascii_cons b acc Hb A)).
      destruct (op_loop r (ps + 1) (b :: acc) (ps + 1) r (b :: acc)) as [c' racc].
      destruct IH as [IH1 IH2]. split; [|exact IH2].
      eapply ext_trans; [exact E|]. eapply ext_trans; [exact Eb|exact IH1].
    + destruct (mem_byte b op_unsure_bytes) eqn:S2.
      * assert (Hb : b < 128) by (apply op_byte_ascii; unfold is_op_byte; rewrite S2; apply orb_true_r).
        apply IH; [|apply ascii_cons; assumption|assumption].
        eapply ext_trans; [exact E|exact Eb].
      * split; [apply ext_refl|assumption].
Qed.

Lemma good_operator start c0 b0 c : ext c0 c -> start <= pos c0 -> wfc len c0 -> b0 < 128 ->
  good (tok_post start c0) (lex_operator len start b0 c).
Proof.
  intros E S W Hb. unfold lex_operator.
  pose proof (op_loop_spec (rest c) (pos c) [b0] (pos c) (rest c) [b0] (ext_refl _)
                (ascii_one b0 Hb) (ascii_one b0 Hb)) as L.
  destruct (op_loop (rest c) (pos c) [b0] (pos c) (rest c) [b0]) as [c' racc].
  destruct L as [L1 L2].
  assert (E' : ext c0 c') by (eapply ext_trans; [exact E|]; destruct c; exact L1).
  destruct (assoc_bytes (rev racc) operator_table).
  - apply good_commit; try assumption; reflexivity.
  - rewrite ascii_str_ok by (apply Forall_rev; exact L2). cbn [obind]. apply good_commit; try assumption; reflexivity.
Qed.

(* ---- identifiers ---- *)
Lemma ident_cont_ascii b : is_ident_cont b = true -> b < 128.
Proof.
  unfold is_ident_cont, in_range. rewrite !orb_true_iff, !andb_true_iff, !N.leb_le, N.eqb_eq. lia.
Qed.

Lemma good_ident start c0 b0 c : ext c0 c -> start <= pos c0 -> wfc len c0 -> b0 < 128 ->
  good (tok_post start c0) (lex_ident len start b0 c).
Proof.
  intros E S W Hb. unfold lex_ident.
  destruct (eat_while_ext is_ident_cont c) as [l [Hl El]].
  rewrite (bytes_between_ext l _ _ El).
  assert (E' : ext c0 (eat_while is_ident_cont c)) by (eapply ext_trans; [exact E|exists l; exact El]).
  destruct (assoc_bytes (b0 :: l) keyword_table).
  - apply good_commit; try assumption; reflexivity.
  - rewrite ascii_str_ok.
    + cbn [obind]. apply good_commit; try assumption; reflexivity.
    + constructor; [exact Hb|]. eapply Forall_impl; [|exact Hl]. intros a Ha. apply ident_cont_ascii, Ha.
Qed.

(* ---- numbers ---- *)
Lemma ext_step ps b r : ext {| pos := ps; rest := b :: r |} {| pos := ps + 1; rest := r |}.
Proof. exists [b]. split; cbn; [reflexivity|lia]. Qed.

Lemma good_num_stop st a c : 1 <= pos c -> (st = NExpSign -> 2 <= pos c) -> pos c <= len ->
  good (fun p : nacc * cur => snd p = c) (num_stop len st a c).
Proof.
  intros P1 P2 PL. unfold num_stop.
  destruct st as [[|]| |[|]| | |[|]]; cbn [good snd]; try reflexivity;
    try (rewrite usub_ok by lia; cbn [obind]; apply good_fail; lia).
  rewrite usub_ok by (specialize (P2 eq_refl); lia). cbn [obind]. apply good_fail; lia.
Qed.

Lemma good_num_loop lz : forall r ps st a,
  1 <= ps -> (st = NExpSign -> 2 <= ps) -> wfc len {| pos := ps; rest := r |} ->
  good (fun p : nacc * cur => ext {| pos := ps; rest := r |} (snd p)) (num_loop len lz r ps st a).
Proof.
  induction r as [|b r IH]; intros ps st a P1 P2 W; cbn [num_loop].
  - eapply good_mono; [apply good_num_stop; cbn [pos]; try assumption; apply (wfc_pos_le _ _ W)|].
    intros p Hp. rewrite Hp. apply ext_refl.
  - assert (PL : ps + 1 <= len) by (unfold wfc in W; cbn [pos rest length] in W; lia).
    destruct (num_step lz st a b) as [st' a'| |] eqn:St.
    + eapply good_mono.
      * apply IH; [lia| |].
        -- intros _. lia.
        -- unfold wfc in *. cbn [pos rest length] in *. lia.
      * intros p Hp. eapply ext_trans; [apply ext_step|exact Hp].
    + rewrite !usub_ok by lia. cbn [obind]. apply good_fail; lia.
    + eapply good_mono; [apply good_num_stop; cbn [pos]; try assumption; lia|].
      intros p Hp. rewrite Hp. apply ext_refl.
Qed.

Lemma good_number start c0 b0 c : ext c0 c -> start <= pos c0 -> wfc len c0 -> 1 <= pos c ->
  is_digit b0 = true ->
  good (tok_post start c0) (lex_number len start b0 c).
Proof.
  intros E S W PS D. unfold lex_number. rewrite D. cbn [negb].
  eapply good_bind.
  - apply (good_num_loop (b0 =? 48) (rest c) (pos c)); [lia|intros H; discriminate|].
    destruct c; apply (ext_wfc _ _ _ E W).
  - intros [a c'] Hp. cbn [snd] in Hp.
    assert (E' : ext c0 c') by (eapply ext_trans; [exact E|]; destruct c; exact Hp).
    destruct (eff_exp a).
    + apply good_commit; try assumption; reflexivity.
    + pose proof (ext_pos _ _ E'). pose proof (wfc_pos_le _ _ (ext_wfc _ _ _ E' W)).
      apply good_fail; lia.
Qed.

(* ---- characters ---- *)
Lemma good_eat_cont_any_char b0 c : b0 < 256 -> bytes_ok (rest c) ->
  good (fun p : cur * option N => ext c (fst p)) (eat_cont_any_char b0 c).
Proof.
  intros Hb Hr. unfold eat_cont_any_char.
  destruct (@decode_no_panic lex_error b0 (rest c) Hb Hr) as [k [oc [D Hk]]].
  rewrite D. cbn [obind good fst].
  exists (firstn k (rest c)). split; cbn [rest pos].
  - symmetry. apply firstn_skipn.
  - rewrite firstn_length_le by exact Hk. reflexivity.
Qed.

Lemma good_eat_any_char c : bytes_ok (rest c) ->
  good (fun r : option (cur * option N) =>
          match r with None => rest c = [] | Some p => sext c (fst p) end) (eat_any_char c).
Proof.
  intros Hr. unfold eat_any_char. destruct (eat_any_byte c) as [[b0 c1]|] eqn:B.
  - pose proof (eat_any_byte_ext _ _ _ B) as E1.
    assert (Hb : b0 < 256 /\ bytes_ok (rest c1)).
    { destruct E1 as [H _]. rewrite H in Hr. inversion Hr; subst. split; assumption. }
    eapply good_bind; [apply good_eat_cont_any_char; tauto|].
    intros [c2 oc] Hp. cbn [fst] in Hp. cbn [good fst].
    eapply sext_ext_trans; [|exact Hp]. eapply ext_by_sext; [|exact E1]. discriminate.
  - cbn. apply eat_any_byte_none, B.
Qed.

(* ---- quoted strings ---- *)
Lemma eat_codeunit_ext c : ext c (snd (eat_codeunit c)) /\
  (forall cu, fst (eat_codeunit c) = Some cu -> pos (snd (eat_codeunit c)) = pos c + 4).
Proof.
  unfold eat_codeunit.
  destruct (eat_map_byte hex_from_digit c) as [[d0 c1]|] eqn:M0; cbn [fst snd];
    [|split; [apply ext_refl|discriminate]].
  apply eat_map_byte_ext in M0 as [x0 [_ E0]].
  destruct (eat_map_byte hex_from_digit c1) as [[d1 c2]|] eqn:M1; cbn [fst snd];
    [|split; [exists [x0]; exact E0|discriminate]].
  apply eat_map_byte_ext in M1 as [x1 [_ E1]].
  pose proof (ext_by_trans _ _ _ _ _ E0 E1) as E01.
  destruct (eat_map_byte hex_from_digit c2) as [[d2 c3]|] eqn:M2; cbn [fst snd];
    [|split; [eexists; exact E01|discriminate]].
  apply eat_map_byte_ext in M2 as [x2 [_ E2]].
  pose proof (ext_by_trans _ _ _ _ _ E01 E2) as E012.
  destruct (eat_map_byte hex_from_digit c3) as [[d3 c4]|] eqn:M3; cbn [fst snd];
    [|split; [eexists; exact E012|discriminate]].
  apply eat_map_byte_ext in M3 as [x3 [_ E3]].
  pose proof (ext_by_trans _ _ _ _ _ E012 E3) as E0123.
  split; [eexists; exact E0123|]. intros cu _. destruct E0123 as [_ P]. cbn in P. lia.
Qed.

Lemma good_escape start c1 : wfc len c1 -> bytes_ok (rest c1) -> start <= pos c1 -> 1 <= pos c1 ->
  good (fun p : N * cur => ext c1 (snd p)) (lex_escape len start c1).
Proof.
  intros W B S P1. unfold lex_escape. rewrite usub_ok by lia. cbn [obind].
  pose proof (wfc_pos_le _ _ W) as PL.
  destruct (eat_map_byte (fun b => assoc_byte b escape_table) c1) as [[ch c2]|] eqn:M.
  { apply eat_map_byte_ext in M as [x [_ E]]. cbn [good snd]. exists [x]. exact E. }
  destruct (eat_byte 117 c1) as [c2|] eqn:U.
  { apply eat_byte_ext in U. pose proof (ext_by_ext _ _ _ U) as E2.
    destruct (eat_codeunit_ext c2) as [E3 P3].
    destruct (eat_codeunit c2) as [[cu1|] c3]; cbn [fst snd] in *.
    2:{ pose proof (ext_trans _ _ _ E2 E3) as E13. pose proof (ext_pos _ _ E13).
        pose proof (wfc_pos_le _ _ (ext_wfc _ _ _ E13 W)). apply good_fail; lia. }
    pose proof (ext_trans _ _ _ E2 E3) as E13.
    specialize (P3 cu1 eq_refl).
    assert (P13 : pos c3 = pos c1 + 5) by (destruct U as [_ PU]; cbn in PU; lia).
    destruct (if is_surrogate cu1 then eat_slice [92; 117] c3 else None) as [c4|] eqn:SL.
    - assert (E4 : ext_by [92; 117] c3 c4).
      { destruct (is_surrogate cu1); [|discriminate]. apply eat_slice_ext, SL. }
      pose proof (ext_trans _ _ _ E13 (ext_by_ext _ _ _ E4)) as E14.
      destruct (eat_codeunit_ext c4) as [E5 P5].
      destruct (eat_codeunit c4) as [[cu2|] c5]; cbn [fst snd] in *.
      + pose proof (ext_trans _ _ _ E14 E5) as E15.
        destruct (decode_utf16_pair cu1 cu2); [exact E15|].
        pose proof (ext_pos _ _ E15). pose proof (wfc_pos_le _ _ (ext_wfc _ _ _ E15 W)).
        apply good_fail; lia.
      + pose proof (ext_trans _ _ _ E14 E5) as E15.
        pose proof (ext_pos _ _ E5). pose proof (wfc_pos_le _ _ (ext_wfc _ _ _ E15 W)).
        destruct E4 as [_ P4]. cbn in P4. apply good_fail; lia.
    - destruct (is_scalar cu1); [exact E13|].
      pose proof (wfc_pos_le _ _ (ext_wfc _ _ _ E13 W)). apply good_fail; lia. }
  eapply good_bind; [apply good_eat_any_char, B|].
  intros [[c2 oc]|] Hp; cbn [fst] in Hp.
  - pose proof (sext_ext _ _ Hp) as E2. pose proof (ext_pos _ _ E2).
    pose proof (wfc_pos_le _ _ (ext_wfc _ _ _ E2 W)). apply good_fail; lia.
  - apply good_fail; lia.
Qed.

Lemma good_quoted_loop start delim : forall fuel c,
  (length (rest c) < fuel)%nat -> wfc len c -> bytes_ok (rest c) -> start <= pos c ->
  good (fun p : list N * cur => sext c (snd p)) (quoted_loop len fuel start delim c).
Proof.
  induction fuel as [|f IH]; intros c F W B S; [lia|]. cbn [quoted_loop].
  pose proof (wfc_pos_le _ _ W) as PL.
  destruct (eat_byte delim c) as [c1|] eqn:D.
  { apply eat_byte_ext in D. cbn [good snd]. eapply ext_by_sext; [|exact D]. discriminate. }
  destruct (eat_byte 92 c) as [c1|] eqn:BS.
  { apply eat_byte_ext in BS. assert (S1 : sext c c1) by (eapply ext_by_sext; [|exact BS]; discriminate).
    pose proof (sext_ext _ _ S1) as E1. pose proof (sext_pos _ _ S1).
    eapply good_bind; [apply (good_escape start c1); [apply (ext_wfc _ _ _ E1 W)|apply (ext_bytes _ _ E1 B)|lia|lia]|].
    intros [ch c2] E2. cbn [snd] in E2.
    pose proof (sext_ext_trans _ _ _ S1 E2) as S2.
    eapply good_bind.
    - apply (IH c2); [pose proof (sext_len _ _ S2); lia|apply (ext_wfc _ _ _ (sext_ext _ _ S2) W)
                      |apply (ext_bytes _ _ (sext_ext _ _ S2) B)|pose proof (sext_pos _ _ S2); lia].
    - intros [s c3] S3. cbn [snd good] in *. eapply sext_ext_trans; [exact S2|apply sext_ext, S3]. }
  eapply good_bind; [apply good_eat_any_char, B|].
  intros [[c1 oc]|] Hp; cbn [fst] in Hp.
  - eapply good_bind.
    + apply (IH c1); [pose proof (sext_len _ _ Hp); lia|apply (ext_wfc _ _ _ (sext_ext _ _ Hp) W)
                      |apply (ext_bytes _ _ (sext_ext _ _ Hp) B)|pose proof (sext_pos _ _ Hp); lia].
    + intros [s c3] S3. cbn [snd good] in *. eapply sext_ext_trans; [exact Hp|apply sext_ext, S3].
  - apply good_fail; lia.
Qed.

Lemma good_quoted_string start delim c0 c : ext c0 c -> start <= pos c0 -> wfc len c0 ->
  bytes_ok (rest c0) ->
  good (tok_post start c0) (lex_quoted_string len start delim c).
Proof.
  intros E S W B. unfold lex_quoted_string.
  eapply good_bind.
  - apply good_quoted_loop; [lia|apply (ext_wfc _ _ _ E W)|apply (ext_bytes _ _ E B)|pose proof (ext_pos _ _ E); lia].
  - intros [s c'] S'. cbn [snd] in S'. apply good_commit; try assumption; [reflexivity|].
    eapply ext_trans; [exact E|apply sext_ext, S'].
Qed.

(* ---- verbatim strings ---- *)
Lemma good_verbatim_loop start delim : forall fuel c,
  (length (rest c) < fuel)%nat -> wfc len c -> bytes_ok (rest c) -> start <= pos c ->
  good (fun p : list N * cur => sext c (snd p)) (verbatim_loop len fuel start delim c).
Proof.
  induction fuel as [|f IH]; intros c F W B S; [lia|]. cbn [verbatim_loop].
  pose proof (wfc_pos_le _ _ W) as PL.
  destruct (eat_byte delim c) as [c1|] eqn:D.
  { apply eat_byte_ext in D. assert (S1 : sext c c1) by (eapply ext_by_sext; [|exact D]; discriminate).
    destruct (eat_byte delim c1) as [c2|] eqn:D2; [|exact S1].
    apply eat_byte_ext in D2.
    pose proof (sext_ext_trans _ _ _ S1 (ext_by_ext _ _ _ D2)) as S2.
    eapply good_bind.
    - apply (IH c2); [pose proof (sext_len _ _ S2); lia|apply (ext_wfc _ _ _ (sext_ext _ _ S2) W)
                      |apply (ext_bytes _ _ (sext_ext _ _ S2) B)|pose proof (sext_pos _ _ S2); lia].
    - intros [s c3] S3. cbn [snd good] in *. eapply sext_ext_trans; [exact S2|apply sext_ext, S3]. }
  eapply good_bind; [apply good_eat_any_char, B|].
  intros [[c1 oc]|] Hp; cbn [fst] in Hp.
  - eapply good_bind.
    + apply (IH c1); [pose proof (sext_len _ _ Hp); lia|apply (ext_wfc _ _ _ (sext_ext _ _ Hp) W)
                      |apply (ext_bytes _ _ (sext_ext _ _ Hp) B)|pose proof (sext_pos _ _ Hp); lia].
    + intros [s c3] S3. cbn [snd good] in *. eapply sext_ext_trans; [exact Hp|apply sext_ext, S3].
  - apply good_fail; lia.
Qed.

Lemma good_verbatim_string start delim c0 c : ext c0 c -> start <= pos c0 -> wfc len c0 ->
  bytes_ok (rest c0) ->
  good (tok_post start c0) (lex_verbatim_string len start delim c).
Proof.
  intros E S W B. unfold lex_verbatim_string.
  eapply good_bind.
  - apply good_verbatim_loop; [lia|apply (ext_wfc _ _ _ E W)|apply (ext_bytes _ _ E B)|pose proof (ext_pos _ _ E); lia].
  - intros [s c'] S'. cbn [snd] in S'. apply good_commit; try assumption; [reflexivity|].
    eapply ext_trans; [exact E|apply sext_ext, S'].
Qed.

(* ---- text blocks ---- *)
Definition ends_lf (s : list N) : Prop := exists s', s = s' ++ [10].

Lemma ends_lf_cons x s : ends_lf s -> ends_lf (x :: s).
Proof. intros [s' ->]. exists (x :: s'). reflexivity. Qed.

Lemma ends_lf_app a s : ends_lf s -> ends_lf (a ++ s).
Proof. intros [s' ->]. exists (a ++ s'). rewrite app_assoc. reflexivity. Qed.

Lemma strip_last_lf_ok s : ends_lf s -> exists s', s = s' ++ [10] /\ strip_last_lf s = Ok s'.
Proof.
  intros [s' ->]. exists s'. split; [reflexivity|].
  unfold strip_last_lf. rewrite rev_app_distr. cbn [rev app]. rewrite rev_involutive. reflexivity.
Qed.

Lemma tb_blank_lines_spec : forall r ps,
  ext {| pos := ps; rest := r |} (snd (tb_blank_lines ps r)) /\
  (fst (tb_blank_lines ps r) = [] \/ ends_lf (fst (tb_blank_lines ps r))).
Proof.
  fix IH 1. intros r ps. destruct r as [|b r]; [cbn; split; [apply ext_refl|left; reflexivity]|].
  cbn [tb_blank_lines].
  destruct (N.eq_dec b 10) as [->|N10].
  - specialize (IH r (ps + 1)). destruct (tb_blank_lines (ps + 1) r) as [s c]. cbn [fst snd] in *.
    destruct IH as [E H]. split.
    + eapply ext_trans; [apply ext_step|exact E].
    + right. destruct H as [->|H]; [exists []; reflexivity|apply ends_lf_cons, H].
  - destruct (N.eq_dec b 13) as [->|N13].
    + destruct r as [|b' r'']; [cbn; split; [apply ext_refl|left; reflexivity]|].
      destruct (N.eq_dec b' 10) as [->|N10'].
      * specialize (IH r'' (ps + 2)). destruct (tb_blank_lines (ps + 2) r'') as [s c]. cbn [fst snd] in *.
        destruct IH as [E H]. split.
        -- eapply ext_trans; [|exact E]. exists [13; 10]. split; cbn; [reflexivity|lia].
        -- right. destruct H as [->|H]; [exists [13]; reflexivity|apply ends_lf_cons, ends_lf_cons, H].
      * replace (match b' with 10 => _ | _ => _ end) with (@nil N, {| pos := ps; rest := 13 :: b' :: r'' |}).
        -- cbn. split; [apply ext_refl|left; reflexivity].
        -- destruct b' as [|p]; [reflexivity|]. do 4 (destruct p; try reflexivity). congruence.
    + match goal with |- context[match b with _ => _ end] =>
        replace (match b with 10 => _ | 13 => _ | _ => _ end) with (@nil N, {| pos := ps; rest := b :: r |}) end.
      * cbn. split; [apply ext_refl|left; reflexivity].
      * destruct b as [|p]; [reflexivity|]. do 4 (destruct p; try reflexivity); congruence.
Qed.

Lemma good_tb_first_loop : forall fuel c,
  (length (rest c) < fuel)%nat -> wfc len c ->
  good (fun p : list N * list N * cur => ext c (snd p)) (tb_first_loop len fuel c).
Proof.
  induction fuel as [|f IH]; intros c F W; [lia|]. cbn [tb_first_loop].
  destruct (eat_while_ext is_blank c) as [l [_ E1]].
  rewrite (bytes_between_ext l _ _ E1).
  set (c1 := eat_while is_blank c) in *.
  assert (E2 : ext c1 (snd (match eat_byte 13 c1 with Some c2 => ([13], c2) | None => ([], c1) end))).
  { destruct (eat_byte 13 c1) as [c2|] eqn:R; cbn [snd]; [|apply ext_refl].
    apply eat_byte_ext in R. exists [13]. exact R. }
  destruct (match eat_byte 13 c1 with Some c2 => ([13], c2) | None => ([], c1) end) as [cr c2].
  cbn [snd] in E2.
  pose proof (ext_trans _ _ _ (ext_by_ext _ _ _ E1) E2) as E02.
  destruct l as [|x l].
  - destruct (eat_byte 10 c2) as [c3|] eqn:LF.
    + apply eat_byte_ext in LF.
      assert (S3 : sext c c3) by (eapply ext_sext_trans; [exact E02|]; eapply ext_by_sext; [|exact LF]; discriminate).
      eapply good_bind.
      * apply (IH c3); [pose proof (sext_len _ _ S3); lia|apply (ext_wfc _ _ _ (sext_ext _ _ S3) W)].
      * intros [[s p] c4] E4. cbn [snd good] in *. eapply ext_trans; [apply sext_ext, S3|exact E4].
    + pose proof (ext_pos _ _ (ext_by_ext _ _ _ E1)).
      pose proof (wfc_pos_le _ _ (ext_wfc _ _ _ (ext_by_ext _ _ _ E1) W)). apply good_fail; lia.
  - cbn [good snd]. exact E02.
Qed.

Lemma good_tb_body_loop start prefix : forall fuel c,
  (length (rest c) < fuel)%nat -> wfc len c -> bytes_ok (rest c) -> start <= pos c ->
  good (fun p : list N * cur => sext c (snd p) /\ ends_lf (fst p)) (tb_body_loop len fuel start prefix c).
Proof.
  induction fuel as [|f IH]; intros c F W B S; [lia|]. cbn [tb_body_loop].
  pose proof (wfc_pos_le _ _ W) as PL.
  destruct (eat_byte 10 c) as [c1|] eqn:LF.
  { apply eat_byte_ext in LF. assert (S1 : sext c c1) by (eapply ext_by_sext; [|exact LF]; discriminate).
    destruct (tb_blank_lines_spec (rest c1) (pos c1)) as [E2 HB].
    destruct (tb_blank_lines (pos c1) (rest c1)) as [blank c2]. cbn [fst snd] in *.
    assert (S2 : sext c c2) by (eapply sext_ext_trans; [exact S1|]; destruct c1; exact E2).
    assert (HL : ends_lf (10 :: blank)).
    { destruct HB as [->|HB]; [exists []; reflexivity|apply ends_lf_cons, HB]. }
    destruct (eat_slice prefix c2) as [c3|] eqn:PF.
    - apply eat_slice_ext in PF.
      pose proof (sext_ext_trans _ _ _ S2 (ext_by_ext _ _ _ PF)) as S3.
      eapply good_bind.
      + apply (IH c3); [pose proof (sext_len _ _ S3); lia|apply (ext_wfc _ _ _ (sext_ext _ _ S3) W)
                        |apply (ext_bytes _ _ (sext_ext _ _ S3) B)|pose proof (sext_pos _ _ S3); lia].
      + intros [s c4] [S4 L4]. cbn [fst snd good] in *. split.
        * eapply sext_ext_trans; [exact S3|apply sext_ext, S4].
        * apply ends_lf_cons, ends_lf_app, L4.
    - destruct (eat_while_ext is_blank c2) as [l [_ E3]].
      set (c3 := eat_while is_blank c2) in *.
      pose proof (sext_ext_trans _ _ _ S2 (ext_by_ext _ _ _ E3)) as S3.
      destruct (eat_slice [124; 124; 124] c3) as [c4|] eqn:T.
      + apply eat_slice_ext in T. cbn [good fst snd]. split; [|exact HL].
        eapply sext_ext_trans; [exact S3|exists [124; 124; 124]; exact T].
      + pose proof (ext_pos _ _ (ext_by_ext _ _ _ E3)).
        pose proof (wfc_pos_le _ _ (ext_wfc _ _ _ (sext_ext _ _ S3) W)). apply good_fail; lia. }
  eapply good_bind; [apply good_eat_any_char, B|].
  intros [[c1 oc]|] Hp; cbn [fst] in Hp.
  - eapply good_bind.
    + apply (IH c1); [pose proof (sext_len _ _ Hp); lia|apply (ext_wfc _ _ _ (sext_ext _ _ Hp) W)
                      |apply (ext_bytes _ _ (sext_ext _ _ Hp) B)|pose proof (sext_pos _ _ Hp); lia].
    + intros [s c3] [S3 L3]. cbn [fst snd good] in *. split.
      * eapply sext_ext_trans; [exact Hp|apply sext_ext, S3].
      * apply ends_lf_cons, L3.
  - apply good_fail; lia.
Qed.

Lemma good_text_block start c0 c : ext c0 c -> start <= pos c0 -> wfc len c0 -> bytes_ok (rest c0) ->
  good (tok_post start c0) (lex_text_block len start c).
Proof.
  intros E S W B. unfold lex_text_block.
  assert (E1 : ext c (snd (match eat_byte 45 c with Some c1 => (true, c1) | None => (false, c) end))).
  { destruct (eat_byte 45 c) as [c1|] eqn:R; cbn [snd]; [|apply ext_refl].
    apply eat_byte_ext in R. exists [45]. exact R. }
  destruct (match eat_byte 45 c with Some c1 => (true, c1) | None => (false, c) end) as [strip c1].
  cbn [snd] in E1.
  destruct (eat_while_ext is_blank_cr c1) as [l [_ E2]].
  set (c2 := eat_while is_blank_cr c1) in *.
  pose proof (ext_trans _ _ _ E (ext_trans _ _ _ E1 (ext_by_ext _ _ _ E2))) as E02.
  pose proof (ext_pos _ _ E02). pose proof (wfc_pos_le _ _ (ext_wfc _ _ _ E02 W)).
  destruct (eat_byte 10 c2) as [c3|] eqn:LF; [|apply good_fail; lia].
  apply eat_byte_ext in LF. pose proof (ext_trans _ _ _ E02 (ext_by_ext _ _ _ LF)) as E03.
  eapply good_bind; [apply good_tb_first_loop; [lia|apply (ext_wfc _ _ _ E03 W)]|].
  intros [[s1 prefix] c4] E4. cbn [snd] in E4.
  pose proof (ext_trans _ _ _ E03 E4) as E04.
  eapply good_bind.
  - apply good_tb_body_loop; [lia|apply (ext_wfc _ _ _ E04 W)|apply (ext_bytes _ _ E04 B)
                              |pose proof (ext_pos _ _ E04); lia].
  - intros [s2 c5] [S5 L5]. cbn [fst snd] in *.
    pose proof (ext_trans _ _ _ E04 (sext_ext _ _ S5)) as E05.
    destruct strip.
    + destruct (strip_last_lf_ok (s1 ++ s2) (ends_lf_app _ _ L5)) as [s' [_ ->]]. cbn [obind].
      apply good_commit; try assumption; reflexivity.
    + cbn [obind]. apply good_commit; try assumption; reflexivity.
Qed.

(* ---- next_token ---- *)
Definition next_post (c : cur) (p : token * cur) : Prop :=
  tok_span (fst p) = (pos c, pos (snd p)) /\
  (if is_eof (tok_kind (fst p)) then rest c = [] /\ snd p = c else sext c (snd p)).

Lemma tok_post_next c c1 p : sext c c1 -> tok_post (pos c) c1 p -> next_post c p.
Proof.
  intros S [E [Sp K]]. split; [exact Sp|]. rewrite K. eapply sext_ext_trans; eassumption.
Qed.

Lemma ident_start_ascii b : is_ident_start b = true -> b < 128.
Proof.
  unfold is_ident_start, in_range. rewrite !orb_true_iff, !andb_true_iff, !N.leb_le, N.eqb_eq. lia.
Qed.

Lemma good_next_token c : wfc len c -> bytes_ok (rest c) -> good (next_post c) (next_token len c).
Proof.
  intros W B. unfold next_token. pose proof (wfc_pos_le _ _ W) as PL.
  destruct (eat_any_byte c) as [[b c1]|] eqn:AB.
  2:{ rewrite commit_ok by lia. cbn. split; [reflexivity|]. split; [apply eat_any_byte_none, AB|reflexivity]. }
  pose proof (eat_any_byte_ext _ _ _ AB) as EB.
  assert (S1 : sext c c1) by (eapply ext_by_sext; [|exact EB]; discriminate).
  pose proof (sext_pos _ _ S1) as P1. pose proof (sext_ext _ _ S1) as E1.
  pose proof (ext_wfc _ _ _ E1 W) as W1. pose proof (ext_bytes _ _ E1 B) as B1.
  assert (Hb : b < 256).
  { destruct EB as [H _]. rewrite H in B. inversion B; assumption. }
  assert (TP : forall r, good (tok_post (pos c) c1) r -> good (next_post c) r).
  { intros r G. eapply good_mono; [exact G|]. intros p. apply tok_post_next, S1. }
  destruct (assoc_byte b single_table).
  { apply TP, good_commit; [reflexivity|apply ext_refl|lia|exact W1]. }
  destruct (N.eqb_spec b 47) as [->|N47].
  { destruct (eat_byte 47 c1) as [c2|] eqn:S2.
    { apply eat_byte_ext, ext_by_ext in S2. apply TP, good_single_line_comment; [exact S2|lia|exact W1]. }
    destruct (eat_byte 42 c1) as [c2|] eqn:S3.
    { apply eat_byte_ext, ext_by_ext in S3. apply TP, good_multi_line_comment; [exact S3|lia|exact W1]. }
    apply TP, good_operator; [apply ext_refl|lia|exact W1|lia]. }
  destruct (N.eqb_spec b 124) as [->|N124].
  { destruct (eat_slice [124; 124] c1) as [c2|] eqn:S2.
    { apply eat_slice_ext, ext_by_ext in S2. apply TP, good_text_block; [exact S2|lia|exact W1|exact B1]. }
    apply TP, good_operator; [apply ext_refl|lia|exact W1|lia]. }
  destruct (mem_byte b op_start_bytes) eqn:OS.
  { apply TP, good_operator; [apply ext_refl|lia|exact W1|].
    apply mem_byte_in in OS. exact (all_lt_128 op_start_bytes eq_refl b OS). }
  destruct (is_ws b).
  { apply TP, good_commit; [reflexivity| |lia|exact W1].
    destruct (eat_while_ext is_ws c1) as [l [_ E]]. exists l. exact E. }
  destruct (N.eqb_spec b 35) as [->|N35].
  { apply TP, good_single_line_comment; [apply ext_refl|lia|exact W1]. }
  destruct (is_digit b) eqn:DG.
  { apply TP, good_number; [apply ext_refl|lia|exact W1|lia|exact DG]. }
  destruct (is_ident_start b) eqn:IS.
  { apply TP, good_ident; [apply ext_refl|lia|exact W1|apply ident_start_ascii, IS]. }
  destruct (N.eqb_spec b 64) as [->|N64].
  { destruct (eat_byte 39 c1) as [c2|] eqn:Q1.
    { apply eat_byte_ext, ext_by_ext in Q1. apply TP, good_verbatim_string; [exact Q1|lia|exact W1|exact B1]. }
    destruct (eat_byte 34 c1) as [c2|] eqn:Q2.
    { apply eat_byte_ext, ext_by_ext in Q2. apply TP, good_verbatim_string; [exact Q2|lia|exact W1|exact B1]. }
    pose proof (wfc_pos_le _ _ W1). apply good_fail; lia. }
  destruct (N.eqb_spec b 39) as [->|N39].
  { apply TP, good_quoted_string; [apply ext_refl|lia|exact W1|exact B1]. }
  destruct (N.eqb_spec b 34) as [->|N34].
  { apply TP, good_quoted_string; [apply ext_refl|lia|exact W1|exact B1]. }
  eapply good_bind; [apply good_eat_cont_any_char; [exact Hb|exact B1]|].
  intros [c2 oc] E2. cbn [fst] in E2.
  pose proof (ext_pos _ _ E2). pose proof (wfc_pos_le _ _ (ext_wfc _ _ _ E2 W1)).
  destruct oc; apply good_fail; lia.
Qed.

(* ---- the token loop ---- *)
(* token spans from [at]: contiguous, non-empty, not EOF, until one EOF token at (len, len) *)
Fixpoint tiles_from (at_ : N) (toks : list token) : Prop :=
  match toks with
  | [] => False
  | t :: ts =>
      if is_eof (tok_kind t) then ts = [] /\ tok_span t = (len, len) /\ at_ = len
      else exists e, tok_span t = (at_, e) /\ at_ < e /\ tiles_from e ts
  end.

Lemma good_lex_loop : forall fuel c,
  (length (rest c) < fuel)%nat -> wfc len c -> bytes_ok (rest c) ->
  good (tiles_from (pos c)) (lex_loop len fuel true c).
Proof.
  induction fuel as [|f IH]; intros c F W B; [lia|]. cbn [lex_loop].
  eapply good_bind; [apply good_next_token; assumption|].
  intros [t c'] [Sp K]. cbn [fst snd] in *.
  destruct (is_eof (tok_kind t)) eqn:EO.
  - destruct K as [R ->]. cbn [good tiles_from]. rewrite EO.
    assert (pos c = len) by (unfold wfc in W; rewrite R in W; cbn in W; lia).
    split; [reflexivity|]. split; [rewrite Sp; congruence|assumption].
  - eapply good_bind.
    + apply (IH c'); [pose proof (sext_len _ _ K); lia|apply (ext_wfc _ _ _ (sext_ext _ _ K) W)
                      |apply (ext_bytes _ _ (sext_ext _ _ K) B)].
    + intros ts T. cbn [orb good tiles_from]. rewrite EO. exists (pos c').
      split; [exact Sp|]. split; [apply sext_pos, K|exact T].
Qed.

End Specs.

(* ------------------------------------------------------------------ *)
(* headline statements                                                 *)

Definition input_len (input : list N) : N := N.of_nat (length input).

Theorem lex_all_good input : bytes_ok input ->
  good (input_len input) (tiles_from (input_len input) 0) (lex_all true input).
Proof.
  intros B. unfold lex_all.
  apply (good_lex_loop (input_len input) (S (length input)) {| pos := 0; rest := input |});
    cbn [rest pos]; [lia|unfold wfc, input_len; cbn; lia|exact B].
Qed.

(* spans (a0,a1) (a1,a2) ... from a to b *)
Inductive tiles : N -> N -> list span -> Prop :=
| tiles_nil a : tiles a a []
| tiles_cons a m b l : a <= m -> tiles m b l -> tiles a b ((a, m) :: l).

Definition eof_at (n : N) : token := {| tok_span := (n, n); tok_kind := TEndOfFile |}.
Definition nonempty (s : span) : Prop := fst s < snd s.

Lemma is_eof_inv k : is_eof k = true -> k = TEndOfFile.
Proof. destruct k; simpl; congruence. Qed.

Lemma tiles_from_shape len : forall toks at_, tiles_from len at_ toks ->
  tiles at_ len (map tok_span toks ++ []) /\
  exists pre, toks = pre ++ [eof_at len] /\
              Forall (fun t => is_eof (tok_kind t) = false /\ nonempty (tok_span t)) pre.
Proof.
  induction toks as [|t ts IH]; intros at_ H; cbn [tiles_from] in H; [contradiction|].
  destruct (is_eof (tok_kind t)) eqn:EO.
  - destruct H as [-> [Sp ->]]. split.
    + cbn. rewrite Sp. apply tiles_cons; [lia|apply tiles_nil].
    + exists []. split; [|constructor]. destruct t as [sp k]. cbn in *. apply is_eof_inv in EO. subst. reflexivity.
  - destruct H as [e [Sp [Lt T]]]. destruct (IH e T) as [T1 [pre [-> F]]]. split.
    + cbn [map app]. rewrite Sp. apply tiles_cons; [lia|exact T1].
    + exists (t :: pre). split; [reflexivity|]. constructor; [|exact F].
      split; [exact EO|]. unfold nonempty. rewrite Sp. exact Lt.
Qed.

Theorem lex_tiles input toks : bytes_ok input -> lex_all true input = Ok toks ->
  tiles 0 (input_len input) (map tok_span toks) /\
  exists pre, toks = pre ++ [eof_at (input_len input)] /\
              Forall (fun t => is_eof (tok_kind t) = false /\ nonempty (tok_span t)) pre.
Proof.
  intros B H. pose proof (lex_all_good input B) as G. rewrite H in G. cbn in G.
  destruct (tiles_from_shape _ _ _ G) as [T R]. rewrite app_nil_r in T. split; assumption.
Qed.

Lemma lex_all_false_true input :
  match lex_all false input with
  | Ok _ => exists toks, lex_all true input = Ok toks
  | Err e => lex_all true input = Err e
  | Panic s => lex_all true input = Panic s
  | OutOfFuel => lex_all true input = OutOfFuel
  end.
Proof.
  rewrite lex_filter. destruct (lex_all true input); cbn; eauto.
Qed.

Theorem lex_error_located keep input e : bytes_ok input -> lex_all keep input = Err e ->
  located (input_len input) e.
Proof.
  intros B H. pose proof (lex_all_good input B) as G.
  destruct keep.
  - rewrite H in G. exact G.
  - pose proof (lex_all_false_true input) as FT. rewrite H in FT. rewrite FT in G. exact G.
Qed.

Theorem fuel_sufficient keep input : bytes_ok input -> lex_all keep input <> OutOfFuel.
Proof.
  intros B H. pose proof (lex_all_good input B) as G.
  destruct keep.
  - rewrite H in G. exact G.
  - pose proof (lex_all_false_true input) as FT. rewrite H in FT. rewrite FT in G. exact G.
Qed.

Theorem lex_no_panic keep input site : bytes_ok input -> lex_all keep input <> Panic site.
Proof.
  intros B H. pose proof (lex_all_good input B) as G.
  destruct keep.
  - rewrite H in G. exact G.
  - pose proof (lex_all_false_true input) as FT. rewrite H in FT. rewrite FT in G. exact G.
Qed.

(* every lexing run ends in exactly one of: a tiling token list, or one located error *)
Theorem lex_total keep input : bytes_ok input ->
  (exists toks, lex_all keep input = Ok toks) \/
  (exists e, lex_all keep input = Err e /\ located (input_len input) e).
Proof.
  intros B. destruct (lex_all keep input) as [toks|e|s|] eqn:H.
  - left. eauto.
  - right. exists e. split; [reflexivity|]. eapply lex_error_located; eassumption.
  - exfalso. eapply lex_no_panic; eassumption.
  - exfalso. eapply fuel_sufficient; eassumption.
Qed.
