(* Proofs/Lexer_proofs.v — lemmas about Model/Lexer.v. *)
From RJ Require Import Base.Outcome Model.Token Model.Utf8 Model.Lexer Proofs.Utf8_proofs.
From Coq Require Import Lia.
Local Open Scope N_scope.

(* ------------------------------------------------------------------ *)
(* lex_filter                                                          *)

Definition non_trivia (t : token) : bool := negb (is_trivia (tok_kind t)).

Lemma eof_not_trivia k : is_eof k = true -> is_trivia k = false.
Proof. destruct k; simpl; congruence. Qed.

Lemma lex_loop_filter len fuel c :
  lex_loop len fuel false c = omap (filter non_trivia) (lex_loop len fuel true c).
Proof.
  revert c. induction fuel as [|f IH]; intros c; [reflexivity|].
  cbn [lex_loop]. destruct (next_token len c) as [[t c']| | |]; cbn [obind omap]; try reflexivity.
  destruct (is_eof (tok_kind t)) eqn:He.
  - unfold omap; cbn [obind filter]. unfold non_trivia. rewrite (eof_not_trivia _ He). reflexivity.
  - rewrite IH. destruct (lex_loop len f true c') as [ts| | |]; unfold omap; cbn [obind]; reflexivity.
Qed.

Theorem lex_filter input :
  lex_all false input = omap (filter non_trivia) (lex_all true input).
Proof. apply lex_loop_filter. Qed.

(* ------------------------------------------------------------------ *)
(* cursors                                                             *)

(* c' is c moved forward over the bytes l *)
Definition ext_by (l : list N) (c c' : cur) : Prop :=
  rest c = l ++ rest c' /\ pos c' = pos c + N.of_nat (length l).
Definition ext (c c' : cur) : Prop := exists l, ext_by l c c'.
Definition sext (c c' : cur) : Prop := exists l, l <> [] /\ ext_by l c c'.

Definition wfc (len : N) (c : cur) : Prop := pos c + N.of_nat (length (rest c)) = len.

Lemma ext_refl c : ext c c.
Proof. exists []. split; [reflexivity|cbn; lia]. Qed.

Lemma ext_by_trans l1 l2 a b c : ext_by l1 a b -> ext_by l2 b c -> ext_by (l1 ++ l2) a c.
Proof.
  intros [H1 P1] [H2 P2]. split.
  - rewrite H1, H2, app_assoc. reflexivity.
  - rewrite P2, P1, app_length. lia.
Qed.

Lemma ext_trans a b c : ext a b -> ext b c -> ext a c.
Proof. intros [l1 H1] [l2 H2]. exists (l1 ++ l2). eapply ext_by_trans; eassumption. Qed.

Lemma sext_ext a b : sext a b -> ext a b.
Proof. intros [l [_ H]]. exists l. exact H. Qed.

Lemma sext_ext_trans a b c : sext a b -> ext b c -> sext a c.
Proof.
  intros [l1 [N1 H1]] [l2 H2]. exists (l1 ++ l2). split.
  - destruct l1; [congruence|discriminate].
  - eapply ext_by_trans; eassumption.
Qed.

Lemma ext_sext_trans a b c : ext a b -> sext b c -> sext a c.
Proof.
  intros [l1 H1] [l2 [N2 H2]]. exists (l1 ++ l2). split.
  - destruct l1; [exact N2|discriminate].
  - eapply ext_by_trans; eassumption.
Qed.

Lemma ext_wfc len a b : ext a b -> wfc len a -> wfc len b.
Proof. intros [l [H P]] W. unfold wfc in *. rewrite H, app_length in W. lia. Qed.

Lemma ext_pos a b : ext a b -> pos a <= pos b.
Proof. intros [l [_ P]]. lia. Qed.

Lemma sext_pos a b : sext a b -> pos a < pos b.
Proof. intros [l [Hn [_ P]]]. destruct l; [congruence|]. cbn [length] in P. lia. Qed.

Lemma ext_len a b : ext a b -> (length (rest b) <= length (rest a))%nat.
Proof. intros [l [H _]]. rewrite H, app_length. lia. Qed.

Lemma sext_len a b : sext a b -> (length (rest b) < length (rest a))%nat.
Proof. intros [l [Hn [H _]]]. rewrite H, app_length. destruct l; [congruence|cbn; lia]. Qed.

Lemma ext_bytes a b : ext a b -> bytes_ok (rest a) -> bytes_ok (rest b).
Proof. intros [l [H _]] B. rewrite H in B. apply Forall_app in B. tauto. Qed.

Lemma wfc_pos_le len c : wfc len c -> pos c <= len.
Proof. unfold wfc. lia. Qed.

(* ---- the eat_* helpers ---- *)
Lemma eat_any_byte_ext c b c' : eat_any_byte c = Some (b, c') -> ext_by [b] c c'.
Proof.
  unfold eat_any_byte. destruct (rest c) as [|x r] eqn:E; intros H; inversion H; subst.
  split; cbn; [exact E|lia].
Qed.

Lemma eat_any_byte_none c : eat_any_byte c = None -> rest c = [].
Proof. unfold eat_any_byte. destruct (rest c); [reflexivity|discriminate]. Qed.

Lemma eat_byte_if_ext p c c' : eat_byte_if p c = Some c' -> exists b, p b = true /\ ext_by [b] c c'.
Proof.
  unfold eat_byte_if. destruct (rest c) as [|x r] eqn:E; [discriminate|].
  destruct (p x) eqn:Hp; intros H; inversion H; subst. exists x. split; [exact Hp|].
  split; cbn; [exact E|lia].
Qed.

Lemma eat_byte_ext b c c' : eat_byte b c = Some c' -> ext_by [b] c c'.
Proof.
  intros H. apply eat_byte_if_ext in H as [x [Hx E]]. apply N.eqb_eq in Hx. subst. exact E.
Qed.

Lemma eat_map_byte_ext {R} (f : N -> option R) c x c' :
  eat_map_byte f c = Some (x, c') -> exists b, f b = Some x /\ ext_by [b] c c'.
Proof.
  unfold eat_map_byte. destruct (rest c) as [|y r] eqn:E; [discriminate|].
  destruct (f y) eqn:Hf; intros H; inversion H; subst. exists y. split; [exact Hf|].
  split; cbn; [exact E|lia].
Qed.

Lemma strip_prefix_app s : forall r r', strip_prefix s r = Some r' -> r = s ++ r'.
Proof.
  induction s as [|x s IH]; intros r r' H; cbn in *; [inversion H; reflexivity|].
  destruct r as [|y r]; [discriminate|]. destruct (N.eqb_spec x y); [|discriminate].
  subst. f_equal. apply IH, H.
Qed.

Lemma eat_slice_ext s c c' : eat_slice s c = Some c' -> ext_by s c c'.
Proof.
  unfold eat_slice. destruct (strip_prefix s (rest c)) as [r'|] eqn:E; intros H; inversion H; subst.
  split; cbn; [apply strip_prefix_app, E|reflexivity].
Qed.

Lemma eat_while_from_ext p : forall r ps,
  exists l, Forall (fun b => p b = true) l /\
            ext_by l {| pos := ps; rest := r |} (eat_while_from p ps r).
Proof.
  induction r as [|b r IH]; intros ps; cbn [eat_while_from].
  - exists []. split; [constructor|]. split; cbn; [reflexivity|lia].
  - destruct (p b) eqn:Hp.
    + destruct (IH (ps + 1)) as [l [Hl [H1 H2]]]. exists (b :: l). split; [constructor; assumption|].
      split; cbn [rest pos app length] in *; [f_equal; exact H1|lia].
    + exists []. split; [constructor|]. split; cbn; [reflexivity|lia].
Qed.

Lemma eat_while_ext p c : exists l, Forall (fun b => p b = true) l /\ ext_by l c (eat_while p c).
Proof. destruct c as [ps r]. apply eat_while_from_ext. Qed.

Lemma ext_by_ext l a b : ext_by l a b -> ext a b.
Proof. intros H. exists l. exact H. Qed.

Lemma ext_by_sext l a b : l <> [] -> ext_by l a b -> sext a b.
Proof. intros N H. exists l. split; assumption. Qed.

Lemma bytes_between_ext l a b : ext_by l a b -> bytes_between a b = l.
Proof.
  intros [H _]. unfold bytes_between. rewrite H, app_length.
  replace (length l + length (rest b) - length (rest b))%nat with (length l) by lia.
  apply firstn_app_exact || (rewrite firstn_app, firstn_all, Nat.sub_diag; cbn; apply app_nil_r).
Qed.

(* ------------------------------------------------------------------ *)
(* outcomes of the sub-lexers                                          *)
Section Specs.
Variable len : N.

Definition located (e : lex_error) : Prop :=
  fst (err_span e) <= snd (err_span e) /\ snd (err_span e) <= len.

(* Ok with a post-condition, or a located error; never a panic, never out of fuel *)
Definition good {A} (P : A -> Prop) (r : res A) : Prop :=
  match r with
  | Ok a => P a
  | Err e => located e
  | Panic _ => False
  | OutOfFuel => False
  end.

Lemma good_bind {A B} (Q : A -> Prop) (P : B -> Prop) (x : res A) (f : A -> res B) :
  good Q x -> (forall a, Q a -> good P (f a)) -> good P (obind x f).
Proof. destruct x; cbn; auto. Qed.

Lemma good_mono {A} (P Q : A -> Prop) (r : res A) :
  good P r -> (forall a, P a -> Q a) -> good Q r.
Proof. destruct r; cbn; auto. Qed.

Lemma make_span_ok s e : s <= e -> e <= len -> make_span len s e = Ok (s, e).
Proof.
  intros H1 H2. unfold make_span.
  replace (s <=? e) with true by (symmetry; apply N.leb_le; lia).
  replace (len <? s) with false by (symmetry; apply N.ltb_ge; lia).
  replace (len <? e) with false by (symmetry; apply N.ltb_ge; lia). reflexivity.
Qed.

Lemma good_fail {A} (P : A -> Prop) k s e : s <= e -> e <= len -> good P (fail len k s e).
Proof. intros H1 H2. unfold fail. rewrite make_span_ok by assumption. cbn. split; assumption. Qed.

Lemma usub_ok a b : b <= a -> usub a b = Ok (a - b).
Proof. intros H. unfold usub. replace (a <? b) with false by (symmetry; apply N.ltb_ge; lia). reflexivity. Qed.

Lemma commit_ok start c k : start <= pos c -> pos c <= len ->
  commit len start c k = Ok ({| tok_span := (start, pos c); tok_kind := k |}, c).
Proof. intros H1 H2. unfold commit. rewrite make_span_ok by assumption. reflexivity. Qed.

(* what a token scanner promises: the cursor moved forward from [c0] and the
   token spans from [start] to the new position *)
Definition tok_post (start : N) (c0 : cur) (p : token * cur) : Prop :=
  ext c0 (snd p) /\ tok_span (fst p) = (start, pos (snd p)) /\ is_eof (tok_kind (fst p)) = false.

Lemma good_commit start c0 c k : is_eof k = false -> ext c0 c -> start <= pos c0 -> wfc len c0 ->
  good (tok_post start c0) (commit len start c k).
Proof.
  intros K E S W. pose proof (ext_pos _ _ E). pose proof (wfc_pos_le _ _ (ext_wfc _ _ _ E W)).
  rewrite commit_ok by lia. cbn. split; [exact E|split; [reflexivity|exact K]].
Qed.

(* ---- comments ---- *)
Lemma line_comment_ext : forall r ps, ext {| pos := ps; rest := r |} (line_comment_from ps r).
Proof.
  induction r as [|b r IH]; intros ps; cbn [line_comment_from]; [apply ext_refl|].
  destruct (b =? 10).
  - exists [b]. split; cbn; [reflexivity|lia].
  - eapply ext_trans; [|apply IH]. exists [b]. split; cbn; [reflexivity|lia].
Qed.

Lemma good_single_line_comment start c0 c : ext c0 c -> start <= pos c0 -> wfc len c0 ->
  good (tok_post start c0) (lex_single_line_comment len start c).
Proof.
  intros E S W. unfold lex_single_line_comment. apply good_commit; try assumption; [reflexivity|].
  eapply ext_trans; [exact E|]. destruct c as [ps r]. apply line_comment_ext.
Qed.

Lemma block_comment_ext : forall r ps c', block_comment_from ps r = Some c' ->
  ext {| pos := ps; rest := r |} c'.
Proof.
  induction r as [|b r IH]; intros ps c' H; cbn [block_comment_from] in H; [discriminate|].
  destruct r as [|b' r'']; [discriminate|].
  destruct ((b =? 42) && (b' =? 47)).
  - inversion H; subst. exists [b; b']. split; cbn; [reflexivity|lia].
  - eapply ext_trans; [|apply (IH _ _ H)]. exists [b]. split; cbn; [reflexivity|lia].
Qed.

Lemma good_multi_line_comment start c0 c : ext c0 c -> start <= pos c0 -> wfc len c0 ->
  good (tok_post start c0) (lex_multi_line_comment len start c).
Proof.
  intros E S W. unfold lex_multi_line_comment.
  destruct (block_comment_from (pos c) (rest c)) as [c'|] eqn:B.
  - apply good_commit; try assumption; [reflexivity|]. eapply ext_trans; [exact E|].
    destruct c as [ps r]. apply block_comment_ext, B.
  - apply good_fail; [|lia]. pose proof (wfc_pos_le _ _ W). lia.
Qed.

(* ---- ASCII classes ---- *)
Lemma mem_byte_in b l : mem_byte b l = true -> In b l.
Proof.
  unfold mem_byte. rewrite existsb_exists. intros [x [Hx E]]. apply N.eqb_eq in E. subst. exact Hx.
Qed.

Lemma all_lt_128 l : forallb (fun x => x <? 128) l = true -> forall b, In b l -> b < 128.
Proof. rewrite forallb_forall. intros H b Hb. apply N.ltb_lt, H, Hb. Qed.

Lemma ascii_str_ok site bs : Forall (fun b => b < 128) bs -> ascii_str site bs = Ok bs.
Proof.
  intros H. unfold ascii_str.
  replace (forallb (fun b => b <? 128) bs) with true; [reflexivity|].
  symmetry. apply forallb_forall. intros x Hx. apply N.ltb_lt. rewrite Forall_forall in H. auto.
Qed.

(* ---- operators ---- *)
Definition ascii_bytes (l : list N) : Prop := Forall (fun b => b < 128) l.
Lemma ascii_cons b l : b < 128 -> ascii_bytes l -> ascii_bytes (b :: l).
Proof. intros H1 H2. constructor; assumption. Qed.
Lemma ascii_one b : b < 128 -> ascii_bytes [b].
Proof. intros H. constructor; [exact H|constructor]. Qed.

Definition is_op_byte (b : N) : bool := mem_byte b op_sure_bytes || mem_byte b op_unsure_bytes.

Lemma op_byte_ascii b : is_op_byte b = true -> b < 128.
Proof.
  unfold is_op_byte. rewrite orb_true_iff. intros [H|H]; apply mem_byte_in in H;
    revert b H; apply all_lt_128; reflexivity.
Qed.

Lemma op_loop_spec : forall r ps acc sp sr sacc,
  ext {| pos := sp; rest := sr |} {| pos := ps; rest := r |} ->
  Forall (fun b => b < 128) acc -> Forall (fun b => b < 128) sacc ->
  let '(c', racc) := op_loop r ps acc sp sr sacc in
  ext {| pos := sp; rest := sr |} c' /\ Forall (fun b => b < 128) racc.
Proof.
  induction r as [|b r IH]; intros ps acc sp sr sacc E A SA; cbn [op_loop].
  - destruct (op_forbidden_here []); split; try apply ext_refl; assumption.
  - destruct (op_forbidden_here (b :: r)); [split; [apply ext_refl|assumption]|].
    assert (Eb : ext {| pos := ps; rest := b :: r |} {| pos := ps + 1; rest := r |}).
    { exists [b]. split; cbn; [reflexivity|lia]. }
    destruct (mem_byte b op_sure_bytes) eqn:S1.
    + assert (Hb : b < 128) by (apply op_byte_ascii; unfold is_op_byte; rewrite S1; reflexivity).
      specialize (IH (ps + 1) (b :: acc) (ps + 1) r (b :: acc) (ext_refl _)
                     (ascii_cons b acc Hb A) (ascii_cons b acc Hb A)).
      destruct (op_loop r (ps + 1) (b :: acc) (ps + 1) r (b :: acc)) as [c' racc].
      destruct IH as [IH1 IH2]. split; [|exact IH2].
      eapply ext_trans; [exact E|]. eapply ext_trans; [exact Eb|exact IH1].
    + destruct (mem_byte b op_unsure_bytes) eqn:S2.
      * assert (Hb : b < 128) by (apply op_byte_ascii; unfold is_op_byte; rewrite S2; apply orb_true_r).
        apply IH; [|apply ascii_cons; assumption|assumption].
        eapply ext_trans; [exact E|exact Eb].
      * split; [apply ext_refl|assumption].
Qed.

Lemma good_operator start c0 b0 c : ext c0 c -> start <= pos c0 -> wfc len c0 -> b0 < 128 ->
  good (tok_post start c0) (lex_operator len start b0 c).
Proof.
  intros E S W Hb. unfold lex_operator.
  pose proof (op_loop_spec (rest c) (pos c) [b0] (pos c) (rest c) [b0] (ext_refl _)
                (ascii_one b0 Hb) (ascii_one b0 Hb)) as L.
  destruct (op_loop (rest c) (pos c) [b0] (pos c) (rest c) [b0]) as [c' racc].
  destruct L as [L1 L2].
  assert (E' : ext c0 c') by (eapply ext_trans; [exact E|]; destruct c; exact L1).
  destruct (assoc_bytes (rev racc) operator_table).
  - apply good_commit; try assumption; reflexivity.
  - rewrite ascii_str_ok by (apply Forall_rev; exact L2). cbn [obind]. apply good_commit; try assumption; reflexivity.
Qed.

(* ---- identifiers ---- *)
Lemma ident_cont_ascii b : is_ident_cont b = true -> b < 128.
Proof.
  unfold is_ident_cont, in_range. rewrite !orb_true_iff, !andb_true_iff, !N.leb_le, N.eqb_eq. lia.
Qed.

Lemma good_ident start c0 b0 c : ext c0 c -> start <= pos c0 -> wfc len c0 -> b0 < 128 ->
  good (tok_post start c0) (lex_ident len start b0 c).
Proof.
  intros E S W Hb. unfold lex_ident.
  destruct (eat_while_ext is_ident_cont c) as [l [Hl El]].
  rewrite (bytes_between_ext l _ _ El).
  assert (E' : ext c0 (eat_while is_ident_cont c)) by (eapply ext_trans; [exact E|exists l; exact El]).
  destruct (assoc_bytes (b0 :: l) keyword_table).
  - apply good_commit; try assumption; reflexivity.
  - rewrite ascii_str_ok.
    + cbn [obind]. apply good_commit; try assumption; reflexivity.
    + constructor; [exact Hb|]. eapply Forall_impl; [|exact Hl]. intros a Ha. apply ident_cont_ascii, Ha.
Qed.

(* ---- numbers ---- *)
Lemma ext_step ps b r : ext {| pos := ps; rest := b :: r |} {| pos := ps + 1; rest := r |}.
Proof. exists [b]. split; cbn; [reflexivity|lia]. Qed.

Lemma good_num_stop st a c : 1 <= pos c -> (st = NExpSign -> 2 <= pos c) -> pos c <= len ->
  good (fun p : nacc * cur => snd p = c) (num_stop len st a c).
Proof.
  intros P1 P2 PL. unfold num_stop.
  destruct st as [[|]| |[|]| | |[|]]; cbn [good snd]; try reflexivity;
    try (rewrite usub_ok by lia; cbn [obind]; apply good_fail; lia).
  rewrite usub_ok by (specialize (P2 eq_refl); lia). cbn [obind]. apply good_fail; lia.
Qed.

Lemma good_num_loop lz : forall r ps st a,
  1 <= ps -> (st = NExpSign -> 2 <= ps) -> wfc len {| pos := ps; rest := r |} ->
  good (fun p : nacc * cur => ext {| pos := ps; rest := r |} (snd p)) (num_loop len lz r ps st a).
Proof.
  induction r as [|b r IH]; intros ps st a P1 P2 W; cbn [num_loop].
  - eapply good_mono; [apply good_num_stop; cbn [pos]; try assumption; apply (wfc_pos_le _ _ W)|].
    intros p Hp. rewrite Hp. apply ext_refl.
  - assert (PL : ps + 1 <= len) by (unfold wfc in W; cbn [pos rest length] in W; lia).
    destruct (num_step lz st a b) as [st' a'| |] eqn:St.
    + eapply good_mono.
      * apply IH; [lia| |].
        -- intros _. lia.
        -- unfold wfc in *. cbn [pos rest length] in *. lia.
      * intros p Hp. eapply ext_trans; [apply ext_step|exact Hp].
    + rewrite !usub_ok by lia. cbn [obind]. apply good_fail; lia.
    + eapply good_mono; [apply good_num_stop; cbn [pos]; try assumption; lia|].
      intros p Hp. rewrite Hp. apply ext_refl.
Qed.

Lemma good_number start c0 b0 c : ext c0 c -> start <= pos c0 -> wfc len c0 -> 1 <= pos c ->
  is_digit b0 = true ->
  good (tok_post start c0) (lex_number len start b0 c).
Proof.
  intros E S W PS D. unfold lex_number. rewrite D. cbn [negb].
  eapply good_bind.
  - apply (good_num_loop (b0 =? 48) (rest c) (pos c)); [lia|intros H; discriminate|].
    destruct c; apply (ext_wfc _ _ _ E W).
  - intros [a c'] Hp. cbn [snd] in Hp.
    assert (E' : ext c0 c') by (eapply ext_trans; [exact E|]; destruct c; exact Hp).
    destruct (eff_exp a).
    + apply good_commit; try assumption; reflexivity.
    + pose proof (ext_pos _ _ E'). pose proof (wfc_pos_le _ _ (ext_wfc _ _ _ E' W)).
      apply good_fail; lia.
Qed.

(* ---- characters ---- *)
Lemma good_eat_cont_any_char b0 c : b0 < 256 -> bytes_ok (rest c) ->
  good (fun p : cur * option N => ext c (fst p)) (eat_cont_any_char b0 c).
Proof.
  intros Hb Hr. unfold eat_cont_any_char.
  destruct (@decode_no_panic lex_error b0 (rest c) Hb Hr) as [k [oc [D Hk]]].
  rewrite D. cbn [obind good fst].
  exists (firstn k (rest c)). split; cbn [rest pos].
  - symmetry. apply firstn_skipn.
  - rewrite firstn_length_le by exact Hk. reflexivity.
Qed.

Lemma good_eat_any_char c : bytes_ok (rest c) ->
  good (fun r : option (cur * option N) =>
          match r with None => rest c = [] | Some p => sext c (fst p) end) (eat_any_char c).
Proof.
  intros Hr. unfold eat_any_char. destruct (eat_any_byte c) as [[b0 c1]|] eqn:B.
  - pose proof (eat_any_byte_ext _ _ _ B) as E1.
    assert (Hb : b0 < 256 /\ bytes_ok (rest c1)).
    { destruct E1 as [H _]. rewrite H in Hr. inversion Hr; subst. split; assumption. }
    eapply good_bind; [apply good_eat_cont_any_char; tauto|].
    intros [c2 oc] Hp. cbn [fst] in Hp. cbn [good fst].
    eapply sext_ext_trans; [|exact Hp]. eapply ext_by_sext; [|exact E1]. discriminate.
  - cbn. apply eat_any_byte_none, B.
Qed.

(* ---- quoted strings ---- *)
Lemma eat_codeunit_ext c : ext c (snd (eat_codeunit c)) /\
  (forall cu, fst (eat_codeunit c) = Some cu -> pos (snd (eat_codeunit c)) = pos c + 4).
Proof.
  unfold eat_codeunit.
  destruct (eat_map_byte hex_from_digit c) as [[d0 c1]|] eqn:M0; cbn [fst snd];
    [|split; [apply ext_refl|discriminate]].
  apply eat_map_byte_ext in M0 as [x0 [_ E0]].
  destruct (eat_map_byte hex_from_digit c1) as [[d1 c2]|] eqn:M1; cbn [fst snd];
    [|split; [exists [x0]; exact E0|discriminate]].
  apply eat_map_byte_ext in M1 as [x1 [_ E1]].
  pose proof (ext_by_trans _ _ _ _ _ E0 E1) as E01.
  destruct (eat_map_byte hex_from_digit c2) as [[d2 c3]|] eqn:M2; cbn [fst snd];
    [|split; [eexists; exact E01|discriminate]].
  apply eat_map_byte_ext in M2 as [x2 [_ E2]].
  pose proof (ext_by_trans _ _ _ _ _ E01 E2) as E012.
  destruct (eat_map_byte hex_from_digit c3) as [[d3 c4]|] eqn:M3; cbn [fst snd];
    [|split; [eexists; exact E012|discriminate]].
  apply eat_map_byte_ext in M3 as [x3 [_ E3]].
  pose proof (ext_by_trans _ _ _ _ _ E012 E3) as E0123.
  split; [eexists; exact E0123|]. intros cu _. destruct E0123 as [_ P]. cbn in P. lia.
Qed.

Lemma good_escape start c1 : wfc len c1 -> bytes_ok (rest c1) -> start <= pos c1 -> 1 <= pos c1 ->
  good (fun p : N * cur => ext c1 (snd p)) (lex_escape len start c1).
Proof.
  intros W B S P1. unfold lex_escape. rewrite usub_ok by lia. cbn [obind].
  pose proof (wfc_pos_le _ _ W) as PL.
  destruct (eat_map_byte (fun b => assoc_byte b escape_table) c1) as [[ch c2]|] eqn:M.
  { apply eat_map_byte_ext in M as [x [_ E]]. cbn [good snd]. exists [x]. exact E. }
  destruct (eat_byte 117 c1) as [c2|] eqn:U.
  { apply eat_byte_ext in U. pose proof (ext_by_ext _ _ _ U) as E2.
    destruct (eat_codeunit_ext c2) as [E3 P3].
    destruct (eat_codeunit c2) as [[cu1|] c3]; cbn [fst snd] in *.
    2:{ pose proof (ext_trans _ _ _ E2 E3) as E13. pose proof (ext_pos _ _ E13).
        pose proof (wfc_pos_le _ _ (ext_wfc _ _ _ E13 W)). apply good_fail; lia. }
    pose proof (ext_trans _ _ _ E2 E3) as E13.
    specialize (P3 cu1 eq_refl).
    assert (P13 : pos c3 = pos c1 + 5) by (destruct U as [_ PU]; cbn in PU; lia).
    destruct (if is_surrogate cu1 then eat_slice [92; 117] c3 else None) as [c4|] eqn:SL.
    - assert (E4 : ext_by [92; 117] c3 c4).
      { destruct (is_surrogate cu1); [|discriminate]. apply eat_slice_ext, SL. }
      pose proof (ext_trans _ _ _ E13 (ext_by_ext _ _ _ E4)) as E14.
      destruct (eat_codeunit_ext c4) as [E5 P5].
      destruct (eat_codeunit c4) as [[cu2|] c5]; cbn [fst snd] in *.
      + pose proof (ext_trans _ _ _ E14 E5) as E15.
        destruct (decode_utf16_pair cu1 cu2); [exact E15|].
        pose proof (ext_pos _ _ E15). pose proof (wfc_pos_le _ _ (ext_wfc _ _ _ E15 W)).
        apply good_fail; lia.
      + pose proof (ext_trans _ _ _ E14 E5) as E15.
        pose proof (ext_pos _ _ E5). pose proof (wfc_pos_le _ _ (ext_wfc _ _ _ E15 W)).
        destruct E4 as [_ P4]. cbn in P4. apply good_fail; lia.
    - destruct (is_scalar cu1); [exact E13|].
      pose proof (wfc_pos_le _ _ (ext_wfc _ _ _ E13 W)). apply good_fail; lia. }
  eapply good_bind; [apply good_eat_any_char, B|].
  intros [[c2 oc]|] Hp; cbn [fst] in Hp.
  - pose proof (sext_ext _ _ Hp) as E2. pose proof (ext_pos _ _ E2).
    pose proof (wfc_pos_le _ _ (ext_wfc _ _ _ E2 W)). apply good_fail; lia.
  - apply good_fail; lia.
Qed.

Lemma good_quoted_loop start delim : forall fuel c,
  (length (rest c) < fuel)%nat -> wfc len c -> bytes_ok (rest c) -> start <= pos c ->
  good (fun p : list N * cur => sext c (snd p)) (quoted_loop len fuel start delim c).
Proof.
  induction fuel as [|f IH]; intros c F W B S; [lia|]. cbn [quoted_loop].
  pose proof (wfc_pos_le _ _ W) as PL.
  destruct (eat_byte delim c) as [c1|] eqn:D.
  { apply eat_byte_ext in D. cbn [good snd]. eapply ext_by_sext; [|exact D]. discriminate. }
  destruct (eat_byte 92 c) as [c1|] eqn:BS.
  { apply eat_byte_ext in BS. assert (S1 : sext c c1) by (eapply ext_by_sext; [|exact BS]; discriminate).
    pose proof (sext_ext _ _ S1) as E1. pose proof (sext_pos _ _ S1).
    eapply good_bind; [apply (good_escape start c1); [apply (ext_wfc _ _ _ E1 W)|apply (ext_bytes _ _ E1 B)|lia|lia]|].
    intros [ch c2] E2. cbn [snd] in E2.
    pose proof (sext_ext_trans _ _ _ S1 E2) as S2.
    eapply good_bind.
    - apply (IH c2); [pose proof (sext_len _ _ S2); lia|apply (ext_wfc _ _ _ (sext_ext _ _ S2) W)
                      |apply (ext_bytes _ _ (sext_ext _ _ S2) B)|pose proof (sext_pos _ _ S2); lia].
    - intros [s c3] S3. cbn [snd good] in *. eapply sext_ext_trans; [exact S2|apply sext_ext, S3]. }
  eapply good_bind; [apply good_eat_any_char, B|].
  intros [[c1 oc]|] Hp; cbn [fst] in Hp.
  - eapply good_bind.
    + apply (IH c1); [pose proof (sext_len _ _ Hp); lia|apply (ext_wfc _ _ _ (sext_ext _ _ Hp) W)
                      |apply (ext_bytes _ _ (sext_ext _ _ Hp) B)|pose proof (sext_pos _ _ Hp); lia].
    + intros [s c3] S3. cbn [snd good] in *. eapply sext_ext_trans; [exact Hp|apply sext_ext, S3].
  - apply good_fail; lia.
Qed.

Lemma good_quoted_string start delim c0 c : ext c0 c -> start <= pos c0 -> wfc len c0 ->
  bytes_ok (rest c0) ->
  good (tok_post start c0) (lex_quoted_string len start delim c).
Proof.
  intros E S W B. unfold lex_quoted_string.
  eapply good_bind.
  - apply good_quoted_loop; [lia|apply (ext_wfc _ _ _ E W)|apply (ext_bytes _ _ E B)|pose proof (ext_pos _ _ E); lia].
  - intros [s c'] S'. cbn [snd] in S'. apply good_commit; try assumption; [reflexivity|].
    eapply ext_trans; [exact E|apply sext_ext, S'].
Qed.

(* ---- verbatim strings ---- *)
Lemma good_verbatim_loop start delim : forall fuel c,
  (length (rest c) < fuel)%nat -> wfc len c -> bytes_ok (rest c) -> start <= pos c ->
  good (fun p : list N * cur => sext c (snd p)) (verbatim_loop len fuel start delim c).
Proof.
  induction fuel as [|f IH]; intros c F W B S; [lia|]. cbn [verbatim_loop].
  pose proof (wfc_pos_le _ _ W) as PL.
  destruct (eat_byte delim c) as [c1|] eqn:D.
  { apply eat_byte_ext in D. assert (S1 : sext c c1) by (eapply ext_by_sext; [|exact D]; discriminate).
    destruct (eat_byte delim c1) as [c2|] eqn:D2; [|exact S1].
    apply eat_byte_ext in D2.
    pose proof (sext_ext_trans _ _ _ S1 (ext_by_ext _ _ _ D2)) as S2.
    eapply good_bind.
    - apply (IH c2); [pose proof (sext_len _ _ S2); lia|apply (ext_wfc _ _ _ (sext_ext _ _ S2) W)
                      |apply (ext_bytes _ _ (sext_ext _ _ S2) B)|pose proof (sext_pos _ _ S2); lia].
    - intros [s c3] S3. cbn [snd good] in *. eapply sext_ext_trans; [exact S2|apply sext_ext, S3]. }
  eapply good_bind; [apply good_eat_any_char, B|].
  intros [[c1 oc]|] Hp; cbn [fst] in Hp.
  - eapply good_bind.
    + apply (IH c1); [pose proof (sext_len _ _ Hp); lia|apply (ext_wfc _ _ _ (sext_ext _ _ Hp) W)
                      |apply (ext_bytes _ _ (sext_ext _ _ Hp) B)|pose proof (sext_pos _ _ Hp); lia].
    + intros [s c3] S3. cbn [snd good] in *. eapply sext_ext_trans; [exact Hp|apply sext_ext, S3].
  - apply good_fail; lia.
Qed.

Lemma good_verbatim_string start delim c0 c : ext c0 c -> start <= pos c0 -> wfc len c0 ->
  bytes_ok (rest c0) ->
  good (tok_post start c0) (lex_verbatim_string len start delim c).
Proof.
  intros E S W B. unfold lex_verbatim_string.
  eapply good_bind.
  - apply good_verbatim_loop; [lia|apply (ext_wfc _ _ _ E W)|apply (ext_bytes _ _ E B)|pose proof (ext_pos _ _ E); lia].
  - intros [s c'] S'. cbn [snd] in S'. apply good_commit; try assumption; [reflexivity|].
    eapply ext_trans; [exact E|apply sext_ext, S'].
Qed.

(* ---- text blocks ---- *)
Definition ends_lf (s : list N) : Prop := exists s', s = s' ++ [10].

Lemma ends_lf_cons x s : ends_lf s -> ends_lf (x :: s).
Proof. intros [s' ->]. exists (x :: s'). reflexivity. Qed.

Lemma ends_lf_app a s : ends_lf s -> ends_lf (a ++ s).
Proof. intros [s' ->]. exists (a ++ s'). rewrite app_assoc. reflexivity. Qed.

Lemma strip_last_lf_ok s : ends_lf s -> exists s', s = s' ++ [10] /\ strip_last_lf s = Ok s'.
Proof.
  intros [s' ->]. exists s'. split; [reflexivity|].
  unfold strip_last_lf. rewrite rev_app_distr. cbn [rev app]. rewrite rev_involutive. reflexivity.
Qed.

Lemma tb_blank_lines_spec : forall r ps,
  ext {| pos := ps; rest := r |} (snd (tb_blank_lines ps r)) /\
  (fst (tb_blank_lines ps r) = [] \/ ends_lf (fst (tb_blank_lines ps r))).
Proof.
  fix IH 1. intros r ps. destruct r as [|b r]; [cbn; split; [apply ext_refl|left; reflexivity]|].
  cbn [tb_blank_lines].
  destruct (N.eq_dec b 10) as [->|N10].
  - specialize (IH r (ps + 1)). destruct (tb_blank_lines (ps + 1) r) as [s c]. cbn [fst snd] in *.
    destruct IH as [E H]. split.
    + eapply ext_trans; [apply ext_step|exact E].
    + right. destruct H as [->|H]; [exists []; reflexivity|apply ends_lf_cons, H].
  - destruct (N.eq_dec b 13) as [->|N13].
    + destruct r as [|b' r'']; [cbn; split; [apply ext_refl|left; reflexivity]|].
      destruct (N.eq_dec b' 10) as [->|N10'].
      * specialize (IH r'' (ps + 2)). destruct (tb_blank_lines (ps + 2) r'') as [s c]. cbn [fst snd] in *.
        destruct IH as [E H]. split.
        -- eapply ext_trans; [|exact E]. exists [13; 10]. split; cbn; [reflexivity|lia].
        -- right. destruct H as [->|H]; [exists [13]; reflexivity|apply ends_lf_cons, ends_lf_cons, H].
      * replace (match b' with 10 => _ | _ => _ end) with (@nil N, {| pos := ps; rest := 13 :: b' :: r'' |}).
        -- cbn. split; [apply ext_refl|left; reflexivity].
        -- destruct b' as [|p]; [reflexivity|]. do 4 (destruct p; try reflexivity). congruence.
    + match goal with |- context[match b with _ => _ end] =>
        replace (match b with 10 => _ | 13 => _ | _ => _ end) with (@nil N, {| pos := ps; rest := b :: r |}) end.
      * cbn. split; [apply ext_refl|left; reflexivity].
      * destruct b as [|p]; [reflexivity|]. do 4 (destruct p; try reflexivity); congruence.
Qed.

Lemma good_tb_first_loop : forall fuel c,
  (length (rest c) < fuel)%nat -> wfc len c ->
  good (fun p : list N * list N * cur => ext c (snd p)) (tb_first_loop len fuel c).
Proof.
  induction fuel as [|f IH]; intros c F W; [lia|]. cbn [tb_first_loop].
  destruct (eat_while_ext is_blank c) as [l [_ E1]].
  rewrite (bytes_between_ext l _ _ E1).
  set (c1 := eat_while is_blank c) in *.
  assert (E2 : ext c1 (snd (match eat_byte 13 c1 with Some c2 => ([13], c2) | None => ([], c1) end))).
  { destruct (eat_byte 13 c1) as [c2|] eqn:R; cbn [snd]; [|apply ext_refl].
    apply eat_byte_ext in R. exists [13]. exact R. }
  destruct (match eat_byte 13 c1 with Some c2 => ([13], c2) | None => ([], c1) end) as [cr c2].
  cbn [snd] in E2.
  pose proof (ext_trans _ _ _ (ext_by_ext _ _ _ E1) E2) as E02.
  destruct l as [|x l].
  - destruct (eat_byte 10 c2) as [c3|] eqn:LF.
    + apply eat_byte_ext in LF.
      assert (S3 : sext c c3) by (eapply ext_sext_trans; [exact E02|]; eapply ext_by_sext; [|exact LF]; discriminate).
      eapply good_bind.
      * apply (IH c3); [pose proof (sext_len _ _ S3); lia|apply (ext_wfc _ _ _ (sext_ext _ _ S3) W)].
      * intros [[s p] c4] E4. cbn [snd good] in *. eapply ext_trans; [apply sext_ext, S3|exact E4].
    + pose proof (ext_pos _ _ (ext_by_ext _ _ _ E1)).
      pose proof (wfc_pos_le _ _ (ext_wfc _ _ _ (ext_by_ext _ _ _ E1) W)). apply good_fail; lia.
  - cbn [good snd]. exact E02.
Qed.

Lemma good_tb_body_loop start prefix : forall fuel c,
  (length (rest c) < fuel)%nat -> wfc len c -> bytes_ok (rest c) -> start <= pos c ->
  good (fun p : list N * cur => sext c (snd p) /\ ends_lf (fst p)) (tb_body_loop len fuel start prefix c).
Proof.
  induction fuel as [|f IH]; intros c F W B S; [lia|]. cbn [tb_body_loop].
  pose proof (wfc_pos_le _ _ W) as PL.
  destruct (eat_byte 10 c) as [c1|] eqn:LF.
  { apply eat_byte_ext in LF. assert (S1 : sext c c1) by (eapply ext_by_sext; [|exact LF]; discriminate).
    destruct (tb_blank_lines_spec (rest c1) (pos c1)) as [E2 HB].
    destruct (tb_blank_lines (pos c1) (rest c1)) as [blank c2]. cbn [fst snd] in *.
    assert (S2 : sext c c2) by (eapply sext_ext_trans; [exact S1|]; destruct c1; exact E2).
    assert (HL : ends_lf (10 :: blank)).
    { destruct HB as [->|HB]; [exists []; reflexivity|apply ends_lf_cons, HB]. }
    destruct (eat_slice prefix c2) as [c3|] eqn:PF.
    - apply eat_slice_ext in PF.
      pose proof (sext_ext_trans _ _ _ S2 (ext_by_ext _ _ _ PF)) as S3.
      eapply good_bind.
      + apply (IH c3); [pose proof (sext_len _ _ S3); lia|apply (ext_wfc _ _ _ (sext_ext _ _ S3) W)
                        |apply (ext_bytes _ _ (sext_ext _ _ S3) B)|pose proof (sext_pos _ _ S3); lia].
      + intros [s c4] [S4 L4]. cbn [fst snd good] in *. split.
        * eapply sext_ext_trans; [exact S3|apply sext_ext, S4].
        * apply ends_lf_cons, ends_lf_app, L4.
    - destruct (eat_while_ext is_blank c2) as [l [_ E3]].
      set (c3 := eat_while is_blank c2) in *.
      pose proof (sext_ext_trans _ _ _ S2 (ext_by_ext _ _ _ E3)) as S3.
      destruct (eat_slice [124; 124; 124] c3) as [c4|] eqn:T.
      + apply eat_slice_ext in T. cbn [good fst snd]. split; [|exact HL].
        eapply sext_ext_trans; [exact S3|exists [124; 124; 124]; exact T].
      + pose proof (ext_pos _ _ (ext_by_ext _ _ _ E3)).
        pose proof (wfc_pos_le _ _ (ext_wfc _ _ _ (sext_ext _ _ S3) W)). apply good_fail; lia. }
  eapply good_bind; [apply good_eat_any_char, B|].
  intros [[c1 oc]|] Hp; cbn [fst] in Hp.
  - eapply good_bind.
    + apply (IH c1); [pose proof (sext_len _ _ Hp); lia|apply (ext_wfc _ _ _ (sext_ext _ _ Hp) W)
                      |apply (ext_bytes _ _ (sext_ext _ _ Hp) B)|pose proof (sext_pos _ _ Hp); lia].
    + intros [s c3] [S3 L3]. cbn [fst snd good] in *. split.
      * eapply sext_ext_trans; [exact Hp|apply sext_ext, S3].
      * apply ends_lf_cons, L3.
  - apply good_fail; lia.
Qed.

Lemma good_text_block start c0 c : ext c0 c -> start <= pos c0 -> wfc len c0 -> bytes_ok (rest c0) ->
  good (tok_post start c0) (lex_text_block len start c).
Proof.
  intros E S W B. unfold lex_text_block.
  assert (E1 : ext c (snd (match eat_byte 45 c with Some c1 => (true, c1) | None => (false, c) end))).
  { destruct (eat_byte 45 c) as [c1|] eqn:R; cbn [snd]; [|apply ext_refl].
    apply eat_byte_ext in R. exists [45]. exact R. }
  destruct (match eat_byte 45 c with Some c1 => (true, c1) | None => (false, c) end) as [strip c1].
  cbn [snd] in E1.
  destruct (eat_while_ext is_blank_cr c1) as [l [_ E2]].
  set (c2 := eat_while is_blank_cr c1) in *.
  pose proof (ext_trans _ _ _ E (ext_trans _ _ _ E1 (ext_by_ext _ _ _ E2))) as E02.
  pose proof (ext_pos _ _ E02). pose proof (wfc_pos_le _ _ (ext_wfc _ _ _ E02 W)).
  destruct (eat_byte 10 c2) as [c3|] eqn:LF; [|apply good_fail; lia].
  apply eat_byte_ext in LF. pose proof (ext_trans _ _ _ E02 (ext_by_ext _ _ _ LF)) as E03.
  eapply good_bind; [apply good_tb_first_loop; [lia|apply (ext_wfc _ _ _ E03 W)]|].
  intros [[s1 prefix] c4] E4. cbn [snd] in E4.
  pose proof (ext_trans _ _ _ E03 E4) as E04.
  eapply good_bind.
  - apply good_tb_body_loop; [lia|apply (ext_wfc _ _ _ E04 W)|apply (ext_bytes _ _ E04 B)
                              |pose proof (ext_pos _ _ E04); lia].
  - intros [s2 c5] [S5 L5]. cbn [fst snd] in *.
    pose proof (ext_trans _ _ _ E04 (sext_ext _ _ S5)) as E05.
    destruct strip.
    + destruct (strip_last_lf_ok (s1 ++ s2) (ends_lf_app _ _ L5)) as [s' [_ ->]]. cbn [obind].
      apply good_commit; try assumption; reflexivity.
    + cbn [obind]. apply good_commit; try assumption; reflexivity.
Qed.

(* ---- next_token ---- *)
Definition next_post (c : cur) (p : token * cur) : Prop :=
  tok_span (fst p) = (pos c, pos (snd p)) /\
  (if is_eof (tok_kind (fst p)) then rest c = [] /\ snd p = c else sext c (snd p)).

Lemma tok_post_next c c1 p : sext c c1 -> tok_post (pos c) c1 p -> next_post c p.
Proof.
  intros S [E [Sp K]]. split; [exact Sp|]. rewrite K. eapply sext_ext_trans; eassumption.
Qed.

Lemma ident_start_ascii b : is_ident_start b = true -> b < 128.
Proof.
  unfold is_ident_start, in_range. rewrite !orb_true_iff, !andb_true_iff, !N.leb_le, N.eqb_eq. lia.
Qed.

Lemma good_next_token c : wfc len c -> bytes_ok (rest c) -> good (next_post c) (next_token len c).
Proof.
  intros W B. unfold next_token. pose proof (wfc_pos_le _ _ W) as PL.
  destruct (eat_any_byte c) as [[b c1]|] eqn:AB.
  2:{ rewrite commit_ok by lia. cbn. split; [reflexivity|]. split; [apply eat_any_byte_none, AB|reflexivity]. }
  pose proof (eat_any_byte_ext _ _ _ AB) as EB.
  assert (S1 : sext c c1) by (eapply ext_by_sext; [|exact EB]; discriminate).
  pose proof (sext_pos _ _ S1) as P1. pose proof (sext_ext _ _ S1) as E1.
  pose proof (ext_wfc _ _ _ E1 W) as W1. pose proof (ext_bytes _ _ E1 B) as B1.
  assert (Hb : b < 256).
  { destruct EB as [H _]. rewrite H in B. inversion B; assumption. }
  assert (TP : forall r, good (tok_post (pos c) c1) r -> good (next_post c) r).
  { intros r G. eapply good_mono; [exact G|]. intros p. apply tok_post_next, S1. }
  destruct (assoc_byte b single_table).
  { apply TP, good_commit; [reflexivity|apply ext_refl|lia|exact W1]. }
  destruct (N.eqb_spec b 47) as [->|N47].
  { destruct (eat_byte 47 c1) as [c2|] eqn:S2.
    { apply eat_byte_ext, ext_by_ext in S2. apply TP, good_single_line_comment; [exact S2|lia|exact W1]. }
    destruct (eat_byte 42 c1) as [c2|] eqn:S3.
    { apply eat_byte_ext, ext_by_ext in S3. apply TP, good_multi_line_comment; [exact S3|lia|exact W1]. }
    apply TP, good_operator; [apply ext_refl|lia|exact W1|lia]. }
  destruct (N.eqb_spec b 124) as [->|N124].
  { destruct (eat_slice [124; 124] c1) as [c2|] eqn:S2.
    { apply eat_slice_ext, ext_by_ext in S2. apply TP, good_text_block; [exact S2|lia|exact W1|exact B1]. }
    apply TP, good_operator; [apply ext_refl|lia|exact W1|lia]. }
  destruct (mem_byte b op_start_bytes) eqn:OS.
  { apply TP, good_operator; [apply ext_refl|lia|exact W1|].
    apply mem_byte_in in OS. exact (all_lt_128 op_start_bytes eq_refl b OS). }
  destruct (is_ws b).
  { apply TP, good_commit; [reflexivity| |lia|exact W1].
    destruct (eat_while_ext is_ws c1) as [l [_ E]]. exists l. exact E. }
  destruct (N.eqb_spec b 35) as [->|N35].
  { apply TP, good_single_line_comment; [apply ext_refl|lia|exact W1]. }
  destruct (is_digit b) eqn:DG.
  { apply TP, good_number; [apply ext_refl|lia|exact W1|lia|exact DG]. }
  destruct (is_ident_start b) eqn:IS.
  { apply TP, good_ident; [apply ext_refl|lia|exact W1|apply ident_start_ascii, IS]. }
  destruct (N.eqb_spec b 64) as [->|N64].
  { destruct (eat_byte 39 c1) as [c2|] eqn:Q1.
    { apply eat_byte_ext, ext_by_ext in Q1. apply TP, good_verbatim_string; [exact Q1|lia|exact W1|exact B1]. }
    destruct (eat_byte 34 c1) as [c2|] eqn:Q2.
    { apply eat_byte_ext, ext_by_ext in Q2. apply TP, good_verbatim_string; [exact Q2|lia|exact W1|exact B1]. }
    pose proof (wfc_pos_le _ _ W1). apply good_fail; lia. }
  destruct (N.eqb_spec b 39) as [->|N39].
  { apply TP, good_quoted_string; [apply ext_refl|lia|exact W1|exact B1]. }
  destruct (N.eqb_spec b 34) as [->|N34].
  { apply TP, good_quoted_string; [apply ext_refl|lia|exact W1|exact B1]. }
  eapply good_bind; [apply good_eat_cont_any_char; [exact Hb|exact B1]|].
  intros [c2 oc] E2. cbn [fst] in E2.
  pose proof (ext_pos _ _ E2). pose proof (wfc_pos_le _ _ (ext_wfc _ _ _ E2 W1)).
  destruct oc; apply good_fail; lia.
Qed.

(* ---- the token loop ---- *)
(* token spans from [at]: contiguous, non-empty, not EOF, until one EOF token at (len, len) *)
Fixpoint tiles_from (at_ : N) (toks : list token) : Prop :=
  match toks with
  | [] => False
  | t :: ts =>
      if is_eof (tok_kind t) then ts = [] /\ tok_span t = (len, len) /\ at_ = len
      else exists e, tok_span t = (at_, e) /\ at_ < e /\ tiles_from e ts
  end.

Lemma good_lex_loop : forall fuel c,
  (length (rest c) < fuel)%nat -> wfc len c -> bytes_ok (rest c) ->
  good (tiles_from (pos c)) (lex_loop len fuel true c).
Proof.
  induction fuel as [|f IH]; intros c F W B; [lia|]. cbn [lex_loop].
  eapply good_bind; [apply good_next_token; assumption|].
  intros [t c'] [Sp K]. cbn [fst snd] in *.
  destruct (is_eof (tok_kind t)) eqn:EO.
  - destruct K as [R ->]. cbn [good tiles_from]. rewrite EO.
    assert (pos c = len) by (unfold wfc in W; rewrite R in W; cbn in W; lia).
    split; [reflexivity|]. split; [rewrite Sp; congruence|assumption].
  - eapply good_bind.
    + apply (IH c'); [pose proof (sext_len _ _ K); lia|apply (ext_wfc _ _ _ (sext_ext _ _ K) W)
                      |apply (ext_bytes _ _ (sext_ext _ _ K) B)].
    + intros ts T. cbn [orb good tiles_from]. rewrite EO. exists (pos c').
      split; [exact Sp|]. split; [apply sext_pos, K|exact T].
Qed.

End Specs.

(* ------------------------------------------------------------------ *)
(* headline statements                                                 *)

Definition input_len (input : list N) : N := N.of_nat (length input).

Theorem lex_all_good input : bytes_ok input ->
  good (input_len input) (tiles_from (input_len input) 0) (lex_all true input).
Proof.
  intros B. unfold lex_all.
  apply (good_lex_loop (input_len input) (S (length input)) {| pos := 0; rest := input |});
    cbn [rest pos]; [lia|unfold wfc, input_len; cbn; lia|exact B].
Qed.

(* spans (a0,a1) (a1,a2) ... from a to b *)
Inductive tiles : N -> N -> list span -> Prop :=
| tiles_nil a : tiles a a []
| tiles_cons a m b l : a <= m -> tiles m b l -> tiles a b ((a, m) :: l).

Definition eof_at (n : N) : token := {| tok_span := (n, n); tok_kind := TEndOfFile |}.
Definition nonempty (s : span) : Prop := fst s < snd s.

Lemma is_eof_inv k : is_eof k = true -> k = TEndOfFile.
Proof. destruct k; simpl; congruence. Qed.

Lemma tiles_from_shape len : forall toks at_, tiles_from len at_ toks ->
  tiles at_ len (map tok_span toks ++ []) /\
  exists pre, toks = pre ++ [eof_at len] /\
              Forall (fun t => is_eof (tok_kind t) = false /\ nonempty (tok_span t)) pre.
Proof.
  induction toks as [|t ts IH]; intros at_ H; cbn [tiles_from] in H; [contradiction|].
  destruct (is_eof (tok_kind t)) eqn:EO.
  - destruct H as [-> [Sp ->]]. split.
    + cbn. rewrite Sp. apply tiles_cons; [lia|apply tiles_nil].
    + exists []. split; [|constructor]. destruct t as [sp k]. cbn in *. apply is_eof_inv in EO. subst. reflexivity.
  - destruct H as [e [Sp [Lt T]]]. destruct (IH e T) as [T1 [pre [-> F]]]. split.
    + cbn [map app]. rewrite Sp. apply tiles_cons; [lia|exact T1].
    + exists (t :: pre). split; [reflexivity|]. constructor; [|exact F].
      split; [exact EO|]. unfold nonempty. rewrite Sp. exact Lt.
Qed.

Theorem lex_tiles input toks : bytes_ok input -> lex_all true input = Ok toks ->
  tiles 0 (input_len input) (map tok_span toks) /\
  exists pre, toks = pre ++ [eof_at (input_len input)] /\
              Forall (fun t => is_eof (tok_kind t) = false /\ nonempty (tok_span t)) pre.
Proof.
  intros B H. pose proof (lex_all_good input B) as G. rewrite H in G. cbn in G.
  destruct (tiles_from_shape _ _ _ G) as [T R]. rewrite app_nil_r in T. split; assumption.
Qed.

Lemma lex_all_false_true input :
  match lex_all false input with
  | Ok _ => exists toks, lex_all true input = Ok toks
  | Err e => lex_all true input = Err e
  | Panic s => lex_all true input = Panic s
  | OutOfFuel => lex_all true input = OutOfFuel
  end.
Proof.
  rewrite lex_filter. destruct (lex_all true input); cbn; eauto.
Qed.

Theorem lex_error_located keep input e : bytes_ok input -> lex_all keep input = Err e ->
  located (input_len input) e.
Proof.
  intros B H. pose proof (lex_all_good input B) as G.
  destruct keep.
  - rewrite H in G. exact G.
  - pose proof (lex_all_false_true input) as FT. rewrite H in FT. rewrite FT in G. exact G.
Qed.

Theorem fuel_sufficient keep input : bytes_ok input -> lex_all keep input <> OutOfFuel.
Proof.
  intros B H. pose proof (lex_all_good input B) as G.
  destruct keep.
  - rewrite H in G. exact G.
  - pose proof (lex_all_false_true input) as FT. rewrite H in FT. rewrite FT in G. exact G.
Qed.

Theorem lex_no_panic keep input site : bytes_ok input -> lex_all keep input <> Panic site.
Proof.
  intros B H. pose proof (lex_all_good input B) as G.
  destruct keep.
  - rewrite H in G. exact G.
  - pose proof (lex_all_false_true input) as FT. rewrite H in FT. rewrite FT in G. exact G.
Qed.

(* every lexing run ends in exactly one of: a tiling token list, or one located error *)
Theorem lex_total keep input : bytes_ok input ->
  (exists toks, lex_all keep input = Ok toks) \/
  (exists e, lex_all keep input = Err e /\ located (input_len input) e).
Proof.
  intros B. destruct (lex_all keep input) as [toks|e|s|] eqn:H.
  - left. eauto.
  - right. exists e. split; [reflexivity|]. eapply lex_error_located; eassumption.
  - exfalso. eapply lex_no_panic; eassumption.
  - exfalso. eapply fuel_sufficient; eassumption.
Qed.

(* ------------------------------------------------------------------ *)
(* operators: maximal munch                                            *)

(* n is an admissible operator length at the head of [input]: n symbol bytes;
   none of the three pipes / slash slash / slash star sequences starts at an
   offset 1 <= i < n; the last byte may end an operator unless n = 1 *)
Definition op_len_ok (input : list N) (n : nat) : Prop :=
  (1 <= n <= length input)%nat /\
  (forall i, (i < n)%nat -> is_op_byte (nth i input 0) = true) /\
  (forall i, (1 <= i < n)%nat -> op_forbidden_here (skipn i input) = false) /\
  (n = 1%nat \/ mem_byte (nth (n - 1) input 0) op_sure_bytes = true).

Lemma skipn_rev_app (acc r : list N) : skipn (length acc) (rev acc ++ r) = r.
Proof.
  rewrite skipn_app, rev_length, Nat.sub_diag. rewrite skipn_all2 by (rewrite rev_length; lia). reflexivity.
Qed.

Lemma nth_rev_app (acc : list N) b r : nth (length acc) (rev acc ++ b :: r) 0 = b.
Proof. rewrite app_nth2 by (rewrite rev_length; lia). rewrite rev_length, Nat.sub_diag. reflexivity. Qed.

Lemma firstn_rev_app (acc r : list N) : firstn (length acc) (rev acc ++ r) = rev acc.
Proof.
  rewrite firstn_app, rev_length, Nat.sub_diag. cbn [firstn]. rewrite app_nil_r.
  apply firstn_all2. rewrite rev_length. lia.
Qed.

Lemma op_loop_munch : forall r ps acc sp sr sacc input,
  input = rev acc ++ r ->
  (1 <= length sacc <= length acc)%nat ->
  rev sacc = firstn (length sacc) input ->
  sr = skipn (length sacc) input ->
  (forall i, (i < length acc)%nat -> is_op_byte (nth i input 0) = true) ->
  (forall i, (1 <= i < length acc)%nat -> op_forbidden_here (skipn i input) = false) ->
  (length sacc = 1%nat \/ mem_byte (nth (length sacc - 1) input 0) op_sure_bytes = true) ->
  (forall i, (length sacc <= i < length acc)%nat -> mem_byte (nth i input 0) op_sure_bytes = false) ->
  let '(c', racc) := op_loop r ps acc sp sr sacc in
  rev racc = firstn (length racc) input /\ op_len_ok input (length racc) /\
  (forall n, op_len_ok input n -> (n <= length racc)%nat) /\ rest c' = skipn (length racc) input.
Proof.
  induction r as [|b r IH]; intros ps acc sp sr sacc input HI HL HS HR HO HF HE HM.
  - (* end of input *)
    cbn [op_loop]. assert (LI : length input = length acc) by (rewrite HI, app_nil_r, rev_length; reflexivity).
    destruct (op_forbidden_here []); cbn [rest]; (split; [exact HS|]; split; [|split; [|exact HR]]).
    all: try (split; [lia|]; split; [intros i Hi; apply HO; lia|]; split; [intros i Hi; apply HF; lia|exact HE]).
    all: intros n [[N1 N2] [NO [NF NE]]]; destruct (Nat.le_gt_cases n (length sacc)) as [|G]; [assumption|exfalso].
    all: destruct NE as [->|NE]; [lia|]; rewrite HM in NE by lia; discriminate.
  - cbn [op_loop].
    assert (SK : skipn (length acc) input = b :: r) by (rewrite HI; apply skipn_rev_app).
    assert (NB : nth (length acc) input 0 = b) by (rewrite HI; apply nth_rev_app).
    assert (LI : length input = S (length acc + length r)) by (rewrite HI, app_length, rev_length; cbn; lia).
    (* the three ways to stop here share one argument *)
    assert (STOP : (op_forbidden_here (b :: r) = true \/ is_op_byte b = false) ->
              rev sacc = firstn (length sacc) input /\ op_len_ok input (length sacc) /\
              (forall n, op_len_ok input n -> (n <= length sacc)%nat) /\
              rest {| pos := sp; rest := sr |} = skipn (length sacc) input).
    { intros WHY. split; [exact HS|]. split; [|split; [|exact HR]].
      - split; [lia|]. split; [intros i Hi; apply HO; lia|]. split; [intros i Hi; apply HF; lia|exact HE].
      - intros n [[N1 N2] [NO [NF NE]]]. destruct (Nat.le_gt_cases n (length sacc)) as [|G]; [assumption|exfalso].
        destruct (Nat.le_gt_cases n (length acc)) as [LA|GA].
        + destruct NE as [->|NE]; [lia|]. rewrite HM in NE by lia. discriminate.
        + destruct WHY as [W|W].
          * rewrite <- SK in W. rewrite NF in W by lia. discriminate.
          * rewrite <- NB in W. rewrite NO in W by lia. discriminate. }
    destruct (op_forbidden_here (b :: r)) eqn:FB; [apply STOP; left; reflexivity|].
    assert (HI' : input = rev (b :: acc) ++ r) by (rewrite HI; cbn [rev]; rewrite <- app_assoc; reflexivity).
    assert (HF' : forall i, (1 <= i < length (b :: acc))%nat -> op_forbidden_here (skipn i input) = false).
    { intros i Hi. cbn [length] in Hi. destruct (Nat.eq_dec i (length acc)) as [->|Ne]; [rewrite SK; exact FB|apply HF; lia]. }
    destruct (mem_byte b op_sure_bytes) eqn:S1.
    + (* a byte that may end the operator *)
      apply (IH (ps + 1) (b :: acc) (ps + 1) r (b :: acc) input HI').
      * cbn [length]. lia.
      * rewrite HI'. symmetry. apply firstn_rev_app.
      * rewrite HI'. symmetry. apply skipn_rev_app.
      * intros i Hi. cbn [length] in Hi. destruct (Nat.eq_dec i (length acc)) as [->|Ne].
        -- rewrite NB. unfold is_op_byte. rewrite S1. reflexivity.
        -- apply HO. lia.
      * exact HF'.
      * right. cbn [length]. replace (S (length acc) - 1)%nat with (length acc) by lia. rewrite NB. exact S1.
      * intros i Hi. lia.
    + destruct (mem_byte b op_unsure_bytes) eqn:S2.
      * (* a byte that may continue the operator but not end it *)
        apply (IH (ps + 1) (b :: acc) sp sr sacc input HI').
        -- cbn [length]. lia.
        -- exact HS.
        -- exact HR.
        -- intros i Hi. cbn [length] in Hi. destruct (Nat.eq_dec i (length acc)) as [->|Ne].
           ++ rewrite NB. unfold is_op_byte. rewrite S1, S2. reflexivity.
           ++ apply HO. lia.
        -- exact HF'.
        -- exact HE.
        -- intros i Hi. cbn [length] in Hi. destruct (Nat.eq_dec i (length acc)) as [->|Ne].
           ++ rewrite NB. exact S1.
           ++ apply HM. lia.
      * apply STOP. right. unfold is_op_byte. rewrite S1, S2. reflexivity.
Qed.

(* The operator token starting with the symbol byte b0 is the LONGEST admissible
   prefix of the input, and the cursor continues right after it. *)
Theorem operator_maximal_munch : forall b0 r ps, is_op_byte b0 = true ->
  let '(c', racc) := op_loop r ps [b0] ps r [b0] in
  let input := b0 :: r in
  rev racc = firstn (length racc) input /\ op_len_ok input (length racc) /\
  (forall n, op_len_ok input n -> (n <= length racc)%nat) /\ rest c' = skipn (length racc) input.
Proof.
  intros b0 r ps Hb.
  apply (op_loop_munch r ps [b0] ps r [b0] (b0 :: r)); cbn [length rev app firstn skipn]; try reflexivity; try lia.
  all: try (intros i Hi; replace i with 0%nat by lia; exact Hb).
  all: try (left; reflexivity).
Qed.

(* the token lex_operator produces carries that text *)
Theorem lex_operator_text len start b0 c t c' : is_op_byte b0 = true ->
  lex_operator len start b0 c = Ok (t, c') ->
  exists n, op_len_ok (b0 :: rest c) n /\ (forall m, op_len_ok (b0 :: rest c) m -> (m <= n)%nat) /\
            rest c' = skipn n (b0 :: rest c) /\
            tok_kind t = match assoc_bytes (firstn n (b0 :: rest c)) operator_table with
                         | Some k => TSimple k
                         | None => TOtherOp (firstn n (b0 :: rest c))
                         end.
Proof.
  intros Hb H. unfold lex_operator in H.
  pose proof (operator_maximal_munch b0 (rest c) (pos c) Hb) as M.
  destruct (op_loop (rest c) (pos c) [b0] (pos c) (rest c) [b0]) as [c1 racc].
  destruct M as [M1 [M2 [M3 M4]]]. exists (length racc). split; [exact M2|]. split; [exact M3|].
  rewrite <- M1. destruct (assoc_bytes (rev racc) operator_table) as [k|].
  - unfold commit in H. destruct (make_span len start (pos c1)); inversion H; subst. split; [exact M4|reflexivity].
  - unfold ascii_str in H. destruct (forallb (fun b => b <? 128) (rev racc)); [|discriminate].
    cbn [obind] in H. unfold commit in H. destruct (make_span len start (pos c1)); inversion H; subst.
    split; [exact M4|reflexivity].
Qed.

(* ------------------------------------------------------------------ *)
(* literal values, stated over the lossy decoding of the input         *)

Lemma match_trail_ge trail : forall acc rest k v,
  match_trail trail acc rest = (k, Some v) -> acc <= v /\ (trail <> [] -> acc * 64 <= v).
Proof.
  induction trail as [|[lo hi] tr IH]; intros acc rest k v H; cbn [match_trail] in H.
  - inversion H; subst. split; [lia|congruence].
  - destruct rest as [|b r]; [discriminate|]. destruct (in_range lo hi b); [|discriminate].
    destruct (match_trail tr (acc * 64 + (b - 128)) r) as [k' oc] eqn:M. inversion H; subst.
    destruct (IH _ _ _ _ M) as [G _]. split; [lia|intros _; lia].
Qed.

Lemma match_trail_cons lo hi tr acc b r :
  match_trail ((lo, hi) :: tr) acc (b :: r) =
  if in_range lo hi b then let '(k, oc) := match_trail tr (acc * 64 + (b - 0x80)) r in (S k, oc) else (0%nat, None).
Proof. reflexivity. Qed.
Lemma match_trail_nil lo hi tr acc : match_trail ((lo, hi) :: tr) acc [] = (0%nat, None).
Proof. reflexivity. Qed.

Lemma decode_arith_nonascii b0 rest : 128 <= b0 -> 128 <= or_repl (snd (decode_arith b0 rest)).
Proof.
  intros Hb. unfold decode_arith, row_of.
  replace (b0 <=? 127) with false by (symmetry; apply N.leb_gt; lia).
  destruct (in_range lead2_lo lead2_hi b0) eqn:R2.
  { apply in_range_iff in R2. unfold lead2_lo in R2.
    destruct (match_trail [cont_range] (b0 - 192) rest) as [k [v|]] eqn:M; cbn [snd or_repl]; [|unfold replacement; lia].
    apply match_trail_ge in M as [_ G]. specialize (G ltac:(discriminate)). destruct R2 as [R2 _]. lia. }
  destruct (in_range 0xE0 0xEF b0) eqn:R3.
  { apply in_range_iff in R3.
    destruct rest as [|b1 r]; [rewrite match_trail_nil; cbn; unfold replacement; lia|].
    rewrite match_trail_cons.
    destruct (in_range (lo3 b0) (hi3 b0) b1) eqn:R1; [|cbn; unfold replacement; lia].
    destruct (match_trail [cont_range] ((b0 - 224) * 64 + (b1 - 128)) r) as [k [v|]] eqn:M;
      cbn [snd or_repl]; [|cbv [replacement]; lia].
    apply match_trail_ge in M as [_ G]. specialize (G ltac:(discriminate)).
    apply in_range_iff in R1. unfold lo3 in R1. destruct (N.eqb_spec b0 224); lia. }
  destruct (in_range 0xF0 0xF7 b0) eqn:R4; [|cbn; unfold replacement; lia].
  destruct (in_range 0xF0 0xF4 b0) eqn:R4'; [|cbn; unfold replacement; lia].
  apply in_range_iff in R4'.
  destruct rest as [|b1 r]; [rewrite match_trail_nil; cbn; unfold replacement; lia|].
  rewrite match_trail_cons.
  destruct (in_range (lo4 b0) (hi4 b0) b1) eqn:R1; [|cbn; unfold replacement; lia].
  destruct (match_trail [cont_range; cont_range] ((b0 - 240) * 64 + (b1 - 128)) r) as [k [v|]] eqn:M;
    cbn [snd or_repl]; [|cbv [replacement]; lia].
  apply match_trail_ge in M as [_ G]. specialize (G ltac:(discriminate)).
  apply in_range_iff in R1. unfold lo4 in R1. destruct (N.eqb_spec b0 240); lia.
Qed.

(* one step of eat_any_char, seen on the lossy decoding *)
Lemma lossy_head b0 r : b0 < 256 -> bytes_ok r ->
  exists k oc, @decode_cont_char lex_error b0 r = Ok (k, oc) /\ (k <= length r)%nat /\
    lossy (b0 :: r) = or_replacement oc :: lossy (skipn k r) /\
    (b0 < 128 -> oc = Some b0 /\ k = 0%nat) /\ (128 <= b0 -> 128 <= or_replacement oc).
Proof.
  intros Hb Hr. pose proof (decode_eq (E := lex_error) b0 r Hb Hr) as D.
  pose proof (decode_arith_le b0 r) as L. pose proof (lossy_lead b0 r Hb) as LL.
  pose proof (decode_arith_nonascii b0 r) as NA.
  destruct (decode_arith b0 r) as [k oc] eqn:DA. cbn [fst snd] in *.
  exists k, oc. split; [exact D|]. split; [exact L|]. split; [exact LL|]. split; [|exact NA].
  intros Ha. unfold decode_arith, row_of in DA.
  replace (b0 <=? 127) with true in DA by (symmetry; apply N.leb_le; lia).
  cbn [match_trail] in DA. inversion DA. rewrite N.sub_0_r. split; reflexivity.
Qed.

Lemma lossy_ascii b r : b < 128 -> bytes_ok r -> lossy (b :: r) = b :: lossy r.
Proof.
  intros Hb Hr. destruct (lossy_head b r ltac:(lia) Hr) as [k [oc [_ [_ [L [A _]]]]]].
  destruct (A Hb) as [-> ->]. exact L.
Qed.

Lemma eat_any_char_inv c c1 oc : bytes_ok (rest c) -> eat_any_char c = Ok (Some (c1, oc)) ->
  exists b0 r, rest c = b0 :: r /\ lossy (rest c) = or_replacement oc :: lossy (rest c1) /\
               bytes_ok (rest c1) /\ (b0 < 128 -> or_replacement oc = b0) /\ (128 <= b0 -> 128 <= or_replacement oc).
Proof.
  intros B H. unfold eat_any_char, eat_any_byte in H.
  destruct (rest c) as [|b0 r] eqn:R; [discriminate|]. exists b0, r. split; [reflexivity|].
  inversion B as [|? ? Hb Hr]; subst.
  destruct (lossy_head b0 r Hb Hr) as [k [oc' [D [L [LL [A NA]]]]]].
  unfold eat_cont_any_char in H. cbn [rest pos] in H. rewrite D in H. cbn [obind] in H.
  inversion H; subst. cbn [rest]. split; [exact LL|]. split; [apply bytes_ok_skipn, Hr|].
  split; [|exact NA]. intros Ha. destruct (A Ha) as [-> _]. reflexivity.
Qed.

Lemma eat_byte_inv b c c1 : eat_byte b c = Some c1 -> rest c = b :: rest c1.
Proof. intros H. apply eat_byte_ext in H. destruct H as [H _]. exact H. Qed.

Lemma eat_byte_none b c : eat_byte b c = None -> rest c = [] \/ exists x r, rest c = x :: r /\ x <> b.
Proof.
  unfold eat_byte, eat_byte_if. destruct (rest c) as [|x r]; [left; reflexivity|].
  destruct (N.eqb_spec b x); [discriminate|]. intros _. right. exists x, r. split; [reflexivity|congruence].
Qed.

(* the head code point of the lossy decoding is an ASCII character exactly when
   the head byte is that character *)
Lemma lossy_head_neq x r d : bytes_ok (x :: r) -> d < 128 -> x <> d ->
  exists cp t, lossy (x :: r) = cp :: t /\ cp <> d.
Proof.
  intros B Hd Hx. inversion B as [|? ? Hb Hr]; subst.
  destruct (lossy_head x r Hb Hr) as [k [oc [_ [_ [L [A NA]]]]]].
  exists (or_replacement oc), (lossy (skipn k r)). split; [exact L|].
  destruct (N.lt_ge_cases x 128) as [Lt|Ge].
  - destruct (A Lt) as [-> _]. cbn. exact Hx.
  - specialize (NA Ge). lia.
Qed.

(* ---- verbatim strings: the grammar on code points ---- *)
Fixpoint verbatim_spec (delim : N) (cps : list N) : option (list N * list N) :=
  match cps with
  | [] => None
  | c :: r =>
      if c =? delim then
        match r with
        | c2 :: r2 =>
            if c2 =? delim then
              match verbatim_spec delim r2 with Some (s, t) => Some (delim :: s, t) | None => None end
            else Some ([], r)
        | [] => Some ([], r)
        end
      else match verbatim_spec delim r with Some (s, t) => Some (c :: s, t) | None => None end
  end.

Theorem verbatim_string_value len start delim : delim < 128 -> forall fuel c s c',
  bytes_ok (rest c) -> verbatim_loop len fuel start delim c = Ok (s, c') ->
  verbatim_spec delim (lossy (rest c)) = Some (s, lossy (rest c')) /\ bytes_ok (rest c').
Proof.
  intros Hd. induction fuel as [|f IH]; intros c s c' B H; [discriminate|]. cbn [verbatim_loop] in H.
  destruct (eat_byte delim c) as [c1|] eqn:D1.
  - pose proof (eat_byte_inv _ _ _ D1) as R1. rewrite R1 in B. inversion B as [|? ? _ B1]; subst.
    rewrite R1, (lossy_ascii delim (rest c1) Hd B1). cbn [verbatim_spec]. rewrite N.eqb_refl.
    destruct (eat_byte delim c1) as [c2|] eqn:D2.
    + pose proof (eat_byte_inv _ _ _ D2) as R2. rewrite R2 in B1. inversion B1 as [|? ? _ B2]; subst.
      rewrite R2, (lossy_ascii delim (rest c2) Hd B2). rewrite N.eqb_refl.
      destruct (verbatim_loop len f start delim c2) as [[s2 c3]| | |] eqn:L; try discriminate.
      cbn [obind] in H. inversion H; subst. destruct (IH _ _ _ B2 L) as [-> B3]. split; [reflexivity|exact B3].
    + inversion H; subst. split; [|exact B1].
      destruct (eat_byte_none _ _ D2) as [R0|[x [r [R' Hx]]]]; [rewrite R0; reflexivity|].
      rewrite R' in B1 |- *.
      destruct (lossy_head_neq x r delim B1 Hd Hx) as [cp [t [-> Hc]]].
      destruct (N.eqb_spec cp delim); [congruence|reflexivity].
  - destruct (eat_any_char c) as [[[c1 oc]|]| | |] eqn:EA; try discriminate; cbn [obind] in H.
    2:{ unfold fail in H. destruct (make_span len start (pos c)); discriminate. }
    destruct (eat_any_char_inv _ _ _ B EA) as [b0 [r [R [L [B1 [A NA]]]]]].
    destruct (verbatim_loop len f start delim c1) as [[s2 c3]| | |] eqn:LP; try discriminate.
    cbn [obind] in H. inversion H; subst. destruct (IH _ _ _ B1 LP) as [E B3]. split; [|exact B3].
    rewrite L. cbn [verbatim_spec]. rewrite E.
    assert (Hne : or_replacement oc <> delim).
    { destruct (eat_byte_none _ _ D1) as [R0|[x [r' [R' Hx]]]]; [rewrite R0 in R; discriminate|].
      rewrite R in R'. inversion R'; subst x r'.
      destruct (N.lt_ge_cases b0 128) as [Lt|Ge]; [rewrite (A Lt); exact Hx|specialize (NA Ge); lia]. }
    destruct (N.eqb_spec (or_replacement oc) delim); [congruence|reflexivity].
Qed.

(* ---- surrogate pairs ---- *)
Theorem surrogate_pair_value hi lo c :
  decode_utf16_pair hi lo = Some c <->
  (0xD800 <= hi <= 0xDBFF /\ 0xDC00 <= lo <= 0xDFFF /\ c = 0x10000 + (hi - 0xD800) * 1024 + (lo - 0xDC00)).
Proof.
  unfold decode_utf16_pair.
  destruct (in_range 0xD800 0xDBFF hi) eqn:H1; destruct (in_range 0xDC00 0xDFFF lo) eqn:H2; cbn [andb].
  - apply in_range_iff in H1, H2. rewrite (lor_shiftl_add (hi - 0xD800) (lo - 0xDC00) 10) by (cbn; lia).
    change (2 ^ 10) with 1024. split.
    + intros E. assert (E' : c = 0x10000 + ((hi - 0xD800) * 1024 + (lo - 0xDC00))) by congruence.
      repeat split; lia.
    + intros [_ [_ ->]]. f_equal. lia.
  - apply in_range_iff in H1. apply in_range_false_iff in H2. split; [discriminate|lia].
  - apply in_range_false_iff in H1. split; [discriminate|lia].
  - apply in_range_false_iff in H1. split; [discriminate|lia].
Qed.

(* every supplementary-plane scalar value is reached by exactly its UTF-16 pair *)
Theorem surrogate_pair_onto c : 0x10000 <= c <= 0x10FFFF ->
  decode_utf16_pair (0xD800 + (c - 0x10000) / 1024) (0xDC00 + (c - 0x10000) mod 1024) = Some c /\
  is_scalar c = true.
Proof.
  intros H. split; [|apply is_scalar_iff; lia].
  apply surrogate_pair_value.
  pose proof (N.div_mod (c - 0x10000) 1024 ltac:(lia)) as E.
  pose proof (N.mod_lt (c - 0x10000) 1024 ltac:(lia)) as L.
  assert ((c - 0x10000) / 1024 < 1024) by (apply N.div_lt_upper_bound; lia).
  set (q := (c - 0x10000) / 1024) in *. set (r := (c - 0x10000) mod 1024) in *. lia.
Qed.


(* ---- quoted strings: the grammar on code points ---- *)
Definition hex4 (cps : list N) : option (N * list N) :=
  match cps with
  | a :: b :: c :: d :: r =>
      match hex_from_digit a, hex_from_digit b, hex_from_digit c, hex_from_digit d with
      | Some x, Some y, Some z, Some w => Some (((x * 16 + y) * 16 + z) * 16 + w, r)
      | _, _, _, _ => None
      end
  | _ => None
  end.

Definition cons_fst (ch : N) (o : option (list N * list N)) : option (list N * list N) :=
  match o with Some (s, t) => Some (ch :: s, t) | None => None end.

Definition escape_spec (r : list N) : option (N * list N) :=
  match r with
  | [] => None
  | e :: r1 =>
      match assoc_byte e escape_table with
      | Some ch => Some (ch, r1)
      | None =>
          if e =? 117 then
            match hex4 r1 with
            | None => None
            | Some (cu1, r2) =>
                if is_surrogate cu1 then
                  match r2 with
                  | 92 :: 117 :: r3 =>
                      match hex4 r3 with
                      | Some (cu2, r4) =>
                          match decode_utf16_pair cu1 cu2 with
                          | Some ch => Some (ch, r4)
                          | None => None
                          end
                      | None => None
                      end
                  | _ => None
                  end
                else Some (cu1, r2)
            end
          else None
      end
  end.

Fixpoint quoted_spec (fuel : nat) (delim : N) (cps : list N) : option (list N * list N) :=
  match fuel with
  | O => None
  | S f =>
      match cps with
      | [] => None
      | c :: r =>
          if c =? delim then Some ([], r)
          else if c =? 92 then
            match escape_spec r with
            | Some (ch, r') => cons_fst ch (quoted_spec f delim r')
            | None => None
            end
          else cons_fst c (quoted_spec f delim r)
      end
  end.

Lemma hex_digit_facts x d : hex_from_digit x = Some d -> x < 128 /\ d < 16.
Proof.
  unfold hex_from_digit.
  destruct (in_range 48 57 x) eqn:A; [apply in_range_iff in A; intros H; inversion H; lia|].
  destruct (in_range 97 102 x) eqn:B; [apply in_range_iff in B; intros H; inversion H; lia|].
  destruct (in_range 65 70 x) eqn:C; [apply in_range_iff in C; intros H; inversion H; lia|discriminate].
Qed.

Lemma lor4 x y : y < 16 -> N.lor (N.shiftl x 4) y = x * 16 + y.
Proof. intros H. rewrite (lor_shiftl_add x y 4) by exact H. reflexivity. Qed.

Lemma lor_hex4 a b c d : b < 16 -> c < 16 -> d < 16 ->
  N.lor (N.lor (N.lor (N.shiftl a 12) (N.shiftl b 8)) (N.shiftl c 4)) d = ((a * 16 + b) * 16 + c) * 16 + d.
Proof.
  intros Hb Hc Hd.
  replace (N.shiftl a 12) with (N.shiftl (N.shiftl (N.shiftl a 4) 4) 4) by (rewrite !N.shiftl_shiftl; reflexivity).
  replace (N.shiftl b 8) with (N.shiftl (N.shiftl b 4) 4) by (rewrite N.shiftl_shiftl; reflexivity).
  rewrite <- !N.shiftl_lor. rewrite (lor4 a b Hb), (lor4 _ c Hc). apply lor4, Hd.
Qed.

Lemma eat_map_byte_inv {R} (f : N -> option R) c x c' :
  eat_map_byte f c = Some (x, c') -> exists b, f b = Some x /\ rest c = b :: rest c'.
Proof.
  intros H. apply eat_map_byte_ext in H as [b [Hf [E _]]]. exists b. split; [exact Hf|exact E].
Qed.

Lemma bytes_ok_tail b r : bytes_ok (b :: r) -> bytes_ok r.
Proof. intros H. inversion H; assumption. Qed.

Lemma eat_codeunit_value c cu c' : bytes_ok (rest c) -> eat_codeunit c = (Some cu, c') ->
  bytes_ok (rest c') /\ hex4 (lossy (rest c)) = Some (cu, lossy (rest c')).
Proof.
  intros B H. unfold eat_codeunit in H.
  destruct (eat_map_byte hex_from_digit c) as [[d0 c1]|] eqn:M0; [|discriminate].
  destruct (eat_map_byte hex_from_digit c1) as [[d1 c2]|] eqn:M1; [|discriminate].
  destruct (eat_map_byte hex_from_digit c2) as [[d2 c3]|] eqn:M2; [|discriminate].
  destruct (eat_map_byte hex_from_digit c3) as [[d3 c4]|] eqn:M3; [|discriminate].
  inversion H; subst. clear H.
  apply eat_map_byte_inv in M0 as [x0 [H0 R0]]. apply eat_map_byte_inv in M1 as [x1 [H1 R1]].
  apply eat_map_byte_inv in M2 as [x2 [H2 R2]]. apply eat_map_byte_inv in M3 as [x3 [H3 R3]].
  rewrite R0 in B. pose proof (bytes_ok_tail _ _ B) as B1. rewrite R1 in B1.
  pose proof (bytes_ok_tail _ _ B1) as B2. rewrite R2 in B2.
  pose proof (bytes_ok_tail _ _ B2) as B3. rewrite R3 in B3. pose proof (bytes_ok_tail _ _ B3) as B4.
  split; [exact B4|].
  destruct (hex_digit_facts _ _ H0) as [A0 D0]. destruct (hex_digit_facts _ _ H1) as [A1 D1].
  destruct (hex_digit_facts _ _ H2) as [A2 D2]. destruct (hex_digit_facts _ _ H3) as [A3 D3].
  rewrite R0, R1, R2, R3.
  rewrite (lossy_ascii x0) by (try exact A0; repeat (constructor; try lia); exact B4).
  rewrite (lossy_ascii x1) by (try exact A1; repeat (constructor; try lia); exact B4).
  rewrite (lossy_ascii x2) by (try exact A2; repeat (constructor; try lia); exact B4).
  rewrite (lossy_ascii x3) by (try exact A3; exact B4).
  unfold hex4. rewrite H0, H1, H2, H3. rewrite lor_hex4 by assumption. reflexivity.
Qed.

Lemma escape_key_ascii b ch : assoc_byte b escape_table = Some ch -> b < 128.
Proof.
  unfold escape_table. cbn [assoc_byte].
  repeat match goal with |- context[if b =? ?k then _ else _] => destruct (N.eqb_spec b k); [intros _; lia|] end.
  discriminate.
Qed.

Lemma lossy_len_cons x t bs : lossy bs = x :: t -> (length t < length (lossy bs))%nat.
Proof. intros ->. cbn. lia. Qed.

Lemma escape_value len start c1 ch c2 : bytes_ok (rest c1) ->
  lex_escape len start c1 = Ok (ch, c2) ->
  escape_spec (lossy (rest c1)) = Some (ch, lossy (rest c2)) /\ bytes_ok (rest c2) /\
  (length (lossy (rest c2)) < length (lossy (rest c1)))%nat.
Proof.
  intros B H. unfold lex_escape in H.
  destruct (usub (pos c1) 1) as [es| | |]; try discriminate. cbn [obind] in H.
  destruct (eat_map_byte (fun b => assoc_byte b escape_table) c1) as [[ch' c2']|] eqn:M.
  { inversion H; subst. apply eat_map_byte_inv in M as [b [Hb R]].
    rewrite R in B. pose proof (bytes_ok_tail _ _ B) as B2.
    rewrite R, (lossy_ascii b _ (escape_key_ascii _ _ Hb) B2). cbn [escape_spec]. rewrite Hb.
    split; [reflexivity|]. split; [exact B2|cbn; lia]. }
  destruct (eat_byte 117 c1) as [cu|] eqn:U.
  2:{ destruct (eat_any_char c1) as [[[c2' oc]|]| | |]; cbn [obind] in H; try discriminate;
      unfold fail in H; destruct (make_span _ _ _); discriminate. }
  pose proof (eat_byte_inv _ _ _ U) as RU. rewrite RU in B. pose proof (bytes_ok_tail _ _ B) as BU.
  rewrite RU, (lossy_ascii 117 _ ltac:(lia) BU). cbn [escape_spec]. change (assoc_byte 117 escape_table) with (@None N).
  rewrite N.eqb_refl.
  destruct (eat_codeunit cu) as [[cu1|] c3] eqn:C1.
  2:{ unfold fail in H. destruct (make_span _ _ _); discriminate. }
  destruct (eat_codeunit_value _ _ _ BU C1) as [B3 HX]. rewrite HX.
  assert (L3 : (length (lossy (rest c3)) + 4 <= length (lossy (rest cu)))%nat).
  { unfold hex4 in HX. destruct (lossy (rest cu)) as [|a [|b [|c [|d r]]]]; try discriminate.
    destruct (hex_from_digit a), (hex_from_digit b), (hex_from_digit c), (hex_from_digit d); try discriminate.
    inversion HX. cbn. lia. }
  destruct (is_surrogate cu1) eqn:SG.
  - destruct (eat_slice [92; 117] c3) as [c4|] eqn:SL.
    + apply eat_slice_ext in SL. destruct SL as [R4 _]. cbn [app] in R4.
      rewrite R4 in B3. pose proof (bytes_ok_tail _ _ (bytes_ok_tail _ _ B3)) as B4.
      rewrite R4. rewrite (lossy_ascii 92) by (try lia; apply (bytes_ok_tail _ _ B3)).
      rewrite (lossy_ascii 117 _ ltac:(lia) B4).
      destruct (eat_codeunit c4) as [[cu2|] c5] eqn:C2.
      2:{ unfold fail in H. destruct (make_span _ _ _); discriminate. }
      destruct (eat_codeunit_value _ _ _ B4 C2) as [B5 HY]. rewrite HY.
      assert (L5 : (length (lossy (rest c5)) + 4 <= length (lossy (rest c4)))%nat).
      { unfold hex4 in HY. destruct (lossy (rest c4)) as [|a [|b [|c [|d r]]]]; try discriminate.
        destruct (hex_from_digit a), (hex_from_digit b), (hex_from_digit c), (hex_from_digit d); try discriminate.
        inversion HY. cbn. lia. }
      destruct (decode_utf16_pair cu1 cu2) as [chp|].
      * inversion H; subst. split; [reflexivity|]. split; [exact B5|].
        rewrite R4 in L3. rewrite (lossy_ascii 92) in L3 by (try lia; apply (bytes_ok_tail _ _ B3)).
        rewrite (lossy_ascii 117 _ ltac:(lia) B4) in L3. cbn [length] in *. lia.
      * unfold fail in H. destruct (make_span _ _ _); discriminate.
    + destruct (is_scalar cu1) eqn:SC.
      * exfalso. apply is_scalar_iff in SC. unfold is_surrogate in SG. apply in_range_iff in SG.
        assert (cu1 < 65536).
        { unfold hex4 in HX. destruct (lossy (rest cu)) as [|a [|b [|c [|d r]]]]; try discriminate.
          destruct (hex_from_digit a) as [x|] eqn:Ea, (hex_from_digit b) as [y|] eqn:Eb,
                   (hex_from_digit c) as [z|] eqn:Ec, (hex_from_digit d) as [w|] eqn:Ed; try discriminate.
          apply hex_digit_facts in Ea, Eb, Ec, Ed. inversion HX. lia. }
        lia.
      * unfold fail in H. destruct (make_span _ _ _); discriminate.
  - destruct (is_scalar cu1).
    + inversion H; subst. split; [reflexivity|]. split; [exact B3|cbn [length]; lia].
    + unfold fail in H. destruct (make_span _ _ _); discriminate.
Qed.

Theorem quoted_string_value len start delim : delim < 128 -> delim <> 92 -> forall fuel c s c' fs,
  bytes_ok (rest c) -> quoted_loop len fuel start delim c = Ok (s, c') ->
  (length (lossy (rest c)) < fs)%nat ->
  quoted_spec fs delim (lossy (rest c)) = Some (s, lossy (rest c')) /\ bytes_ok (rest c').
Proof.
  intros Hd Hq. induction fuel as [|f IH]; intros c s c' fs B H FS; [discriminate|].
  destruct fs as [|fs]; [lia|]. cbn [quoted_loop] in H.
  destruct (eat_byte delim c) as [c1|] eqn:D1.
  - inversion H; subst. pose proof (eat_byte_inv _ _ _ D1) as R1. rewrite R1 in B.
    pose proof (bytes_ok_tail _ _ B) as B1. rewrite R1, (lossy_ascii delim _ Hd B1).
    cbn [quoted_spec]. rewrite N.eqb_refl. split; [reflexivity|exact B1].
  - destruct (eat_byte 92 c) as [c1|] eqn:BS.
    + pose proof (eat_byte_inv _ _ _ BS) as R1. rewrite R1 in B. pose proof (bytes_ok_tail _ _ B) as B1.
      destruct (lex_escape len start c1) as [[ch c2]| | |] eqn:LE; try discriminate. cbn [obind] in H.
      destruct (escape_value _ _ _ _ _ B1 LE) as [ES [B2 L2]].
      destruct (quoted_loop len f start delim c2) as [[s2 c3]| | |] eqn:LP; try discriminate.
      cbn [obind] in H. inversion H; subst.
      rewrite R1, (lossy_ascii 92 _ ltac:(lia) B1) in FS |- *. cbn [length] in FS.
      destruct (IH _ _ _ fs B2 LP ltac:(lia)) as [E B3]. split; [|exact B3].
      cbn [quoted_spec]. destruct (N.eqb_spec 92 delim); [congruence|]. rewrite N.eqb_refl, ES, E. reflexivity.
    + destruct (eat_any_char c) as [[[c1 oc]|]| | |] eqn:EA; try discriminate; cbn [obind] in H.
      2:{ unfold fail in H. destruct (make_span len start (pos c)); discriminate. }
      destruct (eat_any_char_inv _ _ _ B EA) as [b0 [r [R [L [B1 [A NA]]]]]].
      destruct (quoted_loop len f start delim c1) as [[s2 c3]| | |] eqn:LP; try discriminate.
      cbn [obind] in H. inversion H; subst.
      rewrite L in FS |- *. cbn [length] in FS.
      destruct (IH _ _ _ fs B1 LP ltac:(lia)) as [E B3]. split; [|exact B3].
      cbn [quoted_spec]. rewrite E.
      assert (Hne : or_replacement oc <> delim /\ or_replacement oc <> 92).
      { destruct (eat_byte_none _ _ D1) as [R0|[x [r' [R' Hx]]]]; [rewrite R0 in R; discriminate|].
        destruct (eat_byte_none _ _ BS) as [R0|[x2 [r2 [R2 Hx2]]]]; [rewrite R0 in R; discriminate|].
        rewrite R in R', R2. inversion R'; inversion R2; subst.
        destruct (N.lt_ge_cases x2 128) as [Lt|Ge]; [rewrite (A Lt); split; assumption|specialize (NA Ge); lia]. }
      destruct Hne as [N1 N2].
      destruct (N.eqb_spec (or_replacement oc) delim); [congruence|].
      destruct (N.eqb_spec (or_replacement oc) 92); [congruence|reflexivity].
Qed.

(* ---- numbers: shape of the token (partial; the value statement is not proved) ---- *)
Definition all_digits (l : list N) : Prop := Forall (fun b => is_digit b = true) l.

Lemma num_step_digits lz st a b st' a' : num_step lz st a b = NGo st' a' ->
  all_digits (n_digits a) -> all_digits (n_digits a').
Proof.
  intros H D. unfold num_step in H.
  destruct st as [us| |us| | |us];
  repeat match type of H with
  | (if ?c then _ else _) = _ => let E := fresh "E" in destruct c eqn:E
  end; inversion H; subst; cbn [n_digits push_digit set_expl set_sign]; try exact D;
  constructor; assumption.
Qed.

Lemma num_loop_digits len lz : forall r ps st a a' c',
  num_loop len lz r ps st a = Ok (a', c') -> all_digits (n_digits a) -> all_digits (n_digits a').
Proof.
  assert (STOP : forall st a c a' c', num_stop len st a c = Ok (a', c') -> a' = a).
  { intros st a c a' c' H. unfold num_stop in H.
    destruct st as [[|]| |[|]| | |[|]]; try (inversion H; reflexivity);
      destruct (usub (pos c) _); cbn [obind] in H; try discriminate;
      unfold fail in H; destruct (make_span _ _ _); discriminate. }
  induction r as [|b r IH]; intros ps st a a' c' H D; cbn [num_loop] in H.
  - apply STOP in H. subst. exact D.
  - destruct (num_step lz st a b) as [st1 a1| |] eqn:S.
    + eapply IH; [exact H|]. eapply num_step_digits; eassumption.
    + destruct (usub (ps + 1) 2); cbn [obind] in H; try discriminate.
      destruct (usub (ps + 1) 1); cbn [obind] in H; try discriminate.
      unfold fail in H. destruct (make_span _ _ _); discriminate.
    + apply STOP in H. subst. exact D.
Qed.

Theorem number_shape len start b0 c t c' : lex_number len start b0 c = Ok (t, c') ->
  exists n, tok_kind t = TNumber n /\ all_digits (num_digits n) /\ num_digits n <> [] /\
            (i64_min <= num_exp n <= i64_max)%Z.
Proof.
  intros H. unfold lex_number in H. destruct (is_digit b0) eqn:D0; [|discriminate]. cbn [negb] in H.
  destruct (num_loop len (b0 =? 48) (rest c) (pos c) (NInt false) _) as [[a c1]| | |] eqn:L; try discriminate.
  cbn [obind] in H.
  pose proof (num_loop_digits _ _ _ _ _ _ _ _ L) as DG. cbn [n_digits] in DG.
  specialize (DG ltac:(constructor; [exact D0|constructor])).
  destruct (eff_exp a) as [e|] eqn:EE.
  - unfold commit in H. destruct (make_span _ _ _); cbn [obind] in H; try discriminate. inversion H; subst.
    eexists. split; [reflexivity|]. cbn [num_digits num_exp]. split; [apply Forall_rev, DG|]. split.
    + (* at least the first digit *)
      intros E. apply (f_equal (@length N)) in E. rewrite rev_length in E.
      assert (LN : forall r ps st x x' cc, num_loop len (b0 =? 48) r ps st x = Ok (x', cc) ->
                   (length (n_digits x) <= length (n_digits x'))%nat).
      { induction r as [|b r IH]; intros ps st x x' cc HL; cbn [num_loop] in HL.
        - unfold num_stop in HL. destruct st as [[|]| |[|]| | |[|]]; try (inversion HL; lia);
            destruct (usub _ _); cbn [obind] in HL; try discriminate;
            unfold fail in HL; destruct (make_span _ _ _); discriminate.
        - destruct (num_step (b0 =? 48) st x b) as [st1 x1| |] eqn:S.
          + apply IH in HL. assert ((length (n_digits x) <= length (n_digits x1))%nat); [|lia].
            unfold num_step in S. destruct st as [us| |us| | |us];
            repeat match type of S with (if ?c then _ else _) = _ => destruct c end;
            inversion S; subst; cbn [n_digits push_digit set_expl set_sign length]; lia.
          + destruct (usub (ps + 1) 2); cbn [obind] in HL; try discriminate.
            destruct (usub (ps + 1) 1); cbn [obind] in HL; try discriminate.
            unfold fail in HL. destruct (make_span _ _ _); discriminate.
          + unfold num_stop in HL. destruct st as [[|]| |[|]| | |[|]]; try (inversion HL; lia);
              destruct (usub _ _); cbn [obind] in HL; try discriminate;
              unfold fail in HL; destruct (make_span _ _ _); discriminate. }
      apply LN in L. cbn [n_digits length] in L. cbn [length] in E. lia.
    + unfold eff_exp in EE. destruct (n_expl a) as [x|]; [|discriminate].
      destruct (i64_max <? Z.of_N x)%Z; [discriminate|].
      match type of EE with (if ?c then _ else _) = _ => destruct c eqn:RG end; [discriminate|].
      inversion EE; subst. apply orb_false_iff in RG as [R1 R2].
      apply Z.ltb_ge in R1, R2. lia.
  - unfold fail in H. destruct (make_span _ _ _); discriminate.
Qed.
