(* Proofs/Parser_inv.v — invariants of the parser model (Model/Parser.v), for every
   precedence table, every fuel and every token list.

   Stage 1 (parse_error_at_token): a reported error is located at a token of the
     input, and names that token.
   Stage 2 (parse_no_panic, parse_root_span_in_range): on well-formed token lists
     (what the lexer guarantees) no panic site of the parser is reachable, and the
     span of the parsed expression lies inside the file.
   Stage 3 (span_nesting): every node of the parsed AST has an ordered span that
     contains the spans of all its children ([within], monotone: [within_mono]).

   All are proved with a small Hoare logic over the state monad [P]: rule-based for
   stage 1 ([hoare0]), weakest-precondition symbolic execution ([wp], [hw]) for
   stages 2 and 3. *)
From RJ Require Import Base.Outcome Model.Token Model.Ast Model.Parser.
From Coq Require Import Lia.
Local Open Scope list_scope.
Local Open Scope N_scope.

(* ================================================================ STAGE 1 *)

Lemma make_comp_go_no_err ms : forall l1 l2 fld e, make_comp_go ms l1 l2 fld <> Err e.
Proof.
  induction ms as [|m ms IH]; intros l1 l2 fld e; cbn [make_comp_go]; [discriminate|].
  repeat (match goal with |- (match ?x with _ => _ end) <> _ => destruct x end);
    try discriminate; apply IH.
Qed.

Lemma make_comp_no_err ms cs e : make_comp ms cs <> Err e.
Proof.
  unfold make_comp. destruct (make_comp_go ms [] [] None) as [[[l1 l2] [[[n p] b]|]]|e'|site|] eqn:Hgo;
    try discriminate.
  exfalso. exact (make_comp_go_no_err _ _ _ _ _ Hgo).
Qed.

Section Stage1.
  Variable toks : list token.

  (* the parser's window is a suffix of the input *)
  Definition I0 (s : pst) : Prop := exists pre, toks = pre ++ cur s :: rest s.

  Definition E0 (e : parse_error) : Prop :=
    exists t, In t toks /\ pe_span e = tok_span t /\ actual_of (tok_kind t) = Some (pe_instead e).

  Definition hoare0 {A} (m : P A) : Prop :=
    forall s, I0 s ->
      match m s with Ok (_, s') => I0 s' | Err e => E0 e | Panic _ => True | OutOfFuel => True end.

  Lemma h0_ret A (a : A) : hoare0 (ret a).
  Proof. intros s Hs. exact Hs. Qed.

  Lemma h0_bind A B (m : P A) (f : A -> P B) :
    hoare0 m -> (forall a, hoare0 (f a)) -> hoare0 (bindP m f).
  Proof.
    intros Hm Hf s Hs. unfold bindP. specialize (Hm s Hs).
    destruct (m s) as [[a s']|e|site|]; auto. exact (Hf a s' Hm).
  Qed.

  Lemma h0_orelse A B (m : P (option A)) (f : A -> P B) (k : unit -> P B) :
    hoare0 m -> (forall a, hoare0 (f a)) -> hoare0 (k tt) -> hoare0 (orelse m f k).
  Proof.
    intros Hm Hf Hk s Hs. unfold orelse. specialize (Hm s Hs).
    destruct (m s) as [[[a|] s']|e|site|]; auto. exact (Hf a s' Hm). exact (Hk s' Hm).
  Qed.

  Lemma h0_call A (m : P A) : hoare0 m -> hoare0 (call m).
  Proof.
    intros Hm s Hs. unfold call. cbv zeta.
    pose proof (Hm {| cur := cur s; rest := rest s; exps := exps s; dcur := N.succ (dcur s);
                      dmax := N.max (dmax s) (N.succ (dcur s)) |} Hs) as H.
    destruct (m _) as [[a s']|e|site|]; auto.
  Qed.

  Lemma h0_lift A (o : outcome A parse_error) : (forall e, o <> Err e) -> hoare0 (lift o).
  Proof. intros Ho s Hs. unfold lift. destruct o as [a|e|site|]; auto. exfalso. exact (Ho e eq_refl). Qed.

  Lemma h0_panic A site : hoare0 (@panic A site).
  Proof. intros s Hs. exact I. Qed.

  Lemma h0_oof A : hoare0 (@out_of_fuel A).
  Proof. intros s Hs. exact I. Qed.

  Lemma h0_ifs A (b : pst -> bool) (m1 m2 : P A) :
    hoare0 m1 -> hoare0 m2 -> hoare0 (fun s => if b s then m1 s else m2 s).
  Proof. intros H1 H2 s Hs. cbv beta. destruct (b s); [exact (H1 s Hs)|exact (H2 s Hs)]. Qed.

  Lemma h0_next_token : hoare0 next_token.
  Proof.
    intros s [pre Hs]. unfold next_token. destruct (rest s) as [|t r]; [exact I|].
    exists (pre ++ [cur s]). cbn [cur rest]. rewrite <- app_assoc. exact Hs.
  Qed.

  Lemma h0_push_expected x : hoare0 (push_expected x).
  Proof. intros s Hs. exact Hs. Qed.

  Lemma h0_report A : hoare0 (@report_expected A).
  Proof.
    intros s [pre Hs]. unfold report_expected. destruct (actual_of (tok_kind (cur s))) as [a|] eqn:Ha; [|exact I].
    exists (cur s). cbn [pe_span pe_instead]. repeat split; [|exact Ha].
    rewrite Hs. apply in_or_app. right. left. reflexivity.
  Qed.

  Lemma h0_miss A x add : hoare0 (@miss A x add).
  Proof. intros s Hs. unfold miss. destruct add; exact Hs. Qed.

  Lemma h0_eat_eof add : hoare0 (eat_eof add).
  Proof.
    intros s Hs. unfold eat_eof. destruct (tok_kind (cur s)); try (destruct add; exact Hs).
    destruct (rest s); [exact Hs|exact I].
  Qed.

  Lemma h0_nt_ret A (f : token -> A) : hoare0 (t <- next_token ;; ret (f t)).
  Proof. apply h0_bind; [apply h0_next_token|intros a; apply h0_ret]. Qed.

  Lemma h0_eat_simple k add : hoare0 (eat_simple k add).
  Proof.
    intros s Hs. unfold eat_simple. destruct (is_simple k (cur s)); cbv beta iota.
    - exact (h0_nt_ret (option span) (fun t => Some (tok_span t)) s Hs).
    - exact (h0_miss span _ _ s Hs).
  Qed.

  Lemma h0_expect_simple k add : hoare0 (expect_simple k add).
  Proof.
    unfold expect_simple. apply h0_orelse; [apply h0_eat_simple|intros a; apply h0_ret|apply h0_report].
  Qed.

  Lemma h0_eat_ident add : hoare0 (eat_ident add).
  Proof.
    intros s Hs. unfold eat_ident.
    destruct (tok_kind (cur s)) as [| | | | |v| | |]; cbv beta iota; try exact (h0_miss ident _ _ s Hs).
    exact (h0_nt_ret (option ident) (fun t => Some {| id_value := v; id_span := tok_span t |}) s Hs).
  Qed.

  Lemma h0_expect_ident add : hoare0 (expect_ident add).
  Proof.
    unfold expect_ident. apply h0_orelse; [apply h0_eat_ident|intros a; apply h0_ret|apply h0_report].
  Qed.

  Lemma h0_eat_number add : hoare0 (eat_number add).
  Proof.
    intros s Hs. unfold eat_number.
    destruct (tok_kind (cur s)) as [| | | | | |n| |]; cbv beta iota; try exact (h0_miss (number * span)%type _ _ s Hs).
    exact (h0_nt_ret (option (number * span)) (fun t => Some (n, tok_span t)) s Hs).
  Qed.

  Lemma h0_eat_string add : hoare0 (eat_string add).
  Proof.
    intros s Hs. unfold eat_string.
    destruct (tok_kind (cur s)) as [| | | | | | |x|]; cbv beta iota; try exact (h0_miss (str * span)%type _ _ s Hs).
    exact (h0_nt_ret (option (str * span)) (fun t => Some (x, tok_span t)) s Hs).
  Qed.

  Lemma h0_eat_text_block add : hoare0 (eat_text_block add).
  Proof.
    intros s Hs. unfold eat_text_block.
    destruct (tok_kind (cur s)) as [| | | | | | | |x]; cbv beta iota; try exact (h0_miss (str * span)%type _ _ s Hs).
    exact (h0_nt_ret (option (str * span)) (fun t => Some (x, tok_span t)) s Hs).
  Qed.

  Lemma h0_mk_span a b : hoare0 (mk_span a b).
  Proof. intros s Hs. unfold mk_span. destruct (fst a <=? snd b); [exact Hs|exact I]. Qed.

  Lemma h0_make_comp ms cs : hoare0 (lift (make_comp ms cs)).
  Proof. apply h0_lift. intros e. apply make_comp_no_err. Qed.

  Create HintDb h0db discriminated.
  #[local] Hint Resolve h0_next_token h0_push_expected h0_report h0_miss h0_eat_eof h0_eat_simple
    h0_expect_simple h0_eat_ident h0_expect_ident h0_eat_number h0_eat_string h0_eat_text_block
    h0_mk_span h0_make_comp h0_ret h0_panic h0_oof : h0db.

  (* syntax-directed decomposition *)
  Ltac h0step :=
    match goal with
    | |- hoare0 (bindP _ _) => apply h0_bind; [|intro; cbv beta]
    | |- hoare0 (orelse _ _ _) => apply h0_orelse; [|intro; cbv beta|cbv beta]
    | |- hoare0 (call _) => apply h0_call
    | |- hoare0 (fun s => if _ then _ else _) => apply h0_ifs
    | |- hoare0 (match ?x with _ => _ end) => destruct x
    | |- hoare0 (let _ := _ in _) => cbv zeta
    | |- hoare0 _ => solve [auto with h0db nocore]
    end.
  Ltac h0 := repeat h0step.

  Lemma h0_eat_visibility add : hoare0 (eat_visibility add).
  Proof. unfold eat_visibility. h0. Qed.

  Lemma h0_eat_plus_visibility add : hoare0 (eat_plus_visibility add).
  Proof. unfold eat_plus_visibility. h0. Qed.

  Lemma h0_eat_first O (l : list (stoken * O)) : hoare0 (eat_first l).
  Proof. induction l as [|[tk op] r IH]; cbn [eat_first]; h0. Qed.

  #[local] Hint Resolve h0_eat_visibility h0_eat_plus_visibility h0_eat_first : h0db.

  Section Prods0.
    Variables (T : prec_table) (pexpr : P expr) (lf : nat).
    Hypothesis Hpexpr : hoare0 pexpr.

    Lemma h0_opt_expr c : hoare0 (opt_expr pexpr c).
    Proof. unfold opt_expr. h0. Qed.
    #[local] Hint Resolve h0_opt_expr : h0db.

    Lemma h0_parse_maybe_simple_expr : hoare0 parse_maybe_simple_expr.
    Proof. unfold parse_maybe_simple_expr. h0. Qed.
    #[local] Hint Resolve h0_parse_maybe_simple_expr : h0db.

    Lemma h0_maybe_parse_assert add : hoare0 (maybe_parse_assert pexpr add).
    Proof. unfold maybe_parse_assert. h0. Qed.
    #[local] Hint Resolve h0_maybe_parse_assert : h0db.

    Lemma h0_params_loop fuel : forall acc, hoare0 (params_loop pexpr fuel acc).
    Proof. induction fuel as [|f IH]; intros acc; cbn [params_loop]; h0. Qed.
    #[local] Hint Resolve h0_params_loop : h0db.

    Lemma h0_parse_params : hoare0 (parse_params pexpr lf).
    Proof. unfold parse_params. h0. Qed.
    #[local] Hint Resolve h0_parse_params : h0db.

    Lemma h0_parse_arg : hoare0 (parse_arg pexpr).
    Proof. unfold parse_arg. h0. Qed.
    #[local] Hint Resolve h0_parse_arg : h0db.

    Lemma h0_args_loop fuel : forall acc, hoare0 (args_loop pexpr fuel acc).
    Proof. induction fuel as [|f IH]; intros acc; cbn [args_loop]; h0. Qed.
    #[local] Hint Resolve h0_args_loop : h0db.

    Lemma h0_parse_args : hoare0 (parse_args pexpr lf).
    Proof. unfold parse_args. h0. Qed.
    #[local] Hint Resolve h0_parse_args : h0db.

    Lemma h0_parse_bind : hoare0 (parse_bind pexpr lf).
    Proof. unfold parse_bind. h0. Qed.
    #[local] Hint Resolve h0_parse_bind : h0db.

    Lemma h0_maybe_parse_obj_local : hoare0 (maybe_parse_obj_local pexpr lf).
    Proof. unfold maybe_parse_obj_local. h0. Qed.
    #[local] Hint Resolve h0_maybe_parse_obj_local : h0db.

    Lemma h0_maybe_parse_for_spec : hoare0 (maybe_parse_for_spec pexpr).
    Proof. unfold maybe_parse_for_spec. h0. Qed.
    #[local] Hint Resolve h0_maybe_parse_for_spec : h0db.

    Lemma h0_maybe_parse_if_spec : hoare0 (maybe_parse_if_spec pexpr).
    Proof. unfold maybe_parse_if_spec. h0. Qed.
    #[local] Hint Resolve h0_maybe_parse_if_spec : h0db.

    Lemma h0_comp_spec_loop fuel : forall acc, hoare0 (comp_spec_loop pexpr fuel acc).
    Proof. induction fuel as [|f IH]; intros acc; cbn [comp_spec_loop]; h0. Qed.
    #[local] Hint Resolve h0_comp_spec_loop : h0db.

    Lemma h0_maybe_parse_comp_spec : hoare0 (maybe_parse_comp_spec pexpr lf).
    Proof. unfold maybe_parse_comp_spec. h0. Qed.
    #[local] Hint Resolve h0_maybe_parse_comp_spec : h0db.

    Lemma h0_maybe_parse_field_name : hoare0 (maybe_parse_field_name pexpr).
    Proof. unfold maybe_parse_field_name. h0. Qed.
    #[local] Hint Resolve h0_maybe_parse_field_name : h0db.

    Lemma h0_maybe_parse_field : hoare0 (maybe_parse_field pexpr lf).
    Proof. unfold maybe_parse_field. h0. Qed.
    #[local] Hint Resolve h0_maybe_parse_field : h0db.

    Lemma h0_comp_tail ms : hoare0 (comp_tail pexpr lf ms).
    Proof. unfold comp_tail. h0. Qed.
    #[local] Hint Resolve h0_comp_tail : h0db.

    Lemma h0_obj_loop fuel : forall ms c d, hoare0 (obj_loop pexpr lf fuel ms c d).
    Proof. induction fuel as [|f IH]; intros ms c d; cbn [obj_loop]; h0. Qed.
    #[local] Hint Resolve h0_obj_loop : h0db.

    Lemma h0_parse_obj_inside : hoare0 (parse_obj_inside pexpr lf).
    Proof. unfold parse_obj_inside. h0. Qed.
    #[local] Hint Resolve h0_parse_obj_inside : h0db.

    Lemma h0_idx3 : hoare0 (idx3 pexpr).
    Proof. unfold idx3. h0. Qed.
    #[local] Hint Resolve h0_idx3 : h0db.

    Lemma h0_after2 : hoare0 (after2 pexpr).
    Proof. unfold after2. h0. Qed.
    #[local] Hint Resolve h0_after2 : h0db.

    Lemma h0_fin_slice lhs a b c e : hoare0 (fin_slice lhs a b c e).
    Proof. unfold fin_slice. h0. Qed.
    #[local] Hint Resolve h0_fin_slice : h0db.

    Lemma h0_parse_index_expr lhs : hoare0 (parse_index_expr pexpr lhs).
    Proof. unfold parse_index_expr. h0. Qed.
    #[local] Hint Resolve h0_parse_index_expr : h0db.

    Lemma h0_suffix_loop fuel : forall lhs, hoare0 (suffix_loop pexpr lf fuel lhs).
    Proof. induction fuel as [|f IH]; intros lhs; cbn [suffix_loop]; h0. Qed.
    #[local] Hint Resolve h0_suffix_loop : h0db.

    Lemma h0_parse_suffix_expr e : hoare0 (parse_suffix_expr pexpr lf e).
    Proof. unfold parse_suffix_expr. h0. Qed.
    #[local] Hint Resolve h0_parse_suffix_expr : h0db.

    Lemma h0_binds_loop fuel : forall acc, hoare0 (binds_loop pexpr lf fuel acc).
    Proof. induction fuel as [|f IH]; intros acc; cbn [binds_loop]; h0. Qed.
    #[local] Hint Resolve h0_binds_loop : h0db.

    Lemma h0_prefix_form start mk : hoare0 (prefix_form pexpr start mk).
    Proof. unfold prefix_form. h0. Qed.
    #[local] Hint Resolve h0_prefix_form : h0db.

    Lemma h0_pe_loop fuel : forall st stk, hoare0 (pe_loop T pexpr lf fuel st stk).
    Proof.
      induction fuel as [|f IH]; intros st stk; cbn [pe_loop]; [apply h0_oof|].
      destruct st as [e|k|k lhs| |]; [destruct stk as [|[k|k lhs op|op osp| |start|start items|start] stk']|..].
      all: h0.
    Qed.
  End Prods0.

  Lemma h0_parse_expr T fuel : hoare0 (parse_expr T fuel).
  Proof.
    induction fuel as [|f IH]; [intros s Hs; exact I|].
    change (parse_expr T (S f)) with (call (pe_loop T (parse_expr T f) f f (init_state T) [])).
    apply h0_call. apply h0_pe_loop. exact IH.
  Qed.

  Lemma h0_parse_root_expr T fuel : hoare0 (parse_root_expr T fuel).
  Proof.
    unfold parse_root_expr.
    apply h0_bind; [apply h0_parse_expr|intros e].
    apply h0_bind; [apply h0_eat_eof|intros b].
    destruct b; [apply h0_ret|apply h0_report].
  Qed.
End Stage1.

Theorem parse_error_at_token : forall T fuel toks e,
  parse_fuel T fuel toks = Err e ->
  exists t, In t toks /\ pe_span e = tok_span t /\ actual_of (tok_kind t) = Some (pe_instead e).
Proof.
  intros T fuel toks e H. unfold parse_fuel in H. destruct toks as [|t r]; [discriminate|].
  assert (Hi : I0 (t :: r) (init_pst t r)) by (exists []; reflexivity).
  pose proof (h0_parse_root_expr (t :: r) T fuel _ Hi) as Hh.
  destruct (parse_root_expr T fuel (init_pst t r)) as [[e0 s0]|e0|site|]; try discriminate.
  injection H as ->. exact Hh.
Qed.

(* ================================================================ STAGE 2 *)

(* ---------------------------------------------------------------- well-formed token lists *)

Definition is_tef (k : token_kind) : bool :=
  match k with TEndOfFile | TWhitespace | TComment => true | _ => false end.

Definition span_ok (t : token) : Prop := fst (tok_span t) <= snd (tok_span t).

(* What the lexer guarantees: the list is [body ++ [eof]], [eof] is the only
   EndOfFile, there is no Whitespace/Comment, every span is ordered and
   consecutive tokens do not overlap. *)
Definition wf_tokens (toks : list token) : Prop :=
  exists body eof,
    toks = body ++ [eof] /\
    tok_kind eof = TEndOfFile /\
    Forall (fun t => is_tef (tok_kind t) = false) body /\
    Forall span_ok toks /\
    (forall i a b, nth_error toks i = Some a -> nth_error toks (S i) = Some b ->
                   snd (tok_span a) <= fst (tok_span b)).

(* recursive form used by the proofs *)
Fixpoint wfs (l : list token) : Prop :=
  match l with
  | [] => False
  | t :: r =>
      span_ok t /\
      match r with
      | [] => tok_kind t = TEndOfFile
      | u :: _ => is_tef (tok_kind t) = false /\ snd (tok_span t) <= fst (tok_span u) /\ wfs r
      end
  end.

Fixpoint wf_tokensb (l : list token) : bool :=
  match l with
  | [] => false
  | t :: r =>
      (fst (tok_span t) <=? snd (tok_span t)) &&
      match r with
      | [] => match tok_kind t with TEndOfFile => true | _ => false end
      | u :: _ => negb (is_tef (tok_kind t)) && (snd (tok_span t) <=? fst (tok_span u)) && wf_tokensb r
      end
  end.

Lemma wfs_cons2 t u r :
  wfs (t :: u :: r) <->
  span_ok t /\ is_tef (tok_kind t) = false /\ snd (tok_span t) <= fst (tok_span u) /\ wfs (u :: r).
Proof. reflexivity. Qed.

Lemma wf_tokens_wfs l : wf_tokens l <-> wfs l.
Proof.
  split.
  - intros (body & eof & -> & Heof & Hb & Hsp & Hord). revert Hb Hsp Hord.
    induction body as [|t b IH]; intros Hb Hsp Hord.
    + cbn. split; [inversion Hsp; assumption|exact Heof].
    + cbn [app] in *. inversion Hb as [|? ? Ht Hb']; subst. inversion Hsp as [|? ? Hst Hsp']; subst.
      assert (Hw : wfs (b ++ [eof])).
      { apply IH; [assumption|assumption|]. intros i a c Ha Hc. apply (Hord (S i) a c); assumption. }
      assert (Hne : exists u r, b ++ [eof] = u :: r) by (destruct b; cbn; eauto).
      destruct Hne as (u & r & Hbe). rewrite Hbe in *. apply wfs_cons2.
      split; [assumption|]. split; [assumption|]. split; [|exact Hw].
      apply (Hord 0%nat t u); reflexivity.
  - induction l as [|t r IH]; [intros []|]. destruct r as [|u r'].
    + intros [Hst Hk]. exists [], t. split; [reflexivity|]. split; [exact Hk|].
      split; [constructor|]. split; [constructor; [exact Hst|constructor]|].
      intros i a b Ha Hb. destruct i as [|i]; cbn in Hb; [discriminate|destruct i; discriminate].
    + intros Hw. apply wfs_cons2 in Hw. destruct Hw as (Hst & Htef & Hord1 & Hw).
      destruct (IH Hw) as (body & eof & Heq & Heof & Hb & Hsp & Hord).
      exists (t :: body), eof. split; [cbn [app]; rewrite <- Heq; reflexivity|].
      split; [exact Heof|]. split; [constructor; assumption|]. split; [constructor; assumption|].
      intros i a b Ha Hb'. destruct i as [|i].
      * cbn in Ha, Hb'. injection Ha as <-. injection Hb' as <-. exact Hord1.
      * cbn [nth_error] in Ha, Hb'. apply (Hord i a b); assumption.
Qed.

Lemma wf_tokensb_wfs l : wf_tokensb l = true <-> wfs l.
Proof.
  induction l as [|t r IH]; [cbn; split; [discriminate|intros []]|].
  destruct r as [|u r'].
  - cbn. unfold span_ok. rewrite andb_true_iff, N.leb_le.
    destruct (tok_kind t); split; intros [H1 H2]; split; auto; discriminate.
  - rewrite wfs_cons2. rewrite <- IH.
    change (wf_tokensb (t :: u :: r')) with
      ((fst (tok_span t) <=? snd (tok_span t)) &&
       (negb (is_tef (tok_kind t)) && (snd (tok_span t) <=? fst (tok_span u)) && wf_tokensb (u :: r'))).
    unfold span_ok. rewrite !andb_true_iff, !N.leb_le, negb_true_iff. tauto.
Qed.

Lemma wf_tokensb_spec l : wf_tokensb l = true <-> wf_tokens l.
Proof. rewrite wf_tokens_wfs. apply wf_tokensb_wfs. Qed.

(* ---------------------------------------------------------------- the logic *)

Definition pos (s : pst) : N := fst (tok_span (cur s)).
Definition W (s : pst) : Prop := wfs (cur s :: rest s).

(* partial-correctness weakest precondition that also excludes panics *)
Definition wp {A} (o : outcome (A * pst) parse_error) (Post : A -> pst -> Prop) : Prop :=
  match o with Ok (a, s') => Post a s' | Err _ => True | Panic _ => False | OutOfFuel => True end.

(* a span lying between two positions *)
Definition sin (p : N) (sp : span) (p' : N) : Prop := p <= fst sp /\ fst sp <= snd sp /\ snd sp <= p'.

(* the general triple, specialised to: W is an invariant, positions only grow,
   pre/postconditions speak about positions *)
Definition hw {A} (R : N -> Prop) (m : P A) (Q : N -> A -> N -> Prop) : Prop :=
  forall s, W s -> R (pos s) ->
    wp (m s) (fun a s' => W s' /\ pos s <= pos s' /\ Q (pos s) a (pos s')).

Notation TT := (fun _ : N => True).

Lemma wp_conseq A (o : outcome (A * pst) parse_error) (Q1 Q2 : A -> pst -> Prop) :
  wp o Q1 -> (forall a s', Q1 a s' -> Q2 a s') -> wp o Q2.
Proof. unfold wp. destruct o as [[a s']|e|site|]; auto. Qed.

Lemma wp_ret A (a : A) s (Post : A -> pst -> Prop) : Post a s -> wp (ret a s) Post.
Proof. intros H. exact H. Qed.

Lemma wp_bind A B (m : P A) (f : A -> P B) s (Post : B -> pst -> Prop) :
  wp (m s) (fun a s' => wp (f a s') Post) -> wp (bindP m f s) Post.
Proof. unfold bindP, wp. destruct (m s) as [[a s']|e|site|]; auto. Qed.

Lemma wp_orelse A B (m : P (option A)) (f : A -> P B) (k : unit -> P B) s (Post : B -> pst -> Prop) :
  wp (m s) (fun o s' => match o with Some a => wp (f a s') Post | None => wp (k tt s') Post end) ->
  wp (orelse m f k s) Post.
Proof. unfold orelse, wp. destruct (m s) as [[[a|] s']|e|site|]; auto. Qed.

Lemma wp_mk_span a b s (Post : span -> pst -> Prop) :
  fst a <= snd b -> Post (fst a, snd b) s -> wp (mk_span a b s) Post.
Proof. intros Hle HP. unfold mk_span. apply N.leb_le in Hle. rewrite Hle. exact HP. Qed.

Lemma wp_oof A s (Post : A -> pst -> Prop) : wp (@out_of_fuel A s) Post.
Proof. exact I. Qed.

Lemma W_not_trivia s : W s -> actual_of (tok_kind (cur s)) <> None.
Proof.
  unfold W. intros HW. destruct (rest s) as [|u r]; cbn [wfs] in HW.
  - destruct HW as [_ Hk]. rewrite Hk. discriminate.
  - destruct HW as (_ & Hk & _). destruct (tok_kind (cur s)); cbn in Hk |- *; discriminate.
Qed.

Lemma wp_report A s (Post : A -> pst -> Prop) : W s -> wp (@report_expected A s) Post.
Proof.
  intros HW. unfold report_expected. pose proof (W_not_trivia s HW) as Hn.
  destruct (actual_of (tok_kind (cur s))); [exact I|congruence].
Qed.

Lemma wp_use A (R : N -> Prop) (m : P A) (Q : N -> A -> N -> Prop) s (Post : A -> pst -> Prop) :
  hw R m Q -> W s -> R (pos s) ->
  (forall a s', W s' -> pos s <= pos s' -> Q (pos s) a (pos s') -> Post a s') ->
  wp (m s) Post.
Proof.
  intros Hm HW HR HP. eapply wp_conseq; [exact (Hm s HW HR)|].
  intros a s' (HW' & Hle & HQ). exact (HP a s' HW' Hle HQ).
Qed.

Lemma hw_call A (R : N -> Prop) (m : P A) Q : hw R m Q -> hw R (call m) Q.
Proof.
  intros Hm s HW HR. unfold call. cbv zeta.
  pose proof (Hm {| cur := cur s; rest := rest s; exps := exps s; dcur := N.succ (dcur s);
                    dmax := N.max (dmax s) (N.succ (dcur s)) |} HW HR) as H.
  destruct (m _) as [[a s']|e|site|]; [exact H|exact I|exact H|exact I].
Qed.

Lemma hw_weaken A (R R' : N -> Prop) (m : P A) (Q Q' : N -> A -> N -> Prop) :
  hw R m Q -> (forall p, R' p -> R p) -> (forall p a p', p <= p' -> R' p -> Q p a p' -> Q' p a p') ->
  hw R' m Q'.
Proof.
  intros Hm HR HQ s HW HR'. eapply wp_conseq; [exact (Hm s HW (HR _ HR'))|].
  intros a s' (HW' & Hle & HQ1). split; [exact HW'|]. split; [exact Hle|]. apply HQ; assumption.
Qed.

(* ---------------------------------------------------------------- primitives *)

Lemma W_span_ok s : W s -> pos s <= snd (tok_span (cur s)).
Proof. unfold W. cbn [wfs]. intros [H _]. exact H. Qed.

Lemma wp_next_token s (Post : token -> pst -> Prop) :
  W s -> is_tef (tok_kind (cur s)) = false ->
  (forall s', W s' -> rest s = cur s' :: rest s' -> snd (tok_span (cur s)) <= pos s' -> Post (cur s) s') ->
  wp (next_token s) Post.
Proof.
  intros HW Hk HP. unfold next_token. unfold W in HW.
  destruct (rest s) as [|t r] eqn:Hr.
  - cbn [wfs] in HW. destruct HW as [_ Hk']. rewrite Hk' in Hk. discriminate.
  - apply wfs_cons2 in HW. destruct HW as (_ & _ & Hord & Hw'). cbn [wp].
    apply HP; [exact Hw'|reflexivity|exact Hord].
Qed.

Lemma wp_nt_ret B (f : token -> B) s (Post : B -> pst -> Prop) :
  W s -> is_tef (tok_kind (cur s)) = false ->
  (forall s', W s' -> rest s = cur s' :: rest s' -> snd (tok_span (cur s)) <= pos s' -> Post (f (cur s)) s') ->
  wp ((t <- next_token ;; ret (f t)) s) Post.
Proof.
  intros HW Hk HP. apply wp_bind. apply wp_next_token; [exact HW|exact Hk|].
  intros s' HW' Hr Hp. apply wp_ret. apply HP; assumption.
Qed.

Lemma wp_miss B x add s (Post : option B -> pst -> Prop) :
  W s -> (forall s', W s' -> pos s' = pos s -> Post None s') -> wp (@miss B x add s) Post.
Proof. intros HW HP. unfold miss. cbn [wp]. apply HP; destruct add; first [exact HW|reflexivity]. Qed.

Lemma is_simple_not_tef k t : is_simple k t = true -> is_tef (tok_kind t) = false.
Proof. unfold is_simple. destruct (tok_kind t); try discriminate. reflexivity. Qed.

Lemma wp_eat_simple k add s (Post : option span -> pst -> Prop) :
  W s ->
  (forall s', W s' -> is_simple k (cur s) = true -> rest s = cur s' :: rest s' ->
              snd (tok_span (cur s)) <= pos s' -> Post (Some (tok_span (cur s))) s') ->
  (forall s', W s' -> is_simple k (cur s) = false -> pos s' = pos s -> Post None s') ->
  wp (eat_simple k add s) Post.
Proof.
  intros HW Hs Hn. unfold eat_simple. destruct (is_simple k (cur s)) eqn:Hk.
  - apply (wp_nt_ret _ (fun t => Some (tok_span t))); [exact HW|exact (is_simple_not_tef _ _ Hk)|].
    intros s' HW' Hr Hp. apply Hs; auto.
  - apply wp_miss; [exact HW|]. intros s' HW' Hp. apply Hn; auto.
Qed.

Ltac prim_fin := cbv beta iota; (split; [assumption|]); unfold sin, pos in *; cbn [snd]; repeat split; lia.

Lemma hw_eat_simple k add :
  hw TT (eat_simple k add) (fun p o p' => match o with Some sp => sin p sp p' | None => True end).
Proof.
  intros s HW _. pose proof (W_span_ok s HW) as Hsp. apply wp_eat_simple; [exact HW| |].
  - intros s' HW' _ _ Hp. prim_fin.
  - intros s' HW' _ Hp. prim_fin.
Qed.

Lemma wp_eat_ident add s (Post : option ident -> pst -> Prop) :
  W s ->
  (forall i s', W s' -> peek_ident 0 s = true -> rest s = cur s' :: rest s' ->
              id_span i = tok_span (cur s) -> snd (tok_span (cur s)) <= pos s' -> Post (Some i) s') ->
  (forall s', W s' -> peek_ident 0 s = false -> pos s' = pos s -> Post None s') ->
  wp (eat_ident add s) Post.
Proof.
  intros HW Hs Hn. unfold eat_ident. unfold peek_ident, peek_tok in *.
  destruct (tok_kind (cur s)) as [| | | | |v| | |] eqn:Hk;
    try (apply wp_miss; [exact HW|]; intros s' HW' Hp; apply Hn; auto).
  apply (wp_nt_ret _ (fun t => Some {| id_value := v; id_span := tok_span t |})); [exact HW|rewrite Hk; reflexivity|].
  intros s' HW' Hr Hp. apply Hs; auto.
Qed.

Lemma hw_eat_ident add :
  hw TT (eat_ident add) (fun p o p' => match o with Some i => sin p (id_span i) p' | None => True end).
Proof.
  intros s HW _. pose proof (W_span_ok s HW) as Hsp. apply wp_eat_ident; [exact HW| |].
  - intros i s' HW' _ _ Hi Hp. cbv beta iota. rewrite Hi. prim_fin.
  - intros s' HW' _ Hp. prim_fin.
Qed.

Ltac eater_tac HW Hk Hsp f :=
  first [ apply wp_miss; [exact HW|]; intros s' HW' Hp; prim_fin
        | apply (wp_nt_ret _ f); [exact HW|rewrite Hk; reflexivity|];
          intros s' HW' Hr Hp; prim_fin ].

Lemma hw_eat_number add :
  hw TT (eat_number add) (fun p o p' => match o with Some x => sin p (snd x) p' | None => True end).
Proof.
  intros s HW _. pose proof (W_span_ok s HW) as Hsp. unfold eat_number.
  destruct (tok_kind (cur s)) as [| | | | | |n| |] eqn:Hk;
    [..|eater_tac HW Hk Hsp (fun t => Some (n, tok_span t))| |]; eater_tac HW Hk Hsp (fun t : token => @None unit).
Qed.

Lemma hw_eat_string add :
  hw TT (eat_string add) (fun p o p' => match o with Some x => sin p (snd x) p' | None => True end).
Proof.
  intros s HW _. pose proof (W_span_ok s HW) as Hsp. unfold eat_string.
  destruct (tok_kind (cur s)) as [| | | | | | |x|] eqn:Hk;
    [..|eater_tac HW Hk Hsp (fun t => Some (x, tok_span t))|]; eater_tac HW Hk Hsp (fun t : token => @None unit).
Qed.

Lemma hw_eat_text_block add :
  hw TT (eat_text_block add) (fun p o p' => match o with Some x => sin p (snd x) p' | None => True end).
Proof.
  intros s HW _. pose proof (W_span_ok s HW) as Hsp. unfold eat_text_block.
  destruct (tok_kind (cur s)) as [| | | | | | | |x] eqn:Hk;
    [..|eater_tac HW Hk Hsp (fun t => Some (x, tok_span t))]; eater_tac HW Hk Hsp (fun t : token => @None unit).
Qed.

Lemma hw_push_expected x : hw TT (push_expected x) (fun _ _ _ => True).
Proof. intros s HW _. unfold push_expected. cbn [wp]. split; [exact HW|]. split; [unfold pos; cbn; lia|exact I]. Qed.

Lemma wp_eat_eof add s (Post : bool -> pst -> Prop) :
  W s ->
  (forall s', W s' -> pos s' = pos s -> rest s' = [] -> Post true s') ->
  (forall s', W s' -> Post false s') ->
  wp (eat_eof add s) Post.
Proof.
  intros HW Ht Hf. unfold eat_eof. unfold W in HW.
  destruct (tok_kind (cur s)) eqn:Hk; try (cbn [wp]; apply Hf; destruct add; exact HW).
  destruct (rest s) as [|u r] eqn:Hr.
  - cbn [wp]. apply Ht; [unfold W; cbn [cur rest with_exps]; rewrite Hr; exact HW|reflexivity|cbn; exact Hr].
  - apply wfs_cons2 in HW. destruct HW as (_ & Hc & _). rewrite Hk in Hc. discriminate.
Qed.

(* ================================================================ STAGE 3: the nesting predicate
   (defined before the production proofs: the same symbolic execution proves the
   absence of panics and the nesting of spans) *)

Definition all {A} (P : A -> Prop) : list A -> Prop :=
  fix go (l : list A) : Prop := match l with [] => True | x :: r => P x /\ go r end.

Definition oall {A} (P : A -> Prop) (o : option A) : Prop :=
  match o with Some x => P x | None => True end.

Lemma all_Forall A (P : A -> Prop) l : all P l <-> Forall P l.
Proof.
  induction l as [|x r IH]; cbn [all].
  - split; intros _; constructor.
  - rewrite IH. split.
    + intros [H1 H2]. constructor; assumption.
    + intros H. inversion H; subst. split; assumption.
Qed.

Lemma all_mono A (P Q : A -> Prop) l : all P l -> (forall x, P x -> Q x) -> all Q l.
Proof. intros H HPQ. induction l as [|x r IH]; cbn [all] in *; [exact I|]. destruct H as [H1 H2]. split; auto. Qed.

Lemma all_app A (P : A -> Prop) l1 l2 : all P l1 -> all P l2 -> all P (l1 ++ l2).
Proof. intros H1 H2. induction l1 as [|x r IH]; cbn [all app] in *; [exact H2|]. destruct H1 as [Hx Hr]. split; auto. Qed.

(* [within p q e]: the span of [e] is ordered and inside [p,q], and every child of [e]
   (sub-expressions, identifiers, the extra spans stored in the node) is within the span of [e] *)
Fixpoint within (p q : N) (e : expr) {struct e} : Prop :=
  sin p (expr_span e) q /\
  let a := fst (expr_span e) in
  let b := snd (expr_span e) in
  match e with
  | ENull _ | EBool _ _ | ESelf _ | EDollar _ | EString _ _ | ETextBlock _ _ | ENumber _ _ => True
  | EParen _ x => within a b x
  | EObject _ o => in_obj a b o
  | EArray _ items => all (within a b) items
  | EArrayComp _ x specs => within a b x /\ all (in_spec a b) specs
  | EField _ x name => within a b x /\ sin a (id_span name) b
  | EIndex _ x i => within a b x /\ within a b i
  | ESlice _ x i j k => within a b x /\ oall (within a b) i /\ oall (within a b) j /\ oall (within a b) k
  | ESuperField _ ssp name => sin a ssp b /\ sin a (id_span name) b
  | ESuperIndex _ ssp i => sin a ssp b /\ within a b i
  | ECall _ f args _ => within a b f /\ all (in_arg a b) args
  | EIdent _ name => sin a (id_span name) b
  | ELocal _ binds body => all (in_bind a b) binds /\ within a b body
  | EIf _ c t e' => within a b c /\ within a b t /\ oall (within a b) e'
  | EBinary _ l _ r => within a b l /\ within a b r
  | EUnary _ _ x => within a b x
  | EObjExt _ x o osp => within a b x /\ sin a osp b /\ in_obj (fst osp) (snd osp) o
  | EFunc _ params body => all (in_param a b) params /\ within a b body
  | EAssert _ x body => in_assert a b x /\ within a b body
  | EImport _ x | EImportStr _ x | EImportBin _ x | EError _ x => within a b x
  | EInSuper _ x ssp => within a b x /\ sin a ssp b
  end

with in_obj (a b : N) (o : obj_inside) {struct o} : Prop :=
  match o with
  | OMembers ms => all (in_member a b) ms
  | OComp l1 name _ body l2 specs =>
      all (in_bind a b) l1 /\ within a b name /\ within a b body /\ all (in_bind a b) l2 /\
      all (in_spec a b) specs
  end

with in_member (a b : N) (m : member) {struct m} : Prop :=
  match m with
  | MLocal bd => in_bind a b bd
  | MAssert x => in_assert a b x
  | MField f => in_field a b f
  end

with in_field (a b : N) (f : field) {struct f} : Prop :=
  match f with
  | FValue name _ _ v => in_fname a b name /\ within a b v
  | FFunc name ps psp _ v =>
      in_fname a b name /\ sin a psp b /\ all (in_param (fst psp) (snd psp)) ps /\ within a b v
  end

with in_fname (a b : N) (n : field_name) {struct n} : Prop :=
  match n with
  | FnIdent i => sin a (id_span i) b
  | FnString _ sp => sin a sp b
  | FnExpr e sp => sin a sp b /\ within (fst sp) (snd sp) e
  end

with in_spec (a b : N) (c : comp_spec) {struct c} : Prop :=
  match c with
  | CFor v inner => sin a (id_span v) b /\ within a b inner
  | CIf c => within a b c
  end

with in_assert (a b : N) (x : assert_) {struct x} : Prop :=
  match x with
  | MkAssert sp cond msg =>
      sin a sp b /\ within (fst sp) (snd sp) cond /\ oall (within (fst sp) (snd sp)) msg
  end

with in_bind (a b : N) (bd : bind) {struct bd} : Prop :=
  match bd with
  | MkBind name ps v =>
      sin a (id_span name) b /\
      match ps with
      | Some (l, sp) => sin a sp b /\ all (in_param (fst sp) (snd sp)) l
      | None => True
      end /\
      within a b v
  end

with in_arg (a b : N) (x : arg) {struct x} : Prop :=
  match x with
  | APositional e => within a b e
  | ANamed n e => sin a (id_span n) b /\ within a b e
  end

with in_param (a b : N) (x : param) {struct x} : Prop :=
  match x with
  | MkParam n d => sin a (id_span n) b /\ oall (within a b) d
  end.

Lemma within_sin p q e : within p q e -> sin p (expr_span e) q.
Proof. destruct e; intros [H _]; exact H. Qed.

(* re-bounding: only the top-level containment depends on [p,q] *)
Lemma within_rebound p q e p' q' :
  within p q e -> p' <= fst (expr_span e) -> snd (expr_span e) <= q' -> within p' q' e.
Proof.
  destruct e; cbn [within expr_span]; unfold sin; intros [(H1 & H2 & H3) K] Hp Hq;
    (split; [repeat split; assumption|exact K]).
Qed.

Theorem within_mono p q e p' q' : within p q e -> p' <= p -> q <= q' -> within p' q' e.
Proof.
  intros H Hp Hq. pose proof (within_sin _ _ _ H) as (H1 & H2 & H3).
  eapply within_rebound; [exact H|lia|lia].
Qed.

Lemma sin_mono a b sp a' b' : sin a sp b -> a' <= a -> b <= b' -> sin a' sp b'.
Proof. unfold sin. lia. Qed.

Lemma oall_mono A (P Q : A -> Prop) o : oall P o -> (forall x, P x -> Q x) -> oall Q o.
Proof. destruct o; cbn; auto. Qed.

Ltac mono_hook := fail.
Ltac mm :=
  repeat first
    [ match goal with
      | H : _ /\ _ |- _ => destruct H
      | |- _ /\ _ => split
      | |- True => exact I
      | |- sin _ _ _ => eapply sin_mono; [eassumption|lia|lia]
      | |- within _ _ _ => eapply within_mono; [eassumption|lia|lia]
      | |- all _ _ => eapply all_mono; [eassumption|cbv beta; intros ? ?]
      | |- oall _ _ => eapply oall_mono; [eassumption|cbv beta; intros ? ?]
      end
    | mono_hook ].

Lemma in_param_mono a b x a' b' : in_param a b x -> a' <= a -> b <= b' -> in_param a' b' x.
Proof. destruct x as [n d]; cbn [in_param]; intros H Ha Hb; mm. Qed.
Ltac mono_hook ::= first [eapply in_param_mono; [eassumption|lia|lia]].

Lemma in_arg_mono a b x a' b' : in_arg a b x -> a' <= a -> b <= b' -> in_arg a' b' x.
Proof. destruct x; cbn [in_arg]; intros H Ha Hb; mm. Qed.

Lemma in_bind_mono a b x a' b' : in_bind a b x -> a' <= a -> b <= b' -> in_bind a' b' x.
Proof.
  destruct x as [n [[l sp]|] v]; cbn [in_bind]; intros H Ha Hb; mm; assumption.
Qed.

Lemma in_spec_mono a b x a' b' : in_spec a b x -> a' <= a -> b <= b' -> in_spec a' b' x.
Proof. destruct x; cbn [in_spec]; intros H Ha Hb; mm. Qed.

Lemma in_assert_mono a b x a' b' : in_assert a b x -> a' <= a -> b <= b' -> in_assert a' b' x.
Proof. destruct x as [sp c m]; cbn [in_assert]; intros H Ha Hb; mm; assumption. Qed.

Lemma in_fname_mono a b x a' b' : in_fname a b x -> a' <= a -> b <= b' -> in_fname a' b' x.
Proof. destruct x; cbn [in_fname]; intros H Ha Hb; mm; assumption. Qed.
Ltac mono_hook ::=
  first [eapply in_param_mono; [eassumption|lia|lia] | eapply in_arg_mono; [eassumption|lia|lia]
        |eapply in_bind_mono; [eassumption|lia|lia] | eapply in_spec_mono; [eassumption|lia|lia]
        |eapply in_assert_mono; [eassumption|lia|lia] | eapply in_fname_mono; [eassumption|lia|lia]].

Lemma in_field_mono a b x a' b' : in_field a b x -> a' <= a -> b <= b' -> in_field a' b' x.
Proof. destruct x; cbn [in_field]; intros H Ha Hb; mm; assumption. Qed.
Ltac mono_hook ::=
  first [eapply in_param_mono; [eassumption|lia|lia] | eapply in_arg_mono; [eassumption|lia|lia]
        |eapply in_bind_mono; [eassumption|lia|lia] | eapply in_spec_mono; [eassumption|lia|lia]
        |eapply in_assert_mono; [eassumption|lia|lia] | eapply in_fname_mono; [eassumption|lia|lia]
        |eapply in_field_mono; [eassumption|lia|lia]].

Lemma in_member_mono a b x a' b' : in_member a b x -> a' <= a -> b <= b' -> in_member a' b' x.
Proof. destruct x; cbn [in_member]; intros H Ha Hb; mm. Qed.
Ltac mono_hook ::=
  first [eapply in_param_mono; [eassumption|lia|lia] | eapply in_arg_mono; [eassumption|lia|lia]
        |eapply in_bind_mono; [eassumption|lia|lia] | eapply in_spec_mono; [eassumption|lia|lia]
        |eapply in_assert_mono; [eassumption|lia|lia] | eapply in_fname_mono; [eassumption|lia|lia]
        |eapply in_field_mono; [eassumption|lia|lia] | eapply in_member_mono; [eassumption|lia|lia]].

Lemma in_obj_mono a b x a' b' : in_obj a b x -> a' <= a -> b <= b' -> in_obj a' b' x.
Proof. destruct x; cbn [in_obj]; intros H Ha Hb; mm. Qed.

(* ================================================================ STAGES 2+3: the productions *)

(* ---------------------------------------------------------------- make_comp never panics under obj_loop's invariant *)

Definition dynf (m : member) : bool :=
  match m with MField (FValue (FnExpr _ _) _ VisDefault _) => true | _ => false end.
Definition compm (m : member) : bool :=
  match m with MLocal _ => true | MAssert _ => false | MField _ => dynf m end.

(* obj_loop: while [can_be_comp] holds the members are locals and dynamic-name
   default-visibility value fields, and there is such a field iff [has_dyn] *)
Definition minv (ms : list member) (cbc hd : bool) : Prop :=
  cbc = true ->
  forallb compm ms = true /\ List.length (filter dynf ms) = (if hd then 1 else 0)%nat.

Lemma make_comp_go_ok ms : forall l1 l2 fld,
  forallb compm ms = true ->
  (List.length (filter dynf ms) + (match fld with Some _ => 1 | None => 0 end) = 1)%nat ->
  exists l1' l2' x, make_comp_go ms l1 l2 fld = Ok (l1', l2', Some x).
Proof.
  induction ms as [|m ms IH]; intros l1 l2 fld Ha Hn.
  - cbn in Hn. destruct fld as [x|]; [|discriminate]. cbn. eauto.
  - cbn [forallb] in Ha. apply andb_true_iff in Ha as [Hm Ha].
    destruct m as [b|a|f].
    + cbn [make_comp_go]. cbn in Hn. destruct fld; apply IH; assumption.
    + discriminate.
    + destruct f as [name plus vis v|name ps psp vis v]; [|discriminate].
      destruct name as [i|x sp|e sp]; try discriminate. destruct vis; try discriminate.
      cbn [make_comp_go]. cbn in Hn. destruct fld; [lia|]. apply IH; [assumption|]. cbn. lia.
Qed.

Lemma wp_make_comp ms cs s (Post : obj_inside -> pst -> Prop) :
  minv ms true true -> (forall oi, make_comp ms cs = Ok oi -> Post oi s) -> wp (lift (make_comp ms cs) s) Post.
Proof.
  intros Hinv HP. destruct (Hinv eq_refl) as [Ha Hn].
  destruct (make_comp_go_ok ms [] [] None Ha) as (l1 & l2 & [[n p] b] & Hgo); [rewrite Hn; reflexivity|].
  assert (Hmk : make_comp ms cs = Ok (OComp l1 n p b l2 cs)) by (unfold make_comp; rewrite Hgo; reflexivity).
  unfold lift. rewrite Hmk. cbn [wp]. apply HP. exact Hmk.
Qed.

Lemma make_comp_go_in a b ms : forall l1 l2 fld l1' l2' fld',
  make_comp_go ms l1 l2 fld = Ok (l1', l2', fld') ->
  all (in_member a b) ms -> all (in_bind a b) l1 -> all (in_bind a b) l2 ->
  oall (fun x => within a b (fst (fst x)) /\ within a b (snd x)) fld ->
  all (in_bind a b) l1' /\ all (in_bind a b) l2' /\
  oall (fun x => within a b (fst (fst x)) /\ within a b (snd x)) fld'.
Proof.
  induction ms as [|m ms IH]; intros l1 l2 fld l1' l2' fld' Hgo Hms H1 H2 Hf.
  - cbn in Hgo. injection Hgo as <- <- <-. auto.
  - cbn [all] in Hms. destruct Hms as [Hm Hms]. cbn [make_comp_go] in Hgo.
    destruct m as [bd|x|f].
    + cbn [in_member] in Hm.
      destruct fld; eapply IH in Hgo; eauto; apply all_app; auto; cbn [all]; auto.
    + discriminate.
    + destruct f as [name plus vis v|name ps psp vis v]; [|discriminate].
      destruct name as [i|x sp|e sp]; try discriminate. destruct vis; try discriminate.
      destruct fld; [discriminate|]. eapply IH in Hgo; eauto.
      cbn [in_member in_field in_fname] in Hm. destruct Hm as [[Hsp He] Hv]. cbn [oall fst snd].
      split; [|exact Hv]. unfold sin in Hsp. eapply within_mono; [exact He|lia|lia].
Qed.

Lemma make_comp_in a b ms cs oi :
  make_comp ms cs = Ok oi -> all (in_member a b) ms -> all (in_spec a b) cs -> in_obj a b oi.
Proof.
  unfold make_comp.
  destruct (make_comp_go ms [] [] None) as [[[l1 l2] [[[n p] bd]|]]|e|site|] eqn:Hgo; try discriminate.
  intros [= <-] Hms Hcs.
  destruct (make_comp_go_in a b ms _ _ _ _ _ _ Hgo Hms I I I) as (H1 & H2 & H3 & H4).
  cbn [in_obj]. auto.
Qed.

Lemma minv_nil : minv [] true false.
Proof. intros _. split; reflexivity. Qed.

Lemma minv_false ms d : minv ms false d.
Proof. intros H. discriminate. Qed.

Lemma minv_local ms c d b : minv ms c d -> minv (ms ++ [MLocal b]) c d.
Proof.
  intros H Hc. destruct (H Hc) as [Ha Hn]. rewrite forallb_app, filter_app, app_length, Ha, Hn.
  cbn. split; [reflexivity|]. destruct d; reflexivity.
Qed.

Lemma minv_dyn ms c e sp plus v :
  minv ms c false -> minv (ms ++ [MField (FValue (FnExpr e sp) plus VisDefault v)]) c true.
Proof.
  intros H Hc. destruct (H Hc) as [Ha Hn]. rewrite forallb_app, filter_app, app_length, Ha, Hn.
  cbn. split; reflexivity.
Qed.

(* ---------------------------------------------------------------- parse_expr's stack *)

Definition wi (a b : N) (e : expr) : Prop := sin a (expr_span e) b /\ within a b e.

Definition item_span (it : stack_item) : option span :=
  match it with
  | SiBinaryRhs _ lhs _ => Some (expr_span lhs)
  | SiUnary _ sp | SiArrayItem0 sp | SiArrayItemN sp _ | SiParen sp => Some sp
  | SiBinaryLhs _ | SiSuffix => None
  end.

(* expressions already stored in a pending item *)
Definition item_ok (it : stack_item) (lo : N) : Prop :=
  match it with
  | SiBinaryRhs _ lhs _ => within (fst (expr_span lhs)) (snd (expr_span lhs)) lhs
  | SiArrayItemN start items => all (wi (fst start) lo) items
  | _ => True
  end.

(* [lo] is a lower bound of the start of the expression being built; every
   pending item that carries a span lies before it, and so on down to [base] *)
Fixpoint stack_ok (stk : list stack_item) (lo base : N) : Prop :=
  match stk with
  | [] => base <= lo
  | it :: r =>
      item_ok it lo /\
      match item_span it with
      | Some sp => fst sp <= snd sp /\ snd sp <= lo /\ stack_ok r (fst sp) base
      | None => stack_ok r lo base
      end
  end.

Definition pre_ok (st : pstate) (stk : list stack_item) (base p : N) : Prop :=
  match st with
  | StParsed e | StBinaryRhs _ e =>
      fst (expr_span e) <= snd (expr_span e) /\ snd (expr_span e) <= p /\
      within (fst (expr_span e)) (snd (expr_span e)) e /\
      stack_ok stk (fst (expr_span e)) base
  | _ => stack_ok stk p base
  end.

Lemma wi_mono a b e a' b' : wi a b e -> a' <= a -> b <= b' -> wi a' b' e.
Proof. unfold wi. intros [H1 H2] Ha Hb. split; [eapply sin_mono; eauto|eapply within_mono; eauto]. Qed.

Lemma stack_ok_mono stk : forall lo lo' base, lo <= lo' -> stack_ok stk lo base -> stack_ok stk lo' base.
Proof.
  induction stk as [|it r IH]; intros lo lo' base Hle; cbn [stack_ok].
  - lia.
  - intros [Hi H]. split.
    + destruct it; cbn [item_ok] in *; auto. eapply all_mono; [exact Hi|].
      intros x Hx. eapply wi_mono; [exact Hx|lia|lia].
    + destruct (item_span it) as [sp|]; [|eapply IH; eauto]. destruct H as (H1 & H2 & H3).
      repeat split; try lia. exact H3.
Qed.

(* ---------------------------------------------------------------- symbolic execution *)

Definition Rl (lhs : expr) (p : N) : Prop :=
  fst (expr_span lhs) <= snd (expr_span lhs) /\ snd (expr_span lhs) <= p /\
  within (fst (expr_span lhs)) (snd (expr_span lhs)) lhs.
Definition Ql (lhs : expr) (p : N) (e : expr) (p' : N) : Prop :=
  fst (expr_span e) = fst (expr_span lhs) /\ fst (expr_span e) <= snd (expr_span e) /\
  snd (expr_span e) <= p' /\ within (fst (expr_span e)) (snd (expr_span e)) e.

Create HintDb hwdb discriminated.
#[local] Hint Resolve hw_eat_simple hw_eat_ident hw_eat_number hw_eat_string hw_eat_text_block hw_push_expected : hwdb.

Ltac dval a :=
  lazymatch type of a with
  | option _ => let x := fresh "v" in destruct a as [x|]; [dval x|]
  | prod _ _ => let x := fresh "v" in let y := fresh "v" in destruct a as [x y]; dval x; dval y
  | unit => destruct a
  | _ => idtac
  end.

Ltac clean_hyps :=
  repeat match goal with
         | H : _ /\ _ |- _ => destruct H
         | H : True |- _ => clear H
         end.

Ltac wp_intros :=
  let a := fresh "a" in let s' := fresh "s" in
  let HW := fresh "HW" in let Hle := fresh "Hle" in let HQ := fresh "HQ" in
  intros a s' HW Hle HQ; dval a;
  cbv beta iota zeta in HQ |- *; unfold Ql, wi, sin in HQ; cbn [fst snd expr_span id_span oall] in HQ;
  clean_hyps.

Ltac peek_contra :=
  repeat match goal with
         | H : (_ && _)%bool = true |- _ => apply andb_true_iff in H; destruct H
         end;
  unfold peek_simple, peek_ident, peek_tok in *;
  repeat match goal with
         | H : rest ?s = _ :: _, H' : context [rest ?s] |- _ => rewrite H in H'
         end;
  cbn [nth_error] in *; congruence.

Lemma pre_ok_next T k stk base p : stack_ok stk p base -> pre_ok (next_state T k) stk base p.
Proof. unfold next_state. destruct (pt_next T k); intros H; exact H. Qed.

Lemma pre_ok_init T stk base p : stack_ok stk p base -> pre_ok (init_state T) stk base p.
Proof. intros H; exact H. Qed.

Ltac lia' := cbn [fst snd expr_span id_span]; lia.
Ltac fin_le := cbv beta iota; lia'.

Ltac minv_tac := first [apply minv_false | apply minv_local; assumption | apply minv_dyn; assumption].
Ltac stk_tac := eapply stack_ok_mono; [|eassumption]; lia'.
Ltac rb := eapply within_rebound; [eassumption|lia'|lia'].

(* goal-directed solver for the value postconditions *)
Ltac ws :=
  lazymatch goal with
  | |- _ /\ _ => split; ws
  | |- True => exact I
  | |- W _ => assumption
  | |- minv _ _ _ => minv_tac
  | |- stack_ok _ _ _ => first [stk_tac | idtac]
  | |- sin _ _ _ => unfold sin; ws
  | |- wi _ _ _ => unfold wi; ws
  | |- within _ _ _ => first [rb | progress cbn [within expr_span fst snd]; ws | idtac]
  | |- oall _ _ => first [progress cbn [oall]; ws | idtac]
  | |- all _ (_ ++ _) => apply all_app; ws
  | |- all _ (_ :: _) => cbn [all]; ws
  | |- all _ [] => exact I
  | |- all _ _ =>
      first [ eapply all_mono;
              [eassumption
              |cbv beta; let x := fresh "x" in let Hx := fresh "Hx" in
               intros x Hx; unfold wi, sin in Hx; clean_hyps; ws]
            | idtac ]
  | |- in_param _ _ _ => first [eapply in_param_mono; [eassumption|lia'|lia'] | progress cbn [in_param]; ws | idtac]
  | |- in_arg _ _ _ => first [eapply in_arg_mono; [eassumption|lia'|lia'] | progress cbn [in_arg]; ws | idtac]
  | |- in_bind _ _ _ => first [eassumption | eapply in_bind_mono; [eassumption|lia'|lia'] | progress cbn [in_bind]; ws | idtac]
  | |- in_spec _ _ _ => first [eapply in_spec_mono; [eassumption|lia'|lia'] | progress cbn [in_spec]; ws | idtac]
  | |- in_assert _ _ _ => first [eapply in_assert_mono; [eassumption|lia'|lia'] | progress cbn [in_assert]; ws | idtac]
  | |- in_fname _ _ _ => first [eapply in_fname_mono; [eassumption|lia'|lia'] | progress cbn [in_fname]; ws | idtac]
  | |- in_field _ _ _ => first [eapply in_field_mono; [eassumption|lia'|lia'] | progress cbn [in_field]; ws | idtac]
  | |- in_member _ _ _ => first [eapply in_member_mono; [eassumption|lia'|lia'] | progress cbn [in_member]; ws | idtac]
  | |- in_obj _ _ _ =>
      first [ eapply in_obj_mono; [eassumption|lia'|lia']
            | eapply make_comp_in; [eassumption|ws|ws]
            | progress cbn [in_obj]; ws | idtac ]
  | |- _ => first [lia' | idtac]
  end.

Ltac fin :=
  cbv beta iota zeta; unfold Rl, Ql;
  lazymatch goal with
  | |- pre_ok (next_state _ _) _ _ _ => apply pre_ok_next
  | |- pre_ok (init_state _) _ _ _ => apply pre_ok_init
  | |- _ => idtac
  end;
  cbn [pre_ok stack_ok item_span item_ok fst snd expr_span id_span];
  ws.

Ltac step :=
  lazymatch goal with
  | |- wp (bindP _ _ _) _ => apply wp_bind
  | |- wp (orelse _ _ _ _) _ => apply wp_orelse
  | |- wp (ret _ _) _ => apply wp_ret; cbv beta iota zeta
  | |- wp (mk_span _ _ _) _ => apply wp_mk_span; [fin_le|cbv beta iota zeta]
  | |- wp (report_expected _) _ => apply wp_report; assumption
  | |- wp (out_of_fuel _) _ => exact I
  | |- wp (panic _ _) _ => exfalso; peek_contra
  | |- wp (fin_slice _ _ _ _ _ _) _ => unfold fin_slice
  | |- wp (prefix_form _ _ _ _) _ => unfold prefix_form
  | |- wp (lift (make_comp _ _) _) _ =>
      let oi := fresh "oi" in let Hmk := fresh "Hmk" in
      apply wp_make_comp; [assumption|intros oi Hmk; cbv beta iota zeta]
  | |- wp (eat_simple KSuper true ?s) _ =>
      let HWs := fresh "HW" in
      apply wp_eat_simple; [assumption| |];
      [ intros ? HWs ? ? ?;
        lazymatch goal with HW0 : W s |- _ => pose proof (W_span_ok _ HW0) end;
        assert (pos s = fst (tok_span (cur s))) by reflexivity
      | intros ? HWs ? ? ];
      cbv beta iota zeta
  | |- wp ((match ?x with _ => _ end) _) _ =>
      first [is_var x; destruct x | destruct x eqn:?]; cbv beta iota zeta;
      try match goal with
          | H : (?a && ?b)%bool = true |- _ =>
              is_var a; is_var b; apply andb_true_iff in H; destruct H; subst a b
          end
  | |- wp (match ?x with _ => _ end) _ =>
      first [is_var x; destruct x | destruct x eqn:?]; cbv beta iota zeta
  | |- wp ((let _ := _ in _) _) _ => cbv zeta
  | |- wp ((fun _ => _) _) _ => cbv beta
  | |- wp (?m ?s) _ =>
      eapply wp_use; [solve [eauto with hwdb nocore] | assumption | cbv beta; fin | wp_intros]
  | |- W _ /\ _ => fin
  end.

Ltac start := let s := fresh "s" in let HW := fresh "HW" in let HR := fresh "HR" in
  intros s HW HR; cbv beta in HR; unfold Rl in HR; clean_hyps.
Ltac run := repeat step.

Lemma hw_expect_simple k add : hw TT (expect_simple k add) (fun p sp p' => sin p sp p').
Proof. unfold expect_simple. start. run. Qed.

Lemma hw_expect_ident add : hw TT (expect_ident add) (fun p i p' => sin p (id_span i) p').
Proof. unfold expect_ident. start. run. Qed.

Lemma hw_eat_visibility add : hw TT (eat_visibility add) (fun _ _ _ => True).
Proof. unfold eat_visibility. start. run. Qed.

Lemma hw_eat_plus_visibility add : hw TT (eat_plus_visibility add) (fun _ _ _ => True).
Proof. unfold eat_plus_visibility. start. run. Qed.

Lemma hw_eat_first O (l : list (stoken * O)) :
  hw TT (eat_first l) (fun p o p' => match o with Some x => sin p (snd x) p' | None => True end).
Proof. induction l as [|[tk op] r IH]; cbn [eat_first]; start; run. Qed.

#[local] Hint Resolve hw_expect_simple hw_expect_ident hw_eat_visibility hw_eat_plus_visibility hw_eat_first : hwdb.

Section Stage2.
  Variables (T : prec_table) (pexpr : P expr) (lf : nat).
  Hypothesis Hpexpr : hw TT pexpr (fun p e p' => wi p p' e).

  Lemma hw_opt_expr c :
    hw TT (opt_expr pexpr c) (fun p o p' => oall (wi p p') o).
  Proof. unfold opt_expr. start. run. Qed.
  #[local] Hint Resolve hw_opt_expr : hwdb.

  Lemma hw_parse_maybe_simple_expr :
    hw TT parse_maybe_simple_expr (fun p o p' => oall (wi p p') o).
  Proof. unfold parse_maybe_simple_expr. apply hw_call. start. run. Qed.
  #[local] Hint Resolve hw_parse_maybe_simple_expr : hwdb.

  Lemma hw_maybe_parse_assert add :
    hw TT (maybe_parse_assert pexpr add)
       (fun p o p' => match o with
                      | Some x => sin p (fst x) p' /\ in_assert (fst (fst x)) p' (snd x)
                      | None => True end).
  Proof. unfold maybe_parse_assert. apply hw_call. start. run. Qed.
  #[local] Hint Resolve hw_maybe_parse_assert : hwdb.

  Lemma hw_params_loop lo fuel : forall acc,
    hw (fun p => lo <= p /\ all (in_param lo p) acc) (params_loop pexpr fuel acc)
       (fun p x p' => sin p (snd x) p' /\ all (in_param lo (fst (snd x))) (fst x)).
  Proof. induction fuel as [|f IH]; intros acc; cbn [params_loop]; start; run. Qed.

  Lemma hw_parse_params :
    hw TT (parse_params pexpr lf) (fun p x p' => sin p (snd x) p' /\ all (in_param p (fst (snd x))) (fst x)).
  Proof.
    unfold parse_params. apply hw_call. intros s HW _. pose proof (hw_params_loop (pos s) lf) as Hl. run.
  Qed.
  #[local] Hint Resolve hw_parse_params : hwdb.

  Lemma hw_parse_arg : hw TT (parse_arg pexpr) (fun p a p' => in_arg p p' a).
  Proof.
    unfold parse_arg. apply hw_call. intros s HW _. cbv beta.
    destruct (peek_ident 0 s && peek_simple SEq 1 s)%bool eqn:Hpk; [|run].
    apply andb_true_iff in Hpk as [Hp0 Hp1]. apply wp_orelse.
    apply wp_eat_ident; [exact HW| |].
    - intros i s1 HW1 _ Hrest Hi Hsp. cbv beta iota. apply wp_orelse.
      apply wp_eat_simple; [exact HW1| |].
      + intros s2 HW2 _ _ Hsp2. cbv beta iota.
        pose proof (W_span_ok _ HW) as Hs0. pose proof (W_span_ok _ HW1) as Hs1.
        assert (Hp : pos s = fst (id_span i)) by (rewrite Hi; reflexivity).
        assert (Hq : snd (id_span i) <= pos s1) by (rewrite Hi; exact Hsp).
        assert (Hr : fst (id_span i) <= snd (id_span i)) by (rewrite Hi; exact Hs0).
        assert (Ht : pos s1 <= pos s2) by (unfold pos in *; lia).
        run.
      + intros s2 HW2 Hno _. exfalso. unfold peek_simple, peek_tok in Hp1. rewrite Hrest in Hp1.
        cbn [nth_error] in Hp1. congruence.
    - intros s1 HW1 Hno _. congruence.
  Qed.
  #[local] Hint Resolve hw_parse_arg : hwdb.

  Lemma hw_args_loop lo fuel : forall acc,
    hw (fun p => lo <= p /\ all (in_arg lo p) acc) (args_loop pexpr fuel acc)
       (fun p x p' => sin p (snd x) p' /\ all (in_arg lo (fst (snd x))) (fst x)).
  Proof. induction fuel as [|f IH]; intros acc; cbn [args_loop]; start; run. Qed.

  Lemma hw_parse_args :
    hw TT (parse_args pexpr lf) (fun p x p' => sin p (snd x) p' /\ all (in_arg p (fst (snd x))) (fst x)).
  Proof.
    unfold parse_args. apply hw_call. intros s HW _. pose proof (hw_args_loop (pos s) lf) as Hl. run.
  Qed.
  #[local] Hint Resolve hw_parse_args : hwdb.

  Lemma hw_parse_bind : hw TT (parse_bind pexpr lf) (fun p b p' => in_bind p p' b).
  Proof. unfold parse_bind. apply hw_call. start. run. Qed.
  #[local] Hint Resolve hw_parse_bind : hwdb.

  Lemma hw_maybe_parse_obj_local :
    hw TT (maybe_parse_obj_local pexpr lf) (fun p o p' => oall (in_bind p p') o).
  Proof. unfold maybe_parse_obj_local. apply hw_call. start. run. Qed.
  #[local] Hint Resolve hw_maybe_parse_obj_local : hwdb.

  Lemma hw_maybe_parse_for_spec : hw TT (maybe_parse_for_spec pexpr) (fun p o p' => oall (in_spec p p') o).
  Proof. unfold maybe_parse_for_spec. apply hw_call. start. run. Qed.
  #[local] Hint Resolve hw_maybe_parse_for_spec : hwdb.

  Lemma hw_maybe_parse_if_spec : hw TT (maybe_parse_if_spec pexpr) (fun p o p' => oall (in_spec p p') o).
  Proof. unfold maybe_parse_if_spec. apply hw_call. start. run. Qed.
  #[local] Hint Resolve hw_maybe_parse_if_spec : hwdb.

  Lemma hw_comp_spec_loop lo fuel : forall acc,
    hw (fun p => lo <= p /\ all (in_spec lo p) acc) (comp_spec_loop pexpr fuel acc)
       (fun _ l p' => all (in_spec lo p') l).
  Proof. induction fuel as [|f IH]; intros acc; cbn [comp_spec_loop]; start; run. Qed.

  Lemma hw_maybe_parse_comp_spec :
    hw TT (maybe_parse_comp_spec pexpr lf) (fun p o p' => oall (all (in_spec p p')) o).
  Proof.
    unfold maybe_parse_comp_spec. apply hw_call. intros s HW _.
    pose proof (hw_comp_spec_loop (pos s) lf) as Hl. run.
  Qed.
  #[local] Hint Resolve hw_maybe_parse_comp_spec : hwdb.

  Lemma hw_maybe_parse_field_name :
    hw TT (maybe_parse_field_name pexpr) (fun p o p' => oall (in_fname p p') o).
  Proof. unfold maybe_parse_field_name. apply hw_call. start. run. Qed.
  #[local] Hint Resolve hw_maybe_parse_field_name : hwdb.

  Lemma hw_maybe_parse_field : hw TT (maybe_parse_field pexpr lf) (fun p o p' => oall (in_field p p') o).
  Proof. unfold maybe_parse_field. apply hw_call. start. run. Qed.
  #[local] Hint Resolve hw_maybe_parse_field : hwdb.

  Lemma hw_comp_tail lo ms :
    minv ms true true ->
    hw (fun p => lo <= p /\ all (in_member lo p) ms) (comp_tail pexpr lf ms)
       (fun p o p' => match o with
                      | Some x => sin p (snd x) p' /\ in_obj lo (fst (snd x)) (fst x)
                      | None => True end).
  Proof. intros Hinv. unfold comp_tail. start. run. Qed.

  Lemma hw_obj_loop lo fuel : forall ms c d,
    minv ms c d ->
    hw (fun p => lo <= p /\ all (in_member lo p) ms) (obj_loop pexpr lf fuel ms c d)
       (fun p x p' => sin p (snd x) p' /\ in_obj lo (fst (snd x)) (fst x)).
  Proof.
    induction fuel as [|f IH]; intros ms c d Hinv; cbn [obj_loop]; [start; run|].
    pose proof (hw_comp_tail lo) as Hct.
    intros s HW HR. cbv beta in HR. destruct HR as [Hlo Hms]. apply wp_bind.
    eapply wp_conseq with
      (Q1 := fun x s' => W s' /\ pos s <= pos s' /\ minv (fst (fst x)) (snd (fst x)) (snd x) /\
                         all (in_member lo (pos s')) (fst (fst x))).
    - run.
    - intros [[ms' c'] d'] s1 (HW1 & Hle1 & Hinv1 & Hms1). cbn [fst snd] in Hinv1, Hms1. cbv beta iota. run.
  Qed.

  Lemma hw_parse_obj_inside :
    hw TT (parse_obj_inside pexpr lf) (fun p x p' => sin p (snd x) p' /\ in_obj p (fst (snd x)) (fst x)).
  Proof.
    unfold parse_obj_inside. apply hw_call. intros s HW _.
    pose proof (hw_obj_loop (pos s) lf [] true false minv_nil) as Hl. run.
  Qed.
  #[local] Hint Resolve hw_parse_obj_inside : hwdb.

  Lemma hw_idx3 : hw TT (idx3 pexpr) (fun p x p' => sin p (snd x) p' /\ oall (wi p (fst (snd x))) (fst x)).
  Proof. unfold idx3. start. run. Qed.
  #[local] Hint Resolve hw_idx3 : hwdb.

  Lemma hw_after2 : hw TT (after2 pexpr) (fun p x p' => sin p (snd x) p' /\ oall (wi p (fst (snd x))) (fst x)).
  Proof. unfold after2. start. run. Qed.
  #[local] Hint Resolve hw_after2 : hwdb.

  Lemma hw_parse_index_expr lhs : hw (Rl lhs) (parse_index_expr pexpr lhs) (Ql lhs).
  Proof. unfold parse_index_expr. apply hw_call. start. run. Qed.
  #[local] Hint Resolve hw_parse_index_expr : hwdb.

  Lemma hw_suffix_loop fuel : forall lhs, hw (Rl lhs) (suffix_loop pexpr lf fuel lhs) (Ql lhs).
  Proof. induction fuel as [|f IH]; intros lhs; cbn [suffix_loop]; start; run. Qed.
  #[local] Hint Resolve hw_suffix_loop : hwdb.

  Lemma hw_parse_suffix_expr e : hw (Rl e) (parse_suffix_expr pexpr lf e) (Ql e).
  Proof. unfold parse_suffix_expr. apply hw_call. start. run. Qed.
  #[local] Hint Resolve hw_parse_suffix_expr : hwdb.

  Lemma hw_binds_loop lo fuel : forall acc,
    hw (fun p => all (in_bind lo p) acc /\ lo <= p) (binds_loop pexpr lf fuel acc)
       (fun _ l p' => all (in_bind lo p') l).
  Proof. induction fuel as [|f IH]; intros acc; cbn [binds_loop]; start; run. Qed.
  #[local] Hint Resolve hw_binds_loop : hwdb.

  Lemma hw_pe_loop base fuel : forall st stk,
    hw (pre_ok st stk base) (pe_loop T pexpr lf fuel st stk) (fun _ e p' => wi base p' e).
  Proof.
    induction fuel as [|f IH]; intros st stk; cbn [pe_loop]; [start; run|].
    destruct st as [e|k|k lhs| |];
      [destruct stk as [|[k|k lhs op|op osp| |start|start items|start] stk']|..];
      intros s HW HR; cbn [pre_ok stack_ok item_span item_ok] in HR; clean_hyps;
      run.
  Qed.
End Stage2.

Lemma hw_parse_expr T fuel : hw TT (parse_expr T fuel) (fun p e p' => wi p p' e).
Proof.
  induction fuel as [|f IH]; [intros s HW HR; exact I|].
  change (parse_expr T (S f)) with (call (pe_loop T (parse_expr T f) f f (init_state T) [])).
  apply hw_call. intros s HW _.
  eapply wp_use; [exact (hw_pe_loop T (parse_expr T f) f IH (pos s) f (init_state T) [])|exact HW| |].
  - apply pre_ok_init. cbn [stack_ok]. lia.
  - intros e s' HW' Hle HQ. cbv beta in HQ |- *. split; [exact HW'|]. split; [exact Hle|exact HQ].
Qed.

Lemma wp_parse_root_expr T fuel s :
  W s ->
  wp (parse_root_expr T fuel s) (fun e s' => wi (pos s) (pos s') e /\ rest s' = []).
Proof.
  intros HW. unfold parse_root_expr. apply wp_bind.
  eapply wp_use; [apply hw_parse_expr|exact HW|exact I|].
  intros e s1 HW1 Hle1 HQ1. cbv beta in HQ1. apply wp_bind.
  apply wp_eat_eof; [exact HW1| |].
  - intros s2 HW2 Hp Hr. apply wp_ret. rewrite Hp. split; [exact HQ1|exact Hr].
  - intros s2 HW2. apply wp_report. exact HW2.
Qed.

Theorem parse_no_panic : forall T fuel toks,
  wf_tokens toks -> forall site, parse_fuel T fuel toks <> Panic site.
Proof.
  intros T fuel toks Hwf site. apply wf_tokens_wfs in Hwf. unfold parse_fuel.
  destruct toks as [|t r]; [destruct Hwf|].
  pose proof (wp_parse_root_expr T fuel (init_pst t r) Hwf) as H.
  destruct (parse_root_expr T fuel (init_pst t r)) as [[e s']|e|site'|]; try discriminate.
  destruct H.
Qed.

Definition tok0 : token := {| tok_span := (0, 0); tok_kind := TEndOfFile |}.

Lemma parse_root_wi T fuel toks e d :
  wf_tokens toks -> parse_fuel T fuel toks = Ok (e, d) ->
  wi (fst (tok_span (hd tok0 toks))) (fst (tok_span (last toks tok0))) e.
Proof.
  intros Hwf Hp. apply wf_tokens_wfs in Hwf. unfold parse_fuel in Hp.
  destruct toks as [|t r]; [destruct Hwf|].
  pose proof (wp_parse_root_expr T fuel (init_pst t r) Hwf) as H.
  assert (Hi : I0 (t :: r) (init_pst t r)) by (exists []; reflexivity).
  pose proof (h0_parse_root_expr (t :: r) T fuel _ Hi) as Hh.
  destruct (parse_root_expr T fuel (init_pst t r)) as [[e0 s']|e0|site'|]; try discriminate.
  injection Hp as -> _. cbn [wp] in H. destruct H as [Hs Hr]. destruct Hh as [pre Hpre].
  rewrite Hr in Hpre. rewrite Hpre at 2. rewrite last_last. exact Hs.
Qed.

Theorem parse_root_span_in_range : forall T fuel toks e d,
  wf_tokens toks -> parse_fuel T fuel toks = Ok (e, d) ->
  fst (tok_span (hd tok0 toks)) <= fst (expr_span e) /\
  fst (expr_span e) <= snd (expr_span e) /\
  snd (expr_span e) <= fst (tok_span (last toks tok0)).
Proof. intros T fuel toks e d Hwf Hp. exact (proj1 (parse_root_wi T fuel toks e d Hwf Hp)). Qed.

Theorem span_nesting : forall T fuel toks e d,
  wf_tokens toks -> parse_fuel T fuel toks = Ok (e, d) ->
  within (fst (tok_span (hd tok0 toks))) (fst (tok_span (last toks tok0))) e.
Proof. intros T fuel toks e d Hwf Hp. exact (proj2 (parse_root_wi T fuel toks e d Hwf Hp)). Qed.

(* ---------------------------------------------------------------- non-vacuity *)

(* tokens of `a + b * [c]` *)
Definition ex_tok (a b : N) (k : token_kind) : token := {| tok_span := (a, b); tok_kind := k |}.
Definition ex_toks : list token :=
  [ ex_tok 0 1 (TIdent [97]); ex_tok 2 3 (TSimple SPlus); ex_tok 4 5 (TIdent [98]);
    ex_tok 6 7 (TSimple SAsterisk); ex_tok 8 9 (TSimple SLeftBracket); ex_tok 9 10 (TIdent [99]);
    ex_tok 10 11 (TSimple SRightBracket); ex_tok 11 11 TEndOfFile ].
(* tokens of `a + ]` *)
Definition ex_bad : list token :=
  [ ex_tok 0 1 (TIdent [97]); ex_tok 2 3 (TSimple SPlus); ex_tok 4 5 (TSimple SRightBracket);
    ex_tok 5 5 TEndOfFile ].

Example ex_toks_wf : wf_tokens ex_toks /\ wf_tokens ex_bad.
Proof. split; apply wf_tokensb_spec; vm_compute; reflexivity. Qed.

Example ex_toks_ok : exists e d, parse spec_prec ex_toks = Ok (e, d) /\ expr_span e = (0, 11).
Proof. eexists. eexists. vm_compute. split; reflexivity. Qed.

Example ex_bad_err : exists e, parse spec_prec ex_bad = Err e /\ pe_span e = (4, 5).
Proof. eexists. vm_compute. split; reflexivity. Qed.

(* span_nesting has the same hypotheses as parse_root_span_in_range: met by ex_toks_wf / ex_toks_ok *)
