(* Proofs/RefShift_thm.v — C02: depth-shift invariance, and  local x = e; x  ==  e  for whole programs. *)
From RJ Require Import Base.Outcome Base.F64 Model.Token Model.Ast Model.RefCore Model.RefValue Model.RefEval.
From RJ Require Import Proofs.RefSem_proofs Proofs.RefSem_laws Proofs.RefScope_defs Proofs.RefDead_defs Proofs.RefDead_proofs Proofs.RefDead_thm.
From RJ Require Import Proofs.RefCoin_proofs Proofs.RefShift_proofs.
From Coq Require Import Lia.
Local Open Scope N_scope.

(* evaluating at depth d+1 under limit L+1 is evaluating at depth d under limit L *)
Theorem depth_shift : forall c c' f t d, cfgs c c' -> run_task f c' t (d + 1) = run_task f c t d.
Proof. intros c c' f t d Hc. apply sh_run_task. exact Hc. Qed.

(* the program  local x = e; x  (x not free in e) gives exactly the result of the program e, with one
   more frame of stack and three more units of fuel — for every settled result other than StackOverflow *)
Theorem rw_local_name_full : forall x e f c c',
  cfgs c c' -> closed (rm x [s_std]) false e ->
  settled (snd (run_core f c e)) -> snd (run_core f c e) <> Err EStackOverflow ->
  run_core (S (S (S f))) c' (CLocal [(x, e)] (CVar x)) = run_core f c e.
Proof.
  intros x e f c c' Hc Hcl Hs Hso.
  assert (Hfit : fits c' 0).
  { unfold fits. destruct Hc as [Hl _]. rewrite Hl. apply N.ltb_ge. lia. }
  assert (Heq : run_top_at 1 e c' (run_task f c') = run_core f c e).
  { unfold run_core in *. rewrite run_top_at_0 in *. unfold run_top_at in *.
    pose proof (sh_eval init_env e 0 c c' _ _ Hc (sh_run_task c c' Hc f)) as He. apply rrel_eq in He.
    change (0 + 1) with 1 in He. unfold bind in *. rewrite <- He.
    destruct (eval init_env e 0 c (run_task f c)) as [t o]. destruct o as [v | er | s |]; try reflexivity.
    assert (Hle : cfg_le MLimit c c') by (destruct Hc as (Hl & Hb & Ht); unfold cfg_le; repeat split; auto; lia).
    pose proof (mono_finish v MLimit c c' _ _ Hle (run_task_limit_le c c' Hle f)) as Hm. unfold res_le in Hm.
    destruct (finish v c (run_task f c)) as [t2 o2] eqn:E. rewrite ?E in Hso. simpl in Hm, Hso |- *. rewrite Hm; [reflexivity|].
    destruct o2 as [j | er | s |]; try reflexivity. destruct er; try reflexivity. exfalso. apply Hso. reflexivity. }
  rewrite <- Heq. apply rw_local_name_bare; [exact Hcl | exact Hfit | rewrite Heq; exact Hs].
Qed.
