(* Proofs/RefDead_defs.v — C02/C04: dead-binding irrelevance over the reference interpreter, part 1.

   A structural simulation relation between two runs that differ only in the value expression of
   one `local x = _` frame which is never looked up: two environments are related when they are
   equal frame by frame, except for dead frames  FVars [] [(x, e1)]  /  FVars [] [(x, e2)];
   the live scope of a related pair removes x below a dead frame, and every stored expression is
   closed in the live scope — so no lookup can reach the dead binding. *)
From RJ Require Import Base.Outcome Base.F64 Model.Token Model.Ast Model.RefCore Model.RefValue Model.RefEval.
From RJ Require Import Proofs.RefSem_params Proofs.RefScope_defs.
From Coq Require Import Lia.
Local Open Scope N_scope.

Section Dead.
Variable x : str.
Variables e1 e2 : list frame.      (* the dead frames on the left / on the right (either may be empty) *)

Definition rm (vs : list str) : list str := filter (fun y => negb (str_eqb y x)) vs.

Lemma in_rm y vs : In y (rm vs) <-> In y vs /\ y <> x.
Proof.
  unfold rm. rewrite filter_In. split; intros [H1 H2]; split; auto.
  - intros ->. rewrite str_eqb_refl in H2. discriminate.
  - destruct (str_eqb y x) eqn:E; [apply str_eqb_eq in E; contradiction | reflexivity].
Qed.

Definition lclosed (locals : list (str * cexpr)) (vs : list str) (body : cexpr) : Prop :=
  Forall (fun p => closed (map fst locals ++ vs) true (snd p)) locals /\ closed (map fst locals ++ vs) true body.

Definition names_eq {A B} (p : str * A) (p' : str * B) : Prop := fst p = fst p'.

Inductive vrel : value -> value -> Prop :=
| VR_null : vrel VNull VNull
| VR_bool b : vrel (VBool b) (VBool b)
| VR_num f : vrel (VNum f) (VNum f)
| VR_str s : vrel (VStr s) (VStr s)
| VR_arr items items' : Forall2 trel items items' -> vrel (VArr items) (VArr items')
| VR_obj ls ls' c : Forall2 lrel ls ls' -> vrel (VObj ls c) (VObj ls' c)
| VR_fun ps body en en' vs io :
    erel en en' vs io -> closed vs io (CFunc ps body) -> vrel (VFun ps body en) (VFun ps body en')
| VR_builtin b : vrel (VBuiltin b) (VBuiltin b)
with trel : thunk -> thunk -> Prop :=
| TR_th e en en' vs io : erel en en' vs io -> closed vs io e -> trel (Th e en) (Th e en')
| TR_tv v v' : vrel v v' -> trel (Tv v) (Tv v')
| TR_call f f' args args' : vrel f f' -> Forall2 trel args args' -> trel (TCall f args) (TCall f' args')
with erel : list frame -> list frame -> list str -> bool -> Prop :=
| ER_nil : erel [] [] [] false
| ER_vars b b' r rest rest' vs io :
    Forall2 (fun p p' => fst p = fst p' /\ trel (snd p) (snd p')) b b' ->
    Forall (fun p => closed (map fst b ++ map fst r ++ vs) io (snd p)) r ->
    erel rest rest' vs io ->
    erel (FVars b r :: rest) (FVars b' r :: rest') (map fst b ++ map fst r ++ vs) io
| ER_obj ls ls' i c rest rest' vs io :
    Forall2 lrel ls ls' -> erel rest rest' vs io -> erel (FObj ls i c :: rest) (FObj ls' i c :: rest') vs true
| ER_dead rest rest' vs io :
    erel rest rest' vs io -> erel (e1 ++ rest) (e2 ++ rest') (rm vs) io
with lrel : layer -> layer -> Prop :=
| LR_intro locals asserts fields fields' en en' std vs io :
    erel en en' vs io ->
    Forall (fun a => lclosed locals vs (fst a) /\ (forall m, snd a = Some m -> lclosed locals vs m)) asserts ->
    Forall2 (frel locals vs) fields fields' ->
    lrel (MkLayer locals asserts fields en std) (MkLayer locals asserts fields' en' std)
with frel : list (str * cexpr) -> list str -> str * field -> str * field -> Prop :=
| FR_none locals vs n vis plus body :
    lclosed locals vs body -> frel locals vs (n, MkField vis plus body None) (n, MkField vis plus body None)
| FR_some locals vs n vis plus body fe fe' vs' io' :
    erel fe fe' vs' io' -> lclosed locals vs' body ->
    frel locals vs (n, MkField vis plus body (Some fe)) (n, MkField vis plus body (Some fe')).

Definition lsrel (ls ls' : list layer) : Prop := Forall2 lrel ls ls'.
Definition tsrel (l l' : list thunk) : Prop := Forall2 trel l l'.
Definition bvrel (b b' : list (str * thunk)) : Prop := Forall2 (fun p p' => fst p = fst p' /\ trel (snd p) (snd p')) b b'.

(* dead frames bind nothing but x and hold no object *)
Definition dead_ok (fs : list frame) : Prop :=
  forall en, (forall y, y <> x -> lookup_var y (fs ++ en) = lookup_var y en) /\ lookup_obj (fs ++ en) = lookup_obj en.
Definition dead_pair : Prop := dead_ok e1 /\ dead_ok e2.
Hypothesis Hd : dead_pair.

(* ---- environments ---- *)
Lemma erel_hasobj : forall en en' vs io, erel en en' vs io -> hasobj en = io /\ hasobj en' = io.
Proof.
  induction 1 as [| | | rest rest' vs io Hrest IH]; simpl; auto.
  unfold hasobj in *. destruct Hd as [H1 H2]. rewrite (proj2 (H1 rest)), (proj2 (H2 rest')). exact IH.
Qed.

Lemma bvrel_names b b' : bvrel b b' -> map fst b = map fst b'.
Proof. induction 1 as [|p p' r r' [Hn _] _ IH]; simpl; [reflexivity | rewrite Hn, IH; reflexivity]. Qed.

Lemma bvrel_assoc : forall b b' y, bvrel b b' ->
  match assoc y b, assoc y b' with
  | Some t, Some t' => trel t t'
  | None, None => True
  | _, _ => False
  end.
Proof.
  intros b b' y H. induction H as [|[n t] [n' t'] r r' [Hn Ht] _ IH]; simpl; [exact I|].
  simpl in Hn. subst n'. destruct (str_eqb y n); [exact Ht | exact IH].
Qed.

Lemma erel_lookup_var : forall en en' vs io, erel en en' vs io -> forall y, In y vs ->
  exists t t', lookup_var y en = Some t /\ lookup_var y en' = Some t' /\ trel t t'.
Proof.
  induction 1 as [| b b' r rest rest' vs io Hb Hr Hrest IH | ls ls' i c rest rest' vs io Hls Hrest IH | rest rest' vs io Hrest IH];
    intros y Hy.
  - destruct Hy.
  - simpl. pose proof (bvrel_assoc b b' y Hb) as Ha.
    destruct (assoc y b) as [t|] eqn:E1; destruct (assoc y b') as [t'|] eqn:E2; try contradiction.
    + exists t, t'. auto.
    + destruct (assoc y r) as [ex|] eqn:Er.
      * exists (Th ex (FVars b r :: rest)), (Th ex (FVars b' r :: rest')). repeat split.
        econstructor; [econstructor; eassumption|]. apply in_assoc_in in Er. rewrite Forall_forall in Hr. apply (Hr _ Er).
      * apply IH. apply in_app_or in Hy. destruct Hy as [Hy | Hy].
        -- exfalso. apply (in_assoc_some y b Hy). exact E1.
        -- apply in_app_or in Hy. destruct Hy as [Hy | Hy]; [exfalso; apply (in_assoc_some y r Hy); exact Er | exact Hy].
  - simpl. apply IH. exact Hy.
  - apply in_rm in Hy. destruct Hy as [Hy Hne]. destruct Hd as [H1 H2].
    rewrite (proj1 (H1 rest) y Hne), (proj1 (H2 rest') y Hne). apply IH. exact Hy.
Qed.

Lemma erel_lookup_obj : forall en en' vs io, erel en en' vs io -> io = true ->
  exists ls ls' i c, lookup_obj en = Some (ls, i, c) /\ lookup_obj en' = Some (ls', i, c) /\ lsrel ls ls'.
Proof.
  induction 1 as [| | | rest rest' vs io Hrest IH]; intros Hio; try discriminate; simpl; eauto 10.
  destruct Hd as [H1 H2]. rewrite (proj2 (H1 rest)), (proj2 (H2 rest')). apply IH. exact Hio.
Qed.

(* ---- layers ---- *)
Lemma frel_assoc : forall locals vs fs fs' n, Forall2 (frel locals vs) fs fs' ->
  match assoc n fs, assoc n fs' with
  | Some f, Some f' => frel locals vs (n, f) (n, f')
  | None, None => True
  | _, _ => False
  end.
Proof.
  intros locals vs fs fs' n H. induction H as [|p p' r r' Hp _ IH]; simpl; [exact I|].
  inversion Hp; subst; simpl; (destruct (str_eqb n n0) eqn:E; [apply str_eqb_eq in E; subst; exact Hp | exact IH]).
Qed.

Lemma frel_vis locals vs n f f' : frel locals vs (n, f) (n, f') -> f_vis f = f_vis f' /\ f_plus f = f_plus f' /\ f_body f = f_body f'.
Proof. intros H. inversion H; subst; auto. Qed.

Lemma frel_names locals vs fs fs' : Forall2 (frel locals vs) fs fs' -> map fst fs = map fst fs'.
Proof.
  induction 1 as [|p p' r r' Hp _ IH]; simpl; [reflexivity|]. rewrite IH. f_equal. inversion Hp; subst; reflexivity.
Qed.

Lemma lrel_fields_names l l' : lrel l l' -> map fst (l_fields l) = map fst (l_fields l').
Proof. intros H. inversion H; subst. simpl. eapply frel_names. eassumption. Qed.

Lemma lrel_assoc l l' n : lrel l l' -> exists vs io, erel (l_env l) (l_env l') vs io /\
  match assoc n (l_fields l), assoc n (l_fields l') with
  | Some f, Some f' => frel (l_locals l) vs (n, f) (n, f')
  | None, None => True
  | _, _ => False
  end.
Proof. intros H. inversion H; subst. simpl. exists vs, io. split; [assumption | apply frel_assoc; assumption]. Qed.

Lemma lrel_locals l l' : lrel l l' -> l_locals l = l_locals l' /\ l_asserts l = l_asserts l' /\ l_std l = l_std l'.
Proof. intros H. inversion H; subst. auto. Qed.

Lemma lsrel_find_in : forall ls ls' k n, lsrel ls ls' ->
  match find_field_in ls k n, find_field_in ls' k n with
  | Some (i, f), Some (i', f') => i = i' /\ f_vis f = f_vis f' /\ f_plus f = f_plus f' /\ f_body f = f_body f'
  | None, None => True
  | _, _ => False
  end.
Proof.
  intros ls ls' k n H. revert k. induction H as [|l l' r r' Hl _ IH]; intros k; simpl; [exact I|].
  destruct (lrel_assoc l l' n Hl) as (vs0 & io0 & _ & Ha).
  destruct (assoc n (l_fields l)) as [f|]; destruct (assoc n (l_fields l')) as [f'|]; try contradiction.
  - split; [reflexivity | eapply frel_vis; eassumption].
  - apply IH.
Qed.

Lemma lsrel_dropN : forall ls ls' from, lsrel ls ls' -> lsrel (dropN ls from) (dropN ls' from).
Proof.
  intros ls ls' from H. revert from. induction H as [|l l' r r' Hl Hr IH]; intros from; simpl; [constructor|].
  destruct (from =? 0); [constructor; assumption | apply IH].
Qed.

Lemma lsrel_find : forall ls ls' from n, lsrel ls ls' ->
  match find_field ls from n, find_field ls' from n with
  | Some (i, f), Some (i', f') => i = i' /\ f_vis f = f_vis f' /\ f_plus f = f_plus f' /\ f_body f = f_body f'
  | None, None => True
  | _, _ => False
  end.
Proof. intros. unfold find_field. apply lsrel_find_in. apply lsrel_dropN. assumption. Qed.

Lemma lsrel_has_field ls ls' from n : lsrel ls ls' -> has_field ls from n = has_field ls' from n.
Proof.
  intros H. unfold has_field. pose proof (lsrel_find ls ls' from n H) as Hf.
  destruct (find_field ls from n) as [[i f]|]; destruct (find_field ls' from n) as [[i' f']|]; try contradiction; reflexivity.
Qed.

Lemma lsrel_nthN : forall ls ls' i l, lsrel ls ls' -> nthN ls i = Some l -> exists l', nthN ls' i = Some l' /\ lrel l l'.
Proof.
  intros ls ls' i l H. revert i. induction H as [|a a' r r' Ha _ IH]; intros i Hn; simpl in *; [discriminate|].
  destruct (i =? 0); [injection Hn as <-; eauto | apply IH; exact Hn].
Qed.

Lemma lsrel_nthN_none : forall ls ls' i, lsrel ls ls' -> nthN ls i = None -> nthN ls' i = None.
Proof.
  intros ls ls' i H. revert i. induction H as [|a a' r r' Ha _ IH]; intros i Hn; simpl in *; [reflexivity|].
  destruct (i =? 0); [discriminate | apply IH; exact Hn].
Qed.

Lemma lsrel_len ls ls' : lsrel ls ls' -> lenN ls = lenN ls'.
Proof. intros H. unfold lenN. f_equal. induction H; simpl; congruence. Qed.

Lemma lsrel_has_std ls ls' : lsrel ls ls' -> has_std ls = has_std ls'.
Proof.
  intros H. unfold has_std. induction H as [|a a' r r' Ha _ IH]; simpl; [reflexivity|].
  destruct (lrel_locals _ _ Ha) as (_ & _ & ->). rewrite IH. reflexivity.
Qed.

Lemma lsrel_field_vis_in : forall ls ls' n fd, lsrel ls ls' -> field_vis_in ls n fd = field_vis_in ls' n fd.
Proof.
  intros ls ls' n fd H. revert fd. induction H as [|l l' r r' Hl _ IH]; intros fd; simpl; [reflexivity|].
  destruct (lrel_assoc l l' n Hl) as (vs0 & io0 & _ & Ha).
  destruct (assoc n (l_fields l)) as [f|]; destruct (assoc n (l_fields l')) as [f'|]; try contradiction; [|apply IH].
  destruct (frel_vis _ _ _ _ _ Ha) as (-> & _). destruct (f_vis f'); auto.
Qed.

Lemma lsrel_is_visible ls ls' n : lsrel ls ls' -> is_visible ls n = is_visible ls' n.
Proof. intros H. unfold is_visible, field_vis. rewrite (lsrel_field_vis_in ls ls' n false H). reflexivity. Qed.

Lemma lsrel_all_names ls ls' : lsrel ls ls' -> all_names ls = all_names ls'.
Proof.
  intros H. unfold all_names. f_equal. induction H as [|l l' r r' Hl _ IH]; simpl; [reflexivity|].
  rewrite (lrel_fields_names _ _ Hl), IH. reflexivity.
Qed.

Lemma lsrel_visible_names ls ls' : lsrel ls ls' -> visible_names ls = visible_names ls'.
Proof.
  intros H. unfold visible_names. rewrite (lsrel_all_names _ _ H). apply filter_ext. intros n. apply lsrel_is_visible. exact H.
Qed.

(* the field found on both sides is the same field of related layers *)
Lemma lsrel_find_layer : forall ls ls' from n i f l,
  lsrel ls ls' -> find_field ls from n = Some (i, f) -> nthN ls i = Some l ->
  exists f' l' vs io, find_field ls' from n = Some (i, f') /\ nthN ls' i = Some l' /\ lrel l l' /\
                erel (l_env l) (l_env l') vs io /\ frel (l_locals l) vs (n, f) (n, f').
Proof.
  intros ls ls' from n i f l H Hf Hn.
  destruct (lsrel_nthN _ _ _ _ H Hn) as (l' & Hn' & Hl).
  pose proof (lsrel_find ls ls' from n H) as Hff. rewrite Hf in Hff.
  destruct (find_field ls' from n) as [[i' f']|] eqn:Ef'; [|contradiction]. destruct Hff as (<- & _).
  destruct (lrel_assoc l l' n Hl) as (vs & io & He & Ha).
  exists f', l', vs, io. repeat split; auto.
  assert (A1 : assoc n (l_fields l) = Some f).
  { unfold find_field in Hf. destruct (find_field_in_sound _ _ _ _ _ Hf) as (l0 & _ & Ha0 & Hn0 & Hle).
    rewrite nthN_dropN in Hn0. replace (from + (i - from)) with i in Hn0 by lia. rewrite Hn in Hn0. injection Hn0 as <-. exact Ha0. }
  assert (A2 : assoc n (l_fields l') = Some f').
  { unfold find_field in Ef'. destruct (find_field_in_sound _ _ _ _ _ Ef') as (l0 & _ & Ha0 & Hn0 & Hle).
    rewrite nthN_dropN in Hn0. replace (from + (i - from)) with i in Hn0 by lia. rewrite Hn' in Hn0. injection Hn0 as <-. exact Ha0. }
  rewrite A1, A2 in Ha. exact Ha.
Qed.

Lemma layer_env_rel : forall ls ls' i l l' base base' vs io body,
  lsrel ls ls' -> l_locals l = l_locals l' -> erel base base' vs io -> lclosed (l_locals l) vs body ->
  erel (layer_env ls i l base) (layer_env ls' i l' base') (map fst (l_locals l) ++ vs) true /\
  closed (map fst (l_locals l) ++ vs) true body.
Proof.
  intros ls ls' i l l' base base' vs io body Hls Hloc He [Hl Hb]. unfold layer_env. rewrite <- Hloc. split; [|exact Hb].
  change (map fst (l_locals l) ++ vs) with (map fst (@nil (str * thunk)) ++ map fst (l_locals l) ++ vs).
  constructor; [constructor | exact Hl | econstructor; eassumption].
Qed.

End Dead.

Lemma dead_ok_nil x : dead_ok x [].
Proof. intros en. split; reflexivity. Qed.

Lemma dead_ok_local x e : dead_ok x [FVars [] [(x, e)]].
Proof.
  intros en. split; [|reflexivity]. intros y Hne. simpl.
  destruct (str_eqb y x) eqn:E; [apply str_eqb_eq in E; contradiction | reflexivity].
Qed.
