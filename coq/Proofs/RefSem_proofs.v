(* Proofs/RefSem_proofs.v — lemmas about the C02 reference interpreter.

   Part 1: monotonicity.  Every computation in the monad [M] is monotone in the
   recursive knot and in the stack limit: a result that is not the "bad" one
   of the mode (OutOfFuel for more fuel, StackOverflow for a larger limit) is
   reproduced unchanged.  The proof is syntax directed ([mono_tac]).
   Part 2: the big-step relation [evaluates] and the specification's
   desugaring laws. *)
From RJ Require Import Base.Outcome Base.F64 Model.Token Model.Ast Model.RefCore Model.RefValue Model.RefEval.
From Coq Require Import Lia.
Local Open Scope N_scope.

Lemma run_deterministic : forall fuel c e r1 r2, run fuel c e = r1 -> run fuel c e = r2 -> r1 = r2.
Proof. intros fuel c e r1 r2 H1 H2. rewrite <- H1, <- H2. reflexivity. Qed.

(* ------------------------------------------------------------------ monotonicity *)
Inductive mode := MFuel | MLimit.

Definition bad_out {A} (m : mode) (o : outcome A err) : bool :=
  match m, o with
  | MFuel, OutOfFuel => true
  | MLimit, Err EStackOverflow => true
  | _, _ => false
  end.

Definition res_le {A} (m : mode) (r1 r2 : res A) : Prop := bad_out m (snd r1) = false -> r2 = r1.

Definition cfg_le (m : mode) (c1 c2 : cfg) : Prop :=
  c_bfs c1 = c_bfs c2 /\ c_ts_tail c1 = c_ts_tail c2 /\
  match m with MFuel => c_limit c1 = c_limit c2 | MLimit => c_limit c1 <= c_limit c2 end.

Definition rec_le (m : mode) (r1 r2 : recfn) : Prop := forall t d, res_le m (r1 t d) (r2 t d).

Definition mono {A} (x : M A) : Prop :=
  forall m c1 c2 r1 r2, cfg_le m c1 c2 -> rec_le m r1 r2 -> res_le m (x c1 r1) (x c2 r2).

Lemma mono_ret {A} (a : A) : mono (ret a).
Proof. intros m c1 c2 r1 r2 _ _ _. reflexivity. Qed.

Lemma mono_lift {A} (o : outcome A err) : mono (lift o).
Proof. intros m c1 c2 r1 r2 _ _ _. reflexivity. Qed.

Lemma mono_fail {A} (e : err) : mono (@fail A e).
Proof. apply mono_lift. Qed.

Lemma mono_kind {A} s : mono (@kind A s).
Proof. apply mono_lift. Qed.

Lemma mono_unsupported {A} s : mono (@unsupported A s).
Proof. apply mono_lift. Qed.

Lemma mono_argtype {A} : mono (@argtype A).
Proof. apply mono_lift. Qed.

Lemma mono_emit s : mono (emit s).
Proof. intros m c1 c2 r1 r2 _ _ _. reflexivity. Qed.

Lemma mono_ask_bfs : mono ask_bfs.
Proof. intros m c1 c2 r1 r2 (H & _) _ _. unfold ask_bfs. rewrite H. reflexivity. Qed.

Lemma mono_ask_ts_tail : mono ask_ts_tail.
Proof. intros m c1 c2 r1 r2 (_ & H & _) _ _. unfold ask_ts_tail. rewrite H. reflexivity. Qed.

Lemma mono_call t d : mono (call t d).
Proof. intros m c1 c2 r1 r2 _ H. apply H. Qed.

Lemma mono_enter d : mono (enter d).
Proof.
  intros m c1 c2 r1 r2 (_ & _ & H) _. unfold enter, res_le.
  destruct (c_limit c1 <? d + 1) eqn:E1; destruct m; simpl; intros Hb; try discriminate.
  - rewrite <- H, E1. reflexivity.
  - rewrite <- H, E1. reflexivity.
  - apply N.ltb_ge in E1. assert (E2 : c_limit c2 <? d + 1 = false) by (apply N.ltb_ge; lia).
    rewrite E2. reflexivity.
Qed.

Lemma mono_bind {A B} (x : M A) (k : A -> M B) : mono x -> (forall a, mono (k a)) -> mono (bind x k).
Proof.
  intros Hx Hk m c1 c2 r1 r2 Hc Hr. unfold bind, res_le.
  specialize (Hx m c1 c2 r1 r2 Hc Hr). unfold res_le in Hx.
  destruct (x c1 r1) as [t o] eqn:E1. destruct o as [a | e | s |]; simpl in *.
  - assert (Hok : bad_out m (@Ok A err a) = false) by (destruct m; reflexivity).
    rewrite (Hx Hok).
    specialize (Hk a m c1 c2 r1 r2 Hc Hr). unfold res_le in Hk.
    destruct (k a c1 r1) as [t2 o2] eqn:E2. simpl in *. intros Hb. rewrite (Hk Hb). reflexivity.
  - intros Hb. rewrite (Hx Hb). reflexivity.
  - intros Hb. assert (Hb' : bad_out m (@Panic A err s) = false) by (destruct m; reflexivity).
    rewrite (Hx Hb'). reflexivity.
  - intros Hb. assert (Hb' : bad_out m (@OutOfFuel A err) = false) by (destruct m; [discriminate Hb | reflexivity]).
    rewrite (Hx Hb'). reflexivity.
Qed.

Lemma mono_mapM {A B} (f : A -> M B) l : (forall a, mono (f a)) -> mono (mapM f l).
Proof.
  intros Hf. induction l as [|x r IH]; simpl.
  - apply mono_ret.
  - apply mono_bind; [apply Hf|]. intros y. apply mono_bind; [apply IH|]. intros ys. apply mono_ret.
Qed.

Lemma mono_iterM {A} (f : A -> M unit) l : (forall a, mono (f a)) -> mono (iterM f l).
Proof.
  intros Hf. induction l as [|x r IH]; simpl.
  - apply mono_ret.
  - apply mono_bind; [apply Hf|]. intros _. apply IH.
Qed.

Create HintDb mono discriminated.
#[export] Hint Resolve mono_ret mono_lift mono_fail mono_kind mono_unsupported mono_argtype mono_emit mono_ask_bfs
  mono_ask_ts_tail mono_call mono_enter : mono.

Ltac mono_step :=
  match goal with
  | |- mono (bind _ _) => apply mono_bind; [| intros ?]
  | |- mono (mapM _ _) => apply mono_mapM; intros ?
  | |- mono (iterM _ _) => apply mono_iterM; intros ?
  | |- mono (match ?x with _ => _ end) => destruct x
  | |- mono (if ?b then _ else _) => destruct b
  | |- mono _ => solve [auto with mono]
  end.
Ltac mono_tac := repeat mono_step.

Lemma mono_as_val a : mono (as_val a). Proof. unfold as_val. mono_tac. Qed.
Lemma mono_as_bool a : mono (as_bool a). Proof. unfold as_bool. mono_tac. Qed.
Lemma mono_as_cmp a : mono (as_cmp a). Proof. unfold as_cmp. mono_tac. Qed.
Lemma mono_as_json a : mono (as_json a). Proof. unfold as_json. mono_tac. Qed.
#[export] Hint Resolve mono_as_val mono_as_bool mono_as_cmp mono_as_json : mono.

Lemma mono_eval e x d : mono (eval e x d). Proof. unfold eval. mono_tac. Qed.
Lemma mono_forceT t d : mono (forceT t d). Proof. unfold forceT. mono_tac. Qed.
Lemma mono_apply f p n b d : mono (apply f p n b d). Proof. unfold apply. mono_tac. Qed.
Lemma mono_applyf f p d : mono (applyf f p d). Proof. unfold applyf. apply mono_apply. Qed.
Lemma mono_field_at ls f n d : mono (field_at ls f n d). Proof. unfold field_at. mono_tac. Qed.
Lemma mono_equals a b d : mono (equals a b d). Proof. unfold equals. mono_tac. Qed.
Lemma mono_compare a b d : mono (compare a b d). Proof. unfold compare. mono_tac. Qed.
Lemma mono_manifest s v d : mono (manifest s v d). Proof. unfold manifest. mono_tac. Qed.
#[export] Hint Resolve mono_eval mono_forceT mono_apply mono_applyf mono_field_at mono_equals mono_compare mono_manifest : mono.

Lemma mono_render_m j : mono (render_m j). Proof. unfold render_m. mono_tac. Qed.
#[export] Hint Resolve mono_render_m : mono.
Lemma mono_to_string v d : mono (to_string v d). Proof. unfold to_string. mono_tac. Qed.
#[export] Hint Resolve mono_to_string : mono.
Lemma mono_un_op op v : mono (un_op op v). Proof. unfold un_op. mono_tac. Qed.
Lemma mono_int2 a b k : (forall x y, mono (k x y)) -> mono (int2 a b k).
Proof. intros H. unfold int2. mono_tac; try apply H. Qed.
Lemma mono_num_bin op a b : mono (num_bin op a b).
Proof. unfold num_bin. destruct op; mono_tac; apply mono_int2; intros; mono_tac. Qed.
#[export] Hint Resolve mono_un_op mono_num_bin : mono.
Lemma mono_add_vals l r d : mono (add_vals l r d). Proof. unfold add_vals. mono_tac. Qed.
#[export] Hint Resolve mono_add_vals : mono.
Lemma mono_bin_op op l r d : mono (bin_op op l r d). Proof. unfold bin_op. mono_tac. Qed.
#[export] Hint Resolve mono_bin_op : mono.

Lemma mono_run_assert en a d : mono (run_assert en a d). Proof. unfold run_assert. mono_tac. Qed.
#[export] Hint Resolve mono_run_assert : mono.
Lemma mono_run_layer_asserts ls rest i d : mono (run_layer_asserts ls rest i d).
Proof. revert i. induction rest as [|l r IH]; intros i; simpl; mono_tac; try apply IH. Qed.
#[export] Hint Resolve mono_run_layer_asserts : mono.
Lemma mono_run_asserts ls c d : mono (run_asserts ls c d). Proof. unfold run_asserts. mono_tac. Qed.
#[export] Hint Resolve mono_run_asserts : mono.
Lemma mono_missing_field {A} ls n : mono (@missing_field A ls n). Proof. unfold missing_field. mono_tac. Qed.
#[export] Hint Resolve mono_missing_field : mono.
Lemma mono_get_field ls c n d : mono (get_field ls c n d). Proof. unfold get_field. mono_tac. Qed.
#[export] Hint Resolve mono_get_field : mono.
Lemma mono_do_field ls f n d : mono (do_field ls f n d). Proof. unfold do_field. mono_tac. Qed.
Lemma mono_with_super en k : (forall ls i, mono (k ls i)) -> mono (with_super en k).
Proof. intros H. unfold with_super. mono_tac; try apply H. Qed.
Lemma mono_super_field en n d : mono (super_field en n d).
Proof. unfold super_field. apply mono_with_super. intros. mono_tac. Qed.
#[export] Hint Resolve mono_do_field mono_super_field : mono.

Lemma mono_field_name_of v : mono (field_name_of v). Proof. unfold field_name_of. mono_tac. Qed.
Lemma mono_add_field acc on f : mono (add_field acc on f). Proof. unfold add_field. mono_tac. Qed.
#[export] Hint Resolve mono_field_name_of mono_add_field : mono.
Lemma mono_build_fields en fs acc d : mono (build_fields en fs acc d).
Proof. revert acc. induction fs as [|f r IH]; intros acc; simpl; mono_tac; try apply IH. Qed.
#[export] Hint Resolve mono_build_fields : mono.

Lemma mono_expand_for x vs vals : mono (expand_for x vs vals).
Proof. revert vals. induction vs as [|v r IH]; intros vals; simpl; mono_tac; try apply IH. Qed.
Lemma mono_filter_if vs vals : mono (filter_if vs vals).
Proof. revert vals. induction vs as [|v r IH]; intros vals; simpl; mono_tac; try apply IH. Qed.
#[export] Hint Resolve mono_expand_for mono_filter_if : mono.
Lemma mono_comp_bfs en specs vs d : mono (comp_bfs en specs vs d).
Proof. revert vs. induction specs as [|s r IH]; intros vs; simpl; mono_tac; try apply IH. Qed.
Lemma mono_comp_dfs en specs v d : mono (comp_dfs en specs v d).
Proof. revert v. induction specs as [|s r IH]; intros v; simpl; mono_tac; try apply IH. Qed.
#[export] Hint Resolve mono_comp_bfs mono_comp_dfs : mono.
Lemma mono_comp_envs en specs d : mono (comp_envs en specs d). Proof. unfold comp_envs. mono_tac. Qed.
#[export] Hint Resolve mono_comp_envs : mono.
Lemma mono_build_comp_fields envs n p b acc d : mono (build_comp_fields envs n p b acc d).
Proof. revert acc. induction envs as [|e r IH]; intros acc; simpl; mono_tac; try apply IH. Qed.
#[export] Hint Resolve mono_build_comp_fields : mono.

Lemma mono_index_value v i d : mono (index_value v i d). Proof. unfold index_value. mono_tac. Qed.
Lemma mono_opt_num v s : mono (opt_num v s). Proof. unfold opt_num. mono_tac. Qed.
Lemma mono_slice_pos l f : mono (slice_pos l f). Proof. unfold slice_pos. mono_tac. Qed.
#[export] Hint Resolve mono_index_value mono_opt_num mono_slice_pos : mono.
Lemma mono_slice_range l a b c : mono (slice_range l a b c). Proof. unfold slice_range. mono_tac. Qed.
#[export] Hint Resolve mono_slice_range : mono.
Lemma mono_do_slice v a b c f : mono (do_slice v a b c f). Proof. unfold do_slice. mono_tac. Qed.
Lemma mono_eval_opt en o d : mono (eval_opt en o d). Proof. unfold eval_opt. mono_tac. Qed.
#[export] Hint Resolve mono_do_slice mono_eval_opt : mono.

Lemma mono_filter_m fv items d : mono (filter_m fv items d).
Proof. induction items as [|it r IH]; simpl; mono_tac; try apply IH. Qed.
Lemma mono_foldl_m fv items acc d : mono (foldl_m fv items acc d).
Proof. revert acc. induction items as [|it r IH]; intros acc; simpl; mono_tac; try apply IH. Qed.
Lemma mono_foldr_m fv items acc d : mono (foldr_m fv items acc d).
Proof. revert acc. induction items as [|it r IH]; intros acc; simpl; mono_tac; try apply IH. Qed.
Lemma mono_join_str_m sep items first acc d : mono (join_str_m sep items first acc d).
Proof. revert first acc. induction items as [|it r IH]; intros first acc; simpl; mono_tac; try apply IH. Qed.
Lemma mono_join_arr_m sep items first acc d : mono (join_arr_m sep items first acc d).
Proof. revert first acc. induction items as [|it r IH]; intros first acc; simpl; mono_tac; try apply IH. Qed.
#[export] Hint Resolve mono_filter_m mono_foldl_m mono_foldr_m mono_join_str_m mono_join_arr_m : mono.
Lemma mono_object_has o f h : mono (object_has o f h). Proof. unfold object_has. mono_tac. Qed.
Lemma mono_object_fields o h : mono (object_fields o h). Proof. unfold object_fields. mono_tac. Qed.
Lemma mono_prim_equals a b : mono (prim_equals a b). Proof. unfold prim_equals. mono_tac. Qed.
Lemma mono_mod_num a b : mono (mod_num a b). Proof. unfold mod_num. mono_tac. Qed.
#[export] Hint Resolve mono_object_has mono_object_fields mono_prim_equals mono_mod_num : mono.

Lemma mono_all_m items d : mono (all_m items d).
Proof. induction items as [|it r IH]; simpl; mono_tac; try apply IH. Qed.
Lemma mono_any_m items d : mono (any_m items d).
Proof. induction items as [|it r IH]; simpl; mono_tac; try apply IH. Qed.
Lemma mono_sum_m items acc d : mono (sum_m items acc d).
Proof. revert acc. induction items as [|it r IH]; intros acc; simpl; mono_tac; try apply IH. Qed.
Lemma mono_flatten_m items acc d : mono (flatten_m items acc d).
Proof. revert acc. induction items as [|it r IH]; intros acc; simpl; mono_tac; try apply IH. Qed.
Lemma mono_contains_m x items d : mono (contains_m x items d).
Proof. induction items as [|it r IH]; simpl; mono_tac; try apply IH. Qed.
Lemma mono_count_m x items n d : mono (count_m x items n d).
Proof. revert n. induction items as [|it r IH]; intros n; simpl; mono_tac; try apply IH. Qed.
#[export] Hint Resolve mono_all_m mono_any_m mono_sum_m mono_flatten_m mono_contains_m mono_count_m : mono.

Lemma mono_call_builtin bi args d : mono (call_builtin bi args d).
Proof.
  unfold call_builtin.
  destruct args as [|a0 [|a1 [|a2 [|a3 [|a4 r]]]]]; try solve [mono_tac]; destruct bi; mono_tac.
Qed.
#[export] Hint Resolve mono_call_builtin : mono.

Lemma mono_force_args ts d : mono (force_args ts d). Proof. unfold force_args. mono_tac. Qed.
#[export] Hint Resolve mono_force_args : mono.
Lemma mono_do_apply fv pos named force d : mono (do_apply fv pos named force d).
Proof. unfold do_apply. mono_tac. Qed.

Lemma mono_eq_items a b d : mono (eq_items a b d).
Proof. revert b. induction a as [|x r IH]; intros b; simpl; mono_tac; try apply IH. Qed.
Lemma mono_eq_fields la lb names d : mono (eq_fields la lb names d).
Proof. induction names as [|n r IH]; simpl; mono_tac; try apply IH. Qed.
Lemma mono_cmp_items a b d : mono (cmp_items a b d).
Proof. revert b. induction a as [|x r IH]; intros b; simpl; mono_tac; try apply IH. Qed.
#[export] Hint Resolve mono_eq_items mono_eq_fields mono_cmp_items : mono.
Lemma mono_do_equals a b d : mono (do_equals a b d). Proof. unfold do_equals. mono_tac. Qed.
Lemma mono_do_compare a b d : mono (do_compare a b d). Proof. unfold do_compare. mono_tac. Qed.
Lemma mono_do_manifest s v d : mono (do_manifest s v d). Proof. unfold do_manifest. mono_tac. Qed.
Lemma mono_cond_bool v : mono (cond_bool v). Proof. unfold cond_bool. mono_tac. Qed.
#[export] Hint Resolve mono_do_apply mono_do_equals mono_do_compare mono_do_manifest mono_cond_bool : mono.

Lemma mono_do_eval en x d : mono (do_eval en x d).
Proof.
  unfold do_eval. destruct x; try solve [mono_tac].
  apply mono_bind; [auto with mono|]. intros v. destruct v; mono_tac.
  apply mono_with_super. intros. mono_tac.
Qed.
Lemma mono_do_force t d : mono (do_force t d). Proof. unfold do_force. mono_tac. Qed.
#[export] Hint Resolve mono_do_eval mono_do_force : mono.

Lemma mono_step_fn t d : mono (step t d).
Proof. unfold step. destruct t; mono_tac. Qed.

Lemma mono_run_top x : mono (run_top x).
Proof. unfold run_top. mono_tac. Qed.

Lemma cfg_le_refl m c : cfg_le m c c.
Proof. unfold cfg_le. destruct m; repeat split; lia. Qed.

Lemma run_task_fuel_le c : forall f1 f2, (f1 <= f2)%nat -> rec_le MFuel (run_task f1 c) (run_task f2 c).
Proof.
  induction f1 as [|n IH]; intros f2 Hle t d.
  - unfold res_le. simpl. discriminate.
  - destruct f2 as [|n2]; [lia|]. simpl.
    apply mono_step_fn; [apply cfg_le_refl | apply IH; lia].
Qed.

Lemma run_task_limit_le c1 c2 : cfg_le MLimit c1 c2 -> forall f, rec_le MLimit (run_task f c1) (run_task f c2).
Proof.
  intros Hc. induction f as [|n IH]; intros t d.
  - unfold res_le. reflexivity.
  - simpl. apply mono_step_fn; assumption.
Qed.

Theorem fuel_monotone : forall fuel fuel' c e r,
  run fuel c e = r -> snd r <> OutOfFuel -> (fuel <= fuel')%nat -> run fuel' c e = r.
Proof.
  intros fuel fuel' c e r Hr Hne Hle. subst r. unfold run, run_core in *.
  apply (mono_run_top (desugar e) MFuel c c _ _ (cfg_le_refl _ _) (run_task_fuel_le c fuel fuel' Hle)).
  destruct (snd (run_top (desugar e) c (run_task fuel c))); try reflexivity. congruence.
Qed.

Theorem limit_monotone : forall fuel c c' e r,
  run fuel c e = r -> snd r <> Err EStackOverflow ->
  c_bfs c = c_bfs c' -> c_ts_tail c = c_ts_tail c' -> c_limit c <= c_limit c' ->
  run fuel c' e = r.
Proof.
  intros fuel c c' e r Hr Hne Hb Ht Hl. subst r. unfold run, run_core in *.
  assert (Hc : cfg_le MLimit c c') by (unfold cfg_le; auto).
  apply (mono_run_top (desugar e) MLimit c c' _ _ Hc (run_task_limit_le c c' Hc fuel)).
  destruct (snd (run_top (desugar e) c (run_task fuel c))) as [a|e0|s|]; try reflexivity.
  destruct e0; try reflexivity. congruence.
Qed.

