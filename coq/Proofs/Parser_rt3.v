(* Proofs/Parser_rt3.v — round trip: main induction *)
From RJ Require Import Base.Outcome Model.Token Model.Ast Model.Parser Model.Print
  Proofs.Parser_rt Proofs.Parser_rt2.
From Coq Require Import Lia.
Local Open Scope list_scope.
Local Open Scope N_scope.

Notation T := spec_prec.

(* ---- facts about operator tokens, by enumeration *)
Lemma ops_split op : exists l1 l2,
  pt_ops T (kind (binop_level op)) = l1 ++ (binop_tok op, op) :: l2 /\ all_miss l1 (sim (binop_tok op)) = true.
Proof.
  destruct op; cbn [binop_level kind pt_ops spec_prec binop_tok];
  first [ exists (@nil (stoken * binary_op)); eexists; split; reflexivity
        | eexists [_]; eexists; split; reflexivity
        | eexists [_; _]; eexists; split; reflexivity
        | eexists [_; _; _]; eexists; split; reflexivity
        | eexists [_; _; _; _]; eexists; split; reflexivity ].
Qed.
Lemma optok_nosfx op : nosfx (sim (binop_tok op)) = true.
Proof. destruct op; reflexivity. Qed.
Lemma optok_noop op : noop_above (binop_level op) (sim (binop_tok op)) = true.
Proof. destruct op; reflexivity. Qed.
Lemma level_le9 op : (binop_level op <= 9)%nat.
Proof. destruct op; cbn; lia. Qed.

Definition head_not_super (t : list token) : Prop :=
  match t with c :: _ => is_simple KSuper c = false | [] => True end.

Section Steps.
  Variable pexpr : P expr.
  Variable lf : nat.
  Notation PL := (pe_loop spec_prec pexpr (S lf)).

  Lemma pl_rhs_op f op lhs stk t (a : expr) t' : t <> [] -> head_not_super t ->
    run (PL f (enter (S (binop_level op))) (SiBinaryRhs (kind (binop_level op)) lhs op :: stk)) t a t' ->
    run (PL (S f) (StBinaryRhs (kind (binop_level op)) lhs) stk) (sim (binop_tok op) :: t) a t'.
  Proof.
    intros Ht Hs H. cbn [pe_loop].
    destruct (ops_split op) as (l1 & l2 & -> & Hm).
    eapply run_bind; [apply run_eat_first_hit; [exact Hm|destruct op; reflexivity|exact Ht]|].
    cbv beta iota. rewrite next_state_enter by apply level_le9.
    destruct (stoken_eqb (binop_tok op) KIn) eqn:Ein; [|exact H].
    apply run_if_false; [|exact H].
    intros s Es. destruct t as [|c1 r1]; [congruence|]. unfold toks_of in Es. injection Es as Ec Er.
    unfold peek_simple, peek_tok. rewrite Ec. cbn in Hs. rewrite Hs. reflexivity.
  Qed.

  Lemma pl_rhs_insuper f lhs stk c t (a : expr) t' : expr_span lhs = sp0 -> nosfx c = true ->
    run (PL f (StBinaryRhs (kind 6) (EInSuper sp0 lhs sp0)) stk) (c :: t) a t' ->
    run (PL (S f) (StBinaryRhs (kind 6) lhs) stk) (sim KIn :: sim KSuper :: c :: t) a t'.
  Proof.
    intros Hl Hn H. cbn [pe_loop].
    eapply run_bind.
    { apply (run_eat_first_hit [(SLt, BLt); (SLtEq, BLe); (SGt, BGt); (SGtEq, BGe)] KIn BIn []);
        [reflexivity|reflexivity|discriminate]. }
    cbv beta iota. change (stoken_eqb KIn KIn) with true. cbv iota.
    destruct (nosfx_inv c Hn) as (H1 & H2 & _ & _).
    apply run_if_true.
    { intros s Es. unfold toks_of in Es. injection Es as Ec Er.
      unfold peek_simple, peek_tok. rewrite Ec, Er. cbn [nth_error]. rewrite H1, H2. reflexivity. }
    eapply run_orelse_hit; [apply run_eat_hit; [reflexivity|discriminate]|].
    rewrite Hl. eapply run_bind; [apply run_mk_span0|]. exact H.
  Qed.
End Steps.

(* ---------------------------------------------------------------- the covered constructors *)
Fixpoint core_expr (e : expr) : bool :=
  match e with
  | ENull _ | EBool _ _ | ESelf _ | EDollar _ | EString _ _ | ETextBlock _ _ | ENumber _ _ | EIdent _ _ => true
  | EParen _ x => core_expr x
  | EUnary _ _ x => core_expr x
  | EBinary _ l _ r => core_expr l && core_expr r
  | EInSuper _ x _ => core_expr x
  | _ => false
  end.

(* the first printed token of a covered tree is not `super` *)
Lemma core_head e : core_expr e = true -> exists c r, print_expr e = c :: r /\ is_simple KSuper c = false.
Proof.
  induction e; cbn [core_expr]; intros H; try discriminate;
    try (eexists; eexists; split; [reflexivity|reflexivity]).
  - destruct b; eexists; eexists; split; reflexivity.
  - apply andb_true_iff in H as [H1 H2]. destruct (IHe1 H1) as (c & r & E & Hc).
    cbn [print_expr]. rewrite E. eexists; eexists; split; [reflexivity|exact Hc].
  - destruct op; eexists; eexists; split; reflexivity.
  - destruct (IHe H) as (c & r & E & Hc). cbn [print_expr]. rewrite E. eexists; eexists; split; [reflexivity|exact Hc].
Qed.

Definition Bform (k : nat) (e : expr) (c : nat) : Prop :=
  forall pexpr lf f stk fo r x tf, nosfx fo = true -> noop_above k fo = true ->
    run (pe_loop T pexpr (S lf) f (exit_ k (strip_spans e)) stk) (fo :: r) x tf ->
    run (pe_loop T pexpr (S lf) (c + f) (enter k) stk) (print_expr e ++ fo :: r) x tf.

Definition Uform (e : expr) (c : nat) : Prop :=
  forall pexpr lf f stk fo r x tf, nosfx fo = true ->
    run (pe_loop T pexpr (S lf) f (StParsed (strip_spans e)) stk) (fo :: r) x tf ->
    run (pe_loop T pexpr (S lf) (c + f) StUnary stk) (print_expr e ++ fo :: r) x tf.

Ltac fuel_as X :=
  match goal with |- run (pe_loop _ _ _ ?F _ _) _ _ _ => replace F with X by lia end.

Lemma wrap k e c : (k <= 10)%nat -> Uform e c -> Bform k e ((10 - k) + c + steps_fin k).
Proof.
  intros Hk HU pexpr lf f stk fo r x tf Hn Ho H.
  fuel_as ((10 - k) + (c + (steps_fin k + f)))%nat.
  apply descend; [lia|]. replace (k + (10 - k))%nat with 10%nat by lia.
  change (enter 10) with StUnary.
  apply HU; [exact Hn|]. apply finish; [exact Hk|exact Ho|exact H].
Qed.

Lemma atom_unary_miss e c : atom_tok e = Some c -> all_miss (pt_unary T) c = true.
Proof. destruct e; cbn; intros H; try discriminate; injection H as <-; try destruct b; reflexivity. Qed.

Lemma U_atom e c : atom_tok e = Some c -> Uform e 3.
Proof.
  intros Ha pexpr lf f stk fo r x tf Hn H. rewrite (atom_print e c Ha). cbn [app Nat.add].
  apply pl_unary_miss; [apply (atom_unary_miss e); exact Ha|].
  apply (pl_primary_atom pexpr lf _ e); [exact Ha|discriminate|].
  apply pl_parsed_suffix_none; [exact Hn|exact H].
Qed.

Lemma steps_fin_le k : (steps_fin k <= 19)%nat.
Proof. unfold steps_fin. destruct (10 - k)%nat eqn:E; lia. Qed.

Ltac len_tac := cbn [print_expr]; rewrite ?app_length; cbn [List.length]; rewrite ?app_length; cbn [List.length]; lia.

Theorem rt_main : forall n e, (esize e < n)%nat -> core_expr e = true ->
  forall k last, (k <= 10)%nat -> wpx k last e = true ->
  exists c, (c <= 40 * List.length (print_expr e))%nat /\ Bform k e c.
Proof.
  induction n as [|n IH]; [intros; lia|].
  intros e Hsz Hcore k last Hk Hwp.
  pose proof (steps_fin_le k) as Hfin.
  destruct e; cbn [core_expr] in Hcore; try discriminate;
    try (exists ((10 - k) + 3 + steps_fin k)%nat; split;
         [cbn [print_expr List.length]; lia | apply wrap; [exact Hk|eapply U_atom; reflexivity]]).
  - (* EParen *)
    cbn [wpx] in Hwp. cbn [esize] in Hsz.
    destruct (IH e ltac:(lia) Hcore 0%nat true ltac:(lia) Hwp) as (cx & Hbx & Hx).
    exists ((10 - k) + (S (S (cx + 3))) + steps_fin k)%nat. split; [len_tac|].
    apply wrap; [exact Hk|].
    intros pexpr lf f stk fo r x tf Hn H.
    cbn [print_expr strip_spans app]. rewrite <- app_assoc. cbn [app Nat.add].
    apply pl_unary_miss; [reflexivity|].
    apply pl_primary_paren; [auto with rt|].
    change (init_state T) with (enter 0).
    fuel_as (cx + (3 + f))%nat.
    apply Hx; [reflexivity|reflexivity|].
    change (exit_ 0 (strip_spans e)) with (StBinaryRhs (kind 0) (strip_spans e)). cbn [Nat.add].
    apply pl_rhs_none; [reflexivity|].
    apply pl_parsed_paren; [discriminate|].
    apply pl_parsed_suffix_none; [exact Hn|exact H].
  - (* EBinary *)
    cbn [wpx] in Hwp. cbn [esize] in Hsz.
    apply andb_true_iff in Hcore as [Hc1 Hc2].
    apply andb_true_iff in Hwp as [Hwp Hw2]. apply andb_true_iff in Hwp as [Hkj Hw1].
    apply Nat.leb_le in Hkj. pose proof (level_le9 op) as Hj9.
    set (j := binop_level op) in *.
    destruct (IH e1 ltac:(lia) Hc1 j false ltac:(lia) Hw1) as (c1 & Hb1 & H1).
    destruct (IH e2 ltac:(lia) Hc2 (S j) last ltac:(lia) Hw2) as (c2 & Hb2 & H2).
    exists ((j - k) + (c1 + (1 + (c2 + ((if (S j <? 10)%nat then 2 else 1) + (2 * (j - k)))))))%nat.
    split; [destruct (S j <? 10)%nat; len_tac|].
    intros pexpr lf f stk fo r x tf Hn Ho H.
    cbn [print_expr strip_spans]. rewrite <- app_assoc. cbn [app].
    fuel_as ((j - k) + (c1 + (1 + (c2 + ((if (S j <? 10)%nat then 2 else 1) + (2 * (j - k) + f))))))%nat.
    unfold enter at 1. replace (k <? 10)%nat with true by (symmetry; apply Nat.ltb_lt; lia).
    assert (Ek : enter k = StBinary (kind k)).
    { unfold enter. replace (k <? 10)%nat with true by (symmetry; apply Nat.ltb_lt; lia). reflexivity. }
    rewrite <- Ek. apply descend; [lia|]. replace (k + (j - k))%nat with j by lia.
    apply H1; [apply optok_nosfx|apply optok_noop|].
    unfold exit_. replace (j <? 10)%nat with true by (symmetry; apply Nat.ltb_lt; lia).
    cbn [Nat.add].
    destruct (core_head e2 Hc2) as (ch & rh & Eh & Hh).
    apply pl_rhs_op; [auto with rt| rewrite Eh; exact Hh |].
    apply H2; [exact Hn|apply (noop_above_mono k); [exact Ho|lia]|].
    (* r parsed at level j+1: come back to level j *)
    assert (Hback : run (pe_loop T pexpr (S lf) (1 + (2 * (j - k) + f)) (StParsed (strip_spans e2))
                         (SiBinaryRhs (kind j) (strip_spans e1) op :: lhs_up k (j - k) ++ stk)) (fo :: r) x tf).
    { cbn [Nat.add]. apply pl_parsed_rhs; [apply strip_span0|apply strip_span0|].
      pose proof (ascend pexpr (S lf) (j - k) k f (EBinary sp0 (strip_spans e1) op (strip_spans e2)) stk fo r x tf
                    ltac:(lia) Ho) as Ha.
      replace (k + (j - k))%nat with j in Ha by lia. apply Ha.
      unfold exit_ in H. replace (k <? 10)%nat with true in H by (symmetry; apply Nat.ltb_lt; lia). exact H. }
    unfold exit_. destruct (S j <? 10)%nat eqn:Ej.
    + cbn [Nat.add]. apply pl_rhs_none; [apply (noop_above_at k); [exact Ho|apply Nat.ltb_lt in Ej; lia]|].
      exact Hback.
    + exact Hback.
  - (* EUnary *)
    cbn [wpx] in Hwp. cbn [esize] in Hsz.
    apply andb_true_iff in Hwp as [_ Hwx].
    destruct (IH e ltac:(lia) Hcore 10%nat last ltac:(lia) Hwx) as (cx & Hbx & Hx).
    exists ((10 - k) + (S (cx + 1)) + steps_fin k)%nat. split; [len_tac|].
    apply wrap; [exact Hk|].
    intros pexpr lf f stk fo r x tf Hn H.
    cbn [print_expr strip_spans app Nat.add].
    apply pl_unary_hit; [auto with rt|].
    change StUnary with (enter 10).
    fuel_as (cx + (1 + f))%nat.
    apply Hx; [exact Hn|reflexivity|].
    change (exit_ 10 (strip_spans e)) with (StParsed (strip_spans e)). cbn [Nat.add].
    apply pl_parsed_unary; [apply strip_span0|exact H].
  - (* EInSuper *)
    cbn [wpx] in Hwp. cbn [esize] in Hsz.
    apply andb_true_iff in Hwp as [Hk6 Hwx]. apply Nat.leb_le in Hk6. unfold lv_ordcmp in *.
    destruct (IH e ltac:(lia) Hcore 6%nat false ltac:(lia) Hwx) as (cx & Hbx & Hx).
    exists ((6 - k) + (cx + (1 + (2 * (6 - k)))))%nat. split; [len_tac|].
    intros pexpr lf f stk fo r x tf Hn Ho H.
    cbn [print_expr strip_spans]. rewrite <- app_assoc. cbn [app].
    fuel_as ((6 - k) + (cx + (1 + (2 * (6 - k) + f))))%nat.
    apply descend; [lia|]. replace (k + (6 - k))%nat with 6%nat by lia.
    apply Hx; [reflexivity|reflexivity|].
    change (exit_ 6 (strip_spans e)) with (StBinaryRhs (kind 6) (strip_spans e)). cbn [Nat.add].
    apply pl_rhs_insuper; [apply strip_span0|exact Hn|].
    pose proof (ascend pexpr (S lf) (6 - k) k f (EInSuper sp0 (strip_spans e) sp0) stk fo r x tf
                  ltac:(lia) Ho) as Ha.
    replace (k + (6 - k))%nat with 6%nat in Ha by lia. apply Ha.
    unfold exit_ in H. replace (k <? 10)%nat with true in H by (symmetry; apply Nat.ltb_lt; lia). exact H.
Qed.

(* ---------------------------------------------------------------- top level *)
Lemma run_parse_expr f0 t (a : expr) t' :
  run (pe_loop T (parse_expr T f0) f0 f0 (init_state T) []) t a t' -> run (parse_expr T (S f0)) t a t'.
Proof. intros H. exact (run_call _ _ _ _ H). Qed.

Lemma run_parse_root fuel c0 r0 (e : expr) :
  run (parse_expr T fuel) (c0 :: r0) e [eof_tok] ->
  omap fst (parse_fuel T fuel (c0 :: r0)) = Ok e.
Proof.
  intros H. unfold parse_fuel, parse_root_expr.
  destruct (H (init_pst c0 r0) eq_refl) as (s' & E & Ts).
  unfold bindP. rewrite E. destruct s' as [c r ex dc dm]. unfold toks_of in Ts; cbn in Ts.
  injection Ts as -> ->. reflexivity.
Qed.

Theorem roundtrip_core : forall e, core_expr e = true -> wp e = true ->
  omap fst (parse T (print_tokens e)) = Ok (strip_spans e).
Proof.
  intros e Hc Hw. unfold wp in Hw.
  destruct (rt_main (S (esize e)) e ltac:(lia) Hc 0%nat true ltac:(lia) Hw) as (c & Hb & HB).
  unfold parse, print_tokens, default_fuel.
  destruct (core_head e Hc) as (c0 & r0 & Ep & _).
  set (L := List.length (print_expr e ++ [eof_tok])).
  assert (HL : L = S (List.length (print_expr e))) by (unfold L; rewrite app_length; cbn; lia).
  assert (Hf : exists g, (64 * (L + 2))%nat = S (c + S (S g))) by (exists (64 * (L + 2) - c - 3)%nat; lia).
  destruct Hf as (g & ->).
  assert (Et : print_expr e ++ [eof_tok] = c0 :: (r0 ++ [eof_tok])) by (rewrite Ep; reflexivity).
  rewrite Et. change (omap fst (parse_fuel T (S (c + S (S g))) (c0 :: r0 ++ [eof_tok])) = Ok (strip_spans e)).
  apply run_parse_root. rewrite <- Et.
  apply run_parse_expr.
  assert (Hlf : exists lf, (c + S (S g))%nat = S lf) by (exists (c + S g)%nat; lia).
  destruct Hlf as (lf & Elf). rewrite Elf at 2. 
  change (init_state T) with (enter 0).
  apply HB; [reflexivity|reflexivity|].
  change (exit_ 0 (strip_spans e)) with (StBinaryRhs (kind 0) (strip_spans e)).
  apply pl_rhs_none; [reflexivity|]. apply pl_parsed_done.
Qed.
