(* Proofs/Parser_rt3.v — round trip: main induction *)
From RJ Require Import Base.Outcome Model.Token Model.Ast Model.Parser Model.Print
  Proofs.Parser_rt Proofs.Parser_rt2.
From Coq Require Import Lia.
Local Open Scope list_scope.
Local Open Scope N_scope.

Notation T := spec_prec.

(* ---- facts about operator tokens, by enumeration *)
Lemma ops_split op : exists l1 l2,
  pt_ops T (kind (binop_level op)) = l1 ++ (binop_tok op, op) :: l2 /\ all_miss l1 (sim (binop_tok op)) = true.
Proof.
  destruct op; cbn [binop_level kind pt_ops spec_prec binop_tok];
  first [ exists (@nil (stoken * binary_op)); eexists; split; reflexivity
        | eexists [_]; eexists; split; reflexivity
        | eexists [_; _]; eexists; split; reflexivity
        | eexists [_; _; _]; eexists; split; reflexivity
        | eexists [_; _; _; _]; eexists; split; reflexivity ].
Qed.
Lemma optok_nosfx op : nosfx (sim (binop_tok op)) = true.
Proof. destruct op; reflexivity. Qed.
Lemma optok_noop op : noop_above (binop_level op) (sim (binop_tok op)) = true.
Proof. destruct op; reflexivity. Qed.
Lemma level_le9 op : (binop_level op <= 9)%nat.
Proof. destruct op; cbn; lia. Qed.

Definition in_ok_b (t : list token) : bool :=
  match t with
  | c :: rest => negb (is_simple KSuper c) ||
                 match rest with c2 :: _ => is_simple SDot c2 || is_simple SLeftBracket c2 | [] => false end
  | [] => true
  end.

Lemma peek_in s :
  (peek_simple KSuper 0 s && negb (peek_simple SDot 1 s) && negb (peek_simple SLeftBracket 1 s))%bool
  = negb (in_ok_b (toks_of s)).
Proof.
  destruct s as [c r ex dc dm]. unfold peek_simple, peek_tok, toks_of, in_ok_b. cbn [cur rest nth_error].
  destruct (is_simple KSuper c); destruct r as [|c2 r]; cbn; try reflexivity.
  destruct (is_simple SDot c2), (is_simple SLeftBracket c2); reflexivity.
Qed.

Section Steps.
  Variable pexpr : P expr.
  Variable lf : nat.
  Notation PL := (pe_loop spec_prec pexpr (S lf)).

  Lemma pl_rhs_op f op lhs stk t (a : expr) t' : t <> [] -> in_ok_b t = true ->
    run (PL f (enter (S (binop_level op))) (SiBinaryRhs (kind (binop_level op)) lhs op :: stk)) t a t' ->
    run (PL (S f) (StBinaryRhs (kind (binop_level op)) lhs) stk) (sim (binop_tok op) :: t) a t'.
  Proof.
    intros Ht Hs H. cbn [pe_loop].
    destruct (ops_split op) as (l1 & l2 & -> & Hm).
    eapply run_bind; [apply run_eat_first_hit; [exact Hm|destruct op; reflexivity|exact Ht]|].
    cbv beta iota. rewrite next_state_enter by apply level_le9.
    destruct (stoken_eqb (binop_tok op) KIn) eqn:Ein; [|exact H].
    apply run_if_false; [|exact H].
    intros s Es. rewrite peek_in, Es, Hs. reflexivity.
  Qed.

  Lemma pl_rhs_insuper f lhs stk c t (a : expr) t' : expr_span lhs = sp0 -> nosfx c = true ->
    run (PL f (StBinaryRhs (kind 6) (EInSuper sp0 lhs sp0)) stk) (c :: t) a t' ->
    run (PL (S f) (StBinaryRhs (kind 6) lhs) stk) (sim KIn :: sim KSuper :: c :: t) a t'.
  Proof.
    intros Hl Hn H. cbn [pe_loop].
    eapply run_bind.
    { apply (run_eat_first_hit [(SLt, BLt); (SLtEq, BLe); (SGt, BGt); (SGtEq, BGe)] KIn BIn []);
        [reflexivity|reflexivity|discriminate]. }
    cbv beta iota. change (stoken_eqb KIn KIn) with true. cbv iota.
    destruct (nosfx_inv c Hn) as (H1 & H2 & _).
    apply run_if_true.
    { intros s Es. unfold toks_of in Es. injection Es as Ec Er.
      unfold peek_simple, peek_tok. rewrite Ec, Er. cbn [nth_error]. rewrite H1, H2. reflexivity. }
    eapply run_orelse_hit; [apply run_eat_hit; [reflexivity|discriminate]|].
    rewrite Hl. eapply run_bind; [apply run_mk_span0|]. exact H.
  Qed.
  Lemma pl_parsed_suffix_gen f e stk t R t1 (a : expr) t' :
    run (suffix_loop pexpr (S lf) (S lf) e) t R t1 -> run (PL f (StParsed R) stk) t1 a t' ->
    run (PL (S f) (StParsed e) (SiSuffix :: stk)) t a t'.
  Proof.
    intros H1 H2. cbn [pe_loop].
    eapply run_bind; [unfold parse_suffix_expr; apply run_call; exact H1|exact H2].
  Qed.
  (* ---- arrays *)
  Lemma run_for_spec_miss c t : is_simple KFor c = false ->
    run (maybe_parse_for_spec pexpr) (c :: t) None (c :: t).
  Proof.
    intros H. unfold maybe_parse_for_spec. apply run_call.
    eapply run_orelse_miss; [apply run_eat_miss; exact H|apply run_ret].
  Qed.

  Lemma run_comp_spec_miss c t : is_simple KFor c = false ->
    run (maybe_parse_comp_spec pexpr (S lf)) (c :: t) None (c :: t).
  Proof.
    intros H. unfold maybe_parse_comp_spec. apply run_call.
    eapply run_orelse_miss; [apply run_for_spec_miss; exact H|apply run_ret].
  Qed.

  Lemma pl_primary_bracket f stk t (a : expr) t' : t <> [] ->
    run (IFLET en <== eat_simple SRightBracket true
         THEN (sp <- mk_span sp0 en ;; PL f (StParsed (EArray sp [])) stk)
         ELSE PL f (init_state T) (SiArrayItem0 sp0 :: stk)) t a t' ->
    run (PL (S f) StPrimary stk) (sim SLeftBracket :: t) a t'.
  Proof.
    intros Ht H. cbn [pe_loop]. do 2 (eapply run_orelse_miss; [run_compute|]).
    eapply run_orelse_hit; [apply run_eat_hit; [reflexivity|exact Ht]|]. exact H.
  Qed.

  Lemma pl_item0_single f e stk t (a : expr) t' : t <> [] ->
    run (PL f (StParsed (EArray sp0 [e])) stk) t a t' ->
    run (PL (S f) (StParsed e) (SiArrayItem0 sp0 :: stk)) (sim SRightBracket :: t) a t'.
  Proof.
    intros Ht H. cbn [pe_loop].
    eapply run_bind; [apply run_eat_miss; reflexivity|].
    eapply run_orelse_miss; [apply run_comp_spec_miss; reflexivity|].
    eapply run_orelse_hit; [apply run_eat_hit; [reflexivity|exact Ht]|].
    eapply run_bind; [apply run_mk_span0|]. exact H.
  Qed.

  Lemma pl_item0_more f e stk c t (a : expr) t' : starter c = true ->
    run (PL f (init_state T) (SiArrayItemN sp0 [e] :: stk)) (c :: t) a t' ->
    run (PL (S f) (StParsed e) (SiArrayItem0 sp0 :: stk)) (sim SComma :: c :: t) a t'.
  Proof.
    intros Hc H. cbn [pe_loop].
    eapply run_bind; [apply run_eat_hit; [reflexivity|discriminate]|].
    eapply run_orelse_miss; [apply run_comp_spec_miss; apply starter_not; [exact Hc|reflexivity]|].
    eapply run_orelse_miss; [apply run_eat_miss; apply starter_not; [exact Hc|reflexivity]|].
    exact H.
  Qed.

  Lemma pl_itemN_last f e items stk t (a : expr) t' : t <> [] ->
    run (PL f (StParsed (EArray sp0 (items ++ [e]))) stk) t a t' ->
    run (PL (S f) (StParsed e) (SiArrayItemN sp0 items :: stk)) (sim SRightBracket :: t) a t'.
  Proof.
    intros Ht H. cbn [pe_loop]. cbv zeta.
    eapply run_bind; [apply run_eat_miss; reflexivity|].
    eapply run_orelse_hit; [apply run_eat_hit; [reflexivity|exact Ht]|].
    eapply run_bind; [apply run_mk_span0|]. exact H.
  Qed.

  Lemma pl_itemN_more f e items stk c t (a : expr) t' : starter c = true ->
    run (PL f (init_state T) (SiArrayItemN sp0 (items ++ [e]) :: stk)) (c :: t) a t' ->
    run (PL (S f) (StParsed e) (SiArrayItemN sp0 items :: stk)) (sim SComma :: c :: t) a t'.
  Proof.
    intros Hc H. cbn [pe_loop]. cbv zeta.
    eapply run_bind; [apply run_eat_hit; [reflexivity|discriminate]|].
    eapply run_orelse_miss; [apply run_eat_miss; apply starter_not; [exact Hc|reflexivity]|].
    exact H.
  Qed.
  Lemma pl_item0_more' f e stk l c r t (a : expr) t' : l = c :: r -> starter c = true ->
    run (PL f (init_state T) (SiArrayItemN sp0 [e] :: stk)) (l ++ t) a t' ->
    run (PL (S f) (StParsed e) (SiArrayItem0 sp0 :: stk)) (sim SComma :: l ++ t) a t'.
  Proof. intros -> Hc H. cbn [app] in *. apply pl_item0_more; assumption. Qed.
  Lemma pl_itemN_more' f e items stk l c r t (a : expr) t' : l = c :: r -> starter c = true ->
    run (PL f (init_state T) (SiArrayItemN sp0 (items ++ [e]) :: stk)) (l ++ t) a t' ->
    run (PL (S f) (StParsed e) (SiArrayItemN sp0 items :: stk)) (sim SComma :: l ++ t) a t'.
  Proof. intros -> Hc H. cbn [app] in *. apply pl_itemN_more; assumption. Qed.
End Steps.

(* ---------------------------------------------------------------- the covered constructors *)
Fixpoint core_expr (e : expr) : bool :=
  match e with
  | ENull _ | EBool _ _ | ESelf _ | EDollar _ | EString _ _ | ETextBlock _ _ | ENumber _ _ | EIdent _ _ => true
  | EParen _ x => core_expr x
  | ESuperField _ _ _ => true
  | ESuperIndex _ _ i => core_expr i
  | EUnary _ _ x => core_expr x
  | EBinary _ l _ r => core_expr l && core_expr r
  | EInSuper _ x _ => core_expr x
  | EArray _ items => forallb core_expr items
  | EArrayComp _ x specs =>
      core_expr x && specs_ok specs && forallb (fun c => match c with CFor _ y | CIf y => core_expr y end) specs
  | EField _ x _ => core_expr x
  | EIndex _ x i => core_expr x && core_expr i
  | ESlice _ x a b c =>
      core_expr x && match a with Some y => core_expr y | None => true end &&
      match b with Some y => core_expr y | None => true end &&
      match c with Some y => core_expr y | None => true end
  | ECall _ f args _ =>
      core_expr f && forallb (fun a => match a with APositional y | ANamed _ y => core_expr y end) args
  | EError _ x | EImport _ x | EImportStr _ x | EImportBin _ x => core_expr x
  | ELocal _ binds body =>
      negb (match binds with [] => true | _ => false end) &&
      forallb (fun b => match b with
                        | MkBind _ ps v =>
                            match ps with
                            | Some (l, _) => forallb (fun p => match p with MkParam _ d =>
                                               match d with Some y => core_expr y | None => true end end) l
                            | None => true
                            end && core_expr v
                        end) binds && core_expr body
  | EFunc _ params body =>
      forallb (fun p => match p with MkParam _ d => match d with Some y => core_expr y | None => true end end) params &&
      core_expr body
  | EIf _ c t o => core_expr c && core_expr t && match o with Some x => core_expr x | None => true end
  | EAssert _ (MkAssert _ c m) body =>
      core_expr c && match m with Some x => core_expr x | None => true end && core_expr body
  | _ => false
  end.

(* the first printed token of a covered tree starts an expression *)
Ltac split_and H :=
  repeat match type of H with
         | (_ && _)%bool = true => let H2 := fresh "Hc" in apply andb_true_iff in H as [H H2]
         end.

Lemma core_head e : core_expr e = true ->
  exists c r, print_expr e = c :: r /\ (True /\ starter c = true).
Proof.
  induction e; cbn [core_expr]; intros H; try discriminate;
    try (eexists; eexists; split; [reflexivity|split; [exact I|reflexivity]]);
    try (destruct b; (eexists; eexists; split; [reflexivity|split; [exact I|reflexivity]]));
    try (destruct op; (eexists; eexists; split; [reflexivity|split; [exact I|reflexivity]]));
    try (destruct a; (eexists; eexists; split; [reflexivity|split; [exact I|reflexivity]]));
    split_and H; cbn [print_expr];
    match goal with
    | |- exists c r, print_expr ?x ++ _ = _ /\ _ =>
        match goal with
        | IH : core_expr x = true -> _ |- _ =>
            let c := fresh "c" in let r := fresh "r" in let E := fresh "E" in let Hc := fresh "Hh" in
            destruct (IH H) as (c & r & E & Hc); rewrite E; eexists; eexists; split; [reflexivity|exact Hc]
        end
    end.
Qed.

(* parse_arg's look-ahead `ident =` never fires on a printed expression *)
Definition named_test (l : list token) : bool :=
  match l with
  | c1 :: c2 :: _ => negb (not_ident c1) && is_simple SEq c2
  | _ => false
  end.

Lemma named_test_app_single c fo rest : is_simple SEq fo = false -> named_test ([c] ++ fo :: rest) = false.
Proof. intros H. cbn. rewrite H. apply andb_false_r. Qed.

Lemma named_test_head c r : not_ident c = true -> named_test (c :: r) = false.
Proof. intros H. destruct r; cbn; [reflexivity|]. rewrite H. reflexivity. Qed.

Lemma not_named e : core_expr e = true -> forall fo rest, is_simple SEq fo = false ->
  named_test (print_expr e ++ fo :: rest) = false.
Proof.
  induction e; cbn [core_expr]; intros H fo rest Hfo; try discriminate;
    try (cbn [print_expr print_assert app];
         first [apply named_test_app_single; exact Hfo | apply named_test_head; reflexivity]);
    try (destruct b; cbn [print_expr print_assert app]; apply named_test_head; reflexivity);
    try (destruct op; cbn [print_expr print_assert app]; apply named_test_head; reflexivity);
    try (destruct a; cbn [print_expr print_assert app]; apply named_test_head; reflexivity);
    split_and H; cbn [print_expr];
    match goal with
    | |- named_test ((print_expr ?x ++ ?t :: ?more) ++ _) = false =>
        match goal with
        | IH : core_expr x = true -> _ |- _ =>
            rewrite <- app_assoc; cbn [app]; apply (IH H); try destruct op; reflexivity
        end
    | |- named_test ((print_expr ?x ++ ?l) ++ _) = false =>
        match goal with
        | IH : core_expr x = true -> _ |- _ =>
            rewrite <- app_assoc; cbn [app]; apply (IH H); reflexivity
        end
    end.
Qed.


(* a printed expression after `in` is never the bare keyword `super` *)
Lemma in_ok_single c t : is_simple KSuper c = false -> in_ok_b (c :: t) = true.
Proof. intros H. cbn. rewrite H. reflexivity. Qed.

Lemma core_in_ok e : core_expr e = true -> forall t, in_ok_b (print_expr e ++ t) = true.
Proof.
  induction e; cbn [core_expr]; intros H t; try discriminate;
    try (cbn [print_expr print_assert app]; apply in_ok_single; reflexivity);
    try (cbn [print_expr print_assert app]; reflexivity);
    try (destruct b; cbn [print_expr print_assert app]; apply in_ok_single; reflexivity);
    try (destruct op; cbn [print_expr print_assert app]; apply in_ok_single; reflexivity);
    try (destruct a; cbn [print_expr print_assert app]; apply in_ok_single; reflexivity);
    split_and H; cbn [print_expr];
    match goal with
    | |- in_ok_b ((print_expr ?x ++ _) ++ _) = true =>
        match goal with
        | IH : core_expr x = true -> _ |- _ => rewrite <- app_assoc; apply (IH H)
        end
    end.
Qed.

(* follow-token conditions *)
Definition stopper (c : token) : bool := nosfx c && forallb (fun l => opmiss l c) (seq 0 10).
Definition fcond (k : nat) (last : bool) (fo : token) : Prop :=
  if last then stopper fo = true else nosfx fo = true /\ noop_above k fo = true.
Definition else_ok (e : expr) (fo : token) : Prop := dangling e = true -> is_simple KElse fo = false.

Lemma stopper_nosfx c : stopper c = true -> nosfx c = true.
Proof. unfold stopper. intros H. apply andb_true_iff in H as [H _]. exact H. Qed.
Lemma stopper_noop c k : stopper c = true -> noop_above k c = true.
Proof.
  unfold stopper, noop_above. intros H. apply andb_true_iff in H as [_ H].
  rewrite forallb_forall in *. intros l Hl. apply H. apply in_seq in Hl. apply in_seq. lia.
Qed.
Lemma stopper_op0 c : stopper c = true -> opmiss 0 c = true.
Proof.
  unfold stopper. intros H. apply andb_true_iff in H as [_ H]. rewrite forallb_forall in H.
  apply H. apply in_seq. lia.
Qed.
Lemma fcond_nosfx k last fo : fcond k last fo -> nosfx fo = true.
Proof. destruct last; cbn; [apply stopper_nosfx|tauto]. Qed.
Lemma fcond_noop k last fo : fcond k last fo -> noop_above k fo = true.
Proof. destruct last; cbn; [apply stopper_noop|tauto]. Qed.

(* what a recursive call self.parse_expr() must deliver for the sub-expressions it is used on *)
Definition pexpr_ok (pexpr : P expr) (L : nat) : Prop :=
  forall y fo r, core_expr y = true -> wp y = true -> (List.length (print_expr y) < L)%nat ->
    stopper fo = true -> else_ok y fo ->
    run pexpr (print_expr y ++ fo :: r) (strip_spans y) (fo :: r).

Lemma pexpr_ok_mono pexpr L L' : pexpr_ok pexpr L -> (L' <= L)%nat -> pexpr_ok pexpr L'.
Proof. intros H HL y fo r Hc Hw Hl. apply H; [exact Hc|exact Hw|lia]. Qed.

Definition Bform (k : nat) (last : bool) (e : expr) (c : nat) : Prop :=
  forall pexpr lf f stk fo r x tf,
    pexpr_ok pexpr (List.length (print_expr e)) -> (List.length (print_expr e) <= lf)%nat ->
    fcond k last fo -> else_ok e fo ->
    run (pe_loop T pexpr (S lf) f (exit_ k (strip_spans e)) stk) (fo :: r) x tf ->
    run (pe_loop T pexpr (S lf) (c + f) (enter k) stk) (print_expr e ++ fo :: r) x tf.

Definition Uform (last : bool) (e : expr) (c : nat) : Prop :=
  forall pexpr lf f stk fo r x tf,
    pexpr_ok pexpr (List.length (print_expr e)) -> (List.length (print_expr e) <= lf)%nat ->
    nosfx fo = true -> (last = true -> stopper fo = true) ->
    else_ok e fo ->
    run (pe_loop T pexpr (S lf) f (StParsed (strip_spans e)) stk) (fo :: r) x tf ->
    run (pe_loop T pexpr (S lf) (c + f) StUnary stk) (print_expr e ++ fo :: r) x tf.

Ltac fuel_as X :=
  match goal with |- run (pe_loop _ _ _ ?F _ _) _ _ _ => replace F with X by lia end.

Lemma wrap k last e c : (k <= 10)%nat -> Uform last e c -> Bform k last e ((10 - k) + c + steps_fin k).
Proof.
  intros Hk HU pexpr lf f stk fo r x tf Hp Hlf Hfc Hel H.
  fuel_as ((10 - k) + (c + (steps_fin k + f)))%nat.
  apply descend; [lia|]. replace (k + (10 - k))%nat with 10%nat by lia.
  change (enter 10) with StUnary.
  apply HU; [exact Hp|exact Hlf|apply (fcond_nosfx k last); exact Hfc|intros ->; exact Hfc|exact Hel|].
  apply finish; [exact Hk|apply (fcond_noop k last); exact Hfc|exact H].
Qed.

Lemma atom_unary_miss e c : atom_tok e = Some c -> all_miss (pt_unary T) c = true.
Proof. destruct e; cbn; intros H; try discriminate; injection H as <-; try destruct b; reflexivity. Qed.

Lemma U_atom last e c : atom_tok e = Some c -> Uform last e 3.
Proof.
  intros Ha pexpr lf f stk fo r x tf _ _ Hn _ _ H. rewrite (atom_print e c Ha). cbn [app Nat.add].
  apply pl_unary_miss; [apply (atom_unary_miss e); exact Ha|].
  apply (pl_primary_atom pexpr lf _ e); [exact Ha|discriminate|].
  apply pl_parsed_suffix_none; [exact Hn|exact H].
Qed.

Lemma U_prefix e x kw (mk : span -> expr -> expr) :
  print_expr e = sim kw :: print_expr x -> strip_spans e = mk sp0 (strip_spans x) ->
  dangling e = dangling x -> all_miss (pt_unary T) (sim kw) = true ->
  (forall pexpr lf f stk t (a : expr) t', t <> [] ->
     run (y <- prefix_form pexpr sp0 mk ;; pe_loop T pexpr (S lf) f (StParsed y) stk) t a t' ->
     run (pe_loop T pexpr (S lf) (S f) StPrimary stk) (sim kw :: t) a t') ->
  core_expr x = true -> wpx 0 true x = true -> Uform true e 3.
Proof.
  intros Hpr Hst Hdg Hum Hpl Hc Hw pexpr lf f stk fo r v tf Hp Hlf Hn Hs Hel H.
  rewrite Hpr. rewrite Hpr in Hp. cbn [app Nat.add List.length] in *.
  apply pl_unary_miss; [exact Hum|]. apply Hpl; [auto with rt|].
  eapply run_bind.
  - unfold prefix_form. eapply run_bind.
    + apply Hp; [exact Hc|exact Hw|lia|apply Hs; reflexivity|intros Hd; apply Hel; rewrite Hdg; exact Hd].
    + rewrite strip_span0. eapply run_bind; [apply run_mk_span0|apply run_ret].
  - rewrite Hst in H. apply pl_parsed_suffix_none; [exact Hn|exact H].
Qed.

Lemma steps_fin_le k : (steps_fin k <= 19)%nat.
Proof. unfold steps_fin. destruct (10 - k)%nat eqn:E; lia. Qed.

Ltac len_tac := cbn [print_expr print_assert opt_tokens sep_by flat_map comma]; repeat (progress (repeat rewrite app_length; cbn [List.length])); lia.

(* ---------------------------------------------------------------- index, slice, call *)
Lemma peek_named s : (peek_ident 0 s && peek_simple SEq 1 s)%bool = named_test (toks_of s).
Proof.
  destruct s as [c r ex dc dm]. unfold peek_ident, peek_simple, peek_tok, toks_of, named_test, not_ident.
  cbn [cur rest nth_error]. destruct r as [|c2 r]; destruct (tok_kind c); cbn; reflexivity.
Qed.

Lemma app_r_not_nil {A} (l1 l2 : list A) : l2 <> [] -> l1 ++ l2 <> [].
Proof. destruct l1; [auto|discriminate]. Qed.
#[export] Hint Resolve app_r_not_nil : rt.

Lemma run_eat_miss_app k add l t c r : l = c :: r -> is_simple k c = false ->
  run (eat_simple k add) (l ++ t) None (l ++ t).
Proof. intros -> H. apply run_eat_miss; exact H. Qed.

Ltac norm_app := repeat (progress (rewrite <- ?app_assoc; cbn [app])).

Lemma flat_len {A} (f : A -> list token) (l : list A) :
  (List.length l <= List.length (flat_map (fun y => comma ++ f y) l))%nat.
Proof. induction l as [|x l IH]; cbn [flat_map List.length]; [lia|]. rewrite !app_length. cbn [comma List.length]. lia. Qed.

Lemma run_eat_string_miss_sim add k t : run (eat_string add) (sim k :: t) None (sim k :: t).
Proof.
  intros s Es. destruct s as [c0 r0 ex dc dm]. unfold toks_of in Es. cbn in Es. injection Es as -> ->.
  destruct add; eexists; split; reflexivity.
Qed.
Lemma run_eat_text_block_miss_sim add k t : run (eat_text_block add) (sim k :: t) None (sim k :: t).
Proof.
  intros s Es. destruct s as [c0 r0 ex dc dm]. unfold toks_of in Es. cbn in Es. injection Es as -> ->.
  destruct add; eexists; split; reflexivity.
Qed.

Section Suffix.
  Variable pexpr : P expr.
  Variable L : nat.
  Hypothesis Hp : pexpr_ok pexpr L.

  Lemma run_pexpr y fo r : core_expr y = true -> wpx 0 true y = true -> (List.length (print_expr y) < L)%nat ->
    stopper fo = true -> is_simple KElse fo = false ->
    run pexpr (print_expr y ++ fo :: r) (strip_spans y) (fo :: r).
  Proof. intros Hc Hw Hl Hs He. apply Hp; [exact Hc|exact Hw|exact Hl|exact Hs|intros _; exact He]. Qed.

  (* the head of a printed expression is missed by eat_simple of a non-starter *)
  Lemma run_miss_head k add y t : core_expr y = true -> starter_k k = false ->
    run (eat_simple k add) (print_expr y ++ t) None (print_expr y ++ t).
  Proof.
    intros Hc Hk. destruct (core_head y Hc) as (c & r & E & _ & Hst). rewrite E. cbn [app].
    apply run_eat_miss. apply starter_not; assumption.
  Qed.

  Lemma run_idx3_some lhs A B y rest : core_expr y = true -> wpx 0 true y = true ->
    (List.length (print_expr y) < L)%nat -> expr_span lhs = sp0 -> rest <> [] ->
    run ('(i3, e) <- idx3 pexpr ;; fin_slice lhs A B i3 e) (print_expr y ++ sim SRightBracket :: rest)
        (ESlice sp0 lhs A B (Some (strip_spans y))) rest.
  Proof.
    intros Hc Hw Hl Hs Hr. eapply run_bind.
    - unfold idx3. eapply run_orelse_miss; [apply run_miss_head; [exact Hc|reflexivity]|].
      eapply run_bind; [apply run_pexpr; [exact Hc|exact Hw|exact Hl|reflexivity|reflexivity]|].
      eapply run_bind; [apply run_expect_hit; [reflexivity|exact Hr]|apply run_ret].
    - cbv beta iota. unfold fin_slice. rewrite Hs. eapply run_bind; [apply run_mk_span0|apply run_ret].
  Qed.

  Lemma run_fin lhs A B C t : expr_span lhs = sp0 -> run (fin_slice lhs A B C sp0) t (ESlice sp0 lhs A B C) t.
  Proof. intros Hs. unfold fin_slice. rewrite Hs. eapply run_bind; [apply run_mk_span0|apply run_ret]. Qed.

  Definition ctoks (c : option expr) : list token :=
    match c with Some c' => sim SColon :: print_expr c' | None => [] end.
  Definition ocore (o : option expr) : bool := match o with Some y => core_expr y | None => true end.
  Definition olen (o : option expr) : nat := match o with Some y => List.length (print_expr y) | None => O end.

  (* after the first `:` of a slice *)
  Lemma run_slice_tail lhs A b c rest : ocore b = true -> ocore c = true ->
    opt_all (wpx 0 true) b = true -> opt_all (wpx 0 true) c = true ->
    (olen b < L)%nat -> (olen c < L)%nat -> expr_span lhs = sp0 -> rest <> [] ->
    run (IFLET e <== eat_simple SRightBracket true THEN fin_slice lhs A None None e ELSE
         IFLET _ <== eat_simple SColon true THEN ('(i3, e) <- idx3 pexpr ;; fin_slice lhs A None i3 e) ELSE
         (i2 <- pexpr ;; '(i3, e) <- after2 pexpr ;; fin_slice lhs A (Some i2) i3 e))
        (opt_tokens print_expr b ++ ctoks c ++ sim SRightBracket :: rest)
        (ESlice sp0 lhs A (option_map strip_spans b) (option_map strip_spans c)) rest.
  Proof.
    intros Hcb Hcc Hwb Hwc Hlb Hlc Hs Hr.
    destruct b as [b|]; destruct c as [c|]; cbn [opt_tokens ctoks option_map app ocore opt_all olen] in *.
    - (* b : c ] *)
      eapply run_orelse_miss; [apply run_miss_head; [exact Hcb|reflexivity]|].
      eapply run_orelse_miss; [apply run_miss_head; [exact Hcb|reflexivity]|].
      eapply run_bind; [apply run_pexpr; [exact Hcb|exact Hwb|exact Hlb|reflexivity|reflexivity]|].
      unfold after2.
      eapply run_bind.
      + eapply run_orelse_miss; [apply run_eat_miss; reflexivity|].
        eapply run_orelse_hit; [apply run_eat_hit; [reflexivity|auto with rt]|].
        unfold idx3. eapply run_orelse_miss; [apply run_miss_head; [exact Hcc|reflexivity]|].
        eapply run_bind; [apply run_pexpr; [exact Hcc|exact Hwc|exact Hlc|reflexivity|reflexivity]|].
        eapply run_bind; [apply run_expect_hit; [reflexivity|exact Hr]|apply run_ret].
      + cbv beta iota. apply run_fin; exact Hs.
    - (* b ] *)
      eapply run_orelse_miss; [apply run_miss_head; [exact Hcb|reflexivity]|].
      eapply run_orelse_miss; [apply run_miss_head; [exact Hcb|reflexivity]|].
      eapply run_bind; [apply run_pexpr; [exact Hcb|exact Hwb|exact Hlb|reflexivity|reflexivity]|].
      unfold after2.
      eapply run_bind.
      + eapply run_orelse_hit; [apply run_eat_hit; [reflexivity|exact Hr]|apply run_ret].
      + cbv beta iota. apply run_fin; exact Hs.
    - (* : c ] *)
      eapply run_orelse_miss; [apply run_eat_miss; reflexivity|].
      eapply run_orelse_hit; [apply run_eat_hit; [reflexivity|auto with rt]|].
      apply run_idx3_some; assumption.
    - (* ] *)
      eapply run_orelse_hit; [apply run_eat_hit; [reflexivity|exact Hr]|]. apply run_fin; exact Hs.
  Qed.

  Lemma run_index lhs i rest : core_expr i = true -> wpx 0 true i = true ->
    (List.length (print_expr i) < L)%nat -> expr_span lhs = sp0 -> rest <> [] ->
    run (parse_index_expr pexpr lhs) (print_expr i ++ sim SRightBracket :: rest) (EIndex sp0 lhs (strip_spans i)) rest.
  Proof.
    intros Hc Hw Hl Hs Hr. unfold parse_index_expr. apply run_call.
    eapply run_orelse_miss; [apply run_miss_head; [exact Hc|reflexivity]|].
    eapply run_orelse_miss; [apply run_miss_head; [exact Hc|reflexivity]|].
    eapply run_bind; [apply run_pexpr; [exact Hc|exact Hw|exact Hl|reflexivity|reflexivity]|].
    eapply run_orelse_hit; [apply run_eat_hit; [reflexivity|exact Hr]|].
    rewrite Hs. eapply run_bind; [apply run_mk_span0|apply run_ret].
  Qed.

  Lemma run_slice lhs a b c rest : ocore a = true -> ocore b = true -> ocore c = true ->
    opt_all (wpx 0 true) a = true -> opt_all (wpx 0 true) b = true -> opt_all (wpx 0 true) c = true ->
    (olen a < L)%nat -> (olen b < L)%nat -> (olen c < L)%nat -> expr_span lhs = sp0 -> rest <> [] ->
    run (parse_index_expr pexpr lhs)
        (opt_tokens print_expr a ++ sim SColon :: opt_tokens print_expr b ++ ctoks c ++ sim SRightBracket :: rest)
        (ESlice sp0 lhs (option_map strip_spans a) (option_map strip_spans b) (option_map strip_spans c)) rest.
  Proof.
    intros Hca Hcb Hcc Hwa Hwb Hwc Hla Hlb Hlc Hs Hr. unfold parse_index_expr. apply run_call.
    destruct a as [a|]; cbn [opt_tokens option_map app ocore opt_all olen] in *.
    - eapply run_orelse_miss; [apply run_miss_head; [exact Hca|reflexivity]|].
      eapply run_orelse_miss; [apply run_miss_head; [exact Hca|reflexivity]|].
      eapply run_bind; [apply run_pexpr; [exact Hca|exact Hwa|exact Hla|reflexivity|reflexivity]|].
      eapply run_orelse_miss; [apply run_eat_miss; reflexivity|].
      eapply run_orelse_hit; [apply run_eat_hit; [reflexivity|auto with rt]|].
      apply (run_slice_tail lhs (Some (strip_spans a)) b c rest); assumption.
    - eapply run_orelse_hit; [apply run_eat_hit; [reflexivity|auto with rt]|].
      apply (run_slice_tail lhs None b c rest); assumption.
  Qed.

  (* call arguments *)
  Definition acore (a : arg) : bool := match a with APositional y | ANamed _ y => core_expr y end.
  Definition alen (a : arg) : nat := List.length (print_arg a).

  Lemma run_arg a fo r : acore a = true -> wp_arg a = true -> (alen a < L)%nat ->
    stopper fo = true -> is_simple KElse fo = false -> is_simple SEq fo = false ->
    run (parse_arg pexpr) (print_arg a ++ fo :: r) (strip_arg a) (fo :: r).
  Proof.
    intros Hc Hw Hl Hs He Hq. unfold parse_arg. apply run_call. destruct a as [y|name y]; cbn [acore wp_arg print_arg strip_arg] in *.
    - apply run_if_false.
      + intros s Es. rewrite peek_named, Es. apply not_named; assumption.
      + eapply run_bind; [apply run_pexpr; [exact Hc|exact Hw|exact Hl|exact Hs|exact He]|apply run_ret].
    - cbn [app]. apply run_if_true.
      + intros s Es. rewrite peek_named, Es. reflexivity.
      + eapply run_orelse_hit; [unfold id_tok, tk; apply run_eat_ident_hit; auto with rt|].
        eapply run_orelse_hit; [apply run_eat_hit; [reflexivity|auto with rt]|].
        eapply run_bind; [apply run_pexpr; [exact Hc|exact Hw|unfold alen in Hl; cbn [print_arg List.length] in Hl; lia|exact Hs|exact He]|apply run_ret].
  Qed.

  (* params and binds *)
  Definition pcore (p : param) : bool := match p with MkParam _ d => match d with Some y => core_expr y | None => true end end.
  Definition param_ok (p : param) : Prop :=
    pcore p = true /\ wp_param p = true /\ (List.length (print_param p) < L)%nat.

  Lemma run_param_body name d fo r acc : param_ok (MkParam name d) -> stopper fo = true -> is_simple KElse fo = false ->
    is_simple SEq fo = false ->
    run (nm <- expect_ident true ;; c <- eat_simple SEq true ;; dv <- opt_expr pexpr c ;; ret (acc ++ [MkParam nm dv]))
        (print_param (MkParam name d) ++ fo :: r) (acc ++ [strip_param (MkParam name d)]) (fo :: r).
  Proof.
    intros (Hc & Hw & Hl) Hs He Hq. cbn [print_param pcore wp_param strip_param app] in *.
    eapply run_bind; [unfold id_tok, tk; apply run_expect_ident_hit; auto with rt|].
    destruct d as [y|]; cbn [opt_all option_map app] in *.
    - eapply run_bind; [apply run_eat_hit; [reflexivity|auto with rt]|].
      cbn [opt_expr]. eapply run_bind; [|apply run_ret].
      eapply run_bind; [apply run_pexpr; [exact Hc|exact Hw|cbn [List.length] in Hl; lia|exact Hs|exact He]|apply run_ret].
    - eapply run_bind; [apply run_eat_miss; exact Hq|].
      cbn [opt_expr]. eapply run_bind; [apply run_ret|apply run_ret].
  Qed.

  Lemma run_params_loop : forall more p0 acc fuel rest,
    (List.length more < fuel)%nat -> Forall param_ok (p0 :: more) -> rest <> [] ->
    run (params_loop pexpr fuel acc)
        (print_param p0 ++ flat_map (fun y => comma ++ print_param y) more ++ sim SRightParen :: rest)
        (acc ++ map strip_param (p0 :: more), sp0) rest.
  Proof.
    induction more as [|p1 more IH]; intros p0 acc fuel rest Hf Hall Hr;
      destruct fuel as [|f]; try (cbn in Hf; lia); cbn [params_loop flat_map];
      inversion Hall as [|? ? Hok Hall']; subst; destruct p0 as [name d].
    - cbn [app].
      pose proof (run_param_body name d (sim SRightParen) rest acc Hok eq_refl eq_refl eq_refl) as Hb.
      unfold bindP at 1 2 3 in Hb.
      intros s Es. destruct (Hb s Es) as (s1 & E1 & T1). clear Hb.
      unfold bindP at 1. destruct (expect_ident true s) as [[nm s0]| | |] eqn:Ei; try discriminate.
      unfold bindP at 1. destruct (eat_simple SEq true s0) as [[c s2]| | |] eqn:Ec; try discriminate.
      unfold bindP at 1. destruct (opt_expr pexpr c s2) as [[dv s3]| | |] eqn:Eo; try discriminate.
      cbn in E1. injection E1 as Eacc Es3. subst s3.
      cbv zeta. rewrite Eacc.
      assert (Hrun : run (IFLET e <== eat_simple SRightParen true THEN ret (acc ++ [strip_param (MkParam name d)], e) ELSE
                          IFLET _ <== eat_simple SComma true THEN
                            (IFLET e <== eat_simple SRightParen true THEN ret (acc ++ [strip_param (MkParam name d)], e)
                             ELSE params_loop pexpr f (acc ++ [strip_param (MkParam name d)]))
                          ELSE report_expected) (sim SRightParen :: rest) (acc ++ [strip_param (MkParam name d)], sp0) rest).
      { eapply run_orelse_hit; [apply run_eat_hit; [reflexivity|exact Hr]|apply run_ret]. }
      exact (Hrun s1 T1).
    - unfold comma at 1. rewrite <- !app_assoc. cbn [app].
      pose proof (run_param_body name d (sim SComma)
                    (print_param p1 ++ flat_map (fun y => comma ++ print_param y) more ++ sim SRightParen :: rest)
                    acc Hok eq_refl eq_refl eq_refl) as Hb.
      unfold bindP at 1 2 3 in Hb.
      intros s Es. destruct (Hb s Es) as (s1 & E1 & T1). clear Hb.
      unfold bindP at 1. destruct (expect_ident true s) as [[nm s0]| | |] eqn:Ei; try discriminate.
      unfold bindP at 1. destruct (eat_simple SEq true s0) as [[c s2]| | |] eqn:Ec; try discriminate.
      unfold bindP at 1. destruct (opt_expr pexpr c s2) as [[dv s3]| | |] eqn:Eo; try discriminate.
      cbn in E1. injection E1 as Eacc Es3. subst s3.
      cbv zeta. rewrite Eacc.
      inversion Hall' as [|? ? Hok1 _]; subst. destruct p1 as [name1 d1].
      assert (Hrun : run (IFLET e <== eat_simple SRightParen true THEN ret (acc ++ [strip_param (MkParam name d)], e) ELSE
                          IFLET _ <== eat_simple SComma true THEN
                            (IFLET e <== eat_simple SRightParen true THEN ret (acc ++ [strip_param (MkParam name d)], e)
                             ELSE params_loop pexpr f (acc ++ [strip_param (MkParam name d)]))
                          ELSE report_expected)
                         (sim SComma :: print_param (MkParam name1 d1) ++ flat_map (fun y => comma ++ print_param y) more ++ sim SRightParen :: rest)
                         (acc ++ map strip_param (MkParam name d :: MkParam name1 d1 :: more), sp0) rest).
      { eapply run_orelse_miss; [apply run_eat_miss; reflexivity|].
        eapply run_orelse_hit; [apply run_eat_hit; [reflexivity|cbn [print_param app]; discriminate]|].
        eapply run_orelse_miss; [eapply (run_eat_miss_app _ _ _ _ (id_tok name1)); [reflexivity|reflexivity]|].
        replace (acc ++ map strip_param (MkParam name d :: MkParam name1 d1 :: more))
          with ((acc ++ [strip_param (MkParam name d)]) ++ map strip_param (MkParam name1 d1 :: more))
          by (rewrite <- app_assoc; reflexivity).
        apply IH; [cbn in Hf; lia|exact Hall'|exact Hr]. }
      exact (Hrun s1 T1).
  Qed.

  Lemma sep_by_len {A} (f : A -> list token) l x : In x l ->
    (List.length (f x) <= List.length (sep_by comma f l))%nat.
  Proof.
    unfold sep_by. destruct l as [|a0 more]; [intros []|]. rewrite app_length. intros [->|Hin]; [lia|].
    induction more as [|a1 more IHm]; [destruct Hin|]. cbn [flat_map]. rewrite !app_length.
    destruct Hin as [->|Hin]; [lia|]. specialize (IHm Hin). lia.
  Qed.

  Lemma sep_by_count {A} (f : A -> list token) l : (forall x, In x l -> f x <> []) ->
    (List.length l <= List.length (sep_by comma f l))%nat.
  Proof.
    unfold sep_by. destruct l as [|a0 more]; [cbn; lia|]. intros Hne. rewrite app_length.
    pose proof (flat_len f more). specialize (Hne a0 (or_introl eq_refl)).
    destruct (f a0); [congruence|]. cbn [List.length]. lia.
  Qed.

  Lemma run_params lf' params rest : (List.length params <= lf')%nat -> Forall param_ok params -> rest <> [] ->
    run (parse_params pexpr lf') (sep_by comma print_param params ++ sim SRightParen :: rest)
        (map strip_param params, sp0) rest.
  Proof.
    intros Hlf Hall Hr. unfold parse_params. apply run_call. unfold sep_by. destruct params as [|p0 more].
    - cbn [app map]. eapply run_orelse_hit; [apply run_eat_hit; [reflexivity|exact Hr]|apply run_ret].
    - rewrite <- app_assoc. destruct p0 as [name d].
      eapply run_orelse_miss; [eapply (run_eat_miss_app _ _ _ _ (id_tok name)); [reflexivity|reflexivity]|].
      apply (run_params_loop more (MkParam name d) []); [cbn in Hlf; lia|exact Hall|exact Hr].
  Qed.

  Definition bcore (b : bind) : bool :=
    match b with
    | MkBind _ ps v => match ps with Some (l, _) => forallb pcore l | None => true end && core_expr v
    end.
  Definition bind_ok (b : bind) : Prop :=
    bcore b = true /\ wp_bind b = true /\ (List.length (print_bind b) < L)%nat.

  Lemma run_bind_ lf' b fo r : bind_ok b -> (List.length (print_bind b) <= lf')%nat ->
    stopper fo = true -> is_simple KElse fo = false ->
    run (parse_bind pexpr lf') (print_bind b ++ fo :: r) (strip_bind b) (fo :: r).
  Proof.
    intros (Hc & Hw & Hl) Hlf Hs He. destruct b as [name ps v]. cbn [bcore wp_bind print_bind strip_bind] in *.
    apply andb_true_iff in Hc as [Hcp Hcv]. apply andb_true_iff in Hw as [Hwp Hwv].
    unfold parse_bind. apply run_call. cbn [app].
    eapply run_bind; [unfold id_tok, tk; apply run_expect_ident_hit; auto with rt|].
    destruct ps as [[l psp]|]; norm_app; cbv beta iota in Hl, Hlf; cbn [List.length] in Hl, Hlf;
      repeat (rewrite app_length in Hl, Hlf; cbn [List.length] in Hl, Hlf).
    - eapply run_bind; [apply run_eat_hit; [reflexivity|auto with rt]|].
      assert (Hpl : Forall param_ok l).
      { apply Forall_forall. intros p0 Hin. rewrite forallb_forall in Hcp, Hwp.
        split; [apply (Hcp p0 Hin)|]. split; [apply (Hwp p0 Hin)|].
        pose proof (sep_by_len print_param l p0 Hin). revert Hl. repeat (rewrite app_length; cbn [List.length]). lia. }
      assert (Hcnt : (List.length l <= lf')%nat).
      { assert (List.length l <= List.length (sep_by comma print_param l))%nat.
        { apply sep_by_count. intros [nm dd] _. cbn [print_param]. discriminate. }
        revert Hlf. cbn [List.length]. repeat (rewrite app_length; cbn [List.length]). lia. }
      eapply run_bind.
      + eapply run_bind; [apply (run_params lf' l); [exact Hcnt|exact Hpl|discriminate]|].
        cbv beta iota. eapply run_bind; [apply run_mk_span0|apply run_ret].
      + eapply run_bind; [apply run_expect_hit; [reflexivity|auto with rt]|].
        eapply run_bind; [apply run_pexpr; [exact Hcv|exact Hwv| |exact Hs|exact He]|apply run_ret].
        revert Hl. cbn [List.length]. repeat (rewrite app_length; cbn [List.length]). lia.
    - eapply run_bind; [apply run_eat_miss; reflexivity|].
      eapply run_bind; [apply run_ret|].
      eapply run_bind; [apply run_expect_hit; [reflexivity|auto with rt]|].
      eapply run_bind; [apply run_pexpr; [exact Hcv|exact Hwv| |exact Hs|exact He]|apply run_ret].
      revert Hl. cbn [List.length]. lia.
  Qed.

  Lemma binds_head more fo r : stopper fo = true -> is_simple KElse fo = false ->
    exists t0 r0, flat_map (fun b => comma ++ print_bind b) more ++ fo :: r = t0 :: r0 /\
                  stopper t0 = true /\ is_simple KElse t0 = false.
  Proof.
    intros Hs He. destruct more as [|b more]; cbn [flat_map comma app].
    - eexists; eexists; split; [reflexivity|split; assumption].
    - eexists; eexists; split; [reflexivity|split; reflexivity].
  Qed.

  Lemma run_binds_loop lf' : forall more acc fuel fo r, (List.length more < fuel)%nat ->
    Forall (fun b => bind_ok b /\ (List.length (print_bind b) <= lf')%nat) more ->
    stopper fo = true -> is_simple KElse fo = false -> is_simple SComma fo = false ->
    run (binds_loop pexpr lf' fuel acc) (flat_map (fun b => comma ++ print_bind b) more ++ fo :: r)
        (acc ++ map strip_bind more) (fo :: r).
  Proof.
    induction more as [|b more IH]; intros acc fuel fo r Hf Hall Hs He Hc;
      destruct fuel as [|f]; try (cbn in Hf; lia); cbn [binds_loop flat_map map app].
    - eapply run_orelse_miss; [apply run_eat_miss; exact Hc|]. rewrite app_nil_r. apply run_ret.
    - inversion Hall as [|? ? (Hok & Hlb) Hall']; subst.
      unfold comma at 1. norm_app.
      eapply run_orelse_hit; [apply run_eat_hit; [reflexivity|auto with rt]|].
      destruct (binds_head more fo r Hs He) as (t0 & r0 & E0 & Hs0 & He0).
      rewrite E0.
      eapply run_bind; [apply (run_bind_ lf' b t0 r0 Hok Hlb Hs0 He0)|].
      rewrite <- E0.
      replace (acc ++ strip_bind b :: map strip_bind more) with ((acc ++ [strip_bind b]) ++ map strip_bind more)
        by (rewrite <- app_assoc; reflexivity).
      apply IH; [cbn in Hf; lia|exact Hall'|exact Hs|exact He|exact Hc].
  Qed.

  (* comprehension specs *)
  Definition score (c : comp_spec) : bool := match c with CFor _ y | CIf y => core_expr y end.
  Definition spec_ok (c : comp_spec) : Prop :=
    score c = true /\ wp_spec c = true /\ (List.length (print_spec c) < L)%nat.
  Definition spec_follow (fo : token) : Prop :=
    stopper fo = true /\ is_simple KElse fo = false.

  Lemma specs_head more fo r : spec_follow fo ->
    exists t0 r0, flat_map print_spec more ++ fo :: r = t0 :: r0 /\ spec_follow t0.
  Proof.
    intros Hf. destruct more as [|[v y|y] more]; cbn [flat_map print_spec app].
    - eexists; eexists; split; [reflexivity|exact Hf].
    - eexists; eexists; split; [reflexivity|split; reflexivity].
    - eexists; eexists; split; [reflexivity|split; reflexivity].
  Qed.

  Lemma run_for_spec v y t0 r0 : core_expr y = true -> wpx 0 true y = true ->
    (List.length (print_expr y) < L)%nat -> spec_follow t0 ->
    run (maybe_parse_for_spec pexpr) (sim KFor :: id_tok v :: sim KIn :: print_expr y ++ t0 :: r0)
        (Some (CFor (strip_ident v) (strip_spans y))) (t0 :: r0).
  Proof.
    intros Hc Hw Hl (Hs & He). unfold maybe_parse_for_spec. apply run_call.
    eapply run_orelse_hit; [apply run_eat_hit; [reflexivity|discriminate]|].
    eapply run_bind; [unfold id_tok, tk; apply run_expect_ident_hit; discriminate|].
    eapply run_bind; [apply run_expect_hit; [reflexivity|auto with rt]|].
    eapply run_bind; [apply run_pexpr; [exact Hc|exact Hw|exact Hl|exact Hs|exact He]|apply run_ret].
  Qed.

  Lemma run_if_spec y t0 r0 : core_expr y = true -> wpx 0 true y = true ->
    (List.length (print_expr y) < L)%nat -> spec_follow t0 ->
    run (maybe_parse_if_spec pexpr) (sim KIf :: print_expr y ++ t0 :: r0) (Some (CIf (strip_spans y))) (t0 :: r0).
  Proof.
    intros Hc Hw Hl (Hs & He). unfold maybe_parse_if_spec. apply run_call.
    eapply run_orelse_hit; [apply run_eat_hit; [reflexivity|auto with rt]|].
    eapply run_bind; [apply run_pexpr; [exact Hc|exact Hw|exact Hl|exact Hs|exact He]|apply run_ret].
  Qed.

  Lemma run_for_spec_miss' c t : is_simple KFor c = false -> run (maybe_parse_for_spec pexpr) (c :: t) None (c :: t).
  Proof.
    intros H. unfold maybe_parse_for_spec. apply run_call.
    eapply run_orelse_miss; [apply run_eat_miss; exact H|apply run_ret].
  Qed.
  Lemma run_if_spec_miss c t : is_simple KIf c = false -> run (maybe_parse_if_spec pexpr) (c :: t) None (c :: t).
  Proof.
    intros H. unfold maybe_parse_if_spec. apply run_call.
    eapply run_orelse_miss; [apply run_eat_miss; exact H|apply run_ret].
  Qed.

  Lemma run_comp_loop : forall specs acc fuel fo r, (List.length specs < fuel)%nat ->
    Forall spec_ok specs -> spec_follow fo -> is_simple KFor fo = false -> is_simple KIf fo = false ->
    run (comp_spec_loop pexpr fuel acc) (flat_map print_spec specs ++ fo :: r) (acc ++ map strip_spec specs) (fo :: r).
  Proof.
    induction specs as [|sc more IH]; intros acc fuel fo r Hf Hall Hfo Hnf Hni;
      destruct fuel as [|f]; try (cbn in Hf; lia); cbn [comp_spec_loop flat_map app map].
    - eapply run_orelse_miss; [apply run_for_spec_miss'; exact Hnf|].
      eapply run_orelse_miss; [apply run_if_spec_miss; exact Hni|].
      rewrite app_nil_r. apply run_ret.
    - inversion Hall as [|? ? (Hc & Hw & Hl) Hall']; subst.
      destruct (specs_head more fo r Hfo) as (t0 & r0 & E0 & Hf0).
      rewrite <- app_assoc. rewrite E0.
      replace (acc ++ strip_spec sc :: map strip_spec more) with ((acc ++ [strip_spec sc]) ++ map strip_spec more)
        by (rewrite <- app_assoc; reflexivity).
      destruct sc as [v y|y]; cbn [score wp_spec print_spec strip_spec app] in *.
      + eapply run_orelse_hit;
          [apply run_for_spec; [exact Hc|exact Hw|cbn [List.length] in Hl; lia|exact Hf0]|].
        rewrite <- E0. apply IH; [cbn in Hf; lia|exact Hall'|exact Hfo|exact Hnf|exact Hni].
      + eapply run_orelse_miss; [apply run_for_spec_miss'; reflexivity|].
        eapply run_orelse_hit;
          [apply run_if_spec; [exact Hc|exact Hw|cbn [List.length] in Hl; lia|exact Hf0]|].
        rewrite <- E0. apply IH; [cbn in Hf; lia|exact Hall'|exact Hfo|exact Hnf|exact Hni].
  Qed.

  Lemma run_comp_spec lf' specs fo r : specs_ok specs = true -> (List.length specs <= lf')%nat ->
    Forall spec_ok specs -> spec_follow fo -> is_simple KFor fo = false -> is_simple KIf fo = false ->
    run (maybe_parse_comp_spec pexpr lf') (flat_map print_spec specs ++ fo :: r)
        (Some (map strip_spec specs)) (fo :: r).
  Proof.
    intros Hok Hlf Hall Hfo Hnf Hni. destruct specs as [|[v y|y] more]; cbn [specs_ok] in Hok; try discriminate.
    inversion Hall as [|? ? (Hc & Hw & Hl) Hall']; subst.
    unfold maybe_parse_comp_spec. apply run_call. cbn [flat_map print_spec app map strip_spec].
    destruct (specs_head more fo r Hfo) as (t0 & r0 & E0 & Hf0).
    rewrite <- app_assoc. rewrite E0. cbn [score wp_spec print_spec] in *.
    eapply run_orelse_hit; [apply run_for_spec; [exact Hc|exact Hw|cbn [List.length] in Hl; lia|exact Hf0]|].
    eapply run_bind; [|apply run_ret].
    rewrite <- E0.
    apply (run_comp_loop more [CFor (strip_ident v) (strip_spans y)]); [cbn in Hlf; lia|exact Hall'|exact Hfo|exact Hnf|exact Hni].
  Qed.

  (* ---- object members (groundwork for EObject / EObjExt) *)
  Lemma run_plus_vis plus vis t : t <> [] ->
    run (eat_plus_visibility true) (sim (vis_tok plus vis) :: t) (Some (plus, vis)) t.
  Proof.
    intros Ht. destruct t as [|t1 r1]; [congruence|]. destruct plus, vis; run_compute.
  Qed.

  Lemma run_vis vis t : t <> [] ->
    run (eat_visibility true) (sim (vis_tok false vis) :: t) (Some vis) t.
  Proof.
    intros Ht. destruct t as [|t1 r1]; [congruence|]. destruct vis; run_compute.
  Qed.

  Lemma run_field_name_ident i t : t <> [] ->
    run (maybe_parse_field_name pexpr) (id_tok i :: t) (Some (FnIdent (strip_ident i))) t.
  Proof.
    intros Ht. unfold maybe_parse_field_name. apply run_call.
    eapply run_orelse_hit; [unfold id_tok, tk; apply run_eat_ident_hit; exact Ht|apply run_ret].
  Qed.

  Lemma run_field_name_string x t : t <> [] ->
    run (maybe_parse_field_name pexpr) (tk (TString x) :: t) (Some (FnString x sp0)) t.
  Proof.
    intros Ht. destruct t as [|t1 r1]; [congruence|]. run_compute.
  Qed.

  Lemma run_field_name_expr y t : core_expr y = true -> wpx 0 true y = true ->
    (List.length (print_expr y) < L)%nat -> t <> [] ->
    run (maybe_parse_field_name pexpr) (sim SLeftBracket :: print_expr y ++ sim SRightBracket :: t)
        (Some (FnExpr (strip_spans y) sp0)) t.
  Proof.
    intros Hc Hw Hl Ht. unfold maybe_parse_field_name. apply run_call.
    eapply run_orelse_miss; [apply run_eat_ident_miss; reflexivity|].
    eapply run_orelse_miss; [apply run_eat_string_miss_sim|].
    eapply run_orelse_miss; [apply run_eat_text_block_miss_sim|].
    eapply run_orelse_hit; [apply run_eat_hit; [reflexivity|auto with rt]|].
    eapply run_bind; [apply run_pexpr; [exact Hc|exact Hw|exact Hl|reflexivity|reflexivity]|].
    eapply run_bind; [apply run_expect_hit; [reflexivity|exact Ht]|].
    eapply run_bind; [apply run_mk_span0|apply run_ret].
  Qed.

  Lemma run_obj_local lf' b fo r : bind_ok b -> (List.length (print_bind b) <= lf')%nat ->
    stopper fo = true -> is_simple KElse fo = false ->
    run (maybe_parse_obj_local pexpr lf') (sim KLocal :: print_bind b ++ fo :: r) (Some (strip_bind b)) (fo :: r).
  Proof.
    intros Hok Hl Hs He. unfold maybe_parse_obj_local. apply run_call.
    eapply run_orelse_hit; [apply run_eat_hit; [reflexivity|auto with rt]|].
    eapply run_bind; [apply (run_bind_ lf' b fo r Hok Hl Hs He)|apply run_ret].
  Qed.
End Suffix.

Lemma pl_item0_comp pexpr lf f e stk c t specs' t2 (a : expr) t' :
  is_simple SComma c = false ->
  run (maybe_parse_comp_spec pexpr (S lf)) (c :: t) (Some specs') (sim SRightBracket :: t2) -> t2 <> [] ->
  run (pe_loop T pexpr (S lf) f (StParsed (EArrayComp sp0 e specs')) stk) t2 a t' ->
  run (pe_loop T pexpr (S lf) (S f) (StParsed e) (SiArrayItem0 sp0 :: stk)) (c :: t) a t'.
Proof.
  intros Hc Hs Ht H. cbn [pe_loop].
  eapply run_bind; [apply run_eat_miss; exact Hc|].
  eapply run_orelse_hit; [exact Hs|].
  eapply run_bind; [apply run_expect_hit; [reflexivity|exact Ht]|].
  eapply run_bind; [apply run_mk_span0|]. exact H.
Qed.

Lemma arg_head a : acore a = true -> exists c r, print_arg a = c :: r /\ is_simple SRightParen c = false.
Proof.
  destruct a as [y|name y]; cbn [acore print_arg]; intros H.
  - destruct (core_head y H) as (c & r & E & _ & Hst). exists c, r. split; [exact E|].
    apply starter_not; [exact Hst|reflexivity].
  - eexists; eexists; split; reflexivity.
Qed.

Definition arg_ok (L : nat) (a : arg) : Prop := acore a = true /\ wp_arg a = true /\ (alen a < L)%nat.

Lemma run_args_loop pexpr L (Hp : pexpr_ok pexpr L) : forall more a0 acc fuel rest,
  (List.length more < fuel)%nat -> Forall (arg_ok L) (a0 :: more) -> rest <> [] ->
  run (args_loop pexpr fuel acc)
      (print_arg a0 ++ flat_map (fun y => comma ++ print_arg y) more ++ sim SRightParen :: rest)
      (acc ++ map strip_arg (a0 :: more), sp0) rest.
Proof.
  induction more as [|a1 more IH]; intros a0 acc fuel rest Hf Hall Hr;
    destruct fuel as [|f]; try (cbn in Hf; lia); cbn [args_loop flat_map app].
  - inversion Hall as [|? ? (Hc & Hw & Hl) _]; subst.
    eapply run_bind; [apply (run_arg pexpr L Hp); [exact Hc|exact Hw|exact Hl|reflexivity|reflexivity|reflexivity]|].
    eapply run_orelse_hit; [apply run_eat_hit; [reflexivity|exact Hr]|]. apply run_ret.
  - inversion Hall as [|? ? (Hc & Hw & Hl) Hall']; subst.
    unfold comma at 1. rewrite <- !app_assoc. cbn [app].
    eapply run_bind; [apply (run_arg pexpr L Hp); [exact Hc|exact Hw|exact Hl|reflexivity|reflexivity|reflexivity]|].
    eapply run_orelse_miss; [apply run_eat_miss; reflexivity|].
    eapply run_orelse_hit; [apply run_eat_hit; [reflexivity|auto with rt]|].
    inversion Hall' as [|? ? (Hc1 & _) _]; subst.
    destruct (arg_head a1 Hc1) as (c & r & E & Hh).
    eapply run_orelse_miss; [eapply run_eat_miss_app; [exact E|exact Hh]|].
    replace (acc ++ map strip_arg (a0 :: a1 :: more)) with ((acc ++ [strip_arg a0]) ++ map strip_arg (a1 :: more))
      by (rewrite <- app_assoc; reflexivity).
    apply IH; [cbn in Hf; lia|exact Hall'|exact Hr].
Qed.

(* suffix chains: from the unary level into the suffix loop of parse_suffix_expr *)
Definition nots (l : list token) : Prop :=
  match l with c :: _ => is_simple KTailstrict c = false | [] => True end.

Definition Sform (e : expr) (c m : nat) : Prop :=
  forall pexpr lf f stk rest R t' (X : expr) tf,
    pexpr_ok pexpr (List.length (print_expr e)) -> (List.length (print_expr e) <= lf)%nat -> rest <> [] ->
    nots rest ->
    run (suffix_loop pexpr (S lf) (S lf - m) (strip_spans e)) rest R t' ->
    run (pe_loop T pexpr (S lf) f (StParsed R) stk) t' X tf ->
    run (pe_loop T pexpr (S lf) (c + f) StUnary stk) (print_expr e ++ rest) X tf.

Lemma app_eq_cons_l {A} (l : list A) c r t : l = c :: r -> l ++ t = c :: (r ++ t).
Proof. intros ->. reflexivity. Qed.

Definition item_ok (n : nat) (x : expr) : Prop :=
  (esize x < n)%nat /\ core_expr x = true /\ wpx 0 true x = true.
Definition items_toks (x1 : expr) (more : list expr) : list token :=
  print_expr x1 ++ flat_map (fun y => comma ++ print_expr y) more.

Lemma array_items n
  (IH : forall y, (esize y < n)%nat -> core_expr y = true -> forall k last, (k <= 10)%nat ->
        wpx k last y = true -> exists c, (c <= 40 * List.length (print_expr y))%nat /\ Bform k last y c) :
  forall more x1, Forall (item_ok n) (x1 :: more) ->
  exists c, (c <= 40 * (List.length (items_toks x1 more) + 1))%nat /\
    forall pexpr lf Lb f stk acc rest (X : expr) tf,
      pexpr_ok pexpr Lb -> (Lb <= lf)%nat -> (List.length (items_toks x1 more) <= Lb)%nat -> rest <> [] ->
      run (pe_loop T pexpr (S lf) f (StParsed (EArray sp0 (acc ++ map strip_spans (x1 :: more)))) stk) rest X tf ->
      run (pe_loop T pexpr (S lf) (c + f) (init_state T) (SiArrayItemN sp0 acc :: stk))
          (items_toks x1 more ++ sim SRightBracket :: rest) X tf.
Proof.
  induction more as [|x2 more IHm]; intros x1 Hall;
    inversion Hall as [|? ? (Hs1 & Hc1 & Hw1) Hall']; subst;
    destruct (IH x1 Hs1 Hc1 0%nat true ltac:(lia) Hw1) as (c1 & Hb1 & HB1).
  - exists (c1 + 2)%nat. unfold items_toks. cbn [flat_map]. rewrite app_nil_r. split; [lia|].
    intros pexpr lf Lb f stk acc rest X tf Hp Hlf HL Hr H.
    fuel_as (c1 + (2 + f))%nat. change (init_state T) with (enter 0).
    apply HB1; [eapply pexpr_ok_mono; [exact Hp|exact HL]|lia|reflexivity|intros _; reflexivity|].
    change (exit_ 0 (strip_spans x1)) with (StBinaryRhs (kind 0) (strip_spans x1)). cbn [Nat.add].
    apply pl_rhs_none; [reflexivity|]. apply pl_itemN_last; [exact Hr|exact H].
  - destruct (IHm x2 Hall') as (c' & Hb' & HB').
    inversion Hall' as [|? ? (_ & Hc2 & _) _]; subst.
    destruct (core_head x2 Hc2) as (ch & rh & Eh & _ & Hst).
    exists (c1 + (2 + c'))%nat. unfold items_toks in *. cbn [flat_map]. unfold comma at 1 3.
    split; [revert Hb'; repeat (rewrite app_length; cbn [List.length]); lia|].
    intros pexpr lf Lb f stk acc rest X tf Hp Hlf HL Hr H.
    assert (HL1 : (List.length (print_expr x1) <= Lb)%nat) by (revert HL; repeat (rewrite app_length; cbn [List.length]); lia).
    assert (HL2 : (List.length (print_expr x2 ++ flat_map (fun y => comma ++ print_expr y) more) <= Lb)%nat)
      by (revert HL; repeat (rewrite app_length; cbn [List.length]); lia).
    norm_app.
    fuel_as (c1 + (2 + (c' + f)))%nat. change (init_state T) with (enter 0).
    apply HB1; [eapply pexpr_ok_mono; [exact Hp|exact HL1]|lia|reflexivity|intros _; reflexivity|].
    change (exit_ 0 (strip_spans x1)) with (StBinaryRhs (kind 0) (strip_spans x1)). cbn [Nat.add].
    apply pl_rhs_none; [reflexivity|].
    rewrite app_assoc.
    eapply pl_itemN_more'; [apply app_eq_cons_l; exact Eh|exact Hst|].
    apply (HB' pexpr lf Lb); [exact Hp|exact Hlf|exact HL2|exact Hr|].
    rewrite <- app_assoc. exact H.
Qed.

Lemma sform n
  (IH : forall y, (esize y < n)%nat -> core_expr y = true -> forall k last, (k <= 10)%nat ->
        wpx k last y = true -> exists c, (c <= 40 * List.length (print_expr y))%nat /\ Bform k last y c) :
  forall e, (esize e <= n)%nat -> core_expr e = true -> wpx lv_postfix false e = true ->
  exists c m, (c + 30 <= 40 * List.length (print_expr e))%nat /\ (m <= List.length (print_expr e))%nat /\ Sform e c m.
Proof.
  induction e; intros Hsz Hcore Hwp; cbn [core_expr] in Hcore; try discriminate;
    try (cbn [wpx andb] in Hwp; discriminate);
    try (cbn [wpx] in Hwp; destruct e3; cbn in Hwp; discriminate);
    try (lazymatch goal with |- exists c m, _ /\ _ /\ Sform ?E c m =>
         exists 3%nat, 0%nat; split; [cbn [print_expr List.length]; lia|]; split; [lia|];
         intros pexpr lf f stk rest R t' X tf _ _ Hr _ H1 H2; cbn [print_expr app Nat.add];
         apply pl_unary_miss; [try destruct b; reflexivity|];
         eapply (pl_primary_atom pexpr lf _ E); [reflexivity|exact Hr|];
         rewrite Nat.sub_0_r in H1; eapply pl_parsed_suffix_gen; [exact H1|exact H2] end).
  - (* EParen *)
    cbn [wpx] in Hwp. cbn [esize] in Hsz.
    destruct (IH e ltac:(lia) Hcore 0%nat true ltac:(lia) Hwp) as (cx & Hbx & Hx).
    exists (S (S (cx + 3))), 0%nat. split; [len_tac|]. split; [lia|].
    intros pexpr lf f stk rest R t' X tf Hp Hlf Hr _ H1 H2.
    cbn [print_expr strip_spans app]. rewrite <- app_assoc. cbn [app Nat.add].
    apply pl_unary_miss; [reflexivity|].
    apply pl_primary_paren; [auto with rt|].
    change (init_state T) with (enter 0).
    fuel_as (cx + (3 + f))%nat.
    apply Hx; [eapply pexpr_ok_mono; [exact Hp|len_tac]| revert Hlf; len_tac |reflexivity|intros _; reflexivity|].
    change (exit_ 0 (strip_spans e)) with (StBinaryRhs (kind 0) (strip_spans e)). cbn [Nat.add].
    apply pl_rhs_none; [reflexivity|].
    apply pl_parsed_paren; [exact Hr|].
    rewrite Nat.sub_0_r in H1. eapply pl_parsed_suffix_gen; [exact H1|exact H2].
  - (* EArray *)
    cbn [wpx] in Hwp. cbn [esize] in Hsz.
    assert (Hall : Forall (item_ok n) items).
    { apply Forall_forall. intros x Hin. rewrite forallb_forall in Hcore, Hwp.
      pose proof (lsum_in esize items x Hin). split; [lia|]. split; [apply Hcore|apply Hwp]; exact Hin. }
    destruct items as [|x1 more].
    + exists 3%nat, 0%nat. split; [cbn [print_expr sep_by app List.length]; lia|]. split; [lia|].
      intros pexpr lf f stk rest R t' X tf Hp Hlf Hr _ H1 H2.
      cbn [print_expr sep_by strip_spans map app Nat.add].
      apply pl_unary_miss; [reflexivity|]. apply pl_primary_bracket; [discriminate|].
      eapply run_orelse_hit; [apply run_eat_hit; [reflexivity|exact Hr]|].
      eapply run_bind; [apply run_mk_span0|].
      rewrite Nat.sub_0_r in H1. eapply pl_parsed_suffix_gen; [exact H1|exact H2].
    + inversion Hall as [|? ? (Hs1 & Hc1 & Hw1) Hall']; subst.
      destruct (IH x1 Hs1 Hc1 0%nat true ltac:(lia) Hw1) as (c1 & Hb1 & HB1).
      destruct (core_head x1 Hc1) as (ch1 & rh1 & Eh1 & _ & Hst1).
      destruct more as [|x2 more].
      * exists (2 + (c1 + 3))%nat, 0%nat. split; [len_tac|]. split; [lia|].
        intros pexpr lf f stk rest R t' X tf Hp Hlf Hr _ H1 H2.
        cbn [print_expr sep_by flat_map strip_spans map]. rewrite app_nil_r. norm_app. cbn [Nat.add].
        apply pl_unary_miss; [reflexivity|]. apply pl_primary_bracket; [auto with rt|].
        eapply run_orelse_miss; [eapply run_eat_miss_app; [exact Eh1|apply starter_not; [exact Hst1|reflexivity]]|].
        change (init_state T) with (enter 0). fuel_as (c1 + (3 + f))%nat.
        apply HB1; [eapply pexpr_ok_mono; [exact Hp|len_tac]|revert Hlf; len_tac|reflexivity|intros _; reflexivity|].
        change (exit_ 0 (strip_spans x1)) with (StBinaryRhs (kind 0) (strip_spans x1)). cbn [Nat.add].
        apply pl_rhs_none; [reflexivity|]. apply pl_item0_single; [exact Hr|].
        rewrite Nat.sub_0_r in H1. eapply pl_parsed_suffix_gen; [exact H1|exact H2].
      * destruct (array_items n IH more x2 Hall') as (c' & Hb' & HB').
        inversion Hall' as [|? ? (_ & Hc2 & _) _]; subst.
        destruct (core_head x2 Hc2) as (ch2 & rh2 & Eh2 & _ & Hst2).
        exists (2 + (c1 + (2 + (c' + 1))))%nat, 0%nat.
        assert (Elen : List.length (print_expr (EArray sp (x1 :: x2 :: more))) =
                       (List.length (print_expr x1) + List.length (items_toks x2 more) + 3)%nat).
        { cbn [print_expr sep_by flat_map]. unfold items_toks, comma. repeat (rewrite app_length; cbn [List.length]). lia. }
        split; [lia|]. split; [lia|].
        intros pexpr lf f stk rest R t' X tf Hp Hlf Hr _ H1 H2. rewrite Elen in Hp, Hlf.
        cbn [print_expr sep_by flat_map strip_spans]. unfold comma at 1. norm_app. cbn [Nat.add].
        apply pl_unary_miss; [reflexivity|]. apply pl_primary_bracket; [auto with rt|].
        eapply run_orelse_miss; [eapply run_eat_miss_app; [exact Eh1|apply starter_not; [exact Hst1|reflexivity]]|].
        change (init_state T) with (enter 0). fuel_as (c1 + (2 + (c' + (1 + f))))%nat.
        apply HB1; [eapply pexpr_ok_mono; [exact Hp|lia]|lia|reflexivity|intros _; reflexivity|].
        change (exit_ 0 (strip_spans x1)) with (StBinaryRhs (kind 0) (strip_spans x1)). cbn [Nat.add].
        apply pl_rhs_none; [reflexivity|].
        change (print_expr x2 ++ flat_map (fun y => comma ++ print_expr y) more ++ sim SRightBracket :: rest)
          with (print_expr x2 ++ (flat_map (fun y => comma ++ print_expr y) more ++ sim SRightBracket :: rest)).
        rewrite app_assoc.
        eapply pl_item0_more'; [apply app_eq_cons_l; exact Eh2|exact Hst2|].
        eapply (HB' pexpr lf _ _ _ [strip_spans x1]); [exact Hp|lia|unfold items_toks; lia|exact Hr|].
        cbn [app map] in *. apply pl_parsed_suffix_gen with (R := R) (t1 := t'); [|exact H2].
        rewrite Nat.sub_0_r in H1. exact H1.
  - (* EArrayComp *)
    cbn [wpx] in Hwp. cbn [esize] in Hsz.
    apply andb_true_iff in Hwp as [Hwp Hws]. apply andb_true_iff in Hwp as [Hwx Hok].
    apply andb_true_iff in Hcore as [Hcx Hcs]. apply andb_true_iff in Hcx as [Hcx _].
    destruct (IH e ltac:(lia) Hcx 0%nat true ltac:(lia) Hwx) as (c1 & Hb1 & HB1).
    destruct (core_head e Hcx) as (ch1 & rh1 & Eh1 & _ & Hst1).
    exists (2 + (c1 + 3))%nat, 0%nat.
    assert (Elen : List.length (print_expr (EArrayComp sp e specs)) =
                   (List.length (print_expr e) + List.length (flat_map print_spec specs) + 2)%nat).
    { change (print_expr (EArrayComp sp e specs)) with (sim SLeftBracket :: print_expr e ++ flat_map print_spec specs ++ [sim SRightBracket]).
      cbn [List.length]. repeat (rewrite app_length; cbn [List.length]). lia. }
    split; [lia|]. split; [lia|].
    intros pexpr lf f stk rest R t' X tf Hp Hlf Hr _ H1 H2. rewrite Elen in Hp, Hlf.
    assert (Hall : Forall (spec_ok (List.length (print_expr e) + List.length (flat_map print_spec specs) + 2)) specs).
    { apply Forall_forall. intros sc Hin. rewrite forallb_forall in Hcs, Hws.
      split; [apply (Hcs sc Hin)|]. split; [apply (Hws sc Hin)|].
      assert (List.length (print_spec sc) <= List.length (flat_map print_spec specs))%nat; [|lia].
      clear -Hin. induction specs as [|s0 more IHs]; [destruct Hin|]. cbn [flat_map]. rewrite app_length.
      destruct Hin as [->|Hin]; [lia|]. specialize (IHs Hin). lia. }
    assert (Hsl : (List.length specs <= List.length (flat_map print_spec specs))%nat).
    { clear. induction specs as [|s0 more IHs]; [cbn; lia|]. cbn [flat_map List.length]. rewrite app_length.
      destruct s0; cbn [print_spec List.length]; lia. }
    change (print_expr (EArrayComp sp e specs)) with (sim SLeftBracket :: print_expr e ++ flat_map print_spec specs ++ [sim SRightBracket]).
    change (strip_spans (EArrayComp sp e specs)) with (EArrayComp sp0 (strip_spans e) (map strip_spec specs)) in H1.
    norm_app. cbn [Nat.add].
    apply pl_unary_miss; [reflexivity|]. apply pl_primary_bracket; [auto with rt|].
    eapply run_orelse_miss; [eapply run_eat_miss_app; [exact Eh1|apply starter_not; [exact Hst1|reflexivity]]|].
    change (init_state T) with (enter 0). fuel_as (c1 + (3 + f))%nat.
    destruct specs as [|[v y|y] more]; cbn [specs_ok] in Hok; try discriminate.
    apply HB1; [eapply pexpr_ok_mono; [exact Hp|lia]|lia|reflexivity|intros _; reflexivity|].
    change (exit_ 0 (strip_spans e)) with (StBinaryRhs (kind 0) (strip_spans e)). cbn [Nat.add].
    apply pl_rhs_none; [reflexivity|].
    eapply (pl_item0_comp pexpr lf _ _ _ (sim KFor)); [reflexivity| |exact Hr|].
    + apply (run_comp_spec pexpr _ Hp (S lf) (CFor v y :: more) (sim SRightBracket) rest);
        [reflexivity|lia|exact Hall|split; reflexivity|reflexivity|reflexivity].
    + rewrite Nat.sub_0_r in H1. eapply pl_parsed_suffix_gen; [exact H1|exact H2].
  - (* EField *)
    cbn [wpx] in Hwp. cbn [esize] in Hsz.
    destruct (IHe ltac:(lia) Hcore Hwp) as (c & m & Hbc & Hbm & HS).
    exists c, (S m). split; [len_tac|]. split; [len_tac|].
    intros pexpr lf f stk rest R t' X tf Hp Hlf Hr Hts H1 H2.
    cbn [print_expr strip_spans]. rewrite <- app_assoc. cbn [app].
    assert (Hl : (List.length (print_expr e) + 2 <= lf)%nat) by (revert Hlf; len_tac).
    eapply HS; [eapply pexpr_ok_mono; [exact Hp|len_tac]|lia|discriminate|reflexivity| |exact H2].
    replace (S lf - m)%nat with (S (S lf - S m)) by lia. cbn [suffix_loop].
    eapply run_orelse_hit; [apply run_eat_hit; [reflexivity|discriminate]|].
    eapply run_bind; [unfold id_tok, tk; apply run_expect_ident_hit; exact Hr|].
    rewrite strip_span0. eapply run_bind; [apply run_mk_span0|]. exact H1.
  - (* EIndex *)
    cbn [wpx] in Hwp. cbn [esize] in Hsz. apply andb_true_iff in Hwp as [Hwx Hwi].
    apply andb_true_iff in Hcore as [Hcx Hci].
    destruct (IHe1 ltac:(lia) Hcx Hwx) as (c & m & Hbc & Hbm & HS).
    exists c, (S m). split; [len_tac|]. split; [len_tac|].
    intros pexpr lf f stk rest R t' X tf Hp Hlf Hr Hts H1 H2.
    cbn [print_expr strip_spans]. norm_app.
    assert (Hl : (List.length (print_expr e1) + 2 <= lf)%nat) by (revert Hlf; len_tac).
    eapply HS; [eapply pexpr_ok_mono; [exact Hp|len_tac]|lia|discriminate|reflexivity| |exact H2].
    replace (S lf - m)%nat with (S (S lf - S m)) by lia. cbn [suffix_loop].
    eapply run_orelse_miss; [apply run_eat_miss; reflexivity|].
    eapply run_orelse_hit; [apply run_eat_hit; [reflexivity|auto with rt]|].
    eapply run_bind; [|exact H1].
    apply (run_index pexpr _ Hp); [exact Hci|exact Hwi|len_tac|apply strip_span0|exact Hr].
  - (* ESlice *)
    cbn [wpx] in Hwp. cbn [esize] in Hsz.
    apply andb_true_iff in Hwp as [Hwp Hwc]. apply andb_true_iff in Hwp as [Hwp Hwb].
    apply andb_true_iff in Hwp as [Hwx Hwa].
    apply andb_true_iff in Hcore as [Hcore Hcc]. apply andb_true_iff in Hcore as [Hcore Hcb].
    apply andb_true_iff in Hcore as [Hcx Hca].
    destruct (IHe ltac:(lia) Hcx Hwx) as (c0 & m & Hbc & Hbm & HS).
    exists c0, (S m). split; [len_tac|]. split; [len_tac|].
    intros pexpr lf f stk rest R t' X tf Hp Hlf Hr Hts H1 H2.
    cbn [print_expr strip_spans]. norm_app.
    assert (Hl : (List.length (print_expr e) + 2 <= lf)%nat) by (revert Hlf; len_tac).
    eapply HS; [eapply pexpr_ok_mono; [exact Hp|len_tac]|lia|discriminate|reflexivity| |exact H2].
    replace (S lf - m)%nat with (S (S lf - S m)) by lia. cbn [suffix_loop].
    eapply run_orelse_miss; [apply run_eat_miss; reflexivity|].
    eapply run_orelse_hit; [apply run_eat_hit; [reflexivity|auto with rt]|].
    eapply run_bind; [|exact H1].
    change (match c with Some c' => sim SColon :: print_expr c' | None => [] end) with (ctoks c).
    apply (run_slice pexpr _ Hp); try assumption; try apply strip_span0;
      [destruct a; cbn [olen]; len_tac|destruct b; cbn [olen]; len_tac|destruct c; cbn [olen]; len_tac].
  - (* ESuperField *)
    exists 3%nat, 0%nat. split; [cbn [print_expr List.length]; lia|]. split; [lia|].
    intros pexpr lf f stk rest R t' X tf _ _ Hr _ H1 H2. cbn [print_expr strip_spans app Nat.add].
    apply pl_unary_miss; [reflexivity|]. apply pl_primary_super; [discriminate|].
    eapply run_orelse_hit; [apply run_eat_hit; [reflexivity|discriminate]|].
    eapply run_bind; [unfold id_tok, tk; apply run_expect_ident_hit; exact Hr|].
    eapply run_bind; [apply run_mk_span0|].
    rewrite Nat.sub_0_r in H1. eapply pl_parsed_suffix_gen; [exact H1|exact H2].
  - (* ESuperIndex *)
    cbn [wpx] in Hwp.
    exists 3%nat, 0%nat. split; [len_tac|]. split; [lia|].
    intros pexpr lf f stk rest R t' X tf Hp _ Hr _ H1 H2. cbn [print_expr strip_spans]. norm_app. cbn [Nat.add].
    apply pl_unary_miss; [reflexivity|]. apply pl_primary_super; [discriminate|].
    eapply run_orelse_miss; [apply run_eat_miss; reflexivity|].
    eapply run_orelse_hit; [apply run_eat_hit; [reflexivity|auto with rt]|].
    eapply run_bind; [apply Hp; [exact Hcore|exact Hwp|len_tac|reflexivity|intros _; reflexivity]|].
    eapply run_bind; [apply run_expect_hit; [reflexivity|exact Hr]|].
    eapply run_bind; [apply run_mk_span0|].
    rewrite Nat.sub_0_r in H1. eapply pl_parsed_suffix_gen; [exact H1|exact H2].
  - (* ECall *)
    cbn [wpx] in Hwp. cbn [esize] in Hsz. apply andb_true_iff in Hwp as [Hwx Hwa].
    apply andb_true_iff in Hcore as [Hcx Hca].
    destruct (IHe ltac:(lia) Hcx Hwx) as (c & m & Hbc & Hbm & HS).
    exists c, (S m). split; [len_tac|]. split; [len_tac|].
    intros pexpr lf f stk rest R t' X tf Hp Hlf Hr Hts H1 H2.
    cbn [print_expr strip_spans]. norm_app.
    assert (Hl : (List.length (print_expr e) + 2 <= lf)%nat) by (revert Hlf; len_tac).
    eapply HS; [eapply pexpr_ok_mono; [exact Hp|len_tac]|lia|discriminate|reflexivity| |exact H2].
    replace (S lf - m)%nat with (S (S lf - S m)) by lia. cbn [suffix_loop].
    eapply run_orelse_miss; [apply run_eat_miss; reflexivity|].
    eapply run_orelse_miss; [apply run_eat_miss; reflexivity|].
    eapply run_orelse_hit; [apply run_eat_hit; [reflexivity|auto with rt]|].
    assert (Hargs : Forall (arg_ok (List.length (print_expr (ECall sp e args tailstrict)))) args).
    { apply Forall_forall. intros a Hin. rewrite forallb_forall in Hca, Hwa.
      split; [apply (Hca a Hin)|]. split; [apply (Hwa a Hin)|].
      unfold alen.
      assert (Hle : (List.length (print_arg a) <= List.length (sep_by comma print_arg args))%nat); [|revert Hle; len_tac].
      clear -Hin. unfold sep_by. destruct args as [|a0 more]; [destruct Hin|].
      rewrite app_length. destruct Hin as [->|Hin]; [lia|].
      induction more as [|a1 more IHm]; [destruct Hin|]. cbn [flat_map]. rewrite !app_length.
      destruct Hin as [->|Hin]; [lia|]. specialize (IHm Hin). lia. }
    assert (Htail : forall args' t0,
      t0 = (if tailstrict then [sim KTailstrict] else []) ++ rest ->
      args' = map strip_arg args ->
      run (ts <- eat_simple KTailstrict true ;;
           sp1 <- mk_span (expr_span (strip_spans e)) (match ts with Some t => t | None => sp0 end) ;;
           suffix_loop pexpr (S lf) (S lf - S m) (ECall sp1 (strip_spans e) args' (is_some ts))) t0 R t').
    { intros args' t0 -> ->. destruct tailstrict; cbn [app].
      + eapply run_bind; [apply run_eat_hit; [reflexivity|exact Hr]|].
        cbv beta iota. rewrite strip_span0. eapply run_bind; [apply run_mk_span0|]. exact H1.
      + destruct rest as [|c0 rest0]; [congruence|]. cbn in Hts.
        eapply run_bind; [apply run_eat_miss; exact Hts|].
        cbv beta iota. rewrite strip_span0. eapply run_bind; [apply run_mk_span0|]. exact H1. }
    unfold sep_by. destruct args as [|a0 more].
    + cbn [app]. eapply run_bind.
      * eapply run_orelse_hit; [apply run_eat_hit; [reflexivity|destruct tailstrict; [discriminate|exact Hr]]|apply run_ret].
      * cbv beta iota. apply Htail; reflexivity.
    + inversion Hargs as [|? ? (Hc0 & _) _]; subst.
      destruct (arg_head a0 Hc0) as (ch & rh & Eh & Hh).
      rewrite <- !app_assoc. eapply run_bind.
      * eapply run_orelse_miss; [eapply run_eat_miss_app; [exact Eh|exact Hh]|].
        unfold parse_args. apply run_call.
        eapply run_orelse_miss; [eapply run_eat_miss_app; [exact Eh|exact Hh]|].
        apply (run_args_loop pexpr _ Hp); [pose proof (flat_len print_arg more) as Hfl; cbn [print_expr] in Hlf; unfold sep_by in Hlf; revert Hlf Hfl; len_tac|exact Hargs|destruct tailstrict; [discriminate|exact Hr]].
      * cbv beta iota. apply Htail; reflexivity.
  - (* EBinary *) cbn [wpx] in Hwp. destruct op; cbn in Hwp; discriminate.
Qed.

Lemma suffix_case n
  (IH : forall y, (esize y < n)%nat -> core_expr y = true -> forall k last, (k <= 10)%nat ->
        wpx k last y = true -> exists c, (c <= 40 * List.length (print_expr y))%nat /\ Bform k last y c)
  e k last : (esize e <= n)%nat -> core_expr e = true -> wpx lv_postfix false e = true -> (k <= 10)%nat ->
  exists c, (c <= 40 * List.length (print_expr e))%nat /\ Bform k last e c.
Proof.
  intros Hsz Hcore Hw11 Hk. pose proof (steps_fin_le k) as Hfin.
  destruct (sform n IH e Hsz Hcore Hw11) as (c & m & Hbc & Hbm & HS).
  exists ((10 - k) + c + steps_fin k)%nat. split; [lia|].
  apply wrap; [exact Hk|].
  intros pexpr lf f stk fo r x tf Hp Hlf Hn _ _ H.
  destruct (nosfx_inv fo Hn) as (_ & _ & _ & _ & Hts).
  eapply HS; [exact Hp|exact Hlf|discriminate|exact Hts| |exact H].
  replace (S lf - m)%nat with (S (lf - m)) by lia. apply suffix_none; exact Hn.
Qed.

Theorem rt_main : forall n e, (esize e < n)%nat -> core_expr e = true ->
  forall k last, (k <= 10)%nat -> wpx k last e = true ->
  exists c, (c <= 40 * List.length (print_expr e))%nat /\ Bform k last e c.
Proof.
  induction n as [|n IH]; [intros; lia|].
  intros e Hsz Hcore k last Hk Hwp.
  pose proof (steps_fin_le k) as Hfin.
  destruct e; cbn [core_expr] in Hcore; try discriminate;
    try (exists ((10 - k) + 3 + steps_fin k)%nat; split;
         [cbn [print_expr List.length]; lia | apply wrap; [exact Hk|eapply U_atom; reflexivity]]).
  - (* EParen *)
    cbn [wpx] in Hwp. cbn [esize] in Hsz.
    destruct (IH e ltac:(lia) Hcore 0%nat true ltac:(lia) Hwp) as (cx & Hbx & Hx).
    exists ((10 - k) + (S (S (cx + 3))) + steps_fin k)%nat. split; [len_tac|].
    apply wrap; [exact Hk|].
    intros pexpr lf f stk fo r x tf Hp Hlf Hn _ _ H.
    cbn [print_expr strip_spans app]. rewrite <- app_assoc. cbn [app Nat.add].
    apply pl_unary_miss; [reflexivity|].
    apply pl_primary_paren; [auto with rt|].
    change (init_state T) with (enter 0).
    fuel_as (cx + (3 + f))%nat.
    apply Hx; [eapply pexpr_ok_mono; [exact Hp|len_tac]| revert Hlf; len_tac |reflexivity|intros _; reflexivity|].
    change (exit_ 0 (strip_spans e)) with (StBinaryRhs (kind 0) (strip_spans e)). cbn [Nat.add].
    apply pl_rhs_none; [reflexivity|].
    apply pl_parsed_paren; [discriminate|].
    apply pl_parsed_suffix_none; [exact Hn|exact H].
  - (* EArray *) apply (suffix_case n IH); [cbn [esize] in *; lia|exact Hcore|exact Hwp|exact Hk].
  - (* EArrayComp *) apply (suffix_case n IH); [cbn [esize] in *; lia|exact Hcore|exact Hwp|exact Hk].
  - (* EField *) apply (suffix_case n IH); [cbn [esize] in *; lia|exact Hcore|exact Hwp|exact Hk].
  - (* EIndex *) apply (suffix_case n IH); [cbn [esize] in *; lia|exact Hcore|exact Hwp|exact Hk].
  - (* ESlice *) apply (suffix_case n IH); [cbn [esize] in *; lia|exact Hcore|exact Hwp|exact Hk].
  - (* ESuperField *) apply (suffix_case n IH); [cbn [esize] in *; lia|exact Hcore|exact Hwp|exact Hk].
  - (* ESuperIndex *) apply (suffix_case n IH); [cbn [esize] in *; lia|exact Hcore|exact Hwp|exact Hk].
  - (* ECall *) apply (suffix_case n IH); [cbn [esize] in *; lia|exact Hcore|exact Hwp|exact Hk].
  - (* ELocal *)
    cbn [esize] in Hsz.
    assert (Hlast : last = true) by (cbn [wpx] in Hwp; destruct last; cbn in Hwp; congruence).
    subst last. cbn [wpx andb] in Hwp.
    apply andb_true_iff in Hwp as [Hwp Hwb]. apply andb_true_iff in Hwp as [_ Hwbs].
    apply andb_true_iff in Hcore as [Hcore Hcb]. apply andb_true_iff in Hcore as [Hne Hcbs].
    destruct binds as [|b0 more]; [discriminate|]. clear Hne.
    exists ((10 - k) + 3 + steps_fin k)%nat. split; [len_tac|].
    apply wrap; [exact Hk|].
    intros pexpr lf f stk fo r v tf Hp Hlf Hn Hs Hel H.
    specialize (Hs eq_refl).
    set (Lb := List.length (print_expr (ELocal sp (b0 :: more) e))) in *.
    assert (Eprint : print_expr (ELocal sp (b0 :: more) e) =
              sim KLocal :: (print_bind b0 ++ flat_map (fun b => comma ++ print_bind b) more) ++ sim SSemicolon :: print_expr e)
      by reflexivity.
    assert (Hbl : forall b, In b (b0 :: more) -> (List.length (print_bind b) + 2 <= Lb)%nat).
    { intros b Hin. pose proof (sep_by_len print_bind (b0 :: more) b Hin) as Hle. unfold Lb. rewrite Eprint.
      unfold sep_by in Hle. cbn [List.length]. repeat (rewrite app_length; cbn [List.length]).
      rewrite app_length in Hle. lia. }
    assert (Hall : Forall (fun b => bind_ok Lb b /\ (List.length (print_bind b) <= S lf)%nat) (b0 :: more)).
    { apply Forall_forall. intros b Hin. rewrite forallb_forall in Hcbs, Hwbs. specialize (Hbl b Hin).
      split; [|lia]. split; [apply (Hcbs b Hin)|]. split; [apply (Hwbs b Hin)|lia]. }
    inversion Hall as [|? ? (Hok0 & Hl0) Hall']; subst.
    rewrite Eprint. change (strip_spans (ELocal sp (b0 :: more) e))
      with (ELocal sp0 (strip_bind b0 :: map strip_bind more) (strip_spans e)) in H.
    norm_app. cbn [Nat.add].
    apply pl_unary_miss; [reflexivity|]. apply pl_primary_local; [auto with rt|].
    destruct (binds_head more (sim SSemicolon) (print_expr e ++ fo :: r) eq_refl eq_refl) as (t0 & r0 & E0 & Hs0 & He0).
    rewrite E0.
    eapply run_bind; [apply (run_bind_ pexpr Lb Hp (S lf) b0 t0 r0 Hok0 Hl0 Hs0 He0)|].
    rewrite <- E0.
    eapply run_bind.
    { apply (run_binds_loop pexpr Lb Hp (S lf) more [strip_bind b0] (S lf)); [|exact Hall'|reflexivity|reflexivity|reflexivity].
      pose proof (flat_len print_bind more). unfold Lb in Hlf. rewrite Eprint in Hlf. revert Hlf.
      cbn [List.length]. repeat (rewrite app_length; cbn [List.length]). lia. }
    cbn [app].
    eapply run_bind; [apply run_expect_hit; [reflexivity|auto with rt]|].
    eapply run_bind; [apply Hp; [exact Hcb|exact Hwb| |exact Hs|exact Hel]|].
    { unfold Lb. rewrite Eprint. cbn [List.length]. repeat (rewrite app_length; cbn [List.length]). lia. }
    rewrite strip_span0. eapply run_bind; [apply run_mk_span0|].
    apply pl_parsed_suffix_none; [exact Hn|exact H].
  - (* EIf *)
    cbn [esize] in Hsz.
    assert (Hlast : last = true) by (cbn [wpx] in Hwp; destruct e3, last; cbn in Hwp; congruence).
    subst last.
    exists ((10 - k) + 3 + steps_fin k)%nat. split; [len_tac|].
    apply wrap; [exact Hk|].
    intros pexpr lf f stk fo r v tf Hp Hlf Hn Hs Hel H.
    specialize (Hs eq_refl).
    apply andb_true_iff in Hcore as [Hcore Hc3]. apply andb_true_iff in Hcore as [Hc1 Hc2].
    destruct e3 as [e3|]; cbn [wpx andb] in Hwp.
    + apply andb_true_iff in Hwp as [Hwp Hw3]. apply andb_true_iff in Hwp as [Hwp Hdg].
      apply andb_true_iff in Hwp as [Hw1 Hw2]. apply negb_true_iff in Hdg.
      cbn [print_expr strip_spans option_map app Nat.add]. rewrite <- !app_assoc. cbn [app].
      apply pl_unary_miss; [reflexivity|]. apply pl_primary_if; [auto with rt|].
      eapply run_bind; [apply Hp; [exact Hc1|exact Hw1|len_tac|reflexivity|intros _; reflexivity]|].
      eapply run_bind; [apply run_expect_hit; [reflexivity|auto with rt]|].
      rewrite <- app_assoc. cbn [app].
      eapply run_bind; [apply Hp; [exact Hc2|exact Hw2|len_tac|reflexivity|intros Hd; congruence]|].
      eapply run_bind; [apply run_eat_hit; [reflexivity|auto with rt]|].
      cbn [opt_expr].
      eapply run_bind; [eapply run_bind; [apply Hp; [exact Hc3|exact Hw3|len_tac|exact Hs|exact Hel]|apply run_ret]|].
      cbv beta iota; rewrite ?strip_span0. eapply run_bind; [apply run_mk_span0|].
      apply pl_parsed_suffix_none; [exact Hn|exact H].
    + apply andb_true_iff in Hwp as [Hw1 Hw2].
      cbn [print_expr strip_spans option_map app Nat.add]. rewrite <- !app_assoc. cbn [app].
      rewrite app_nil_r.
      apply pl_unary_miss; [reflexivity|]. apply pl_primary_if; [auto with rt|].
      eapply run_bind; [apply Hp; [exact Hc1|exact Hw1|len_tac|reflexivity|intros _; reflexivity]|].
      eapply run_bind; [apply run_expect_hit; [reflexivity|auto with rt]|].
      eapply run_bind; [apply Hp; [exact Hc2|exact Hw2|len_tac|exact Hs|intros _; apply Hel; reflexivity]|].
      eapply run_bind; [apply run_eat_miss; apply Hel; reflexivity|].
      cbn [opt_expr]. eapply run_bind; [apply run_ret|].
      cbv beta iota; rewrite ?strip_span0. eapply run_bind; [apply run_mk_span0|].
      apply pl_parsed_suffix_none; [exact Hn|exact H].
  - (* EBinary *)
    cbn [wpx] in Hwp. cbn [esize] in Hsz.
    apply andb_true_iff in Hcore as [Hc1 Hc2].
    apply andb_true_iff in Hwp as [Hwp Hw2]. apply andb_true_iff in Hwp as [Hkj Hw1].
    apply Nat.leb_le in Hkj. pose proof (level_le9 op) as Hj9.
    set (j := binop_level op) in *.
    destruct (IH e1 ltac:(lia) Hc1 j false ltac:(lia) Hw1) as (c1 & Hb1 & H1).
    destruct (IH e2 ltac:(lia) Hc2 (S j) last ltac:(lia) Hw2) as (c2 & Hb2 & H2).
    exists ((j - k) + (c1 + (1 + (c2 + ((if (S j <? 10)%nat then 2 else 1) + (2 * (j - k)))))))%nat.
    split; [destruct (S j <? 10)%nat; len_tac|].
    intros pexpr lf f stk fo r x tf Hp Hlf Hfc Hel H.
    pose proof (fcond_nosfx _ _ _ Hfc) as Hn. pose proof (fcond_noop _ _ _ Hfc) as Ho.
    cbn [print_expr strip_spans]. rewrite <- app_assoc. cbn [app].
    fuel_as ((j - k) + (c1 + (1 + (c2 + ((if (S j <? 10)%nat then 2 else 1) + (2 * (j - k) + f))))))%nat.
    assert (Ek : enter k = StBinary (kind k)).
    { unfold enter. replace (k <? 10)%nat with true by (symmetry; apply Nat.ltb_lt; lia). reflexivity. }
    apply descend; [lia|]. replace (k + (j - k))%nat with j by lia.
    apply H1; [eapply pexpr_ok_mono; [exact Hp|len_tac]| revert Hlf; len_tac
              |split; [apply optok_nosfx|apply optok_noop]
              |intros _; destruct op; reflexivity|].
    unfold exit_. replace (j <? 10)%nat with true by (symmetry; apply Nat.ltb_lt; lia).
    cbn [Nat.add].
    apply pl_rhs_op; [auto with rt| apply core_in_ok; exact Hc2 |].
    apply H2; [eapply pexpr_ok_mono; [exact Hp|len_tac]| revert Hlf; len_tac
              | destruct last; cbn in Hfc |- *; [exact Hfc|split; [tauto|apply (noop_above_mono k); [tauto|lia]]]
              | exact Hel |].
    assert (Hback : run (pe_loop T pexpr (S lf) (1 + (2 * (j - k) + f)) (StParsed (strip_spans e2))
                         (SiBinaryRhs (kind j) (strip_spans e1) op :: lhs_up k (j - k) ++ stk)) (fo :: r) x tf).
    { cbn [Nat.add]. apply pl_parsed_rhs; [apply strip_span0|apply strip_span0|].
      pose proof (ascend pexpr (S lf) (j - k) k f (EBinary sp0 (strip_spans e1) op (strip_spans e2)) stk fo r x tf
                    ltac:(lia) Ho) as Ha.
      replace (k + (j - k))%nat with j in Ha by lia. apply Ha.
      unfold exit_ in H. replace (k <? 10)%nat with true in H by (symmetry; apply Nat.ltb_lt; lia). exact H. }
    unfold exit_. destruct (S j <? 10)%nat eqn:Ej.
    + cbn [Nat.add]. apply pl_rhs_none; [apply (noop_above_at k); [exact Ho|apply Nat.ltb_lt in Ej; lia]|].
      exact Hback.
    + exact Hback.
  - (* EUnary *)
    cbn [wpx] in Hwp. cbn [esize] in Hsz.
    apply andb_true_iff in Hwp as [_ Hwx].
    destruct (IH e ltac:(lia) Hcore 10%nat last ltac:(lia) Hwx) as (cx & Hbx & Hx).
    exists ((10 - k) + (S (cx + 1)) + steps_fin k)%nat. split; [len_tac|].
    intros pexpr lf f stk fo r x tf Hp Hlf Hfc Hel H.
    pose proof (fcond_nosfx _ _ _ Hfc) as Hn. pose proof (fcond_noop _ _ _ Hfc) as Ho.
    fuel_as ((10 - k) + (S (cx + (1 + (steps_fin k + f)))))%nat.
    apply descend; [lia|]. replace (k + (10 - k))%nat with 10%nat by lia.
    change (enter 10) with StUnary.
    cbn [print_expr strip_spans app Nat.add].
    apply pl_unary_hit; [auto with rt|].
    change StUnary with (enter 10).
    apply Hx; [eapply pexpr_ok_mono; [exact Hp|len_tac]| revert Hlf; len_tac
              | destruct last; cbn in Hfc |- *; [exact Hfc|split; [tauto|reflexivity]] | exact Hel |].
    change (exit_ 10 (strip_spans e)) with (StParsed (strip_spans e)). cbn [Nat.add].
    apply pl_parsed_unary; [apply strip_span0|].
    apply finish; [exact Hk|exact Ho|exact H].
  - (* EFunc *)
    cbn [esize] in Hsz.
    assert (Hlast : last = true) by (cbn [wpx] in Hwp; destruct last; cbn in Hwp; congruence).
    subst last. cbn [wpx andb] in Hwp.
    apply andb_true_iff in Hwp as [Hwps Hwb]. apply andb_true_iff in Hcore as [Hcps Hcb].
    exists ((10 - k) + 3 + steps_fin k)%nat. split; [len_tac|].
    apply wrap; [exact Hk|].
    intros pexpr lf f stk fo r v tf Hp Hlf Hn Hs Hel H.
    specialize (Hs eq_refl).
    set (Lb := List.length (print_expr (EFunc sp params e))) in *.
    assert (Eprint : print_expr (EFunc sp params e) =
              sim KFunction :: sim SLeftParen :: sep_by comma print_param params ++ sim SRightParen :: print_expr e)
      by reflexivity.
    assert (Hall : Forall (param_ok Lb) params).
    { apply Forall_forall. intros p0 Hin. rewrite forallb_forall in Hcps, Hwps.
      split; [apply (Hcps p0 Hin)|]. split; [apply (Hwps p0 Hin)|].
      pose proof (sep_by_len print_param params p0 Hin). unfold Lb. rewrite Eprint.
      cbn [List.length]. repeat (rewrite app_length; cbn [List.length]). lia. }
    assert (Hcnt : (List.length params <= S lf)%nat).
    { assert (List.length params <= List.length (sep_by comma print_param params))%nat.
      { apply sep_by_count. intros [nm dd] _. cbn [print_param]. discriminate. }
      unfold Lb in Hlf. rewrite Eprint in Hlf. revert Hlf. cbn [List.length]. repeat (rewrite app_length; cbn [List.length]). lia. }
    rewrite Eprint. change (strip_spans (EFunc sp params e)) with (EFunc sp0 (map strip_param params) (strip_spans e)) in H.
    norm_app. cbn [Nat.add].
    apply pl_unary_miss; [reflexivity|]. apply pl_primary_function; [discriminate|].
    eapply run_bind; [apply run_expect_hit; [reflexivity|auto with rt]|].
    eapply run_bind; [apply (run_params pexpr Lb Hp (S lf) params); [exact Hcnt|exact Hall|auto with rt]|].
    cbv beta iota.
    eapply run_bind; [apply Hp; [exact Hcb|exact Hwb| |exact Hs|exact Hel]|].
    { unfold Lb. rewrite Eprint. cbn [List.length]. repeat (rewrite app_length; cbn [List.length]). lia. }
    rewrite strip_span0. eapply run_bind; [apply run_mk_span0|].
    apply pl_parsed_suffix_none; [exact Hn|exact H].
  - (* EAssert *)
    cbn [esize assert_size] in Hsz. destruct a as [asp ac am].
    assert (Hlast : last = true) by (cbn [wpx] in Hwp; destruct last; cbn in Hwp; congruence).
    subst last. cbn [wpx wp_assert andb] in Hwp.
    apply andb_true_iff in Hwp as [Hwa Hwb]. apply andb_true_iff in Hwa as [Hw1 Hwm].
    apply andb_true_iff in Hcore as [Hcore Hcb]. apply andb_true_iff in Hcore as [Hc1 Hcm].
    exists ((10 - k) + 3 + steps_fin k)%nat. split; [len_tac|].
    apply wrap; [exact Hk|].
    intros pexpr lf f stk fo r v tf Hp Hlf Hn Hs Hel H.
    specialize (Hs eq_refl).
    destruct am as [em|]; cbn [opt_all] in Hwm.
    + cbn [print_expr print_assert strip_spans strip_assert option_map app Nat.add].
      repeat (progress (rewrite <- ?app_assoc; cbn [app])).
      apply pl_unary_miss; [reflexivity|].
      eapply pl_primary_assert; [auto with rt| |].
      * eapply run_bind; [apply Hp; [exact Hc1|exact Hw1|len_tac|reflexivity|intros _; reflexivity]|].
        eapply run_bind; [apply run_eat_hit; [reflexivity|auto with rt]|].
        cbn [opt_expr].
        eapply run_bind; [eapply run_bind; [apply Hp; [exact Hcm|exact Hwm|len_tac|reflexivity|intros _; reflexivity]|apply run_ret]|].
        cbv beta iota; rewrite ?strip_span0. eapply run_bind; [apply run_mk_span0|apply run_ret].
      * eapply run_bind; [apply run_expect_hit; [reflexivity|auto with rt]|].
        eapply run_bind; [apply Hp; [exact Hcb|exact Hwb|len_tac|exact Hs|exact Hel]|].
        cbv beta iota; rewrite ?strip_span0. eapply run_bind; [apply run_mk_span0|].
        apply pl_parsed_suffix_none; [exact Hn|exact H].
    + cbn [print_expr print_assert strip_spans strip_assert option_map app Nat.add].
      rewrite app_nil_r. repeat (progress (rewrite <- ?app_assoc; cbn [app])).
      apply pl_unary_miss; [reflexivity|].
      eapply pl_primary_assert; [auto with rt| |].
      * eapply run_bind; [apply Hp; [exact Hc1|exact Hw1|len_tac|reflexivity|intros _; reflexivity]|].
        eapply run_bind; [apply run_eat_miss; reflexivity|].
        cbn [opt_expr]. eapply run_bind; [apply run_ret|].
        cbv beta iota; rewrite ?strip_span0. eapply run_bind; [apply run_mk_span0|apply run_ret].
      * eapply run_bind; [apply run_expect_hit; [reflexivity|auto with rt]|].
        eapply run_bind; [apply Hp; [exact Hcb|exact Hwb|len_tac|exact Hs|exact Hel]|].
        cbv beta iota; rewrite ?strip_span0. eapply run_bind; [apply run_mk_span0|].
        apply pl_parsed_suffix_none; [exact Hn|exact H].
  - (* EImport *)
    cbn [wpx] in Hwp. apply andb_true_iff in Hwp as [-> Hwx].
    exists ((10 - k) + 3 + steps_fin k)%nat. split; [len_tac|].
    apply wrap; [exact Hk|].
    apply (U_prefix _ e KImport EImport); try reflexivity; try assumption.
    intros; apply pl_primary_import; assumption.
  - (* EImportStr *)
    cbn [wpx] in Hwp. apply andb_true_iff in Hwp as [-> Hwx].
    exists ((10 - k) + 3 + steps_fin k)%nat. split; [len_tac|].
    apply wrap; [exact Hk|].
    apply (U_prefix _ e KImportstr EImportStr); try reflexivity; try assumption.
    intros; apply pl_primary_importstr; assumption.
  - (* EImportBin *)
    cbn [wpx] in Hwp. apply andb_true_iff in Hwp as [-> Hwx].
    exists ((10 - k) + 3 + steps_fin k)%nat. split; [len_tac|].
    apply wrap; [exact Hk|].
    apply (U_prefix _ e KImportbin EImportBin); try reflexivity; try assumption.
    intros; apply pl_primary_importbin; assumption.
  - (* EError *)
    cbn [wpx] in Hwp. apply andb_true_iff in Hwp as [-> Hwx].
    exists ((10 - k) + 3 + steps_fin k)%nat. split; [len_tac|].
    apply wrap; [exact Hk|].
    apply (U_prefix _ e KError EError); try reflexivity; try assumption.
    intros; apply pl_primary_error; assumption.
  - (* EInSuper *)
    cbn [wpx] in Hwp. cbn [esize] in Hsz.
    apply andb_true_iff in Hwp as [Hk6 Hwx]. apply Nat.leb_le in Hk6. unfold lv_ordcmp in *.
    destruct (IH e ltac:(lia) Hcore 6%nat false ltac:(lia) Hwx) as (cx & Hbx & Hx).
    exists ((6 - k) + (cx + (1 + (2 * (6 - k)))))%nat. split; [len_tac|].
    intros pexpr lf f stk fo r x tf Hp Hlf Hfc Hel H.
    pose proof (fcond_nosfx _ _ _ Hfc) as Hn. pose proof (fcond_noop _ _ _ Hfc) as Ho.
    cbn [print_expr strip_spans]. rewrite <- app_assoc. cbn [app].
    fuel_as ((6 - k) + (cx + (1 + (2 * (6 - k) + f))))%nat.
    apply descend; [lia|]. replace (k + (6 - k))%nat with 6%nat by lia.
    apply Hx; [eapply pexpr_ok_mono; [exact Hp|len_tac]| revert Hlf; len_tac
              |split; reflexivity|intros _; reflexivity|].
    change (exit_ 6 (strip_spans e)) with (StBinaryRhs (kind 6) (strip_spans e)). cbn [Nat.add].
    apply pl_rhs_insuper; [apply strip_span0|exact Hn|].
    pose proof (ascend pexpr (S lf) (6 - k) k f (EInSuper sp0 (strip_spans e) sp0) stk fo r x tf
                  ltac:(lia) Ho) as Ha.
    replace (k + (6 - k))%nat with 6%nat in Ha by lia. apply Ha.
    unfold exit_ in H. replace (k <? 10)%nat with true in H by (symmetry; apply Nat.ltb_lt; lia). exact H.
Qed.

(* ---------------------------------------------------------------- top level *)
Lemma run_parse_expr f0 t (a : expr) t' :
  run (pe_loop T (parse_expr T f0) f0 f0 (init_state T) []) t a t' -> run (parse_expr T (S f0)) t a t'.
Proof. intros H. exact (run_call _ _ _ _ H). Qed.

Lemma run_parse_root fuel c0 r0 (e : expr) :
  run (parse_expr T fuel) (c0 :: r0) e [eof_tok] ->
  omap fst (parse_fuel T fuel (c0 :: r0)) = Ok e.
Proof.
  intros H. unfold parse_fuel, parse_root_expr.
  destruct (H (init_pst c0 r0) eq_refl) as (s' & E & Ts).
  unfold bindP. rewrite E. destruct s' as [c r ex dc dm]. unfold toks_of in Ts; cbn in Ts.
  injection Ts as -> ->. reflexivity.
Qed.

(* self.parse_expr() with enough fuel parses every covered sub-expression *)
Theorem parse_expr_ok : forall L y fuel fo r, (List.length (print_expr y) < L)%nat ->
  core_expr y = true -> wp y = true -> (41 * List.length (print_expr y) + 3 <= fuel)%nat ->
  stopper fo = true -> else_ok y fo ->
  run (parse_expr T fuel) (print_expr y ++ fo :: r) (strip_spans y) (fo :: r).
Proof.
  induction L as [|L IH]; [intros; lia|].
  intros y fuel fo r HL Hc Hw Hf Hs He. unfold wp in Hw.
  destruct (rt_main (S (esize y)) y ltac:(lia) Hc 0%nat true ltac:(lia) Hw) as (c & Hb & HB).
  destruct fuel as [|f0]; [lia|].
  apply run_parse_expr.
  assert (Hlf : exists lf, f0 = S lf /\ (List.length (print_expr y) <= lf)%nat).
  { exists (f0 - 1)%nat. split; lia. }
  destruct Hlf as (lf & Elf & Hlf). rewrite Elf at 2.
  assert (Hg : exists g, f0 = (c + S (S g))%nat) by (exists (f0 - c - 2)%nat; lia).
  destruct Hg as (g & Eg). rewrite Eg at 2.
  change (init_state T) with (enter 0).
  apply HB; [|exact Hlf|exact Hs|exact He|].
  - intros z fo' r' Hcz Hwz Hlz Hsz Hez. apply (IH z f0 fo' r'); [lia|exact Hcz|exact Hwz|lia|exact Hsz|exact Hez].
  - change (exit_ 0 (strip_spans y)) with (StBinaryRhs (kind 0) (strip_spans y)).
    apply pl_rhs_none; [apply stopper_op0; exact Hs|]. apply pl_parsed_done.
Qed.

Theorem roundtrip_core : forall e, core_expr e = true -> wp e = true ->
  omap fst (parse T (print_tokens e)) = Ok (strip_spans e).
Proof.
  intros e Hc Hw.
  unfold parse, print_tokens, default_fuel.
  destruct (core_head e Hc) as (c0 & r0 & Ep & _).
  assert (Et : print_expr e ++ [eof_tok] = c0 :: (r0 ++ [eof_tok])) by (rewrite Ep; reflexivity).
  rewrite Et. apply run_parse_root. rewrite <- Et.
  apply (parse_expr_ok (S (List.length (print_expr e)))); [lia|exact Hc|exact Hw| |reflexivity|intros _; reflexivity].
  rewrite app_length. cbn [List.length]. lia.
Qed.
