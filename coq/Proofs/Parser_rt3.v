(* Proofs/Parser_rt3.v — round trip: main induction *)
From RJ Require Import Base.Outcome Model.Token Model.Ast Model.Parser Model.Print
  Proofs.Parser_rt Proofs.Parser_rt2.
From Coq Require Import Lia.
Local Open Scope list_scope.
Local Open Scope N_scope.

Notation T := spec_prec.

(* ---- facts about operator tokens, by enumeration *)
Lemma ops_split op : exists l1 l2,
  pt_ops T (kind (binop_level op)) = l1 ++ (binop_tok op, op) :: l2 /\ all_miss l1 (sim (binop_tok op)) = true.
Proof.
  destruct op; cbn [binop_level kind pt_ops spec_prec binop_tok];
  first [ exists (@nil (stoken * binary_op)); eexists; split; reflexivity
        | eexists [_]; eexists; split; reflexivity
        | eexists [_; _]; eexists; split; reflexivity
        | eexists [_; _; _]; eexists; split; reflexivity
        | eexists [_; _; _; _]; eexists; split; reflexivity ].
Qed.
Lemma optok_nosfx op : nosfx (sim (binop_tok op)) = true.
Proof. destruct op; reflexivity. Qed.
Lemma optok_noop op : noop_above (binop_level op) (sim (binop_tok op)) = true.
Proof. destruct op; reflexivity. Qed.
Lemma level_le9 op : (binop_level op <= 9)%nat.
Proof. destruct op; cbn; lia. Qed.

Definition head_not_super (t : list token) : Prop :=
  match t with c :: _ => is_simple KSuper c = false | [] => True end.

Section Steps.
  Variable pexpr : P expr.
  Variable lf : nat.
  Notation PL := (pe_loop spec_prec pexpr (S lf)).

  Lemma pl_rhs_op f op lhs stk t (a : expr) t' : t <> [] -> head_not_super t ->
    run (PL f (enter (S (binop_level op))) (SiBinaryRhs (kind (binop_level op)) lhs op :: stk)) t a t' ->
    run (PL (S f) (StBinaryRhs (kind (binop_level op)) lhs) stk) (sim (binop_tok op) :: t) a t'.
  Proof.
    intros Ht Hs H. cbn [pe_loop].
    destruct (ops_split op) as (l1 & l2 & -> & Hm).
    eapply run_bind; [apply run_eat_first_hit; [exact Hm|destruct op; reflexivity|exact Ht]|].
    cbv beta iota. rewrite next_state_enter by apply level_le9.
    destruct (stoken_eqb (binop_tok op) KIn) eqn:Ein; [|exact H].
    apply run_if_false; [|exact H].
    intros s Es. destruct t as [|c1 r1]; [congruence|]. unfold toks_of in Es. injection Es as Ec Er.
    unfold peek_simple, peek_tok. rewrite Ec. cbn in Hs. rewrite Hs. reflexivity.
  Qed.

  Lemma pl_rhs_insuper f lhs stk c t (a : expr) t' : expr_span lhs = sp0 -> nosfx c = true ->
    run (PL f (StBinaryRhs (kind 6) (EInSuper sp0 lhs sp0)) stk) (c :: t) a t' ->
    run (PL (S f) (StBinaryRhs (kind 6) lhs) stk) (sim KIn :: sim KSuper :: c :: t) a t'.
  Proof.
    intros Hl Hn H. cbn [pe_loop].
    eapply run_bind.
    { apply (run_eat_first_hit [(SLt, BLt); (SLtEq, BLe); (SGt, BGt); (SGtEq, BGe)] KIn BIn []);
        [reflexivity|reflexivity|discriminate]. }
    cbv beta iota. change (stoken_eqb KIn KIn) with true. cbv iota.
    destruct (nosfx_inv c Hn) as (H1 & H2 & _ & _).
    apply run_if_true.
    { intros s Es. unfold toks_of in Es. injection Es as Ec Er.
      unfold peek_simple, peek_tok. rewrite Ec, Er. cbn [nth_error]. rewrite H1, H2. reflexivity. }
    eapply run_orelse_hit; [apply run_eat_hit; [reflexivity|discriminate]|].
    rewrite Hl. eapply run_bind; [apply run_mk_span0|]. exact H.
  Qed.
  Lemma pl_parsed_suffix_gen f e stk t R t1 (a : expr) t' :
    run (suffix_loop pexpr (S lf) (S lf) e) t R t1 -> run (PL f (StParsed R) stk) t1 a t' ->
    run (PL (S f) (StParsed e) (SiSuffix :: stk)) t a t'.
  Proof.
    intros H1 H2. cbn [pe_loop].
    eapply run_bind; [unfold parse_suffix_expr; apply run_call; exact H1|exact H2].
  Qed.
End Steps.

(* ---------------------------------------------------------------- the covered constructors *)
Fixpoint core_expr (e : expr) : bool :=
  match e with
  | ENull _ | EBool _ _ | ESelf _ | EDollar _ | EString _ _ | ETextBlock _ _ | ENumber _ _ | EIdent _ _ => true
  | EParen _ x => core_expr x
  | EUnary _ _ x => core_expr x
  | EBinary _ l _ r => core_expr l && core_expr r
  | EInSuper _ x _ => core_expr x
  | EField _ x _ => core_expr x
  | EError _ x | EImport _ x | EImportStr _ x | EImportBin _ x => core_expr x
  | EIf _ c t o => core_expr c && core_expr t && match o with Some x => core_expr x | None => true end
  | EAssert _ (MkAssert _ c m) body =>
      core_expr c && match m with Some x => core_expr x | None => true end && core_expr body
  | _ => false
  end.

(* the first printed token of a covered tree is not `super` *)
Lemma core_head e : core_expr e = true -> exists c r, print_expr e = c :: r /\ is_simple KSuper c = false.
Proof.
  induction e; cbn [core_expr]; intros H; try discriminate;
    try (eexists; eexists; split; [reflexivity|reflexivity]).
  - destruct b; eexists; eexists; split; reflexivity.
  - destruct (IHe H) as (c & r & E & Hc). cbn [print_expr]. rewrite E. eexists; eexists; split; [reflexivity|exact Hc].
  - apply andb_true_iff in H as [H1 H2]. destruct (IHe1 H1) as (c & r & E & Hc).
    cbn [print_expr]. rewrite E. eexists; eexists; split; [reflexivity|exact Hc].
  - destruct op; eexists; eexists; split; reflexivity.
  - destruct a. eexists; eexists; split; reflexivity.
  - destruct (IHe H) as (c & r & E & Hc). cbn [print_expr]. rewrite E. eexists; eexists; split; [reflexivity|exact Hc].
Qed.

(* follow-token conditions *)
Definition stopper (c : token) : bool := nosfx c && forallb (fun l => opmiss l c) (seq 0 10).
Definition fcond (k : nat) (last : bool) (fo : token) : Prop :=
  if last then stopper fo = true else nosfx fo = true /\ noop_above k fo = true.
Definition else_ok (e : expr) (fo : token) : Prop := dangling e = true -> is_simple KElse fo = false.

Lemma stopper_nosfx c : stopper c = true -> nosfx c = true.
Proof. unfold stopper. intros H. apply andb_true_iff in H as [H _]. exact H. Qed.
Lemma stopper_noop c k : stopper c = true -> noop_above k c = true.
Proof.
  unfold stopper, noop_above. intros H. apply andb_true_iff in H as [_ H].
  rewrite forallb_forall in *. intros l Hl. apply H. apply in_seq in Hl. apply in_seq. lia.
Qed.
Lemma stopper_op0 c : stopper c = true -> opmiss 0 c = true.
Proof.
  unfold stopper. intros H. apply andb_true_iff in H as [_ H]. rewrite forallb_forall in H.
  apply H. apply in_seq. lia.
Qed.
Lemma fcond_nosfx k last fo : fcond k last fo -> nosfx fo = true.
Proof. destruct last; cbn; [apply stopper_nosfx|tauto]. Qed.
Lemma fcond_noop k last fo : fcond k last fo -> noop_above k fo = true.
Proof. destruct last; cbn; [apply stopper_noop|tauto]. Qed.

(* what a recursive call self.parse_expr() must deliver for the sub-expressions it is used on *)
Definition pexpr_ok (pexpr : P expr) (L : nat) : Prop :=
  forall y fo r, core_expr y = true -> wp y = true -> (List.length (print_expr y) < L)%nat ->
    stopper fo = true -> else_ok y fo ->
    run pexpr (print_expr y ++ fo :: r) (strip_spans y) (fo :: r).

Lemma pexpr_ok_mono pexpr L L' : pexpr_ok pexpr L -> (L' <= L)%nat -> pexpr_ok pexpr L'.
Proof. intros H HL y fo r Hc Hw Hl. apply H; [exact Hc|exact Hw|lia]. Qed.

Definition Bform (k : nat) (last : bool) (e : expr) (c : nat) : Prop :=
  forall pexpr lf f stk fo r x tf,
    pexpr_ok pexpr (List.length (print_expr e)) -> (List.length (print_expr e) <= lf)%nat ->
    fcond k last fo -> else_ok e fo ->
    run (pe_loop T pexpr (S lf) f (exit_ k (strip_spans e)) stk) (fo :: r) x tf ->
    run (pe_loop T pexpr (S lf) (c + f) (enter k) stk) (print_expr e ++ fo :: r) x tf.

Definition Uform (last : bool) (e : expr) (c : nat) : Prop :=
  forall pexpr lf f stk fo r x tf,
    pexpr_ok pexpr (List.length (print_expr e)) -> (List.length (print_expr e) <= lf)%nat ->
    nosfx fo = true -> (last = true -> stopper fo = true) ->
    else_ok e fo ->
    run (pe_loop T pexpr (S lf) f (StParsed (strip_spans e)) stk) (fo :: r) x tf ->
    run (pe_loop T pexpr (S lf) (c + f) StUnary stk) (print_expr e ++ fo :: r) x tf.

Ltac fuel_as X :=
  match goal with |- run (pe_loop _ _ _ ?F _ _) _ _ _ => replace F with X by lia end.

Lemma wrap k last e c : (k <= 10)%nat -> Uform last e c -> Bform k last e ((10 - k) + c + steps_fin k).
Proof.
  intros Hk HU pexpr lf f stk fo r x tf Hp Hlf Hfc Hel H.
  fuel_as ((10 - k) + (c + (steps_fin k + f)))%nat.
  apply descend; [lia|]. replace (k + (10 - k))%nat with 10%nat by lia.
  change (enter 10) with StUnary.
  apply HU; [exact Hp|exact Hlf|apply (fcond_nosfx k last); exact Hfc|intros ->; exact Hfc|exact Hel|].
  apply finish; [exact Hk|apply (fcond_noop k last); exact Hfc|exact H].
Qed.

Lemma atom_unary_miss e c : atom_tok e = Some c -> all_miss (pt_unary T) c = true.
Proof. destruct e; cbn; intros H; try discriminate; injection H as <-; try destruct b; reflexivity. Qed.

Lemma U_atom last e c : atom_tok e = Some c -> Uform last e 3.
Proof.
  intros Ha pexpr lf f stk fo r x tf _ _ Hn _ _ H. rewrite (atom_print e c Ha). cbn [app Nat.add].
  apply pl_unary_miss; [apply (atom_unary_miss e); exact Ha|].
  apply (pl_primary_atom pexpr lf _ e); [exact Ha|discriminate|].
  apply pl_parsed_suffix_none; [exact Hn|exact H].
Qed.

Lemma U_prefix e x kw (mk : span -> expr -> expr) :
  print_expr e = sim kw :: print_expr x -> strip_spans e = mk sp0 (strip_spans x) ->
  dangling e = dangling x -> all_miss (pt_unary T) (sim kw) = true ->
  (forall pexpr lf f stk t (a : expr) t', t <> [] ->
     run (y <- prefix_form pexpr sp0 mk ;; pe_loop T pexpr (S lf) f (StParsed y) stk) t a t' ->
     run (pe_loop T pexpr (S lf) (S f) StPrimary stk) (sim kw :: t) a t') ->
  core_expr x = true -> wpx 0 true x = true -> Uform true e 3.
Proof.
  intros Hpr Hst Hdg Hum Hpl Hc Hw pexpr lf f stk fo r v tf Hp Hlf Hn Hs Hel H.
  rewrite Hpr. rewrite Hpr in Hp. cbn [app Nat.add List.length] in *.
  apply pl_unary_miss; [exact Hum|]. apply Hpl; [auto with rt|].
  eapply run_bind.
  - unfold prefix_form. eapply run_bind.
    + apply Hp; [exact Hc|exact Hw|lia|apply Hs; reflexivity|intros Hd; apply Hel; rewrite Hdg; exact Hd].
    + rewrite strip_span0. eapply run_bind; [apply run_mk_span0|apply run_ret].
  - rewrite Hst in H. apply pl_parsed_suffix_none; [exact Hn|exact H].
Qed.

Lemma steps_fin_le k : (steps_fin k <= 19)%nat.
Proof. unfold steps_fin. destruct (10 - k)%nat eqn:E; lia. Qed.

Ltac len_tac := cbn [print_expr print_assert]; repeat (progress (repeat rewrite app_length; cbn [List.length])); lia.

(* suffix chains: from the unary level into the suffix loop of parse_suffix_expr *)
Definition Sform (e : expr) (c m : nat) : Prop :=
  forall pexpr lf f stk rest R t' (X : expr) tf,
    pexpr_ok pexpr (List.length (print_expr e)) -> (List.length (print_expr e) <= lf)%nat -> rest <> [] ->
    run (suffix_loop pexpr (S lf) (S lf - m) (strip_spans e)) rest R t' ->
    run (pe_loop T pexpr (S lf) f (StParsed R) stk) t' X tf ->
    run (pe_loop T pexpr (S lf) (c + f) StUnary stk) (print_expr e ++ rest) X tf.

Lemma sform n
  (IH : forall y, (esize y < n)%nat -> core_expr y = true -> forall k last, (k <= 10)%nat ->
        wpx k last y = true -> exists c, (c <= 40 * List.length (print_expr y))%nat /\ Bform k last y c) :
  forall e, (esize e <= n)%nat -> core_expr e = true -> wpx lv_postfix false e = true ->
  exists c m, (c + 30 <= 40 * List.length (print_expr e))%nat /\ (m <= List.length (print_expr e))%nat /\ Sform e c m.
Proof.
  induction e; intros Hsz Hcore Hwp; cbn [core_expr] in Hcore; try discriminate;
    try (cbn [wpx andb] in Hwp; discriminate);
    try (cbn [wpx] in Hwp; destruct e3; cbn in Hwp; discriminate);
    try (lazymatch goal with |- exists c m, _ /\ _ /\ Sform ?E c m =>
         exists 3%nat, 0%nat; split; [cbn [print_expr List.length]; lia|]; split; [lia|];
         intros pexpr lf f stk rest R t' X tf _ _ Hr H1 H2; cbn [print_expr app Nat.add];
         apply pl_unary_miss; [try destruct b; reflexivity|];
         eapply (pl_primary_atom pexpr lf _ E); [reflexivity|exact Hr|];
         rewrite Nat.sub_0_r in H1; eapply pl_parsed_suffix_gen; [exact H1|exact H2] end).
  - (* EParen *)
    cbn [wpx] in Hwp. cbn [esize] in Hsz.
    destruct (IH e ltac:(lia) Hcore 0%nat true ltac:(lia) Hwp) as (cx & Hbx & Hx).
    exists (S (S (cx + 3))), 0%nat. split; [len_tac|]. split; [lia|].
    intros pexpr lf f stk rest R t' X tf Hp Hlf Hr H1 H2.
    cbn [print_expr strip_spans app]. rewrite <- app_assoc. cbn [app Nat.add].
    apply pl_unary_miss; [reflexivity|].
    apply pl_primary_paren; [auto with rt|].
    change (init_state T) with (enter 0).
    fuel_as (cx + (3 + f))%nat.
    apply Hx; [eapply pexpr_ok_mono; [exact Hp|len_tac]| revert Hlf; len_tac |reflexivity|intros _; reflexivity|].
    change (exit_ 0 (strip_spans e)) with (StBinaryRhs (kind 0) (strip_spans e)). cbn [Nat.add].
    apply pl_rhs_none; [reflexivity|].
    apply pl_parsed_paren; [exact Hr|].
    rewrite Nat.sub_0_r in H1. eapply pl_parsed_suffix_gen; [exact H1|exact H2].
  - (* EField *)
    cbn [wpx] in Hwp. cbn [esize] in Hsz.
    destruct (IHe ltac:(lia) Hcore Hwp) as (c & m & Hbc & Hbm & HS).
    exists c, (S m). split; [len_tac|]. split; [len_tac|].
    intros pexpr lf f stk rest R t' X tf Hp Hlf Hr H1 H2.
    cbn [print_expr strip_spans]. rewrite <- app_assoc. cbn [app].
    assert (Hl : (List.length (print_expr e) + 2 <= lf)%nat) by (revert Hlf; len_tac).
    eapply HS; [eapply pexpr_ok_mono; [exact Hp|len_tac]|lia|discriminate| |exact H2].
    replace (S lf - m)%nat with (S (S lf - S m)) by lia. cbn [suffix_loop].
    eapply run_orelse_hit; [apply run_eat_hit; [reflexivity|discriminate]|].
    eapply run_bind; [unfold id_tok, tk; apply run_expect_ident_hit; exact Hr|].
    rewrite strip_span0. eapply run_bind; [apply run_mk_span0|]. exact H1.
  - (* EBinary *) cbn [wpx] in Hwp. destruct op; cbn in Hwp; discriminate.
Qed.

Theorem rt_main : forall n e, (esize e < n)%nat -> core_expr e = true ->
  forall k last, (k <= 10)%nat -> wpx k last e = true ->
  exists c, (c <= 40 * List.length (print_expr e))%nat /\ Bform k last e c.
Proof.
  induction n as [|n IH]; [intros; lia|].
  intros e Hsz Hcore k last Hk Hwp.
  pose proof (steps_fin_le k) as Hfin.
  destruct e; cbn [core_expr] in Hcore; try discriminate;
    try (exists ((10 - k) + 3 + steps_fin k)%nat; split;
         [cbn [print_expr List.length]; lia | apply wrap; [exact Hk|eapply U_atom; reflexivity]]).
  - (* EParen *)
    cbn [wpx] in Hwp. cbn [esize] in Hsz.
    destruct (IH e ltac:(lia) Hcore 0%nat true ltac:(lia) Hwp) as (cx & Hbx & Hx).
    exists ((10 - k) + (S (S (cx + 3))) + steps_fin k)%nat. split; [len_tac|].
    apply wrap; [exact Hk|].
    intros pexpr lf f stk fo r x tf Hp Hlf Hn _ _ H.
    cbn [print_expr strip_spans app]. rewrite <- app_assoc. cbn [app Nat.add].
    apply pl_unary_miss; [reflexivity|].
    apply pl_primary_paren; [auto with rt|].
    change (init_state T) with (enter 0).
    fuel_as (cx + (3 + f))%nat.
    apply Hx; [eapply pexpr_ok_mono; [exact Hp|len_tac]| revert Hlf; len_tac |reflexivity|intros _; reflexivity|].
    change (exit_ 0 (strip_spans e)) with (StBinaryRhs (kind 0) (strip_spans e)). cbn [Nat.add].
    apply pl_rhs_none; [reflexivity|].
    apply pl_parsed_paren; [discriminate|].
    apply pl_parsed_suffix_none; [exact Hn|exact H].
  - (* EField *)
    assert (Hw11 : wpx lv_postfix false (EField sp e name) = true) by (cbn [wpx] in Hwp |- *; exact Hwp).
    destruct (sform n IH (EField sp e name) ltac:(lia) Hcore Hw11) as (c & m & Hbc & Hbm & HS).
    exists ((10 - k) + c + steps_fin k)%nat. split; [lia|].
    apply wrap; [exact Hk|].
    intros pexpr lf f stk fo r x tf Hp Hlf Hn _ _ H.
    eapply HS; [exact Hp|exact Hlf|discriminate| |exact H].
    replace (S lf - m)%nat with (S (lf - m)) by lia. apply suffix_none; exact Hn.
  - (* EIf *)
    cbn [esize] in Hsz.
    assert (Hlast : last = true) by (cbn [wpx] in Hwp; destruct e3, last; cbn in Hwp; congruence).
    subst last.
    exists ((10 - k) + 3 + steps_fin k)%nat. split; [len_tac|].
    apply wrap; [exact Hk|].
    intros pexpr lf f stk fo r v tf Hp Hlf Hn Hs Hel H.
    specialize (Hs eq_refl).
    apply andb_true_iff in Hcore as [Hcore Hc3]. apply andb_true_iff in Hcore as [Hc1 Hc2].
    destruct e3 as [e3|]; cbn [wpx andb] in Hwp.
    + apply andb_true_iff in Hwp as [Hwp Hw3]. apply andb_true_iff in Hwp as [Hwp Hdg].
      apply andb_true_iff in Hwp as [Hw1 Hw2]. apply negb_true_iff in Hdg.
      cbn [print_expr strip_spans option_map app Nat.add]. rewrite <- !app_assoc. cbn [app].
      apply pl_unary_miss; [reflexivity|]. apply pl_primary_if; [auto with rt|].
      eapply run_bind; [apply Hp; [exact Hc1|exact Hw1|len_tac|reflexivity|intros _; reflexivity]|].
      eapply run_bind; [apply run_expect_hit; [reflexivity|auto with rt]|].
      rewrite <- app_assoc. cbn [app].
      eapply run_bind; [apply Hp; [exact Hc2|exact Hw2|len_tac|reflexivity|intros Hd; congruence]|].
      eapply run_bind; [apply run_eat_hit; [reflexivity|auto with rt]|].
      cbn [opt_expr].
      eapply run_bind; [eapply run_bind; [apply Hp; [exact Hc3|exact Hw3|len_tac|exact Hs|exact Hel]|apply run_ret]|].
      cbv beta iota; rewrite ?strip_span0. eapply run_bind; [apply run_mk_span0|].
      apply pl_parsed_suffix_none; [exact Hn|exact H].
    + apply andb_true_iff in Hwp as [Hw1 Hw2].
      cbn [print_expr strip_spans option_map app Nat.add]. rewrite <- !app_assoc. cbn [app].
      rewrite app_nil_r.
      apply pl_unary_miss; [reflexivity|]. apply pl_primary_if; [auto with rt|].
      eapply run_bind; [apply Hp; [exact Hc1|exact Hw1|len_tac|reflexivity|intros _; reflexivity]|].
      eapply run_bind; [apply run_expect_hit; [reflexivity|auto with rt]|].
      eapply run_bind; [apply Hp; [exact Hc2|exact Hw2|len_tac|exact Hs|intros _; apply Hel; reflexivity]|].
      eapply run_bind; [apply run_eat_miss; apply Hel; reflexivity|].
      cbn [opt_expr]. eapply run_bind; [apply run_ret|].
      cbv beta iota; rewrite ?strip_span0. eapply run_bind; [apply run_mk_span0|].
      apply pl_parsed_suffix_none; [exact Hn|exact H].
  - (* EBinary *)
    cbn [wpx] in Hwp. cbn [esize] in Hsz.
    apply andb_true_iff in Hcore as [Hc1 Hc2].
    apply andb_true_iff in Hwp as [Hwp Hw2]. apply andb_true_iff in Hwp as [Hkj Hw1].
    apply Nat.leb_le in Hkj. pose proof (level_le9 op) as Hj9.
    set (j := binop_level op) in *.
    destruct (IH e1 ltac:(lia) Hc1 j false ltac:(lia) Hw1) as (c1 & Hb1 & H1).
    destruct (IH e2 ltac:(lia) Hc2 (S j) last ltac:(lia) Hw2) as (c2 & Hb2 & H2).
    exists ((j - k) + (c1 + (1 + (c2 + ((if (S j <? 10)%nat then 2 else 1) + (2 * (j - k)))))))%nat.
    split; [destruct (S j <? 10)%nat; len_tac|].
    intros pexpr lf f stk fo r x tf Hp Hlf Hfc Hel H.
    pose proof (fcond_nosfx _ _ _ Hfc) as Hn. pose proof (fcond_noop _ _ _ Hfc) as Ho.
    cbn [print_expr strip_spans]. rewrite <- app_assoc. cbn [app].
    fuel_as ((j - k) + (c1 + (1 + (c2 + ((if (S j <? 10)%nat then 2 else 1) + (2 * (j - k) + f))))))%nat.
    assert (Ek : enter k = StBinary (kind k)).
    { unfold enter. replace (k <? 10)%nat with true by (symmetry; apply Nat.ltb_lt; lia). reflexivity. }
    apply descend; [lia|]. replace (k + (j - k))%nat with j by lia.
    apply H1; [eapply pexpr_ok_mono; [exact Hp|len_tac]| revert Hlf; len_tac
              |split; [apply optok_nosfx|apply optok_noop]
              |intros _; destruct op; reflexivity|].
    unfold exit_. replace (j <? 10)%nat with true by (symmetry; apply Nat.ltb_lt; lia).
    cbn [Nat.add].
    destruct (core_head e2 Hc2) as (ch & rh & Eh & Hh).
    apply pl_rhs_op; [auto with rt| rewrite Eh; exact Hh |].
    apply H2; [eapply pexpr_ok_mono; [exact Hp|len_tac]| revert Hlf; len_tac
              | destruct last; cbn in Hfc |- *; [exact Hfc|split; [tauto|apply (noop_above_mono k); [tauto|lia]]]
              | exact Hel |].
    assert (Hback : run (pe_loop T pexpr (S lf) (1 + (2 * (j - k) + f)) (StParsed (strip_spans e2))
                         (SiBinaryRhs (kind j) (strip_spans e1) op :: lhs_up k (j - k) ++ stk)) (fo :: r) x tf).
    { cbn [Nat.add]. apply pl_parsed_rhs; [apply strip_span0|apply strip_span0|].
      pose proof (ascend pexpr (S lf) (j - k) k f (EBinary sp0 (strip_spans e1) op (strip_spans e2)) stk fo r x tf
                    ltac:(lia) Ho) as Ha.
      replace (k + (j - k))%nat with j in Ha by lia. apply Ha.
      unfold exit_ in H. replace (k <? 10)%nat with true in H by (symmetry; apply Nat.ltb_lt; lia). exact H. }
    unfold exit_. destruct (S j <? 10)%nat eqn:Ej.
    + cbn [Nat.add]. apply pl_rhs_none; [apply (noop_above_at k); [exact Ho|apply Nat.ltb_lt in Ej; lia]|].
      exact Hback.
    + exact Hback.
  - (* EUnary *)
    cbn [wpx] in Hwp. cbn [esize] in Hsz.
    apply andb_true_iff in Hwp as [_ Hwx].
    destruct (IH e ltac:(lia) Hcore 10%nat last ltac:(lia) Hwx) as (cx & Hbx & Hx).
    exists ((10 - k) + (S (cx + 1)) + steps_fin k)%nat. split; [len_tac|].
    intros pexpr lf f stk fo r x tf Hp Hlf Hfc Hel H.
    pose proof (fcond_nosfx _ _ _ Hfc) as Hn. pose proof (fcond_noop _ _ _ Hfc) as Ho.
    fuel_as ((10 - k) + (S (cx + (1 + (steps_fin k + f)))))%nat.
    apply descend; [lia|]. replace (k + (10 - k))%nat with 10%nat by lia.
    change (enter 10) with StUnary.
    cbn [print_expr strip_spans app Nat.add].
    apply pl_unary_hit; [auto with rt|].
    change StUnary with (enter 10).
    apply Hx; [eapply pexpr_ok_mono; [exact Hp|len_tac]| revert Hlf; len_tac
              | destruct last; cbn in Hfc |- *; [exact Hfc|split; [tauto|reflexivity]] | exact Hel |].
    change (exit_ 10 (strip_spans e)) with (StParsed (strip_spans e)). cbn [Nat.add].
    apply pl_parsed_unary; [apply strip_span0|].
    apply finish; [exact Hk|exact Ho|exact H].
  - (* EAssert *)
    cbn [esize assert_size] in Hsz. destruct a as [asp ac am].
    assert (Hlast : last = true) by (cbn [wpx] in Hwp; destruct last; cbn in Hwp; congruence).
    subst last. cbn [wpx wp_assert andb] in Hwp.
    apply andb_true_iff in Hwp as [Hwa Hwb]. apply andb_true_iff in Hwa as [Hw1 Hwm].
    apply andb_true_iff in Hcore as [Hcore Hcb]. apply andb_true_iff in Hcore as [Hc1 Hcm].
    exists ((10 - k) + 3 + steps_fin k)%nat. split; [len_tac|].
    apply wrap; [exact Hk|].
    intros pexpr lf f stk fo r v tf Hp Hlf Hn Hs Hel H.
    specialize (Hs eq_refl).
    destruct am as [em|]; cbn [opt_all] in Hwm.
    + cbn [print_expr print_assert strip_spans strip_assert option_map app Nat.add].
      repeat (progress (rewrite <- ?app_assoc; cbn [app])).
      apply pl_unary_miss; [reflexivity|].
      eapply pl_primary_assert; [auto with rt| |].
      * eapply run_bind; [apply Hp; [exact Hc1|exact Hw1|len_tac|reflexivity|intros _; reflexivity]|].
        eapply run_bind; [apply run_eat_hit; [reflexivity|auto with rt]|].
        cbn [opt_expr].
        eapply run_bind; [eapply run_bind; [apply Hp; [exact Hcm|exact Hwm|len_tac|reflexivity|intros _; reflexivity]|apply run_ret]|].
        cbv beta iota; rewrite ?strip_span0. eapply run_bind; [apply run_mk_span0|apply run_ret].
      * eapply run_bind; [apply run_expect_hit; [reflexivity|auto with rt]|].
        eapply run_bind; [apply Hp; [exact Hcb|exact Hwb|len_tac|exact Hs|exact Hel]|].
        cbv beta iota; rewrite ?strip_span0. eapply run_bind; [apply run_mk_span0|].
        apply pl_parsed_suffix_none; [exact Hn|exact H].
    + cbn [print_expr print_assert strip_spans strip_assert option_map app Nat.add].
      rewrite app_nil_r. repeat (progress (rewrite <- ?app_assoc; cbn [app])).
      apply pl_unary_miss; [reflexivity|].
      eapply pl_primary_assert; [auto with rt| |].
      * eapply run_bind; [apply Hp; [exact Hc1|exact Hw1|len_tac|reflexivity|intros _; reflexivity]|].
        eapply run_bind; [apply run_eat_miss; reflexivity|].
        cbn [opt_expr]. eapply run_bind; [apply run_ret|].
        cbv beta iota; rewrite ?strip_span0. eapply run_bind; [apply run_mk_span0|apply run_ret].
      * eapply run_bind; [apply run_expect_hit; [reflexivity|auto with rt]|].
        eapply run_bind; [apply Hp; [exact Hcb|exact Hwb|len_tac|exact Hs|exact Hel]|].
        cbv beta iota; rewrite ?strip_span0. eapply run_bind; [apply run_mk_span0|].
        apply pl_parsed_suffix_none; [exact Hn|exact H].
  - (* EImport *)
    cbn [wpx] in Hwp. apply andb_true_iff in Hwp as [-> Hwx].
    exists ((10 - k) + 3 + steps_fin k)%nat. split; [len_tac|].
    apply wrap; [exact Hk|].
    apply (U_prefix _ e KImport EImport); try reflexivity; try assumption.
    intros; apply pl_primary_import; assumption.
  - (* EImportStr *)
    cbn [wpx] in Hwp. apply andb_true_iff in Hwp as [-> Hwx].
    exists ((10 - k) + 3 + steps_fin k)%nat. split; [len_tac|].
    apply wrap; [exact Hk|].
    apply (U_prefix _ e KImportstr EImportStr); try reflexivity; try assumption.
    intros; apply pl_primary_importstr; assumption.
  - (* EImportBin *)
    cbn [wpx] in Hwp. apply andb_true_iff in Hwp as [-> Hwx].
    exists ((10 - k) + 3 + steps_fin k)%nat. split; [len_tac|].
    apply wrap; [exact Hk|].
    apply (U_prefix _ e KImportbin EImportBin); try reflexivity; try assumption.
    intros; apply pl_primary_importbin; assumption.
  - (* EError *)
    cbn [wpx] in Hwp. apply andb_true_iff in Hwp as [-> Hwx].
    exists ((10 - k) + 3 + steps_fin k)%nat. split; [len_tac|].
    apply wrap; [exact Hk|].
    apply (U_prefix _ e KError EError); try reflexivity; try assumption.
    intros; apply pl_primary_error; assumption.
  - (* EInSuper *)
    cbn [wpx] in Hwp. cbn [esize] in Hsz.
    apply andb_true_iff in Hwp as [Hk6 Hwx]. apply Nat.leb_le in Hk6. unfold lv_ordcmp in *.
    destruct (IH e ltac:(lia) Hcore 6%nat false ltac:(lia) Hwx) as (cx & Hbx & Hx).
    exists ((6 - k) + (cx + (1 + (2 * (6 - k)))))%nat. split; [len_tac|].
    intros pexpr lf f stk fo r x tf Hp Hlf Hfc Hel H.
    pose proof (fcond_nosfx _ _ _ Hfc) as Hn. pose proof (fcond_noop _ _ _ Hfc) as Ho.
    cbn [print_expr strip_spans]. rewrite <- app_assoc. cbn [app].
    fuel_as ((6 - k) + (cx + (1 + (2 * (6 - k) + f))))%nat.
    apply descend; [lia|]. replace (k + (6 - k))%nat with 6%nat by lia.
    apply Hx; [eapply pexpr_ok_mono; [exact Hp|len_tac]| revert Hlf; len_tac
              |split; reflexivity|intros _; reflexivity|].
    change (exit_ 6 (strip_spans e)) with (StBinaryRhs (kind 6) (strip_spans e)). cbn [Nat.add].
    apply pl_rhs_insuper; [apply strip_span0|exact Hn|].
    pose proof (ascend pexpr (S lf) (6 - k) k f (EInSuper sp0 (strip_spans e) sp0) stk fo r x tf
                  ltac:(lia) Ho) as Ha.
    replace (k + (6 - k))%nat with 6%nat in Ha by lia. apply Ha.
    unfold exit_ in H. replace (k <? 10)%nat with true in H by (symmetry; apply Nat.ltb_lt; lia). exact H.
Qed.

(* ---------------------------------------------------------------- top level *)
Lemma run_parse_expr f0 t (a : expr) t' :
  run (pe_loop T (parse_expr T f0) f0 f0 (init_state T) []) t a t' -> run (parse_expr T (S f0)) t a t'.
Proof. intros H. exact (run_call _ _ _ _ H). Qed.

Lemma run_parse_root fuel c0 r0 (e : expr) :
  run (parse_expr T fuel) (c0 :: r0) e [eof_tok] ->
  omap fst (parse_fuel T fuel (c0 :: r0)) = Ok e.
Proof.
  intros H. unfold parse_fuel, parse_root_expr.
  destruct (H (init_pst c0 r0) eq_refl) as (s' & E & Ts).
  unfold bindP. rewrite E. destruct s' as [c r ex dc dm]. unfold toks_of in Ts; cbn in Ts.
  injection Ts as -> ->. reflexivity.
Qed.

(* self.parse_expr() with enough fuel parses every covered sub-expression *)
Theorem parse_expr_ok : forall L y fuel fo r, (List.length (print_expr y) < L)%nat ->
  core_expr y = true -> wp y = true -> (41 * List.length (print_expr y) + 3 <= fuel)%nat ->
  stopper fo = true -> else_ok y fo ->
  run (parse_expr T fuel) (print_expr y ++ fo :: r) (strip_spans y) (fo :: r).
Proof.
  induction L as [|L IH]; [intros; lia|].
  intros y fuel fo r HL Hc Hw Hf Hs He. unfold wp in Hw.
  destruct (rt_main (S (esize y)) y ltac:(lia) Hc 0%nat true ltac:(lia) Hw) as (c & Hb & HB).
  destruct fuel as [|f0]; [lia|].
  apply run_parse_expr.
  assert (Hlf : exists lf, f0 = S lf /\ (List.length (print_expr y) <= lf)%nat).
  { exists (f0 - 1)%nat. split; lia. }
  destruct Hlf as (lf & Elf & Hlf). rewrite Elf at 2.
  assert (Hg : exists g, f0 = (c + S (S g))%nat) by (exists (f0 - c - 2)%nat; lia).
  destruct Hg as (g & Eg). rewrite Eg at 2.
  change (init_state T) with (enter 0).
  apply HB; [|exact Hlf|exact Hs|exact He|].
  - intros z fo' r' Hcz Hwz Hlz Hsz Hez. apply (IH z f0 fo' r'); [lia|exact Hcz|exact Hwz|lia|exact Hsz|exact Hez].
  - change (exit_ 0 (strip_spans y)) with (StBinaryRhs (kind 0) (strip_spans y)).
    apply pl_rhs_none; [apply stopper_op0; exact Hs|]. apply pl_parsed_done.
Qed.

Theorem roundtrip_core : forall e, core_expr e = true -> wp e = true ->
  omap fst (parse T (print_tokens e)) = Ok (strip_spans e).
Proof.
  intros e Hc Hw.
  unfold parse, print_tokens, default_fuel.
  destruct (core_head e Hc) as (c0 & r0 & Ep & _).
  assert (Et : print_expr e ++ [eof_tok] = c0 :: (r0 ++ [eof_tok])) by (rewrite Ep; reflexivity).
  rewrite Et. apply run_parse_root. rewrite <- Et.
  apply (parse_expr_ok (S (List.length (print_expr e)))); [lia|exact Hc|exact Hw| |reflexivity|intros _; reflexivity].
  rewrite app_length. cbn [List.length]. lia.
Qed.
