(* Proofs/Parser_rt3.v — round trip: main induction *)
From RJ Require Import Base.Outcome Model.Token Model.Ast Model.Parser Model.Print
  Proofs.Parser_rt Proofs.Parser_rt2.
From Coq Require Import Lia.
Local Open Scope list_scope.
Local Open Scope N_scope.

Notation T := spec_prec.

(* ---- facts about operator tokens, by enumeration *)
Lemma ops_split op : exists l1 l2,
  pt_ops T (kind (binop_level op)) = l1 ++ (binop_tok op, op) :: l2 /\ all_miss l1 (sim (binop_tok op)) = true.
Proof.
  destruct op; cbn [binop_level kind pt_ops spec_prec binop_tok];
  first [ exists (@nil (stoken * binary_op)); eexists; split; reflexivity
        | eexists [_]; eexists; split; reflexivity
        | eexists [_; _]; eexists; split; reflexivity
        | eexists [_; _; _]; eexists; split; reflexivity
        | eexists [_; _; _; _]; eexists; split; reflexivity ].
Qed.
Lemma optok_nosfx op : nosfx (sim (binop_tok op)) = true.
Proof. destruct op; reflexivity. Qed.
Lemma optok_noop op : noop_above (binop_level op) (sim (binop_tok op)) = true.
Proof. destruct op; reflexivity. Qed.
Lemma level_le9 op : (binop_level op <= 9)%nat.
Proof. destruct op; cbn; lia. Qed.

Definition in_ok_b (t : list token) : bool :=
  match t with
  | c :: rest => negb (is_simple KSuper c) ||
                 match rest with c2 :: _ => is_simple SDot c2 || is_simple SLeftBracket c2 | [] => false end
  | [] => true
  end.

Lemma peek_in s :
  (peek_simple KSuper 0 s && negb (peek_simple SDot 1 s) && negb (peek_simple SLeftBracket 1 s))%bool
  = negb (in_ok_b (toks_of s)).
Proof.
  destruct s as [c r ex dc dm]. unfold peek_simple, peek_tok, toks_of, in_ok_b. cbn [cur rest nth_error].
  destruct (is_simple KSuper c); destruct r as [|c2 r]; cbn; try reflexivity.
  destruct (is_simple SDot c2), (is_simple SLeftBracket c2); reflexivity.
Qed.

Section Steps.
  Variable pexpr : P expr.
  Variable lf : nat.
  Notation PL := (pe_loop spec_prec pexpr (S lf)).

  Lemma pl_rhs_op f op lhs stk t (a : expr) t' : t <> [] -> in_ok_b t = true ->
    run (PL f (enter (S (binop_level op))) (SiBinaryRhs (kind (binop_level op)) lhs op :: stk)) t a t' ->
    run (PL (S f) (StBinaryRhs (kind (binop_level op)) lhs) stk) (sim (binop_tok op) :: t) a t'.
  Proof.
    intros Ht Hs H. cbn [pe_loop].
    destruct (ops_split op) as (l1 & l2 & -> & Hm).
    eapply run_bind; [apply run_eat_first_hit; [exact Hm|destruct op; reflexivity|exact Ht]|].
    cbv beta iota. rewrite next_state_enter by apply level_le9.
    destruct (stoken_eqb (binop_tok op) KIn) eqn:Ein; [|exact H].
    apply run_if_false; [|exact H].
    intros s Es. rewrite peek_in, Es, Hs. reflexivity.
  Qed.

  Lemma pl_rhs_insuper f lhs stk c t (a : expr) t' : expr_span lhs = sp0 -> nosfx c = true ->
    run (PL f (StBinaryRhs (kind 6) (EInSuper sp0 lhs sp0)) stk) (c :: t) a t' ->
    run (PL (S f) (StBinaryRhs (kind 6) lhs) stk) (sim KIn :: sim KSuper :: c :: t) a t'.
  Proof.
    intros Hl Hn H. cbn [pe_loop].
    eapply run_bind.
    { apply (run_eat_first_hit [(SLt, BLt); (SLtEq, BLe); (SGt, BGt); (SGtEq, BGe)] KIn BIn []);
        [reflexivity|reflexivity|discriminate]. }
    cbv beta iota. change (stoken_eqb KIn KIn) with true. cbv iota.
    destruct (nosfx_inv c Hn) as (H1 & H2 & _).
    apply run_if_true.
    { intros s Es. unfold toks_of in Es. injection Es as Ec Er.
      unfold peek_simple, peek_tok. rewrite Ec, Er. cbn [nth_error]. rewrite H1, H2. reflexivity. }
    eapply run_orelse_hit; [apply run_eat_hit; [reflexivity|discriminate]|].
    rewrite Hl. eapply run_bind; [apply run_mk_span0|]. exact H.
  Qed.
  Lemma pl_parsed_suffix_gen f e stk t R t1 (a : expr) t' :
    run (suffix_loop pexpr (S lf) (S lf) e) t R t1 -> run (PL f (StParsed R) stk) t1 a t' ->
    run (PL (S f) (StParsed e) (SiSuffix :: stk)) t a t'.
  Proof.
    intros H1 H2. cbn [pe_loop].
    eapply run_bind; [unfold parse_suffix_expr; apply run_call; exact H1|exact H2].
  Qed.
  (* ---- arrays *)
  Lemma run_for_spec_miss c t : is_simple KFor c = false ->
    run (maybe_parse_for_spec pexpr) (c :: t) None (c :: t).
  Proof.
    intros H. unfold maybe_parse_for_spec. apply run_call.
    eapply run_orelse_miss; [apply run_eat_miss; exact H|apply run_ret].
  Qed.

  Lemma run_comp_spec_miss c t : is_simple KFor c = false ->
    run (maybe_parse_comp_spec pexpr (S lf)) (c :: t) None (c :: t).
  Proof.
    intros H. unfold maybe_parse_comp_spec. apply run_call.
    eapply run_orelse_miss; [apply run_for_spec_miss; exact H|apply run_ret].
  Qed.

  Lemma pl_primary_bracket f stk t (a : expr) t' : t <> [] ->
    run (IFLET en <== eat_simple SRightBracket true
         THEN (sp <- mk_span sp0 en ;; PL f (StParsed (EArray sp [])) stk)
         ELSE PL f (init_state T) (SiArrayItem0 sp0 :: stk)) t a t' ->
    run (PL (S f) StPrimary stk) (sim SLeftBracket :: t) a t'.
  Proof.
    intros Ht H. cbn [pe_loop]. do 2 (eapply run_orelse_miss; [run_compute|]).
    eapply run_orelse_hit; [apply run_eat_hit; [reflexivity|exact Ht]|]. exact H.
  Qed.

  Lemma pl_item0_single f e stk t (a : expr) t' : t <> [] ->
    run (PL f (StParsed (EArray sp0 [e])) stk) t a t' ->
    run (PL (S f) (StParsed e) (SiArrayItem0 sp0 :: stk)) (sim SRightBracket :: t) a t'.
  Proof.
    intros Ht H. cbn [pe_loop].
    eapply run_bind; [apply run_eat_miss; reflexivity|].
    eapply run_orelse_miss; [apply run_comp_spec_miss; reflexivity|].
    eapply run_orelse_hit; [apply run_eat_hit; [reflexivity|exact Ht]|].
    eapply run_bind; [apply run_mk_span0|]. exact H.
  Qed.

  Lemma pl_item0_more f e stk c t (a : expr) t' : starter c = true ->
    run (PL f (init_state T) (SiArrayItemN sp0 [e] :: stk)) (c :: t) a t' ->
    run (PL (S f) (StParsed e) (SiArrayItem0 sp0 :: stk)) (sim SComma :: c :: t) a t'.
  Proof.
    intros Hc H. cbn [pe_loop].
    eapply run_bind; [apply run_eat_hit; [reflexivity|discriminate]|].
    eapply run_orelse_miss; [apply run_comp_spec_miss; apply starter_not; [exact Hc|reflexivity]|].
    eapply run_orelse_miss; [apply run_eat_miss; apply starter_not; [exact Hc|reflexivity]|].
    exact H.
  Qed.

  Lemma pl_itemN_last f e items stk t (a : expr) t' : t <> [] ->
    run (PL f (StParsed (EArray sp0 (items ++ [e]))) stk) t a t' ->
    run (PL (S f) (StParsed e) (SiArrayItemN sp0 items :: stk)) (sim SRightBracket :: t) a t'.
  Proof.
    intros Ht H. cbn [pe_loop]. cbv zeta.
    eapply run_bind; [apply run_eat_miss; reflexivity|].
    eapply run_orelse_hit; [apply run_eat_hit; [reflexivity|exact Ht]|].
    eapply run_bind; [apply run_mk_span0|]. exact H.
  Qed.

  Lemma pl_itemN_more f e items stk c t (a : expr) t' : starter c = true ->
    run (PL f (init_state T) (SiArrayItemN sp0 (items ++ [e]) :: stk)) (c :: t) a t' ->
    run (PL (S f) (StParsed e) (SiArrayItemN sp0 items :: stk)) (sim SComma :: c :: t) a t'.
  Proof.
    intros Hc H. cbn [pe_loop]. cbv zeta.
    eapply run_bind; [apply run_eat_hit; [reflexivity|discriminate]|].
    eapply run_orelse_miss; [apply run_eat_miss; apply starter_not; [exact Hc|reflexivity]|].
    exact H.
  Qed.
  Lemma pl_item0_more' f e stk l c r t (a : expr) t' : l = c :: r -> starter c = true ->
    run (PL f (init_state T) (SiArrayItemN sp0 [e] :: stk)) (l ++ t) a t' ->
    run (PL (S f) (StParsed e) (SiArrayItem0 sp0 :: stk)) (sim SComma :: l ++ t) a t'.
  Proof. intros -> Hc H. cbn [app] in *. apply pl_item0_more; assumption. Qed.
  Lemma pl_itemN_more' f e items stk l c r t (a : expr) t' : l = c :: r -> starter c = true ->
    run (PL f (init_state T) (SiArrayItemN sp0 (items ++ [e]) :: stk)) (l ++ t) a t' ->
    run (PL (S f) (StParsed e) (SiArrayItemN sp0 items :: stk)) (sim SComma :: l ++ t) a t'.
  Proof. intros -> Hc H. cbn [app] in *. apply pl_itemN_more; assumption. Qed.
End Steps.

(* ---------------------------------------------------------------- the covered constructors *)
Fixpoint core_expr (e : expr) : bool :=
  match e with
  | ENull _ | EBool _ _ | ESelf _ | EDollar _ | EString _ _ | ETextBlock _ _ | ENumber _ _ | EIdent _ _ => true
  | EParen _ x => core_expr x
  | ESuperField _ _ _ => true
  | ESuperIndex _ _ i => core_expr i
  | EUnary _ _ x => core_expr x
  | EBinary _ l _ r => core_expr l && core_expr r
  | EInSuper _ x _ => core_expr x
  | EArray _ items => forallb core_expr items
  | EArrayComp _ x specs =>
      core_expr x && specs_ok specs && forallb (fun c => match c with CFor _ y | CIf y => core_expr y end) specs
  | EField _ x _ => core_expr x
  | EIndex _ x i => core_expr x && core_expr i
  | ESlice _ x a b c =>
      core_expr x && match a with Some y => core_expr y | None => true end &&
      match b with Some y => core_expr y | None => true end &&
      match c with Some y => core_expr y | None => true end
  | ECall _ f args _ =>
      core_expr f && forallb (fun a => match a with APositional y | ANamed _ y => core_expr y end) args
  | EError _ x | EImport _ x | EImportStr _ x | EImportBin _ x => core_expr x
  | ELocal _ binds body =>
      negb (match binds with [] => true | _ => false end) &&
      forallb (fun b => match b with
                        | MkBind _ ps v =>
                            match ps with
                            | Some (l, _) => forallb (fun p => match p with MkParam _ d =>
                                               match d with Some y => core_expr y | None => true end end) l
                            | None => true
                            end && core_expr v
                        end) binds && core_expr body
  | EFunc _ params body =>
      forallb (fun p => match p with MkParam _ d => match d with Some y => core_expr y | None => true end end) params &&
      core_expr body
  | EIf _ c t o => core_expr c && core_expr t && match o with Some x => core_expr x | None => true end
  | EAssert _ (MkAssert _ c m) body =>
      core_expr c && match m with Some x => core_expr x | None => true end && core_expr body
  | EObject _ o => core_obj o
  | EObjExt _ x o _ => core_expr x && core_obj o
  end

with core_obj (o : obj_inside) : bool :=
  match o with
  | OMembers ms => forallb core_member ms
  | OComp l1 name _ body l2 specs =>
      forallb core_bind l1 && core_expr name && core_expr body && forallb core_bind l2 &&
      specs_ok specs && forallb (fun c => match c with CFor _ y | CIf y => core_expr y end) specs
  end

with core_member (m : member) : bool :=
  match m with
  | MLocal b => core_bind b
  | MAssert (MkAssert _ c m') => core_expr c && match m' with Some x => core_expr x | None => true end
  | MField f => core_field f
  end

with core_field (f : field) : bool :=
  match f with
  | FValue n _ _ v => core_fname n && core_expr v
  | FFunc n ps _ _ v =>
      core_fname n &&
      forallb (fun p => match p with MkParam _ d => match d with Some y => core_expr y | None => true end end) ps &&
      core_expr v
  end

with core_fname (n : field_name) : bool :=
  match n with
  | FnIdent _ | FnString _ _ => true
  | FnExpr e _ => core_expr e
  end

with core_bind (b : bind) : bool :=
  match b with
  | MkBind _ ps v =>
      match ps with
      | Some (l, _) => forallb (fun p => match p with MkParam _ d =>
                         match d with Some y => core_expr y | None => true end end) l
      | None => true
      end && core_expr v
  end.

(* the first printed token of a covered tree starts an expression *)
Ltac split_and H :=
  repeat match type of H with
         | (_ && _)%bool = true => let H2 := fresh "Hc" in apply andb_true_iff in H as [H H2]
         end.

Lemma core_head e : core_expr e = true ->
  exists c r, print_expr e = c :: r /\ (True /\ starter c = true).
Proof.
  induction e; cbn [core_expr]; intros H; try discriminate;
    try (eexists; eexists; split; [reflexivity|split; [exact I|reflexivity]]);
    try (destruct b; (eexists; eexists; split; [reflexivity|split; [exact I|reflexivity]]));
    try (destruct op; (eexists; eexists; split; [reflexivity|split; [exact I|reflexivity]]));
    try (destruct a; (eexists; eexists; split; [reflexivity|split; [exact I|reflexivity]]));
    split_and H; cbn [print_expr];
    match goal with
    | |- exists c r, print_expr ?x ++ _ = _ /\ _ =>
        match goal with
        | IH : core_expr x = true -> _ |- _ =>
            let c := fresh "c" in let r := fresh "r" in let E := fresh "E" in let Hc := fresh "Hh" in
            destruct (IH H) as (c & r & E & Hc); rewrite E; eexists; eexists; split; [reflexivity|exact Hc]
        end
    end.
Qed.

(* parse_arg's look-ahead `ident =` never fires on a printed expression *)
Definition named_test (l : list token) : bool :=
  match l with
  | c1 :: c2 :: _ => negb (not_ident c1) && is_simple SEq c2
  | _ => false
  end.

Lemma named_test_app_single c fo rest : is_simple SEq fo = false -> named_test ([c] ++ fo :: rest) = false.
Proof. intros H. cbn. rewrite H. apply andb_false_r. Qed.

Lemma named_test_head c r : not_ident c = true -> named_test (c :: r) = false.
Proof. intros H. destruct r; cbn; [reflexivity|]. rewrite H. reflexivity. Qed.

Lemma not_named e : core_expr e = true -> forall fo rest, is_simple SEq fo = false ->
  named_test (print_expr e ++ fo :: rest) = false.
Proof.
  induction e; cbn [core_expr]; intros H fo rest Hfo; try discriminate;
    try (cbn [print_expr print_assert app];
         first [apply named_test_app_single; exact Hfo | apply named_test_head; reflexivity]);
    try (destruct b; cbn [print_expr print_assert app]; apply named_test_head; reflexivity);
    try (destruct op; cbn [print_expr print_assert app]; apply named_test_head; reflexivity);
    try (destruct a; cbn [print_expr print_assert app]; apply named_test_head; reflexivity);
    split_and H; cbn [print_expr];
    match goal with
    | |- named_test ((print_expr ?x ++ ?t :: ?more) ++ _) = false =>
        match goal with
        | IH : core_expr x = true -> _ |- _ =>
            rewrite <- app_assoc; cbn [app]; apply (IH H); try destruct op; reflexivity
        end
    | |- named_test ((print_expr ?x ++ ?l) ++ _) = false =>
        match goal with
        | IH : core_expr x = true -> _ |- _ =>
            rewrite <- app_assoc; cbn [app]; apply (IH H); reflexivity
        end
    end.
Qed.


(* a printed expression after `in` is never the bare keyword `super` *)
Lemma in_ok_single c t : is_simple KSuper c = false -> in_ok_b (c :: t) = true.
Proof. intros H. cbn. rewrite H. reflexivity. Qed.

Lemma core_in_ok e : core_expr e = true -> forall t, in_ok_b (print_expr e ++ t) = true.
Proof.
  induction e; cbn [core_expr]; intros H t; try discriminate;
    try (cbn [print_expr print_assert app]; apply in_ok_single; reflexivity);
    try (cbn [print_expr print_assert app]; reflexivity);
    try (destruct b; cbn [print_expr print_assert app]; apply in_ok_single; reflexivity);
    try (destruct op; cbn [print_expr print_assert app]; apply in_ok_single; reflexivity);
    try (destruct a; cbn [print_expr print_assert app]; apply in_ok_single; reflexivity);
    split_and H; cbn [print_expr];
    match goal with
    | |- in_ok_b ((print_expr ?x ++ _) ++ _) = true =>
        match goal with
        | IH : core_expr x = true -> _ |- _ => rewrite <- app_assoc; apply (IH H)
        end
    end.
Qed.

(* follow-token conditions *)
Definition stopper (c : token) : bool := nosfx c && forallb (fun l => opmiss l c) (seq 0 10).
Definition fcond (k : nat) (last : bool) (fo : token) : Prop :=
  if last then stopper fo = true else nosfx fo = true /\ noop_above k fo = true.
Definition else_ok (e : expr) (fo : token) : Prop := dangling e = true -> is_simple KElse fo = false.

Lemma stopper_nosfx c : stopper c = true -> nosfx c = true.
Proof. unfold stopper. intros H. apply andb_true_iff in H as [H _]. exact H. Qed.
Lemma stopper_noop c k : stopper c = true -> noop_above k c = true.
Proof.
  unfold stopper, noop_above. intros H. apply andb_true_iff in H as [_ H].
  rewrite forallb_forall in *. intros l Hl. apply H. apply in_seq in Hl. apply in_seq. lia.
Qed.
Lemma stopper_op0 c : stopper c = true -> opmiss 0 c = true.
Proof.
  unfold stopper. intros H. apply andb_true_iff in H as [_ H]. rewrite forallb_forall in H.
  apply H. apply in_seq. lia.
Qed.
Lemma fcond_nosfx k last fo : fcond k last fo -> nosfx fo = true.
Proof. destruct last; cbn; [apply stopper_nosfx|tauto]. Qed.
Lemma fcond_noop k last fo : fcond k last fo -> noop_above k fo = true.
Proof. destruct last; cbn; [apply stopper_noop|tauto]. Qed.

(* what a recursive call self.parse_expr() must deliver for the sub-expressions it is used on *)
Definition pexpr_ok (pexpr : P expr) (L : nat) : Prop :=
  forall y fo r, core_expr y = true -> wp y = true -> (List.length (print_expr y) < L)%nat ->
    stopper fo = true -> else_ok y fo ->
    run pexpr (print_expr y ++ fo :: r) (strip_spans y) (fo :: r).

Lemma pexpr_ok_mono pexpr L L' : pexpr_ok pexpr L -> (L' <= L)%nat -> pexpr_ok pexpr L'.
Proof. intros H HL y fo r Hc Hw Hl. apply H; [exact Hc|exact Hw|lia]. Qed.

Definition Bform (k : nat) (last : bool) (e : expr) (c : nat) : Prop :=
  forall pexpr lf f stk fo r x tf,
    pexpr_ok pexpr (List.length (print_expr e)) -> (List.length (print_expr e) <= lf)%nat ->
    fcond k last fo -> else_ok e fo ->
    run (pe_loop T pexpr (S lf) f (exit_ k (strip_spans e)) stk) (fo :: r) x tf ->
    run (pe_loop T pexpr (S lf) (c + f) (enter k) stk) (print_expr e ++ fo :: r) x tf.

Definition Uform (last : bool) (e : expr) (c : nat) : Prop :=
  forall pexpr lf f stk fo r x tf,
    pexpr_ok pexpr (List.length (print_expr e)) -> (List.length (print_expr e) <= lf)%nat ->
    nosfx fo = true -> (last = true -> stopper fo = true) ->
    else_ok e fo ->
    run (pe_loop T pexpr (S lf) f (StParsed (strip_spans e)) stk) (fo :: r) x tf ->
    run (pe_loop T pexpr (S lf) (c + f) StUnary stk) (print_expr e ++ fo :: r) x tf.

Ltac fuel_as X :=
  match goal with |- run (pe_loop _ _ _ ?F _ _) _ _ _ => replace F with X by lia end.

Lemma wrap k last e c : (k <= 10)%nat -> Uform last e c -> Bform k last e ((10 - k) + c + steps_fin k).
Proof.
  intros Hk HU pexpr lf f stk fo r x tf Hp Hlf Hfc Hel H.
  fuel_as ((10 - k) + (c + (steps_fin k + f)))%nat.
  apply descend; [lia|]. replace (k + (10 - k))%nat with 10%nat by lia.
  change (enter 10) with StUnary.
  apply HU; [exact Hp|exact Hlf|apply (fcond_nosfx k last); exact Hfc|intros ->; exact Hfc|exact Hel|].
  apply finish; [exact Hk|apply (fcond_noop k last); exact Hfc|exact H].
Qed.

Lemma atom_unary_miss e c : atom_tok e = Some c -> all_miss (pt_unary T) c = true.
Proof. destruct e; cbn; intros H; try discriminate; injection H as <-; try destruct b; reflexivity. Qed.

Lemma U_atom last e c : atom_tok e = Some c -> Uform last e 3.
Proof.
  intros Ha pexpr lf f stk fo r x tf _ _ Hn _ _ H. rewrite (atom_print e c Ha). cbn [app Nat.add].
  apply pl_unary_miss; [apply (atom_unary_miss e); exact Ha|].
  apply (pl_primary_atom pexpr lf _ e); [exact Ha|discriminate|].
  apply pl_parsed_suffix_none; [exact Hn|exact H].
Qed.

Lemma U_prefix e x kw (mk : span -> expr -> expr) :
  print_expr e = sim kw :: print_expr x -> strip_spans e = mk sp0 (strip_spans x) ->
  dangling e = dangling x -> all_miss (pt_unary T) (sim kw) = true ->
  (forall pexpr lf f stk t (a : expr) t', t <> [] ->
     run (y <- prefix_form pexpr sp0 mk ;; pe_loop T pexpr (S lf) f (StParsed y) stk) t a t' ->
     run (pe_loop T pexpr (S lf) (S f) StPrimary stk) (sim kw :: t) a t') ->
  core_expr x = true -> wpx 0 true x = true -> Uform true e 3.
Proof.
  intros Hpr Hst Hdg Hum Hpl Hc Hw pexpr lf f stk fo r v tf Hp Hlf Hn Hs Hel H.
  rewrite Hpr. rewrite Hpr in Hp. cbn [app Nat.add List.length] in *.
  apply pl_unary_miss; [exact Hum|]. apply Hpl; [auto with rt|].
  eapply run_bind.
  - unfold prefix_form. eapply run_bind.
    + apply Hp; [exact Hc|exact Hw|lia|apply Hs; reflexivity|intros Hd; apply Hel; rewrite Hdg; exact Hd].
    + rewrite strip_span0. eapply run_bind; [apply run_mk_span0|apply run_ret].
  - rewrite Hst in H. apply pl_parsed_suffix_none; [exact Hn|exact H].
Qed.

Lemma steps_fin_le k : (steps_fin k <= 19)%nat.
Proof. unfold steps_fin. destruct (10 - k)%nat eqn:E; lia. Qed.

Ltac len_tac := cbn [print_expr print_assert opt_tokens sep_by flat_map comma]; repeat (progress (repeat rewrite app_length; cbn [List.length])); lia.

(* ---------------------------------------------------------------- index, slice, call *)
Lemma peek_named s : (peek_ident 0 s && peek_simple SEq 1 s)%bool = named_test (toks_of s).
Proof.
  destruct s as [c r ex dc dm]. unfold peek_ident, peek_simple, peek_tok, toks_of, named_test, not_ident.
  cbn [cur rest nth_error]. destruct r as [|c2 r]; destruct (tok_kind c); cbn; reflexivity.
Qed.

Lemma app_r_not_nil {A} (l1 l2 : list A) : l2 <> [] -> l1 ++ l2 <> [].
Proof. destruct l1; [auto|discriminate]. Qed.
#[export] Hint Resolve app_r_not_nil : rt.

Lemma run_eat_miss_app k add l t c r : l = c :: r -> is_simple k c = false ->
  run (eat_simple k add) (l ++ t) None (l ++ t).
Proof. intros -> H. apply run_eat_miss; exact H. Qed.

Ltac norm_app := repeat (progress (rewrite <- ?app_assoc; cbn [app])).

Lemma flat_len {A} (f : A -> list token) (l : list A) :
  (List.length l <= List.length (flat_map (fun y => comma ++ f y) l))%nat.
Proof. induction l as [|x l IH]; cbn [flat_map List.length]; [lia|]. rewrite !app_length. cbn [comma List.length]. lia. Qed.

Lemma run_eat_string_miss_sim add k t : run (eat_string add) (sim k :: t) None (sim k :: t).
Proof.
  intros s Es. destruct s as [c0 r0 ex dc dm]. unfold toks_of in Es. cbn in Es. injection Es as -> ->.
  destruct add; eexists; split; reflexivity.
Qed.
Lemma run_eat_text_block_miss_sim add k t : run (eat_text_block add) (sim k :: t) None (sim k :: t).
Proof.
  intros s Es. destruct s as [c0 r0 ex dc dm]. unfold toks_of in Es. cbn in Es. injection Es as -> ->.
  destruct add; eexists; split; reflexivity.
Qed.

Section Suffix.
  Variable pexpr : P expr.
  Variable L : nat.
  Hypothesis Hp : pexpr_ok pexpr L.

  Lemma run_pexpr y fo r : core_expr y = true -> wpx 0 true y = true -> (List.length (print_expr y) < L)%nat ->
    stopper fo = true -> is_simple KElse fo = false ->
    run pexpr (print_expr y ++ fo :: r) (strip_spans y) (fo :: r).
  Proof. intros Hc Hw Hl Hs He. apply Hp; [exact Hc|exact Hw|exact Hl|exact Hs|intros _; exact He]. Qed.

  (* the head of a printed expression is missed by eat_simple of a non-starter *)
  Lemma run_miss_head k add y t : core_expr y = true -> starter_k k = false ->
    run (eat_simple k add) (print_expr y ++ t) None (print_expr y ++ t).
  Proof.
    intros Hc Hk. destruct (core_head y Hc) as (c & r & E & _ & Hst). rewrite E. cbn [app].
    apply run_eat_miss. apply starter_not; assumption.
  Qed.

  Lemma run_idx3_some lhs A B y rest : core_expr y = true -> wpx 0 true y = true ->
    (List.length (print_expr y) < L)%nat -> expr_span lhs = sp0 -> rest <> [] ->
    run ('(i3, e) <- idx3 pexpr ;; fin_slice lhs A B i3 e) (print_expr y ++ sim SRightBracket :: rest)
        (ESlice sp0 lhs A B (Some (strip_spans y))) rest.
  Proof.
    intros Hc Hw Hl Hs Hr. eapply run_bind.
    - unfold idx3. eapply run_orelse_miss; [apply run_miss_head; [exact Hc|reflexivity]|].
      eapply run_bind; [apply run_pexpr; [exact Hc|exact Hw|exact Hl|reflexivity|reflexivity]|].
      eapply run_bind; [apply run_expect_hit; [reflexivity|exact Hr]|apply run_ret].
    - cbv beta iota. unfold fin_slice. rewrite Hs. eapply run_bind; [apply run_mk_span0|apply run_ret].
  Qed.

  Lemma run_fin lhs A B C t : expr_span lhs = sp0 -> run (fin_slice lhs A B C sp0) t (ESlice sp0 lhs A B C) t.
  Proof. intros Hs. unfold fin_slice. rewrite Hs. eapply run_bind; [apply run_mk_span0|apply run_ret]. Qed.

  Definition ctoks (c : option expr) : list token :=
    match c with Some c' => sim SColon :: print_expr c' | None => [] end.
  Definition ocore (o : option expr) : bool := match o with Some y => core_expr y | None => true end.
  Definition olen (o : option expr) : nat := match o with Some y => List.length (print_expr y) | None => O end.

  (* after the first `:` of a slice *)
  Lemma run_slice_tail lhs A b c rest : ocore b = true -> ocore c = true ->
    opt_all (wpx 0 true) b = true -> opt_all (wpx 0 true) c = true ->
    (olen b < L)%nat -> (olen c < L)%nat -> expr_span lhs = sp0 -> rest <> [] ->
    run (IFLET e <== eat_simple SRightBracket true THEN fin_slice lhs A None None e ELSE
         IFLET _ <== eat_simple SColon true THEN ('(i3, e) <- idx3 pexpr ;; fin_slice lhs A None i3 e) ELSE
         (i2 <- pexpr ;; '(i3, e) <- after2 pexpr ;; fin_slice lhs A (Some i2) i3 e))
        (opt_tokens print_expr b ++ ctoks c ++ sim SRightBracket :: rest)
        (ESlice sp0 lhs A (option_map strip_spans b) (option_map strip_spans c)) rest.
  Proof.
    intros Hcb Hcc Hwb Hwc Hlb Hlc Hs Hr.
    destruct b as [b|]; destruct c as [c|]; cbn [opt_tokens ctoks option_map app ocore opt_all olen] in *.
    - (* b : c ] *)
      eapply run_orelse_miss; [apply run_miss_head; [exact Hcb|reflexivity]|].
      eapply run_orelse_miss; [apply run_miss_head; [exact Hcb|reflexivity]|].
      eapply run_bind; [apply run_pexpr; [exact Hcb|exact Hwb|exact Hlb|reflexivity|reflexivity]|].
      unfold after2.
      eapply run_bind.
      + eapply run_orelse_miss; [apply run_eat_miss; reflexivity|].
        eapply run_orelse_hit; [apply run_eat_hit; [reflexivity|auto with rt]|].
        unfold idx3. eapply run_orelse_miss; [apply run_miss_head; [exact Hcc|reflexivity]|].
        eapply run_bind; [apply run_pexpr; [exact Hcc|exact Hwc|exact Hlc|reflexivity|reflexivity]|].
        eapply run_bind; [apply run_expect_hit; [reflexivity|exact Hr]|apply run_ret].
      + cbv beta iota. apply run_fin; exact Hs.
    - (* b ] *)
      eapply run_orelse_miss; [apply run_miss_head; [exact Hcb|reflexivity]|].
      eapply run_orelse_miss; [apply run_miss_head; [exact Hcb|reflexivity]|].
      eapply run_bind; [apply run_pexpr; [exact Hcb|exact Hwb|exact Hlb|reflexivity|reflexivity]|].
      unfold after2.
      eapply run_bind.
      + eapply run_orelse_hit; [apply run_eat_hit; [reflexivity|exact Hr]|apply run_ret].
      + cbv beta iota. apply run_fin; exact Hs.
    - (* : c ] *)
      eapply run_orelse_miss; [apply run_eat_miss; reflexivity|].
      eapply run_orelse_hit; [apply run_eat_hit; [reflexivity|auto with rt]|].
      apply run_idx3_some; assumption.
    - (* ] *)
      eapply run_orelse_hit; [apply run_eat_hit; [reflexivity|exact Hr]|]. apply run_fin; exact Hs.
  Qed.

  Lemma run_index lhs i rest : core_expr i = true -> wpx 0 true i = true ->
    (List.length (print_expr i) < L)%nat -> expr_span lhs = sp0 -> rest <> [] ->
    run (parse_index_expr pexpr lhs) (print_expr i ++ sim SRightBracket :: rest) (EIndex sp0 lhs (strip_spans i)) rest.
  Proof.
    intros Hc Hw Hl Hs Hr. unfold parse_index_expr. apply run_call.
    eapply run_orelse_miss; [apply run_miss_head; [exact Hc|reflexivity]|].
    eapply run_orelse_miss; [apply run_miss_head; [exact Hc|reflexivity]|].
    eapply run_bind; [apply run_pexpr; [exact Hc|exact Hw|exact Hl|reflexivity|reflexivity]|].
    eapply run_orelse_hit; [apply run_eat_hit; [reflexivity|exact Hr]|].
    rewrite Hs. eapply run_bind; [apply run_mk_span0|apply run_ret].
  Qed.

  Lemma run_slice lhs a b c rest : ocore a = true -> ocore b = true -> ocore c = true ->
    opt_all (wpx 0 true) a = true -> opt_all (wpx 0 true) b = true -> opt_all (wpx 0 true) c = true ->
    (olen a < L)%nat -> (olen b < L)%nat -> (olen c < L)%nat -> expr_span lhs = sp0 -> rest <> [] ->
    run (parse_index_expr pexpr lhs)
        (opt_tokens print_expr a ++ sim SColon :: opt_tokens print_expr b ++ ctoks c ++ sim SRightBracket :: rest)
        (ESlice sp0 lhs (option_map strip_spans a) (option_map strip_spans b) (option_map strip_spans c)) rest.
  Proof.
    intros Hca Hcb Hcc Hwa Hwb Hwc Hla Hlb Hlc Hs Hr. unfold parse_index_expr. apply run_call.
    destruct a as [a|]; cbn [opt_tokens option_map app ocore opt_all olen] in *.
    - eapply run_orelse_miss; [apply run_miss_head; [exact Hca|reflexivity]|].
      eapply run_orelse_miss; [apply run_miss_head; [exact Hca|reflexivity]|].
      eapply run_bind; [apply run_pexpr; [exact Hca|exact Hwa|exact Hla|reflexivity|reflexivity]|].
      eapply run_orelse_miss; [apply run_eat_miss; reflexivity|].
      eapply run_orelse_hit; [apply run_eat_hit; [reflexivity|auto with rt]|].
      apply (run_slice_tail lhs (Some (strip_spans a)) b c rest); assumption.
    - eapply run_orelse_hit; [apply run_eat_hit; [reflexivity|auto with rt]|].
      apply (run_slice_tail lhs None b c rest); assumption.
  Qed.

  (* call arguments *)
  Definition acore (a : arg) : bool := match a with APositional y | ANamed _ y => core_expr y end.
  Definition alen (a : arg) : nat := List.length (print_arg a).

  Lemma run_arg a fo r : acore a = true -> wp_arg a = true -> (alen a < L)%nat ->
    stopper fo = true -> is_simple KElse fo = false -> is_simple SEq fo = false ->
    run (parse_arg pexpr) (print_arg a ++ fo :: r) (strip_arg a) (fo :: r).
  Proof.
    intros Hc Hw Hl Hs He Hq. unfold parse_arg. apply run_call. destruct a as [y|name y]; cbn [acore wp_arg print_arg strip_arg] in *.
    - apply run_if_false.
      + intros s Es. rewrite peek_named, Es. apply not_named; assumption.
      + eapply run_bind; [apply run_pexpr; [exact Hc|exact Hw|exact Hl|exact Hs|exact He]|apply run_ret].
    - cbn [app]. apply run_if_true.
      + intros s Es. rewrite peek_named, Es. reflexivity.
      + eapply run_orelse_hit; [unfold id_tok, tk; apply run_eat_ident_hit; auto with rt|].
        eapply run_orelse_hit; [apply run_eat_hit; [reflexivity|auto with rt]|].
        eapply run_bind; [apply run_pexpr; [exact Hc|exact Hw|unfold alen in Hl; cbn [print_arg List.length] in Hl; lia|exact Hs|exact He]|apply run_ret].
  Qed.

  (* params and binds *)
  Definition pcore (p : param) : bool := match p with MkParam _ d => match d with Some y => core_expr y | None => true end end.
  Definition param_ok (p : param) : Prop :=
    pcore p = true /\ wp_param p = true /\ (List.length (print_param p) < L)%nat.

  Lemma run_param_body name d fo r acc : param_ok (MkParam name d) -> stopper fo = true -> is_simple KElse fo = false ->
    is_simple SEq fo = false ->
    run (nm <- expect_ident true ;; c <- eat_simple SEq true ;; dv <- opt_expr pexpr c ;; ret (acc ++ [MkParam nm dv]))
        (print_param (MkParam name d) ++ fo :: r) (acc ++ [strip_param (MkParam name d)]) (fo :: r).
  Proof.
    intros (Hc & Hw & Hl) Hs He Hq. cbn [print_param pcore wp_param strip_param app] in *.
    eapply run_bind; [unfold id_tok, tk; apply run_expect_ident_hit; auto with rt|].
    destruct d as [y|]; cbn [opt_all option_map app] in *.
    - eapply run_bind; [apply run_eat_hit; [reflexivity|auto with rt]|].
      cbn [opt_expr]. eapply run_bind; [|apply run_ret].
      eapply run_bind; [apply run_pexpr; [exact Hc|exact Hw|cbn [List.length] in Hl; lia|exact Hs|exact He]|apply run_ret].
    - eapply run_bind; [apply run_eat_miss; exact Hq|].
      cbn [opt_expr]. eapply run_bind; [apply run_ret|apply run_ret].
  Qed.

  Lemma run_params_loop : forall more p0 acc fuel rest,
    (List.length more < fuel)%nat -> Forall param_ok (p0 :: more) -> rest <> [] ->
    run (params_loop pexpr fuel acc)
        (print_param p0 ++ flat_map (fun y => comma ++ print_param y) more ++ sim SRightParen :: rest)
        (acc ++ map strip_param (p0 :: more), sp0) rest.
  Proof.
    induction more as [|p1 more IH]; intros p0 acc fuel rest Hf Hall Hr;
      destruct fuel as [|f]; try (cbn in Hf; lia); cbn [params_loop flat_map];
      inversion Hall as [|? ? Hok Hall']; subst; destruct p0 as [name d].
    - cbn [app].
      pose proof (run_param_body name d (sim SRightParen) rest acc Hok eq_refl eq_refl eq_refl) as Hb.
      unfold bindP at 1 2 3 in Hb.
      intros s Es. destruct (Hb s Es) as (s1 & E1 & T1). clear Hb.
      unfold bindP at 1. destruct (expect_ident true s) as [[nm s0]| | |] eqn:Ei; try discriminate.
      unfold bindP at 1. destruct (eat_simple SEq true s0) as [[c s2]| | |] eqn:Ec; try discriminate.
      unfold bindP at 1. destruct (opt_expr pexpr c s2) as [[dv s3]| | |] eqn:Eo; try discriminate.
      cbn in E1. injection E1 as Eacc Es3. subst s3.
      cbv zeta. rewrite Eacc.
      assert (Hrun : run (IFLET e <== eat_simple SRightParen true THEN ret (acc ++ [strip_param (MkParam name d)], e) ELSE
                          IFLET _ <== eat_simple SComma true THEN
                            (IFLET e <== eat_simple SRightParen true THEN ret (acc ++ [strip_param (MkParam name d)], e)
                             ELSE params_loop pexpr f (acc ++ [strip_param (MkParam name d)]))
                          ELSE report_expected) (sim SRightParen :: rest) (acc ++ [strip_param (MkParam name d)], sp0) rest).
      { eapply run_orelse_hit; [apply run_eat_hit; [reflexivity|exact Hr]|apply run_ret]. }
      exact (Hrun s1 T1).
    - unfold comma at 1. rewrite <- !app_assoc. cbn [app].
      pose proof (run_param_body name d (sim SComma)
                    (print_param p1 ++ flat_map (fun y => comma ++ print_param y) more ++ sim SRightParen :: rest)
                    acc Hok eq_refl eq_refl eq_refl) as Hb.
      unfold bindP at 1 2 3 in Hb.
      intros s Es. destruct (Hb s Es) as (s1 & E1 & T1). clear Hb.
      unfold bindP at 1. destruct (expect_ident true s) as [[nm s0]| | |] eqn:Ei; try discriminate.
      unfold bindP at 1. destruct (eat_simple SEq true s0) as [[c s2]| | |] eqn:Ec; try discriminate.
      unfold bindP at 1. destruct (opt_expr pexpr c s2) as [[dv s3]| | |] eqn:Eo; try discriminate.
      cbn in E1. injection E1 as Eacc Es3. subst s3.
      cbv zeta. rewrite Eacc.
      inversion Hall' as [|? ? Hok1 _]; subst. destruct p1 as [name1 d1].
      assert (Hrun : run (IFLET e <== eat_simple SRightParen true THEN ret (acc ++ [strip_param (MkParam name d)], e) ELSE
                          IFLET _ <== eat_simple SComma true THEN
                            (IFLET e <== eat_simple SRightParen true THEN ret (acc ++ [strip_param (MkParam name d)], e)
                             ELSE params_loop pexpr f (acc ++ [strip_param (MkParam name d)]))
                          ELSE report_expected)
                         (sim SComma :: print_param (MkParam name1 d1) ++ flat_map (fun y => comma ++ print_param y) more ++ sim SRightParen :: rest)
                         (acc ++ map strip_param (MkParam name d :: MkParam name1 d1 :: more), sp0) rest).
      { eapply run_orelse_miss; [apply run_eat_miss; reflexivity|].
        eapply run_orelse_hit; [apply run_eat_hit; [reflexivity|cbn [print_param app]; discriminate]|].
        eapply run_orelse_miss; [eapply (run_eat_miss_app _ _ _ _ (id_tok name1)); [reflexivity|reflexivity]|].
        replace (acc ++ map strip_param (MkParam name d :: MkParam name1 d1 :: more))
          with ((acc ++ [strip_param (MkParam name d)]) ++ map strip_param (MkParam name1 d1 :: more))
          by (rewrite <- app_assoc; reflexivity).
        apply IH; [cbn in Hf; lia|exact Hall'|exact Hr]. }
      exact (Hrun s1 T1).
  Qed.

  Lemma sep_by_len {A} (f : A -> list token) l x : In x l ->
    (List.length (f x) <= List.length (sep_by comma f l))%nat.
  Proof.
    unfold sep_by. destruct l as [|a0 more]; [intros []|]. rewrite app_length. intros [->|Hin]; [lia|].
    induction more as [|a1 more IHm]; [destruct Hin|]. cbn [flat_map]. rewrite !app_length.
    destruct Hin as [->|Hin]; [lia|]. specialize (IHm Hin). lia.
  Qed.

  Lemma sep_by_count {A} (f : A -> list token) l : (forall x, In x l -> f x <> []) ->
    (List.length l <= List.length (sep_by comma f l))%nat.
  Proof.
    unfold sep_by. destruct l as [|a0 more]; [cbn; lia|]. intros Hne. rewrite app_length.
    pose proof (flat_len f more). specialize (Hne a0 (or_introl eq_refl)).
    destruct (f a0); [congruence|]. cbn [List.length]. lia.
  Qed.

  Lemma run_params lf' params rest : (List.length params <= lf')%nat -> Forall param_ok params -> rest <> [] ->
    run (parse_params pexpr lf') (sep_by comma print_param params ++ sim SRightParen :: rest)
        (map strip_param params, sp0) rest.
  Proof.
    intros Hlf Hall Hr. unfold parse_params. apply run_call. unfold sep_by. destruct params as [|p0 more].
    - cbn [app map]. eapply run_orelse_hit; [apply run_eat_hit; [reflexivity|exact Hr]|apply run_ret].
    - rewrite <- app_assoc. destruct p0 as [name d].
      eapply run_orelse_miss; [eapply (run_eat_miss_app _ _ _ _ (id_tok name)); [reflexivity|reflexivity]|].
      apply (run_params_loop more (MkParam name d) []); [cbn in Hlf; lia|exact Hall|exact Hr].
  Qed.

  Definition bcore (b : bind) : bool :=
    match b with
    | MkBind _ ps v => match ps with Some (l, _) => forallb pcore l | None => true end && core_expr v
    end.
  Definition bind_ok (b : bind) : Prop :=
    bcore b = true /\ wp_bind b = true /\ (List.length (print_bind b) < L)%nat.

  Lemma run_bind_ lf' b fo r : bind_ok b -> (List.length (print_bind b) <= lf')%nat ->
    stopper fo = true -> is_simple KElse fo = false ->
    run (parse_bind pexpr lf') (print_bind b ++ fo :: r) (strip_bind b) (fo :: r).
  Proof.
    intros (Hc & Hw & Hl) Hlf Hs He. destruct b as [name ps v]. cbn [bcore wp_bind print_bind strip_bind] in *.
    apply andb_true_iff in Hc as [Hcp Hcv]. apply andb_true_iff in Hw as [Hwp Hwv].
    unfold parse_bind. apply run_call. cbn [app].
    eapply run_bind; [unfold id_tok, tk; apply run_expect_ident_hit; auto with rt|].
    destruct ps as [[l psp]|]; norm_app; cbv beta iota in Hl, Hlf; cbn [List.length] in Hl, Hlf;
      repeat (rewrite app_length in Hl, Hlf; cbn [List.length] in Hl, Hlf).
    - eapply run_bind; [apply run_eat_hit; [reflexivity|auto with rt]|].
      assert (Hpl : Forall param_ok l).
      { apply Forall_forall. intros p0 Hin. rewrite forallb_forall in Hcp, Hwp.
        split; [apply (Hcp p0 Hin)|]. split; [apply (Hwp p0 Hin)|].
        pose proof (sep_by_len print_param l p0 Hin). revert Hl. repeat (rewrite app_length; cbn [List.length]). lia. }
      assert (Hcnt : (List.length l <= lf')%nat).
      { assert (List.length l <= List.length (sep_by comma print_param l))%nat.
        { apply sep_by_count. intros [nm dd] _. cbn [print_param]. discriminate. }
        revert Hlf. cbn [List.length]. repeat (rewrite app_length; cbn [List.length]). lia. }
      eapply run_bind.
      + eapply run_bind; [apply (run_params lf' l); [exact Hcnt|exact Hpl|discriminate]|].
        cbv beta iota. eapply run_bind; [apply run_mk_span0|apply run_ret].
      + eapply run_bind; [apply run_expect_hit; [reflexivity|auto with rt]|].
        eapply run_bind; [apply run_pexpr; [exact Hcv|exact Hwv| |exact Hs|exact He]|apply run_ret].
        revert Hl. cbn [List.length]. repeat (rewrite app_length; cbn [List.length]). lia.
    - eapply run_bind; [apply run_eat_miss; reflexivity|].
      eapply run_bind; [apply run_ret|].
      eapply run_bind; [apply run_expect_hit; [reflexivity|auto with rt]|].
      eapply run_bind; [apply run_pexpr; [exact Hcv|exact Hwv| |exact Hs|exact He]|apply run_ret].
      revert Hl. cbn [List.length]. lia.
  Qed.

  Lemma binds_head more fo r : stopper fo = true -> is_simple KElse fo = false ->
    exists t0 r0, flat_map (fun b => comma ++ print_bind b) more ++ fo :: r = t0 :: r0 /\
                  stopper t0 = true /\ is_simple KElse t0 = false.
  Proof.
    intros Hs He. destruct more as [|b more]; cbn [flat_map comma app].
    - eexists; eexists; split; [reflexivity|split; assumption].
    - eexists; eexists; split; [reflexivity|split; reflexivity].
  Qed.

  Lemma run_binds_loop lf' : forall more acc fuel fo r, (List.length more < fuel)%nat ->
    Forall (fun b => bind_ok b /\ (List.length (print_bind b) <= lf')%nat) more ->
    stopper fo = true -> is_simple KElse fo = false -> is_simple SComma fo = false ->
    run (binds_loop pexpr lf' fuel acc) (flat_map (fun b => comma ++ print_bind b) more ++ fo :: r)
        (acc ++ map strip_bind more) (fo :: r).
  Proof.
    induction more as [|b more IH]; intros acc fuel fo r Hf Hall Hs He Hc;
      destruct fuel as [|f]; try (cbn in Hf; lia); cbn [binds_loop flat_map map app].
    - eapply run_orelse_miss; [apply run_eat_miss; exact Hc|]. rewrite app_nil_r. apply run_ret.
    - inversion Hall as [|? ? (Hok & Hlb) Hall']; subst.
      unfold comma at 1. norm_app.
      eapply run_orelse_hit; [apply run_eat_hit; [reflexivity|auto with rt]|].
      destruct (binds_head more fo r Hs He) as (t0 & r0 & E0 & Hs0 & He0).
      rewrite E0.
      eapply run_bind; [apply (run_bind_ lf' b t0 r0 Hok Hlb Hs0 He0)|].
      rewrite <- E0.
      replace (acc ++ strip_bind b :: map strip_bind more) with ((acc ++ [strip_bind b]) ++ map strip_bind more)
        by (rewrite <- app_assoc; reflexivity).
      apply IH; [cbn in Hf; lia|exact Hall'|exact Hs|exact He|exact Hc].
  Qed.

  (* comprehension specs *)
  Definition score (c : comp_spec) : bool := match c with CFor _ y | CIf y => core_expr y end.
  Definition spec_ok (c : comp_spec) : Prop :=
    score c = true /\ wp_spec c = true /\ (List.length (print_spec c) < L)%nat.
  Definition spec_follow (fo : token) : Prop :=
    stopper fo = true /\ is_simple KElse fo = false.

  Lemma specs_head more fo r : spec_follow fo ->
    exists t0 r0, flat_map print_spec more ++ fo :: r = t0 :: r0 /\ spec_follow t0.
  Proof.
    intros Hf. destruct more as [|[v y|y] more]; cbn [flat_map print_spec app].
    - eexists; eexists; split; [reflexivity|exact Hf].
    - eexists; eexists; split; [reflexivity|split; reflexivity].
    - eexists; eexists; split; [reflexivity|split; reflexivity].
  Qed.

  Lemma run_for_spec v y t0 r0 : core_expr y = true -> wpx 0 true y = true ->
    (List.length (print_expr y) < L)%nat -> spec_follow t0 ->
    run (maybe_parse_for_spec pexpr) (sim KFor :: id_tok v :: sim KIn :: print_expr y ++ t0 :: r0)
        (Some (CFor (strip_ident v) (strip_spans y))) (t0 :: r0).
  Proof.
    intros Hc Hw Hl (Hs & He). unfold maybe_parse_for_spec. apply run_call.
    eapply run_orelse_hit; [apply run_eat_hit; [reflexivity|discriminate]|].
    eapply run_bind; [unfold id_tok, tk; apply run_expect_ident_hit; discriminate|].
    eapply run_bind; [apply run_expect_hit; [reflexivity|auto with rt]|].
    eapply run_bind; [apply run_pexpr; [exact Hc|exact Hw|exact Hl|exact Hs|exact He]|apply run_ret].
  Qed.

  Lemma run_if_spec y t0 r0 : core_expr y = true -> wpx 0 true y = true ->
    (List.length (print_expr y) < L)%nat -> spec_follow t0 ->
    run (maybe_parse_if_spec pexpr) (sim KIf :: print_expr y ++ t0 :: r0) (Some (CIf (strip_spans y))) (t0 :: r0).
  Proof.
    intros Hc Hw Hl (Hs & He). unfold maybe_parse_if_spec. apply run_call.
    eapply run_orelse_hit; [apply run_eat_hit; [reflexivity|auto with rt]|].
    eapply run_bind; [apply run_pexpr; [exact Hc|exact Hw|exact Hl|exact Hs|exact He]|apply run_ret].
  Qed.

  Lemma run_for_spec_miss' c t : is_simple KFor c = false -> run (maybe_parse_for_spec pexpr) (c :: t) None (c :: t).
  Proof.
    intros H. unfold maybe_parse_for_spec. apply run_call.
    eapply run_orelse_miss; [apply run_eat_miss; exact H|apply run_ret].
  Qed.
  Lemma run_if_spec_miss c t : is_simple KIf c = false -> run (maybe_parse_if_spec pexpr) (c :: t) None (c :: t).
  Proof.
    intros H. unfold maybe_parse_if_spec. apply run_call.
    eapply run_orelse_miss; [apply run_eat_miss; exact H|apply run_ret].
  Qed.

  Lemma run_comp_loop : forall specs acc fuel fo r, (List.length specs < fuel)%nat ->
    Forall spec_ok specs -> spec_follow fo -> is_simple KFor fo = false -> is_simple KIf fo = false ->
    run (comp_spec_loop pexpr fuel acc) (flat_map print_spec specs ++ fo :: r) (acc ++ map strip_spec specs) (fo :: r).
  Proof.
    induction specs as [|sc more IH]; intros acc fuel fo r Hf Hall Hfo Hnf Hni;
      destruct fuel as [|f]; try (cbn in Hf; lia); cbn [comp_spec_loop flat_map app map].
    - eapply run_orelse_miss; [apply run_for_spec_miss'; exact Hnf|].
      eapply run_orelse_miss; [apply run_if_spec_miss; exact Hni|].
      rewrite app_nil_r. apply run_ret.
    - inversion Hall as [|? ? (Hc & Hw & Hl) Hall']; subst.
      destruct (specs_head more fo r Hfo) as (t0 & r0 & E0 & Hf0).
      rewrite <- app_assoc. rewrite E0.
      replace (acc ++ strip_spec sc :: map strip_spec more) with ((acc ++ [strip_spec sc]) ++ map strip_spec more)
        by (rewrite <- app_assoc; reflexivity).
      destruct sc as [v y|y]; cbn [score wp_spec print_spec strip_spec app] in *.
      + eapply run_orelse_hit;
          [apply run_for_spec; [exact Hc|exact Hw|cbn [List.length] in Hl; lia|exact Hf0]|].
        rewrite <- E0. apply IH; [cbn in Hf; lia|exact Hall'|exact Hfo|exact Hnf|exact Hni].
      + eapply run_orelse_miss; [apply run_for_spec_miss'; reflexivity|].
        eapply run_orelse_hit;
          [apply run_if_spec; [exact Hc|exact Hw|cbn [List.length] in Hl; lia|exact Hf0]|].
        rewrite <- E0. apply IH; [cbn in Hf; lia|exact Hall'|exact Hfo|exact Hnf|exact Hni].
  Qed.

  Lemma run_comp_spec lf' specs fo r : specs_ok specs = true -> (List.length specs <= lf')%nat ->
    Forall spec_ok specs -> spec_follow fo -> is_simple KFor fo = false -> is_simple KIf fo = false ->
    run (maybe_parse_comp_spec pexpr lf') (flat_map print_spec specs ++ fo :: r)
        (Some (map strip_spec specs)) (fo :: r).
  Proof.
    intros Hok Hlf Hall Hfo Hnf Hni. destruct specs as [|[v y|y] more]; cbn [specs_ok] in Hok; try discriminate.
    inversion Hall as [|? ? (Hc & Hw & Hl) Hall']; subst.
    unfold maybe_parse_comp_spec. apply run_call. cbn [flat_map print_spec app map strip_spec].
    destruct (specs_head more fo r Hfo) as (t0 & r0 & E0 & Hf0).
    rewrite <- app_assoc. rewrite E0. cbn [score wp_spec print_spec] in *.
    eapply run_orelse_hit; [apply run_for_spec; [exact Hc|exact Hw|cbn [List.length] in Hl; lia|exact Hf0]|].
    eapply run_bind; [|apply run_ret].
    rewrite <- E0.
    apply (run_comp_loop more [CFor (strip_ident v) (strip_spans y)]); [cbn in Hlf; lia|exact Hall'|exact Hfo|exact Hnf|exact Hni].
  Qed.

  (* ---- object members (groundwork for EObject / EObjExt) *)
  Lemma run_plus_vis plus vis t : t <> [] ->
    run (eat_plus_visibility true) (sim (vis_tok plus vis) :: t) (Some (plus, vis)) t.
  Proof.
    intros Ht. destruct t as [|t1 r1]; [congruence|]. destruct plus, vis; run_compute.
  Qed.

  Lemma run_vis vis t : t <> [] ->
    run (eat_visibility true) (sim (vis_tok false vis) :: t) (Some vis) t.
  Proof.
    intros Ht. destruct t as [|t1 r1]; [congruence|]. destruct vis; run_compute.
  Qed.

  Lemma run_field_name_ident i t : t <> [] ->
    run (maybe_parse_field_name pexpr) (id_tok i :: t) (Some (FnIdent (strip_ident i))) t.
  Proof.
    intros Ht. unfold maybe_parse_field_name. apply run_call.
    eapply run_orelse_hit; [unfold id_tok, tk; apply run_eat_ident_hit; exact Ht|apply run_ret].
  Qed.

  Lemma run_field_name_string x t : t <> [] ->
    run (maybe_parse_field_name pexpr) (tk (TString x) :: t) (Some (FnString x sp0)) t.
  Proof.
    intros Ht. destruct t as [|t1 r1]; [congruence|]. run_compute.
  Qed.

  Lemma run_field_name_expr y t : core_expr y = true -> wpx 0 true y = true ->
    (List.length (print_expr y) < L)%nat -> t <> [] ->
    run (maybe_parse_field_name pexpr) (sim SLeftBracket :: print_expr y ++ sim SRightBracket :: t)
        (Some (FnExpr (strip_spans y) sp0)) t.
  Proof.
    intros Hc Hw Hl Ht. unfold maybe_parse_field_name. apply run_call.
    eapply run_orelse_miss; [apply run_eat_ident_miss; reflexivity|].
    eapply run_orelse_miss; [apply run_eat_string_miss_sim|].
    eapply run_orelse_miss; [apply run_eat_text_block_miss_sim|].
    eapply run_orelse_hit; [apply run_eat_hit; [reflexivity|auto with rt]|].
    eapply run_bind; [apply run_pexpr; [exact Hc|exact Hw|exact Hl|reflexivity|reflexivity]|].
    eapply run_bind; [apply run_expect_hit; [reflexivity|exact Ht]|].
    eapply run_bind; [apply run_mk_span0|apply run_ret].
  Qed.

  Lemma run_obj_local lf' b fo r : bind_ok b -> (List.length (print_bind b) <= lf')%nat ->
    stopper fo = true -> is_simple KElse fo = false ->
    run (maybe_parse_obj_local pexpr lf') (sim KLocal :: print_bind b ++ fo :: r) (Some (strip_bind b)) (fo :: r).
  Proof.
    intros Hok Hl Hs He. unfold maybe_parse_obj_local. apply run_call.
    eapply run_orelse_hit; [apply run_eat_hit; [reflexivity|auto with rt]|].
    eapply run_bind; [apply (run_bind_ lf' b fo r Hok Hl Hs He)|apply run_ret].
  Qed.
End Suffix.

