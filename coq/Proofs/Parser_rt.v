(* Proofs/Parser_rt.v — print / re-parse round trip.
   A relational layer [run m t a t'] ("on any state whose tokens are t, m answers a and
   leaves the tokens t'") hides the bookkeeping fields (expected set, depth counters);
   machine transitions of pe_loop are backward rules on [run]. *)
From RJ Require Import Base.Outcome Model.Token Model.Ast Model.Parser Model.Print.
From Coq Require Import Lia.
Local Open Scope list_scope.
Local Open Scope N_scope.

Definition toks_of (s : pst) : list token := cur s :: rest s.

Definition run {A} (m : P A) (t : list token) (a : A) (t' : list token) : Prop :=
  forall s, toks_of s = t -> exists s', m s = Ok (a, s') /\ toks_of s' = t'.

Lemma run_ret {A} (a : A) t : run (ret a) t a t.
Proof. intros s Hs; exists s; split; [reflexivity|exact Hs]. Qed.

Lemma run_bind {A B} (m : P A) (f : A -> P B) t a t1 b t2 :
  run m t a t1 -> run (f a) t1 b t2 -> run (bindP m f) t b t2.
Proof.
  intros H1 H2 s Hs. destruct (H1 s Hs) as (s1 & E1 & T1). destruct (H2 s1 T1) as (s2 & E2 & T2).
  exists s2. split; [|exact T2]. unfold bindP. rewrite E1. exact E2.
Qed.

Lemma run_orelse_hit {A B} (m : P (option A)) (f : A -> P B) k t a t1 b t2 :
  run m t (Some a) t1 -> run (f a) t1 b t2 -> run (orelse m f k) t b t2.
Proof.
  intros H1 H2 s Hs. destruct (H1 s Hs) as (s1 & E1 & T1). destruct (H2 s1 T1) as (s2 & E2 & T2).
  exists s2. split; [|exact T2]. unfold orelse. rewrite E1. exact E2.
Qed.

Lemma run_orelse_miss {A B} (m : P (option A)) (f : A -> P B) k t t1 b t2 :
  run m t None t1 -> run (k tt) t1 b t2 -> run (orelse m f k) t b t2.
Proof.
  intros H1 H2 s Hs. destruct (H1 s Hs) as (s1 & E1 & T1). destruct (H2 s1 T1) as (s2 & E2 & T2).
  exists s2. split; [|exact T2]. unfold orelse. rewrite E1. exact E2.
Qed.

Lemma run_call {A} (m : P A) t a t' : run m t a t' -> run (call m) t a t'.
Proof.
  intros H s Hs. unfold call.
  match goal with |- context [m ?s0] => destruct (H s0 Hs) as (s1 & E1 & T1) end.
  rewrite E1. destruct s1 as [c r ex dc dm]. eexists. split; [reflexivity|exact T1].
Qed.

Lemma run_ext {A} (m m' : P A) t a t' : (forall s, m s = m' s) -> run m' t a t' -> run m t a t'.
Proof. intros E H s Hs. rewrite E. exact (H s Hs). Qed.

(* ---- primitives *)
Lemma run_eat_hit k add c t : is_simple k c = true -> t <> [] ->
  run (eat_simple k add) (c :: t) (Some (tok_span c)) t.
Proof.
  intros Hk Ht s Hs. destruct s as [c0 r ex dc dm]. unfold toks_of in Hs; cbn in Hs. injection Hs as -> ->.
  destruct t as [|t1 r1]; [congruence|].
  unfold eat_simple. cbn [cur]. rewrite Hk. eexists. split; reflexivity.
Qed.

Lemma run_eat_miss k add c t : is_simple k c = false ->
  run (eat_simple k add) (c :: t) None (c :: t).
Proof.
  intros Hk s Hs. destruct s as [c0 r ex dc dm]. unfold toks_of in Hs; cbn in Hs. injection Hs as -> ->.
  unfold eat_simple, miss. cbn [cur]. rewrite Hk. destruct add; eexists; split; reflexivity.
Qed.

Lemma run_expect_hit k add c t : is_simple k c = true -> t <> [] ->
  run (expect_simple k add) (c :: t) (tok_span c) t.
Proof. intros Hk Ht. unfold expect_simple. eapply run_orelse_hit; [apply run_eat_hit; assumption|apply run_ret]. Qed.

Lemma run_push x t : run (push_expected x) t tt t.
Proof. intros s Hs. eexists. split; [reflexivity|]. exact Hs. Qed.

Lemma run_mk_span0 t : run (mk_span sp0 sp0) t sp0 t.
Proof. intros s Hs. exists s. split; [reflexivity|exact Hs]. Qed.

Lemma run_eat_ident_hit add v sp t : t <> [] ->
  run (eat_ident add) ({| tok_span := sp; tok_kind := TIdent v |} :: t) (Some {| id_value := v; id_span := sp |}) t.
Proof.
  intros Ht s Hs. destruct s as [c0 r ex dc dm]. unfold toks_of in Hs; cbn in Hs. injection Hs as -> ->.
  destruct t as [|t1 r1]; [congruence|]. eexists. split; reflexivity.
Qed.

Lemma run_expect_ident_hit add v sp t : t <> [] ->
  run (expect_ident add) ({| tok_span := sp; tok_kind := TIdent v |} :: t) {| id_value := v; id_span := sp |} t.
Proof. intros Ht. unfold expect_ident. eapply run_orelse_hit; [apply run_eat_ident_hit; assumption|apply run_ret]. Qed.

Definition not_ident (c : token) : bool := match tok_kind c with TIdent _ => false | _ => true end.
Lemma run_eat_ident_miss add c t : not_ident c = true -> run (eat_ident add) (c :: t) None (c :: t).
Proof.
  intros Hk s Hs. destruct s as [c0 r ex dc dm]. unfold toks_of in Hs; cbn in Hs. injection Hs as -> ->.
  unfold eat_ident, miss, not_ident in *. cbn [cur]. destruct (tok_kind c); try discriminate; destruct add; eexists; split; reflexivity.
Qed.

Definition all_miss {O} (l : list (stoken * O)) (c : token) : bool :=
  forallb (fun p => negb (is_simple (fst p) c)) l.

Lemma run_eat_first_miss {O} (l : list (stoken * O)) c t :
  all_miss l c = true -> run (eat_first l) (c :: t) None (c :: t).
Proof.
  induction l as [|[tk o] l IH]; intros H; cbn [eat_first].
  - apply run_ret.
  - cbn in H. apply andb_true_iff in H as [H1 H2]. apply negb_true_iff in H1.
    eapply run_orelse_miss; [apply run_eat_miss; exact H1|]. apply IH; exact H2.
Qed.

Lemma run_eat_first_hit {O} (l1 : list (stoken * O)) tk o l2 c t :
  all_miss l1 c = true -> is_simple tk c = true -> t <> [] ->
  run (eat_first (l1 ++ (tk, o) :: l2)) (c :: t) (Some (tk, o, tok_span c)) t.
Proof.
  induction l1 as [|[tk1 o1] l1 IH]; intros H Hk Ht; cbn [eat_first app].
  - eapply run_orelse_hit; [apply run_eat_hit; assumption|apply run_ret].
  - cbn in H. apply andb_true_iff in H as [H1 H2]. apply negb_true_iff in H1.
    eapply run_orelse_miss; [apply run_eat_miss; exact H1|]. apply IH; assumption.
Qed.

Lemma app_cons_not_nil {A} (l : list A) a b : l ++ a :: b <> [].
Proof. destruct l; discriminate. Qed.
Lemma cons_not_nil {A} (a : A) b : a :: b <> [].
Proof. discriminate. Qed.
#[export] Hint Resolve app_cons_not_nil cons_not_nil : rt.

(* a closed primitive computation on a token list with a known head: decided by evaluation *)
Ltac run_compute :=
  let s := fresh "s" in let Hs := fresh "Hs" in
  intros s Hs; destruct s as [? ? ? ? ?]; unfold toks_of in Hs; cbn [cur rest] in Hs;
  injection Hs as -> ->; eexists; split; [cbv -[N.succ N.max]; reflexivity | unfold toks_of; cbn [cur rest]; reflexivity].

(* ---------------------------------------------------------------- levels *)
Definition kind (n : nat) : binop_kind :=
  match n with
  | 0 => LvLogicOr | 1 => LvLogicAnd | 2 => LvBitwiseOr | 3 => LvBitwiseXor | 4 => LvBitwiseAnd
  | 5 => LvEqCmp | 6 => LvOrdCmp | 7 => LvShift | 8 => LvAdd | _ => LvMul
  end%nat.

Definition enter (n : nat) : pstate := if (n <? 10)%nat then StBinary (kind n) else StUnary.
Definition exit_ (n : nat) (e : expr) : pstate := if (n <? 10)%nat then StBinaryRhs (kind n) e else StParsed e.

Fixpoint lhs_up (k d : nat) : list stack_item :=
  match d with O => [] | S d' => SiBinaryLhs (kind (k + d')) :: lhs_up k d' end.

Lemma lhs_up_snoc k d : lhs_up k (S d) = lhs_up (S k) d ++ [SiBinaryLhs (kind k)].
Proof.
  induction d as [|d IH].
  - cbn. rewrite Nat.add_0_r. reflexivity.
  - change (lhs_up k (S (S d))) with (SiBinaryLhs (kind (k + S d)) :: lhs_up k (S d)).
    rewrite IH. cbn [lhs_up app]. rewrite Nat.add_succ_r. reflexivity.
Qed.

Definition opmiss (l : nat) (c : token) : bool := all_miss (pt_ops spec_prec (kind l)) c.
(* no binary operator of a level strictly above k starts at c *)
Definition noop_above (k : nat) (c : token) : bool := forallb (fun l => opmiss l c) (seq (S k) (9 - k)).
Definition nosfx (c : token) : bool :=
  negb (is_simple SDot c) && negb (is_simple SLeftBracket c) && negb (is_simple SLeftParen c) &&
  negb (is_simple SLeftBrace c) && negb (is_simple KTailstrict c).

(* tokens an expression can start with *)
Definition starter_k (k : stoken) : bool :=
  match k with
  | KNull | KTrue | KFalse | KSelf | SDollar | SLeftParen | SLeftBracket | SLeftBrace
  | SPlus | SMinus | STilde | SExclam | KIf | KLocal | KFunction | KAssert | KImport | KImportstr
  | KImportbin | KError | KSuper => true
  | _ => false
  end.
Definition starter (c : token) : bool :=
  match tok_kind c with
  | TSimple k => starter_k k
  | TIdent _ | TNumber _ | TString _ | TTextBlock _ => true
  | _ => false
  end.
Lemma starter_not k c : starter c = true -> starter_k k = false -> is_simple k c = false.
Proof.
  unfold starter, is_simple. destruct (tok_kind c); intros H Hk; try reflexivity.
  destruct (stoken_eqb k0 k) eqn:E; [|reflexivity].
  apply stoken_eqb_eq in E. subst. congruence.
Qed.

Lemma noop_above_at k l c : noop_above k c = true -> (k < l <= 9)%nat -> opmiss l c = true.
Proof.
  unfold noop_above. intros H Hl. rewrite forallb_forall in H. apply H. apply in_seq. lia.
Qed.

Lemma noop_above_mono k k' c : noop_above k c = true -> (k <= k')%nat -> noop_above k' c = true.
Proof.
  unfold noop_above. intros H Hl. rewrite forallb_forall in *. intros l Hin. apply H.
  apply in_seq in Hin. apply in_seq. lia.
Qed.

Section Machine.
  Variable pexpr : P expr.
  Variable lf : nat.
  Notation T := spec_prec.
  Notation PL := (pe_loop spec_prec pexpr lf).

  Lemma next_state_enter k : (k <= 9)%nat -> next_state T (kind k) = enter (S k).
  Proof. intros H. do 10 (destruct k as [|k]; [reflexivity|]). lia. Qed.

  Lemma pl_binary f k stk t (a : expr) t' :
    run (PL f (next_state T k) (SiBinaryLhs k :: stk)) t a t' -> run (PL (S f) (StBinary k) stk) t a t'.
  Proof. exact (fun H => H). Qed.

  Lemma pl_parsed_lhs f k e stk t (a : expr) t' :
    run (PL f (StBinaryRhs k e) stk) t a t' -> run (PL (S f) (StParsed e) (SiBinaryLhs k :: stk)) t a t'.
  Proof. exact (fun H => H). Qed.

  Lemma pl_parsed_done f e t : run (PL (S f) (StParsed e) []) t e t.
  Proof. apply run_ret. Qed.

  Lemma pl_rhs_none f k lhs stk c t (a : expr) t' :
    all_miss (pt_ops T k) c = true ->
    run (PL f (StParsed lhs) stk) (c :: t) a t' -> run (PL (S f) (StBinaryRhs k lhs) stk) (c :: t) a t'.
  Proof.
    intros Hm H. cbn [pe_loop].
    eapply run_bind; [apply run_eat_first_miss; exact Hm|]. cbv beta iota.
    eapply run_bind; [apply run_push|]. exact H.
  Qed.

  (* descend from level k to level k+d (d steps), pushing the BinaryLhs items *)
  Lemma descend d : forall k f stk t (a : expr) t', (k + d <= 10)%nat ->
    run (PL f (enter (k + d)) (lhs_up k d ++ stk)) t a t' -> run (PL (d + f) (enter k) stk) t a t'.
  Proof.
    induction d as [|d IH]; intros k f stk t a t' Hk H.
    - rewrite Nat.add_0_r in H. exact H.
    - cbn [Nat.add]. assert (Hk9 : (k <= 9)%nat) by lia.
      unfold enter at 1. replace (k <? 10)%nat with true by (symmetry; apply Nat.ltb_lt; lia).
      apply pl_binary. rewrite next_state_enter by exact Hk9.
      apply IH; [lia|]. rewrite lhs_up_snoc in H. rewrite <- app_assoc in H. cbn [app] in H.
      replace (S k + d)%nat with (k + S d)%nat by lia. exact H.
  Qed.

  (* ascend from level k+d back to level k (2d steps): no operator of the levels in between *)
  Lemma ascend d : forall k f e stk c t (a : expr) t', (k + d <= 9)%nat ->
    noop_above k c = true ->
    run (PL f (StBinaryRhs (kind k) e) stk) (c :: t) a t' ->
    run (PL (2 * d + f) (StBinaryRhs (kind (k + d)) e) (lhs_up k d ++ stk)) (c :: t) a t'.
  Proof.
    induction d as [|d IH]; intros k f e stk c t a t' Hk Hn H.
    - rewrite Nat.add_0_r. exact H.
    - replace (2 * S d + f)%nat with (S (S (2 * d + f))) by lia. cbn [lhs_up app].
      apply pl_rhs_none; [apply (noop_above_at k); [exact Hn|lia]|].
      apply pl_parsed_lhs. replace (k + S d)%nat with (S (k + d)) by lia.
      (* kind (S (k+d)) was consumed; now at level k+d *)
      apply IH; [lia|exact Hn|exact H].
  Qed.
End Machine.

(* ---------------------------------------------------------------- size of a tree *)
Definition lsum {A} (f : A -> nat) (l : list A) : nat := fold_right (fun x n => (f x + n)%nat) O l.
Definition osz (f : expr -> nat) (o : option expr) : nat := match o with Some e => f e | None => O end.

Fixpoint esize (e : expr) : nat :=
  S match e with
    | ENull _ | EBool _ _ | ESelf _ | EDollar _ | EString _ _ | ETextBlock _ _ | ENumber _ _
    | ESuperField _ _ _ | EIdent _ _ => O
    | EParen _ x => esize x
    | EObject _ o => obj_size o
    | EArray _ items => lsum esize items
    | EArrayComp _ x specs => esize x + lsum spec_size specs
    | EField _ x _ => esize x
    | EIndex _ x i => esize x + esize i
    | ESlice _ x a b c => esize x + osz esize a + osz esize b + osz esize c
    | ESuperIndex _ _ i => esize i
    | ECall _ f args _ => esize f + lsum arg_size args
    | ELocal _ binds body => lsum bind_size binds + esize body
    | EIf _ c t x => esize c + esize t + osz esize x
    | EBinary _ l _ r => esize l + esize r
    | EUnary _ _ x => esize x
    | EObjExt _ x o _ => esize x + obj_size o
    | EFunc _ params body => lsum param_size params + esize body
    | EAssert _ a body => assert_size a + esize body
    | EImport _ x | EImportStr _ x | EImportBin _ x | EError _ x => esize x
    | EInSuper _ x _ => esize x
    end%nat
with obj_size (o : obj_inside) : nat :=
  S match o with
    | OMembers ms => lsum member_size ms
    | OComp l1 name _ body l2 specs =>
        lsum bind_size l1 + esize name + esize body + lsum bind_size l2 + lsum spec_size specs
    end%nat
with member_size (m : member) : nat :=
  S match m with MLocal b => bind_size b | MAssert a => assert_size a | MField f => field_size f end
with field_size (f : field) : nat :=
  S match f with
    | FValue name _ _ value => fname_size name + esize value
    | FFunc name params _ _ value => fname_size name + lsum param_size params + esize value
    end%nat
with fname_size (n : field_name) : nat :=
  S match n with FnIdent _ | FnString _ _ => O | FnExpr e _ => esize e end
with spec_size (c : comp_spec) : nat :=
  S match c with CFor _ inner => esize inner | CIf cond => esize cond end
with assert_size (a : assert_) : nat :=
  S match a with MkAssert _ cond msg => esize cond + osz esize msg end%nat
with bind_size (b : bind) : nat :=
  S match b with
    | MkBind _ params value =>
        match params with Some (ps, _) => lsum param_size ps | None => O end + esize value
    end%nat
with arg_size (a : arg) : nat :=
  S match a with APositional e | ANamed _ e => esize e end
with param_size (p : param) : nat :=
  S match p with MkParam _ d => osz esize d end.

Lemma lsum_in {A} (f : A -> nat) l x : In x l -> (f x <= lsum f l)%nat.
Proof. unfold lsum. induction l as [|y l IH]; cbn [fold_right In]; [tauto|]. intros [->|H]; [lia|]. specialize (IH H). lia. Qed.

Lemma strip_span0 e : expr_span (strip_spans e) = sp0.
Proof. destruct e; reflexivity. Qed.
