(* Proofs/Parser_rt_cor.v — corollaries of the round trip *)
From RJ Require Import Base.Outcome Model.Token Model.Ast Model.Parser Model.Print
  Proofs.Parser_proofs Proofs.Parser_rt Proofs.Parser_rt2 Proofs.Parser_rt3 Proofs.Parser_rt4 Proofs.Parser_rt5.
From Coq Require Import Lia.
Local Open Scope list_scope.
Local Open Scope N_scope.

Theorem parse_print_roundtrip_partial : forall e, core_expr e = true -> Print.wp e = true ->
  parse_tree spec_prec (print_tokens e) = Ok (strip_spans e).
Proof. exact roundtrip_core. Qed.

(* ---- left associativity for chains of any length *)
Lemma chain_ops_snoc op n : chain_ops op n ++ [sim (binop_tok op); ta] = sim (binop_tok op) :: ta :: chain_ops op n.
Proof. induction n as [|n IH]; [reflexivity|]. cbn [chain_ops app]. rewrite IH. reflexivity. Qed.

Lemma chain_print op n : print_expr (chain_tree op n) = ta :: chain_ops op n.
Proof.
  induction n as [|n IH]; [reflexivity|].
  cbn [chain_tree]. unfold bin. cbn [print_expr]. rewrite IH.
  change (print_expr a_) with [ta]. cbn [app]. f_equal. apply chain_ops_snoc.
Qed.

Lemma chain_core op n : core_expr (chain_tree op n) = true.
Proof. induction n as [|n IH]; [reflexivity|]. cbn [chain_tree]. unfold bin. cbn [core_expr]. rewrite IH. reflexivity. Qed.

Lemma chain_wp_lhs op n : wpx (binop_level op) false (chain_tree op n) = true.
Proof.
  induction n as [|n IH]; [reflexivity|]. cbn [chain_tree]. unfold bin. cbn [wpx]. rewrite IH.
  rewrite Nat.leb_refl. reflexivity.
Qed.

Lemma chain_wp op n : Print.wp (chain_tree op n) = true.
Proof.
  destruct n as [|n]; [reflexivity|]. unfold Print.wp. cbn [chain_tree]. unfold bin. cbn [wpx].
  rewrite chain_wp_lhs. reflexivity.
Qed.

Lemma chain_strip op n : strip_spans (chain_tree op n) = chain_tree op n.
Proof. induction n as [|n IH]; [reflexivity|]. cbn [chain_tree]. unfold bin. cbn [strip_spans]. rewrite IH. reflexivity. Qed.

Theorem left_assoc : left_assoc_goal.
Proof.
  intros op n. pose proof (parse_print_roundtrip_partial _ (chain_core op n) (chain_wp op n)) as H.
  unfold print_tokens in H. rewrite chain_print, chain_strip in H. exact H.
Qed.

(* ---- redundant parentheses, covered constructors *)
Lemma dangling_fp e : dangling (full_paren e) = false.
Proof. destruct e; reflexivity. Qed.

Lemma forallb_map_in {A B} (p : A -> bool) (q : B -> bool) (f : A -> B) l :
  (forall a, In a l -> p a = true -> q (f a) = true) -> forallb p l = true -> forallb q (map f l) = true.
Proof.
  induction l as [|x l IH]; cbn; intros H Hp; [reflexivity|].
  apply andb_true_iff in Hp as [H1 H2]. rewrite (H x (or_introl eq_refl) H1). apply IH; [|exact H2].
  intros a Hin. apply H. right; exact Hin.
Qed.

Lemma fp_all : forall n e, (esize e < n)%nat -> core_expr e = true ->
  core_expr (full_paren e) = true /\ (forall k last, wpx k last (full_paren e) = true) /\
  strip_paren (strip_spans (full_paren e)) = strip_paren (strip_spans e).
Proof.
  induction n as [|n IH]; [intros; lia|].
  intros e Hsz Hc.
  assert (Hopt : forall o, (osz esize o < n)%nat -> match o with Some y => core_expr y | None => true end = true ->
            match option_map full_paren o with Some y => core_expr y | None => true end = true /\
            opt_all (wpx 0 true) (option_map full_paren o) = true /\
            option_map strip_paren (option_map strip_spans (option_map full_paren o)) =
            option_map strip_paren (option_map strip_spans o)).
  { intros [y|] Hs Hy; cbn [option_map opt_all osz] in *; [|repeat split; reflexivity].
    destruct (IH y Hs Hy) as (A & B & C). rewrite A, B, C. repeat split; reflexivity. }
  assert (Hpar : forall p, (param_size p <= n)%nat -> pcore p = true ->
            pcore (fp_param p) = true /\ wp_param (fp_param p) = true /\
            unp_param (strip_param (fp_param p)) = unp_param (strip_param p)).
  { intros [nm d] Hs Hp. cbn [param_size pcore fp_param wp_param strip_param unp_param] in *.
    destruct (Hopt d ltac:(lia) Hp) as (A & B & C). rewrite A, B, C. repeat split; reflexivity. }
  assert (Hpars : forall l, (lsum param_size l <= n)%nat -> forallb pcore l = true ->
            forallb pcore (map fp_param l) = true /\ forallb wp_param (map fp_param l) = true /\
            map unp_param (map strip_param (map fp_param l)) = map unp_param (map strip_param l)).
  { intros l Hs Hl.
    assert (Hi : forall p, In p l -> pcore p = true -> pcore (fp_param p) = true /\ wp_param (fp_param p) = true /\
                   unp_param (strip_param (fp_param p)) = unp_param (strip_param p)).
    { intros p Hin Hp. pose proof (lsum_in param_size l p Hin). apply Hpar; [lia|exact Hp]. }
    split; [apply (forallb_map_in pcore pcore fp_param); [intros p Hin Hp; apply (Hi p Hin Hp)|exact Hl]|].
    split; [apply (forallb_map_in pcore wp_param fp_param); [intros p Hin Hp; apply (Hi p Hin Hp)|exact Hl]|].
    rewrite !map_map. apply map_ext_in. intros p Hin. apply Hi; [exact Hin|].
    rewrite forallb_forall in Hl. apply (Hl p Hin). }
  assert (HBC : forall x, (esize x < n)%nat -> core_expr x = true ->
            wpx 0 true (full_paren x) = true /\ strip_paren (strip_spans (full_paren x)) = strip_paren (strip_spans x)).
  { intros x Hx Hcx. destruct (IH x Hx Hcx) as (_ & B & C). split; [apply B|exact C]. }
  assert (Hbind : forall b, (bind_size b <= n)%nat -> core_bind b = true ->
            wp_bind (fp_bind b) = true /\ unp_bind (strip_bind (fp_bind b)) = unp_bind (strip_bind b)).
  { intros [nm ps v] Hs Hb. cbn [bind_size core_bind fp_bind wp_bind strip_bind unp_bind] in *.
    apply andb_true_iff in Hb as [Hps Hv]. destruct (HBC v ltac:(lia) Hv) as (B & C).
    destruct ps as [[l psp]|].
    - destruct (Hpars l ltac:(lia) Hps) as (_ & P2 & P3). rewrite P2, P3, B, C. split; reflexivity.
    - rewrite B, C. split; reflexivity. }
  assert (Hbinds : forall l, (lsum bind_size l <= n)%nat -> forallb core_bind l = true ->
            forallb wp_bind (map fp_bind l) = true /\
            map unp_bind (map strip_bind (map fp_bind l)) = map unp_bind (map strip_bind l)).
  { intros l Hs Hl.
    assert (Hi : forall b, In b l -> core_bind b = true ->
              wp_bind (fp_bind b) = true /\ unp_bind (strip_bind (fp_bind b)) = unp_bind (strip_bind b)).
    { intros b Hin Hb. pose proof (lsum_in bind_size l b Hin). apply Hbind; [lia|exact Hb]. }
    split; [apply (forallb_map_in core_bind wp_bind fp_bind); [intros b Hin Hb; apply (Hi b Hin Hb)|exact Hl]|].
    rewrite !map_map. apply map_ext_in. intros b Hin. apply Hi; [exact Hin|].
    rewrite forallb_forall in Hl. apply (Hl b Hin). }
  assert (Hspecs : forall l, (lsum spec_size l <= n)%nat -> forallb score l = true ->
            forallb wp_spec (map fp_spec l) = true /\
            map unp_spec (map strip_spec (map fp_spec l)) = map unp_spec (map strip_spec l)).
  { intros l Hs Hl.
    assert (Hi : forall sc, In sc l -> score sc = true ->
              wp_spec (fp_spec sc) = true /\ unp_spec (strip_spec (fp_spec sc)) = unp_spec (strip_spec sc)).
    { intros sc Hin Hsc. pose proof (lsum_in spec_size l sc Hin) as Hle.
      destruct sc as [v y|y]; cbn [score fp_spec wp_spec strip_spec unp_spec spec_size] in *;
        destruct (HBC y ltac:(lia) Hsc) as (B & C); rewrite B, C; split; reflexivity. }
    split; [apply (forallb_map_in score wp_spec fp_spec); [intros b Hin Hb; apply (Hi b Hin Hb)|exact Hl]|].
    rewrite !map_map. apply map_ext_in. intros b Hin. apply Hi; [exact Hin|].
    rewrite forallb_forall in Hl. apply (Hl b Hin). }
  assert (Hobj : forall o, (obj_size o <= n)%nat -> core_obj o = true ->
            wp_obj (fp_obj o) = true /\ unp_obj (strip_obj (fp_obj o)) = unp_obj (strip_obj o)).
  { assert (Hfname : forall nn, (fname_size nn <= n)%nat -> core_fname nn = true ->
              wp_fname (fp_fname nn) = true /\ unp_fname (strip_fname (fp_fname nn)) = unp_fname (strip_fname nn)).
    { intros [i|x sp|y sp] Hs Hf; cbn [fname_size core_fname fp_fname wp_fname strip_fname unp_fname] in *;
        try (split; reflexivity). destruct (HBC y ltac:(lia) Hf) as (B & C). rewrite B, C. split; reflexivity. }
    assert (Hfield : forall f, (field_size f <= n)%nat -> core_field f = true ->
              wp_field (fp_field f) = true /\ unp_field (strip_field (fp_field f)) = unp_field (strip_field f)).
    { intros [nn plus vis v|nn ps psp vis v] Hs Hf; cbn [field_size core_field fp_field wp_field strip_field unp_field] in *.
      - apply andb_true_iff in Hf as [Hn Hv]. destruct (Hfname nn ltac:(lia) Hn) as (B1 & C1).
        destruct (HBC v ltac:(lia) Hv) as (B2 & C2). rewrite B1, C1, B2, C2. split; reflexivity.
      - apply andb_true_iff in Hf as [Hf Hv]. apply andb_true_iff in Hf as [Hn Hps].
        destruct (Hfname nn ltac:(lia) Hn) as (B1 & C1). destruct (HBC v ltac:(lia) Hv) as (B2 & C2).
        destruct (Hpars ps ltac:(lia) Hps) as (_ & P2 & P3). rewrite B1, C1, B2, C2, P2, P3. split; reflexivity. }
    assert (Hmember : forall m, (member_size m <= n)%nat -> core_member m = true ->
              wp_member (fp_member m) = true /\ unp_member (strip_member (fp_member m)) = unp_member (strip_member m)).
    { intros [b|a|f] Hs Hm; cbn [member_size core_member fp_member wp_member strip_member unp_member] in *.
      - destruct (Hbind b ltac:(lia) Hm) as (B & C). rewrite B, C. split; reflexivity.
      - destruct a as [asp c m']. cbn [assert_size fp_assert wp_assert strip_assert unp_assert] in *.
        apply andb_true_iff in Hm as [Hc' Hm'].
        destruct (HBC c ltac:(lia) Hc') as (B1 & C1). destruct (Hopt m' ltac:(lia) Hm') as (_ & B2 & C2).
        rewrite B1, C1, B2, C2. split; reflexivity.
      - destruct (Hfield f ltac:(lia) Hm) as (B & C). rewrite B, C. split; reflexivity. }
    intros [ms|l1 name plus body l2 specs] Hs Ho; cbn [obj_size core_obj fp_obj wp_obj strip_obj unp_obj] in *.
    - assert (Hi : forall m, In m ms -> core_member m = true ->
                wp_member (fp_member m) = true /\ unp_member (strip_member (fp_member m)) = unp_member (strip_member m)).
      { intros m Hin Hm. pose proof (lsum_in member_size ms m Hin). apply Hmember; [lia|exact Hm]. }
      split; [apply (forallb_map_in core_member wp_member fp_member); [intros m Hin Hm; apply (Hi m Hin Hm)|exact Ho]|].
      f_equal. rewrite !map_map. apply map_ext_in. intros m Hin. apply Hi; [exact Hin|].
      rewrite forallb_forall in Ho. apply (Ho m Hin).
    - split_and Ho.
      destruct (Hbinds l1 ltac:(lia) Ho) as (B1 & C1). destruct (Hbinds l2 ltac:(lia) Hc2) as (B2 & C2).
      destruct (HBC name ltac:(lia) Hc4) as (Bn & Cn). destruct (HBC body ltac:(lia) Hc3) as (Bb & Cb).
      destruct (Hspecs specs ltac:(lia) Hc0) as (Bs & Cs).
      assert (E0 : specs_ok (map fp_spec specs) = true) by (destruct specs as [|[|] ?]; cbn in *; congruence).
      rewrite B1, B2, Bn, Bb, Bs, E0, C1, C2, Cn, Cb, Cs. split; reflexivity. }
  destruct e; cbn [core_expr] in Hc; try discriminate; cbn [esize] in Hsz;
    try (repeat split; reflexivity).
  - (* EParen *)
    destruct (IH e ltac:(lia) Hc) as (A & B & C).
    cbn [full_paren core_expr wpx strip_spans strip_paren]. rewrite A, B, C. repeat split; reflexivity.
  - (* EObject *)
    destruct (Hobj o ltac:(lia) Hc) as (B & C).
    assert (HB : forall k last, wpx k last (full_paren (EObject sp o)) = true).
    { intros k last. cbn [full_paren wpx]. exact B. }
    split; [apply (wp_core (S (esize (full_paren (EObject sp o)))) (full_paren (EObject sp o)) (Nat.lt_succ_diag_r _) 0%nat true (HB 0%nat true))|].
    split; [exact HB|]. cbn [full_paren strip_spans strip_paren]. rewrite C. reflexivity.
  - (* EArray *)
    assert (Hi : forall x, In x items -> core_expr x = true ->
              core_expr (full_paren x) = true /\ wpx 0 true (full_paren x) = true /\
              strip_paren (strip_spans (full_paren x)) = strip_paren (strip_spans x)).
    { intros x Hin Hx. pose proof (lsum_in esize items x Hin).
      destruct (IH x ltac:(lia) Hx) as (A & B & C). rewrite A, B, C. repeat split; reflexivity. }
    cbn [full_paren core_expr wpx strip_spans strip_paren].
    assert (E1 : forallb core_expr (map full_paren items) = true).
    { apply (forallb_map_in core_expr core_expr full_paren); [intros x Hin Hx; apply (Hi x Hin Hx)|exact Hc]. }
    assert (E2 : forallb (wpx 0 true) (map full_paren items) = true).
    { apply (forallb_map_in core_expr (wpx 0 true) full_paren); [intros x Hin Hx; apply (Hi x Hin Hx)|exact Hc]. }
    assert (E3 : map strip_paren (map strip_spans (map full_paren items)) = map strip_paren (map strip_spans items)).
    { rewrite !map_map. apply map_ext_in. intros x Hin. apply Hi; [exact Hin|].
      rewrite forallb_forall in Hc. apply (Hc x Hin). }
    rewrite E1, E2, E3. repeat split; reflexivity.
  - (* EArrayComp *)
    apply andb_true_iff in Hc as [Hc Hcs]. apply andb_true_iff in Hc as [Hcx Hok].
    destruct (IH e ltac:(lia) Hcx) as (A1 & B1 & C1).
    assert (Hs : forall sc, In sc specs -> score sc = true ->
              score (fp_spec sc) = true /\ wp_spec (fp_spec sc) = true /\
              unp_spec (strip_spec (fp_spec sc)) = unp_spec (strip_spec sc)).
    { intros sc Hin Hsc. pose proof (lsum_in spec_size specs sc Hin) as Hle.
      destruct sc as [v y|y]; cbn [score fp_spec wp_spec strip_spec unp_spec spec_size] in *;
        destruct (IH y ltac:(lia) Hsc) as (A & B & C); rewrite A, B, C; repeat split; reflexivity. }
    cbn [full_paren core_expr wpx strip_spans strip_paren andb].
    assert (E0 : specs_ok (map fp_spec specs) = true) by (destruct specs as [|[|] ?]; cbn in *; congruence).
    assert (E1 : forallb (fun c => match c with CFor _ y | CIf y => core_expr y end) (map fp_spec specs) = true).
    { apply (forallb_map_in score score fp_spec); [intros a Hin Hac; apply (Hs a Hin Hac)|exact Hcs]. }
    assert (E2 : forallb wp_spec (map fp_spec specs) = true).
    { apply (forallb_map_in score wp_spec fp_spec); [intros a Hin Hac; apply (Hs a Hin Hac)|exact Hcs]. }
    assert (E3 : map unp_spec (map strip_spec (map fp_spec specs)) = map unp_spec (map strip_spec specs)).
    { rewrite !map_map. apply map_ext_in. intros a Hin. apply Hs; [exact Hin|].
      rewrite forallb_forall in Hcs. apply (Hcs a Hin). }
    rewrite A1, !B1, C1, E0, E1, E2, E3. repeat split; reflexivity.
  - (* EField *)
    destruct (IH e ltac:(lia) Hc) as (A & B & C).
    cbn [full_paren core_expr wpx strip_spans strip_paren]. rewrite A, !B, C. repeat split; reflexivity.
  - (* EIndex *)
    apply andb_true_iff in Hc as [Hc1 Hc2].
    destruct (IH e1 ltac:(lia) Hc1) as (A1 & B1 & C1). destruct (IH e2 ltac:(lia) Hc2) as (A2 & B2 & C2).
    cbn [full_paren core_expr wpx strip_spans strip_paren andb].
    rewrite A1, A2, !B1, !B2, C1, C2. repeat split; reflexivity.
  - (* ESlice *)
    apply andb_true_iff in Hc as [Hc Hcc]. apply andb_true_iff in Hc as [Hc Hcb]. apply andb_true_iff in Hc as [Hcx Hca].
    destruct (IH e ltac:(lia) Hcx) as (A1 & B1 & C1).
    assert (Ho : forall o, (osz esize o < n)%nat -> match o with Some y => core_expr y | None => true end = true ->
              match option_map full_paren o with Some y => core_expr y | None => true end = true /\
              opt_all (wpx 0 true) (option_map full_paren o) = true /\
              option_map strip_paren (option_map strip_spans (option_map full_paren o)) =
              option_map strip_paren (option_map strip_spans o)).
    { intros [y|] Hs Hy; cbn [option_map opt_all osz] in *; [|repeat split; reflexivity].
      destruct (IH y Hs Hy) as (A & B & C). rewrite A, B, C. repeat split; reflexivity. }
    destruct (Ho a ltac:(lia) Hca) as (Aa & Ba & Ca). destruct (Ho b ltac:(lia) Hcb) as (Ab & Bb & Cb).
    destruct (Ho c ltac:(lia) Hcc) as (Ac & Bc & Cc).
    cbn [full_paren core_expr wpx strip_spans strip_paren andb].
    rewrite A1, Aa, Ab, Ac, !B1, Ba, Bb, Bc, C1, Ca, Cb, Cc. repeat split; reflexivity.
  - (* ESuperIndex *)
    destruct (IH e ltac:(lia) Hc) as (A & B & C).
    cbn [full_paren core_expr wpx strip_spans strip_paren andb]. rewrite A, !B, C. repeat split; reflexivity.
  - (* ECall *)
    apply andb_true_iff in Hc as [Hcf Hca].
    destruct (IH e ltac:(lia) Hcf) as (A1 & B1 & C1).
    assert (Ha : forall a, In a args -> acore a = true ->
              acore (fp_arg a) = true /\ wp_arg (fp_arg a) = true /\
              unp_arg (strip_arg (fp_arg a)) = unp_arg (strip_arg a)).
    { intros a Hin Hac. pose proof (lsum_in arg_size args a Hin) as Hle.
      destruct a as [y|nm y]; cbn [acore fp_arg wp_arg strip_arg unp_arg arg_size] in *;
        destruct (IH y ltac:(lia) Hac) as (A & B & C); rewrite A, B, C; repeat split; reflexivity. }
    cbn [full_paren core_expr wpx strip_spans strip_paren andb].
    rewrite A1, !B1, C1.
    assert (E1 : forallb (fun a => match a with APositional y | ANamed _ y => core_expr y end) (map fp_arg args) = true).
    { apply (forallb_map_in acore acore fp_arg); [intros a Hin Hac; apply (Ha a Hin Hac)|exact Hca]. }
    assert (E2 : forallb wp_arg (map fp_arg args) = true).
    { apply (forallb_map_in acore wp_arg fp_arg); [intros a Hin Hac; apply (Ha a Hin Hac)|exact Hca]. }
    assert (E3 : map unp_arg (map strip_arg (map fp_arg args)) = map unp_arg (map strip_arg args)).
    { rewrite !map_map. apply map_ext_in. intros a Hin. apply Ha; [exact Hin|].
      rewrite forallb_forall in Hca. apply (Hca a Hin). }
    rewrite E1, E2, E3. repeat split; reflexivity.
  - (* ELocal *)
    apply andb_true_iff in Hc as [Hc Hcb]. apply andb_true_iff in Hc as [Hne Hcbs].
    destruct (IH e ltac:(lia) Hcb) as (A1 & B1 & C1).
    assert (Hb : forall b, In b binds -> bcore b = true ->
              bcore (fp_bind b) = true /\ wp_bind (fp_bind b) = true /\
              unp_bind (strip_bind (fp_bind b)) = unp_bind (strip_bind b)).
    { intros b Hin Hbc. pose proof (lsum_in bind_size binds b Hin) as Hle.
      destruct b as [nm ps v]. cbn [bcore fp_bind wp_bind strip_bind unp_bind bind_size] in *.
      apply andb_true_iff in Hbc as [Hps Hv].
      destruct (IH v ltac:(lia) Hv) as (A & B & C).
      destruct ps as [[l psp]|].
      - destruct (Hpars l ltac:(lia) Hps) as (P1 & P2 & P3). rewrite P1, P2, P3, A, B, C. repeat split; reflexivity.
      - rewrite A, B, C. repeat split; reflexivity. }
    cbn [full_paren core_expr wpx strip_spans strip_paren andb].
    assert (E0 : negb (match map fp_bind binds with [] => true | _ => false end) = true) by (destruct binds; cbn in *; congruence).
    assert (E1 : forallb bcore (map fp_bind binds) = true).
    { apply (forallb_map_in bcore bcore fp_bind); [intros b Hin Hbc; apply (Hb b Hin Hbc)|exact Hcbs]. }
    assert (E2 : forallb wp_bind (map fp_bind binds) = true).
    { apply (forallb_map_in bcore wp_bind fp_bind); [intros b Hin Hbc; apply (Hb b Hin Hbc)|exact Hcbs]. }
    assert (E3 : map unp_bind (map strip_bind (map fp_bind binds)) = map unp_bind (map strip_bind binds)).
    { rewrite !map_map. apply map_ext_in. intros b Hin. apply Hb; [exact Hin|].
      rewrite forallb_forall in Hcbs. apply (Hcbs b Hin). }
    change (forallb (fun b => match b with MkBind _ ps v => match ps with Some (l, _) => forallb (fun p => match p with MkParam _ d => match d with Some y => core_expr y | None => true end end) l | None => true end && core_expr v end) (map fp_bind binds)) with (forallb bcore (map fp_bind binds)).
    rewrite E0, E1, E2, E3, A1, !B1, C1. repeat split; reflexivity.
  - (* EIf *)
    apply andb_true_iff in Hc as [Hc Hc3]. apply andb_true_iff in Hc as [Hc1 Hc2].
    destruct (IH e1 ltac:(lia) Hc1) as (A1 & B1 & C1). destruct (IH e2 ltac:(lia) Hc2) as (A2 & B2 & C2).
    destruct e3 as [e3|]; cbn [osz] in Hsz.
    + destruct (IH e3 ltac:(lia) Hc3) as (A3 & B3 & C3).
      cbn [full_paren core_expr wpx strip_spans strip_paren option_map dangling andb negb].
      rewrite A1, A2, A3, !B1, !B2, !B3, C1, C2, C3, dangling_fp. repeat split; reflexivity.
    + cbn [full_paren core_expr wpx strip_spans strip_paren option_map andb].
      rewrite A1, A2, !B1, !B2, C1, C2. repeat split; reflexivity.
  - (* EBinary *)
    apply andb_true_iff in Hc as [Hc1 Hc2].
    destruct (IH e1 ltac:(lia) Hc1) as (A1 & B1 & C1). destruct (IH e2 ltac:(lia) Hc2) as (A2 & B2 & C2).
    cbn [full_paren core_expr wpx strip_spans strip_paren andb].
    rewrite A1, A2, !B1, !B2, C1, C2. repeat split; reflexivity.
  - (* EUnary *)
    destruct (IH e ltac:(lia) Hc) as (A & B & C).
    cbn [full_paren core_expr wpx strip_spans strip_paren andb]. rewrite A, !B, C. repeat split; reflexivity.
  - (* EObjExt *)
    apply andb_true_iff in Hc as [Hcx Hco].
    destruct (IH e ltac:(lia) Hcx) as (A1 & B1 & C1). destruct (Hobj o ltac:(lia) Hco) as (B & C).
    assert (HB : forall k last, wpx k last (full_paren (EObjExt sp e o obj_sp)) = true).
    { intros k last. cbn [full_paren wpx]. rewrite B1, B. reflexivity. }
    split; [apply (wp_core (S (esize (full_paren (EObjExt sp e o obj_sp)))) (full_paren (EObjExt sp e o obj_sp)) (Nat.lt_succ_diag_r _) 0%nat true (HB 0%nat true))|].
    split; [exact HB|]. cbn [full_paren strip_spans strip_paren]. rewrite C1, C. reflexivity.
  - (* EFunc *)
    apply andb_true_iff in Hc as [Hcps Hcb].
    destruct (IH e ltac:(lia) Hcb) as (A1 & B1 & C1).
    destruct (Hpars params ltac:(lia) Hcps) as (P1 & P2 & P3).
    cbn [full_paren core_expr wpx strip_spans strip_paren andb].
    change (forallb (fun p => match p with MkParam _ d => match d with Some y => core_expr y | None => true end end) (map fp_param params)) with (forallb pcore (map fp_param params)).
    rewrite P1, P2, P3, A1, !B1, C1. repeat split; reflexivity.
  - (* EAssert *)
    destruct a as [asp ac am]. cbn [assert_size] in Hsz.
    apply andb_true_iff in Hc as [Hc Hcb]. apply andb_true_iff in Hc as [Hc1 Hcm].
    destruct (IH ac ltac:(lia) Hc1) as (A1 & B1 & C1). destruct (IH e ltac:(lia) Hcb) as (A2 & B2 & C2).
    destruct am as [em|]; cbn [osz] in Hsz.
    + destruct (IH em ltac:(lia) Hcm) as (A3 & B3 & C3).
      cbn [full_paren fp_assert core_expr wpx wp_assert opt_all strip_spans strip_assert strip_paren unp_assert option_map andb].
      rewrite A1, A2, A3, !B1, !B2, !B3, C1, C2, C3. repeat split; reflexivity.
    + cbn [full_paren fp_assert core_expr wpx wp_assert opt_all strip_spans strip_assert strip_paren unp_assert option_map andb].
      rewrite A1, A2, !B1, !B2, C1, C2. repeat split; reflexivity.
  - destruct (IH e ltac:(lia) Hc) as (A & B & C).
    cbn [full_paren core_expr wpx strip_spans strip_paren andb]. rewrite A, !B, C. repeat split; reflexivity.
  - destruct (IH e ltac:(lia) Hc) as (A & B & C).
    cbn [full_paren core_expr wpx strip_spans strip_paren andb]. rewrite A, !B, C. repeat split; reflexivity.
  - destruct (IH e ltac:(lia) Hc) as (A & B & C).
    cbn [full_paren core_expr wpx strip_spans strip_paren andb]. rewrite A, !B, C. repeat split; reflexivity.
  - destruct (IH e ltac:(lia) Hc) as (A & B & C).
    cbn [full_paren core_expr wpx strip_spans strip_paren andb]. rewrite A, !B, C. repeat split; reflexivity.
  - (* EInSuper *)
    destruct (IH e ltac:(lia) Hc) as (A & B & C).
    cbn [full_paren core_expr wpx strip_spans strip_paren andb]. rewrite A, !B, C. repeat split; reflexivity.
Qed.

Theorem redundant_parens_partial : forall e, core_expr e = true ->
  exists e', parse_tree spec_prec (print_tokens (full_paren e)) = Ok e' /\
             strip_paren e' = strip_paren (strip_spans e).
Proof.
  intros e Hc. destruct (fp_all (S (esize e)) e ltac:(lia) Hc) as (A & B & C).
  exists (strip_spans (full_paren e)). split.
  - apply parse_print_roundtrip_partial; [exact A|apply B].
  - exact C.
Qed.

(* ---- the full statements *)
Theorem parse_print_roundtrip : forall e, Print.wp e = true ->
  parse_tree spec_prec (print_tokens e) = Ok (strip_spans e).
Proof. exact roundtrip. Qed.

Theorem redundant_parens_equiv : forall e, Print.wp e = true ->
  exists e', parse_tree spec_prec (print_tokens (full_paren e)) = Ok e' /\
             strip_paren e' = strip_paren (strip_spans e).
Proof.
  intros e Hw. apply redundant_parens_partial.
  apply (wp_core (S (esize e)) e ltac:(lia) 0%nat true Hw).
Qed.
