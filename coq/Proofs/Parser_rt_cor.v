(* Proofs/Parser_rt_cor.v — corollaries of the round trip *)
From RJ Require Import Base.Outcome Model.Token Model.Ast Model.Parser Model.Print
  Proofs.Parser_proofs Proofs.Parser_rt Proofs.Parser_rt2 Proofs.Parser_rt3.
From Coq Require Import Lia.
Local Open Scope list_scope.
Local Open Scope N_scope.

Theorem parse_print_roundtrip_partial : forall e, core_expr e = true -> Print.wp e = true ->
  parse_tree spec_prec (print_tokens e) = Ok (strip_spans e).
Proof. exact roundtrip_core. Qed.

(* ---- left associativity for chains of any length *)
Lemma chain_ops_snoc op n : chain_ops op n ++ [sim (binop_tok op); ta] = sim (binop_tok op) :: ta :: chain_ops op n.
Proof. induction n as [|n IH]; [reflexivity|]. cbn [chain_ops app]. rewrite IH. reflexivity. Qed.

Lemma chain_print op n : print_expr (chain_tree op n) = ta :: chain_ops op n.
Proof.
  induction n as [|n IH]; [reflexivity|].
  cbn [chain_tree]. unfold bin. cbn [print_expr]. rewrite IH.
  change (print_expr a_) with [ta]. cbn [app]. f_equal. apply chain_ops_snoc.
Qed.

Lemma chain_core op n : core_expr (chain_tree op n) = true.
Proof. induction n as [|n IH]; [reflexivity|]. cbn [chain_tree]. unfold bin. cbn [core_expr]. rewrite IH. reflexivity. Qed.

Lemma chain_wp_lhs op n : wpx (binop_level op) false (chain_tree op n) = true.
Proof.
  induction n as [|n IH]; [reflexivity|]. cbn [chain_tree]. unfold bin. cbn [wpx]. rewrite IH.
  rewrite Nat.leb_refl. reflexivity.
Qed.

Lemma chain_wp op n : Print.wp (chain_tree op n) = true.
Proof.
  destruct n as [|n]; [reflexivity|]. unfold Print.wp. cbn [chain_tree]. unfold bin. cbn [wpx].
  rewrite chain_wp_lhs. reflexivity.
Qed.

Lemma chain_strip op n : strip_spans (chain_tree op n) = chain_tree op n.
Proof. induction n as [|n IH]; [reflexivity|]. cbn [chain_tree]. unfold bin. cbn [strip_spans]. rewrite IH. reflexivity. Qed.

Theorem left_assoc : left_assoc_goal.
Proof.
  intros op n. pose proof (parse_print_roundtrip_partial _ (chain_core op n) (chain_wp op n)) as H.
  unfold print_tokens in H. rewrite chain_print, chain_strip in H. exact H.
Qed.

(* ---- redundant parentheses, covered constructors *)
Lemma dangling_fp e : dangling (full_paren e) = false.
Proof. destruct e; reflexivity. Qed.

Lemma fp_all : forall n e, (esize e < n)%nat -> core_expr e = true ->
  core_expr (full_paren e) = true /\ (forall k last, wpx k last (full_paren e) = true) /\
  strip_paren (strip_spans (full_paren e)) = strip_paren (strip_spans e).
Proof.
  induction n as [|n IH]; [intros; lia|].
  intros e Hsz Hc.
  destruct e; cbn [core_expr] in Hc; try discriminate; cbn [esize] in Hsz;
    try (repeat split; reflexivity).
  - (* EParen *)
    destruct (IH e ltac:(lia) Hc) as (A & B & C).
    cbn [full_paren core_expr wpx strip_spans strip_paren]. rewrite A, B, C. repeat split; reflexivity.
  - (* EField *)
    destruct (IH e ltac:(lia) Hc) as (A & B & C).
    cbn [full_paren core_expr wpx strip_spans strip_paren]. rewrite A, !B, C. repeat split; reflexivity.
  - (* EIf *)
    apply andb_true_iff in Hc as [Hc Hc3]. apply andb_true_iff in Hc as [Hc1 Hc2].
    destruct (IH e1 ltac:(lia) Hc1) as (A1 & B1 & C1). destruct (IH e2 ltac:(lia) Hc2) as (A2 & B2 & C2).
    destruct e3 as [e3|]; cbn [osz] in Hsz.
    + destruct (IH e3 ltac:(lia) Hc3) as (A3 & B3 & C3).
      cbn [full_paren core_expr wpx strip_spans strip_paren option_map dangling andb negb].
      rewrite A1, A2, A3, !B1, !B2, !B3, C1, C2, C3, dangling_fp. repeat split; reflexivity.
    + cbn [full_paren core_expr wpx strip_spans strip_paren option_map andb].
      rewrite A1, A2, !B1, !B2, C1, C2. repeat split; reflexivity.
  - (* EBinary *)
    apply andb_true_iff in Hc as [Hc1 Hc2].
    destruct (IH e1 ltac:(lia) Hc1) as (A1 & B1 & C1). destruct (IH e2 ltac:(lia) Hc2) as (A2 & B2 & C2).
    cbn [full_paren core_expr wpx strip_spans strip_paren andb].
    rewrite A1, A2, !B1, !B2, C1, C2. repeat split; reflexivity.
  - (* EUnary *)
    destruct (IH e ltac:(lia) Hc) as (A & B & C).
    cbn [full_paren core_expr wpx strip_spans strip_paren andb]. rewrite A, !B, C. repeat split; reflexivity.
  - (* EAssert *)
    destruct a as [asp ac am]. cbn [assert_size] in Hsz.
    apply andb_true_iff in Hc as [Hc Hcb]. apply andb_true_iff in Hc as [Hc1 Hcm].
    destruct (IH ac ltac:(lia) Hc1) as (A1 & B1 & C1). destruct (IH e ltac:(lia) Hcb) as (A2 & B2 & C2).
    destruct am as [em|]; cbn [osz] in Hsz.
    + destruct (IH em ltac:(lia) Hcm) as (A3 & B3 & C3).
      cbn [full_paren fp_assert core_expr wpx wp_assert opt_all strip_spans strip_assert strip_paren unp_assert option_map andb].
      rewrite A1, A2, A3, !B1, !B2, !B3, C1, C2, C3. repeat split; reflexivity.
    + cbn [full_paren fp_assert core_expr wpx wp_assert opt_all strip_spans strip_assert strip_paren unp_assert option_map andb].
      rewrite A1, A2, !B1, !B2, C1, C2. repeat split; reflexivity.
  - destruct (IH e ltac:(lia) Hc) as (A & B & C).
    cbn [full_paren core_expr wpx strip_spans strip_paren andb]. rewrite A, !B, C. repeat split; reflexivity.
  - destruct (IH e ltac:(lia) Hc) as (A & B & C).
    cbn [full_paren core_expr wpx strip_spans strip_paren andb]. rewrite A, !B, C. repeat split; reflexivity.
  - destruct (IH e ltac:(lia) Hc) as (A & B & C).
    cbn [full_paren core_expr wpx strip_spans strip_paren andb]. rewrite A, !B, C. repeat split; reflexivity.
  - destruct (IH e ltac:(lia) Hc) as (A & B & C).
    cbn [full_paren core_expr wpx strip_spans strip_paren andb]. rewrite A, !B, C. repeat split; reflexivity.
  - (* EInSuper *)
    destruct (IH e ltac:(lia) Hc) as (A & B & C).
    cbn [full_paren core_expr wpx strip_spans strip_paren andb]. rewrite A, !B, C. repeat split; reflexivity.
Qed.

Theorem redundant_parens_partial : forall e, core_expr e = true ->
  exists e', parse_tree spec_prec (print_tokens (full_paren e)) = Ok e' /\
             strip_paren e' = strip_paren (strip_spans e).
Proof.
  intros e Hc. destruct (fp_all (S (esize e)) e ltac:(lia) Hc) as (A & B & C).
  exists (strip_spans (full_paren e)). split.
  - apply parse_print_roundtrip_partial; [exact A|apply B].
  - exact C.
Qed.
