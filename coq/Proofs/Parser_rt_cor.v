(* Proofs/Parser_rt_cor.v — corollaries of the round trip *)
From RJ Require Import Base.Outcome Model.Token Model.Ast Model.Parser Model.Print
  Proofs.Parser_proofs Proofs.Parser_rt Proofs.Parser_rt2 Proofs.Parser_rt3.
From Coq Require Import Lia.
Local Open Scope list_scope.
Local Open Scope N_scope.

Theorem parse_print_roundtrip_partial : forall e, core_expr e = true -> Print.wp e = true ->
  parse_tree spec_prec (print_tokens e) = Ok (strip_spans e).
Proof. exact roundtrip_core. Qed.

(* ---- left associativity for chains of any length *)
Lemma chain_ops_snoc op n : chain_ops op n ++ [sim (binop_tok op); ta] = sim (binop_tok op) :: ta :: chain_ops op n.
Proof. induction n as [|n IH]; [reflexivity|]. cbn [chain_ops app]. rewrite IH. reflexivity. Qed.

Lemma chain_print op n : print_expr (chain_tree op n) = ta :: chain_ops op n.
Proof.
  induction n as [|n IH]; [reflexivity|].
  cbn [chain_tree]. unfold bin. cbn [print_expr]. rewrite IH.
  change (print_expr a_) with [ta]. cbn [app]. f_equal. apply chain_ops_snoc.
Qed.

Lemma chain_core op n : core_expr (chain_tree op n) = true.
Proof. induction n as [|n IH]; [reflexivity|]. cbn [chain_tree]. unfold bin. cbn [core_expr]. rewrite IH. reflexivity. Qed.

Lemma chain_wp_lhs op n : wpx (binop_level op) false (chain_tree op n) = true.
Proof.
  induction n as [|n IH]; [reflexivity|]. cbn [chain_tree]. unfold bin. cbn [wpx]. rewrite IH.
  rewrite Nat.leb_refl. reflexivity.
Qed.

Lemma chain_wp op n : Print.wp (chain_tree op n) = true.
Proof.
  destruct n as [|n]; [reflexivity|]. unfold Print.wp. cbn [chain_tree]. unfold bin. cbn [wpx].
  rewrite chain_wp_lhs. reflexivity.
Qed.

Lemma chain_strip op n : strip_spans (chain_tree op n) = chain_tree op n.
Proof. induction n as [|n IH]; [reflexivity|]. cbn [chain_tree]. unfold bin. cbn [strip_spans]. rewrite IH. reflexivity. Qed.

Theorem left_assoc : left_assoc_goal.
Proof.
  intros op n. pose proof (parse_print_roundtrip_partial _ (chain_core op n) (chain_wp op n)) as H.
  unfold print_tokens in H. rewrite chain_print, chain_strip in H. exact H.
Qed.

(* ---- redundant parentheses, covered constructors *)
Lemma full_paren_core e : core_expr e = true -> core_expr (full_paren e) = true.
Proof.
  induction e; cbn [core_expr full_paren]; intros H; try discriminate; auto.
  apply andb_true_iff in H as [H1 H2]. rewrite IHe1, IHe2 by assumption. reflexivity.
Qed.

Lemma full_paren_wpx e : core_expr e = true -> forall k last, wpx k last (full_paren e) = true.
Proof.
  induction e; cbn [core_expr]; intros H k last; try discriminate; cbn [full_paren wpx]; auto.
  - apply andb_true_iff in H as [H1 H2]. rewrite IHe1, IHe2 by assumption. reflexivity.
  - rewrite IHe by assumption. reflexivity.
  - rewrite IHe by assumption. reflexivity.
Qed.

Lemma strip_paren_full e : core_expr e = true -> strip_paren (strip_spans (full_paren e)) = strip_paren (strip_spans e).
Proof.
  induction e; cbn [core_expr]; intros H; try discriminate; cbn [full_paren strip_spans strip_paren]; auto.
  - apply andb_true_iff in H as [H1 H2]. rewrite IHe1, IHe2 by assumption. reflexivity.
  - rewrite IHe by assumption. reflexivity.
  - rewrite IHe by assumption. reflexivity.
Qed.

Theorem redundant_parens_partial : forall e, core_expr e = true ->
  exists e', parse_tree spec_prec (print_tokens (full_paren e)) = Ok e' /\
             strip_paren e' = strip_paren (strip_spans e).
Proof.
  intros e Hc. exists (strip_spans (full_paren e)). split.
  - apply parse_print_roundtrip_partial; [apply full_paren_core; exact Hc|apply full_paren_wpx; exact Hc].
  - apply strip_paren_full; exact Hc.
Qed.
